"""Driving tree creation of the real library for the core checks."""
from __future__ import annotations

import warnings
from typing import Any

import gram
from core import ScriptedSource

from geneticengine.representations.tree.initializations import (
    FullDecider,
    MaxDepthDecider,
    PositionIndependentGrowDecider,
    ProgressivelyTerminalDecider,
)
from geneticengine.representations.tree.treebased import TreeBasedRepresentation

DECIDERS = {
    "grow": MaxDepthDecider,
    "full": FullDecider,
    "pigrow": PositionIndependentGrowDecider,
}


def make_decider(kind: str, depth: int, src, grammar):
    if kind == "progressive":
        return ProgressivelyTerminalDecider(src, grammar)
    return DECIDERS[kind](src, grammar, depth)


def create(b: gram.Built, kind: str, depth: int, draws, meta: bool = True):
    """Returns (("ok", canonical) | ("err", kind), program | None, source)."""
    src = ScriptedSource(draws)
    try:
        with warnings.catch_warnings():
            warnings.simplefilter("ignore")
            dec = make_decider(kind, depth, src, b.grammar)
            rep = TreeBasedRepresentation(b.grammar, dec)
            v = rep.create_genotype(src)
    except RecursionError:
        return None, None, src
    except Exception as e:  # noqa: BLE001
        return ["err", gram.err_kind(e)], None, src
    return ["ok", gram.canon(v, b, meta)], v, src


def depth_of(v: Any, b: gram.Built) -> int:
    """Independent traversal: longest chain of nested grammar nodes."""
    if type(v) in b.index:
        names = getattr(type(v), "__gengy_field_names__", ())
        return 1 + max([depth_of(getattr(v, n), b) for n in names] + [0])
    if isinstance(v, (list, tuple)):
        return max([depth_of(x, b) for x in v] + [0])
    return 0
