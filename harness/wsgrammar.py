"""A module-level grammar whose refinement OBJECTS persist across mappings (no postponed annotations:
`get_type_hints` would otherwise rebuild them): a `WeightedStringHandler` holding a numpy probability matrix."""
from abc import ABC
from dataclasses import dataclass
from typing import Annotated

import numpy as np

from geneticengine.grammar.grammar import extract_grammar
from geneticengine.grammar.metahandlers.ints import IntRange
from geneticengine.grammar.metahandlers.strings import WeightedStringHandler

# (the last two positions carry no information: an all-zero row and a row whose total is below the chooser's resolution -- the
# letter is then drawn uniformly, from the same source as every other decision)
MATRIX = np.array([[0.5, 0.25, 0.25, 0.0], [0.125, 0.125, 0.25, 0.5], [0.25, 0.25, 0.25, 0.25], [0.0, 0.0, 0.5, 0.5],
                   [0.0, 0.0, 0.0, 0.0], [1e-7, 2e-7, 0.0, 1e-7]])
HANDLER = WeightedStringHandler(MATRIX, ["A", "C", "G", "T"])


class E(ABC):
    pass


@dataclass
class Seq(E):
    s: Annotated[str, HANDLER]
    k: Annotated[int, IntRange(0, 9)]


@dataclass
class Join(E):
    l: E
    r: E


def grammar():
    return extract_grammar([Seq, Join], E)


from geneticengine.grammar.metahandlers.lists import ListSizeBetweenWithoutListOperations  # noqa: E402


@dataclass
class Many(E):
    """a bounded list whose refinement generates the elements itself"""
    items: Annotated[list[Seq], ListSizeBetweenWithoutListOperations(1, 3)]


def grammar_with_lists():
    return extract_grammar([Seq, Join, Many], E)
