"""The context-passing grammar of tests/representations/dependent_types_context_test.py, at module
level and WITHOUT `from __future__ import annotations` (the library resolves annotations against
the defining module's globals): user-defined metahandlers thread a list through
`rec(..., initial_values=...)` and extend it with `+`."""
from abc import ABC
from dataclasses import dataclass
from typing import Annotated

from geneticengine.grammar.grammar import extract_grammar
from geneticengine.grammar.metahandlers.base import MetaHandlerGenerator
from geneticengine.grammar.metahandlers.dependent import Dependent
from geneticengine.grammar.metahandlers.ints import IntRange
from geneticengine.grammar.metahandlers.vars import VarRange
from geneticengine.solutions.tree import GengyList


class AnyContext(MetaHandlerGenerator):
    def generate(self, random, grammar, base_type, rec, dependent_values):
        return GengyList(str, [])

    def validate(self, v) -> bool:
        return True


class ContextMH(MetaHandlerGenerator):
    def __init__(self, ctx):
        self.ctx = ctx

    def generate(self, random, grammar, base_type, rec, dependent_values):
        return rec(base_type, initial_values={"ctx": self.ctx})

    def validate(self, v) -> bool:
        return True


class Expr(ABC):
    pass


@dataclass
class Literal(Expr):
    v: Annotated[int, IntRange(0, 3)]


@dataclass
class Let(Expr):
    ctx: Annotated[list[str], AnyContext()]
    name: Annotated[str, VarRange(list("abc"))]
    body: Annotated[Expr, Dependent("ctx,name", lambda ctx, name: ContextMH(ctx + [name]))]


@dataclass
class Var(Expr):
    ctx: Annotated[list[str], AnyContext()]
    name: Annotated[str, Dependent("ctx", lambda ctx: VarRange(ctx))]


Literal.__gengy_field_names__ = ("v",)
Let.__gengy_field_names__ = ("ctx", "name", "body")
Var.__gengy_field_names__ = ("ctx", "name")
CLASSES = [Expr, Literal, Let, Var]


def make():
    """(spec for the Lean side, Built with the real classes and the extracted grammar)"""
    import gram
    lst = ("ann", ("list", "str"), ("listSize", 0, 99))
    names = ("ann", "str", ("varRange", ["a", "b", "c"]))
    spec = gram.Spec([gram.ClassSpec("Expr", True, None),
                      gram.ClassSpec("Literal", False, 0, [("v", ("ann", "int", ("intRange", 0, 3)))]),
                      gram.ClassSpec("Let", False, 0, [("ctx", lst), ("name", names), ("body", ("cls", 0))]),
                      gram.ClassSpec("Var", False, 0, [("ctx", lst), ("name", names)])], 0, [2, 3, 1])
    b = gram.Built(spec, CLASSES, {c: i for i, c in enumerate(CLASSES)})
    b.grammar = extract_grammar([Let, Var, Literal], Expr)
    return spec, b


# ---------------------------------------------------------------------------------------
# a refinement that sometimes asks the synthesiser for a class the grammar does not know
# ---------------------------------------------------------------------------------------

class XExpr(ABC):
    pass


@dataclass
class XLit(XExpr):
    v: Annotated[int, IntRange(0, 9)]


@dataclass
class XSpecial(XExpr):      # deliberately NOT listed in extract_grammar and mentioned by no field
    k: Annotated[int, IntRange(0, 1)]


class SometimesSpecial(MetaHandlerGenerator):
    """asks `rec` for XSpecial one time in four (an extension point the grammar was not told about: that creation fails)"""

    def validate(self, v) -> bool:
        return True

    def generate(self, random, grammar, base_type, rec, dependent_values):
        if random.randint(0, 3) == 0:
            return rec(XSpecial)
        return rec(base_type)


@dataclass
class XAdd(XExpr):
    l: Annotated[XExpr, SometimesSpecial()]
    r: XExpr


def unknown_symbol_grammar():
    from geneticengine.grammar.grammar import extract_grammar
    return extract_grammar([XLit, XAdd], XExpr)
