"""The context-passing grammar of tests/representations/dependent_types_context_test.py, at module
level and WITHOUT `from __future__ import annotations` (the library resolves annotations against
the defining module's globals): user-defined metahandlers thread a list through
`rec(..., initial_values=...)` and extend it with `+`."""
from abc import ABC
from dataclasses import dataclass
from typing import Annotated

from geneticengine.grammar.grammar import extract_grammar
from geneticengine.grammar.metahandlers.base import MetaHandlerGenerator
from geneticengine.grammar.metahandlers.dependent import Dependent
from geneticengine.grammar.metahandlers.ints import IntRange
from geneticengine.grammar.metahandlers.vars import VarRange
from geneticengine.solutions.tree import GengyList


class AnyContext(MetaHandlerGenerator):
    def generate(self, random, grammar, base_type, rec, dependent_values):
        return GengyList(str, [])

    def validate(self, v) -> bool:
        return True


class ContextMH(MetaHandlerGenerator):
    def __init__(self, ctx):
        self.ctx = ctx

    def generate(self, random, grammar, base_type, rec, dependent_values):
        return rec(base_type, initial_values={"ctx": self.ctx})

    def validate(self, v) -> bool:
        return True


class Expr(ABC):
    pass


@dataclass
class Literal(Expr):
    v: Annotated[int, IntRange(0, 3)]


@dataclass
class Let(Expr):
    ctx: Annotated[list[str], AnyContext()]
    name: Annotated[str, VarRange(list("abc"))]
    body: Annotated[Expr, Dependent("ctx,name", lambda ctx, name: ContextMH(ctx + [name]))]


@dataclass
class Var(Expr):
    ctx: Annotated[list[str], AnyContext()]
    name: Annotated[str, Dependent("ctx", lambda ctx: VarRange(ctx))]


Literal.__gengy_field_names__ = ("v",)
Let.__gengy_field_names__ = ("ctx", "name", "body")
Var.__gengy_field_names__ = ("ctx", "name")
CLASSES = [Expr, Literal, Let, Var]


def make():
    """(spec for the Lean side, Built with the real classes and the extracted grammar)"""
    import gram
    lst = ("ann", ("list", "str"), ("listSize", 0, 99))
    names = ("ann", "str", ("varRange", ["a", "b", "c"]))
    spec = gram.Spec([gram.ClassSpec("Expr", True, None),
                      gram.ClassSpec("Literal", False, 0, [("v", ("ann", "int", ("intRange", 0, 3)))]),
                      gram.ClassSpec("Let", False, 0, [("ctx", lst), ("name", names), ("body", ("cls", 0))]),
                      gram.ClassSpec("Var", False, 0, [("ctx", lst), ("name", names)])], 0, [2, 3, 1])
    b = gram.Built(spec, CLASSES, {c: i for i, c in enumerate(CLASSES)})
    b.grammar = extract_grammar([Let, Var, Literal], Expr)
    return spec, b


# ---------------------------------------------------------------------------------------
# a refinement that sometimes asks the synthesiser for a class the grammar does not know
# ---------------------------------------------------------------------------------------

class XExpr(ABC):
    pass


@dataclass
class XLit(XExpr):
    v: Annotated[int, IntRange(0, 9)]


@dataclass
class XSpecial(XExpr):      # deliberately NOT listed in extract_grammar and mentioned by no field
    k: Annotated[int, IntRange(0, 1)]


class SometimesSpecial(MetaHandlerGenerator):
    """asks `rec` for XSpecial one time in four (an extension point the grammar was not told about: that creation fails)"""

    def validate(self, v) -> bool:
        return True

    def generate(self, random, grammar, base_type, rec, dependent_values):
        if random.randint(0, 3) == 0:
            return rec(XSpecial)
        return rec(base_type)


@dataclass
class XAdd(XExpr):
    l: Annotated[XExpr, SometimesSpecial()]
    r: XExpr


def unknown_symbol_grammar():
    from geneticengine.grammar.grammar import extract_grammar
    return extract_grammar([XLit, XAdd], XExpr)


# ---------------------------------------------------------------------------------------
# a user refinement that presets ONE field of the node it creates (rec(..., initial_values=...)); further down a
# production has a field of the same name and another type
# ---------------------------------------------------------------------------------------

class Shape(ABC):
    pass


@dataclass
class Dot(Shape):
    r: Annotated[int, IntRange(1, 3)]


@dataclass
class Stroke(Shape):
    width: float                      # same NAME as Canvas.width, another TYPE
    inner: Shape


@dataclass
class Canvas:
    width: int
    content: Shape


class Preset(MetaHandlerGenerator):
    def __init__(self, **values):
        self.values = values

    def validate(self, v) -> bool:
        return True

    def generate(self, random, grammar, base_type, rec, dependent_values):
        return rec(base_type, initial_values=dict(self.values))


@dataclass
class Picture:
    canvas: Annotated[Canvas, Preset(width=80)]
    extra: Shape


def preset_grammar():
    return extract_grammar([Dot, Stroke, Canvas], Picture)


def preset_ill_typed(p) -> list:
    """fields whose value is not of the declared type (independent walk over the dataclass fields)"""
    bad = []
    stack = [("program", p)]
    while stack:
        path, v = stack.pop()
        if isinstance(v, Picture):
            stack += [(path + ".canvas", v.canvas), (path + ".extra", v.extra)]
            if not isinstance(v.canvas, Canvas):
                bad.append(f"{path}.canvas: {v.canvas!r} is not a Canvas")
            if not isinstance(v.extra, Shape):
                bad.append(f"{path}.extra: {v.extra!r} is not a Shape")
        elif isinstance(v, Canvas):
            if type(v.width) is not int:
                bad.append(f"{path}.width: {v.width!r} ({type(v.width).__name__}) in a field of type int")
            if not isinstance(v.content, Shape):
                bad.append(f"{path}.content: {v.content!r} is not a Shape")
            stack.append((path + ".content", v.content))
        elif isinstance(v, Stroke):
            if type(v.width) is not float:
                bad.append(f"{path}.width: {v.width!r} ({type(v.width).__name__}) in a field of type float")
            if not isinstance(v.inner, Shape):
                bad.append(f"{path}.inner: {v.inner!r} is not a Shape")
            stack.append((path + ".inner", v.inner))
        elif isinstance(v, Dot):
            if type(v.r) is not int or not 1 <= v.r <= 3:
                bad.append(f"{path}.r: {v.r!r} is not an int in 1..3")
    return bad


# ---------------------------------------------------------------------------------------
# VarRange with options that are not strings on a field declared str (class labels, as geml's rule sets pass them)
# ---------------------------------------------------------------------------------------

LABELS = [0, 1, 20]


class K(ABC):
    pass


@dataclass
class Klass(K):
    value: Annotated[str, VarRange(LABELS)]


@dataclass
class Both(K):
    l: K
    r: K


def labels_grammar():
    return extract_grammar([Klass, Both], K)


# ----------------------------------------------------------------------------------------
# float refinements whose bounds are written as int literals (FloatRange(0, 9), as the shipped
# symbolic-regression grammars do): the field still holds a float, whatever gene selects it
# ----------------------------------------------------------------------------------------
from geneticengine.grammar.metahandlers.floats import FloatRange  # noqa: E402


class FX(ABC):
    pass


@dataclass
class FLeaf(FX):
    x: Annotated[float, FloatRange(0, 9)]
    y: Annotated[float, FloatRange(-3, 3)]


@dataclass
class FNode(FX):
    l: FX
    r: FX
    z: Annotated[float, FloatRange(5, 5)]


def int_literal_float_grammar():
    return extract_grammar([FLeaf, FNode], FX)


def float_fields(p) -> list:
    """(path, value) of every refined float field of a program of the grammar above"""
    out = []
    todo = [("root", p)]
    while todo:
        path, x = todo.pop()
        if isinstance(x, FLeaf):
            out += [(path + ".x", x.x, 0, 9), (path + ".y", x.y, -3, 3)]
        elif isinstance(x, FNode):
            out.append((path + ".z", x.z, 5, 5))
            todo += [(path + ".l", x.l), (path + ".r", x.r)]
    return out


# ----------------------------------------------------------------------------------------
# leaves chosen among GIVEN objects of a terminal class (a palette): the chosen object itself becomes a leaf of the
# program, and the same object can occur several times in one program
# ----------------------------------------------------------------------------------------
class Colour:
    def __init__(self, name="colour"):
        self.name = name

    def __repr__(self):
        return self.name


def palette_grammar(expansion: bool = False):
    """fresh palette and fresh productions for every grammar (objects labelled under one grammar keep their labels)"""
    palette = [Colour("red"), Colour("green"), Colour("blue")]

    class Picture(ABC):
        pass

    @dataclass
    class Dot(Picture):
        size: Annotated[int, IntRange(1, 4)]
        ink: Annotated[Colour, VarRange(palette)]

    @dataclass
    class Frame(Picture):
        border: Annotated[Colour, VarRange(palette)]
        fill: Annotated[Colour, VarRange(palette)]
        inner: Picture

    @dataclass
    class Over(Picture):
        top: Picture
        bottom: Picture

    return extract_grammar([Dot, Frame, Over], Picture, expansion_depthing=expansion), (Picture, Dot, Frame, Over)


def palette_counts(p, classes) -> dict:
    """occurrences of every type in the program, by a walk over the constructor parameters"""
    Picture, Dot, Frame, Over = classes
    out: dict = {}
    todo = [p]
    while todo:
        x = todo.pop()
        out[type(x)] = out.get(type(x), 0) + 1
        if isinstance(x, Dot):
            todo += [x.size, x.ink]
        elif isinstance(x, Frame):
            todo += [x.border, x.fill, x.inner]
        elif isinstance(x, Over):
            todo += [x.top, x.bottom]
    return out


# ----------------------------------------------------------------------------------------
# a dependent refinement that hands a value DOWN to the child through rec(..., initial_values=...): the value handed down
# can be 0 (or empty, or False) -- it is handed down all the same
# ----------------------------------------------------------------------------------------
class Inject(MetaHandlerGenerator):
    """the generated node's `level` field is exactly `level`"""

    def __init__(self, level):
        self.level = level

    def generate(self, random, grammar, base_type, rec, dependent_values):
        return rec(base_type, initial_values={"level": self.level})

    def validate(self, v) -> bool:
        return v.level == self.level


class LExpr(ABC):
    pass


@dataclass
class LLeaf(LExpr):
    level: Annotated[int, IntRange(0, 3)]


@dataclass
class LNest(LExpr):
    level: Annotated[int, IntRange(0, 3)]
    body: Annotated[LExpr, Dependent("level", lambda level: Inject(max(level - 1, 0)))]


class LItem(ABC):
    pass


@dataclass
class LCoin(LItem):
    level: Annotated[int, IntRange(7, 9)]     # a field of the SAME NAME as the one values are handed down to, with a range of its own


@dataclass
class LBox(LExpr):
    level: Annotated[int, IntRange(0, 3)]
    item: LItem                                # a plain field: what was handed to the box is not meant for what is in it
    more: list[LItem]


@dataclass
class LTail(LExpr):
    tag: Annotated[str, VarRange(["a", "b"])]  # a generated field declared BEFORE the one values are handed down to
    level: Annotated[int, IntRange(0, 3)]
    note: Annotated[str, VarRange(["p", "q"])]


def levels_grammar():
    return extract_grammar([LLeaf, LNest, LBox, LCoin, LTail], LExpr)


def level_type_errors(e, out=None) -> list:
    """every field holds a value of its declared type (whatever was handed down, and wherever the field stands)"""
    out = [] if out is None else out
    if type(e.level) is not int:
        out.append(f"{type(e).__name__}.level holds {e.level!r} where int is declared")
    if isinstance(e, LTail):
        for f in ("tag", "note"):
            if type(getattr(e, f)) is not str:
                out.append(f"LTail.{f} holds {getattr(e, f)!r} where str is declared")
    if isinstance(e, LNest):
        if not isinstance(e.body, LExpr):
            out.append(f"LNest.body holds {e.body!r} where a production of LExpr is declared")
        else:
            level_type_errors(e.body, out)
    if isinstance(e, LBox):
        for c in [e.item] + list(e.more):
            if not isinstance(c, LCoin) or type(c.level) is not int:
                out.append(f"LBox holds {c!r} where an LCoin is declared")
    return out


def level_violations(e, out=None) -> list:
    out = [] if out is None else out
    if not (type(e.level) is int and 0 <= e.level <= 3):
        out.append(f"level {e.level!r} outside 0..3 in {e}")
    if isinstance(e, LNest):
        expected = max(e.level - 1, 0)
        if e.body.level != expected:
            out.append(f"LNest(level={e.level}) has a body with level={e.body.level}, the dependent refinement demands {expected}")
        level_violations(e.body, out)
    if isinstance(e, LTail) and not (e.tag in ("a", "b") and e.note in ("p", "q")):
        out.append(f"LTail(tag={e.tag!r}, level={e.level!r}, note={e.note!r}): tag outside a/b or note outside p/q")
    if isinstance(e, LBox):
        for c in [e.item] + list(e.more):
            if not (type(c.level) is int and 7 <= c.level <= 9):
                out.append(f"LCoin(level={c.level!r}) inside LBox(level={e.level}): outside its own range 7..9")
    return out


# ----------------------------------------------------------------------------------------
# the binding-context language again, with a TWO-LEVEL hierarchy: every direct production of the start symbol's body type is itself
# abstract (atoms, binders), the context is handed down through `initial_values`, and the atoms' only context-dependent production
# (a variable) is infeasible where the context is empty
# ----------------------------------------------------------------------------------------
class TExpr(ABC):
    pass


class TAtom(TExpr):
    pass


class TBinder(TExpr):
    pass


@dataclass
class TVar(TAtom):
    ctx: Annotated[list[str], AnyContext()]
    name: Annotated[str, Dependent("ctx", lambda ctx: VarRange(ctx))]


@dataclass
class TLit(TAtom):
    v: Annotated[int, IntRange(0, 3)]


@dataclass
class TLet(TBinder):
    ctx: Annotated[list[str], AnyContext()]
    name: Annotated[str, VarRange(list("abcd"))]
    body: Annotated[TExpr, Dependent("ctx,name", lambda ctx, name: ContextMH(list(ctx) + [name]))]


@dataclass
class TProgram:
    body: Annotated[TExpr, ContextMH([])]    # closed programs: the body starts in the empty context


def two_level_context_grammar(only_var_atoms: bool = False):
    """`only_var_atoms`: the atoms' single production is the variable, so the whole symbol TAtom fails in the empty context"""
    from geneticengine.grammar.decorators import abstract
    for c in (TExpr, TAtom, TBinder):
        abstract(c)
    nodes = [TAtom, TBinder, TVar, TLet, TProgram] + ([] if only_var_atoms else [TLit])
    return extract_grammar(nodes, TProgram)


# ----------------------------------------------------------------------------------------
# programs that hold CLASSES of the grammar as plain values (an `is-a` test names one of the productions): a class object in
# a field is a leaf like any other plain value
# ----------------------------------------------------------------------------------------
def kinds_grammar(abc_based: bool = False):
    """fresh classes for every grammar"""
    from typing import Any
    from geneticengine.grammar.decorators import abstract

    if abc_based:
        class QExpr(ABC):
            pass
    else:
        @abstract
        class QExpr:
            pass

    @dataclass
    class QLit(QExpr):
        v: Annotated[int, IntRange(0, 9)]

    @dataclass
    class QVar(QExpr):
        name: Annotated[str, VarRange(["x", "y"])]

    @dataclass
    class QPlus(QExpr):
        l: QExpr
        r: QExpr

    kinds = [QLit, QVar, QPlus]

    @dataclass
    class QIsA(QExpr):
        what: QExpr
        kind: Annotated[Any, VarRange(kinds)]

    return extract_grammar([QLit, QVar, QPlus, QIsA], QExpr), (QExpr, QLit, QVar, QPlus, QIsA)


def kinds_measure(node, classes, out):
    """(nodes, depth, weighted) of every production instance by a walk over the constructor parameters (tree-depth mode); plain
    values -- class objects included -- count nothing"""
    QExpr, QLit, QVar, QPlus, QIsA = classes
    if isinstance(node, type) or not isinstance(node, QExpr):
        return 0, 0, 0
    kids = {QLit: [], QVar: [], QPlus: ["l", "r"], QIsA: ["what"]}[type(node)]
    nodes, depth, weighted = 1, 1, 0
    for f in kids:
        n, d, w = kinds_measure(getattr(node, f), classes, out)
        nodes += n
        depth = max(depth, d + 1)
        weighted += w
    weighted += depth
    out.append((node, (nodes, depth, weighted)))
    return nodes, depth, weighted


# ---- several dependencies, NAMED in another order than the fields are declared ------------------------------------------------
# (the callable's parameters follow the names in the Dependent string; the values differ in TYPE, so a mix-up is an ill-typed field)
from geneticengine.grammar.metahandlers.ints import IntList  # noqa: E402


class UExpr(ABC):
    pass


@dataclass
class ULen(UExpr):
    unit: Annotated[str, VarRange(["px", "em"])]
    width: Annotated[int, IntRange(1, 3)]
    size: Annotated[int, Dependent("width,unit", lambda width, unit: IntList([width, 2 * width] if unit == "px" else [width]))]
    label: Annotated[str, Dependent("size,unit,width", lambda size, unit, width: VarRange([unit * width, unit + unit]))]


@dataclass
class UPair(UExpr):
    l: UExpr
    r: UExpr


class UOp(ABC):
    pass


@dataclass
class UPlus(UOp):
    pass


@dataclass
class UMinus(UOp):
    pass


@dataclass
class UTimes(UOp):
    pass


from typing import Union  # noqa: E402
from geneticengine.grammar.metahandlers.floats import FloatRange  # noqa: E402


@dataclass
class UBin(UExpr):
    """a Union one of whose alternatives is refined by a Dependent on an EARLIER SIBLING; a slot of an abstract type restricted to some of
    its (field-less) productions by a refinement"""
    lo: Annotated[int, IntRange(0, 3)]
    hi: Union[Annotated[int, Dependent("lo", lambda lo: IntRange(lo, lo + 2))], Annotated[float, FloatRange(0.0, 1.0)]]
    op: Annotated[UOp, VarRange([UPlus(), UMinus()])]
    any_op: UOp
    e: UExpr


def units_grammar(expansion: bool = False):
    return extract_grammar([ULen, UPair, UBin, UPlus, UMinus, UTimes], UExpr, expansion)


def units_type_errors(e, out=None) -> list:
    out = [] if out is None else out
    if isinstance(e, UPair):
        for c in (e.l, e.r):
            if not isinstance(c, UExpr):
                out.append(f"UPair holds {c!r} where a production of UExpr is declared")
            else:
                units_type_errors(c, out)
    elif isinstance(e, ULen):
        for f, ty in (("unit", str), ("width", int), ("size", int), ("label", str)):
            if type(getattr(e, f)) is not ty:
                out.append(f"ULen.{f} holds {getattr(e, f)!r} where {ty.__name__} is declared")
    elif isinstance(e, UBin):
        if type(e.lo) is not int:
            out.append(f"UBin.lo holds {e.lo!r} where int is declared")
        if type(e.hi) not in (int, float):
            out.append(f"UBin.hi holds {e.hi!r} where Union[int, float] is declared")
        if type(e.op) not in (UPlus, UMinus):
            out.append(f"UBin.op holds {e.op!r} where a UPlus or UMinus is declared")
        if type(e.any_op) not in (UPlus, UMinus, UTimes):
            out.append(f"UBin.any_op holds {e.any_op!r} where a production of UOp is declared")
        if not isinstance(e.e, UExpr):
            out.append(f"UBin.e holds {e.e!r} where a production of UExpr is declared")
        else:
            units_type_errors(e.e, out)
    else:
        out.append(f"{e!r} is not a production of UExpr")
    return out


# ---- a Dependent refinement one of whose dependencies is a NODE (an eq-dataclass instance: unhashable) beside a plain value ---------------
class RExpr(ABC):
    pass


@dataclass
class RWidth:
    bits: Annotated[int, IntRange(1, 10)]


@dataclass
class RReg(RExpr):
    signed: bool
    width: RWidth
    value: Annotated[int, Dependent("signed,width", lambda signed, width: IntRange(-(2 ** (width.bits - 1)) if signed else 0,
                                                                                    2 ** (width.bits - 1) - 1 if signed else 2 ** width.bits - 1))]


@dataclass
class RPair(RExpr):
    l: RExpr
    r: RExpr


def registers_grammar():
    return extract_grammar([RReg, RPair, RWidth], RExpr)


def register_violations(e, out=None) -> list:
    out = [] if out is None else out
    if isinstance(e, RPair):
        register_violations(e.l, out)
        register_violations(e.r, out)
    elif isinstance(e, RReg):
        b = e.width.bits
        lo, hi = (-(2 ** (b - 1)), 2 ** (b - 1) - 1) if e.signed else (0, 2 ** b - 1)
        if not (type(e.value) is int and lo <= e.value <= hi):
            out.append(f"RReg(signed={e.signed}, width={b} bits).value = {e.value!r} is outside {lo}..{hi}")
    return out
