/-
  Helper lemmas about the Steps model (sorting, maxima, tournament and lexicase machinery),
  shared by Props/C15, C16, C17.  Core Lean only.
-/
import GEVerif.Model.Steps
import GEVerif.Props.C18

namespace GEVerif.Steps
open GEVerif

/-! ## iterables -/

theorem Iter.iterate_fresh (it : Iter) (h : it.consumed = false) : it.iterate.1 = it.items := by
  simp [Iter.iterate, h]

/-! ## stable descending sort -/

theorem insertDesc_perm (x : Ind) (ys : List Ind) : (insertDesc x ys).Perm (x :: ys) := by
  induction ys with
  | nil => exact List.Perm.refl _
  | cons y ys ih =>
    simp only [insertDesc]
    split
    · exact ((ih.cons y).trans (List.Perm.swap x y ys))
    · exact List.Perm.refl _

theorem sortDesc_perm (xs : List Ind) : (sortDesc xs).Perm xs := by
  induction xs with
  | nil => exact List.Perm.refl _
  | cons x xs ih => exact (insertDesc_perm x _).trans (ih.cons x)

theorem sortDesc_length (xs : List Ind) : (sortDesc xs).length = xs.length := (sortDesc_perm xs).length_eq

theorem insertDesc_sorted (x : Ind) (ys : List Ind) (h : ys.Pairwise (fun a b => b.agg ≤ a.agg)) :
    (insertDesc x ys).Pairwise (fun a b => b.agg ≤ a.agg) := by
  induction ys with
  | nil => simp [insertDesc]
  | cons y ys ih =>
    simp only [insertDesc]
    have hy := List.pairwise_cons.mp h
    split
    · rename_i hgt
      refine List.pairwise_cons.mpr ⟨?_, ih hy.2⟩
      intro z hz
      have := (insertDesc_perm x ys).subset hz
      rcases List.mem_cons.mp this with rfl | hz'
      · omega
      · exact hy.1 z hz'
    · rename_i hng
      refine List.pairwise_cons.mpr ⟨?_, h⟩
      intro z hz
      rcases List.mem_cons.mp hz with rfl | hz'
      · omega
      · have := hy.1 z hz'; omega

theorem sortDesc_sorted (xs : List Ind) : (sortDesc xs).Pairwise (fun a b => b.agg ≤ a.agg) := by
  induction xs with
  | nil => simp [sortDesc]
  | cons x xs ih => exact insertDesc_sorted x _ ih

/-! ## first maximum -/

theorem maxByAgg_some {xs : List Ind} {w : Ind} (h : maxByAgg xs = some w) :
    w ∈ xs ∧ ∀ p ∈ xs, p.agg ≤ w.agg := by
  induction xs generalizing w with
  | nil => simp [maxByAgg] at h
  | cons x xs ih =>
    simp only [maxByAgg] at h
    split at h
    · rename_i hnone
      cases h
      cases xs with
      | nil => simp
      | cons y ys =>
        exfalso
        simp only [maxByAgg] at hnone
        split at hnone
        · cases hnone
        · split at hnone <;> cases hnone
    · rename_i b hb
      obtain ⟨hbm, hbmax⟩ := ih hb
      split at h
      · cases h
        refine ⟨List.mem_cons_of_mem _ hbm, ?_⟩
        intro p hp
        rcases List.mem_cons.mp hp with rfl | hp'
        · omega
        · exact hbmax p hp'
      · cases h
        refine ⟨by simp, ?_⟩
        intro p hp
        rcases List.mem_cons.mp hp with rfl | hp'
        · omega
        · have := hbmax p hp'; omega

theorem maxByAgg_ne_nil {xs : List Ind} (h : xs ≠ []) : ∃ w, maxByAgg xs = some w := by
  cases xs with
  | nil => exact absurd rfl h
  | cons x xs =>
    simp only [maxByAgg]
    split
    · exact ⟨_, rfl⟩
    · split <;> exact ⟨_, rfl⟩

/-! ## tournaments -/

section
variable {σ : Type} (src : Source σ)

theorem choice_some_mem {α : Type} {xs : List α} {s : σ} {x : α} {s' : σ}
    (h : choice src xs s = (some x, s')) : x ∈ xs := by
  unfold choice at h
  split at h
  · cases h
  · simp only at h
    split at h
    · injection h with h1 h2
      exact List.mem_of_getElem? h1
    · cases h

theorem drawN_some {cands : List Ind} : ∀ {n : Nat} {s : σ} {xs : List Ind} {s' : σ},
    drawN src cands n s = some (xs, s') → xs.length = n ∧ ∀ x ∈ xs, x ∈ cands := by
  intro n
  induction n with
  | zero => intro s xs s' h; simp [drawN] at h; obtain ⟨rfl, _⟩ := h; simp
  | succ n ih =>
    intro s xs s' h
    simp only [drawN] at h
    split at h
    · rename_i x s1 hc
      split at h
      · rename_i ys s2 hd
        cases h
        obtain ⟨hl, hm⟩ := ih hd
        refine ⟨by simp [hl], ?_⟩
        intro y hy
        rcases List.mem_cons.mp hy with rfl | hy'
        · exact choice_some_mem src hc
        · exact hm y hy'
      · cases h
    · cases h

theorem drawN_total (hs : src.Sound) {cands : List Ind} (hne : cands ≠ []) (n : Nat) (s : σ) :
    ∃ xs s', drawN src cands n s = some (xs, s') := by
  induction n generalizing s with
  | zero => exact ⟨[], s, rfl⟩
  | succ n ih =>
    obtain ⟨x, hx, _⟩ := C18.C18_choice_mem src hs cands s hne
    simp only [drawN]
    generalize hc : choice src cands s = r at hx
    obtain ⟨ox, s1⟩ := r
    simp only at hx
    subst hx
    obtain ⟨xs, s2, h2⟩ := ih s1
    simp only [h2]
    exact ⟨_, _, rfl⟩

theorem tournamentGo_total (hs : src.Sound) (pool : List Ind) (ts : Nat) (wr : Bool)
    (hts : 1 ≤ ts) (hpool : pool ≠ []) :
    ∀ (n : Nat) (cands : List Ind) (s : σ), cands ≠ [] →
      ∃ tr s', tournamentGo src pool ts wr n cands s = some (tr, s') := by
  intro n
  induction n with
  | zero => intro cands s _; exact ⟨[], s, rfl⟩
  | succ n ih =>
    intro cands s hne
    obtain ⟨parts, s1, hd⟩ := drawN_total src hs hne ts s
    have hlen := (drawN_some src hd).1
    have hpne : parts ≠ [] := by intro h; rw [h] at hlen; simp at hlen; omega
    obtain ⟨w, hw⟩ := maxByAgg_ne_nil hpne
    simp only [tournamentGo, hd, hw]
    have hc' : (if wr = true then parts else
        (let r := parts.erase w; if r.isEmpty = true then pool else r)) ≠ [] := by
      split
      · exact hpne
      · simp only
        split
        · exact hpool
        · rename_i h; intro h2; rw [h2] at h; simp at h
    obtain ⟨tr, s2, h2⟩ := ih _ s1 hc'
    simp only [h2]
    exact ⟨_, _, rfl⟩

/-- what every tournament of a successful run looks like -/
theorem tournamentGo_sound (pop pool : List Ind) (ts : Nat) (wr : Bool) (hpool : ∀ x ∈ pool, x ∈ pop) :
    ∀ (n : Nat) (cands : List Ind) (s : σ) (tr : List (List Ind × Ind)) (s' : σ),
      (∀ x ∈ cands, x ∈ pop) → tournamentGo src pool ts wr n cands s = some (tr, s') →
      tr.length = n ∧ ∀ r ∈ tr, r.1.length = ts ∧ r.2 ∈ r.1 ∧ (∀ p ∈ r.1, p ∈ pop) ∧ ∀ p ∈ r.1, p.agg ≤ r.2.agg := by
  intro n
  induction n with
  | zero => intro cands s tr s' _ h; simp [tournamentGo] at h; obtain ⟨rfl, _⟩ := h; simp
  | succ n ih =>
    intro cands s tr s' hc h
    simp only [tournamentGo] at h
    split at h
    · cases h
    · rename_i parts s1 hd
      split at h
      · cases h
      · rename_i w hw
        generalize hcd : (if wr = true then parts else
          if (parts.erase w).isEmpty = true then pool else parts.erase w) = cands' at h
        obtain ⟨hl, hm⟩ := drawN_some src hd
        obtain ⟨hwm, hwmax⟩ := maxByAgg_some hw
        have hparts : ∀ p ∈ parts, p ∈ pop := fun p hp => hc p (hm p hp)
        have hc' : ∀ x ∈ cands', x ∈ pop := by
          subst hcd
          split
          · exact hparts
          · split
            · exact hpool
            · intro x hx; exact hparts x (List.mem_of_mem_erase hx)
        cases hrec : tournamentGo src pool ts wr n cands' s1 with
        | none => rw [hrec] at h; cases h
        | some pr =>
          obtain ⟨rest, s2⟩ := pr
          rw [hrec] at h
          cases h
          obtain ⟨hl2, hr2⟩ := ih _ s1 rest _ hc' hrec
          refine ⟨by simp [hl2], ?_⟩
          intro r hr
          rcases List.mem_cons.mp hr with rfl | hr'
          · exact ⟨hl, hwm, hparts, hwmax⟩
          · exact hr2 r hr'

end
/-! ## lexicase -/

theorem insertAsc_mem (x y : Int) (ys : List Int) : y ∈ insertAsc x ys ↔ y = x ∨ y ∈ ys := by
  induction ys with
  | nil => simp [insertAsc]
  | cons z zs ih =>
    simp only [insertAsc]
    split
    · simp
    · simp only [List.mem_cons, ih]
      constructor
      · rintro (h | h | h) <;> simp [h]
      · rintro (h | h | h) <;> simp [h]

theorem sortAsc_mem (y : Int) (xs : List Int) : y ∈ sortAsc xs ↔ y ∈ xs := by
  induction xs with
  | nil => simp [sortAsc]
  | cons x xs ih => simp [sortAsc, insertAsc_mem, ih]

theorem getD_nonneg (s : List Int) (i : Nat) (h : ∀ x ∈ s, 0 ≤ x) : 0 ≤ s.getD i 0 := by
  rw [List.getD_eq_getElem?_getD]
  cases hi : s[i]? with
  | none => simp
  | some v => simpa using h v (List.mem_of_getElem? hi)

theorem median2_nonneg (xs : List Int) (h : ∀ x ∈ xs, 0 ≤ x) : 0 ≤ median2 xs := by
  have hs : ∀ x ∈ sortAsc xs, 0 ≤ x := fun x hx => h x ((sortAsc_mem x xs).mp hx)
  unfold median2
  simp only
  split
  · have := getD_nonneg (sortAsc xs) ((sortAsc xs).length / 2) hs; omega
  · have h1 := getD_nonneg (sortAsc xs) ((sortAsc xs).length / 2 - 1) hs
    have h2 := getD_nonneg (sortAsc xs) ((sortAsc xs).length / 2) hs
    omega

theorem mad4_nonneg (xs : List Int) : 0 ≤ mad4 xs := by
  unfold mad4
  apply median2_nonneg
  intro x hx
  simp only [List.mem_map] at hx
  obtain ⟨y, _, rfl⟩ := hx
  omega

theorem bestOn_mem (mn : Bool) (c : Nat) (xs : List Ind) (h : xs ≠ []) :
    ∃ x ∈ xs, compAt c x = bestOn mn c xs := by
  induction xs with
  | nil => exact absurd rfl h
  | cons x xs ih =>
    cases xs with
    | nil => exact ⟨x, by simp, by simp [bestOn]⟩
    | cons y ys =>
      obtain ⟨z, hz, hzeq⟩ := ih (by simp)
      simp only [bestOn]
      cases mn with
      | true =>
        simp only [if_true]
        by_cases hle : compAt c x ≤ bestOn true c (y :: ys)
        · exact ⟨x, by simp, by omega⟩
        · exact ⟨z, List.mem_cons_of_mem _ hz, by omega⟩
      | false =>
        simp only [Bool.false_eq_true, if_false]
        by_cases hle : bestOn false c (y :: ys) ≤ compAt c x
        · exact ⟨x, by simp, by omega⟩
        · exact ⟨z, List.mem_cons_of_mem _ hz, by omega⟩

theorem bestOn_min (c : Nat) (xs : List Ind) : ∀ x ∈ xs, bestOn true c xs ≤ compAt c x := by
  induction xs with
  | nil => simp
  | cons x xs ih =>
    cases xs with
    | nil => intro z hz; simp at hz; subst hz; simp [bestOn]
    | cons y ys =>
      intro z hz
      simp only [bestOn, if_true]
      rcases List.mem_cons.mp hz with rfl | hz'
      · omega
      · have := ih z hz'; omega

theorem bestOn_max (c : Nat) (xs : List Ind) : ∀ x ∈ xs, compAt c x ≤ bestOn false c xs := by
  induction xs with
  | nil => simp
  | cons x xs ih =>
    cases xs with
    | nil => intro z hz; simp at hz; subst hz; simp [bestOn]
    | cons y ys =>
      intro z hz
      simp only [bestOn, Bool.false_eq_true, if_false]
      rcases List.mem_cons.mp hz with rfl | hz'
      · omega
      · have := ih z hz'; omega

theorem band4_nonneg (eps : Bool) (c : Nat) (xs : List Ind) : 0 ≤ band4 eps c xs := by
  unfold band4; split
  · exact mad4_nonneg _
  · omega

theorem mem_lexFilterCase (eps mn : Bool) (c : Nat) (xs : List Ind) (w : Ind) :
    w ∈ lexFilterCase eps mn c xs ↔
      w ∈ xs ∧ (if mn then 4 * compAt c w ≤ 4 * bestOn mn c xs + band4 eps c xs
                else 4 * compAt c w ≥ 4 * bestOn mn c xs - band4 eps c xs) := by
  unfold lexFilterCase
  simp only [List.mem_filter]
  cases mn <;> simp

theorem lexFilterCase_ne_nil (eps mn : Bool) (c : Nat) (xs : List Ind) (h : xs ≠ []) :
    lexFilterCase eps mn c xs ≠ [] := by
  obtain ⟨x, hx, hxeq⟩ := bestOn_mem mn c xs h
  have hb := band4_nonneg eps c xs
  have : x ∈ lexFilterCase eps mn c xs := by
    rw [mem_lexFilterCase]
    refine ⟨hx, ?_⟩
    cases mn <;> simp <;> omega
  intro hnil; rw [hnil] at this; simp at this

theorem lexFilterCase_sublist (eps mn : Bool) (c : Nat) (xs : List Ind) :
    (lexFilterCase eps mn c xs).Sublist xs := by
  unfold lexFilterCase; exact List.filter_sublist

theorem lexFilter_sublist (eps : Bool) (mins : List Bool) (cs : List Nat) (xs : List Ind) :
    (lexFilter eps mins cs xs).Sublist xs := by
  induction cs generalizing xs with
  | nil => simp [lexFilter]
  | cons c cs ih =>
    simp only [lexFilter]
    split
    · exact (ih _).trans (lexFilterCase_sublist _ _ _ _)
    · exact List.Sublist.refl _

theorem lexFilter_ne_nil (eps : Bool) (mins : List Bool) (cs : List Nat) (xs : List Ind) (h : xs ≠ []) :
    lexFilter eps mins cs xs ≠ [] := by
  induction cs generalizing xs with
  | nil => simpa [lexFilter]
  | cons c cs ih =>
    simp only [lexFilter]
    split
    · exact ih _ (lexFilterCase_ne_nil _ _ _ _ h)
    · exact h

/-- a survivor of the whole filter passed the first case among ALL the candidates -/
theorem lexFilter_first (eps : Bool) (mins : List Bool) (c : Nat) (cs : List Nat) (xs : List Ind) (w : Ind)
    (hlen : 1 < xs.length) (h : w ∈ lexFilter eps mins (c :: cs) xs) :
    w ∈ lexFilterCase eps (mins.getD c false) c xs := by
  simp only [lexFilter] at h
  have : xs.length > 1 := hlen
  simp only [this, if_true] at h
  exact (lexFilter_sublist eps mins cs _).subset h

section
variable {σ : Type} (src : Source σ)

/-- one step of `lexicaseGo`, unfolded -/
theorem lexicaseGo_succ {nCases : Nat} {mins : List Bool} {eps : Bool} {n : Nat} {cands : List Ind} {s : σ}
    {tr : List (List Ind × List Nat × Ind)} {s' : σ}
    (h : lexicaseGo src nCases mins eps (n + 1) cands s = some (tr, s')) :
    ∃ w s2 rest, tr = (cands, (shuffle src (List.range nCases) s).1, w) :: rest ∧
      w ∈ lexFilter eps mins (shuffle src (List.range nCases) s).1 cands ∧
      lexicaseGo src nCases mins eps n (cands.erase w) s2 = some (rest, s') := by
  simp only [lexicaseGo] at h
  generalize hsh : shuffle src (List.range nCases) s = sh at h
  obtain ⟨cases, s1⟩ := sh
  simp only at h
  generalize htc : lexFilter eps mins cases cands = tc at h
  have key : ∀ (w : Ind) (s2 : σ), w ∈ tc →
      (match lexicaseGo src nCases mins eps n (cands.erase w) s2 with
        | some (rest, s3) => some ((cands, cases, w) :: rest, s3)
        | none => none) = some (tr, s') →
      ∃ w s2 rest, tr = (cands, cases, w) :: rest ∧ w ∈ tc ∧
        lexicaseGo src nCases mins eps n (cands.erase w) s2 = some (rest, s') := by
    intro w s2 hw hm
    cases hrec : lexicaseGo src nCases mins eps n (cands.erase w) s2 with
    | none => rw [hrec] at hm; cases hm
    | some pr =>
      obtain ⟨rest, s3⟩ := pr
      rw [hrec] at hm
      cases hm
      exact ⟨w, s2, rest, rfl, hw, hrec⟩
  match tc, h with
  | [], h => simp at h
  | [w], h => exact key w s1 (by simp) h
  | a :: b :: l, h =>
    simp only at h
    generalize hch : choice src (a :: b :: l) s1 = ch at h
    obtain ⟨ow, s2⟩ := ch
    cases ow with
    | none => simp at h
    | some w => exact key w s2 (choice_some_mem src hch) h

theorem lexicaseGo_length {nCases : Nat} {mins : List Bool} {eps : Bool} :
    ∀ {n : Nat} {cands : List Ind} {s : σ} {tr : List (List Ind × List Nat × Ind)} {s' : σ},
      lexicaseGo src nCases mins eps n cands s = some (tr, s') → tr.length = n := by
  intro n
  induction n with
  | zero => intro cands s tr s' h; simp [lexicaseGo] at h; simp [h.1.symm]
  | succ n ih =>
    intro cands s tr s' h
    obtain ⟨w, s2, rest, rfl, _, hrec⟩ := lexicaseGo_succ src h
    simp [ih hrec]

theorem lexicaseGo_total (hs : src.Sound) (nCases : Nat) (mins : List Bool) (eps : Bool) :
    ∀ (n : Nat) (cands : List Ind) (s : σ), n ≤ cands.length →
      ∃ tr s', lexicaseGo src nCases mins eps n cands s = some (tr, s') := by
  intro n
  induction n with
  | zero => intro cands s _; exact ⟨[], s, rfl⟩
  | succ n ih =>
    intro cands s hlen
    have hne : cands ≠ [] := by intro h; rw [h] at hlen; simp at hlen
    simp only [lexicaseGo]
    generalize hsh : shuffle src (List.range nCases) s = sh
    obtain ⟨cases, s1⟩ := sh
    simp only
    have htcne := lexFilter_ne_nil eps mins cases cands hne
    have hsub := (lexFilter_sublist eps mins cases cands).subset
    generalize htc : lexFilter eps mins cases cands = tc at htcne hsub
    have fin : ∀ (w : Ind) (s2 : σ), w ∈ tc → ∃ tr s',
        (match lexicaseGo src nCases mins eps n (cands.erase w) s2 with
          | some (rest, s3) => some ((cands, cases, w) :: rest, s3)
          | none => none) = some (tr, s') := by
      intro w s2 hw
      have hwc : w ∈ cands := hsub hw
      have : n ≤ (cands.erase w).length := by rw [List.length_erase_of_mem hwc]; omega
      obtain ⟨rest, s3, hrec⟩ := ih (cands.erase w) s2 this
      rw [hrec]; exact ⟨_, _, rfl⟩
    match tc, htcne, fin with
    | [], hne', _ => exact absurd rfl hne'
    | [w], _, fin => exact fin w s1 (by simp)
    | a :: b :: l, _, fin =>
      obtain ⟨x, hx, hxm⟩ := C18.C18_choice_mem src hs (a :: b :: l) s1 (by simp)
      simp only
      generalize hch : choice src (a :: b :: l) s1 = ch at hx
      obtain ⟨ow, s2⟩ := ch
      simp only at hx
      subst hx
      exact fin x s2 hxm

end

end GEVerif.Steps
