/-
  Helper lemmas for the string refinement's own operators (Model/StrOps.lean).
-/
import GEVerif.Model.StrOps
namespace GEVerif.StrOps
open GEVerif

variable {σ α : Type} (src : Source σ)

theorem randintE_bounds (hs : src.Sound) (lo hi : Int) (s : σ) (v : Int) (s' : σ) (h : randintE src lo hi s = (some v, s')) :
    lo ≤ v ∧ v ≤ hi := by
  unfold randintE at h
  split at h
  · next hle =>
    have hb := hs lo hi s hle
    simp only [Prod.mk.injEq, Option.some.injEq] at h
    obtain ⟨rfl, _⟩ := h
    exact hb
  · simp at h

theorem choice_some_mem (xs : List α) (s : σ) (x : α) (s' : σ) (h : choice src xs s = (some x, s')) : x ∈ xs := by
  unfold choice at h
  split at h
  · simp at h
  · simp only [Prod.mk.injEq] at h
    obtain ⟨h1, _⟩ := h
    split at h1
    · exact List.mem_of_getElem? h1
    · simp at h1

end GEVerif.StrOps
