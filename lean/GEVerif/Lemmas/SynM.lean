/-
  Basic facts about the synthesis monad `SynM` and its primitive draws, shared by the
  property proofs about `createNode`.
-/
import GEVerif.Model.Synth

namespace GEVerif

theorem SynM.bind_def {α β : Type} (m : SynM α) (f : α → SynM β) (s : SynSt) :
    (m >>= f) s = match m s with
      | .ok a s' => f a s'
      | .err e s' => .err e s' := rfl

theorem SynM.pure_def {α : Type} (a : α) (s : SynSt) : (pure a : SynM α) s = .ok a s := rfl

theorem SynM.bind_ok {α β : Type} (m : SynM α) (f : α → SynM β) (s s' : SynSt) (b : β) :
    (m >>= f) s = .ok b s' ↔ ∃ a s1, m s = .ok a s1 ∧ f a s1 = .ok b s' := by
  rw [SynM.bind_def]
  constructor
  · intro h
    split at h
    · rename_i a s1 hm
      exact ⟨a, s1, hm, h⟩
    · cases h
  · rintro ⟨a, s1, hm, hf⟩
    rw [hm]; exact hf

theorem SynM.pure_ok {α : Type} (a b : α) (s s' : SynSt) :
    (pure a : SynM α) s = .ok b s' ↔ a = b ∧ s = s' := by
  rw [SynM.pure_def]
  constructor
  · intro h; cases h; exact ⟨rfl, rfl⟩
  · rintro ⟨rfl, rfl⟩; rfl

theorem throwE_not_ok {α : Type} (e : Err) (s s' : SynSt) (b : α) :
    ¬ ((throwE e : SynM α) s = .ok b s') := by
  intro h; cases h

private theorem emod_bounds (v lo hi : Int) (h : lo ≤ hi) :
    lo ≤ v % (hi - lo + 1) + lo ∧ v % (hi - lo + 1) + lo ≤ hi := by
  have hpos : 0 < hi - lo + 1 := by omega
  have h1 := Int.emod_nonneg v (Int.ne_of_gt hpos)
  have h2 := Int.emod_lt_of_pos v hpos
  omega

/-- every source behind `AnySrc` honours the `randint` contract -/
theorem AnySrc.randint_bounds (src : AnySrc) (lo hi : Int) (h : lo ≤ hi) :
    lo ≤ (src.randint lo hi).1 ∧ (src.randint lo hi).1 ≤ hi := by
  cases src with
  | scripted s =>
    simp only [AnySrc.randint, scriptedRandint, Script.next]
    have := emod_bounds (s.draws.getD s.pos 0 : Nat) lo hi h
    omega
  | gene s =>
    simp only [AnySrc.randint, geneRandint]
    exact emod_bounds _ lo hi h

theorem rawRandintM_bounds (lo hi v : Int) (s s' : SynSt) (h : rawRandintM lo hi s = .ok v s') :
    lo ≤ v ∧ v ≤ hi := by
  unfold rawRandintM at h
  split at h
  · cases h
  · rename_i hlt
    have hb := AnySrc.randint_bounds s.src lo hi (by omega)
    generalize s.src.randint lo hi = r at h hb
    obtain ⟨v0, src'⟩ := r
    simp only at h hb
    cases h
    exact hb

theorem dsgeIntM_bounds (lo hi v : Int) (s s' : SynSt) (h : dsgeIntM lo hi s = .ok v s') :
    lo ≤ v ∧ v ≤ hi := by
  unfold dsgeIntM at h
  rw [SynM.bind_ok] at h
  obtain ⟨g, s1, _, h2⟩ := h
  split at h2
  · exact absurd h2 (throwE_not_ok _ _ _ _)
  · rename_i hlt
    rw [SynM.pure_ok] at h2
    obtain ⟨rfl, _⟩ := h2
    simp only [dsgeRandomInt]
    exact emod_bounds _ lo hi (by omega)

/-- `randint` of the global source stays within its bounds, whatever the source is -/
theorem randintM_bounds (lo hi v : Int) (s s' : SynSt) (h : randintM lo hi s = .ok v s') :
    lo ≤ v ∧ v ≤ hi := by
  unfold randintM at h
  split at h
  · exact dsgeIntM_bounds lo hi v s s' h
  · exact rawRandintM_bounds lo hi v s s' h

theorem choiceIdxM_lt (n i : Nat) (s s' : SynSt) (h : choiceIdxM n s = .ok i s') : i < n := by
  unfold choiceIdxM at h
  by_cases hn : n = 0
  · rw [if_pos hn] at h
    exact absurd h (throwE_not_ok _ _ _ _)
  · rw [if_neg hn] at h
    rw [SynM.bind_ok] at h
    obtain ⟨v, s1, h1, h2⟩ := h
    rw [SynM.pure_ok] at h2
    obtain ⟨rfl, _⟩ := h2
    have := randintM_bounds _ _ _ _ _ h1
    omega

theorem listGetM_mem {α : Type} (xs : List α) (i : Nat) (x : α) (s s' : SynSt)
    (h : listGetM xs i s = .ok x s') : x ∈ xs ∧ s' = s := by
  unfold listGetM at h
  cases hy : xs[i]? with
  | some y =>
    rw [hy] at h
    simp only at h
    rw [SynM.pure_ok] at h
    obtain ⟨rfl, rfl⟩ := h
    exact ⟨List.mem_of_getElem? hy, rfl⟩
  | none =>
    rw [hy] at h
    exact absurd h (throwE_not_ok _ _ _ _)

end GEVerif
