/-
  Depth accounting of `createNode` (property C03).

  * the decidable side conditions (`DKind.depthLimited`, `distConsistent`, `budgetOK`, ...) live
    in `Lemmas/DepthDefs.lean`.
  * `Depth.depthP_all` : the budget invariant `ctx.depth + dist ty ≤ maxDepth` at a call of any
    of the five mutually recursive creation functions bounds the depth of what it returns.
-/
import GEVerif.Model.Synth
import GEVerif.Model.Linear
import GEVerif.Model.TreeOps
import GEVerif.Lemmas.SynM
import GEVerif.Lemmas.DepthDefs


namespace GEVerif.Depth
open GEVerif


instance : LawfulBEq Sym where
  eq_of_beq {a b} h := by
    cases a <;> cases b <;> first | rfl | (exact Bool.noConfusion h) | skip
    rename_i n m
    have : (n == m) = true := h
    rw [beq_iff_eq] at this; rw [this]
  rfl {a} := by
    cases a <;> first | rfl | skip
    rename_i n
    show (n == n) = true
    exact beq_self_eq_true n

theorem Val.depth_setCtx (v : Val) (d e : Nat) : (v.setCtx d e).depth = v.depth := by
  cases v <;> simp [Val.setCtx, Val.depth]

theorem fits_iff (g : Grammar) (dec : Decider) (ctx : Ctx) (x : Ty) :
    fits g dec ctx x = true ↔ ctx.depth + g.distOf x ≤ dec.maxDepth := by
  simp only [fits, decide_eq_true_eq]; omega

theorem fits_of_fitsStrict (g : Grammar) (dec : Decider) (ctx : Ctx) (x : Ty)
    (h : fitsStrict g dec ctx x = true) : fits g dec ctx x = true := by
  simp only [fits, fitsStrict, decide_eq_true_eq] at *; omega
theorem pick_mem {α : Type} (c : List α) (s s' : SynSt) (t : α)
    (h : (do let i ← choiceIdxM c.length; listGetM c i : SynM α) s = .ok t s') : t ∈ c := by
  rw [SynM.bind_ok] at h
  obtain ⟨i, s1, _, h2⟩ := h
  exact (listGetM_mem c i t s1 s' h2).1

theorem mem_ite_isEmpty {α : Type} (c1 base : List α) (t : α)
    (h : t ∈ (if c1.isEmpty then base else c1)) : t ∈ c1 ∨ t ∈ base := by
  split at h
  · exact Or.inr h
  · exact Or.inl h

theorem mem_fullCands (g : Grammar) (dec : Decider) (alts : List Ty) (ctx : Ctx) (t : Ty)
    (h : t ∈ fullCands g dec alts ctx) : t ∈ alts ∧ fits g dec ctx t = true := by
  dsimp only [fullCands] at h
  rcases mem_ite_isEmpty _ _ _ h with h | h
  · split at h
    · rw [List.mem_filter] at h
      refine ⟨h.1, ?_⟩
      have h2 := h.2
      simp only [Bool.or_eq_true, Bool.and_eq_true, decide_eq_true_eq] at h2
      rcases h2 with h2 | h2
      · exact fits_of_fitsStrict _ _ _ _ h2.2
      · simp only [fits, decide_eq_true_eq]; omega
    · cases h
  · rw [List.mem_filter] at h; exact h

theorem mem_bite {α : Type} (b : Bool) (A B : List α) (t : α)
    (h : t ∈ (if b = true then A else B)) : t ∈ A ∨ t ∈ B := by
  cases b
  · exact Or.inr h
  · exact Or.inl h

theorem mem_pigrowCands (g : Grammar) (dec : Decider) (alts : List Ty) (ctx : Ctx) (ex : Bool) (t : Ty)
    (h : t ∈ (pigrowCands g dec alts ctx ex).2) : t ∈ alts ∧ fits g dec ctx t = true := by
  dsimp only [pigrowCands] at h
  have hbase : t ∈ alts.filter (fits g dec ctx) → t ∈ alts ∧ fits g dec ctx t = true := by
    intro h; rw [List.mem_filter] at h; exact h
  rcases mem_ite_isEmpty _ _ _ h with h | h
  · rcases mem_bite _ _ _ _ h with h | h
    · rw [List.mem_filter] at h
      refine ⟨h.1, ?_⟩
      have h2 := h.2
      simp only [Bool.and_eq_true] at h2
      exact fits_of_fitsStrict _ _ _ _ h2.2
    · exact hbase h
  · exact hbase h

theorem chooseProd_fits (g : Grammar) (dec : Decider) (key : Ty) (alts : List Ty) (ctx : Ctx)
    (s s' : SynSt) (t : Ty) (hk : dec.kind.depthLimited = true)
    (h : chooseProd g dec key alts ctx s = .ok t s') : t ∈ alts ∧ fits g dec ctx t = true := by
  have hbase : t ∈ alts.filter (fits g dec ctx) → t ∈ alts ∧ fits g dec ctx t = true := by
    intro h; rw [List.mem_filter] at h; exact h
  unfold chooseProd at h
  split at h
  · exact absurd h (throwE_not_ok _ _ _ _)
  · revert h
    cases hkind : dec.kind <;> intro h <;> dsimp only at h
    · exact hbase (pick_mem _ _ _ _ h)
    · exact mem_fullCands _ _ _ _ _ (pick_mem _ _ _ _ h)
    · exact mem_pigrowCands _ _ _ _ _ _ (pick_mem _ _ _ _ h)
    · rw [hkind] at hk; cases hk
    · rw [SynM.bind_ok] at h
      obtain ⟨v, s1, _, h2⟩ := h
      split at h2
      · exact absurd h2 (throwE_not_ok _ _ _ _)
      · exact hbase (listGetM_mem _ _ _ _ _ h2).1

theorem distConsistent_elim (g : Grammar) (hc : distConsistent g = true) (n : Nat)
    (hreg : g.reg.allNodes.contains (.cls n) = true) (halts : g.altsOf n = none)
    (hfin : lookupDist g.dist (.cls n) < INF) :
    1 ≤ lookupDist g.dist (.cls n) ∧
      ∀ f ∈ (g.cls n).fields, 1 + g.distOf f.2 ≤ lookupDist g.dist (.cls n) := by
  unfold distConsistent at hc
  rw [List.all_eq_true] at hc
  have hmem : Sym.cls n ∈ g.reg.allNodes := List.contains_iff_mem.mp hreg
  have h := hc _ hmem
  simp only [halts, Option.isSome_none, Bool.false_or, Bool.or_eq_true, Bool.not_eq_true',
    decide_eq_false_iff_not, Bool.and_eq_true, decide_eq_true_eq, List.all_eq_true] at h
  rcases h with h | h
  · exact absurd hfin h
  · exact ⟨h.1, fun f hf => h.2 f hf⟩

theorem distTysMax_ge (e : Nat) (d : DistTable) (ts : List Ty) (t : Ty) (h : t ∈ ts) :
    distTy e d t ≤ distTysMax e d ts := by
  induction ts with
  | nil => cases h
  | cons a as ih =>
    simp only [distTysMax]
    rcases List.mem_cons.mp h with rfl | h
    · omega
    · have := ih h; omega

theorem Val.depthList_cons (v : Val) (vs : List Val) :
    Val.depthList (v :: vs) = max v.depth (Val.depthList vs) := by
  simp only [Val.depthList]


theorem SynM.bind_pure_ok {α β : Type} (m : SynM α) (f : α → β) (s s' : SynSt) (b : β) :
    (m >>= fun a => (pure (f a) : SynM β)) s = .ok b s' ↔ ∃ a, m s = .ok a s' ∧ f a = b := by
  rw [SynM.bind_ok]
  constructor
  · rintro ⟨a, s1, h1, h2⟩
    rw [SynM.pure_ok] at h2
    obtain ⟨rfl, rfl⟩ := h2
    exact ⟨a, h1, rfl⟩
  · rintro ⟨a, h1, rfl⟩
    exact ⟨a, s', h1, (SynM.pure_ok _ _ _ _).2 ⟨rfl, rfl⟩⟩

/-- the combined statement proved by induction on the fuel -/
def DepthP (g : Grammar) (dec : Decider) (fuel : Nat) : Prop :=
  (∀ ty ctx deps s v s', createNode g dec fuel ty ctx deps s = .ok v s' →
      ctx.depth + g.distOf ty ≤ dec.maxDepth → ctx.depth + v.depth ≤ dec.maxDepth) ∧
  (∀ n prods ctx s v s', createAbstract g dec fuel n prods ctx s = .ok v s' →
      ctx.depth + v.depth ≤ dec.maxDepth) ∧
  (∀ fs nctx deps s vs s', createFields g dec fuel fs nctx deps s = .ok vs s' →
      nctx.depth ≤ dec.maxDepth → (∀ f ∈ fs, nctx.depth + g.distOf f.2 ≤ dec.maxDepth) →
      nctx.depth + Val.depthList vs ≤ dec.maxDepth) ∧
  (∀ t nctx deps k s vs s', createElems g dec fuel t nctx deps k s = .ok vs s' →
      nctx.depth + g.distOf t ≤ dec.maxDepth →
      nctx.depth + Val.depthList vs ≤ dec.maxDepth) ∧
  (∀ ts ctx s vs s', createTuple g dec fuel ts ctx s = .ok vs s' →
      ctx.depth ≤ dec.maxDepth → (∀ t ∈ ts, ctx.depth + g.distOf t ≤ dec.maxDepth) →
      ctx.depth + Val.depthList vs ≤ dec.maxDepth)

theorem depthP_zero (g : Grammar) (dec : Decider) : DepthP g dec 0 := by
  refine ⟨?_, ?_, ?_, ?_, ?_⟩
  · intro ty ctx deps s v s' h; simp only [createNode] at h; exact absurd h (throwE_not_ok _ _ _ _)
  · intro n prods ctx s v s' h; simp only [createAbstract] at h; exact absurd h (throwE_not_ok _ _ _ _)
  · intro fs nctx deps s vs s' h; simp only [createFields] at h; exact absurd h (throwE_not_ok _ _ _ _)
  · intro t nctx deps k s vs s' h; simp only [createElems] at h; exact absurd h (throwE_not_ok _ _ _ _)
  · intro ts ctx s vs s' h; simp only [createTuple] at h; exact absurd h (throwE_not_ok _ _ _ _)


theorem depth_abstract_succ (g : Grammar) (dec : Decider) (fuel : Nat)
    (hk : dec.kind.depthLimited = true) (ih : DepthP g dec fuel) :
    ∀ n prods ctx s v s', createAbstract g dec (fuel + 1) n prods ctx s = .ok v s' →
      ctx.depth + v.depth ≤ dec.maxDepth := by
  intro n prods ctx s v s' h
  rw [createAbstract] at h
  dsimp only at h
  split at h
  · cases h
  · split at h
    · cases h
    · rename_i rule s1 hch
      obtain ⟨_, hfit⟩ := chooseProd_fits _ _ _ _ _ _ _ _ hk hch
      rw [fits_iff] at hfit
      split at h
      · rename_i v0 s2 hcn
        cases h
        rw [Val.depth_setCtx]
        exact ih.1 _ ⟨ctx.depth, ctx.exp + 1⟩ _ _ _ _ hcn hfit
      · exact ih.2.1 _ _ _ _ _ _ h
      · cases h

theorem depth_fields_succ (g : Grammar) (dec : Decider) (fuel : Nat) (ih : DepthP g dec fuel) :
    ∀ fs nctx deps s vs s', createFields g dec (fuel + 1) fs nctx deps s = .ok vs s' →
      nctx.depth ≤ dec.maxDepth → (∀ f ∈ fs, nctx.depth + g.distOf f.2 ≤ dec.maxDepth) →
      nctx.depth + Val.depthList vs ≤ dec.maxDepth := by
  intro fs nctx deps s vs s' h hd hall
  cases fs with
  | nil =>
    simp only [createFields] at h
    rw [SynM.pure_ok] at h
    obtain ⟨rfl, _⟩ := h
    simpa [Val.depthList] using hd
  | cons f fs =>
    obtain ⟨name, t⟩ := f
    simp only [createFields] at h
    rw [SynM.bind_ok] at h
    obtain ⟨v, s1, h1, h2⟩ := h
    rw [SynM.bind_pure_ok] at h2
    obtain ⟨vs0, h2, rfl⟩ := h2
    have a := ih.1 _ _ _ _ _ _ h1 (hall (name, t) (List.mem_cons_self ..))
    have b := ih.2.2.1 _ _ _ _ _ _ h2 hd (fun f hf => hall f (List.mem_cons_of_mem _ hf))
    rw [Val.depthList_cons]; omega

theorem depth_elems_succ (g : Grammar) (dec : Decider) (fuel : Nat) (ih : DepthP g dec fuel) :
    ∀ t nctx deps k s vs s', createElems g dec (fuel + 1) t nctx deps k s = .ok vs s' →
      nctx.depth + g.distOf t ≤ dec.maxDepth →
      nctx.depth + Val.depthList vs ≤ dec.maxDepth := by
  intro t nctx deps k s vs s' h hd
  cases k with
  | zero =>
    simp only [createElems] at h
    rw [SynM.pure_ok] at h
    obtain ⟨rfl, _⟩ := h
    simp only [Val.depthList]; omega
  | succ k =>
    simp only [createElems] at h
    rw [SynM.bind_ok] at h
    obtain ⟨v, s1, h1, h2⟩ := h
    rw [SynM.bind_pure_ok] at h2
    obtain ⟨vs0, h2, rfl⟩ := h2
    have a := ih.1 _ _ _ _ _ _ h1 hd
    have b := ih.2.2.2.1 _ _ _ _ _ _ _ h2 hd
    rw [Val.depthList_cons]; omega

theorem depth_tuple_succ (g : Grammar) (dec : Decider) (fuel : Nat) (ih : DepthP g dec fuel) :
    ∀ ts ctx s vs s', createTuple g dec (fuel + 1) ts ctx s = .ok vs s' →
      ctx.depth ≤ dec.maxDepth → (∀ t ∈ ts, ctx.depth + g.distOf t ≤ dec.maxDepth) →
      ctx.depth + Val.depthList vs ≤ dec.maxDepth := by
  intro ts ctx s vs s' h hd hall
  cases ts with
  | nil =>
    simp only [createTuple] at h
    rw [SynM.pure_ok] at h
    obtain ⟨rfl, _⟩ := h
    simpa [Val.depthList] using hd
  | cons t ts =>
    simp only [createTuple] at h
    rw [SynM.bind_ok] at h
    obtain ⟨v, s1, h1, h2⟩ := h
    rw [SynM.bind_pure_ok] at h2
    obtain ⟨vs0, h2, rfl⟩ := h2
    have a := ih.1 _ _ _ _ _ _ h1 (hall t (List.mem_cons_self ..))
    have b := ih.2.2.2.2 _ _ _ _ _ h2 hd (fun f hf => hall f (List.mem_cons_of_mem _ hf))
    rw [Val.depthList_cons]; omega


theorem distOf_ann (g : Grammar) (t : Ty) (mh : MH) : g.distOf (.ann t mh) = g.distOf t := by
  simp only [Grammar.distOf, distTy]

theorem depth_node_succ (g : Grammar) (dec : Decider) (fuel : Nat)
    (hc : distConsistent g = true) (hk : dec.kind.depthLimited = true) (hD : dec.maxDepth < INF)
    (ih : DepthP g dec fuel) :
    ∀ ty ctx deps s v s', createNode g dec (fuel + 1) ty ctx deps s = .ok v s' →
      ctx.depth + g.distOf ty ≤ dec.maxDepth → ctx.depth + v.depth ≤ dec.maxDepth := by
  intro ty ctx deps s v s' h hinv
  have hd : ctx.depth ≤ dec.maxDepth := by omega
  cases ty with
  | int =>
    simp only [createNode] at h
    rw [SynM.bind_pure_ok] at h
    obtain ⟨a, _, rfl⟩ := h
    simpa [Val.depth] using hd
  | float =>
    simp only [createNode] at h
    rw [SynM.bind_pure_ok] at h
    obtain ⟨a, _, rfl⟩ := h
    simpa [Val.depth] using hd
  | str =>
    simp only [createNode] at h
    rw [SynM.pure_ok] at h
    obtain ⟨rfl, _⟩ := h
    simpa [Val.depth] using hd
  | bool =>
    simp only [createNode] at h
    rw [SynM.bind_pure_ok] at h
    obtain ⟨a, _, rfl⟩ := h
    simpa [Val.depth] using hd
  | cls n =>
    simp only [createNode] at h
    split at h
    · exact absurd h (throwE_not_ok _ _ _ _)
    · rename_i hreg
      cases halts : g.altsOf n with
      | some prods =>
        rw [halts] at h
        exact ih.2.1 _ _ _ _ _ _ h
      | none =>
        rw [halts] at h
        dsimp only at h
        rw [SynM.bind_pure_ok] at h
        obtain ⟨args, h2, rfl⟩ := h
        have hreg' : g.reg.allNodes.contains (Sym.cls n) = true := by
          simpa using hreg
        have hfin : lookupDist g.dist (.cls n) < INF := by
          simp only [Grammar.distOf, distTy] at hinv; omega
        obtain ⟨h1, hf⟩ := distConsistent_elim g hc n hreg' halts hfin
        have hinv' : ctx.depth + lookupDist g.dist (.cls n) ≤ dec.maxDepth := by
          simpa only [Grammar.distOf, distTy] using hinv
        have := ih.2.2.1 _ ⟨ctx.depth + 1, ctx.exp + 1⟩ _ _ _ _ h2 (by simp only; omega)
          (by intro f hfm; have := hf f hfm; simp only; omega)
        simp only [Val.depth]
        simp only at this
        omega
  | list t =>
    simp only [createNode] at h
    rw [SynM.bind_ok] at h
    obtain ⟨len, s1, _, h2⟩ := h
    rw [SynM.bind_pure_ok] at h2
    obtain ⟨vs, h2, rfl⟩ := h2
    have hinv' : ctx.depth + g.e + g.distOf t ≤ dec.maxDepth := by
      simp only [Grammar.distOf, distTy] at hinv ⊢; omega
    have := ih.2.2.2.1 t ⟨ctx.depth + g.e, ctx.exp + 1⟩ _ _ _ _ _ h2 hinv'
    simp only [Val.depth]
    simp only at this
    omega
  | tuple ts =>
    simp only [createNode] at h
    rw [SynM.bind_pure_ok] at h
    obtain ⟨vs, h2, rfl⟩ := h
    simp only [Val.depth]
    refine ih.2.2.2.2 _ _ _ _ _ h2 hd ?_
    intro t ht
    have := distTysMax_ge g.e g.dist ts t ht
    simp only [Grammar.distOf, distTy] at hinv ⊢; omega
  | union ts =>
    simp only [createNode] at h
    rw [SynM.bind_ok] at h
    obtain ⟨t, s1, hch, h2⟩ := h
    rw [SynM.bind_pure_ok] at h2
    obtain ⟨v0, h2, rfl⟩ := h2
    obtain ⟨_, hfit⟩ := chooseProd_fits _ _ _ _ _ _ _ _ hk hch
    rw [fits_iff] at hfit
    rw [Val.depth_setCtx]
    exact ih.1 _ _ _ _ _ _ h2 hfit
  | ann base mh =>
    rw [distOf_ann] at hinv
    have hdep : ∀ (mh' : MH) s1 v0, createNode g dec fuel (.ann base mh') ⟨ctx.depth, ctx.exp + 1⟩ deps s1 = .ok v0 s' →
        ctx.depth + (v0.setCtx ctx.depth ctx.exp).depth ≤ dec.maxDepth := by
      intro mh' s1 v0 h0
      rw [Val.depth_setCtx]
      exact ih.1 _ ⟨ctx.depth, ctx.exp + 1⟩ _ _ _ _ h0 (by rw [distOf_ann]; exact hinv)
    have hdep' : ∀ (mh0 : MH), (do
          let mh' ← resolveDep mh0 deps
          let v ← createNode g dec fuel (.ann base mh') ⟨ctx.depth, ctx.exp + 1⟩ deps
          pure (v.setCtx ctx.depth ctx.exp) : SynM Val) s = .ok v s' →
        ctx.depth + v.depth ≤ dec.maxDepth := by
      intro mh0 h0
      rw [SynM.bind_ok] at h0
      obtain ⟨mh', s1, _, h0⟩ := h0
      rw [SynM.bind_pure_ok] at h0
      obtain ⟨v0, h0, rfl⟩ := h0
      exact hdep mh' s1 v0 h0
    have hbase : v.depth = 0 → ctx.depth + v.depth ≤ dec.maxDepth := by
      intro h0; omega
    simp only [createNode] at h
    by_cases hisdep : mh.isDep = true
    · rw [if_pos hisdep] at h; exact hdep' _ h
    rw [if_neg hisdep] at h
    cases mh <;> dsimp only at h
    case depIntRangeLo => exact absurd rfl hisdep
    case depIntRangeHi => exact absurd rfl hisdep
    case depIntRangeSpan => exact absurd rfl hisdep
    case depListSize => exact absurd rfl hisdep
    case depVarFrom => exact absurd rfl hisdep
    case intRange =>
      rw [SynM.bind_pure_ok] at h
      obtain ⟨a, _, rfl⟩ := h
      exact hbase rfl
    case intList =>
      rw [SynM.bind_ok] at h
      obtain ⟨i, s1, _, h⟩ := h
      rw [SynM.bind_pure_ok] at h
      obtain ⟨a, _, rfl⟩ := h
      exact hbase rfl
    case varRange =>
      rw [SynM.bind_ok] at h
      obtain ⟨i, s1, _, h⟩ := h
      rw [SynM.bind_pure_ok] at h
      obtain ⟨a, _, rfl⟩ := h
      exact hbase rfl
    case strSize =>
      rw [SynM.bind_ok] at h
      obtain ⟨i, s1, _, h⟩ := h
      rw [SynM.bind_pure_ok] at h
      obtain ⟨a, _, rfl⟩ := h
      exact hbase rfl
    case interval =>
      rw [SynM.bind_ok] at h
      obtain ⟨i, s1, _, h⟩ := h
      rw [SynM.bind_pure_ok] at h
      obtain ⟨a, _, rfl⟩ := h
      exact hbase (by simp [Val.depth, Val.depthList])
    case floatRange =>
      rw [SynM.bind_pure_ok] at h
      obtain ⟨a, _, rfl⟩ := h
      exact hbase rfl
    case floatList =>
      rw [SynM.bind_pure_ok] at h
      obtain ⟨a, _, rfl⟩ := h
      exact hbase rfl
    case listSize lo hi =>
      split at h
      · rename_i inner
        rw [SynM.bind_ok] at h
        obtain ⟨size, s1, _, h⟩ := h
        rw [SynM.bind_pure_ok] at h
        obtain ⟨vs, h2, rfl⟩ := h
        have hinv' : ctx.depth + g.distOf inner ≤ dec.maxDepth := by
          simp only [Grammar.distOf, distTy] at hinv ⊢; omega
        have := ih.2.2.2.1 inner ⟨ctx.depth, ctx.exp + 1⟩ _ _ _ _ _ h2 hinv'
        simp only [Val.depth]
        exact this
      · exact absurd h (throwE_not_ok _ _ _ _)

mutual
theorem depth_subvalue : ∀ (v w : Val), w ∈ v.subvalues → w.depth ≤ v.depth
  | .node c d e args, w, h => by
    simp only [Val.subvalues, List.mem_cons] at h
    rcases h with rfl | h
    · exact Nat.le_refl _
    · have := depth_subvalueList args w h
      simp only [Val.depth]; omega
  | .list d e vs, w, h => by
    simp only [Val.subvalues, List.mem_cons] at h
    rcases h with rfl | h
    · exact Nat.le_refl _
    · have := depth_subvalueList vs w h
      simp only [Val.depth]; omega
  | .tuple vs, w, h => by
    simp only [Val.subvalues, List.mem_cons] at h
    rcases h with rfl | h
    · exact Nat.le_refl _
    · have := depth_subvalueList vs w h
      simp only [Val.depth]; omega
  | .int _, w, h => by
    simp only [Val.subvalues, List.mem_singleton] at h; subst h; exact Nat.le_refl _
  | .float, w, h => by
    simp only [Val.subvalues, List.mem_singleton] at h; subst h; exact Nat.le_refl _
  | .str _, w, h => by
    simp only [Val.subvalues, List.mem_singleton] at h; subst h; exact Nat.le_refl _
  | .bool _, w, h => by
    simp only [Val.subvalues, List.mem_singleton] at h; subst h; exact Nat.le_refl _
  | .foreign _, w, h => by
    simp only [Val.subvalues, List.mem_singleton] at h; subst h; exact Nat.le_refl _
theorem depth_subvalueList : ∀ (vs : List Val) (w : Val), w ∈ Val.subvaluesList vs → w.depth ≤ Val.depthList vs
  | [], w, h => by simp only [Val.subvaluesList] at h; cases h
  | v :: vs, w, h => by
    simp only [Val.subvaluesList, List.mem_append] at h
    simp only [Val.depthList]
    rcases h with h | h
    · have := depth_subvalue v w h; omega
    · have := depth_subvalueList vs w h; omega
end

theorem depth_occurrence (c : Nat) (v w : Val) (h : w ∈ occurrences c v) : w.depth ≤ v.depth := by
  unfold occurrences at h
  exact depth_subvalue v w (List.mem_filter.mp h).1

theorem depthP_all (g : Grammar) (dec : Decider) (hc : distConsistent g = true)
    (hk : dec.kind.depthLimited = true) (hD : dec.maxDepth < INF) : ∀ fuel, DepthP g dec fuel := by
  intro fuel
  induction fuel with
  | zero => exact depthP_zero g dec
  | succ fuel ih =>
    exact ⟨depth_node_succ g dec fuel hc hk hD ih, depth_abstract_succ g dec fuel hk ih,
      depth_fields_succ g dec fuel ih, depth_elems_succ g dec fuel ih, depth_tuple_succ g dec fuel ih⟩

theorem distOf_start (g : Grammar) : g.distOf (.cls g.spec.start) = g.minTreeDepth := by
  simp only [Grammar.distOf, distTy, Grammar.minTreeDepth]

/-- `mutate` at the root: a fresh tree at the stored root context, or a sub-value of the donor -/
theorem mutateRoot_depth (g : Grammar) (dec : Decider) (fuel : Nat) (i : Val) (source : Option Val)
    (s s' : SynSt) (c : Val) (hc : distConsistent g = true) (hk : dec.kind.depthLimited = true)
    (hD : dec.maxDepth < INF) (hvalid : g.minTreeDepth ≤ dec.maxDepth)
    (hroot : ∀ ctx, i.ctx = some ctx → ctx.depth + g.minTreeDepth ≤ dec.maxDepth)
    (hsrc : ∀ src, source = some src → src.depth ≤ dec.maxDepth)
    (h : mutateRoot g dec fuel i source s = .ok c s') : c.depth ≤ dec.maxDepth := by
  have hP := (depthP_all g dec hc hk hD fuel).1
  unfold mutateRoot at h
  cases hctx : i.ctx with
  | none =>
    rw [hctx] at h
    dsimp only at h
    have := hP _ _ _ _ _ _ h (by rw [distOf_start]; simpa using hvalid)
    simpa using this
  | some ctx =>
    rw [hctx] at h
    dsimp only at h
    have hfresh : createNode g dec fuel (.cls g.spec.start) ctx [] s = .ok c s' →
        c.depth ≤ dec.maxDepth := by
      intro h
      have := hP _ _ _ _ _ _ h (by rw [distOf_start]; exact hroot ctx hctx)
      omega
    cases source with
    | none => exact hfresh h
    | some src =>
      dsimp only at h
      by_cases hemp : (occurrences g.spec.start src).isEmpty = true
      · rw [if_pos hemp] at h; exact hfresh h
      · rw [if_neg hemp] at h
        have hmem := pick_mem _ _ _ _ h
        exact Nat.le_trans (depth_occurrence _ _ _ hmem) (hsrc src rfl)

end GEVerif.Depth

/-! ### Hereditary budget invariant: stored contexts stay usable (variation sequences) -/


namespace GEVerif.Depth
open GEVerif

theorem ctx_setCtx (v : Val) (d e : Nat) (c : Ctx) (h : (v.setCtx d e).ctx = some c) : c.depth = d := by
  cases v <;> simp only [Val.setCtx, Val.ctx, Option.some.injEq] at h <;> first | (subst h; rfl) | cases h

theorem budgetOK_setCtx (g : Grammar) (D : Nat) (v : Val) (d e : Nat)
    (hctx : ∀ c, v.ctx = some c → c.depth = d) (h : budgetOK g D v = true) :
    budgetOK g D (v.setCtx d e) = true := by
  cases v with
  | node c d0 e0 args =>
    have : d0 = d := hctx ⟨d0, e0⟩ rfl
    subst this
    simpa only [Val.setCtx, budgetOK] using h
  | list d0 e0 vs =>
    have : d0 = d := hctx ⟨d0, e0⟩ rfl
    subst this
    simpa only [Val.setCtx, budgetOK] using h
  | _ => simpa only [Val.setCtx] using h

mutual
theorem budgetOK_subvalue (g : Grammar) (D : Nat) : ∀ (v w : Val), w ∈ v.subvalues →
    budgetOK g D v = true → budgetOK g D w = true
  | .node c d e args, w, h, hb => by
    simp only [Val.subvalues, List.mem_cons] at h
    rcases h with rfl | h
    · exact hb
    · simp only [budgetOK, Bool.and_eq_true] at hb
      exact budgetOK_subvalueList g D args w h hb.2
  | .list d e vs, w, h, hb => by
    simp only [Val.subvalues, List.mem_cons] at h
    rcases h with rfl | h
    · exact hb
    · simp only [budgetOK, Bool.and_eq_true] at hb
      exact budgetOK_subvalueList g D vs w h hb.2
  | .tuple vs, w, h, hb => by
    simp only [Val.subvalues, List.mem_cons] at h
    rcases h with rfl | h
    · exact hb
    · simp only [budgetOK] at hb
      exact budgetOK_subvalueList g D vs w h hb
  | .int _, w, h, hb => by
    simp only [Val.subvalues, List.mem_singleton] at h; subst h; exact hb
  | .float, w, h, hb => by
    simp only [Val.subvalues, List.mem_singleton] at h; subst h; exact hb
  | .str _, w, h, hb => by
    simp only [Val.subvalues, List.mem_singleton] at h; subst h; exact hb
  | .bool _, w, h, hb => by
    simp only [Val.subvalues, List.mem_singleton] at h; subst h; exact hb
  | .foreign _, w, h, hb => by
    simp only [Val.subvalues, List.mem_singleton] at h; subst h; exact hb
theorem budgetOK_subvalueList (g : Grammar) (D : Nat) : ∀ (vs : List Val) (w : Val),
    w ∈ Val.subvaluesList vs → budgetOKList g D vs = true → budgetOK g D w = true
  | [], w, h, _ => by simp only [Val.subvaluesList] at h; cases h
  | v :: vs, w, h, hb => by
    simp only [Val.subvaluesList, List.mem_append] at h
    simp only [budgetOKList, Bool.and_eq_true] at hb
    rcases h with h | h
    · exact budgetOK_subvalue g D v w h hb.1
    · exact budgetOK_subvalueList g D vs w h hb.2
end


theorem createAbstract_ctx (g : Grammar) (dec : Decider) : ∀ fuel n prods ctx s v s',
    createAbstract g dec fuel n prods ctx s = .ok v s' → ∀ c, v.ctx = some c → c.depth = ctx.depth := by
  intro fuel
  induction fuel with
  | zero =>
    intro n prods ctx s v s' h
    simp only [createAbstract] at h; exact absurd h (throwE_not_ok _ _ _ _)
  | succ fuel ih =>
    intro n prods ctx s v s' h
    rw [createAbstract] at h
    dsimp only at h
    split at h
    · cases h
    · split at h
      · cases h
      · split at h
        · cases h
          intro c hc
          exact ctx_setCtx _ _ _ _ hc
        · exact ih _ _ _ _ _ _ h
        · cases h

/-- what `create_node` returns carries the depth of the context it was called with -/
theorem createNode_ctx (g : Grammar) (dec : Decider) (fuel : Nat) (ty : Ty) (ctx : Ctx)
    (deps : List (String × Val)) (s s' : SynSt) (v : Val)
    (h : createNode g dec fuel ty ctx deps s = .ok v s') :
    ∀ c, v.ctx = some c → c.depth = ctx.depth := by
  cases fuel with
  | zero => simp only [createNode] at h; exact absurd h (throwE_not_ok _ _ _ _)
  | succ fuel =>
    have hnone : v.ctx = none → ∀ c, v.ctx = some c → c.depth = ctx.depth := by
      intro h0 c hc; rw [h0] at hc; cases hc
    cases ty with
    | int =>
      simp only [createNode] at h
      rw [SynM.bind_pure_ok] at h
      obtain ⟨a, _, rfl⟩ := h
      exact hnone rfl
    | float =>
      simp only [createNode] at h
      rw [SynM.bind_pure_ok] at h
      obtain ⟨a, _, rfl⟩ := h
      exact hnone rfl
    | str =>
      simp only [createNode] at h
      rw [SynM.pure_ok] at h
      obtain ⟨rfl, _⟩ := h
      exact hnone rfl
    | bool =>
      simp only [createNode] at h
      rw [SynM.bind_pure_ok] at h
      obtain ⟨a, _, rfl⟩ := h
      exact hnone rfl
    | cls n =>
      simp only [createNode] at h
      split at h
      · exact absurd h (throwE_not_ok _ _ _ _)
      · cases halts : g.altsOf n with
        | some prods =>
          rw [halts] at h
          exact createAbstract_ctx g dec _ _ _ _ _ _ _ h
        | none =>
          rw [halts] at h
          dsimp only at h
          rw [SynM.bind_pure_ok] at h
          obtain ⟨args, _, rfl⟩ := h
          intro c hc
          simp only [Val.ctx, Option.some.injEq] at hc
          subst hc; rfl
    | list t =>
      simp only [createNode] at h
      rw [SynM.bind_ok] at h
      obtain ⟨len, s1, _, h2⟩ := h
      rw [SynM.bind_pure_ok] at h2
      obtain ⟨vs, _, rfl⟩ := h2
      intro c hc
      simp only [Val.ctx, Option.some.injEq] at hc
      subst hc; rfl
    | tuple ts =>
      simp only [createNode] at h
      rw [SynM.bind_pure_ok] at h
      obtain ⟨vs, _, rfl⟩ := h
      exact hnone rfl
    | union ts =>
      simp only [createNode] at h
      rw [SynM.bind_ok] at h
      obtain ⟨t, s1, _, h2⟩ := h
      rw [SynM.bind_pure_ok] at h2
      obtain ⟨v0, _, rfl⟩ := h2
      intro c hc
      exact ctx_setCtx _ _ _ _ hc
    | ann base mh =>
      simp only [createNode] at h
      by_cases hisdep : mh.isDep = true
      · rw [if_pos hisdep] at h
        rw [SynM.bind_ok] at h
        obtain ⟨mh', s1, _, h⟩ := h
        rw [SynM.bind_pure_ok] at h
        obtain ⟨v0, _, rfl⟩ := h
        intro c hc
        exact ctx_setCtx _ _ _ _ hc
      rw [if_neg hisdep] at h
      cases mh <;> dsimp only at h
      case depIntRangeLo => exact absurd rfl hisdep
      case depIntRangeHi => exact absurd rfl hisdep
      case depIntRangeSpan => exact absurd rfl hisdep
      case depListSize => exact absurd rfl hisdep
      case depVarFrom => exact absurd rfl hisdep
      case intRange =>
        rw [SynM.bind_pure_ok] at h
        obtain ⟨a, _, rfl⟩ := h
        exact hnone rfl
      case intList =>
        rw [SynM.bind_ok] at h
        obtain ⟨i, s1, _, h⟩ := h
        rw [SynM.bind_pure_ok] at h
        obtain ⟨a, _, rfl⟩ := h
        exact hnone rfl
      case varRange =>
        rw [SynM.bind_ok] at h
        obtain ⟨i, s1, _, h⟩ := h
        rw [SynM.bind_pure_ok] at h
        obtain ⟨a, _, rfl⟩ := h
        exact hnone rfl
      case strSize =>
        rw [SynM.bind_ok] at h
        obtain ⟨i, s1, _, h⟩ := h
        rw [SynM.bind_pure_ok] at h
        obtain ⟨a, _, rfl⟩ := h
        exact hnone rfl
      case interval =>
        rw [SynM.bind_ok] at h
        obtain ⟨i, s1, _, h⟩ := h
        rw [SynM.bind_pure_ok] at h
        obtain ⟨a, _, rfl⟩ := h
        exact hnone rfl
      case floatRange =>
        rw [SynM.bind_pure_ok] at h
        obtain ⟨a, _, rfl⟩ := h
        exact hnone rfl
      case floatList =>
        rw [SynM.bind_pure_ok] at h
        obtain ⟨a, _, rfl⟩ := h
        exact hnone rfl
      case listSize lo hi =>
        split at h
        · rw [SynM.bind_ok] at h
          obtain ⟨size, s1, _, h⟩ := h
          rw [SynM.bind_pure_ok] at h
          obtain ⟨vs, _, rfl⟩ := h
          intro c hc
          simp only [Val.ctx, Option.some.injEq] at hc
          subst hc; rfl
        · exact absurd h (throwE_not_ok _ _ _ _)


theorem concrete_inv (g : Grammar) (dec : Decider) (hc : distConsistent g = true)
    (hD : dec.maxDepth < INF) (n : Nat) (ctx : Ctx)
    (hreg : ¬(!g.reg.allNodes.contains (Sym.cls n)) = true) (halts : g.altsOf n = none)
    (hinv : ctx.depth + g.distOf (.cls n) ≤ dec.maxDepth) :
    ctx.depth + 1 ≤ dec.maxDepth ∧
      ∀ f ∈ (g.cls n).fields, ctx.depth + 1 + g.distOf f.2 ≤ dec.maxDepth := by
  have hreg' : g.reg.allNodes.contains (Sym.cls n) = true := by simpa using hreg
  have hinv' : ctx.depth + lookupDist g.dist (.cls n) ≤ dec.maxDepth := by
    simpa only [Grammar.distOf, distTy] using hinv
  obtain ⟨h1, hf⟩ := distConsistent_elim g hc n hreg' halts (by omega)
  exact ⟨by omega, fun f hfm => by have := hf f hfm; omega⟩

/-- second fuel induction: everything created is `budgetOK` -/
def BudgetP (g : Grammar) (dec : Decider) (fuel : Nat) : Prop :=
  (∀ ty ctx deps s v s', createNode g dec fuel ty ctx deps s = .ok v s' →
      ctx.depth + g.distOf ty ≤ dec.maxDepth → budgetOK g dec.maxDepth v = true) ∧
  (∀ n prods ctx s v s', createAbstract g dec fuel n prods ctx s = .ok v s' →
      budgetOK g dec.maxDepth v = true) ∧
  (∀ fs nctx deps s vs s', createFields g dec fuel fs nctx deps s = .ok vs s' →
      (∀ f ∈ fs, nctx.depth + g.distOf f.2 ≤ dec.maxDepth) →
      budgetOKList g dec.maxDepth vs = true) ∧
  (∀ t nctx deps k s vs s', createElems g dec fuel t nctx deps k s = .ok vs s' →
      nctx.depth + g.distOf t ≤ dec.maxDepth → budgetOKList g dec.maxDepth vs = true) ∧
  (∀ ts ctx s vs s', createTuple g dec fuel ts ctx s = .ok vs s' →
      (∀ t ∈ ts, ctx.depth + g.distOf t ≤ dec.maxDepth) → budgetOKList g dec.maxDepth vs = true)

theorem budgetP_zero (g : Grammar) (dec : Decider) : BudgetP g dec 0 := by
  refine ⟨?_, ?_, ?_, ?_, ?_⟩
  · intro ty ctx deps s v s' h; simp only [createNode] at h; exact absurd h (throwE_not_ok _ _ _ _)
  · intro n prods ctx s v s' h; simp only [createAbstract] at h; exact absurd h (throwE_not_ok _ _ _ _)
  · intro fs nctx deps s vs s' h; simp only [createFields] at h; exact absurd h (throwE_not_ok _ _ _ _)
  · intro t nctx deps k s vs s' h; simp only [createElems] at h; exact absurd h (throwE_not_ok _ _ _ _)
  · intro ts ctx s vs s' h; simp only [createTuple] at h; exact absurd h (throwE_not_ok _ _ _ _)

theorem budget_abstract_succ (g : Grammar) (dec : Decider) (fuel : Nat)
    (hk : dec.kind.depthLimited = true) (ih : BudgetP g dec fuel) :
    ∀ n prods ctx s v s', createAbstract g dec (fuel + 1) n prods ctx s = .ok v s' →
      budgetOK g dec.maxDepth v = true := by
  intro n prods ctx s v s' h
  rw [createAbstract] at h
  dsimp only at h
  split at h
  · cases h
  · split at h
    · cases h
    · rename_i rule s1 hch
      obtain ⟨_, hfit⟩ := chooseProd_fits _ _ _ _ _ _ _ _ hk hch
      rw [fits_iff] at hfit
      split at h
      · rename_i v0 s2 hcn
        cases h
        exact budgetOK_setCtx _ _ _ _ _
          (createNode_ctx g dec fuel rule ⟨ctx.depth, ctx.exp + 1⟩ _ _ _ _ hcn)
          (ih.1 _ ⟨ctx.depth, ctx.exp + 1⟩ _ _ _ _ hcn hfit)
      · exact ih.2.1 _ _ _ _ _ _ h
      · cases h

theorem budget_fields_succ (g : Grammar) (dec : Decider) (fuel : Nat) (ih : BudgetP g dec fuel) :
    ∀ fs nctx deps s vs s', createFields g dec (fuel + 1) fs nctx deps s = .ok vs s' →
      (∀ f ∈ fs, nctx.depth + g.distOf f.2 ≤ dec.maxDepth) →
      budgetOKList g dec.maxDepth vs = true := by
  intro fs nctx deps s vs s' h hall
  cases fs with
  | nil =>
    simp only [createFields] at h
    rw [SynM.pure_ok] at h
    obtain ⟨rfl, _⟩ := h
    simp only [budgetOKList]
  | cons f fs =>
    obtain ⟨name, t⟩ := f
    simp only [createFields] at h
    rw [SynM.bind_ok] at h
    obtain ⟨v, s1, h1, h2⟩ := h
    rw [SynM.bind_pure_ok] at h2
    obtain ⟨vs0, h2, rfl⟩ := h2
    have a := ih.1 _ _ _ _ _ _ h1 (hall (name, t) (List.mem_cons_self ..))
    have b := ih.2.2.1 _ _ _ _ _ _ h2 (fun f hf => hall f (List.mem_cons_of_mem _ hf))
    simp only [budgetOKList, a, b, Bool.and_self]

theorem budget_elems_succ (g : Grammar) (dec : Decider) (fuel : Nat) (ih : BudgetP g dec fuel) :
    ∀ t nctx deps k s vs s', createElems g dec (fuel + 1) t nctx deps k s = .ok vs s' →
      nctx.depth + g.distOf t ≤ dec.maxDepth → budgetOKList g dec.maxDepth vs = true := by
  intro t nctx deps k s vs s' h hd
  cases k with
  | zero =>
    simp only [createElems] at h
    rw [SynM.pure_ok] at h
    obtain ⟨rfl, _⟩ := h
    simp only [budgetOKList]
  | succ k =>
    simp only [createElems] at h
    rw [SynM.bind_ok] at h
    obtain ⟨v, s1, h1, h2⟩ := h
    rw [SynM.bind_pure_ok] at h2
    obtain ⟨vs0, h2, rfl⟩ := h2
    have a := ih.1 _ _ _ _ _ _ h1 hd
    have b := ih.2.2.2.1 _ _ _ _ _ _ _ h2 hd
    simp only [budgetOKList, a, b, Bool.and_self]

theorem budget_tuple_succ (g : Grammar) (dec : Decider) (fuel : Nat) (ih : BudgetP g dec fuel) :
    ∀ ts ctx s vs s', createTuple g dec (fuel + 1) ts ctx s = .ok vs s' →
      (∀ t ∈ ts, ctx.depth + g.distOf t ≤ dec.maxDepth) → budgetOKList g dec.maxDepth vs = true := by
  intro ts ctx s vs s' h hall
  cases ts with
  | nil =>
    simp only [createTuple] at h
    rw [SynM.pure_ok] at h
    obtain ⟨rfl, _⟩ := h
    simp only [budgetOKList]
  | cons t ts =>
    simp only [createTuple] at h
    rw [SynM.bind_ok] at h
    obtain ⟨v, s1, h1, h2⟩ := h
    rw [SynM.bind_pure_ok] at h2
    obtain ⟨vs0, h2, rfl⟩ := h2
    have a := ih.1 _ _ _ _ _ _ h1 (hall t (List.mem_cons_self ..))
    have b := ih.2.2.2.2 _ _ _ _ _ h2 (fun f hf => hall f (List.mem_cons_of_mem _ hf))
    simp only [budgetOKList, a, b, Bool.and_self]

theorem budget_node_succ (g : Grammar) (dec : Decider) (fuel : Nat)
    (hc : distConsistent g = true) (hk : dec.kind.depthLimited = true) (hD : dec.maxDepth < INF)
    (ih : BudgetP g dec fuel) :
    ∀ ty ctx deps s v s', createNode g dec (fuel + 1) ty ctx deps s = .ok v s' →
      ctx.depth + g.distOf ty ≤ dec.maxDepth → budgetOK g dec.maxDepth v = true := by
  intro ty ctx deps s v s' h hinv
  -- the depth bound of the value as a whole is the first induction
  have hdepth := (depthP_all g dec hc hk hD (fuel + 1)).1 ty ctx deps s v s' h hinv
  cases ty with
  | int =>
    simp only [createNode] at h
    rw [SynM.bind_pure_ok] at h
    obtain ⟨a, _, rfl⟩ := h
    rfl
  | float =>
    simp only [createNode] at h
    rw [SynM.bind_pure_ok] at h
    obtain ⟨a, _, rfl⟩ := h
    rfl
  | str =>
    simp only [createNode] at h
    rw [SynM.pure_ok] at h
    obtain ⟨rfl, _⟩ := h
    rfl
  | bool =>
    simp only [createNode] at h
    rw [SynM.bind_pure_ok] at h
    obtain ⟨a, _, rfl⟩ := h
    rfl
  | cls n =>
    simp only [createNode] at h
    split at h
    · exact absurd h (throwE_not_ok _ _ _ _)
    · rename_i hreg
      cases halts : g.altsOf n with
      | some prods =>
        rw [halts] at h
        exact ih.2.1 _ _ _ _ _ _ h
      | none =>
        rw [halts] at h
        dsimp only at h
        rw [SynM.bind_pure_ok] at h
        obtain ⟨args, h2, rfl⟩ := h
        obtain ⟨_, hf⟩ := concrete_inv g dec hc hD n ctx hreg halts hinv
        have hb := ih.2.2.1 _ ⟨ctx.depth + 1, ctx.exp + 1⟩ _ _ _ _ h2 hf
        have hinv' : ctx.depth + lookupDist g.dist (.cls n) ≤ dec.maxDepth := by
          simpa only [Grammar.distOf, distTy] using hinv
        simp only [Val.depth] at hdepth
        simp only [budgetOK, hb, Bool.and_true, Bool.and_eq_true, decide_eq_true_eq]
        exact ⟨hinv', hdepth⟩
  | list t =>
    simp only [createNode] at h
    rw [SynM.bind_ok] at h
    obtain ⟨len, s1, _, h2⟩ := h
    rw [SynM.bind_pure_ok] at h2
    obtain ⟨vs, h2, rfl⟩ := h2
    have hinv' : ctx.depth + g.e + g.distOf t ≤ dec.maxDepth := by
      simp only [Grammar.distOf, distTy] at hinv ⊢; omega
    have hb := ih.2.2.2.1 t ⟨ctx.depth + g.e, ctx.exp + 1⟩ _ _ _ _ _ h2 hinv'
    simp only [Val.depth] at hdepth
    simp only [budgetOK, hb, Bool.and_true, decide_eq_true_eq]
    exact hdepth
  | tuple ts =>
    simp only [createNode] at h
    rw [SynM.bind_pure_ok] at h
    obtain ⟨vs, h2, rfl⟩ := h
    simp only [budgetOK]
    refine ih.2.2.2.2 _ _ _ _ _ h2 ?_
    intro t ht
    have := distTysMax_ge g.e g.dist ts t ht
    simp only [Grammar.distOf, distTy] at hinv ⊢; omega
  | union ts =>
    simp only [createNode] at h
    rw [SynM.bind_ok] at h
    obtain ⟨t, s1, hch, h2⟩ := h
    rw [SynM.bind_pure_ok] at h2
    obtain ⟨v0, h2, rfl⟩ := h2
    obtain ⟨_, hfit⟩ := chooseProd_fits _ _ _ _ _ _ _ _ hk hch
    rw [fits_iff] at hfit
    exact budgetOK_setCtx _ _ _ _ _ (createNode_ctx g dec fuel t ctx _ _ _ _ h2)
      (ih.1 _ _ _ _ _ _ h2 hfit)
  | ann base mh =>
    rw [distOf_ann] at hinv
    have hbase : (∀ D, budgetOK g D v = true) → budgetOK g dec.maxDepth v = true := fun h0 => h0 _
    simp only [createNode] at h
    by_cases hisdep : mh.isDep = true
    · rw [if_pos hisdep] at h
      rw [SynM.bind_ok] at h
      obtain ⟨mh', s1, _, h⟩ := h
      rw [SynM.bind_pure_ok] at h
      obtain ⟨v0, h0, rfl⟩ := h
      exact budgetOK_setCtx _ _ _ _ _
        (createNode_ctx g dec fuel _ ⟨ctx.depth, ctx.exp + 1⟩ _ _ _ _ h0)
        (ih.1 _ ⟨ctx.depth, ctx.exp + 1⟩ _ _ _ _ h0 (by rw [distOf_ann]; exact hinv))
    rw [if_neg hisdep] at h
    cases mh <;> dsimp only at h
    case depIntRangeLo => exact absurd rfl hisdep
    case depIntRangeHi => exact absurd rfl hisdep
    case depIntRangeSpan => exact absurd rfl hisdep
    case depListSize => exact absurd rfl hisdep
    case depVarFrom => exact absurd rfl hisdep
    case intRange =>
      rw [SynM.bind_pure_ok] at h
      obtain ⟨a, _, rfl⟩ := h
      rfl
    case intList =>
      rw [SynM.bind_ok] at h
      obtain ⟨i, s1, _, h⟩ := h
      rw [SynM.bind_pure_ok] at h
      obtain ⟨a, _, rfl⟩ := h
      rfl
    case varRange =>
      rw [SynM.bind_ok] at h
      obtain ⟨i, s1, _, h⟩ := h
      rw [SynM.bind_pure_ok] at h
      obtain ⟨a, _, rfl⟩ := h
      rfl
    case strSize =>
      rw [SynM.bind_ok] at h
      obtain ⟨i, s1, _, h⟩ := h
      rw [SynM.bind_pure_ok] at h
      obtain ⟨a, _, rfl⟩ := h
      rfl
    case interval =>
      rw [SynM.bind_ok] at h
      obtain ⟨i, s1, _, h⟩ := h
      rw [SynM.bind_pure_ok] at h
      obtain ⟨a, _, rfl⟩ := h
      simp only [budgetOK, budgetOKList, Bool.and_self]
    case floatRange =>
      rw [SynM.bind_pure_ok] at h
      obtain ⟨a, _, rfl⟩ := h
      rfl
    case floatList =>
      rw [SynM.bind_pure_ok] at h
      obtain ⟨a, _, rfl⟩ := h
      rfl
    case listSize lo hi =>
      split at h
      · rename_i inner
        rw [SynM.bind_ok] at h
        obtain ⟨size, s1, _, h⟩ := h
        rw [SynM.bind_pure_ok] at h
        obtain ⟨vs, h2, rfl⟩ := h
        have hinv' : ctx.depth + g.distOf inner ≤ dec.maxDepth := by
          simp only [Grammar.distOf, distTy] at hinv ⊢; omega
        have hb := ih.2.2.2.1 inner ⟨ctx.depth, ctx.exp + 1⟩ _ _ _ _ _ h2 hinv'
        simp only [Val.depth] at hdepth
        simp only [budgetOK, hb, Bool.and_true, decide_eq_true_eq]
        exact hdepth
      · exact absurd h (throwE_not_ok _ _ _ _)

theorem budgetP_all (g : Grammar) (dec : Decider) (hc : distConsistent g = true)
    (hk : dec.kind.depthLimited = true) (hD : dec.maxDepth < INF) : ∀ fuel, BudgetP g dec fuel := by
  intro fuel
  induction fuel with
  | zero => exact budgetP_zero g dec
  | succ fuel ih =>
    exact ⟨budget_node_succ g dec fuel hc hk hD ih, budget_abstract_succ g dec fuel hk ih,
      budget_fields_succ g dec fuel ih, budget_elems_succ g dec fuel ih, budget_tuple_succ g dec fuel ih⟩


/-- what the evolutionary loop maintains for every individual: it respects the limit, all its
stored contexts leave room for re-creation, and creation of the start symbol may be re-entered
at its stored root context -/
def IndOK (g : Grammar) (dec : Decider) (v : Val) : Prop :=
  v.depth ≤ dec.maxDepth ∧ budgetOK g dec.maxDepth v = true ∧
    ∀ ctx, v.ctx = some ctx → ctx.depth + g.minTreeDepth ≤ dec.maxDepth

theorem indOK_create (g : Grammar) (dec : Decider) (fuel : Nat) (ctx : Ctx) (s s' : SynSt) (v : Val)
    (hc : distConsistent g = true) (hk : dec.kind.depthLimited = true) (hD : dec.maxDepth < INF)
    (hinv : ctx.depth + g.minTreeDepth ≤ dec.maxDepth)
    (h : createNode g dec fuel (.cls g.spec.start) ctx [] s = .ok v s') : IndOK g dec v := by
  have hinv' : ctx.depth + g.distOf (.cls g.spec.start) ≤ dec.maxDepth := by
    rw [distOf_start]; exact hinv
  refine ⟨?_, (budgetP_all g dec hc hk hD fuel).1 _ _ _ _ _ _ h hinv', ?_⟩
  · have := (depthP_all g dec hc hk hD fuel).1 _ _ _ _ _ _ h hinv'
    omega
  · intro c hcx
    rw [createNode_ctx g dec fuel _ ctx _ _ _ _ h c hcx]; exact hinv

theorem indOK_occurrence (g : Grammar) (dec : Decider) (src w : Val) (hs : IndOK g dec src)
    (hw : w ∈ occurrences g.spec.start src) : IndOK g dec w := by
  have hd := depth_occurrence _ _ _ hw
  unfold occurrences at hw
  rw [List.mem_filter] at hw
  obtain ⟨hsub, hnode⟩ := hw
  have hb := budgetOK_subvalue g dec.maxDepth src w hsub hs.2.1
  refine ⟨Nat.le_trans hd hs.1, hb, ?_⟩
  cases w with
  | node c d e args =>
    simp only [beq_iff_eq] at hnode
    subst hnode
    intro ctx hctx
    simp only [Val.ctx, Option.some.injEq] at hctx
    subst hctx
    simp only [budgetOK, Bool.and_eq_true, decide_eq_true_eq] at hb
    exact hb.1.1
  | _ => cases hnode

theorem indOK_mutateRoot (g : Grammar) (dec : Decider) (fuel : Nat) (i : Val) (source : Option Val)
    (s s' : SynSt) (c : Val) (hc : distConsistent g = true) (hk : dec.kind.depthLimited = true)
    (hD : dec.maxDepth < INF) (hvalid : g.minTreeDepth ≤ dec.maxDepth)
    (hi : IndOK g dec i) (hsrc : ∀ src, source = some src → IndOK g dec src)
    (h : mutateRoot g dec fuel i source s = .ok c s') : IndOK g dec c := by
  unfold mutateRoot at h
  cases hctx : i.ctx with
  | none =>
    rw [hctx] at h
    dsimp only at h
    exact indOK_create g dec fuel ⟨0, 0⟩ s s' c hc hk hD (by simpa using hvalid) h
  | some ctx =>
    rw [hctx] at h
    dsimp only at h
    have hfresh : createNode g dec fuel (.cls g.spec.start) ctx [] s = .ok c s' → IndOK g dec c :=
      fun h => indOK_create g dec fuel ctx s s' c hc hk hD (hi.2.2 ctx hctx) h
    cases source with
    | none => exact hfresh h
    | some src =>
      dsimp only at h
      by_cases hemp : (occurrences g.spec.start src).isEmpty = true
      · rw [if_pos hemp] at h; exact hfresh h
      · rw [if_neg hemp] at h
        exact indOK_occurrence g dec src c (hsrc src rfl) (pick_mem _ _ _ _ h)

end GEVerif.Depth

namespace GEVerif

/-- the individuals an evolutionary run can hold under one decider: initial trees (from any
random source or genotype, at any fuel) closed under `tree_mutate` and `tree_crossover` -/
inductive Reachable (g : Grammar) (dec : Decider) : Val → Prop
  | init (fuel : Nat) (s s' : SynSt) (v : Val) :
      randomTree g dec fuel s = .ok v s' → Reachable g dec v
  | mutate (fuel : Nat) (p : Val) (s s' : SynSt) (c : Val) :
      Reachable g dec p → treeMutate g dec fuel p s = .ok c s' → Reachable g dec c
  | crossLeft (fuel : Nat) (p1 p2 : Val) (s s' : SynSt) (c1 c2 : Val) :
      Reachable g dec p1 → Reachable g dec p2 →
      treeCrossover g dec fuel p1 p2 s = .ok (c1, c2) s' → Reachable g dec c1
  | crossRight (fuel : Nat) (p1 p2 : Val) (s s' : SynSt) (c1 c2 : Val) :
      Reachable g dec p1 → Reachable g dec p2 →
      treeCrossover g dec fuel p1 p2 s = .ok (c1, c2) s' → Reachable g dec c2

end GEVerif

namespace GEVerif.Depth
open GEVerif

theorem indOK_crossover (g : Grammar) (dec : Decider) (fuel : Nat) (p1 p2 : Val)
    (s s' : SynSt) (c1 c2 : Val) (hc : distConsistent g = true) (hk : dec.kind.depthLimited = true)
    (hD : dec.maxDepth < INF) (hvalid : g.minTreeDepth ≤ dec.maxDepth)
    (h1 : IndOK g dec p1) (h2 : IndOK g dec p2)
    (h : treeCrossover g dec fuel p1 p2 s = .ok (c1, c2) s') : IndOK g dec c1 ∧ IndOK g dec c2 := by
  unfold treeCrossover at h
  rw [SynM.bind_ok] at h
  obtain ⟨a, s1, ha, h⟩ := h
  rw [SynM.bind_ok] at h
  obtain ⟨b, s2, hb, h⟩ := h
  rw [SynM.pure_ok] at h
  obtain ⟨hab, _⟩ := h
  cases hab
  exact ⟨indOK_mutateRoot g dec fuel p1 (some p2) s s1 _ hc hk hD hvalid h1
      (fun _ h => by cases h; exact h2) ha,
    indOK_mutateRoot g dec fuel p2 (some p1) s1 s2 _ hc hk hD hvalid h2
      (fun _ h => by cases h; exact h1) hb⟩

theorem indOK_reachable (g : Grammar) (dec : Decider) (hc : distConsistent g = true)
    (hk : dec.kind.depthLimited = true) (hD : dec.maxDepth < INF)
    (hvalid : g.minTreeDepth ≤ dec.maxDepth) (v : Val) (h : Reachable g dec v) : IndOK g dec v := by
  induction h with
  | init fuel s s' v h =>
    exact indOK_create g dec fuel ⟨0, 0⟩ s s' v hc hk hD (by simpa using hvalid) h
  | mutate fuel p s s' c _ h ih =>
    exact indOK_mutateRoot g dec fuel p none s s' c hc hk hD hvalid ih (fun _ h => by cases h) h
  | crossLeft fuel p1 p2 s s' c1 c2 _ _ h ih1 ih2 =>
    exact (indOK_crossover g dec fuel p1 p2 s s' c1 c2 hc hk hD hvalid ih1 ih2 h).1
  | crossRight fuel p1 p2 s s' c1 c2 _ _ h ih1 ih2 =>
    exact (indOK_crossover g dec fuel p1 p2 s s' c1 c2 hc hk hD hvalid ih1 ih2 h).2



/-! ### A concrete grammar for the non-vacuity examples -/

/-- abstract `Expr` with `Lit(v : Annotated[int, IntRange(0,9)])`, `Add(l r : Expr)` and
`Block(xs : list[Expr], u : Union[Lit, bool])` -/
def exSpec : GrammarSpec :=
  { classes := [
      { name := "Expr", abstract := true, parent := none, fields := [] },
      { name := "Lit", abstract := false, parent := some 0,
        fields := [("v", .ann .int (.intRange 0 9))] },
      { name := "Add", abstract := false, parent := some 0,
        fields := [("l", .cls 0), ("r", .cls 0)] },
      { name := "Block", abstract := false, parent := some 0,
        fields := [("xs", .list (.cls 0)), ("u", .union [.cls 1, .bool])] }],
    start := 0, considered := [0, 1, 2, 3] }

def exG : Grammar := analyse exSpec

def exSt (ds : List Nat) : SynSt := { src := .scripted { draws := ds } }

def depthOf : Res Val → Option Nat
  | .ok v _ => some v.depth
  | .err _ _ => none

end GEVerif.Depth
