/-
  The stack machine `create_tree_using_stacks` (Model/Stack.lean): helper definitions and lemmas
  for the property theorems `C01_mapStack_*`, `C02_stack_*`, `C07_mapStack_*`
  (everything lives in `namespace GEVerif.StackLemmas`).

  Definitions
  * `stripTy` / `stripTys` / `stripSpec` — refinements erased (the same equations as in
    Drive/C01.lean, which backs the harness predicate `prop_wt_struct`);
  * `stripG g`      — the analysed grammar `g` with the field types of every class stripped (the
                      registration, i.e. `reg`, is kept);
  * `noAnn`, `fieldsStripped g` — a type / every field type of `g` contains no refinement;
  * `annBaseOK`, `annDefaultsOK order` — the refined symbols `Annotated[base, …]` of the symbol
    list have a base whose no-argument constructor (`defaultOf`) is a value of that base:
    everything except a NON-EMPTY tuple (open finding), a union and a class;
  * `orderRegistered g order` — the classes of the symbol list are registered symbols;
  * `Inv g st`      — THE STACK INVARIANT: every value on `stacks[t]` is well-typed for `t` with
                      the refinements erased.

  Main lemmas
  * `step_inv`      — `Inv` is preserved by every successful step, whatever the target;
  * `loop_wt`       — hence the loop returns a structurally well-typed program;
  * `step_respects`, `loop_respects`, `mapStack_geneKept` — every `StepRel` state relation is
                      respected: the genotype-backed source is never left;
  * `step_safe`, `loop_safe`, `mapStack_err` — the exceptions the machine can raise;
  * `wt_congr`, `sameReg`, `mapStack_wt_stripSpec` — `wt` reads only the class declarations, the
                      registered symbols and the productions, so `stripG (analyse spec)` can be
                      replaced by `analyse (stripSpec spec)` (the harness predicate) whenever
                      stripping leaves the registration unchanged.
-/
import GEVerif.Model.Stack
import GEVerif.Lemmas.SynM
import GEVerif.Lemmas.WellTyped
import GEVerif.Lemmas.Genotype

namespace GEVerif.StackLemmas
open GEVerif GEVerif.Stack GEVerif.WellTyped GEVerif.Genotype

/-! ### Erasing refinements -/

mutual
/-- the type with every refinement erased (`Annotated[T, mh]` ↦ `T`) -/
def stripTy : Ty → Ty
  | .list t => .list (stripTy t)
  | .tuple ts => .tuple (stripTys ts)
  | .union ts => .union (stripTys ts)
  | .ann t _ => stripTy t
  | t => t
def stripTys : List Ty → List Ty
  | [] => []
  | t :: ts => stripTy t :: stripTys ts
end

def stripFields (fs : List (String × Ty)) : List (String × Ty) := fs.map fun (n, t) => (n, stripTy t)

/-- the grammar with all refinements erased -/
def stripSpec (g : GrammarSpec) : GrammarSpec :=
  { g with classes := g.classes.map fun c => { c with fields := c.fields.map fun (n, t) => (n, stripTy t) } }

/-- the analysed grammar with the field types stripped; the registration is the one of `g` -/
def stripG (g : Grammar) : Grammar := { g with spec := stripSpec g.spec }

mutual
/-- no refinement anywhere in the type -/
def noAnn : Ty → Bool
  | .list t => noAnn t
  | .tuple ts => noAnnList ts
  | .union ts => noAnnList ts
  | .ann _ _ => false
  | _ => true
def noAnnList : List Ty → Bool
  | [] => true
  | t :: ts => noAnn t && noAnnList ts
end

/-- every field type of every class is free of refinements -/
def fieldsStripped (g : Grammar) : Bool :=
  g.spec.classes.all fun c => c.fields.all fun f => noAnn f.2

mutual
theorem stripTy_noAnn : ∀ t : Ty, noAnn t = true → stripTy t = t
  | .int, _ | .float, _ | .str, _ | .bool, _ | .cls _, _ => by simp [stripTy]
  | .list t, h => by rw [noAnn] at h; rw [stripTy, stripTy_noAnn t h]
  | .tuple ts, h => by rw [noAnn] at h; rw [stripTy, stripTys_noAnn ts h]
  | .union ts, h => by rw [noAnn] at h; rw [stripTy, stripTys_noAnn ts h]
  | .ann _ _, h => by simp [noAnn] at h
theorem stripTys_noAnn : ∀ ts : List Ty, noAnnList ts = true → stripTys ts = ts
  | [], _ => by rw [stripTys]
  | t :: ts, h => by
    rw [noAnnList, Bool.and_eq_true] at h
    rw [stripTys, stripTy_noAnn t h.1, stripTys_noAnn ts h.2]
end

mutual
theorem noDeps_stripTy : ∀ t : Ty, noDeps (stripTy t) = true
  | .int | .float | .str | .bool | .cls _ => by simp [stripTy, noDeps]
  | .list t => by simp [stripTy, noDeps]
  | .tuple ts => by simp [stripTy, noDeps]
  | .union ts => by rw [stripTy, noDeps]; exact noDepsList_stripTys ts
  | .ann t _ => by rw [stripTy]; exact noDeps_stripTy t
theorem noDepsList_stripTys : ∀ ts : List Ty, noDepsList (stripTys ts) = true
  | [] => by simp [stripTys, noDepsList]
  | t :: ts => by rw [stripTys, noDepsList, noDeps_stripTy t, noDepsList_stripTys ts]; rfl
end

theorem stripTys_mem : ∀ (ts : List Ty) (t : Ty), t ∈ ts → stripTy t ∈ stripTys ts
  | [], _, h => by cases h
  | t' :: ts, t, h => by
    rw [stripTys]
    rcases List.mem_cons.1 h with rfl | h
    · exact List.mem_cons_self
    · exact List.mem_cons_of_mem _ (stripTys_mem ts t h)

/-! ### `stripG` -/

theorem stripG_cls (g : Grammar) (n : Nat) :
    (stripG g).cls n = { g.cls n with fields := stripFields (g.cls n).fields } := by
  unfold Grammar.cls stripG stripSpec
  simp only [List.getD_eq_getElem?_getD, List.getElem?_map]
  cases g.spec.classes[n]? with
  | none => rfl
  | some d => rfl

theorem stripG_abstract (g : Grammar) (n : Nat) : ((stripG g).cls n).abstract = (g.cls n).abstract := by
  rw [stripG_cls]

theorem stripG_fields (g : Grammar) (n : Nat) :
    ((stripG g).cls n).fields = stripFields (g.cls n).fields := by
  rw [stripG_cls]

theorem stripG_length (g : Grammar) : (stripG g).spec.classes.length = g.spec.classes.length := by
  simp [stripG, stripSpec]

theorem stripG_altsWF (g : Grammar) (h : altsWF g) : altsWF (stripG g) := by
  intro n ps ha
  rw [stripG_length]
  exact h n ps ha

theorem stripFields_noAnn (fs : List (String × Ty)) (h : fs.all (fun f => noAnn f.2) = true) :
    stripFields fs = fs := by
  induction fs with
  | nil => rfl
  | cons f fs ih =>
    obtain ⟨n, t⟩ := f
    simp only [List.all_cons, Bool.and_eq_true] at h
    simp only [stripFields, List.map_cons] at ih ⊢
    rw [ih h.2, stripTy_noAnn t h.1]

theorem stripSpec_of_fieldsStripped (g : Grammar) (h : fieldsStripped g = true) :
    stripSpec g.spec = g.spec := by
  unfold fieldsStripped at h
  unfold stripSpec
  have : g.spec.classes.map (fun c => { c with fields := c.fields.map fun (n, t) => (n, stripTy t) })
      = g.spec.classes := by
    generalize g.spec.classes = cs at h
    induction cs with
    | nil => rfl
    | cons c cs ih =>
      simp only [List.all_cons, Bool.and_eq_true] at h
      rw [List.map_cons, ih h.2]
      have := stripFields_noAnn c.fields h.1
      unfold stripFields at this
      rw [this]
  rw [this]

theorem stripG_of_fieldsStripped (g : Grammar) (h : fieldsStripped g = true) : stripG g = g := by
  unfold stripG
  rw [stripSpec_of_fieldsStripped g h]

/-! ### Stacks -/

theorem getStack_setStack (t k : Ty) (vs : List Val) (st : Stacks) :
    getStack t (setStack k vs st) = if t == k then vs else getStack t st := by
  unfold getStack setStack
  exact tyLookup_tySet k t [] vs st

/-- structural typing: `v` is a value of `t` with the refinements erased -/
def wtS (g : Grammar) (t : Ty) (v : Val) : Bool := wt (stripG g) [] (stripTy t) v

/-- THE STACK INVARIANT -/
def Inv (g : Grammar) (st : Stacks) : Prop := ∀ t v, v ∈ getStack t st → wtS g t v = true

theorem Inv_init (g : Grammar) (order : List Ty) : Inv g (order.map fun t => (t, [])) := by
  intro t v hv
  unfold getStack at hv
  induction order with
  | nil => simp [tyLookup] at hv
  | cons k ks ih =>
    simp only [List.map_cons, tyLookup] at hv
    split at hv
    · cases hv
    · exact ih hv

theorem Inv_set (g : Grammar) (st : Stacks) (k : Ty) (vs : List Val) (h : Inv g st)
    (hvs : ∀ v ∈ vs, wtS g k v = true) : Inv g (setStack k vs st) := by
  intro t v hv
  rw [getStack_setStack] at hv
  split at hv
  · rename_i hk
    have : t = k := by simpa using hk
    subst this
    exact hvs v hv
  · exact h t v hv

theorem Inv_push (g : Grammar) (st : Stacks) (k : Ty) (v : Val) (h : Inv g st)
    (hv : wtS g k v = true) : Inv g (push k v st) := by
  unfold push
  apply Inv_set g st k _ h
  intro x hx
  rcases List.mem_append.1 hx with hx | hx
  · exact h k x hx
  · rw [List.mem_singleton.1 hx]; exact hv

theorem popFront_inv (g : Grammar) (st st1 : Stacks) (t : Ty) (v : Val) (h : Inv g st)
    (hp : popFront t st = some (v, st1)) : wtS g t v = true ∧ Inv g st1 := by
  unfold popFront at hp
  split at hp
  · cases hp
  · rename_i x rest hg
    simp only [Option.some.injEq, Prod.mk.injEq] at hp
    obtain ⟨hx, hst⟩ := hp
    rw [← hx, ← hst]
    refine ⟨h t x (by rw [hg]; exact List.mem_cons_self), Inv_set g st t rest h ?_⟩
    intro y hy
    exact h t y (by rw [hg]; exact List.mem_cons_of_mem _ hy)

theorem popBack_inv (g : Grammar) (st st1 : Stacks) (t : Ty) (v : Val) (h : Inv g st)
    (hp : popBack t st = some (v, st1)) : wtS g t v = true ∧ Inv g st1 := by
  unfold popBack at hp
  split at hp
  · cases hp
  · rename_i x hg
    simp only [Option.some.injEq, Prod.mk.injEq] at hp
    obtain ⟨hx, hst⟩ := hp
    rw [← hx, ← hst]
    refine ⟨h t x (List.mem_of_getLast? hg), Inv_set g st t _ h ?_⟩
    intro y hy
    exact h t y (List.dropLast_subset _ hy)

theorem takeTuple_inv (g : Grammar) : ∀ (ts : List Ty) (st st1 : Stacks) (r : Option (List Val)),
    Inv g st → takeTuple ts st = (r, st1) →
    Inv g st1 ∧ ∀ vs, r = some vs → wtTuple (stripG g) (stripTys ts) vs = true
  | [], st, st1, r, h, ht => by
    rw [takeTuple] at ht
    cases ht
    refine ⟨h, ?_⟩
    intro vs hvs
    cases hvs
    rw [stripTys, wtTuple]
  | t :: ts, st, st1, r, h, ht => by
    rw [takeTuple] at ht
    cases hp : popFront t st with
    | none =>
      rw [hp] at ht
      cases ht
      exact ⟨h, fun vs hvs => by cases hvs⟩
    | some p =>
      obtain ⟨v, st2⟩ := p
      rw [hp] at ht
      simp only at ht
      obtain ⟨hv, h2⟩ := popFront_inv g st st2 t v h hp
      cases hr : takeTuple ts st2 with
      | mk r' st3 =>
        obtain ⟨h3, hvs⟩ := takeTuple_inv g ts st2 st3 r' h2 hr
        rw [hr] at ht
        cases r' with
        | none =>
          cases ht
          exact ⟨h3, fun vs hvs => by cases hvs⟩
        | some vs' =>
          cases ht
          refine ⟨h3, ?_⟩
          intro vs hvs'
          cases hvs'
          rw [stripTys, wtTuple, hvs vs' rfl]
          unfold wtS at hv
          rw [hv]; rfl

/-- the arguments popped for the fields of a class are well-typed for the stripped fields,
whatever sibling values they are read against (stripped types carry no refinement) -/
theorem takeArgs_inv (g : Grammar) : ∀ (fs : List (String × Ty)) (st st1 : Stacks)
    (r : Option (List Val)) (deps : List (String × Val)),
    Inv g st → takeArgs fs st = (r, st1) →
    Inv g st1 ∧ ∀ vs, r = some vs → wtFields (stripG g) deps (stripFields fs) vs = true
  | [], st, st1, r, deps, h, ht => by
    rw [takeArgs] at ht
    cases ht
    refine ⟨h, ?_⟩
    intro vs hvs
    cases hvs
    simp only [stripFields, List.map_nil]
    rw [wtFields]
  | (n, t) :: fs, st, st1, r, deps, h, ht => by
    rw [takeArgs] at ht
    split at ht
    · cases ht
      exact ⟨h, fun vs hvs => by cases hvs⟩
    · cases hp : popBack t st with
      | none =>
        rw [hp] at ht
        cases ht
        exact ⟨h, fun vs hvs => by cases hvs⟩
      | some p =>
        obtain ⟨v, st2⟩ := p
        rw [hp] at ht
        simp only at ht
        obtain ⟨hv, h2⟩ := popBack_inv g st st2 t v h hp
        cases hr : takeArgs fs st2 with
        | mk r' st3 =>
          obtain ⟨h3, hvs⟩ := takeArgs_inv g fs st2 st3 r' (deps ++ [(n, v)]) h2 hr
          rw [hr] at ht
          cases r' with
          | none =>
            cases ht
            exact ⟨h3, fun vs hvs => by cases hvs⟩
          | some vs' =>
            cases ht
            refine ⟨h3, ?_⟩
            intro vs hvs'
            cases hvs'
            have := hvs vs' rfl
            simp only [stripFields, List.map_cons] at this ⊢
            rw [wtFields, this, wt_noDeps (stripG g) deps [] (stripTy t) v (noDeps_stripTy t)]
            unfold wtS at hv
            rw [hv]; rfl

/-! ### The values the machine builds itself -/

/-- bases whose no-argument constructor is a value of the base (with refinements erased) -/
def annBaseOK : Ty → Bool
  | .int | .float | .str | .bool => true
  | .list _ => true
  | .tuple ts => ts.isEmpty
  | .ann t _ => annBaseOK t
  | .union _ => false
  | .cls _ => false

/-- every refined symbol of the list has such a base -/
def annDefaultsOK (order : List Ty) : Bool :=
  order.all fun | .ann b _ => annBaseOK b | _ => true

/-- every class of the list is a registered symbol of the grammar -/
def orderRegistered (g : Grammar) (order : List Ty) : Bool :=
  order.all fun | .cls n => g.reg.allNodes.contains (.cls n) | _ => true

theorem defaultOf_wt (g : Grammar) : ∀ (b : Ty), annBaseOK b = true → wtS g b (defaultOf b) = true
  | .int, _ | .float, _ | .str, _ | .bool, _ => by simp [wtS, stripTy, defaultOf, wt]
  | .list t, _ => by simp [wtS, stripTy, defaultOf, wt, wtAll]
  | .tuple ts, h => by
    cases ts with
    | nil => simp [wtS, stripTy, stripTys, defaultOf, wt, wtTuple]
    | cons t ts => simp [annBaseOK] at h
  | .ann t mh, h => by
    rw [annBaseOK] at h
    have := defaultOf_wt g t h
    unfold wtS at this ⊢
    rw [stripTy, defaultOf]; exact this
  | .union _, h => by simp [annBaseOK] at h
  | .cls _, h => by simp [annBaseOK] at h

/-! ### One step preserves the invariant -/

/-- a value of a production is a value of the abstract class (needs `altsWF` only) -/
theorem wt_cls_prod (G : Grammar) (hwf : altsWF G) (n p : Nat) (ps : List Nat) (v : Val)
    (ha : G.altsOf n = some ps) (hp : p ∈ ps) (h : wt G [] (.cls p) v = true) :
    wt G [] (.cls n) v = true := by
  cases v <;> try (simp [wt] at h; done)
  rw [wt] at h ⊢
  simp only [Bool.and_eq_true] at h ⊢
  exact ⟨⟨h.1.1, isProdOf_step G hwf n p _ ps ha hp h.1.2⟩, h.2⟩

theorem step_inv (g : Grammar) (hwf : altsWF g) (target : Ty) (st : Stacks) (s s' : SynSt)
    (out : StepOut)
    (hreg : ∀ n, target = .cls n → g.reg.allNodes.contains (.cls n) = true)
    (hann : ∀ b mh, target = .ann b mh → annBaseOK b = true)
    (h : Inv g st) (hs : step g target st s = .ok out s') : Inv g out.stacks := by
  cases target with
  | int =>
    simp only [step] at hs
    rw [SynM.bind_ok] at hs
    obtain ⟨v, s1, _, h2⟩ := hs
    rw [SynM.pure_ok] at h2
    obtain ⟨rfl, _⟩ := h2
    exact Inv_push g st _ _ h (by simp [wtS, stripTy, wt])
  | float =>
    simp only [step] at hs
    rw [SynM.bind_ok] at hs
    obtain ⟨_, s1, _, h2⟩ := hs
    rw [SynM.bind_ok] at h2
    obtain ⟨_, s2, _, h3⟩ := h2
    rw [SynM.pure_ok] at h3
    obtain ⟨rfl, _⟩ := h3
    exact Inv_push g st _ _ h (by simp [wtS, stripTy, wt])
  | str =>
    simp only [step] at hs
    rw [SynM.pure_ok] at hs
    obtain ⟨rfl, _⟩ := hs
    exact Inv_push g st _ _ h (by simp [wtS, stripTy, wt])
  | bool =>
    simp only [step] at hs
    rw [SynM.bind_ok] at hs
    obtain ⟨v, s1, _, h2⟩ := hs
    rw [SynM.pure_ok] at h2
    obtain ⟨rfl, _⟩ := h2
    exact Inv_push g st _ _ h (by simp [wtS, stripTy, wt])
  | ann base mh =>
    simp only [step] at hs
    rw [SynM.pure_ok] at hs
    obtain ⟨rfl, _⟩ := hs
    refine Inv_push g st _ _ h ?_
    have := defaultOf_wt g base (hann base mh rfl)
    unfold wtS at this ⊢
    rw [stripTy]; exact this
  | tuple ts =>
    simp only [step] at hs
    cases ht : takeTuple ts st with
    | mk r st1 =>
      obtain ⟨h1, hvs⟩ := takeTuple_inv g ts st st1 r h ht
      rw [ht] at hs
      cases r with
      | none =>
        simp only at hs
        rw [SynM.pure_ok] at hs
        obtain ⟨rfl, _⟩ := hs
        exact h1
      | some vs =>
        simp only at hs
        rw [SynM.pure_ok] at hs
        obtain ⟨rfl, _⟩ := hs
        refine Inv_push g st1 _ _ h1 ?_
        unfold wtS
        rw [stripTy, wt]
        exact hvs vs rfl
  | list inner =>
    simp only [step] at hs
    rw [SynM.bind_ok] at hs
    obtain ⟨len, s1, _, h2⟩ := hs
    rw [SynM.pure_ok] at h2
    obtain ⟨rfl, _⟩ := h2
    refine Inv_push g _ _ _ (Inv_set g st inner _ h ?_) ?_
    · intro v hv
      exact h inner v (List.mem_of_mem_drop hv)
    · unfold wtS
      rw [stripTy, wt]
      apply wtAll_of_forall
      intro v hv
      exact h inner v (List.mem_of_mem_take hv)
  | union alts =>
    simp only [step] at hs
    rw [SynM.bind_ok] at hs
    obtain ⟨i, s1, _, h2⟩ := hs
    rw [SynM.bind_ok] at h2
    obtain ⟨t, s2, hget, h3⟩ := h2
    have ht := (listGetM_mem _ _ _ _ _ hget).1
    cases hp : popBack t st with
    | none =>
      rw [hp] at h3
      simp only at h3
      rw [SynM.pure_ok] at h3
      obtain ⟨rfl, _⟩ := h3
      exact h
    | some p =>
      obtain ⟨v, st1⟩ := p
      rw [hp] at h3
      simp only at h3
      rw [SynM.pure_ok] at h3
      obtain ⟨rfl, _⟩ := h3
      obtain ⟨hv, h1⟩ := popBack_inv g st st1 t v h hp
      refine Inv_push g st1 _ _ h1 ?_
      unfold wtS at hv ⊢
      rw [stripTy, wt]
      exact wtUnion_of_mem (stripG g) [] v (stripTy t) (stripTys alts) (stripTys_mem alts t ht) hv
  | cls n =>
    simp only [step] at hs
    split at hs
    · -- abstract class: a value moves from a production's stack
      cases ha : g.altsOf n with
      | none =>
        rw [ha] at hs
        exact absurd hs (throwE_not_ok _ _ _ _)
      | some prods =>
        rw [ha] at hs
        simp only at hs
        rw [SynM.bind_ok] at hs
        obtain ⟨i, s1, _, h2⟩ := hs
        rw [SynM.bind_ok] at h2
        obtain ⟨c, s2, hget, h3⟩ := h2
        have hc := (listGetM_mem _ _ _ _ _ hget).1
        cases hp : popFront (.cls c) st with
        | none =>
          rw [hp] at h3
          simp only at h3
          rw [SynM.pure_ok] at h3
          obtain ⟨rfl, _⟩ := h3
          exact h
        | some p =>
          obtain ⟨v, st1⟩ := p
          rw [hp] at h3
          simp only at h3
          rw [SynM.pure_ok] at h3
          obtain ⟨rfl, _⟩ := h3
          obtain ⟨hv, h1⟩ := popFront_inv g st st1 _ v h hp
          refine Inv_push g st1 _ _ h1 ?_
          unfold wtS at hv ⊢
          simp only [stripTy] at hv ⊢
          exact wt_cls_prod (stripG g) (stripG_altsWF g hwf) n c prods v ha hc hv
    · -- concrete class: one argument per field
      rename_i hab
      cases ht : takeArgs (g.cls n).fields st with
      | mk r st1 =>
        obtain ⟨h1, hvs⟩ := takeArgs_inv g (g.cls n).fields st st1 r [] h ht
        rw [ht] at hs
        cases r with
        | none =>
          simp only at hs
          rw [SynM.pure_ok] at hs
          obtain ⟨rfl, _⟩ := hs
          exact h1
        | some args =>
          simp only at hs
          rw [SynM.pure_ok] at hs
          obtain ⟨rfl, _⟩ := hs
          refine Inv_push g st1 _ _ h1 ?_
          unfold wtS
          simp only [stripTy]
          rw [wt]
          simp only [Bool.and_eq_true, Bool.not_eq_true']
          refine ⟨⟨⟨?_, hreg n rfl⟩, ?_⟩, ?_⟩
          · rw [stripG_abstract]; simpa using hab
          · exact isProdOf_self _ _ _
          · rw [stripG_fields]; exact hvs args rfl

/-! ### The loop -/

theorem chooseTarget_mem (order : List Ty) (t : Ty) (s s' : SynSt)
    (h : chooseTarget order s = .ok t s') : t ∈ order := by
  unfold chooseTarget at h
  split at h
  · exact absurd h (throwE_not_ok _ _ _ _)
  · rw [SynM.bind_ok] at h
    obtain ⟨r, s1, _, h2⟩ := h
    exact (listGetM_mem _ _ _ _ _ h2).1

theorem orderRegistered_mem (g : Grammar) (order : List Ty) (h : orderRegistered g order = true)
    (n : Nat) (hn : Ty.cls n ∈ order) : g.reg.allNodes.contains (.cls n) = true := by
  unfold orderRegistered at h
  rw [List.all_eq_true] at h
  exact h _ hn

theorem annDefaultsOK_mem (order : List Ty) (h : annDefaultsOK order = true)
    (b : Ty) (mh : MH) (hn : Ty.ann b mh ∈ order) : annBaseOK b = true := by
  unfold annDefaultsOK at h
  rw [List.all_eq_true] at h
  exact h _ hn

/-- the program the loop returns is structurally well-typed for the start symbol -/
theorem loop_wt (g : Grammar) (hwf : altsWF g) (order : List Ty)
    (hreg : orderRegistered g order = true) (hann : annDefaultsOK order = true) (limit : Nat) :
    ∀ (fuel : Nat) (st : Stacks) (failures : Nat) (s s' : SynSt) (v : Val), Inv g st →
      loop g order limit fuel st failures s = .ok v s' → wtS g (.cls g.spec.start) v = true
  | 0, st, failures, s, s', v, hinv, h => by
    rw [loop] at h
    cases hg : getStack (.cls g.spec.start) st with
    | cons x rest =>
      rw [hg] at h
      simp only at h
      rw [SynM.pure_ok] at h
      obtain ⟨rfl, _⟩ := h
      exact hinv _ x (by rw [hg]; exact List.mem_cons_self)
    | nil =>
      rw [hg] at h
      exact absurd h (throwE_not_ok _ _ _ _)
  | fuel + 1, st, failures, s, s', v, hinv, h => by
    rw [loop] at h
    cases hg : getStack (.cls g.spec.start) st with
    | cons x rest =>
      rw [hg] at h
      simp only at h
      rw [SynM.pure_ok] at h
      obtain ⟨rfl, _⟩ := h
      exact hinv _ x (by rw [hg]; exact List.mem_cons_self)
    | nil =>
      rw [hg] at h
      simp only at h
      split at h
      · exact absurd h (throwE_not_ok _ _ _ _)
      · rw [SynM.bind_ok] at h
        obtain ⟨target, s1, htgt, h2⟩ := h
        rw [SynM.bind_ok] at h2
        obtain ⟨out, s2, hstep, h3⟩ := h2
        have hmem := chooseTarget_mem order target s s1 htgt
        have hinv' := step_inv g hwf target st s1 s2 out
          (fun n hn => orderRegistered_mem g order hreg n (hn ▸ hmem))
          (fun b mh hn => annDefaultsOK_mem order hann b mh (hn ▸ hmem)) hinv hstep
        exact loop_wt g hwf order hreg hann limit fuel out.stacks _ s2 s' v hinv' h3

theorem mapStack_wtS (g : Grammar) (hwf : altsWF g) (order : List Ty)
    (hreg : orderRegistered g order = true) (hann : annDefaultsOK order = true)
    (limit fuel : Nat) (dna : List Int) (v : Val) (s' : SynSt)
    (h : mapStack g order limit fuel dna = .ok v s') :
    wt (stripG g) [] (.cls g.spec.start) v = true := by
  have := loop_wt g hwf order hreg hann limit fuel _ 0 _ s' v (Inv_init g order) h
  unfold wtS at this
  simpa only [stripTy] using this

/-! ### State relations (C07): the machine only draws through `randintM` -/

section
variable {R : SynSt → SynSt → Prop}

theorem step_respects (hR : StepRel R) (g : Grammar) (target : Ty) (st : Stacks) :
    Respects R (step g target st) := by
  have h0 := hR.closed0
  unfold step
  closed0_auto h0

theorem chooseTarget_respects (hR : StepRel R) (order : List Ty) :
    Respects R (chooseTarget order) := by
  have h0 := hR.closed0
  unfold chooseTarget
  closed0_auto h0

theorem loop_respects (hR : StepRel R) (g : Grammar) (order : List Ty) (limit : Nat) :
    ∀ (fuel : Nat) (st : Stacks) (failures : Nat), Respects R (loop g order limit fuel st failures)
  | 0, st, failures => by
    rw [loop]
    cases getStack (.cls g.spec.start) st with
    | cons x rest => exact hR.closed0.pure _
    | nil => exact hR.closed0.throwE _
  | fuel + 1, st, failures => by
    have h0 := hR.closed0
    rw [loop]
    cases getStack (.cls g.spec.start) st with
    | cons x rest => exact h0.pure _
    | nil =>
      dsimp only
      split
      · exact h0.throwE _
      · exact h0.bind _ _ (chooseTarget_respects hR order) fun target =>
          h0.bind _ _ (step_respects hR g target st) fun out =>
            loop_respects hR g order limit fuel out.stacks _
end

/-- whatever the stack machine does (program or exception), a genotype-backed source is still
the same genotype at the end -/
theorem mapStack_geneKept (g : Grammar) (order : List Ty) (limit fuel : Nat) (dna : List Int) :
    ∃ y, (mapStack g order limit fuel dna).state.src = .gene y ∧ y.dna = dna :=
  loop_respects geneKept_stepRel g order limit fuel _ 0
    { src := .gene { dna := dna, index := 0 } } { dna := dna, index := 0 } rfl

/-! ### The exceptions the machine can raise

`Safe E m`: started in a state whose global source is the plain one (`metaFromGenes = false`, as in
`mapStack`), `m` keeps it so and raises only exceptions in `E`. -/

def Safe (E : Err → Prop) {α : Type} (m : SynM α) : Prop :=
  ∀ s, s.metaFromGenes = false →
    match m s with
    | .ok _ s' => s'.metaFromGenes = false
    | .err e _ => E e

theorem Safe.pure (E : Err → Prop) {α : Type} (a : α) : Safe E (Pure.pure a : SynM α) :=
  fun _ hs => hs

theorem Safe.throwE (E : Err → Prop) {α : Type} (e : Err) (he : E e) : Safe E (throwE e : SynM α) :=
  fun _ _ => he

theorem Safe.bind (E : Err → Prop) {α β : Type} (m : SynM α) (f : α → SynM β)
    (hm : Safe E m) (hf : ∀ a, Safe E (f a)) : Safe E (m >>= f) := by
  intro s hs
  rw [SynM.bind_def]
  have h1 := hm s hs
  cases hms : m s with
  | ok a s1 =>
    rw [hms] at h1
    exact hf a s1 h1
  | err e s1 =>
    rw [hms] at h1
    exact h1

/-- a draw with `lo ≤ hi` never raises -/
theorem Safe.randint (E : Err → Prop) (lo hi : Int) (h : lo ≤ hi) : Safe E (randintM lo hi) := by
  intro s hs
  unfold randintM
  rw [hs]
  simp only [Bool.false_eq_true, if_false]
  unfold rawRandintM
  rw [if_neg (by omega)]
  exact hs

theorem Safe.choiceIdx (E : Err → Prop) (n : Nat) (h : n = 0 → E (.foreign "AssertionError")) :
    Safe E (choiceIdxM n) := by
  unfold choiceIdxM
  split
  · rename_i hn
    exact Safe.throwE E _ (h hn)
  · exact Safe.bind E _ _ (Safe.randint E _ _ (by omega)) fun _ => Safe.pure E _

theorem Safe.listGet (E : Err → Prop) {α : Type} (xs : List α) (i : Nat)
    (h : xs.length ≤ i → E (.foreign "IndexError")) : Safe E (listGetM xs i) := by
  unfold listGetM
  cases hx : xs[i]? with
  | some x => exact Safe.pure E _
  | none =>
    rw [List.getElem?_eq_none_iff] at hx
    exact Safe.throwE E _ (h hx)

/-- `choice(xs)`: `AssertionError` on an empty list, nothing else -/
theorem Safe.choice (E : Err → Prop) {α β : Type} (xs : List α) (k : α → SynM β)
    (h : xs = [] → E (.foreign "AssertionError")) (hk : ∀ x ∈ xs, Safe E (k x)) :
    Safe E (choiceIdxM xs.length >>= fun i => listGetM xs i >>= k) := by
  intro s hs
  rw [SynM.bind_def]
  have h1 := Safe.choiceIdx E xs.length (fun hn => h (List.length_eq_zero_iff.1 hn)) s hs
  cases hc : choiceIdxM xs.length s with
  | err e s1 => rw [hc] at h1; exact h1
  | ok i s1 =>
    rw [hc] at h1
    have hi := choiceIdxM_lt _ _ _ _ hc
    simp only
    rw [SynM.bind_def]
    unfold listGetM
    rw [List.getElem?_eq_getElem hi]
    exact hk _ (List.getElem_mem hi) s1 h1

/-- what a symbol of the list needs for `step` not to raise: an abstract class has a non-empty
list of productions, a union has alternatives -/
def targetProductive (g : Grammar) : Ty → Bool
  | .cls n => !(g.cls n).abstract || (match g.altsOf n with | some (_ :: _) => true | _ => false)
  | .union alts => !alts.isEmpty
  | _ => true

def orderProductive (g : Grammar) (order : List Ty) : Bool :=
  !order.isEmpty && order.all (targetProductive g)

/-- the exceptions of one step: `KeyError` / `AssertionError` only, and none for a productive
target -/
def StepErr (g : Grammar) (target : Ty) (e : Err) : Prop :=
  targetProductive g target = false ∧ (e = .foreign "KeyError" ∨ e = .foreign "AssertionError")

theorem step_safe (g : Grammar) (target : Ty) (st : Stacks) :
    Safe (StepErr g target) (step g target st) := by
  cases target with
  | int =>
    simp only [step]
    exact Safe.bind _ _ _ (Safe.randint _ _ _ (by decide)) fun _ => Safe.pure _ _
  | float =>
    simp only [step]
    exact Safe.bind _ _ _ (Safe.randint _ _ _ (by decide)) fun _ =>
      Safe.bind _ _ _ (Safe.randint _ _ _ (by decide)) fun _ => Safe.pure _ _
  | str => simp only [step]; exact Safe.pure _ _
  | bool =>
    simp only [step]
    exact Safe.bind _ _ _ (Safe.choiceIdx _ _ (fun h => by cases h)) fun _ => Safe.pure _ _
  | ann base mh => simp only [step]; exact Safe.pure _ _
  | tuple ts =>
    simp only [step]
    split <;> exact Safe.pure _ _
  | list inner =>
    simp only [step]
    exact Safe.bind _ _ _ (Safe.randint _ _ _ (by omega)) fun _ => Safe.pure _ _
  | union alts =>
    simp only [step]
    refine Safe.choice _ alts _ ?_ ?_
    · intro h
      exact ⟨by simp [targetProductive, h], Or.inr rfl⟩
    · intro t _
      split <;> exact Safe.pure _ _
  | cls n =>
    simp only [step]
    split
    · rename_i hab
      cases ha : g.altsOf n with
      | none =>
        exact Safe.throwE _ _ ⟨by simp [targetProductive, hab, ha], Or.inl rfl⟩
      | some prods =>
        simp only
        refine Safe.choice _ prods _ ?_ ?_
        · intro h
          exact ⟨by simp [targetProductive, hab, ha, h], Or.inr rfl⟩
        · intro t _
          split <;> exact Safe.pure _ _
    · split <;> exact Safe.pure _ _

theorem chooseTarget_safe (order : List Ty) (E : Err → Prop)
    (h : order = [] → E (.foreign "IndexError")) : Safe E (chooseTarget order) := by
  unfold chooseTarget
  split
  · rename_i he
    exact Safe.throwE E _ (h (by simpa using he))
  · rename_i he
    have hne : order ≠ [] := by simpa using he
    have hpos : 0 < order.length := List.length_pos_iff.2 hne
    intro s hs
    rw [SynM.bind_def]
    have h1 := Safe.randint E 0 (100000 * (order.length : Int) - 1) (by omega) s hs
    cases hr : randintM 0 (100000 * (order.length : Int) - 1) s with
    | err e s1 => rw [hr] at h1; exact h1
    | ok r s1 =>
      rw [hr] at h1
      have hb := randintM_bounds _ _ _ _ _ hr
      simp only
      refine Safe.listGet E order _ (fun hle => ?_) s1 h1
      exfalso
      have h2 : r.toNat < 100000 * order.length := by omega
      have h3 : r.toNat / 100000 < order.length := by
        rw [Nat.div_lt_iff_lt_mul (by decide)]; omega
      omega

/-- the exceptions of the whole loop -/
def LoopErr (g : Grammar) (order : List Ty) (e : Err) : Prop :=
  e = .library ∨
  (orderProductive g order = false ∧
    (e = .foreign "KeyError" ∨ e = .foreign "AssertionError" ∨ e = .foreign "IndexError"))

theorem Safe.mono {E E' : Err → Prop} {α : Type} (m : SynM α) (h : ∀ e, E e → E' e)
    (hm : Safe E m) : Safe E' m := by
  intro s hs
  have h1 := hm s hs
  cases hms : m s with
  | ok a s1 => rw [hms] at h1; exact h1
  | err e s1 => rw [hms] at h1; exact h e h1

theorem loop_safe (g : Grammar) (order : List Ty) (limit : Nat) :
    ∀ (fuel : Nat) (st : Stacks) (failures : Nat),
      Safe (LoopErr g order) (loop g order limit fuel st failures)
  | 0, st, failures => by
    rw [loop]
    cases getStack (.cls g.spec.start) st with
    | cons x rest => exact Safe.pure _ _
    | nil => exact Safe.throwE _ _ (Or.inl rfl)
  | fuel + 1, st, failures => by
    rw [loop]
    cases getStack (.cls g.spec.start) st with
    | cons x rest => exact Safe.pure _ _
    | nil =>
      dsimp only
      split
      · exact Safe.throwE _ _ (Or.inl rfl)
      · intro s hs
        rw [SynM.bind_def]
        have h1 := chooseTarget_safe order (LoopErr g order)
          (fun h => Or.inr ⟨by simp [orderProductive, h], Or.inr (Or.inr rfl)⟩) s hs
        cases hc : chooseTarget order s with
        | err e s1 => rw [hc] at h1; exact h1
        | ok target s1 =>
          rw [hc] at h1
          have hmem := chooseTarget_mem order target s s1 hc
          simp only
          refine Safe.bind _ _ _ (Safe.mono _ ?_ (step_safe g target st))
            (fun out => loop_safe g order limit fuel out.stacks _) s1 h1
          intro e he
          refine Or.inr ⟨?_, ?_⟩
          · unfold orderProductive
            rw [Bool.and_eq_false_iff]; right
            rw [List.all_eq_false]
            exact ⟨target, hmem, by simp [he.1]⟩
          · rcases he.2 with h | h
            · exact Or.inl h
            · exact Or.inr (Or.inl h)

theorem mapStack_err (g : Grammar) (order : List Ty) (limit fuel : Nat) (dna : List Int) (e : Err)
    (s' : SynSt) (h : mapStack g order limit fuel dna = .err e s') : LoopErr g order e := by
  have := loop_safe g order limit fuel (order.map fun t => (t, [])) 0
    { src := .gene { dna := dna, index := 0 } } rfl
  unfold mapStack at h
  rw [h] at this
  exact this

/-! ### Concrete data for the witnesses and non-vacuity examples of Props/C01, C02, C07 -/

/-- `Root(x: Annotated[int, IntRange(2, 4)])` -/
def stackRefSpec : GrammarSpec :=
  { classes := [{ name := "Root", abstract := false, parent := none,
                  fields := [("x", .ann .int (.intRange 2 4))] }],
    start := 0, considered := [0] }
def stackRefG : Grammar := analyse stackRefSpec
/-- its mentioned symbols -/
def stackRefOrder : List Ty := [.cls 0, .int, .ann .int (.intRange 2 4)]

/-- `Root(iv: Annotated[tuple[int, int], IntervalRange(1, 2, 10)])` -/
def stackTupSpec : GrammarSpec :=
  { classes := [{ name := "Root", abstract := false, parent := none,
                  fields := [("iv", .ann (.tuple [.int, .int]) (.interval 1 2 10))] }],
    start := 0, considered := [0] }
def stackTupG : Grammar := analyse stackTupSpec
def stackTupOrder : List Ty :=
  [.cls 0, .int, .ann (.tuple [.int, .int]) (.interval 1 2 10), .tuple [.int, .int]]

/-- `Root(e: Expr, t: tuple[int, bool], l: list[int], u: Union[str, float],
r: Annotated[int, IntRange(2, 4)])`, `Expr` (abstract) ::= `Lit(v: int)`: every kind of symbol
the machine distinguishes -/
def stackExSpec : GrammarSpec :=
  { classes := [
      { name := "Root", abstract := false, parent := none,
        fields := [("e", .cls 1), ("t", .tuple [.int, .bool]), ("l", .list .int),
                   ("u", .union [.str, .float]), ("r", .ann .int (.intRange 2 4))] },
      { name := "Expr", abstract := true, parent := none, fields := [] },
      { name := "Lit", abstract := false, parent := some 1, fields := [("v", .int)] }],
    start := 0, considered := [0, 1, 2] }
def stackExG : Grammar := analyse stackExSpec
def stackExOrder : List Ty :=
  [.cls 0, .cls 1, .cls 2, .int, .bool, .str, .float, .ann .int (.intRange 2 4), .list .int,
   .tuple [.int, .bool], .union [.str, .float]]
/-- int, int, int, Lit, Expr, bool, tuple, int, list (length 1), str, union, the refined int, Root -/
def stackExDna : List Int :=
  [0, 300000, 10005, 300000, 10007, 300000, 10009, 200000, 100000, 0, 400000, 0, 900000, 300000,
   10001, 800000, 1, 500000, 1000000, 0, 700000, 0]
/-- `Root(Lit(9), (5, True), [7], "", 0)`: the refined field holds `int()` -/
def stackExVal : Val :=
  .node 0 0 0 [.node 2 0 0 [.int 9], .tuple [.int 5, .bool true], .list 0 0 [.int 7], .str "", .int 0]

/-- the same grammar with the refinement erased, its symbols and a genotype building the same
program shape without the refined symbol -/
def stackExGS : Grammar := analyse (stripSpec stackExSpec)
def stackExOrderS : List Ty :=
  [.cls 0, .cls 1, .cls 2, .int, .bool, .str, .float, .list .int, .tuple [.int, .bool],
   .union [.str, .float]]
def stackExDnaS : List Int :=
  [0, 300000, 10005, 300000, 10007, 300000, 10009, 200000, 100000, 0, 400000, 0, 800000, 300000,
   10001, 700000, 1, 500000, 900000, 0, 0]
def stackExValS : Val :=
  .node 0 0 0 [.node 2 0 0 [.int 9], .tuple [.int 5, .bool true], .list 0 0 [.int 7], .str "", .int 1]

/-! ### Reading off the program a concrete run returns (for `decide +kernel`) -/

mutual
theorem Val.eq_of_beq : ∀ (a b : Val), Val.beq a b = true → a = b
  | .int _, b, h => by cases b <;> simp_all [Val.beq]
  | .float, b, h => by cases b <;> simp_all [Val.beq]
  | .str _, b, h => by cases b <;> simp_all [Val.beq]
  | .bool _, b, h => by cases b <;> simp_all [Val.beq]
  | .foreign _, b, h => by cases b <;> simp_all [Val.beq]
  | .node c d e as, b, h => by
    cases b <;> simp only [Val.beq, Bool.and_eq_true, beq_iff_eq, Bool.false_eq_true] at h
    obtain ⟨⟨⟨h1, h2⟩, h3⟩, h4⟩ := h
    rw [h1, h2, h3, Val.eqList_of_beq as _ h4]
  | .list d e as, b, h => by
    cases b <;> simp only [Val.beq, Bool.and_eq_true, beq_iff_eq, Bool.false_eq_true] at h
    obtain ⟨⟨h2, h3⟩, h4⟩ := h
    rw [h2, h3, Val.eqList_of_beq as _ h4]
  | .tuple as, b, h => by
    cases b <;> simp only [Val.beq, Bool.false_eq_true] at h
    rw [Val.eqList_of_beq as _ h]
theorem Val.eqList_of_beq : ∀ (as bs : List Val), Val.beqList as bs = true → as = bs
  | [], bs, h => by cases bs <;> simp_all [Val.beqList]
  | a :: as, bs, h => by
    cases bs with
    | nil => simp [Val.beqList] at h
    | cons b bs =>
      simp only [Val.beqList, Bool.and_eq_true] at h
      rw [Val.eq_of_beq a b h.1, Val.eqList_of_beq as bs h.2]
end

/-- the run returned the program `v` -/
def okVal (r : Res Val) (v : Val) : Bool :=
  match r with
  | .ok x _ => Val.beq x v
  | .err _ _ => false

theorem okVal_spec (r : Res Val) (v : Val) (h : okVal r v = true) : ∃ s', r = .ok v s' := by
  cases r with
  | ok x s => exact ⟨s, by rw [Val.eq_of_beq x v h]⟩
  | err e s => simp [okVal] at h

/-- the run raised `e` -/
def errIs (r : Res Val) (e : Err) : Bool :=
  match r with
  | .ok _ _ => false
  | .err x _ => x == e

/-! ### `wt` only reads the class declarations, the registered symbols and the productions -/

structure SameTyping (g g' : Grammar) : Prop where
  cls : ∀ n, g.cls n = g'.cls n
  len : g.spec.classes.length = g'.spec.classes.length
  nodes : g.reg.allNodes = g'.reg.allNodes
  alts : ∀ n, g.altsOf n = g'.altsOf n

theorem isProdOf_congr {g g' : Grammar} (h : SameTyping g g') :
    ∀ (fuel n c : Nat), isProdOf g fuel n c = isProdOf g' fuel n c
  | 0, _, _ => by simp [isProdOf]
  | fuel + 1, n, c => by
    have : (fun p => isProdOf g fuel p c) = (fun p => isProdOf g' fuel p c) :=
      funext fun p => isProdOf_congr h fuel p c
    rw [isProdOf, isProdOf, h.alts n, this]

mutual
theorem wt_congr {g g' : Grammar} (h : SameTyping g g') (deps : List (String × Val)) :
    ∀ (ty : Ty) (v : Val), wt g deps ty v = wt g' deps ty v
  | .int, v | .float, v | .str, v | .bool, v => by cases v <;> simp [wt]
  | .cls n, v => by
    cases v with
    | node c d e args =>
      rw [wt, wt]
      simp only [h.cls c, h.len, h.nodes, isProdOf_congr h, wtFields_congr h [] (g'.cls c).fields args]
    | _ => simp [wt]
  | .list t, v => by
    cases v with
    | list d e vs => rw [wt, wt, wtAll_congr h t vs]
    | _ => simp [wt]
  | .tuple ts, v => by
    cases v with
    | tuple vs => rw [wt, wt, wtTuple_congr h ts vs]
    | _ => simp [wt]
  | .union ts, v => by rw [wt, wt, wtUnion_congr h deps ts v]
  | .ann t mh, v => by rw [wt, wt, wt_congr h deps t v]
termination_by ty v => (sizeOf v, sizeOf ty)
theorem wtAll_congr {g g' : Grammar} (h : SameTyping g g') (t : Ty) :
    ∀ (vs : List Val), wtAll g t vs = wtAll g' t vs
  | [] => by rw [wtAll, wtAll]
  | v :: vs => by rw [wtAll, wtAll, wt_congr h [] t v, wtAll_congr h t vs]
termination_by vs => (sizeOf vs, sizeOf t)
theorem wtTuple_congr {g g' : Grammar} (h : SameTyping g g') :
    ∀ (ts : List Ty) (vs : List Val), wtTuple g ts vs = wtTuple g' ts vs
  | [], [] => by rw [wtTuple, wtTuple]
  | t :: ts, v :: vs => by rw [wtTuple, wtTuple, wt_congr h [] t v, wtTuple_congr h ts vs]
  | [], _ :: _ => by simp [wtTuple]
  | _ :: _, [] => by simp [wtTuple]
termination_by ts vs => (sizeOf vs, sizeOf ts)
theorem wtUnion_congr {g g' : Grammar} (h : SameTyping g g') (deps : List (String × Val)) :
    ∀ (ts : List Ty) (v : Val), wtUnion g deps ts v = wtUnion g' deps ts v
  | [], v => by rw [wtUnion, wtUnion]
  | t :: ts, v => by rw [wtUnion, wtUnion, wt_congr h deps t v, wtUnion_congr h deps ts v]
termination_by ts v => (sizeOf v, sizeOf ts)
theorem wtFields_congr {g g' : Grammar} (h : SameTyping g g') (deps : List (String × Val)) :
    ∀ (fs : List (String × Ty)) (vs : List Val), wtFields g deps fs vs = wtFields g' deps fs vs
  | [], [] => by rw [wtFields, wtFields]
  | (n, t) :: fs, v :: vs => by
    rw [wtFields, wtFields, wt_congr h deps t v, wtFields_congr h (deps ++ [(n, v)]) fs vs]
  | [], _ :: _ => by simp [wtFields]
  | _ :: _, [] => by simp [wtFields]
termination_by fs vs => (sizeOf vs, sizeOf fs)
end

/-- the registration of the stripped declarations is the registration of the declarations
(decidable; registration never looks at a refinement) -/
def sameReg (spec : GrammarSpec) : Bool :=
  decide ((analyse (stripSpec spec)).reg.allNodes = (analyse spec).reg.allNodes) &&
  decide ((analyse (stripSpec spec)).reg.alts = (analyse spec).reg.alts)

theorem sameTyping_strip (spec : GrammarSpec) (h : sameReg spec = true) :
    SameTyping (stripG (analyse spec)) (analyse (stripSpec spec)) := by
  simp only [sameReg, Bool.and_eq_true, decide_eq_true_eq] at h
  refine ⟨fun n => rfl, rfl, h.1.symm, fun n => ?_⟩
  show getAlts (analyse spec).reg.alts n = getAlts (analyse (stripSpec spec)).reg.alts n
  rw [h.2]

/-- the harness predicate `prop_wt_struct` (Drive/C01.lean): well-typed for the re-analysed
stripped declarations -/
theorem mapStack_wt_stripSpec (spec : GrammarSpec) (hwf : altsWF (analyse spec))
    (hsame : sameReg spec = true) (order : List Ty)
    (hreg : orderRegistered (analyse spec) order = true) (hann : annDefaultsOK order = true)
    (limit fuel : Nat) (dna : List Int) (v : Val) (s' : SynSt)
    (h : mapStack (analyse spec) order limit fuel dna = .ok v s') :
    wt (analyse (stripSpec spec)) [] (.cls spec.start) v = true := by
  rw [← wt_congr (sameTyping_strip spec hsame)]
  exact mapStack_wtS (analyse spec) hwf order hreg hann limit fuel dna v s' h

end GEVerif.StackLemmas
