/-
  Facts about the model of `sorted(xs, key=…)` (`GEVerif.Order.sortBy`): the result is a sorted
  permutation of its input, and a list has at most one sorted permutation when its keys are
  pairwise distinct.  Used by Props/C08.lean.
-/
import GEVerif.Model.Order

namespace GEVerif.OrderLemmas
open GEVerif GEVerif.Order

/-- sorted by key, weakly -/
def Sorted {α : Type} (key : α → Nat) (xs : List α) : Prop :=
  xs.Pairwise fun a b => key a ≤ key b

theorem insertBy_perm {α : Type} (key : α → Nat) (x : α) (l : List α) :
    (insertBy key x l).Perm (x :: l) := by
  induction l with
  | nil => exact List.Perm.refl _
  | cons y ys ih =>
    unfold insertBy
    split
    · exact List.Perm.refl _
    · exact (List.Perm.cons y ih).trans (List.Perm.swap x y ys)

theorem sortBy_perm {α : Type} (key : α → Nat) (l : List α) : (sortBy key l).Perm l := by
  induction l with
  | nil => exact List.Perm.refl _
  | cons x xs ih =>
    show (insertBy key x (sortBy key xs)).Perm (x :: xs)
    exact (insertBy_perm key x _).trans (List.Perm.cons x ih)

theorem mem_insertBy {α : Type} (key : α → Nat) (x a : α) (l : List α) :
    a ∈ insertBy key x l ↔ a = x ∨ a ∈ l := by
  rw [(insertBy_perm key x l).mem_iff, List.mem_cons]

theorem mem_sortBy {α : Type} (key : α → Nat) (a : α) (l : List α) :
    a ∈ sortBy key l ↔ a ∈ l := (sortBy_perm key l).mem_iff

theorem length_sortBy {α : Type} (key : α → Nat) (l : List α) :
    (sortBy key l).length = l.length := (sortBy_perm key l).length_eq

theorem insertBy_sorted {α : Type} (key : α → Nat) (x : α) (l : List α)
    (h : Sorted key l) : Sorted key (insertBy key x l) := by
  induction l with
  | nil => exact List.pairwise_singleton _ _
  | cons y ys ih =>
    unfold insertBy
    have hy := List.pairwise_cons.1 h
    split
    · rename_i hle
      refine List.pairwise_cons.2 ⟨?_, h⟩
      intro b hb
      rcases List.mem_cons.1 hb with rfl | hb
      · exact hle
      · exact Nat.le_trans hle (hy.1 b hb)
    · rename_i hnle
      refine List.pairwise_cons.2 ⟨?_, ih hy.2⟩
      intro b hb
      rcases (mem_insertBy key x b ys).1 hb with rfl | hb
      · omega
      · exact hy.1 b hb

theorem sortBy_sorted {α : Type} (key : α → Nat) (l : List α) : Sorted key (sortBy key l) := by
  induction l with
  | nil => exact List.Pairwise.nil
  | cons x xs ih => exact insertBy_sorted key x _ ih

/-- a list whose keys are pairwise distinct has at most one sorted permutation -/
theorem sorted_perm_unique {α : Type} (key : α → Nat) :
    ∀ (l₁ l₂ : List α), l₁.Perm l₂ → Sorted key l₁ → Sorted key l₂ →
      (∀ a ∈ l₁, ∀ b ∈ l₁, key a = key b → a = b) → l₁ = l₂
  | [], l₂, hp, _, _, _ => (List.Perm.nil_eq hp)
  | a :: t₁, [], hp, _, _, _ => absurd hp.length_eq (by simp)
  | a :: t₁, b :: t₂, hp, h₁, h₂, hinj => by
    have s₁ := List.pairwise_cons.1 h₁
    have s₂ := List.pairwise_cons.1 h₂
    have hb : b ∈ a :: t₁ := hp.mem_iff.2 List.mem_cons_self
    have ha : a ∈ b :: t₂ := hp.mem_iff.1 List.mem_cons_self
    have hab : key a ≤ key b := by
      rcases List.mem_cons.1 hb with rfl | hb'
      · exact Nat.le_refl _
      · exact s₁.1 b hb'
    have hba : key b ≤ key a := by
      rcases List.mem_cons.1 ha with rfl | ha'
      · exact Nat.le_refl _
      · exact s₂.1 a ha'
    have heq : a = b := hinj a List.mem_cons_self b hb (Nat.le_antisymm hab hba)
    subst heq
    have ht : t₁ = t₂ :=
      sorted_perm_unique key t₁ t₂ (List.Perm.cons_inv hp) s₁.2 s₂.2
        (fun x hx y hy => hinj x (List.mem_cons_of_mem _ hx) y (List.mem_cons_of_mem _ hy))
    rw [ht]

/-- `sorted` does not see the order of its input when the keys are pairwise distinct -/
theorem sortBy_perm_invariant {α : Type} (key : α → Nat) {xs ys : List α} (hp : xs.Perm ys)
    (hinj : ∀ a ∈ xs, ∀ b ∈ xs, key a = key b → a = b) : sortBy key xs = sortBy key ys := by
  refine sorted_perm_unique key _ _ ?_ (sortBy_sorted key xs) (sortBy_sorted key ys) ?_
  · exact (sortBy_perm key xs).trans (hp.trans (sortBy_perm key ys).symm)
  · intro a ha b hb
    exact hinj a ((mem_sortBy key a xs).1 ha) b ((mem_sortBy key b xs).1 hb)

/-- Python's `sorted` is stable; so is the model: inserting an element whose key ties with the
head puts it in front, i.e. elements of the input with equal keys keep their input order. -/
theorem insertBy_of_le_head {α : Type} (key : α → Nat) (x y : α) (ys : List α)
    (h : key x ≤ key y) : insertBy key x (y :: ys) = x :: y :: ys := by
  simp [insertBy, h]

end GEVerif.OrderLemmas
