/-
  Decidable side conditions and predicates of the C03 theorems (Props/C03.lean), kept apart from
  the proofs: this file imports only `GEVerif.Model.*`, so a driver can evaluate them per grammar
  (`distConsistent`, `distAttained`, `refinementsUsable`, `altsAbstract`) or on an implementation
  output (`budgetOK`).
-/
import GEVerif.Model.Synth

namespace GEVerif

/-- the deciders that take a depth limit (`progressive` does not) -/
def DKind.depthLimited : DKind → Bool
  | .progressive => false
  | _ => true


/-- The distance table agrees with the class declarations in the direction creation needs:
every registered class that creation instantiates directly (no registered alternatives) and
whose distance is finite costs at least one level, and at least one level more than each of
its field types.  (True of every fixpoint of the distance equations, see `isFixpoint`.) -/
def distConsistent (g : Grammar) : Bool :=
  g.reg.allNodes.all fun s =>
    match s with
    | .cls n =>
      (g.altsOf n).isSome ||
      !(decide (lookupDist g.dist (.cls n) < INF)) ||
      (decide (1 ≤ lookupDist g.dist (.cls n)) &&
        (g.cls n).fields.all fun f =>
          decide (1 + distTy g.e g.dist f.2 ≤ lookupDist g.dist (.cls n)))
    | _ => true



/-! ### Hereditary budget of stored synthesis contexts -/

mutual
/-- every stored synthesis context inside `v` leaves room for what hangs below it: a node of
class `c` stored at depth `d` has `d + dist c ≤ D` (so creation may be re-entered there) and
`d + depth ≤ D` -/
def budgetOK (g : Grammar) (D : Nat) : Val → Bool
  | .node c d _ args =>
      decide (d + lookupDist g.dist (.cls c) ≤ D) && decide (d + (1 + Val.depthList args) ≤ D)
        && budgetOKList g D args
  | .list d _ vs => decide (d + Val.depthList vs ≤ D) && budgetOKList g D vs
  | .tuple vs => budgetOKList g D vs
  | _ => true
def budgetOKList (g : Grammar) (D : Nat) : List Val → Bool
  | [] => true
  | v :: vs => budgetOK g D v && budgetOKList g D vs
end


/-! ### Usability of feasible limits -/

/-- every registered class with registered alternatives and a finite distance has an
alternative that attains it (`e + dist p ≤ dist n`) -/
def distAttained (g : Grammar) : Bool :=
  g.reg.allNodes.all fun s =>
    match s with
    | .cls n =>
      match g.altsOf n with
      | some prods =>
        !(decide (lookupDist g.dist (.cls n) < INF)) ||
        prods.any fun p => decide (g.e + lookupDist g.dist (.cls p) ≤ lookupDist g.dist (.cls n))
      | none => true
    | _ => true


/-- a refinement whose `generate` cannot hit an empty `choice` / a non-list base, and cannot
raise `SynthesisException` -/
def mhUsable (base : Ty) : MH → Bool
  | .intList xs => !xs.isEmpty
  | .varRange opts => !opts.isEmpty
  | .listSize _ _ => (match base with | .list _ => true | _ => false)
  | .strSize _ _ al => !al.isEmpty
  | .floatList n => n != 0
  | .depListSize _ => (match base with | .list _ => true | _ => false)
  | .depVarFrom _ => false
  | _ => true

mutual
def tyUsable : Ty → Bool
  | .list t => tyUsable t
  | .tuple ts => tysUsable ts
  | .union ts => tysUsable ts
  | .ann t mh => mhUsable t mh && tyUsable t
  | _ => true
def tysUsable : List Ty → Bool
  | [] => true
  | t :: ts => tyUsable t && tysUsable ts
end

/-- all field types of the registered classes are usable -/
def refinementsUsable (g : Grammar) : Bool :=
  g.reg.allNodes.all fun s =>
    match s with
    | .cls n => (g.cls n).fields.all fun f => tyUsable f.2
    | _ => true


/-- only abstract classes have registered alternatives (an invariant of `register_type`) -/
def altsAbstract (g : Grammar) : Bool :=
  g.reg.alts.all fun kv => (g.cls kv.1).abstract


end GEVerif
