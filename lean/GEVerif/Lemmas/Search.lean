/-
  Helper lemmas about the abstract search loop of `Model/Eval.lean`
  (`search`, `stateFrom`, `Tracker.presentAll`), shared by the C12 and C14 property files.
-/
import GEVerif.Model.Eval

namespace GEVerif.Eval

theorem stateFrom_succ (iters : Nat → Iter) (i : Nat) (s : SearchState) (j : Nat) :
    stateFrom iters i s (j + 1) = (stateFrom iters i s j).step (iters (i + j)) := by
  induction j generalizing i s with
  | zero => simp [stateFrom]
  | succ j ih =>
    rw [stateFrom, ih (i + 1) (s.step (iters i))]
    simp only [stateFrom]
    have : i + 1 + j = i + (j + 1) := by omega
    rw [this]

/-- The loop stops at check `i + m` exactly when the budget is met there for the first time. -/
theorem search_eq_some_iff (b : Budget) (iters : Nat → Iter) (fuel i : Nat) (s : SearchState)
    (k : Nat) (s' : SearchState) :
    search b iters fuel i s = some (k, s') ↔
      ∃ m, k = i + m ∧ m < fuel ∧ s' = stateFrom iters i s m ∧ b.isDone s' = true ∧
        ∀ j, j < m → b.isDone (stateFrom iters i s j) = false := by
  induction fuel generalizing i s with
  | zero => simp [search]
  | succ fuel ih =>
    simp only [search]
    by_cases hd : b.isDone s = true
    · simp only [hd, if_true, Option.some.injEq, Prod.mk.injEq]
      constructor
      · rintro ⟨rfl, rfl⟩
        exact ⟨0, rfl, by omega, rfl, hd, by intro j hj; omega⟩
      · rintro ⟨m, rfl, _, rfl, _, hfirst⟩
        cases m with
        | zero => exact ⟨rfl, rfl⟩
        | succ m =>
          have := hfirst 0 (by omega)
          simp [stateFrom, hd] at this
    · have hd' : b.isDone s = false := by simpa using hd
      simp only [hd', Bool.false_eq_true, if_false]
      rw [ih (i + 1) (s.step (iters i))]
      constructor
      · rintro ⟨m, rfl, hm, rfl, hdone, hfirst⟩
        refine ⟨m + 1, by omega, by omega, rfl, hdone, ?_⟩
        intro j hj
        cases j with
        | zero => exact hd'
        | succ j => exact hfirst j (by omega)
      · rintro ⟨m, rfl, hm, rfl, hdone, hfirst⟩
        cases m with
        | zero => simp [stateFrom, hd'] at hdone
        | succ m =>
          refine ⟨m, by omega, by omega, rfl, hdone, ?_⟩
          intro j hj
          exact hfirst (j + 1) (by omega)

theorem search_eq_none_iff (b : Budget) (iters : Nat → Iter) (fuel i : Nat) (s : SearchState) :
    search b iters fuel i s = none ↔ ∀ j, j < fuel → b.isDone (stateFrom iters i s j) = false := by
  induction fuel generalizing i s with
  | zero => simp [search]
  | succ fuel ih =>
    simp only [search]
    by_cases hd : b.isDone s = true
    · simp only [hd, if_true]
      constructor
      · intro h; cases h
      · intro h
        have := h 0 (by omega)
        simp [stateFrom, hd] at this
    · have hd' : b.isDone s = false := by simpa using hd
      simp only [hd', Bool.false_eq_true, if_false]
      rw [ih]
      constructor
      · intro h j hj
        cases j with
        | zero => exact hd'
        | succ j => exact h j (by omega)
      · intro h j hj
        exact h (j + 1) (by omega)

theorem presentAll_append (t : Tracker) (xs ys : List Reg) :
    t.presentAll (xs ++ ys) = (t.presentAll xs).presentAll ys := by
  simp [Tracker.presentAll, List.foldl_append]

theorem presentAll_single (b : Option Reg) (rs : List Reg) :
    (Tracker.single b).presentAll rs = .single (sRun b rs).1 := by
  induction rs generalizing b with
  | nil => rfl
  | cons r rs ih =>
    simp only [Tracker.presentAll, List.foldl_cons, Tracker.present, sRun]
    exact ih _

theorem presentAll_multi (f : List Reg) (rs : List Reg) :
    (Tracker.multi f).presentAll rs = .multi (mRun f rs).1 := by
  induction rs generalizing f with
  | nil => rfl
  | cons r rs ih =>
    simp only [Tracker.presentAll, List.foldl_cons, Tracker.present, mRun]
    exact ih _

/-- tracker and counter at check `j` -/
theorem stateFrom_tracker (iters : Nat → Iter) (i : Nat) (s : SearchState) (j : Nat) :
    (stateFrom iters i s j).tracker =
      s.tracker.presentAll ((List.range j).flatMap (fun t => (iters (i + t)).regs)) := by
  induction j with
  | zero => simp [stateFrom, Tracker.presentAll]
  | succ j ih =>
    rw [stateFrom_succ, SearchState.step, List.range_succ, List.flatMap_append, presentAll_append]
    simp [ih]

theorem stateFrom_count_succ (iters : Nat → Iter) (i : Nat) (s : SearchState) (j : Nat) :
    (stateFrom iters i s (j + 1)).count = (stateFrom iters i s j).count + (iters (i + j)).evals := by
  rw [stateFrom_succ]; rfl

end GEVerif.Eval
