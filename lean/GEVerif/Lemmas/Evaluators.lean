/-
  Helper lemmas about the evaluators of `Model/Eval.lean` (fitness cache, sequential and parallel
  evaluation), and the invariant `Honest` in which property C13 is stated.
-/
import GEVerif.Model.Eval
namespace GEVerif.Eval

/-! ## The fitness cache -/

theorem cacheGet_cacheSet_self (p : Nat) (f : Fitness) (c : List (Nat × Fitness)) :
    cacheGet p (cacheSet p f c) = some f := by
  induction c with
  | nil => simp [cacheSet, cacheGet]
  | cons e rest ih =>
    obtain ⟨q, g⟩ := e
    by_cases h : q = p <;> simp [cacheSet, cacheGet, h, ih]

theorem cacheGet_cacheSet_ne (p q : Nat) (f : Fitness) (c : List (Nat × Fitness)) (hne : q ≠ p) :
    cacheGet q (cacheSet p f c) = cacheGet q c := by
  induction c with
  | nil => simp [cacheSet, cacheGet]; omega
  | cons e rest ih =>
    obtain ⟨r, g⟩ := e
    by_cases h : r = p
    · subst h
      have : ¬ r = q := fun h => hne h.symm
      simp [cacheSet, cacheGet, this]
    · by_cases h2 : r = q
      · subst h2; simp [cacheSet, cacheGet, h]
      · simp [cacheSet, cacheGet, h, h2, ih]

/-- individual `i` of the heap has a fitness for problem `p` -/
def Cached (st : EvalState) (p i : Nat) : Prop := ∃ ind, st.store[i]? = some ind ∧ ind.has p = true

/-- The invariant "fitness from the phenotype, once, counted honestly". -/
structure Honest (Ps : List Problem) (st : EvalState) : Prop where
  /-- the counter equals the number of fitness-function invocations -/
  count_eq : st.log.length = st.count
  /-- no (problem, individual) pair was evaluated twice -/
  once : st.log.Nodup
  /-- whatever was evaluated is cached (so it will not be evaluated again) -/
  logged_cached : ∀ p i, (p, i) ∈ st.log → Cached st p i
  /-- every recorded fitness is what the problem computes from that individual's phenotype -/
  faithful : ∀ (i : Nat) (ind : Indiv) (p : Nat) (f : Fitness) (P : Problem), st.store[i]? = some ind → ind.fitness? p = some f → Ps[p]? = some P →
    f = P.fitnessOf ind.pheno

theorem has_setFitness_self (ind : Indiv) (p : Nat) (f : Fitness) : (ind.setFitness p f).has p = true := by
  simp [Indiv.has, Indiv.setFitness, cacheGet_cacheSet_self]

theorem has_setFitness_mono (ind : Indiv) (p q : Nat) (f : Fitness) (h : ind.has q = true) :
    (ind.setFitness p f).has q = true := by
  by_cases hq : q = p
  · subst hq; exact has_setFitness_self ind q f
  · simpa [Indiv.has, Indiv.setFitness, cacheGet_cacheSet_ne p q f _ hq] using h

/-- the three cases of one loop iteration of the sequential evaluator -/
theorem evalOne_cases (P : Problem) (p : Nat) (st : EvalState) (i : Nat) :
    (evalOne P p st i = st ∧ (st.store[i]? = none ∨ Cached st p i)) ∨
    (∃ ind, st.store[i]? = some ind ∧ ind.has p = false ∧
      evalOne P p st i = { store := st.store.set i (ind.setFitness p (P.fitnessOf ind.pheno)),
                           count := st.count + 1, log := st.log ++ [(p, i)] }) := by
  have hopt : st.store[i]? = none ∨ ∃ ind, st.store[i]? = some ind := by
    cases st.store[i]? <;> simp
  rcases hopt with hi | ⟨ind, hi⟩
  · exact Or.inl ⟨by simp [evalOne, hi], Or.inl hi⟩
  · by_cases hh : ind.has p = true
    · exact Or.inl ⟨by simp [evalOne, hi, hh], Or.inr ⟨ind, hi, hh⟩⟩
    · have hh' : ind.has p = false := by simpa using hh
      exact Or.inr ⟨ind, hi, hh', by simp [evalOne, hi, hh']⟩

theorem lt_of_getElem?_some {α : Type} {l : List α} {i : Nat} {a : α} (h : l[i]? = some a) :
    i < l.length := by
  have := List.getElem?_eq_none_iff (l := l) (i := i)
  by_cases hl : i < l.length
  · exact hl
  · rw [this.mpr (by omega)] at h; cases h

theorem evalOne_length (P : Problem) (p : Nat) (st : EvalState) (i : Nat) :
    (evalOne P p st i).store.length = st.store.length := by
  rcases evalOne_cases P p st i with ⟨h, _⟩ | ⟨ind, _, _, h⟩ <;> rw [h] <;> simp

theorem evalOne_pheno (P : Problem) (p : Nat) (st : EvalState) (i j : Nat) :
    (evalOne P p st i).store[j]?.map (·.pheno) = st.store[j]?.map (·.pheno) := by
  rcases evalOne_cases P p st i with ⟨h, _⟩ | ⟨ind, hi, _, h⟩
  · rw [h]
  · rw [h]
    simp only [List.getElem?_set]
    by_cases hij : i = j
    · subst hij
      simp [lt_of_getElem?_some hi, Indiv.setFitness, (List.getElem?_eq_some_iff.mp hi).2]
    · simp [hij]

theorem evalOne_cached_mono (P : Problem) (p : Nat) (st : EvalState) (i q j : Nat)
    (h : Cached st q j) : Cached (evalOne P p st i) q j := by
  rcases evalOne_cases P p st i with ⟨he, _⟩ | ⟨ind, hi, _, he⟩
  · rw [he]; exact h
  · rw [he]
    obtain ⟨indj, hj, hq⟩ := h
    by_cases hij : i = j
    · subst hij
      rw [hi] at hj; cases hj
      exact ⟨ind.setFitness p (P.fitnessOf ind.pheno), by simp [lt_of_getElem?_some hi], has_setFitness_mono _ _ _ _ hq⟩
    · exact ⟨indj, by simp [hij, hj], hq⟩

theorem evalOne_cached_self (P : Problem) (p : Nat) (st : EvalState) (i : Nat)
    (hi : i < st.store.length) : Cached (evalOne P p st i) p i := by
  rcases evalOne_cases P p st i with ⟨he, hn | hc⟩ | ⟨ind, hi', _, he⟩
  · rw [List.getElem?_eq_none_iff] at hn; omega
  · rw [he]; exact hc
  · rw [he]
    exact ⟨ind.setFitness p (P.fitnessOf ind.pheno), by simp [hi], has_setFitness_self _ _ _⟩

theorem evalOne_honest (Ps : List Problem) (P : Problem) (p : Nat) (hP : Ps[p]? = some P)
    (st : EvalState) (i : Nat) (h : Honest Ps st) : Honest Ps (evalOne P p st i) := by
  rcases evalOne_cases P p st i with ⟨he, _⟩ | ⟨ind, hi, hnot, he⟩
  · rw [he]; exact h
  · have hmono := evalOne_cached_mono P p st i
    have hself := evalOne_cached_self P p st i (lt_of_getElem?_some hi)
    rw [he] at hmono hself ⊢
    refine ⟨by simp [h.count_eq], ?_, ?_, ?_⟩
    · rw [List.nodup_append]
      refine ⟨h.once, by simp, ?_⟩
      intro a ha b hb
      simp at hb; subst hb
      intro heq; subst heq
      obtain ⟨ind', hi', hhas⟩ := h.logged_cached p i ha
      rw [hi] at hi'; cases hi'
      rw [hnot] at hhas; cases hhas
    · intro q j hmem
      rcases List.mem_append.mp hmem with hm | hm
      · exact hmono q j (h.logged_cached q j hm)
      · simp at hm; obtain ⟨rfl, rfl⟩ := hm; exact hself
    · intro j indj q f Q hj hf hQ
      simp only [List.getElem?_set] at hj
      by_cases hij : i = j
      · subst hij
        simp only [lt_of_getElem?_some hi, if_true, Option.some.injEq] at hj
        subst hj
        by_cases hq : q = p
        · subst hq
          rw [hP] at hQ; cases hQ
          simp only [Indiv.fitness?, Indiv.setFitness, cacheGet_cacheSet_self, Option.some.injEq] at hf
          simp [Indiv.setFitness, ← hf]
        · simp only [Indiv.fitness?, Indiv.setFitness, cacheGet_cacheSet_ne p q _ _ hq] at hf
          exact h.faithful i ind q f Q hi hf hQ
      · simp only [hij, if_false] at hj
        exact h.faithful j indj q f Q hj hf hQ

/-! ## Sequential evaluation of a batch -/

theorem evalOne_noop_none (P : Problem) (p : Nat) (st : EvalState) (i : Nat) (h : st.store[i]? = none) :
    evalOne P p st i = st := by simp [evalOne, h]

theorem evalOne_noop_cached (P : Problem) (p : Nat) (st : EvalState) (i : Nat) (h : Cached st p i) :
    evalOne P p st i = st := by
  obtain ⟨ind, hi, hh⟩ := h
  simp [evalOne, hi, hh]

theorem evalOne_new (P : Problem) (p : Nat) (st : EvalState) (i : Nat) (ind : Indiv)
    (hi : st.store[i]? = some ind) (hh : ind.has p = false) :
    evalOne P p st i = { store := st.store.set i (ind.setFitness p (P.fitnessOf ind.pheno)),
                         count := st.count + 1, log := st.log ++ [(p, i)] } := by
  simp [evalOne, hi, hh]

theorem evalOne_other (P : Problem) (p : Nat) (st : EvalState) (i j : Nat) (hij : i ≠ j) :
    (evalOne P p st i).store[j]? = st.store[j]? := by
  rcases evalOne_cases P p st i with ⟨h, _⟩ | ⟨ind, _, _, h⟩ <;> rw [h]
  simp [hij]

theorem seqEval_cons (P : Problem) (p i : Nat) (rest : List Nat) (st : EvalState) :
    seqEval P p (i :: rest) st = seqEval P p rest (evalOne P p st i) := rfl

theorem seqEval_honest (Ps : List Problem) (P : Problem) (p : Nat) (hP : Ps[p]? = some P)
    (batch : List Nat) (st : EvalState) (h : Honest Ps st) : Honest Ps (seqEval P p batch st) := by
  induction batch generalizing st with
  | nil => exact h
  | cons i rest ih => exact ih _ (evalOne_honest Ps P p hP st i h)

theorem seqEval_length (P : Problem) (p : Nat) (batch : List Nat) (st : EvalState) :
    (seqEval P p batch st).store.length = st.store.length := by
  induction batch generalizing st with
  | nil => rfl
  | cons i rest ih => rw [seqEval_cons, ih, evalOne_length]

theorem seqEval_pheno (P : Problem) (p : Nat) (batch : List Nat) (st : EvalState) (j : Nat) :
    (seqEval P p batch st).store[j]?.map (·.pheno) = st.store[j]?.map (·.pheno) := by
  induction batch generalizing st with
  | nil => rfl
  | cons i rest ih => rw [seqEval_cons, ih, evalOne_pheno]

theorem seqEval_cached_mono (P : Problem) (p : Nat) (batch : List Nat) (st : EvalState) (q j : Nat)
    (h : Cached st q j) : Cached (seqEval P p batch st) q j := by
  induction batch generalizing st with
  | nil => exact h
  | cons i rest ih => exact ih _ (evalOne_cached_mono P p st i q j h)

theorem seqEval_cached_batch (P : Problem) (p : Nat) (batch : List Nat) (st : EvalState) (i : Nat)
    (hi : i ∈ batch) (hlt : i < st.store.length) : Cached (seqEval P p batch st) p i := by
  induction batch generalizing st with
  | nil => cases hi
  | cons b rest ih =>
    rw [seqEval_cons]
    rcases List.mem_cons.mp hi with rfl | hmem
    · exact seqEval_cached_mono P p rest _ p i (evalOne_cached_self P p st i hlt)
    · exact ih _ hmem (by rw [evalOne_length]; exact hlt)

/-! ## What the parallel evaluator sends to the pool -/

theorem pendingGo_cons_none (p : Nat) (store : List Indiv) (seen : List Nat) (i : Nat) (rest : List Nat)
    (hi : store[i]? = none) : pendingGo p store seen (i :: rest) = pendingGo p store seen rest := by
  simp [pendingGo, hi]

theorem pendingGo_cons_skip (p : Nat) (store : List Indiv) (seen : List Nat) (i : Nat) (rest : List Nat)
    (ind : Indiv) (hi : store[i]? = some ind) (hc : ind.has p = true ∨ i ∈ seen) :
    pendingGo p store seen (i :: rest) = pendingGo p store seen rest := by
  simp [pendingGo, hi, hc]

theorem pendingGo_cons_take (p : Nat) (store : List Indiv) (seen : List Nat) (i : Nat) (rest : List Nat)
    (ind : Indiv) (hi : store[i]? = some ind) (hh : ind.has p = false) (hs : i ∉ seen) :
    pendingGo p store seen (i :: rest) = i :: pendingGo p store (i :: seen) rest := by
  simp [pendingGo, hi, hh, hs]

theorem pendingGo_spec (p : Nat) (store : List Indiv) (batch seen : List Nat) :
    (∀ i ∈ pendingGo p store seen batch, i ∉ seen ∧ ∃ ind, store[i]? = some ind ∧ ind.has p = false) ∧
    (pendingGo p store seen batch).Nodup := by
  induction batch generalizing seen with
  | nil => simp [pendingGo]
  | cons i rest ih =>
    have hopt : store[i]? = none ∨ ∃ ind, store[i]? = some ind := by cases store[i]? <;> simp
    rcases hopt with hi | ⟨ind, hi⟩
    · rw [pendingGo_cons_none p store seen i rest hi]; exact ih seen
    · by_cases hc : ind.has p = true ∨ i ∈ seen
      · rw [pendingGo_cons_skip p store seen i rest ind hi hc]; exact ih seen
      · have hhas : ind.has p = false := by
          cases h : ind.has p
          · rfl
          · exact absurd (Or.inl h) hc
        have hseen : i ∉ seen := fun hm => hc (Or.inr hm)
        obtain ⟨ih1, ih2⟩ := ih (i :: seen)
        rw [pendingGo_cons_take p store seen i rest ind hi hhas hseen]
        refine ⟨?_, ?_⟩
        · intro j hj
          rcases List.mem_cons.mp hj with rfl | hj
          · exact ⟨hseen, ind, hi, hhas⟩
          · obtain ⟨h1, h2⟩ := ih1 j hj
            exact ⟨fun hm => h1 (List.mem_cons_of_mem _ hm), h2⟩
        · rw [List.nodup_cons]
          refine ⟨?_, ih2⟩
          intro hm
          exact (ih1 i hm).1 List.mem_cons_self

/-- Presenting the whole batch to the sequential evaluator is the same as presenting only the
pending individuals: already-evaluated ones and second occurrences are skipped by it. -/
theorem seqEval_pendingGo (P : Problem) (p : Nat) (store0 : List Indiv) (batch seen : List Nat)
    (st : EvalState) (hlen : st.store.length = store0.length)
    (hseen : ∀ j, j ∈ seen → Cached st p j) (hrest : ∀ j, j ∉ seen → st.store[j]? = store0[j]?) :
    seqEval P p batch st = seqEval P p (pendingGo p store0 seen batch) st := by
  induction batch generalizing seen st with
  | nil => rfl
  | cons i rest ih =>
    rw [seqEval_cons]
    have hopt : store0[i]? = none ∨ ∃ ind, store0[i]? = some ind := by cases store0[i]? <;> simp
    rcases hopt with hi | ⟨ind, hi⟩
    · have hnone : st.store[i]? = none := by
        rw [List.getElem?_eq_none_iff] at hi ⊢; omega
      rw [evalOne_noop_none P p st i hnone, pendingGo_cons_none p store0 seen i rest hi]
      exact ih seen st hlen hseen hrest
    · by_cases hc : ind.has p = true ∨ i ∈ seen
      · have hcached : Cached st p i := by
          by_cases hm : i ∈ seen
          · exact hseen i hm
          · have hh : ind.has p = true := by
              rcases hc with h | h
              · exact h
              · exact absurd h hm
            exact ⟨ind, by rw [hrest i hm]; exact hi, hh⟩
        rw [evalOne_noop_cached P p st i hcached, pendingGo_cons_skip p store0 seen i rest ind hi hc]
        exact ih seen st hlen hseen hrest
      · have hhas : ind.has p = false := by
          cases h : ind.has p
          · rfl
          · exact absurd (Or.inl h) hc
        have hseen' : i ∉ seen := fun hm => hc (Or.inr hm)
        rw [pendingGo_cons_take p store0 seen i rest ind hi hhas hseen', seqEval_cons]
        have hlt : i < st.store.length := by rw [hlen]; exact lt_of_getElem?_some hi
        apply ih (i :: seen) (evalOne P p st i)
        · rw [evalOne_length]; exact hlen
        · intro j hj
          rcases List.mem_cons.mp hj with rfl | hj
          · exact evalOne_cached_self P p st j hlt
          · exact evalOne_cached_mono P p st i p j (hseen j hj)
        · intro j hj
          have hne : i ≠ j := fun h => hj (h ▸ List.mem_cons_self)
          rw [evalOne_other P p st i j hne]
          exact hrest j (fun hm => hj (List.mem_cons_of_mem _ hm))

theorem seqEval_pending (P : Problem) (p : Nat) (batch : List Nat) (st : EvalState) :
    seqEval P p batch st = seqEval P p (pending p st.store batch) st :=
  seqEval_pendingGo P p st.store batch [] st rfl (by simp) (fun _ _ => rfl)

/-! ## `pool.map`: results by position, completion order irrelevant -/

theorem filterMap_range'_getElem? (pre xs : List Nat) :
    (List.range' pre.length xs.length).filterMap (fun j => (pre ++ xs)[j]?) = xs := by
  induction xs generalizing pre with
  | nil => simp
  | cons x rest ih =>
    have h1 : (pre ++ x :: rest)[pre.length]? = some x := by simp
    have h2 := ih (pre ++ [x])
    simp only [List.length_append, List.length_cons, List.length_nil, List.append_assoc,
      List.singleton_append] at h2
    simp only [List.length_cons, List.range'_succ, List.filterMap_cons, h1]
    rw [h2]

theorem filterMap_range_getElem? (xs : List Nat) :
    (List.range xs.length).filterMap (fun j => xs[j]?) = xs := by
  have := filterMap_range'_getElem? [] xs
  simpa [List.range_eq_range'] using this

theorem poolMap_fold {β : Type} (f : Nat → β) (xs : List Nat) (order : List Nat)
    (acc : List (Option β) × List Nat) (hlen : acc.1.length = xs.length) :
    let r := order.foldl (poolStep f xs) acc
    r.1.length = xs.length ∧
    (∀ j, j < xs.length → r.1[j]? = if j ∈ order then xs[j]?.map (fun x => some (f x)) else acc.1[j]?) ∧
    r.2 = acc.2 ++ order.filterMap (fun j => xs[j]?) := by
  induction order generalizing acc with
  | nil => simp [hlen]
  | cons o os ih =>
    simp only [List.foldl_cons]
    have hopt : xs[o]? = none ∨ ∃ x, xs[o]? = some x := by cases xs[o]? <;> simp
    rcases hopt with ho | ⟨x, ho⟩
    · have hstep : poolStep f xs acc o = acc := by simp [poolStep, ho]
      rw [hstep]
      obtain ⟨i1, i2, i3⟩ := ih acc hlen
      refine ⟨i1, ?_, by simp [i3, ho]⟩
      intro j hj
      rw [i2 j hj]
      have hoj : o ≠ j := by
        intro h; subst h
        rw [List.getElem?_eq_none_iff] at ho; omega
      by_cases hm : j ∈ os
      · simp [hm]
      · have : j ∉ o :: os := by
          intro h
          rcases List.mem_cons.mp h with rfl | h
          · exact hoj rfl
          · exact hm h
        simp [hm, this]
    · have hstep : poolStep f xs acc o = (acc.1.set o (some (f x)), acc.2 ++ [x]) := by simp [poolStep, ho]
      rw [hstep]
      obtain ⟨i1, i2, i3⟩ := ih (acc.1.set o (some (f x)), acc.2 ++ [x]) (by simp [hlen])
      refine ⟨i1, ?_, by simp [i3, ho]⟩
      intro j hj
      rw [i2 j hj]
      by_cases hm : j ∈ os
      · simp [hm]
      · simp only [hm, if_false]
        by_cases hoj : o = j
        · subst hoj
          have : o < acc.1.length := by omega
          simp [this, ho]
        · have : j ∉ o :: os := by
            intro h
            rcases List.mem_cons.mp h with rfl | h
            · exact hoj rfl
            · exact hm h
          simp [this, hoj]

/-- Whatever the completion order (any permutation of the worker indices), `pool.map` returns
`f` of input `j` in slot `j`, and the workers' log is a permutation of the inputs. -/
theorem poolMap_perm {β : Type} (f : Nat → β) (xs : List Nat) (order : List Nat)
    (hperm : order.Perm (List.range xs.length)) :
    (poolMap f xs order).1 = xs.map (fun x => some (f x)) ∧ (poolMap f xs order).2.Perm xs := by
  obtain ⟨i1, i2, i3⟩ := poolMap_fold f xs order (List.replicate xs.length none, []) (by simp)
  unfold poolMap
  refine ⟨?_, ?_⟩
  · apply List.ext_getElem?
    intro j
    by_cases hj : j < xs.length
    · rw [i2 j hj]
      have : j ∈ order := hperm.mem_iff.mpr (List.mem_range.mpr hj)
      simp [this]
    · rw [List.getElem?_eq_none_iff.mpr (by omega), List.getElem?_eq_none_iff.mpr (by simp; omega)]
  · rw [i3]
    simp only [List.nil_append]
    have := hperm.filterMap (fun j => xs[j]?)
    rwa [filterMap_range_getElem?] at this

/-! ## Writing the results back -/

theorem applyResults_seq (P : Problem) (p : Nat) (store0 : List Indiv) (is : List Nat)
    (stA stS : EvalState) (hstore : stA.store = stS.store) (hcount : stA.count = stS.count)
    (hnd : is.Nodup)
    (hpend : ∀ i ∈ is, ∃ ind, stS.store[i]? = some ind ∧ ind.has p = false ∧ store0[i]? = some ind) :
    let w := fun i => P.fitnessOf ((store0[i]?.map (·.pheno)).getD 0)
    (applyResults p is (is.map (fun i => some (w i))) stA).store = (seqEval P p is stS).store ∧
    (applyResults p is (is.map (fun i => some (w i))) stA).count = (seqEval P p is stS).count ∧
    (applyResults p is (is.map (fun i => some (w i))) stA).log = stA.log ∧
    (seqEval P p is stS).log = stS.log ++ is.map (fun i => (p, i)) := by
  induction is generalizing stA stS with
  | nil => simp [applyResults, seqEval, hstore, hcount]
  | cons i rest ih =>
    obtain ⟨ind, hi, hh, h0⟩ := hpend i List.mem_cons_self
    have hnd' := List.nodup_cons.mp hnd
    simp only [List.map_cons, applyResults, hstore, hi, seqEval_cons, evalOne_new P p stS i ind hi hh]
    have hw : P.fitnessOf ((store0[i]?.map (·.pheno)).getD 0) = P.fitnessOf ind.pheno := by simp [h0]
    rw [hw]
    have := ih { stA with store := stS.store.set i (ind.setFitness p (P.fitnessOf ind.pheno)), count := stA.count + 1 }
      { store := stS.store.set i (ind.setFitness p (P.fitnessOf ind.pheno)), count := stS.count + 1, log := stS.log ++ [(p, i)] }
      rfl (by simp [hcount]) hnd'.2 (by
        intro j hj
        have hne : i ≠ j := fun h => hnd'.1 (h ▸ hj)
        obtain ⟨indj, hj1, hj2, hj3⟩ := hpend j (List.mem_cons_of_mem _ hj)
        exact ⟨indj, by simp [hne, hj1], hj2, hj3⟩)
    obtain ⟨t1, t2, t3, t4⟩ := this
    exact ⟨t1, t2, t3, by simp [t4]⟩

/-- `order` is a possible completion order for the pool of a parallel call made in state `st` -/
def ValidOrder (p : Nat) (batch order : List Nat) (st : EvalState) : Prop :=
  order.Perm (List.range (pending p st.store batch).length)

/-- every parallel call of the sequence comes with a possible completion order -/
def ValidCalls (Ps : List Problem) : EvalState → List Call → Prop
  | _, [] => True
  | st, c :: cs =>
    (match c with
      | .par p batch order => ValidOrder p batch order st
      | .seq _ _ => True) ∧ ValidCalls Ps (runCall Ps st c) cs

end GEVerif.Eval
