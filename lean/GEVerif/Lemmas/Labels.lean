/-
  Helper lemmas for C11: the label fold `relabel` against the flat-traversal specification.
-/
import GEVerif.Model.Labels
import GEVerif.Model.Tree

namespace GEVerif.Labels
open GEVerif

/-! ### `TKey` equality -/

theorem TKey.beq_iff (a b : TKey) : (a == b) = true ↔ a = b := by
  cases a <;> cases b <;> simp [BEq.beq, instBEqTKey.beq]

instance : LawfulBEq TKey where
  rfl := by intro a; exact (TKey.beq_iff a a).2 rfl
  eq_of_beq := by intro a b h; exact (TKey.beq_iff a b).1 h

/-! ### Count tables -/

/-- sum of ALL entries of a table with key `k` (`lookupCount` reads only the first one) -/
def totalCount (m : List (TKey × Nat)) (k : TKey) : Nat :=
  match m with
  | [] => 0
  | (k', c) :: rest => (if k' == k then c else 0) + totalCount rest k

theorem lookupCount_addCount (m : List (TKey × Nat)) (k : TKey) (n : Nat) (k' : TKey) :
    lookupCount (addCount m k n) k' = lookupCount m k' + (if k == k' then n else 0) := by
  induction m with
  | nil => simp [addCount, lookupCount]
  | cons p rest ih =>
    obtain ⟨k0, c⟩ := p
    by_cases h : k0 = k
    · subst h
      by_cases h2 : k0 = k' <;> simp [addCount, lookupCount, h2]
    · by_cases h2 : k0 = k'
      · subst h2
        have : ¬ k = k0 := fun e => h e.symm
        simp [addCount, lookupCount, h, this]
      · simp [addCount, lookupCount, h, h2, ih]

theorem totalCount_addCount (m : List (TKey × Nat)) (k : TKey) (n : Nat) (k' : TKey) :
    totalCount (addCount m k n) k' = totalCount m k' + (if k == k' then n else 0) := by
  induction m with
  | nil => simp [addCount, totalCount]
  | cons p rest ih =>
    obtain ⟨k0, c⟩ := p
    by_cases h : k0 = k
    · subst h
      by_cases h2 : k0 = k' <;> simp [addCount, totalCount, h2] <;> omega
    · simp [addCount, totalCount, h, ih]; omega

theorem lookupCount_mergeCounts (a b : List (TKey × Nat)) (k : TKey) :
    lookupCount (mergeCounts a b) k = lookupCount a k + totalCount b k := by
  unfold mergeCounts
  induction b generalizing a with
  | nil => simp [totalCount]
  | cons p rest ih =>
    obtain ⟨k0, c⟩ := p
    simp only [List.foldl_cons, ih, lookupCount_addCount, totalCount]
    omega

theorem totalCount_mergeCounts (a b : List (TKey × Nat)) (k : TKey) :
    totalCount (mergeCounts a b) k = totalCount a k + totalCount b k := by
  unfold mergeCounts
  induction b generalizing a with
  | nil => simp [totalCount]
  | cons p rest ih =>
    obtain ⟨k0, c⟩ := p
    simp only [List.foldl_cons, ih, totalCount_addCount, totalCount]
    omega

/-- tables with pairwise distinct keys: there `lookupCount` and `totalCount` agree -/
theorem lookupCount_eq_totalCount_singleton (k0 : TKey) (n : Nat) (k : TKey) :
    lookupCount [(k0, n)] k = totalCount [(k0, n)] k := by
  simp [lookupCount, totalCount]

/-- the user-facing merge law, valid when the right table has no duplicate keys in the sense
that its lookup sees everything -/
theorem lookupCount_mergeCounts_of_lookup_eq_total (a b : List (TKey × Nat)) (k : TKey)
    (hb : lookupCount b k = totalCount b k) :
    lookupCount (mergeCounts a b) k = lookupCount a k + lookupCount b k := by
  rw [lookupCount_mergeCounts, hb]

/-! ### Unfolding `relabel` / `relabelChildren` constructor by constructor -/

/-- the `list_adjust` of the Python loop -/
def childAdj : Val → Nat
  | .list .. => 0
  | .tuple .. => 0
  | _ => 1

theorem relabel_node (g : Grammar) (c d e : Nat) (args : List Val) :
    relabel g (.node c d e args) =
      if g.isTerminalCls c then ⟨0, 0, 0, [(.cls c, 1)]⟩ else
      ⟨1 + (relabelChildren g args).1, max 1 (relabelChildren g args).2.1,
       (relabelChildren g args).2.2.1 + max 1 (relabelChildren g args).2.1,
       mergeCounts [(.cls c, 1)] (relabelChildren g args).2.2.2⟩ := by
  rw [relabel]

theorem relabel_list (g : Grammar) (d e : Nat) (vs : List Val) :
    relabel g (.list d e vs) =
      ⟨(relabelChildren g vs).1, (relabelChildren g vs).2.1, (relabelChildren g vs).2.2.1,
       mergeCounts [(.list, 1)] (relabelChildren g vs).2.2.2⟩ := by
  rw [relabel]

theorem relabel_tuple (g : Grammar) (vs : List Val) :
    relabel g (.tuple vs) =
      ⟨(relabelChildren g vs).1, (relabelChildren g vs).2.1, (relabelChildren g vs).2.2.1,
       mergeCounts [(.tuple, 1)] (relabelChildren g vs).2.2.2⟩ := by
  rw [relabel]

theorem relabelChildren_nil (g : Grammar) : relabelChildren g [] = (0, 0, 0, []) := by
  rw [relabelChildren]

theorem relabelChildren_cons (g : Grammar) (c : Val) (cs : List Val) :
    relabelChildren g (c :: cs) =
      ((relabel g c).nodes + (relabelChildren g cs).1,
       max ((relabel g c).dtt + childAdj c) (relabelChildren g cs).2.1,
       (relabel g c).weighted + (relabelChildren g cs).2.2.1,
       mergeCounts (relabel g c).types (relabelChildren g cs).2.2.2) := by
  cases c <;> simp [relabelChildren, childAdj]

theorem dttChildren_nil (g : Grammar) : dttChildren g [] = 0 := by rw [dttChildren]

theorem dttChildren_cons (g : Grammar) (c : Val) (cs : List Val) :
    dttChildren g (c :: cs) = max (dttSpec g c + childAdj c) (dttChildren g cs) := by
  cases c <;> simp [dttChildren, childAdj]

/-! ### Sub-values -/

theorem subvalues_node (c d e : Nat) (args : List Val) :
    (Val.node c d e args).subvalues = .node c d e args :: Val.subvaluesList args := by
  rw [Val.subvalues]
theorem subvalues_list (d e : Nat) (vs : List Val) :
    (Val.list d e vs).subvalues = .list d e vs :: Val.subvaluesList vs := by
  rw [Val.subvalues]
theorem subvalues_tuple (vs : List Val) :
    (Val.tuple vs).subvalues = .tuple vs :: Val.subvaluesList vs := by
  rw [Val.subvalues]
theorem subvaluesList_nil : Val.subvaluesList [] = [] := by rw [Val.subvaluesList]
theorem subvaluesList_cons (v : Val) (vs : List Val) :
    Val.subvaluesList (v :: vs) = v.subvalues ++ Val.subvaluesList vs := by rw [Val.subvaluesList]

/-- in the list of values `l`, every instance of a class that is a terminal of the grammar has
no constructor arguments -/
def FieldlessTerminals (g : Grammar) (l : List Val) : Prop :=
  ∀ c d e args, Val.node c d e args ∈ l → g.isTerminalCls c = true → args = []

/-- every terminal-class instance anywhere in `v` is field-less -/
def ArgsMatchTerminality (g : Grammar) (v : Val) : Prop :=
  FieldlessTerminals g v.subvalues

theorem FieldlessTerminals.tail {g : Grammar} {x : Val} {l : List Val}
    (h : FieldlessTerminals g (x :: l)) : FieldlessTerminals g l :=
  fun c d e args hm ht => h c d e args (List.mem_cons_of_mem _ hm) ht

theorem FieldlessTerminals.left {g : Grammar} {a b : List Val}
    (h : FieldlessTerminals g (a ++ b)) : FieldlessTerminals g a :=
  fun c d e args hm ht => h c d e args (List.mem_append_left _ hm) ht

theorem FieldlessTerminals.right {g : Grammar} {a b : List Val}
    (h : FieldlessTerminals g (a ++ b)) : FieldlessTerminals g b :=
  fun c d e args hm ht => h c d e args (List.mem_append_right _ hm) ht

theorem FieldlessTerminals.node_args {g : Grammar} {c d e : Nat} {args : List Val}
    (h : FieldlessTerminals g (Val.node c d e args).subvalues) (ht : g.isTerminalCls c = true) :
    args = [] :=
  h c d e args (by rw [subvalues_node]; exact List.mem_cons_self) ht

/-! ### dtt (unconditional) -/

mutual
theorem relabel_dtt_eq (g : Grammar) : ∀ v, (relabel g v).dtt = dttSpec g v
  | .node c d e args => by
      have ih := relabelChildren_dtt_eq g args
      rw [relabel_node, dttSpec]
      by_cases h : g.isTerminalCls c <;> simp [h, ih]
  | .list d e vs => by
      have ih := relabelChildren_dtt_eq g vs
      rw [relabel_list, dttSpec]; exact ih
  | .tuple vs => by
      have ih := relabelChildren_dtt_eq g vs
      rw [relabel_tuple, dttSpec]; exact ih
  | .int _ => by simp [relabel, dttSpec]
  | .float => by simp [relabel, dttSpec]
  | .str _ => by simp [relabel, dttSpec]
  | .bool _ => by simp [relabel, dttSpec]
  | .foreign _ => by simp [relabel, dttSpec]
theorem relabelChildren_dtt_eq (g : Grammar) :
    ∀ vs, (relabelChildren g vs).2.1 = dttChildren g vs
  | [] => by simp [relabelChildren_nil, dttChildren_nil]
  | v :: vs => by
      have ih1 := relabel_dtt_eq g v
      have ih2 := relabelChildren_dtt_eq g vs
      rw [relabelChildren_cons, dttChildren_cons]
      simp [ih1, ih2]
end

/-! ### nodes -/

mutual
theorem relabel_nodes_eq (g : Grammar) :
    ∀ v, FieldlessTerminals g v.subvalues → (relabel g v).nodes = nodesSpec g v
  | .node c d e args => by
      intro H
      rw [relabel_node]; unfold nodesSpec
      by_cases h : g.isTerminalCls c
      · have := H.node_args h; subst this
        simp [h, subvalues_node, Val.isNonTerminalNode, subvaluesList_nil]
      · rw [subvalues_node] at H ⊢
        have ih := relabelChildren_nodes_eq g args H.tail
        simp [h, Val.isNonTerminalNode, ih]; omega
  | .list d e vs => by
      intro H
      rw [subvalues_list] at H
      have ih := relabelChildren_nodes_eq g vs H.tail
      rw [relabel_list]; unfold nodesSpec; rw [subvalues_list]
      simp [Val.isNonTerminalNode, ih]
  | .tuple vs => by
      intro H
      rw [subvalues_tuple] at H
      have ih := relabelChildren_nodes_eq g vs H.tail
      rw [relabel_tuple]; unfold nodesSpec; rw [subvalues_tuple]
      simp [Val.isNonTerminalNode, ih]
  | .int _ => by simp [relabel, nodesSpec, Val.subvalues, Val.isNonTerminalNode]
  | .float => by simp [relabel, nodesSpec, Val.subvalues, Val.isNonTerminalNode]
  | .str _ => by simp [relabel, nodesSpec, Val.subvalues, Val.isNonTerminalNode]
  | .bool _ => by simp [relabel, nodesSpec, Val.subvalues, Val.isNonTerminalNode]
  | .foreign _ => by simp [relabel, nodesSpec, Val.subvalues, Val.isNonTerminalNode]
theorem relabelChildren_nodes_eq (g : Grammar) :
    ∀ vs, FieldlessTerminals g (Val.subvaluesList vs) →
      (relabelChildren g vs).1 = ((Val.subvaluesList vs).filter (Val.isNonTerminalNode g)).length
  | [] => by simp [relabelChildren_nil, subvaluesList_nil]
  | v :: vs => by
      intro H
      rw [subvaluesList_cons] at H
      have ih1 := relabel_nodes_eq g v H.left
      have ih2 := relabelChildren_nodes_eq g vs H.right
      rw [relabelChildren_cons, subvaluesList_cons]
      simp [ih1, ih2, nodesSpec]
end

/-! ### weighted -/

mutual
theorem relabel_weighted_eq (g : Grammar) :
    ∀ v, FieldlessTerminals g v.subvalues → (relabel g v).weighted = weightedSpec g v
  | .node c d e args => by
      intro H
      rw [relabel_node]; unfold weightedSpec
      by_cases h : g.isTerminalCls c
      · have := H.node_args h; subst this
        simp [h, subvalues_node, Val.isNonTerminalNode, subvaluesList_nil]
      · rw [subvalues_node] at H ⊢
        have ih := relabelChildren_weighted_eq g args H.tail
        simp [h, Val.isNonTerminalNode, ih, dttSpec, relabelChildren_dtt_eq]; omega
  | .list d e vs => by
      intro H
      rw [subvalues_list] at H
      have ih := relabelChildren_weighted_eq g vs H.tail
      rw [relabel_list]; unfold weightedSpec; rw [subvalues_list]
      simp [Val.isNonTerminalNode, ih]
  | .tuple vs => by
      intro H
      rw [subvalues_tuple] at H
      have ih := relabelChildren_weighted_eq g vs H.tail
      rw [relabel_tuple]; unfold weightedSpec; rw [subvalues_tuple]
      simp [Val.isNonTerminalNode, ih]
  | .int _ => by simp [relabel, weightedSpec, Val.subvalues, Val.isNonTerminalNode]
  | .float => by simp [relabel, weightedSpec, Val.subvalues, Val.isNonTerminalNode]
  | .str _ => by simp [relabel, weightedSpec, Val.subvalues, Val.isNonTerminalNode]
  | .bool _ => by simp [relabel, weightedSpec, Val.subvalues, Val.isNonTerminalNode]
  | .foreign _ => by simp [relabel, weightedSpec, Val.subvalues, Val.isNonTerminalNode]
theorem relabelChildren_weighted_eq (g : Grammar) :
    ∀ vs, FieldlessTerminals g (Val.subvaluesList vs) →
      (relabelChildren g vs).2.2.1 =
        (((Val.subvaluesList vs).filter (Val.isNonTerminalNode g)).map (dttSpec g)).sum
  | [] => by simp [relabelChildren_nil, subvaluesList_nil]
  | v :: vs => by
      intro H
      rw [subvaluesList_cons] at H
      have ih1 := relabel_weighted_eq g v H.left
      have ih2 := relabelChildren_weighted_eq g vs H.right
      rw [relabelChildren_cons, subvaluesList_cons]
      simp [ih1, ih2, weightedSpec]
end

/-! ### types -/

theorem totalCount_singleton (k0 : TKey) (n : Nat) (k : TKey) :
    totalCount [(k0, n)] k = if k0 == k then n else 0 := by
  simp [totalCount]

theorem filter_key_cons (x : Val) (l : List Val) (k : TKey) :
    ((x :: l).filter fun y => y.key == k).length =
      (if x.key == k then 1 else 0) + (l.filter fun y => y.key == k).length := by
  by_cases h : x.key == k <;> simp [h]; omega

mutual
theorem relabel_total_eq (g : Grammar) (k : TKey) :
    ∀ v, FieldlessTerminals g v.subvalues → totalCount (relabel g v).types k = typeCountSpec v k
  | .node c d e args => by
      intro H
      rw [relabel_node]; unfold typeCountSpec
      by_cases h : g.isTerminalCls c
      · have := H.node_args h; subst this
        rw [subvalues_node, filter_key_cons]
        simp [h, subvaluesList_nil, totalCount_singleton, Val.key]
      · rw [subvalues_node] at H ⊢
        have ih := relabelChildren_total_eq g k args H.tail
        rw [filter_key_cons]
        simp [h, ih, totalCount_mergeCounts, totalCount_singleton, Val.key]
  | .list d e vs => by
      intro H
      rw [subvalues_list] at H
      have ih := relabelChildren_total_eq g k vs H.tail
      rw [relabel_list]; unfold typeCountSpec; rw [subvalues_list, filter_key_cons]
      simp [ih, totalCount_mergeCounts, totalCount_singleton, Val.key]
  | .tuple vs => by
      intro H
      rw [subvalues_tuple] at H
      have ih := relabelChildren_total_eq g k vs H.tail
      rw [relabel_tuple]; unfold typeCountSpec; rw [subvalues_tuple, filter_key_cons]
      simp [ih, totalCount_mergeCounts, totalCount_singleton, Val.key]
  | .int _ => by intro _; simp [relabel, typeCountSpec, Val.subvalues, totalCount_singleton, List.filter_cons]; split <;> rfl
  | .float => by intro _; simp [relabel, typeCountSpec, Val.subvalues, totalCount_singleton, List.filter_cons]; split <;> rfl
  | .str _ => by intro _; simp [relabel, typeCountSpec, Val.subvalues, totalCount_singleton, List.filter_cons]; split <;> rfl
  | .bool _ => by intro _; simp [relabel, typeCountSpec, Val.subvalues, totalCount_singleton, List.filter_cons]; split <;> rfl
  | .foreign _ => by intro _; simp [relabel, typeCountSpec, Val.subvalues, totalCount_singleton, List.filter_cons]; split <;> rfl
theorem relabelChildren_total_eq (g : Grammar) (k : TKey) :
    ∀ vs, FieldlessTerminals g (Val.subvaluesList vs) →
      totalCount (relabelChildren g vs).2.2.2 k =
        ((Val.subvaluesList vs).filter fun x => x.key == k).length
  | [] => by simp [relabelChildren_nil, subvaluesList_nil, totalCount]
  | v :: vs => by
      intro H
      rw [subvaluesList_cons] at H
      have ih1 := relabel_total_eq g k v H.left
      have ih2 := relabelChildren_total_eq g k vs H.right
      rw [relabelChildren_cons, subvaluesList_cons]
      simp [ih1, ih2, typeCountSpec, totalCount_mergeCounts]
end

/-- the table `relabel` returns never hides an entry from `lookupCount` -/
theorem relabel_lookup_eq_total (g : Grammar) (k : TKey) (v : Val) :
    lookupCount (relabel g v).types k = totalCount (relabel g v).types k := by
  cases v with
  | node c d e args =>
      rw [relabel_node]
      by_cases h : g.isTerminalCls c
      · simp [h, lookupCount, totalCount]
      · simp [h, lookupCount_mergeCounts, totalCount_mergeCounts, lookupCount, totalCount]
  | list d e vs =>
      rw [relabel_list]
      simp [lookupCount_mergeCounts, totalCount_mergeCounts, lookupCount, totalCount]
  | tuple vs =>
      rw [relabel_tuple]
      simp [lookupCount_mergeCounts, totalCount_mergeCounts, lookupCount, totalCount]
  | _ => simp [relabel, lookupCount, totalCount]


theorem mem_subvalues_self : ∀ v : Val, v ∈ v.subvalues
  | .node .. => by rw [subvalues_node]; exact List.mem_cons_self
  | .list .. => by rw [subvalues_list]; exact List.mem_cons_self
  | .tuple .. => by rw [subvalues_tuple]; exact List.mem_cons_self
  | .int _ => by simp [Val.subvalues]
  | .float => by simp [Val.subvalues]
  | .str _ => by simp [Val.subvalues]
  | .bool _ => by simp [Val.subvalues]
  | .foreign _ => by simp [Val.subvalues]

mutual
theorem subvalues_trans : ∀ (v x : Val), x ∈ v.subvalues → ∀ y, y ∈ x.subvalues → y ∈ v.subvalues
  | .node c d e args, x, hx, y, hy => by
      rw [subvalues_node] at hx ⊢
      rcases List.mem_cons.1 hx with rfl | hx
      · rw [subvalues_node] at hy; exact hy
      · exact List.mem_cons_of_mem _ (subvaluesList_trans args x hx y hy)
  | .list d e vs, x, hx, y, hy => by
      rw [subvalues_list] at hx ⊢
      rcases List.mem_cons.1 hx with rfl | hx
      · rw [subvalues_list] at hy; exact hy
      · exact List.mem_cons_of_mem _ (subvaluesList_trans vs x hx y hy)
  | .tuple vs, x, hx, y, hy => by
      rw [subvalues_tuple] at hx ⊢
      rcases List.mem_cons.1 hx with rfl | hx
      · rw [subvalues_tuple] at hy; exact hy
      · exact List.mem_cons_of_mem _ (subvaluesList_trans vs x hx y hy)
  | .int _, x, hx, y, hy => by simp [Val.subvalues] at hx; subst hx; exact hy
  | .float, x, hx, y, hy => by simp [Val.subvalues] at hx; subst hx; exact hy
  | .str _, x, hx, y, hy => by simp [Val.subvalues] at hx; subst hx; exact hy
  | .bool _, x, hx, y, hy => by simp [Val.subvalues] at hx; subst hx; exact hy
  | .foreign _, x, hx, y, hy => by simp [Val.subvalues] at hx; subst hx; exact hy
theorem subvaluesList_trans :
    ∀ (vs : List Val) (x : Val), x ∈ Val.subvaluesList vs → ∀ y, y ∈ x.subvalues → y ∈ Val.subvaluesList vs
  | [], x, hx, y, hy => by simp [subvaluesList_nil] at hx
  | v :: vs, x, hx, y, hy => by
      rw [subvaluesList_cons] at hx ⊢
      rcases List.mem_append.1 hx with hx | hx
      · exact List.mem_append_left _ (subvalues_trans v x hx y hy)
      · exact List.mem_append_right _ (subvaluesList_trans vs x hx y hy)
end

theorem ArgsMatchTerminality.sub {g : Grammar} {v x : Val}
    (h : ArgsMatchTerminality g v) (hx : x ∈ v.subvalues) : ArgsMatchTerminality g x :=
  fun c d e args hm ht => h c d e args (subvalues_trans v x hx _ hm) ht

/-- the elements of a list nested directly in a value are sub-values of it -/
theorem mem_subvaluesList_of_mem {x : Val} : ∀ {vs : List Val}, x ∈ vs → x ∈ Val.subvaluesList vs
  | v :: vs, h => by
      rw [subvaluesList_cons]
      rcases List.mem_cons.1 h with rfl | h
      · exact List.mem_append_left _ (mem_subvalues_self _)
      · exact List.mem_append_right _ (mem_subvaluesList_of_mem h)

/-! ### dtt against depth -/

theorem depthList_nil : Val.depthList [] = 0 := by rw [Val.depthList]
theorem depthList_cons (v : Val) (vs : List Val) :
    Val.depthList (v :: vs) = max v.depth (Val.depthList vs) := by rw [Val.depthList]

/-- 1 for the transparent containers, 0 otherwise -/
def containerAdj (v : Val) : Nat := 1 - childAdj v

mutual
theorem dttSpec_le_depth (g : Grammar) : ∀ v, dttSpec g v ≤ v.depth + containerAdj v
  | .node c d e args => by
      have ih := dttChildren_le_depthList g args
      rw [dttSpec, Val.depth]
      by_cases h : g.isTerminalCls c <;> simp [h, containerAdj, childAdj] <;> omega
  | .list d e vs => by
      have ih := dttChildren_le_depthList g vs
      rw [dttSpec, Val.depth]; simp [containerAdj, childAdj]; omega
  | .tuple vs => by
      have ih := dttChildren_le_depthList g vs
      rw [dttSpec, Val.depth]; simp [containerAdj, childAdj]; omega
  | .int _ => by simp [dttSpec]
  | .float => by simp [dttSpec]
  | .str _ => by simp [dttSpec]
  | .bool _ => by simp [dttSpec]
  | .foreign _ => by simp [dttSpec]
theorem dttChildren_le_depthList (g : Grammar) : ∀ vs, dttChildren g vs ≤ 1 + Val.depthList vs
  | [] => by simp [dttChildren_nil]
  | v :: vs => by
      have ih1 := dttSpec_le_depth g v
      have ih2 := dttChildren_le_depthList g vs
      rw [dttChildren_cons, depthList_cons]
      have : containerAdj v + childAdj v = 1 := by cases v <;> simp [containerAdj, childAdj]
      omega
end

mutual
theorem depth_le_dttSpec_aux (g : Grammar) :
    ∀ v, FieldlessTerminals g v.subvalues → v.depth ≤ max 1 (dttSpec g v + childAdj v)
  | .node c d e args => by
      intro H
      rw [dttSpec, Val.depth]
      by_cases h : g.isTerminalCls c
      · have := H.node_args h; subst this
        simp [h, depthList_nil, childAdj]
      · rw [subvalues_node] at H
        have ih := depthList_le_dttChildren g args H.tail
        simp [h, childAdj]; omega
  | .list d e vs => by
      intro H
      rw [subvalues_list] at H
      have ih := depthList_le_dttChildren g vs H.tail
      rw [dttSpec, Val.depth]; simpa [childAdj] using ih
  | .tuple vs => by
      intro H
      rw [subvalues_tuple] at H
      have ih := depthList_le_dttChildren g vs H.tail
      rw [dttSpec, Val.depth]; simpa [childAdj] using ih
  | .int _ => by simp [Val.depth]
  | .float => by simp [Val.depth]
  | .str _ => by simp [Val.depth]
  | .bool _ => by simp [Val.depth]
  | .foreign _ => by simp [Val.depth]
theorem depthList_le_dttChildren (g : Grammar) :
    ∀ vs, FieldlessTerminals g (Val.subvaluesList vs) → Val.depthList vs ≤ max 1 (dttChildren g vs)
  | [] => by simp [depthList_nil]
  | v :: vs => by
      intro H
      rw [subvaluesList_cons] at H
      have ih1 := depth_le_dttSpec_aux g v H.left
      have ih2 := depthList_le_dttChildren g vs H.right
      rw [dttChildren_cons, depthList_cons]
      omega
end

theorem depth_le_dttSpec (g : Grammar) (v : Val) (H : FieldlessTerminals g v.subvalues) :
    v.depth ≤ dttSpec g v + 1 := by
  have h := depth_le_dttSpec_aux g v H
  have : childAdj v ≤ 1 := by cases v <;> simp [childAdj]
  omega


/-! ### Memoised relabelling -/

def lchildAdj : LVal → Nat
  | .list .. => 0
  | .tuple .. => 0
  | _ => 1

theorem childAdj_erase (t : LVal) : childAdj t.erase = lchildAdj t := by
  cases t <;> simp [LVal.erase, childAdj, lchildAdj]

theorem relabelMemoChildren_nil (g : Grammar) : relabelMemoChildren g [] = ((0, 0, 0, []), []) := by
  rw [relabelMemoChildren]

theorem relabelMemoChildren_cons (g : Grammar) (c : LVal) (cs : List LVal) :
    relabelMemoChildren g (c :: cs) =
      (((relabelMemo g c).1.nodes + (relabelMemoChildren g cs).1.1,
        max ((relabelMemo g c).1.dtt + lchildAdj c) (relabelMemoChildren g cs).1.2.1,
        (relabelMemo g c).1.weighted + (relabelMemoChildren g cs).1.2.2.1,
        mergeCounts (relabelMemo g c).1.types (relabelMemoChildren g cs).1.2.2.2),
       (relabelMemo g c).2 :: (relabelMemoChildren g cs).2) := by
  cases c <;> simp [relabelMemoChildren, lchildAdj]

theorem eraseList_nil : LVal.eraseList [] = [] := by rw [LVal.eraseList]
theorem eraseList_cons (v : LVal) (vs : List LVal) :
    LVal.eraseList (v :: vs) = v.erase :: LVal.eraseList vs := by rw [LVal.eraseList]

/-- the conclusion of memoisation soundness for one tree -/
def MemoOK (g : Grammar) (t : LVal) : Prop :=
  (relabelMemo g t).1 = relabel g t.erase ∧
  (relabelMemo g t).2.erase = t.erase ∧
  CachesCorrect g (relabelMemo g t).2 ∧
  (relabelMemo g t).2.rootCache = if t.canCache then some (relabel g t.erase) else none

def MemoListOK (g : Grammar) (ts : List LVal) : Prop :=
  (relabelMemoChildren g ts).1 = relabelChildren g (LVal.eraseList ts) ∧
  LVal.eraseList (relabelMemoChildren g ts).2 = LVal.eraseList ts ∧
  CachesCorrectList g (relabelMemoChildren g ts).2

theorem relabelMemo_node_none_snd (g : Grammar) (c d e : Nat) (args : List LVal) :
    (relabelMemo g (.node none c d e args)).2 =
      .node (some (relabelMemo g (.node none c d e args)).1) c d e
        (if g.isTerminalCls c then args else (relabelMemoChildren g args).2) := by
  by_cases h : g.isTerminalCls c <;> simp [relabelMemo, h]

theorem relabelMemo_list_none_snd (g : Grammar) (d e : Nat) (vs : List LVal) :
    (relabelMemo g (.list none d e vs)).2 =
      .list (some (relabelMemo g (.list none d e vs)).1) d e (relabelMemoChildren g vs).2 := by
  simp [relabelMemo]

mutual
theorem memo_ok (g : Grammar) : ∀ t, CachesCorrect g t → MemoOK g t
  | .node (some l) c d e args => by
      intro H
      simp only [CachesCorrect] at H
      have hl := H.1 l rfl
      refine ⟨?_, ?_, ?_, ?_⟩
      · simpa [relabelMemo, LVal.erase] using hl
      · simp [relabelMemo]
      · simp only [relabelMemo, CachesCorrect]
        exact ⟨fun l' h => by cases h; exact hl, H.2⟩
      · simp [relabelMemo, LVal.rootCache, LVal.canCache, LVal.erase, hl]
  | .node none c d e args => by
      intro H
      simp only [CachesCorrect] at H
      obtain ⟨ih1, ih2, ih3⟩ := memoList_ok g args H.2
      have key : (relabelMemo g (.node none c d e args)).1 =
          relabel g (.node c d e (LVal.eraseList args)) := by
        by_cases h : g.isTerminalCls c <;> simp [relabelMemo, relabel_node, h, ih1]
      have hargs : LVal.eraseList (if g.isTerminalCls c then args else (relabelMemoChildren g args).2)
          = LVal.eraseList args := by
        by_cases h : g.isTerminalCls c <;> simp [h, ih2]
      have hcc : CachesCorrectList g (if g.isTerminalCls c then args else (relabelMemoChildren g args).2) := by
        by_cases h : g.isTerminalCls c <;> simp [h, ih3, H.2]
      refine ⟨by simpa [LVal.erase] using key, ?_, ?_, ?_⟩
      · rw [relabelMemo_node_none_snd]; simp [LVal.erase, hargs]
      · rw [relabelMemo_node_none_snd]; simp only [CachesCorrect, hargs]
        exact ⟨fun l' h' => by cases h'; exact key, hcc⟩
      · rw [relabelMemo_node_none_snd]; simp [LVal.rootCache, LVal.canCache, LVal.erase, key]
  | .list (some l) d e vs => by
      intro H
      simp only [CachesCorrect] at H
      have hl := H.1 l rfl
      refine ⟨?_, ?_, ?_, ?_⟩
      · simpa [relabelMemo, LVal.erase] using hl
      · simp [relabelMemo]
      · simp only [relabelMemo, CachesCorrect]
        exact ⟨fun l' h => by cases h; exact hl, H.2⟩
      · simp [relabelMemo, LVal.rootCache, LVal.canCache, LVal.erase, hl]
  | .list none d e vs => by
      intro H
      simp only [CachesCorrect] at H
      obtain ⟨ih1, ih2, ih3⟩ := memoList_ok g vs H.2
      have key : (relabelMemo g (.list none d e vs)).1 =
          relabel g (.list d e (LVal.eraseList vs)) := by
        simp [relabelMemo, relabel_list, ih1]
      refine ⟨by simpa [LVal.erase] using key, ?_, ?_, ?_⟩
      · rw [relabelMemo_list_none_snd]; simp [LVal.erase, ih2]
      · rw [relabelMemo_list_none_snd]; simp only [CachesCorrect, ih2]
        exact ⟨fun l' h' => by cases h'; exact key, ih3⟩
      · rw [relabelMemo_list_none_snd]; simp [LVal.rootCache, LVal.canCache, LVal.erase, key]
  | .tuple vs => by
      intro H
      simp only [CachesCorrect] at H
      obtain ⟨ih1, ih2, ih3⟩ := memoList_ok g vs H
      refine ⟨?_, ?_, ?_, ?_⟩
      · simp [relabelMemo, relabel_tuple, LVal.erase, ih1]
      · simp [relabelMemo, LVal.erase, ih2]
      · simpa [relabelMemo, CachesCorrect] using ih3
      · simp [relabelMemo, LVal.rootCache, LVal.canCache]
  | .int _ => by intro _; simp [MemoOK, relabelMemo, LVal.erase, relabel, Val.key, CachesCorrect, LVal.rootCache, LVal.canCache]
  | .float => by intro _; simp [MemoOK, relabelMemo, LVal.erase, relabel, Val.key, CachesCorrect, LVal.rootCache, LVal.canCache]
  | .str _ => by intro _; simp [MemoOK, relabelMemo, LVal.erase, relabel, Val.key, CachesCorrect, LVal.rootCache, LVal.canCache]
  | .bool _ => by intro _; simp [MemoOK, relabelMemo, LVal.erase, relabel, Val.key, CachesCorrect, LVal.rootCache, LVal.canCache]
  | .foreign _ => by intro _; simp [MemoOK, relabelMemo, LVal.erase, relabel, Val.key, CachesCorrect, LVal.rootCache, LVal.canCache]
theorem memoList_ok (g : Grammar) : ∀ ts, CachesCorrectList g ts → MemoListOK g ts
  | [] => by
      intro _
      simp [MemoListOK, relabelMemoChildren_nil, eraseList_nil, relabelChildren_nil, CachesCorrectList]
  | t :: ts => by
      intro H
      simp only [CachesCorrectList] at H
      obtain ⟨a1, a2, a3, _⟩ := memo_ok g t H.1
      obtain ⟨b1, b2, b3⟩ := memoList_ok g ts H.2
      refine ⟨?_, ?_, ?_⟩
      · simp [relabelMemoChildren_cons, eraseList_cons, relabelChildren_cons, a1, b1, childAdj_erase]
      · simp [relabelMemoChildren_cons, eraseList_cons, a2, b2]
      · simp only [relabelMemoChildren_cons, CachesCorrectList]; exact ⟨a3, b3⟩
end


theorem eraseList_eq_nil {ts : List LVal} (h : LVal.eraseList ts = []) : ts = [] := by
  cases ts with
  | nil => rfl
  | cons t ts => simp [eraseList_cons] at h

theorem fullyLabelledList_nil : LVal.fullyLabelledList [] = true := by rw [LVal.fullyLabelledList]

mutual
theorem memo_fullyLabelled (g : Grammar) :
    ∀ t, FieldlessTerminals g t.erase.subvalues → t.labelClosed = true →
      (relabelMemo g t).2.fullyLabelled = true
  | .node (some l) c d e args => by
      intro _ hc
      simpa [relabelMemo, LVal.fullyLabelled, LVal.labelClosed] using hc
  | .node none c d e args => by
      intro H hc
      rw [relabelMemo_node_none_snd]
      by_cases h : g.isTerminalCls c
      · have : args = [] := eraseList_eq_nil (by
          rw [LVal.erase] at H; exact H.node_args h)
        subst this
        simp [h, LVal.fullyLabelled, fullyLabelledList_nil]
      · rw [LVal.erase, subvalues_node] at H
        have ih := memoList_fullyLabelled g args H.tail (by simpa [LVal.labelClosed] using hc)
        simp [h, LVal.fullyLabelled, ih]
  | .list (some l) d e vs => by
      intro _ hc
      simpa [relabelMemo, LVal.fullyLabelled, LVal.labelClosed] using hc
  | .list none d e vs => by
      intro H hc
      rw [relabelMemo_list_none_snd]
      rw [LVal.erase, subvalues_list] at H
      have ih := memoList_fullyLabelled g vs H.tail (by simpa [LVal.labelClosed] using hc)
      simp [LVal.fullyLabelled, ih]
  | .tuple vs => by
      intro H hc
      rw [LVal.erase, subvalues_tuple] at H
      have ih := memoList_fullyLabelled g vs H.tail (by simpa [LVal.labelClosed] using hc)
      simp [relabelMemo, LVal.fullyLabelled, ih]
  | .int _ => by intro _ _; simp [relabelMemo, LVal.fullyLabelled]
  | .float => by intro _ _; simp [relabelMemo, LVal.fullyLabelled]
  | .str _ => by intro _ _; simp [relabelMemo, LVal.fullyLabelled]
  | .bool _ => by intro _ _; simp [relabelMemo, LVal.fullyLabelled]
  | .foreign _ => by intro _ _; simp [relabelMemo, LVal.fullyLabelled]
theorem memoList_fullyLabelled (g : Grammar) :
    ∀ ts, FieldlessTerminals g (Val.subvaluesList (LVal.eraseList ts)) →
      LVal.labelClosedList ts = true →
      LVal.fullyLabelledList (relabelMemoChildren g ts).2 = true
  | [] => by intro _ _; simp [relabelMemoChildren_nil, LVal.fullyLabelledList]
  | t :: ts => by
      intro H hc
      rw [eraseList_cons, subvaluesList_cons] at H
      simp only [LVal.labelClosedList, Bool.and_eq_true] at hc
      have ih1 := memo_fullyLabelled g t H.left hc.1
      have ih2 := memoList_fullyLabelled g ts H.right hc.2
      simp [relabelMemoChildren_cons, LVal.fullyLabelledList, ih1, ih2]
end

/-! flat reading of `CachesCorrect ∧ fullyLabelled` -/

theorem subtrees_node (o : Option Lab) (c d e : Nat) (args : List LVal) :
    (LVal.node o c d e args).subtrees = .node o c d e args :: LVal.subtreesList args := by
  rw [LVal.subtrees]
theorem subtrees_list (o : Option Lab) (d e : Nat) (vs : List LVal) :
    (LVal.list o d e vs).subtrees = .list o d e vs :: LVal.subtreesList vs := by
  rw [LVal.subtrees]
theorem subtrees_tuple (vs : List LVal) :
    (LVal.tuple vs).subtrees = .tuple vs :: LVal.subtreesList vs := by
  rw [LVal.subtrees]
theorem subtreesList_nil : LVal.subtreesList [] = [] := by rw [LVal.subtreesList]
theorem subtreesList_cons (v : LVal) (vs : List LVal) :
    LVal.subtreesList (v :: vs) = v.subtrees ++ LVal.subtreesList vs := by rw [LVal.subtreesList]

mutual
theorem labelled_flat (g : Grammar) :
    ∀ t, CachesCorrect g t → t.fullyLabelled = true →
      ∀ x ∈ t.subtrees, x.canCache = true → x.rootCache = some (relabel g x.erase)
  | .node o c d e args => by
      intro H hf x hx hcan
      simp only [CachesCorrect] at H
      simp only [LVal.fullyLabelled, Bool.and_eq_true] at hf
      rw [subtrees_node] at hx
      rcases List.mem_cons.1 hx with rfl | hx
      · obtain ⟨l, rfl⟩ := Option.isSome_iff_exists.1 hf.1
        simp [LVal.rootCache, LVal.erase, ← H.1 l rfl]
      · exact labelledList_flat g args H.2 hf.2 x hx hcan
  | .list o d e vs => by
      intro H hf x hx hcan
      simp only [CachesCorrect] at H
      simp only [LVal.fullyLabelled, Bool.and_eq_true] at hf
      rw [subtrees_list] at hx
      rcases List.mem_cons.1 hx with rfl | hx
      · obtain ⟨l, rfl⟩ := Option.isSome_iff_exists.1 hf.1
        simp [LVal.rootCache, LVal.erase, ← H.1 l rfl]
      · exact labelledList_flat g vs H.2 hf.2 x hx hcan
  | .tuple vs => by
      intro H hf x hx hcan
      simp only [CachesCorrect] at H
      simp only [LVal.fullyLabelled] at hf
      rw [subtrees_tuple] at hx
      rcases List.mem_cons.1 hx with rfl | hx
      · simp [LVal.canCache] at hcan
      · exact labelledList_flat g vs H hf x hx hcan
  | .int _ => by intro _ _ x hx hcan; simp [LVal.subtrees] at hx; subst hx; simp [LVal.canCache] at hcan
  | .float => by intro _ _ x hx hcan; simp [LVal.subtrees] at hx; subst hx; simp [LVal.canCache] at hcan
  | .str _ => by intro _ _ x hx hcan; simp [LVal.subtrees] at hx; subst hx; simp [LVal.canCache] at hcan
  | .bool _ => by intro _ _ x hx hcan; simp [LVal.subtrees] at hx; subst hx; simp [LVal.canCache] at hcan
  | .foreign _ => by intro _ _ x hx hcan; simp [LVal.subtrees] at hx; subst hx; simp [LVal.canCache] at hcan
theorem labelledList_flat (g : Grammar) :
    ∀ ts, CachesCorrectList g ts → LVal.fullyLabelledList ts = true →
      ∀ x ∈ LVal.subtreesList ts, x.canCache = true → x.rootCache = some (relabel g x.erase)
  | [] => by intro _ _ x hx; simp [subtreesList_nil] at hx
  | t :: ts => by
      intro H hf x hx hcan
      simp only [CachesCorrectList] at H
      simp only [LVal.fullyLabelledList, Bool.and_eq_true] at hf
      rw [subtreesList_cons] at hx
      rcases List.mem_append.1 hx with hx | hx
      · exact labelled_flat g t H.1 hf.1 x hx hcan
      · exact labelledList_flat g ts H.2 hf.2 x hx hcan
end

mutual
theorem erase_mem_subvalues : ∀ (t x : LVal), x ∈ t.subtrees → x.erase ∈ t.erase.subvalues
  | .node o c d e args, x, hx => by
      rw [subtrees_node] at hx
      rw [LVal.erase, subvalues_node]
      rcases List.mem_cons.1 hx with rfl | hx
      · rw [LVal.erase]; exact List.mem_cons_self
      · exact List.mem_cons_of_mem _ (eraseList_mem_subvalues args x hx)
  | .list o d e vs, x, hx => by
      rw [subtrees_list] at hx
      rw [LVal.erase, subvalues_list]
      rcases List.mem_cons.1 hx with rfl | hx
      · rw [LVal.erase]; exact List.mem_cons_self
      · exact List.mem_cons_of_mem _ (eraseList_mem_subvalues vs x hx)
  | .tuple vs, x, hx => by
      rw [subtrees_tuple] at hx
      rw [LVal.erase, subvalues_tuple]
      rcases List.mem_cons.1 hx with rfl | hx
      · rw [LVal.erase]; exact List.mem_cons_self
      · exact List.mem_cons_of_mem _ (eraseList_mem_subvalues vs x hx)
  | .int _, x, hx => by simp [LVal.subtrees] at hx; subst hx; exact mem_subvalues_self _
  | .float, x, hx => by simp [LVal.subtrees] at hx; subst hx; exact mem_subvalues_self _
  | .str _, x, hx => by simp [LVal.subtrees] at hx; subst hx; exact mem_subvalues_self _
  | .bool _, x, hx => by simp [LVal.subtrees] at hx; subst hx; exact mem_subvalues_self _
  | .foreign _, x, hx => by simp [LVal.subtrees] at hx; subst hx; exact mem_subvalues_self _
theorem eraseList_mem_subvalues :
    ∀ (ts : List LVal) (x : LVal), x ∈ LVal.subtreesList ts →
      x.erase ∈ Val.subvaluesList (LVal.eraseList ts)
  | [], x, hx => by simp [subtreesList_nil] at hx
  | t :: ts, x, hx => by
      rw [subtreesList_cons] at hx
      rw [eraseList_cons, subvaluesList_cons]
      rcases List.mem_append.1 hx with hx | hx
      · exact List.mem_append_left _ (erase_mem_subvalues t x hx)
      · exact List.mem_append_right _ (eraseList_mem_subvalues ts x hx)
end

/-! fresh trees -/
mutual
theorem erase_fresh : ∀ v : Val, (LVal.fresh v).erase = v
  | .node c d e args => by rw [LVal.fresh, LVal.erase, eraseList_freshList args]
  | .list d e vs => by rw [LVal.fresh, LVal.erase, eraseList_freshList vs]
  | .tuple vs => by rw [LVal.fresh, LVal.erase, eraseList_freshList vs]
  | .int _ => by simp [LVal.fresh, LVal.erase]
  | .float => by simp [LVal.fresh, LVal.erase]
  | .str _ => by simp [LVal.fresh, LVal.erase]
  | .bool _ => by simp [LVal.fresh, LVal.erase]
  | .foreign _ => by simp [LVal.fresh, LVal.erase]
theorem eraseList_freshList : ∀ vs : List Val, LVal.eraseList (LVal.freshList vs) = vs
  | [] => by simp [LVal.freshList, LVal.eraseList]
  | v :: vs => by rw [LVal.freshList, LVal.eraseList, erase_fresh v, eraseList_freshList vs]
end

mutual
theorem fresh_ok (g : Grammar) : ∀ v : Val, CachesCorrect g (LVal.fresh v) ∧ (LVal.fresh v).labelClosed = true
  | .node c d e args => by
      have ih := freshList_ok g args
      simp [LVal.fresh, CachesCorrect, LVal.labelClosed, ih]
  | .list d e vs => by
      have ih := freshList_ok g vs
      simp [LVal.fresh, CachesCorrect, LVal.labelClosed, ih]
  | .tuple vs => by
      have ih := freshList_ok g vs
      simp [LVal.fresh, CachesCorrect, LVal.labelClosed, ih]
  | .int _ => by simp [LVal.fresh, CachesCorrect, LVal.labelClosed]
  | .float => by simp [LVal.fresh, CachesCorrect, LVal.labelClosed]
  | .str _ => by simp [LVal.fresh, CachesCorrect, LVal.labelClosed]
  | .bool _ => by simp [LVal.fresh, CachesCorrect, LVal.labelClosed]
  | .foreign _ => by simp [LVal.fresh, CachesCorrect, LVal.labelClosed]
theorem freshList_ok (g : Grammar) :
    ∀ vs : List Val, CachesCorrectList g (LVal.freshList vs) ∧ LVal.labelClosedList (LVal.freshList vs) = true
  | [] => by simp [LVal.freshList, CachesCorrectList, LVal.labelClosedList]
  | v :: vs => by
      have ih1 := fresh_ok g v
      have ih2 := freshList_ok g vs
      simp [LVal.freshList, CachesCorrectList, LVal.labelClosedList, ih1, ih2]
end


mutual
theorem labelClosed_of_fullyLabelled : ∀ t : LVal, t.fullyLabelled = true → t.labelClosed = true
  | .node o c d e args => by
      intro h
      simp only [LVal.fullyLabelled, Bool.and_eq_true] at h
      simp [LVal.labelClosed, h.1, h.2]
  | .list o d e vs => by
      intro h
      simp only [LVal.fullyLabelled, Bool.and_eq_true] at h
      simp [LVal.labelClosed, h.1, h.2]
  | .tuple vs => by
      intro h
      simp only [LVal.fullyLabelled] at h
      simpa [LVal.labelClosed] using labelClosedList_of_fullyLabelledList vs h
  | .int _ => by simp [LVal.labelClosed]
  | .float => by simp [LVal.labelClosed]
  | .str _ => by simp [LVal.labelClosed]
  | .bool _ => by simp [LVal.labelClosed]
  | .foreign _ => by simp [LVal.labelClosed]
theorem labelClosedList_of_fullyLabelledList :
    ∀ ts : List LVal, LVal.fullyLabelledList ts = true → LVal.labelClosedList ts = true
  | [] => by simp [LVal.labelClosedList]
  | t :: ts => by
      intro h
      simp only [LVal.fullyLabelledList, Bool.and_eq_true] at h
      simp [LVal.labelClosedList, labelClosed_of_fullyLabelled t h.1,
        labelClosedList_of_fullyLabelledList ts h.2]
end

mutual
/-- a completely labelled tree is returned as it is: its labels are REUSED, never recomputed -/
theorem memo_fixes_labelled (g : Grammar) :
    ∀ t : LVal, t.fullyLabelled = true → (relabelMemo g t).2 = t
  | .node (some l) c d e args => by intro _; simp [relabelMemo]
  | .node none c d e args => by intro h; simp [LVal.fullyLabelled] at h
  | .list (some l) d e vs => by intro _; simp [relabelMemo]
  | .list none d e vs => by intro h; simp [LVal.fullyLabelled] at h
  | .tuple vs => by
      intro h
      simp only [LVal.fullyLabelled] at h
      simp [relabelMemo, memoList_fixes_labelled g vs h]
  | .int _ => by simp [relabelMemo]
  | .float => by simp [relabelMemo]
  | .str _ => by simp [relabelMemo]
  | .bool _ => by simp [relabelMemo]
  | .foreign _ => by simp [relabelMemo]
theorem memoList_fixes_labelled (g : Grammar) :
    ∀ ts : List LVal, LVal.fullyLabelledList ts = true → (relabelMemoChildren g ts).2 = ts
  | [] => by simp [relabelMemoChildren_nil]
  | t :: ts => by
      intro h
      simp only [LVal.fullyLabelledList, Bool.and_eq_true] at h
      simp [relabelMemoChildren_cons, memo_fixes_labelled g t h.1, memoList_fixes_labelled g ts h.2]
end


/-! ### Well-typed programs satisfy `ArgsMatchTerminality` -/

private theorem sym_beq_iff (a b : Sym) : (a == b) = true ↔ a = b := by
  cases a <;> cases b <;> simp [BEq.beq, instBEqSym.beq]

/-- every registered class that is not a non-terminal has no fields (a decidable check of one
grammar; `register_type` files a class under the terminals exactly when it is concrete and
field-less) -/
def _root_.GEVerif.Grammar.terminalsFieldless (g : Grammar) : Bool :=
  g.reg.allNodes.all fun s =>
    match s with
    | .cls c => g.reg.nonTerminals.contains (.cls c) || (g.cls c).fields.isEmpty
    | _ => true

theorem _root_.GEVerif.Grammar.terminalsFieldless_fields {g : Grammar} (hg : g.terminalsFieldless = true) {c : Nat}
    (hreg : g.reg.allNodes.contains (.cls c) = true) (ht : g.isTerminalCls c = true) :
    (g.cls c).fields = [] := by
  obtain ⟨a, ha, hac⟩ := List.contains_iff_exists_mem_beq.1 hreg
  have : a = .cls c := ((sym_beq_iff _ _).1 hac).symm ▸ rfl
  subst this
  have := List.all_eq_true.1 hg _ ha
  simp only [Grammar.isTerminalCls, Bool.not_eq_true'] at ht
  simpa [ht] using this

theorem FieldlessTerminals.nil (g : Grammar) : FieldlessTerminals g [] :=
  fun _ _ _ _ hm _ => by simp at hm

theorem FieldlessTerminals.append {g : Grammar} {a b : List Val}
    (ha : FieldlessTerminals g a) (hb : FieldlessTerminals g b) : FieldlessTerminals g (a ++ b) :=
  fun c d e args hm ht => by
    rcases List.mem_append.1 hm with h | h
    · exact ha c d e args h ht
    · exact hb c d e args h ht

theorem FieldlessTerminals.cons_of_not_node {g : Grammar} {x : Val} {l : List Val}
    (hx : ∀ c d e args, x ≠ .node c d e args) (hl : FieldlessTerminals g l) :
    FieldlessTerminals g (x :: l) :=
  fun c d e args hm ht => by
    rcases List.mem_cons.1 hm with h | h
    · exact absurd h.symm (hx c d e args)
    · exact hl c d e args h ht

theorem wtFields_nil_args {g : Grammar} {deps : List (String × Val)} {args : List Val}
    (h : wtFields g deps [] args = true) : args = [] := by
  cases args with
  | nil => rfl
  | cons a as => simp [wtFields] at h

theorem wt_fieldless_all (g : Grammar) (hg : g.terminalsFieldless = true) :
    (∀ deps ty v, wt g deps ty v = true → FieldlessTerminals g v.subvalues) ∧
    (∀ deps ts v, wtUnion g deps ts v = true → FieldlessTerminals g v.subvalues) ∧
    (∀ ts vs, wtTuple g ts vs = true → FieldlessTerminals g (Val.subvaluesList vs)) ∧
    (∀ t vs, wtAll g t vs = true → FieldlessTerminals g (Val.subvaluesList vs)) ∧
    (∀ deps fs vs, wtFields g deps fs vs = true → FieldlessTerminals g (Val.subvaluesList vs)) := by
  apply wt.mutual_induct g
    (motive1 := fun deps ty v => wt g deps ty v = true → FieldlessTerminals g v.subvalues)
    (motive2 := fun deps ts v => wtUnion g deps ts v = true → FieldlessTerminals g v.subvalues)
    (motive3 := fun ts vs => wtTuple g ts vs = true → FieldlessTerminals g (Val.subvaluesList vs))
    (motive4 := fun t vs => wtAll g t vs = true → FieldlessTerminals g (Val.subvaluesList vs))
    (motive5 := fun deps fs vs => wtFields g deps fs vs = true → FieldlessTerminals g (Val.subvaluesList vs))
  · intro _ i _; exact FieldlessTerminals.cons_of_not_node (by simp) (.nil g)
  · intro _ _; exact FieldlessTerminals.cons_of_not_node (by simp) (.nil g)
  · intro _ s _; exact FieldlessTerminals.cons_of_not_node (by simp) (.nil g)
  · intro _ b _; exact FieldlessTerminals.cons_of_not_node (by simp) (.nil g)
  · intro deps n c d e args _ ih h
    rw [wt.eq_5] at h
    simp only [Bool.and_eq_true] at h
    obtain ⟨⟨⟨_, hreg⟩, _⟩, hf⟩ := h
    have ih := ih hf
    rw [subvalues_node]
    intro c' d' e' args' hm ht
    rcases List.mem_cons.1 hm with heq | hm
    · cases heq
      have := Grammar.terminalsFieldless_fields hg hreg ht
      rw [this] at hf
      exact wtFields_nil_args hf
    · exact ih c' d' e' args' hm ht
  · intro deps t d e vs ih h
    rw [wt.eq_6] at h
    rw [subvalues_list]
    exact FieldlessTerminals.cons_of_not_node (by simp) (ih h)
  · intro deps ts vs ih h
    rw [wt.eq_7] at h
    rw [subvalues_tuple]
    exact FieldlessTerminals.cons_of_not_node (by simp) (ih h)
  · intro deps ts v ih h
    rw [wt.eq_8] at h
    exact ih h
  · intro deps t mh v ih h
    rw [wt.eq_9] at h
    simp only [Bool.and_eq_true] at h
    exact ih h.1
  · intro deps x x1 h1 h2 h3 h4 h5 h6 h7 h8 h9 h
    rw [wt.eq_10 g deps x x1 h8 h9 h1 h2 h3 h4 h5 h6 h7] at h
    exact absurd h (by simp)
  · intro deps x h; simp [wtUnion] at h
  · intro deps t ts v ih1 ih2 h
    rw [wtUnion.eq_2] at h
    rcases Bool.or_eq_true _ _ ▸ h with h | h
    · exact ih1 h
    · exact ih2 h
  · intro _; rw [subvaluesList_nil]; exact .nil g
  · intro t ts v vs ih1 ih2 h
    rw [wtTuple.eq_2] at h
    simp only [Bool.and_eq_true] at h
    rw [subvaluesList_cons]
    exact (ih1 h.1).append (ih2 h.2)
  · intro x x1 h1 h2 h
    rw [wtTuple.eq_3 g x x1 h1 h2] at h
    exact absurd h (by simp)
  · intro t _; rw [subvaluesList_nil]; exact .nil g
  · intro t v vs ih1 ih2 h
    rw [wtAll.eq_2] at h
    simp only [Bool.and_eq_true] at h
    rw [subvaluesList_cons]
    exact (ih1 h.1).append (ih2 h.2)
  · intro deps _; rw [subvaluesList_nil]; exact .nil g
  · intro deps n t fs v vs ih1 ih2 h
    rw [wtFields.eq_2] at h
    simp only [Bool.and_eq_true] at h
    rw [subvaluesList_cons]
    exact (ih1 h.1).append (ih2 h.2)
  · intro deps x x1 h1 h2 h
    rw [wtFields.eq_3 g deps x x1 h1 h2] at h
    exact absurd h (by simp)


/-! ### `register_type` files every field-carrying class under the non-terminals -/

/-- a registered symbol is fine: a class is filed under the non-terminals or has no fields -/
def GoodSym (classes : List ClassDecl) (r : Reg) : Sym → Prop
  | .cls c => Sym.cls c ∈ r.nonTerminals ∨ (classes.getD c default).fields = []
  | _ => True

/-- `r'` extends `r`: non-terminals only grow and every newly registered symbol is fine -/
def RegExt (classes : List ClassDecl) (r r' : Reg) : Prop :=
  (∀ s, s ∈ r.nonTerminals → s ∈ r'.nonTerminals) ∧
  (∀ s, s ∈ r'.allNodes → s ∈ r.allNodes ∨ GoodSym classes r' s)

theorem GoodSym.mono {classes : List ClassDecl} {r r' : Reg}
    (h : ∀ s, s ∈ r.nonTerminals → s ∈ r'.nonTerminals) {s : Sym} (hs : GoodSym classes r s) :
    GoodSym classes r' s := by
  cases s <;> simp only [GoodSym] at hs ⊢
  rcases hs with hs | hs
  · exact .inl (h _ hs)
  · exact .inr hs

theorem RegExt.refl (classes : List ClassDecl) (r : Reg) : RegExt classes r r :=
  ⟨fun _ h => h, fun _ h => .inl h⟩

theorem RegExt.trans {classes : List ClassDecl} {a b c : Reg}
    (h1 : RegExt classes a b) (h2 : RegExt classes b c) : RegExt classes a c :=
  ⟨fun s h => h2.1 s (h1.1 s h), fun s h => by
    rcases h2.2 s h with h | h
    · rcases h1.2 s h with h | h
      · exact .inl h
      · exact .inr (h.mono h2.1)
    · exact .inr h⟩

/-- changing fields other than `allNodes` / `nonTerminals` is invisible -/
theorem RegExt.congr_right {classes : List ClassDecl} {a b c : Reg} (h : RegExt classes a b)
    (h1 : c.allNodes = b.allNodes) (h2 : c.nonTerminals = b.nonTerminals) : RegExt classes a c := by
  refine ⟨fun s hs => h2 ▸ h.1 s hs, fun s hs => ?_⟩
  rcases h.2 s (h1 ▸ hs) with h' | h'
  · exact .inl h'
  · exact .inr (h'.mono (fun s hs => h2 ▸ hs))

theorem RegExt.congr_left {classes : List ClassDecl} {a b c : Reg} (h : RegExt classes a b)
    (h1 : c.allNodes = a.allNodes) (h2 : c.nonTerminals = a.nonTerminals) : RegExt classes c b :=
  ⟨fun s hs => h.1 s (h2 ▸ hs), fun s hs => by
    rcases h.2 s hs with h' | h'
    · exact .inl (h1 ▸ h')
    · exact .inr h'⟩

theorem regBase_ext (classes : List ClassDecl) (s : Sym) (hs : ∀ c, s ≠ .cls c) (r : Reg) :
    RegExt classes r (regTy.regBase s r) := by
  unfold regTy.regBase
  split
  · exact .refl _ _
  · refine ⟨fun _ h => h, fun x hx => ?_⟩
    simp only [List.mem_append, List.mem_singleton] at hx
    rcases hx with hx | rfl
    · exact .inl hx
    · right; cases x <;> simp [GoodSym] 
      exact absurd rfl (hs _)

theorem reg_cls_step (classes : List ClassDecl) (n : Nat) (r r0 r3 : Reg)
    (h0a : r0.allNodes = r.allNodes ++ [Sym.cls n]) (h0n : r0.nonTerminals = r.nonTerminals)
    (hExt : RegExt classes r0 r3) :
    RegExt classes r
      (if (!(classes.getD n default).abstract && (classes.getD n default).fields.isEmpty) = true then
        { r3 with terminals := r3.terminals ++ [Sym.cls n] }
      else { r3 with nonTerminals := r3.nonTerminals ++ [Sym.cls n] }) := by
  have hgood : ∀ (r4 : Reg), r4.allNodes = r3.allNodes →
      (∀ s, s ∈ r3.nonTerminals → s ∈ r4.nonTerminals) → GoodSym classes r4 (.cls n) →
      RegExt classes r r4 := by
    intro r4 ha hn hg
    refine ⟨fun s hs => hn s (hExt.1 s (h0n ▸ hs)), fun s hs => ?_⟩
    rcases hExt.2 s (ha ▸ hs) with h | h
    · rw [h0a] at h
      simp only [List.mem_append, List.mem_singleton] at h
      rcases h with h | rfl
      · exact .inl h
      · exact .inr hg
    · exact .inr (h.mono hn)
  split
  · rename_i ht
    simp only [Bool.and_eq_true, List.isEmpty_iff] at ht
    exact hgood _ rfl (fun s hs => hs) (.inr ht.2)
  · exact hgood _ rfl (fun s hs => List.mem_append_left _ hs)
      (.inl (List.mem_append_right _ (List.mem_singleton.2 rfl)))

theorem reg_ext (classes : List ClassDecl) (considered : List Nat) :
    ∀ fuel,
      (∀ ty r, RegExt classes r (regTy classes considered fuel ty r)) ∧
      (∀ ts r, RegExt classes r (regTys classes considered fuel ts r)) ∧
      (∀ fs r, RegExt classes r (regFields classes considered fuel fs r)) ∧
      (∀ n sts r, RegExt classes r (regSubs classes considered fuel n sts r)) := by
  intro fuel
  induction fuel with
  | zero =>
    refine ⟨fun _ r => ?_, fun _ r => ?_, fun _ r => ?_, fun _ _ r => ?_⟩
    · rw [regTy]; exact .refl _ _
    · rw [regTys]; exact .refl _ _
    · rw [regFields]; exact .refl _ _
    · rw [regSubs]; exact .refl _ _
  | succ fuel ih =>
    obtain ⟨ihTy, ihTys, ihFields, ihSubs⟩ := ih
    refine ⟨fun ty r => ?_, fun ts r => ?_, fun fs r => ?_, fun n sts r => ?_⟩
    · cases ty with
      | list t => rw [regTy]; exact ihTy t r
      | ann t mh => rw [regTy]; exact ihTy t r
      | tuple ts => rw [regTy]; exact ihTys ts r
      | union ts => rw [regTy]; exact ihTys ts r
      | int => rw [regTy]; exact regBase_ext classes _ (by simp) r
      | float => rw [regTy]; exact regBase_ext classes _ (by simp) r
      | str => rw [regTy]; exact regBase_ext classes _ (by simp) r
      | bool => rw [regTy]; exact regBase_ext classes _ (by simp) r
      | cls n =>
        rw [regTy]
        split
        · exact .refl _ _
        · refine reg_cls_step classes n r
            { r with allNodes := r.allNodes ++ [Sym.cls n] } _ rfl rfl ?_
          refine RegExt.trans (RegExt.trans (b := ?r1) ?h1 ?h2) (ihSubs n considered _)
          case h2 =>
            split
            · exact .refl _ _
            · exact ihFields _ _
          case h1 =>
            split
            · dsimp only
              split
              · exact (ihTy _ _).congr_right rfl rfl
              · exact (ihTy _ _).congr_right rfl rfl
            · exact .refl _ _
    · cases ts with
      | nil => rw [regTys]; exact .refl _ _
      | cons t ts => rw [regTys]; exact (ihTy t r).trans (ihTys ts _)
    · cases fs with
      | nil => rw [regFields]; exact .refl _ _
      | cons f fs => obtain ⟨nm, t⟩ := f; rw [regFields]; exact (ihTy t r).trans (ihFields fs _)
    · cases sts with
      | nil => rw [regSubs]; exact .refl _ _
      | cons st rest =>
        rw [regSubs]
        refine RegExt.trans ?_ (ihSubs n rest _)
        split
        · exact ihTy _ r
        · exact .refl _ _


theorem analyse_terminalsFieldless (spec : GrammarSpec) : (analyse spec).terminalsFieldless = true := by
  have h := ((reg_ext spec.classes spec.considered (regFuel spec)).1 (.cls spec.start) {}).2
  unfold Grammar.terminalsFieldless
  rw [List.all_eq_true]
  intro s hs
  have hs' : s ∈ (regTy spec.classes spec.considered (regFuel spec) (.cls spec.start) {}).allNodes := hs
  rcases h s hs' with h0 | hg
  · simp at h0
  · cases s with
    | cls c =>
      simp only [GoodSym] at hg
      simp only [Bool.or_eq_true, List.isEmpty_iff]
      rcases hg with hg | hg
      · left
        exact List.contains_iff_exists_mem_beq.2 ⟨_, hg, (sym_beq_iff _ _).2 rfl⟩
      · right; exact hg
    | _ => rfl


/-! ### Concrete data for the non-vacuity examples of Props/C11.lean -/

namespace Ex
/-- `Expr ::= Lit | Add(l: Expr, r: Expr) | Block(body: list[Expr]) | Pair(p: tuple[Expr, int])` -/
def spec : GrammarSpec :=
  { classes := [⟨"Expr", true, none, []⟩,
                ⟨"Lit", false, some 0, []⟩,
                ⟨"Add", false, some 0, [("l", .cls 0), ("r", .cls 0)]⟩,
                ⟨"Block", false, some 0, [("body", .list (.cls 0))]⟩,
                ⟨"Pair", false, some 0, [("p", .tuple [.cls 0, .int])]⟩],
    start := 0, considered := [1, 2, 3, 4] }
def g : Grammar := analyse spec
/-- `Block([Add(Lit, Lit), Pair((Lit, 3)), Lit])` -/
def prog : Val :=
  .node 3 0 0 [.list 1 0 [.node 2 2 0 [.node 1 3 0 [], .node 1 3 0 []],
                          .node 4 2 0 [.tuple [.node 1 3 0 [], .int 3]],
                          .node 1 2 0 []]]
/-- ill-formed: an instance of the field-less class `Lit` carrying an `Add` argument -/
def badProg : Val := .node 1 0 0 [.node 2 1 0 [.node 1 2 0 [], .node 1 2 0 []]]
/-- `Block([Add(Lit, Lit)])` whose list still carries the labels computed when it was `[Lit]`
(an element replaced in place without clearing `gengy_labeled`), the `Block` not yet labelled -/
def staleProg : LVal :=
  .node none 3 0 0
    [.list (some (relabel g (.list 1 0 [.node 1 2 0 []]))) 1 0
      [.node none 2 2 0 [.node none 1 3 0 [], .node none 1 3 0 []]]]
/-- a variation step: the `Add(Lit, Lit)` labelled by an earlier `relabelMemo` run is reused
under a new, not yet labelled `Block([Pair((·, 3))])` -/
def reusedProg : LVal :=
  .node none 3 0 0
    [.list none 1 0
      [.node none 4 2 0
        [.tuple [(relabelMemo g (LVal.fresh (.node 2 2 0 [.node 1 3 0 [], .node 1 3 0 []]))).2,
                 .int 3]]]]
end Ex

end GEVerif.Labels
