/-
  The bounded-language enumerator `langTy` (Model/Lang.lean) against the specification
  (`wt`, `Val.depth`, `Val.erase`), and scripts that steer `createNode` (helper definitions and
  lemmas for the C04 property theorems; everything lives in `namespace GEVerif.Language`).
-/
import GEVerif.Model.Lang
import GEVerif.Lemmas.WellTyped
import GEVerif.Lemmas.Analysis
import GEVerif.Lemmas.Depth
import GEVerif.Lemmas.DepthTotal

namespace GEVerif.Language
open GEVerif GEVerif.WellTyped GEVerif.Analysis

/-! ### Lists -/

/-- component-wise relation between two lists of the same length -/
def All2 {α β : Type} (P : α → β → Prop) : List α → List β → Prop
  | [], [] => True
  | a :: as, b :: bs => P a b ∧ All2 P as bs
  | _, _ => False

theorem All2.imp {α β : Type} {P Q : α → β → Prop} (h : ∀ a b, P a b → Q a b) :
    ∀ (as : List α) (bs : List β), All2 P as bs → All2 Q as bs
  | [], [], _ => trivial
  | [], _ :: _, h' => h'.elim
  | _ :: _, [], h' => h'.elim
  | a :: as, b :: bs, h' => ⟨h a b h'.1, All2.imp h as bs h'.2⟩

theorem mem_cartesian : ∀ (cs : List (List Val)) (vs : List Val),
    vs ∈ cartesian cs ↔ All2 (fun c v => v ∈ c) cs vs
  | [], vs => by
    cases vs <;> simp [cartesian, All2]
  | c :: cs, vs => by
    simp only [cartesian, List.mem_flatMap, List.mem_map]
    constructor
    · rintro ⟨x, hx, rest, hr, rfl⟩
      exact ⟨hx, (mem_cartesian cs rest).1 hr⟩
    · intro h
      cases vs with
      | nil => exact h.elim
      | cons x rest => exact ⟨x, h.1, rest, (mem_cartesian cs rest).2 h.2, rfl⟩

theorem mem_listsOfLen (xs : List Val) : ∀ (k : Nat) (vs : List Val),
    vs ∈ listsOfLen xs k ↔ vs.length = k ∧ ∀ v ∈ vs, v ∈ xs
  | 0, vs => by
    cases vs <;> simp [listsOfLen]
  | k + 1, vs => by
    simp only [listsOfLen, List.mem_flatMap, List.mem_map]
    constructor
    · rintro ⟨x, hx, rest, hr, rfl⟩
      obtain ⟨h1, h2⟩ := (mem_listsOfLen xs k rest).1 hr
      refine ⟨by simp [h1], ?_⟩
      intro v hv
      rcases List.mem_cons.1 hv with rfl | hv
      · exact hx
      · exact h2 v hv
    · rintro ⟨h1, h2⟩
      cases vs with
      | nil => simp at h1
      | cons x rest =>
        refine ⟨x, h2 x List.mem_cons_self, rest, ?_, rfl⟩
        exact (mem_listsOfLen xs k rest).2
          ⟨by simpa using h1, fun v hv => h2 v (List.mem_cons_of_mem _ hv)⟩

theorem mem_intsFromTo : ∀ (n : Nat) (lo i : Int), i ∈ intsFromTo lo n ↔ lo ≤ i ∧ i < lo + n
  | 0, lo, i => by simp only [intsFromTo, List.not_mem_nil, false_iff]; omega
  | n + 1, lo, i => by
    simp only [intsFromTo, List.mem_cons, mem_intsFromTo n (lo + 1) i]
    omega

theorem mem_rangeFromTo (lo hi k : Nat) : k ∈ rangeFromTo lo hi ↔ lo ≤ k ∧ k ≤ hi := by
  simp only [rangeFromTo, List.mem_map, List.mem_range]
  constructor
  · rintro ⟨i, hi', rfl⟩; omega
  · rintro ⟨h1, h2⟩; exact ⟨k - lo, by omega, by omega⟩

/-! ### Boolean equality of values, `dedupVals` -/

mutual
theorem val_eq_of_beq : ∀ (a b : Val), Val.beq a b = true → a = b
  | .int a, b, h => by
    cases b <;> simp [Val.beq] at h
    rw [h]
  | .float, b, h => by
    cases b <;> simp [Val.beq] at h
    rfl
  | .str a, b, h => by
    cases b <;> simp [Val.beq] at h
    rw [h]
  | .bool a, b, h => by
    cases b <;> simp [Val.beq] at h
    rw [h]
  | .foreign a, b, h => by
    cases b <;> simp [Val.beq] at h
    rw [h]
  | .node c d e as, b, h => by
    cases b <;> try (simp [Val.beq] at h; done)
    rename_i c' d' e' bs
    simp only [Val.beq, Bool.and_eq_true, beq_iff_eq] at h
    obtain ⟨⟨⟨rfl, rfl⟩, rfl⟩, h⟩ := h
    rw [val_eq_of_beqList as bs h]
  | .list d e as, b, h => by
    cases b <;> try (simp [Val.beq] at h; done)
    rename_i d' e' bs
    simp only [Val.beq, Bool.and_eq_true, beq_iff_eq] at h
    obtain ⟨⟨rfl, rfl⟩, h⟩ := h
    rw [val_eq_of_beqList as bs h]
  | .tuple as, b, h => by
    cases b <;> try (simp [Val.beq] at h; done)
    rename_i bs
    simp only [Val.beq] at h
    rw [val_eq_of_beqList as bs h]
theorem val_eq_of_beqList : ∀ (as bs : List Val), Val.beqList as bs = true → as = bs
  | [], bs, h => by
    cases bs <;> simp [Val.beqList] at h
    rfl
  | a :: as, bs, h => by
    cases bs with
    | nil => simp [Val.beqList] at h
    | cons b bs =>
      simp only [Val.beqList, Bool.and_eq_true] at h
      rw [val_eq_of_beq a b h.1, val_eq_of_beqList as bs h.2]
end

mutual
theorem val_beq_refl : ∀ (a : Val), Val.beq a a = true
  | .int _ | .float | .str _ | .bool _ | .foreign _ => by simp [Val.beq]
  | .node c d e as => by simp [Val.beq, val_beqList_refl as]
  | .list d e as => by simp [Val.beq, val_beqList_refl as]
  | .tuple as => by simp [Val.beq, val_beqList_refl as]
theorem val_beqList_refl : ∀ (as : List Val), Val.beqList as as = true
  | [] => by simp [Val.beqList]
  | a :: as => by simp [Val.beqList, val_beq_refl a, val_beqList_refl as]
end

theorem val_beq_iff (a b : Val) : (a == b) = true ↔ a = b :=
  ⟨val_eq_of_beq a b, fun h => h ▸ val_beq_refl a⟩

theorem mem_dedupVals : ∀ (l : List Val) (v : Val), v ∈ dedupVals l ↔ v ∈ l
  | [], v => by simp [dedupVals]
  | x :: xs, v => by
    rw [dedupVals]
    split
    · rename_i hany
      rw [mem_dedupVals xs v, List.mem_cons]
      constructor
      · exact Or.inr
      · rintro (rfl | h)
        · obtain ⟨y, hy, hyv⟩ := List.any_eq_true.1 hany
          rw [← (val_beq_iff y v).1 hyv]; exact hy
        · exact h
    · rw [List.mem_cons, List.mem_cons, mem_dedupVals xs v]

/-! ### Strings over an alphabet -/

theorem str_cons (s : String) (c : Char) (cs : List Char) (h : s.toList = c :: cs) :
    s = String.singleton c ++ String.ofList cs :=
  String.ext (by rw [String.toList_append, String.toList_singleton, String.toList_ofList, h]; rfl)

theorem stringsOfLen_sound (al : List String) (hal : ∀ c ∈ al, c.length = 1) :
    ∀ (k : Nat) (s : String), s ∈ stringsOfLen al k →
      s.length = k ∧ (s.toList.all fun ch => al.contains (String.singleton ch)) = true
  | 0, s, h => by
    simp only [stringsOfLen, List.mem_singleton] at h
    subst h; simp
  | k + 1, s, h => by
    simp only [stringsOfLen, List.mem_flatMap, List.mem_map] at h
    obtain ⟨c, hc, rest, hr, rfl⟩ := h
    obtain ⟨ch, rfl⟩ := oneChar_singleton c (hal c hc)
    obtain ⟨ih1, ih2⟩ := stringsOfLen_sound al hal k rest hr
    constructor
    · rw [String.length_append, String.length_singleton, ih1]; omega
    · rw [String.toList_append, String.toList_singleton, List.all_append, ih2]
      simp [hc]

theorem stringsOfLen_complete (al : List String) :
    ∀ (k : Nat) (s : String), s.length = k →
      (s.toList.all fun ch => al.contains (String.singleton ch)) = true → s ∈ stringsOfLen al k
  | 0, s, h, _ => by
    have : s.toList = [] := List.eq_nil_of_length_eq_zero (by rw [String.length_toList]; exact h)
    have : s = "" := String.ext (by rw [this]; rfl)
    subst this; simp [stringsOfLen]
  | k + 1, s, h, hall => by
    have hl : s.toList.length = k + 1 := by rw [String.length_toList]; exact h
    match hc : s.toList, hl with
    | c :: cs, hl' =>
      rw [hc, List.all_cons, Bool.and_eq_true] at hall
      have hs := str_cons s c cs hc
      simp only [stringsOfLen, List.mem_flatMap, List.mem_map]
      refine ⟨String.singleton c, by simpa using hall.1, String.ofList cs, ?_, hs.symm⟩
      apply stringsOfLen_complete al k
      · rw [← String.length_toList, String.toList_ofList]; simpa using hl'
      · rw [String.toList_ofList]; exact hall.2

/-! ### Depth and erasure of lists of values -/

theorem depthList_le (b : Nat) : ∀ (vs : List Val), Val.depthList vs ≤ b ↔ ∀ v ∈ vs, v.depth ≤ b
  | [] => by simp [Val.depthList]
  | v :: vs => by
    simp only [Val.depthList, List.mem_cons, forall_eq_or_imp, ← depthList_le b vs]
    omega

theorem eraseList_eq : ∀ (vs : List Val), Val.eraseList vs = vs ↔ ∀ v ∈ vs, v.erase = v
  | [] => by simp [Val.eraseList]
  | v :: vs => by
    simp only [Val.eraseList, List.cons.injEq, List.mem_cons, forall_eq_or_imp, ← eraseList_eq vs]

theorem All2.right {α β : Type} {P : α → β → Prop} {Q : β → Prop} (h : ∀ a b, P a b → Q b) :
    ∀ (as : List α) (bs : List β), All2 P as bs → ∀ b ∈ bs, Q b
  | [], [], _, b, hb => by cases hb
  | [], _ :: _, h', _, _ => h'.elim
  | _ :: _, [], h', _, _ => h'.elim
  | a :: as, b :: bs, h', x, hx => by
    rcases List.mem_cons.1 hx with rfl | hx
    · exact h a _ h'.1
    · exact All2.right h as bs h'.2 x hx

theorem wtTuple_of_all2 (g : Grammar) : ∀ (ts : List Ty) (vs : List Val),
    All2 (fun t v => wt g [] t v = true) ts vs → wtTuple g ts vs = true
  | [], [], _ => by rw [wtTuple]
  | [], _ :: _, h => h.elim
  | _ :: _, [], h => h.elim
  | _ :: ts, _ :: vs, h => by rw [wtTuple, h.1, wtTuple_of_all2 g ts vs h.2]; rfl

theorem wtFields_of_all2 (g : Grammar) : ∀ (fs : List (String × Ty)) (vs : List Val)
    (deps : List (String × Val)),
    All2 (fun t v => ∀ deps, wt g deps t v = true) (fs.map (·.2)) vs → wtFields g deps fs vs = true
  | [], [], _, _ => by rw [wtFields]
  | [], _ :: _, _, h => h.elim
  | _ :: _, [], _, h => h.elim
  | (n, t) :: fs, v :: vs, deps, h => by
    rw [wtFields, h.1 deps, wtFields_of_all2 g fs vs _ h.2]; rfl

theorem derivesList_of_all2 (g : Grammar) : ∀ (ts : List Ty) (vs : List Val),
    All2 (fun t v => Derives g.spec g.reg t v) ts vs → DerivesList g.spec g.reg ts vs
  | [], [], _ => .nil
  | [], _ :: _, h => h.elim
  | _ :: _, [], h => h.elim
  | _ :: ts, _ :: vs, h => .cons h.1 (derivesList_of_all2 g ts vs h.2)

theorem derivesList_replicate (g : Grammar) (t : Ty) : ∀ (vs : List Val),
    (∀ v ∈ vs, Derives g.spec g.reg t v) → DerivesList g.spec g.reg (List.replicate vs.length t) vs
  | [], _ => .nil
  | v :: vs, h => .cons (h v List.mem_cons_self)
      (derivesList_replicate g t vs fun x hx => h x (List.mem_cons_of_mem _ hx))

theorem altsAbstract_elim (g : Grammar) (h : altsAbstract g = true) (n : Nat) (ps : List Nat)
    (ha : g.altsOf n = some ps) : (g.spec.classes.getD n default).abstract = true := by
  have hm := WellTyped.getAlts_mem _ _ _ ha
  simp only [altsAbstract, List.all_eq_true] at h
  exact h _ hm

theorem tysWF_fields : ∀ (fs : List (String × Ty)) (earlier : List (String × Ty)),
    fieldsWF earlier fs = true → tysWF (fs.map (·.2)) = true
  | [], _, _ => by simp [tysWF]
  | (n, t) :: fs, earlier, h => by
    simp only [fieldsWF, Bool.and_eq_true] at h
    simp only [List.map_cons, tysWF, Bool.and_eq_true]
    exact ⟨h.1.1, tysWF_fields fs _ h.2⟩

theorem tysWF_cls : ∀ (ps : List Nat), tysWF (ps.map Ty.cls) = true
  | [] => by simp [tysWF]
  | p :: ps => by simp [tysWF, tyWF, tysWF_cls ps]

/-! ### Soundness of the enumerator -/

/-- what membership in `langTy g fuel budget ty` guarantees -/
def LangSpec (g : Grammar) (budget : Nat) (ty : Ty) (v : Val) : Prop :=
  (∀ deps, wt g deps ty v = true) ∧ v.depth ≤ budget ∧ v.erase = v ∧
  (altsAbstract g = true → Derives g.spec g.reg ty v)

def SoundP (g : Grammar) (fuel : Nat) : Prop :=
  (∀ budget ty v, tyWF ty = true → v ∈ langTy g fuel budget ty → LangSpec g budget ty v) ∧
  (∀ budget ts vs, tysWF ts = true → vs ∈ cartesian (langTys g fuel budget ts) →
    All2 (LangSpec g budget) ts vs) ∧
  (∀ budget ts v, tysWF ts = true → v ∈ (langTys g fuel budget ts).flatten →
    ∃ t ∈ ts, LangSpec g budget t v)

theorem sound_tys_cart (g : Grammar) (fuel : Nat) (ih : SoundP g fuel) :
    ∀ budget ts vs, tysWF ts = true → vs ∈ cartesian (langTys g (fuel + 1) budget ts) →
      All2 (LangSpec g budget) ts vs := by
  intro budget ts vs hts h
  cases ts with
  | nil =>
    simp only [langTys, cartesian, List.mem_singleton] at h
    subst h; trivial
  | cons t ts =>
    rw [tysWF, Bool.and_eq_true] at hts
    rw [langTys, mem_cartesian] at h
    cases vs with
    | nil => exact h.elim
    | cons x rest =>
      exact ⟨ih.1 budget t x hts.1 h.1, ih.2.1 budget ts rest hts.2 ((mem_cartesian _ _).2 h.2)⟩

theorem sound_tys_flat (g : Grammar) (fuel : Nat) (ih : SoundP g fuel) :
    ∀ budget ts v, tysWF ts = true → v ∈ (langTys g (fuel + 1) budget ts).flatten →
      ∃ t ∈ ts, LangSpec g budget t v := by
  intro budget ts v hts h
  cases ts with
  | nil => simp [langTys] at h
  | cons t ts =>
    rw [tysWF, Bool.and_eq_true] at hts
    rw [langTys, List.flatten_cons, List.mem_append] at h
    rcases h with h | h
    · exact ⟨t, List.mem_cons_self, ih.1 budget t v hts.1 h⟩
    · obtain ⟨t', ht', hv⟩ := ih.2.2 budget ts v hts.2 h
      exact ⟨t', List.mem_cons_of_mem _ ht', hv⟩

theorem soundP_zero (g : Grammar) : SoundP g 0 := by
  refine ⟨?_, ?_, ?_⟩
  · intro budget ty v _ h; simp [langTy] at h
  · intro budget ts vs _ h
    cases ts with
    | nil => simp only [langTys, cartesian, List.mem_singleton] at h; subst h; trivial
    | cons t ts => simp [langTys, cartesian] at h
  · intro budget ts v _ h
    cases ts <;> simp [langTys] at h

theorem wtUnion_of_spec (g : Grammar) (budget : Nat) (ts : List Ty) (t : Ty) (v : Val)
    (ht : t ∈ ts) (h : LangSpec g budget t v) : LangSpec g budget (.union ts) v :=
  ⟨fun deps => by rw [wt]; exact wtUnion_of_mem g deps v t ts ht (h.1 deps), h.2.1, h.2.2.1,
   fun ha => .union ht (h.2.2.2 ha)⟩

theorem sound_ty (g : Grammar) (hwf : GWF g) (fuel : Nat) (ih : SoundP g fuel) :
    ∀ budget ty v, tyWF ty = true → v ∈ langTy g (fuel + 1) budget ty → LangSpec g budget ty v := by
  intro budget ty v hty h
  cases ty with
  | int => simp [langTy] at h
  | float => simp [langTy] at h
  | list t => simp [langTy] at h
  | bool =>
    simp only [langTy, List.mem_cons, List.not_mem_nil, or_false] at h
    rcases h with rfl | rfl <;>
      exact ⟨fun _ => by simp [wt], by simp [Val.depth], by simp [Val.erase], fun _ => .bool _⟩
  | str =>
    simp only [langTy, List.mem_singleton] at h
    subst h
    exact ⟨fun _ => by simp [wt], by simp [Val.depth], by simp [Val.erase], fun _ => .str _⟩
  | tuple ts =>
    simp only [langTy, List.mem_map] at h
    obtain ⟨vs, hvs, rfl⟩ := h
    rw [tyWF] at hty
    have hall := ih.2.1 budget ts vs hty hvs
    refine ⟨fun _ => ?_, ?_, ?_, fun ha => ?_⟩
    · rw [wt]
      exact wtTuple_of_all2 g ts vs (All2.imp (fun t v h => h.1 []) ts vs hall)
    · rw [Val.depth, depthList_le]
      exact All2.right (fun t v (h : LangSpec g budget t v) => h.2.1) ts vs hall
    · rw [Val.erase, (eraseList_eq vs).2]
      exact All2.right (fun t v (h : LangSpec g budget t v) => h.2.2.1) ts vs hall
    · exact .tuple (derivesList_of_all2 g ts vs (All2.imp (fun t v h => h.2.2.2 ha) ts vs hall))
  | union ts =>
    simp only [langTy, mem_dedupVals] at h
    rw [tyWF] at hty
    obtain ⟨t, ht, hv⟩ := ih.2.2 budget ts v hty h
    exact wtUnion_of_spec g budget ts t v ht hv
  | cls n =>
    simp only [langTy] at h
    split at h
    · simp at h
    rename_i hreg
    simp only [Bool.not_eq_true, Bool.not_eq_false'] at hreg
    split at h
    · rename_i prods ha
      rw [mem_dedupVals] at h
      obtain ⟨t, ht, hv⟩ := ih.2.2 budget _ v (tysWF_cls prods) h
      obtain ⟨p, hp, rfl⟩ := List.mem_map.1 ht
      refine ⟨fun deps => wt_cls_step g hwf [] deps n p prods v ha hp (hv.1 []), hv.2.1, hv.2.2.1,
        fun habs => .abs (altsAbstract_elim g habs n prods ha) ha hp (hv.2.2.2 habs)⟩
    · rename_i ha
      split at h
      · simp at h
      rename_i b
      simp only [List.mem_map] at h
      obtain ⟨args, hargs, rfl⟩ := h
      have hall := ih.2.1 b _ args (tysWF_fields _ _ (hwf.fields n)) hargs
      have hconc := hwf.concrete n hreg ha
      refine ⟨fun deps => ?_, ?_, ?_, fun habs => ?_⟩
      · rw [wt]
        simp only [Bool.and_eq_true, Bool.not_eq_true']
        refine ⟨⟨⟨hconc, hreg⟩, isProdOf_self g _ n⟩, ?_⟩
        exact wtFields_of_all2 g _ args [] (All2.imp (fun t v h => h.1) _ args hall)
      · rw [Val.depth]
        have : Val.depthList args ≤ b := (depthList_le b args).2
          (All2.right (fun t v (h : LangSpec g b t v) => h.2.1) _ args hall)
        omega
      · rw [Val.erase, (eraseList_eq args).2]
        exact All2.right (fun t v (h : LangSpec g b t v) => h.2.2.1) _ args hall
      · exact .node hconc (derivesList_of_all2 g _ args (All2.imp (fun t v h => h.2.2.2 habs) _ args hall))
  | ann base mh =>
    rw [tyWF, Bool.and_eq_true] at hty
    simp only [langTy] at h
    split at h
    · -- intRange
      rename_i lo hi
      simp only [List.mem_map, mem_intsFromTo] at h
      obtain ⟨i, hi', rfl⟩ := h
      refine ⟨fun _ => ?_, by simp [Val.depth], by simp [Val.erase], fun _ => .ann (.int i)⟩
      simp only [wt, sat, Bool.true_and, decide_eq_true_eq]; omega
    · -- intList
      rename_i xs
      simp only [mem_dedupVals, List.mem_map] at h
      obtain ⟨i, hi', rfl⟩ := h
      refine ⟨fun _ => ?_, by simp [Val.depth], by simp [Val.erase], fun _ => .ann (.int i)⟩
      simp only [wt, sat, Bool.true_and]; simpa using hi'
    · -- varRange
      rename_i opts
      simp only [mem_dedupVals, List.mem_map] at h
      obtain ⟨x, hx, rfl⟩ := h
      refine ⟨fun _ => ?_, by simp [Val.depth], by simp [Val.erase], fun _ => .ann (.str x)⟩
      simp only [wt, sat, Bool.true_and]; simpa using hx
    · -- strSize
      rename_i lo hi al
      simp only [mem_dedupVals, List.mem_map, List.mem_flatMap, mem_rangeFromTo] at h
      obtain ⟨x, ⟨k, hk, hx⟩, rfl⟩ := h
      have hal : ∀ c ∈ al, c.length = 1 := by
        have := hty.1
        simp only [annOK, List.all_eq_true, beq_iff_eq] at this
        exact this
      obtain ⟨h1, h2⟩ := stringsOfLen_sound al hal k x hx
      refine ⟨fun _ => ?_, by simp [Val.depth], by simp [Val.erase], fun _ => .ann (.str x)⟩
      simp only [wt, sat, Bool.true_and, Bool.and_eq_true, decide_eq_true_eq]
      exact ⟨by omega, h2⟩
    · -- interval
      rename_i mn mx top
      simp only [List.mem_flatMap, List.mem_map, mem_intsFromTo] at h
      obtain ⟨len, hlen, start, hstart, rfl⟩ := h
      refine ⟨fun _ => ?_, by simp [Val.depth, Val.depthList], by simp [Val.erase, Val.eraseList],
        fun _ => .ann (.tuple (.cons (.int _) (.cons (.int _) .nil)))⟩
      simp only [wt, wtTuple, sat, Bool.and_true, Bool.true_and, decide_eq_true_eq]
      omega
    · -- listSize
      rename_i lo hi t
      simp only [List.mem_flatMap, List.mem_map, mem_rangeFromTo, mem_listsOfLen] at h
      obtain ⟨k, hk, vs, ⟨hlen, hvs⟩, rfl⟩ := h
      rw [tyWF] at hty
      have hel : ∀ x ∈ vs, LangSpec g budget t x := fun x hx => ih.1 budget t x hty.2 (hvs x hx)
      refine ⟨fun _ => ?_, ?_, ?_, fun ha => ?_⟩
      · simp only [wt, sat, Bool.and_eq_true, decide_eq_true_eq]
        exact ⟨wtAll_of_forall g t vs fun x hx => (hel x hx).1 [], by omega⟩
      · rw [Val.depth, depthList_le]; exact fun x hx => (hel x hx).2.1
      · rw [Val.erase, (eraseList_eq vs).2]; exact fun x hx => (hel x hx).2.2.1
      · exact .ann (.list (derivesList_replicate g t vs fun x hx => (hel x hx).2.2.2 ha))
    · simp at h

theorem soundP_all (g : Grammar) (hwf : GWF g) : ∀ fuel, SoundP g fuel
  | 0 => soundP_zero g
  | fuel + 1 =>
    have ih := soundP_all g hwf fuel
    ⟨sound_ty g hwf fuel ih, sound_tys_cart g fuel ih, sound_tys_flat g fuel ih⟩

/-! ### Monotonicity in the fuel -/

def MonoP (g : Grammar) (fuel : Nat) : Prop :=
  (∀ budget ty v, v ∈ langTy g fuel budget ty → v ∈ langTy g (fuel + 1) budget ty) ∧
  (∀ budget ts vs, vs ∈ cartesian (langTys g fuel budget ts) →
    vs ∈ cartesian (langTys g (fuel + 1) budget ts)) ∧
  (∀ budget ts v, v ∈ (langTys g fuel budget ts).flatten →
    v ∈ (langTys g (fuel + 1) budget ts).flatten)

theorem monoP_zero (g : Grammar) : MonoP g 0 := by
  refine ⟨?_, ?_, ?_⟩
  · intro budget ty v h; simp [langTy] at h
  · intro budget ts vs h
    cases ts with
    | nil => simpa [langTys] using h
    | cons t ts => simp [langTys, cartesian] at h
  · intro budget ts v h
    cases ts <;> simp [langTys] at h

theorem mono_ty (g : Grammar) (fuel : Nat) (ih : MonoP g fuel) :
    ∀ budget ty v, v ∈ langTy g (fuel + 1) budget ty → v ∈ langTy g (fuel + 2) budget ty := by
  intro budget ty v h
  cases ty with
  | int => simp [langTy] at h
  | float => simp [langTy] at h
  | list t => simp [langTy] at h
  | bool => simpa [langTy] using h
  | str => simpa [langTy] using h
  | tuple ts =>
    simp only [langTy, List.mem_map] at h ⊢
    obtain ⟨vs, hvs, rfl⟩ := h
    exact ⟨vs, ih.2.1 budget ts vs hvs, rfl⟩
  | union ts =>
    simp only [langTy, mem_dedupVals] at h ⊢
    exact ih.2.2 budget ts v h
  | cls n =>
    simp only [langTy] at h ⊢
    split at h
    · simp at h
    rename_i hreg
    rw [if_neg hreg]
    split at h
    · rw [mem_dedupVals] at h ⊢
      exact ih.2.2 budget _ v h
    · split at h
      · simp at h
      simp only [List.mem_map] at h ⊢
      obtain ⟨args, hargs, rfl⟩ := h
      exact ⟨args, ih.2.1 _ _ args hargs, rfl⟩
  | ann base mh =>
    simp only [langTy] at h ⊢
    split at h
    · exact h
    · exact h
    · exact h
    · exact h
    · exact h
    · rename_i lo hi t
      simp only [List.mem_flatMap, List.mem_map, mem_listsOfLen] at h ⊢
      obtain ⟨k, hk, vs, ⟨hlen, hvs⟩, rfl⟩ := h
      exact ⟨k, hk, vs, ⟨hlen, fun x hx => ih.1 budget t x (hvs x hx)⟩, rfl⟩
    · simp at h

theorem monoP_all (g : Grammar) : ∀ fuel, MonoP g fuel
  | 0 => monoP_zero g
  | fuel + 1 => by
    have ih := monoP_all g fuel
    refine ⟨mono_ty g fuel ih, ?_, ?_⟩
    · intro budget ts vs h
      cases ts with
      | nil => simpa [langTys] using h
      | cons t ts =>
        rw [langTys, mem_cartesian] at h ⊢
        cases vs with
        | nil => exact h.elim
        | cons x rest =>
          exact ⟨ih.1 budget t x h.1,
            (mem_cartesian _ _).1 (ih.2.1 budget ts rest ((mem_cartesian _ _).2 h.2))⟩
    · intro budget ts v h
      cases ts with
      | nil => simp [langTys] at h
      | cons t ts =>
        rw [langTys, List.flatten_cons, List.mem_append] at h ⊢
        rcases h with h | h
        · exact Or.inl (ih.1 budget t v h)
        · exact Or.inr (ih.2.2 budget ts v h)

theorem langTy_mono_le (g : Grammar) (budget : Nat) (ty : Ty) (v : Val) :
    ∀ (a b : Nat), a ≤ b → v ∈ langTy g a budget ty → v ∈ langTy g b budget ty := by
  intro a b hab h
  induction hab with
  | refl => exact h
  | step _ ih => exact (monoP_all g _).1 budget ty v ih

/-! ### Completeness of the enumerator -/

mutual
/-- finite-choice types for which `wt` and the enumerator agree: `finiteChoiceTy` without the
plain `str` (every string is a well-typed plain `str`, but creation only ever builds `""`) -/
def fcTy : Ty → Bool
  | .bool => true
  | .cls _ => true
  | .tuple ts => fcTys ts
  | .union ts => fcTys ts
  | .ann base mh =>
    match mh, base with
    | .intRange _ _, .int => true
    | .intList _, .int => true
    | .varRange _, .str => true
    | .strSize _ _ _, .str => true
    | .interval _ _ _, .tuple [.int, .int] => true
    | .listSize _ _, .list t => fcTy t
    | _, _ => false
  | _ => false
def fcTys : List Ty → Bool
  | [] => true
  | t :: ts => fcTy t && fcTys ts
end

/-- every field of every declared class is of a finite-choice type -/
def fcGrammar (g : Grammar) : Bool :=
  g.spec.classes.all fun c => c.fields.all fun f => fcTy f.2

mutual
/-- the enumeration of `ty` at this fuel and budget never runs out of fuel -/
def fuelOK (g : Grammar) : Nat → Nat → Ty → Bool
  | 0, _, _ => false
  | fuel + 1, budget, ty =>
    match ty with
    | .tuple ts => fuelOKs g fuel budget ts
    | .union ts => fuelOKs g fuel budget ts
    | .ann (.list t) (.listSize _ _) => fuelOK g fuel budget t
    | .cls n =>
      if !(g.reg.allNodes.contains (.cls n)) then true else
      match g.altsOf n with
      | some prods => fuelOKs g fuel budget (prods.map Ty.cls)
      | none =>
        match budget with
        | 0 => true
        | b + 1 => fuelOKs g fuel b ((g.cls n).fields.map (·.2))
    | _ => true
def fuelOKs (g : Grammar) : Nat → Nat → List Ty → Bool
  | _, _, [] => true
  | 0, _, _ :: _ => false
  | fuel + 1, budget, t :: ts => fuelOK g fuel budget t && fuelOKs g fuel budget ts
end

theorem fcTys_mem : ∀ (ts : List Ty) (t : Ty), t ∈ ts → fcTys ts = true → fcTy t = true
  | [], _, h, _ => by cases h
  | t' :: ts, t, h, hw => by
    rw [fcTys, Bool.and_eq_true] at hw
    rcases List.mem_cons.1 h with rfl | h
    · exact hw.1
    · exact fcTys_mem ts t h hw.2

theorem fcTys_cls : ∀ (ps : List Nat), fcTys (ps.map Ty.cls) = true
  | [] => by simp [fcTys]
  | p :: ps => by simp [fcTys, fcTy, fcTys_cls ps]

theorem fcTys_fields (fs : List (String × Ty)) (h : (fs.all fun f => fcTy f.2) = true) :
    fcTys (fs.map (·.2)) = true := by
  induction fs with
  | nil => simp [fcTys]
  | cons f fs ih =>
    simp only [List.all_cons, Bool.and_eq_true] at h
    simp only [List.map_cons, fcTys, Bool.and_eq_true]
    exact ⟨h.1, ih h.2⟩

theorem fcGrammar_fields (g : Grammar) (h : fcGrammar g = true) (n : Nat) :
    fcTys ((g.cls n).fields.map (·.2)) = true := by
  apply fcTys_fields
  unfold Grammar.cls
  rw [List.getD_eq_getElem?_getD]
  cases hc : g.spec.classes[n]? with
  | none => rfl
  | some d =>
    simp only [fcGrammar, List.all_eq_true] at h
    simpa using h d (List.mem_of_getElem? hc)

theorem wtUnion_elim (g : Grammar) (deps : List (String × Val)) (v : Val) :
    ∀ (ts : List Ty), wtUnion g deps ts v = true → ∃ t ∈ ts, wt g deps t v = true
  | [], h => by simp [wtUnion] at h
  | t :: ts, h => by
    rw [wtUnion, Bool.or_eq_true] at h
    rcases h with h | h
    · exact ⟨t, List.mem_cons_self, h⟩
    · obtain ⟨t', ht', h'⟩ := wtUnion_elim g deps v ts h
      exact ⟨t', List.mem_cons_of_mem _ ht', h'⟩

theorem all2_of_wtTuple (g : Grammar) : ∀ (ts : List Ty) (vs : List Val),
    wtTuple g ts vs = true → All2 (fun t v => ∃ deps, wt g deps t v = true) ts vs
  | [], [], _ => trivial
  | [], _ :: _, h => by simp [wtTuple] at h
  | _ :: _, [], h => by simp [wtTuple] at h
  | t :: ts, v :: vs, h => by
    rw [wtTuple, Bool.and_eq_true] at h
    exact ⟨⟨[], h.1⟩, all2_of_wtTuple g ts vs h.2⟩

theorem all2_of_wtFields (g : Grammar) : ∀ (fs : List (String × Ty)) (vs : List Val)
    (deps : List (String × Val)), wtFields g deps fs vs = true →
      All2 (fun t v => ∃ deps, wt g deps t v = true) (fs.map (·.2)) vs
  | [], [], _, _ => trivial
  | [], _ :: _, _, h => by simp [wtFields] at h
  | _ :: _, [], _, h => by simp [wtFields] at h
  | (n, t) :: fs, v :: vs, deps, h => by
    rw [wtFields, Bool.and_eq_true] at h
    exact ⟨⟨deps, h.1⟩, all2_of_wtFields g fs vs _ h.2⟩

theorem forall_of_wtAll (g : Grammar) (t : Ty) : ∀ (vs : List Val), wtAll g t vs = true →
    ∀ v ∈ vs, wt g [] t v = true
  | [], _, v, hv => by cases hv
  | x :: xs, h, v, hv => by
    rw [wtAll, Bool.and_eq_true] at h
    rcases List.mem_cons.1 hv with rfl | hv
    · exact h.1
    · exact forall_of_wtAll g t xs h.2 v hv

theorem wt_intpair (g : Grammar) (deps : List (String × Val)) (v : Val)
    (h : wt g deps (.tuple [.int, .int]) v = true) : ∃ a b, v = .tuple [.int a, .int b] := by
  cases v <;> try (simp [wt] at h; done)
  rename_i vs
  rw [wt] at h
  match vs, h with
  | [], h => simp [wtTuple] at h
  | [_], h => simp [wtTuple] at h
  | _ :: _ :: _ :: _, h => simp [wtTuple] at h
  | [x, y], h =>
    simp only [wtTuple, Bool.and_eq_true] at h
    obtain ⟨hx, hy, _⟩ := h
    cases x <;> try (simp [wt] at hx; done)
    cases y <;> try (simp [wt] at hy; done)
    exact ⟨_, _, rfl⟩

/-- the hypotheses on the analysed grammar shared by the completeness results -/
structure GOK (g : Grammar) : Prop where
  wf : GWF g
  abs : altsAbstract g = true
  closed : ClosedNodes g.spec g.reg
  fc : fcGrammar g = true

theorem GOK.prods_reg {g : Grammar} (h : GOK g) (n : Nat) (prods : List Nat)
    (hn : Sym.cls n ∈ g.reg.allNodes) (ha : g.altsOf n = some prods) :
    ∀ s ∈ explodeList (prods.map Ty.cls), s ∈ g.reg.allNodes := by
  intro s hs
  obtain ⟨t, ht, hs⟩ := mem_explodeList.1 hs
  obtain ⟨p, hp, rfl⟩ := List.mem_map.1 ht
  simp only [explode, List.mem_singleton] at hs
  subst hs
  apply h.closed _ hn
  have ha' : getAlts g.reg.alts n = some prods := ha
  rw [succs_abstract (altsAbstract_elim g h.abs n prods ha), ha']
  exact List.mem_map.2 ⟨p, hp, rfl⟩

theorem GOK.fields_reg {g : Grammar} (h : GOK g) (n : Nat)
    (hn : Sym.cls n ∈ g.reg.allNodes) (ha : g.altsOf n = none) :
    ∀ s ∈ explodeList ((g.cls n).fields.map (·.2)), s ∈ g.reg.allNodes := by
  intro s hs
  apply h.closed _ hn
  have hc := h.wf.concrete n (by simpa using hn) ha
  rw [succs_concrete hc]
  exact hs

def CompleteP (g : Grammar) (fuel : Nat) : Prop :=
  (∀ budget ty deps v, fuelOK g fuel budget ty = true → fcTy ty = true →
    (∀ s ∈ explode ty, s ∈ g.reg.allNodes) → wt g deps ty v = true → v.depth ≤ budget →
    v.erase = v → v ∈ langTy g fuel budget ty) ∧
  (∀ budget ts vs, fuelOKs g fuel budget ts = true → fcTys ts = true →
    (∀ s ∈ explodeList ts, s ∈ g.reg.allNodes) →
    All2 (fun t v => ∃ deps, wt g deps t v = true) ts vs → Val.depthList vs ≤ budget →
    Val.eraseList vs = vs → vs ∈ cartesian (langTys g fuel budget ts)) ∧
  (∀ budget ts t deps v, fuelOKs g fuel budget ts = true → fcTys ts = true →
    (∀ s ∈ explodeList ts, s ∈ g.reg.allNodes) → t ∈ ts → wt g deps t v = true →
    v.depth ≤ budget → v.erase = v → v ∈ (langTys g fuel budget ts).flatten)

theorem completeP_zero (g : Grammar) : CompleteP g 0 := by
  refine ⟨?_, ?_, ?_⟩
  · intro budget ty deps v h; simp [fuelOK] at h
  · intro budget ts vs h _ _ hall _ _
    cases ts with
    | nil =>
      cases vs with
      | nil => simp [langTys, cartesian]
      | cons _ _ => exact hall.elim
    | cons t ts => simp [fuelOKs] at h
  · intro budget ts t deps v h _ _ ht
    cases ts with
    | nil => cases ht
    | cons t ts => simp [fuelOKs] at h

theorem complete_tys_cart (g : Grammar) (fuel : Nat) (ih : CompleteP g fuel) :
    ∀ budget ts vs, fuelOKs g (fuel + 1) budget ts = true → fcTys ts = true →
    (∀ s ∈ explodeList ts, s ∈ g.reg.allNodes) →
    All2 (fun t v => ∃ deps, wt g deps t v = true) ts vs → Val.depthList vs ≤ budget →
    Val.eraseList vs = vs → vs ∈ cartesian (langTys g (fuel + 1) budget ts) := by
  intro budget ts vs hok hfc hreg hall hd he
  cases ts with
  | nil =>
    cases vs with
    | nil => simp [langTys, cartesian]
    | cons _ _ => exact hall.elim
  | cons t ts =>
    cases vs with
    | nil => exact hall.elim
    | cons x rest =>
      rw [fuelOKs, Bool.and_eq_true] at hok
      rw [fcTys, Bool.and_eq_true] at hfc
      rw [Val.depthList] at hd
      rw [Val.eraseList, List.cons.injEq] at he
      obtain ⟨deps, hx⟩ := hall.1
      rw [langTys, mem_cartesian]
      refine ⟨ih.1 budget t deps x hok.1 hfc.1
          (fun s hs => hreg s (by simp [explodeList, hs])) hx (by omega) he.1, ?_⟩
      exact (mem_cartesian _ _).1 (ih.2.1 budget ts rest hok.2 hfc.2
        (fun s hs => hreg s (by simp [explodeList, hs])) hall.2 (by omega) he.2)

theorem complete_tys_flat (g : Grammar) (fuel : Nat) (ih : CompleteP g fuel) :
    ∀ budget ts t deps v, fuelOKs g (fuel + 1) budget ts = true → fcTys ts = true →
    (∀ s ∈ explodeList ts, s ∈ g.reg.allNodes) → t ∈ ts → wt g deps t v = true →
    v.depth ≤ budget → v.erase = v → v ∈ (langTys g (fuel + 1) budget ts).flatten := by
  intro budget ts t deps v hok hfc hreg ht hw hd he
  cases ts with
  | nil => cases ht
  | cons t' ts =>
    rw [fuelOKs, Bool.and_eq_true] at hok
    rw [fcTys, Bool.and_eq_true] at hfc
    rw [langTys, List.flatten_cons, List.mem_append]
    rcases List.mem_cons.1 ht with rfl | ht
    · exact Or.inl (ih.1 budget t deps v hok.1 hfc.1
        (fun s hs => hreg s (by simp [explodeList, hs])) hw hd he)
    · exact Or.inr (ih.2.2 budget ts t deps v hok.2 hfc.2
        (fun s hs => hreg s (by simp [explodeList, hs])) ht hw hd he)

theorem complete_ty (g : Grammar) (hg : GOK g) (fuel : Nat) (ih : CompleteP g fuel) :
    ∀ budget ty deps v, fuelOK g (fuel + 1) budget ty = true → fcTy ty = true →
    (∀ s ∈ explode ty, s ∈ g.reg.allNodes) → wt g deps ty v = true → v.depth ≤ budget →
    v.erase = v → v ∈ langTy g (fuel + 1) budget ty := by
  intro budget ty deps v hok hfc hreg hw hd he
  cases ty with
  | int => simp [fcTy] at hfc
  | float => simp [fcTy] at hfc
  | str => simp [fcTy] at hfc
  | list t => simp [fcTy] at hfc
  | bool =>
    cases v <;> simp [wt] at hw
    rename_i b
    cases b <;> simp [langTy]
  | tuple ts =>
    cases v <;> try (simp [wt] at hw; done)
    rename_i vs
    rw [wt] at hw
    rw [fuelOK] at hok
    rw [fcTy] at hfc
    rw [Val.depth] at hd
    rw [Val.erase, Val.tuple.injEq] at he
    simp only [langTy, List.mem_map]
    exact ⟨vs, ih.2.1 budget ts vs hok hfc (by simpa [explode] using hreg)
      (all2_of_wtTuple g ts vs hw) hd he, rfl⟩
  | union ts =>
    rw [wt] at hw
    obtain ⟨t, ht, hwt⟩ := wtUnion_elim g deps v ts hw
    rw [fuelOK] at hok
    rw [fcTy] at hfc
    simp only [langTy, mem_dedupVals]
    exact ih.2.2 budget ts t deps v hok hfc (by simpa [explode] using hreg) ht hwt hd he
  | cls n =>
    cases v <;> try (simp [wt] at hw; done)
    rename_i c d e args
    rw [wt] at hw
    simp only [Bool.and_eq_true, Bool.not_eq_true'] at hw
    obtain ⟨⟨⟨hconc, hcreg⟩, hprod⟩, hfields⟩ := hw
    rw [Val.erase, Val.node.injEq] at he
    obtain ⟨_, hd0, he0, hargs⟩ := he
    subst hd0; subst he0
    have hn : Sym.cls n ∈ g.reg.allNodes := hreg _ (by simp [explode])
    have hnc : g.reg.allNodes.contains (Sym.cls n) = true := by simpa using hn
    simp only [fuelOK, hnc, Bool.not_true, Bool.false_eq_true, if_false] at hok
    simp only [langTy, hnc, Bool.not_true, Bool.false_eq_true, if_false]
    rw [isProdOf, Bool.or_eq_true] at hprod
    cases ha : g.altsOf n with
    | some prods =>
      rw [ha] at hok hprod
      simp only
      rw [mem_dedupVals]
      rcases hprod with hnc' | hany
      · have : n = c := by simpa using hnc'
        subst this
        have := altsAbstract_elim g hg.abs n prods ha
        have hconc' : (g.spec.classes.getD n default).abstract = false := hconc
        rw [hconc'] at this; cases this
      · obtain ⟨p, hp, hpc⟩ := List.any_eq_true.1 hany
        have hwp : wt g deps (.cls p) (.node c 0 0 args) = true := by
          rw [wt]
          simp only [Bool.and_eq_true, Bool.not_eq_true']
          exact ⟨⟨⟨hconc, hcreg⟩, isProdOf_mono g _ p c hpc⟩, hfields⟩
        exact ih.2.2 budget _ (.cls p) deps _ hok (fcTys_cls prods) (hg.prods_reg n prods hn ha)
          (List.mem_map.2 ⟨p, hp, rfl⟩) hwp hd (by rw [Val.erase, hargs])
    | none =>
      rw [ha] at hok hprod
      simp only
      have : n = c := by
        rcases hprod with h | h
        · simpa using h
        · simp at h
      subst this
      rw [Val.depth] at hd
      cases budget with
      | zero => omega
      | succ b =>
        simp only at hok ⊢
        simp only [List.mem_map]
        exact ⟨args, ih.2.1 b _ args hok (fcGrammar_fields g hg.fc n) (hg.fields_reg n hn ha)
          (all2_of_wtFields g _ args [] hfields) (by omega) hargs, rfl⟩
  | ann base mh =>
    rw [wt, Bool.and_eq_true] at hw
    obtain ⟨hwb, hs⟩ := hw
    unfold fcTy at hfc
    split at hfc
    · -- intRange
      rename_i lo hi
      cases v <;> simp [wt] at hwb
      rename_i i
      simp only [sat, decide_eq_true_eq] at hs
      simp only [langTy, List.mem_map, mem_intsFromTo]
      exact ⟨i, by omega, rfl⟩
    · -- intList
      rename_i xs
      cases v <;> simp [wt] at hwb
      rename_i i
      simp only [sat] at hs
      simp only [langTy, mem_dedupVals, List.mem_map]
      exact ⟨i, by simpa using hs, rfl⟩
    · -- varRange
      rename_i opts
      cases v <;> simp [wt] at hwb
      rename_i x
      simp only [sat] at hs
      simp only [langTy, mem_dedupVals, List.mem_map]
      exact ⟨x, by simpa using hs, rfl⟩
    · -- strSize
      rename_i lo hi al
      cases v <;> simp [wt] at hwb
      rename_i x
      simp only [sat, Bool.and_eq_true, decide_eq_true_eq] at hs
      simp only [langTy, mem_dedupVals, List.mem_map, List.mem_flatMap, mem_rangeFromTo]
      exact ⟨x, ⟨x.length, hs.1, stringsOfLen_complete al _ x rfl hs.2⟩, rfl⟩
    · -- interval
      rename_i mn mx top
      obtain ⟨a, b, rfl⟩ := wt_intpair g deps v hwb
      simp only [sat, decide_eq_true_eq] at hs
      simp only [langTy, List.mem_flatMap, List.mem_map, mem_intsFromTo]
      refine ⟨b - a, by omega, a, by omega, ?_⟩
      have : a + (b - a) = b := by omega
      rw [this]
    · -- listSize
      rename_i lo hi t
      cases v <;> try (simp [wt] at hwb; done)
      rename_i d e vs
      rw [wt] at hwb
      rw [Val.erase, Val.list.injEq] at he
      obtain ⟨hd0, he0, hvs⟩ := he
      subst hd0; subst he0
      simp only [sat, decide_eq_true_eq] at hs
      simp only [fuelOK] at hok
      rw [Val.depth] at hd
      simp only [langTy, List.mem_flatMap, List.mem_map, mem_rangeFromTo, mem_listsOfLen]
      refine ⟨vs.length, hs, vs, ⟨rfl, fun x hx => ?_⟩, rfl⟩
      exact ih.1 budget t [] x hok hfc (by simpa [explode] using hreg)
        (forall_of_wtAll g t vs hwb x hx) ((depthList_le budget vs).1 hd x hx)
        ((eraseList_eq vs).1 hvs x hx)
    · cases hfc

theorem completeP_all (g : Grammar) (hg : GOK g) : ∀ fuel, CompleteP g fuel
  | 0 => completeP_zero g
  | fuel + 1 =>
    have ih := completeP_all g hg fuel
    ⟨complete_ty g hg fuel ih, complete_tys_cart g fuel ih, complete_tys_flat g fuel ih⟩

/-! ### Enough fuel exists -/

def OKMonoP (g : Grammar) (fuel : Nat) : Prop :=
  (∀ budget ty, fuelOK g fuel budget ty = true → fuelOK g (fuel + 1) budget ty = true) ∧
  (∀ budget ts, fuelOKs g fuel budget ts = true → fuelOKs g (fuel + 1) budget ts = true)

theorem okMono_tys (g : Grammar) (fuel : Nat) (ih : OKMonoP g fuel) :
    ∀ budget ts, fuelOKs g (fuel + 1) budget ts = true → fuelOKs g (fuel + 2) budget ts = true := by
  intro budget ts h
  cases ts with
  | nil => simp [fuelOKs]
  | cons t ts =>
    rw [fuelOKs, Bool.and_eq_true] at h ⊢
    exact ⟨ih.1 budget t h.1, ih.2 budget ts h.2⟩

theorem okMonoP_all (g : Grammar) : ∀ fuel, OKMonoP g fuel
  | 0 => by
    refine ⟨fun budget ty h => by simp [fuelOK] at h, fun budget ts h => ?_⟩
    cases ts with
    | nil => simp [fuelOKs]
    | cons t ts => simp [fuelOKs] at h
  | fuel + 1 => by
    have ih := okMonoP_all g fuel
    refine ⟨?_, okMono_tys g fuel ih⟩
    intro budget ty h
    cases ty with
    | int | float | str | bool | list _ => simp [fuelOK]
    | tuple ts => simp only [fuelOK] at h ⊢; exact ih.2 budget ts h
    | union ts => simp only [fuelOK] at h ⊢; exact ih.2 budget ts h
    | cls n =>
      simp only [fuelOK] at h ⊢
      split
      · rfl
      · rename_i hreg
        rw [if_neg hreg] at h
        split
        · rename_i prods ha
          rw [ha] at h
          exact ih.2 budget _ h
        · rename_i ha
          rw [ha] at h
          split
          · rfl
          · exact ih.2 _ _ h
    | ann base mh =>
      cases base <;> cases mh <;> simp only [fuelOK] at h ⊢
      exact ih.1 budget _ h

theorem fuelOK_mono_le (g : Grammar) (budget : Nat) (ty : Ty) :
    ∀ (a b : Nat), a ≤ b → fuelOK g a budget ty = true → fuelOK g b budget ty = true := by
  intro a b hab h
  induction hab with
  | refl => exact h
  | step _ ih => exact (okMonoP_all g _).1 budget ty ih

theorem fuelOKs_mono_le (g : Grammar) (budget : Nat) (ts : List Ty) :
    ∀ (a b : Nat), a ≤ b → fuelOKs g a budget ts = true → fuelOKs g b budget ts = true := by
  intro a b hab h
  induction hab with
  | refl => exact h
  | step _ ih => exact (okMonoP_all g _).2 budget ts ih

theorem exists_tys_of_forall (g : Grammar) (budget : Nat) : ∀ (ts : List Ty),
    (∀ t ∈ ts, ∃ F, fuelOK g F budget t = true) → ∃ F, fuelOKs g F budget ts = true
  | [], _ => ⟨0, by simp [fuelOKs]⟩
  | t :: ts, h => by
    obtain ⟨F1, h1⟩ := h t List.mem_cons_self
    obtain ⟨F2, h2⟩ := exists_tys_of_forall g budget ts fun x hx => h x (List.mem_cons_of_mem _ hx)
    refine ⟨max F1 F2 + 1, ?_⟩
    rw [fuelOKs, Bool.and_eq_true]
    exact ⟨fuelOK_mono_le g budget t _ _ (Nat.le_max_left _ _) h1,
      fuelOKs_mono_le g budget ts _ _ (Nat.le_max_right _ _) h2⟩

mutual
theorem exists_ty (g : Grammar) (budget : Nat)
    (hC : ∀ n, ∃ F, fuelOK g F budget (.cls n) = true) : ∀ (ty : Ty), ∃ F, fuelOK g F budget ty = true
  | .cls n => hC n
  | .int | .float | .str | .bool | .list _ => ⟨1, by simp [fuelOK]⟩
  | .tuple ts => by
    obtain ⟨F, h⟩ := exists_tys g budget hC ts
    exact ⟨F + 1, by simp only [fuelOK]; exact h⟩
  | .union ts => by
    obtain ⟨F, h⟩ := exists_tys g budget hC ts
    exact ⟨F + 1, by simp only [fuelOK]; exact h⟩
  | .ann base mh => by
    cases base with
    | list t =>
      obtain ⟨F, h⟩ := exists_ty g budget hC t
      cases mh <;> first | exact ⟨F + 1, by simp only [fuelOK]; exact h⟩ | exact ⟨1, by simp [fuelOK]⟩
    | _ => exact ⟨1, by simp [fuelOK]⟩
theorem exists_tys (g : Grammar) (budget : Nat)
    (hC : ∀ n, ∃ F, fuelOK g F budget (.cls n) = true) : ∀ (ts : List Ty), ∃ F, fuelOKs g F budget ts = true
  | [] => ⟨0, by simp [fuelOKs]⟩
  | t :: ts => by
    obtain ⟨F1, h1⟩ := exists_ty g budget hC t
    obtain ⟨F2, h2⟩ := exists_tys g budget hC ts
    refine ⟨max F1 F2 + 1, ?_⟩
    rw [fuelOKs, Bool.and_eq_true]
    exact ⟨fuelOK_mono_le g budget t _ _ (Nat.le_max_left _ _) h1,
      fuelOKs_mono_le g budget ts _ _ (Nat.le_max_right _ _) h2⟩
end

theorem fuelOK_cls (g : Grammar) (fuel budget n : Nat) :
    fuelOK g (fuel + 1) budget (.cls n) =
      (if !(g.reg.allNodes.contains (.cls n)) then true else
        match g.altsOf n with
        | some prods => fuelOKs g fuel budget (prods.map Ty.cls)
        | none =>
          match budget with
          | 0 => true
          | b + 1 => fuelOKs g fuel b ((g.cls n).fields.map (·.2))) := by
  simp only [fuelOK]

theorem exists_cls_aux (g : Grammar) (hwf : altsWF g) (budget : Nat)
    (hconc : ∀ n, g.altsOf n = none → ∃ F, fuelOK g F budget (.cls n) = true) :
    ∀ k n, g.spec.classes.length - n ≤ k → ∃ F, fuelOK g F budget (.cls n) = true := by
  intro k
  induction k with
  | zero =>
    intro n hk
    cases ha : g.altsOf n with
    | none => exact hconc n ha
    | some prods => have := (hwf n prods ha).1; omega
  | succ k ihk =>
    intro n hk
    cases ha : g.altsOf n with
    | none => exact hconc n ha
    | some prods =>
      have hb := hwf n prods ha
      obtain ⟨F, hF⟩ := exists_tys_of_forall g budget (prods.map Ty.cls) (by
        intro t ht
        obtain ⟨p, hp, rfl⟩ := List.mem_map.1 ht
        have := hb.2 p hp
        exact ihk p (by omega))
      refine ⟨F + 1, ?_⟩
      rw [fuelOK_cls, ha]
      split
      · rfl
      · exact hF

theorem exists_cls (g : Grammar) (hwf : altsWF g) :
    ∀ (budget n : Nat), ∃ F, fuelOK g F budget (.cls n) = true := by
  intro budget
  induction budget with
  | zero =>
    refine fun n => exists_cls_aux g hwf 0 (fun n ha => ⟨1, ?_⟩) _ n (Nat.le_refl _)
    rw [fuelOK_cls, ha]
    split <;> rfl
  | succ b ihb =>
    refine fun n => exists_cls_aux g hwf (b + 1) (fun n ha => ?_) _ n (Nat.le_refl _)
    obtain ⟨F, hF⟩ := exists_tys g b ihb ((g.cls n).fields.map (·.2))
    refine ⟨F + 1, ?_⟩
    rw [fuelOK_cls, ha]
    split
    · rfl
    · exact hF

theorem exists_fuel (g : Grammar) (hwf : altsWF g) (budget : Nat) (ty : Ty) :
    ∃ F, fuelOK g F budget ty = true :=
  exists_ty g budget (exists_cls g hwf budget) ty

/-! ### `fcTy` refines the model's `finiteChoiceTy` -/

mutual
theorem fcTy_finiteChoice : ∀ (ty : Ty), fcTy ty = true → finiteChoiceTy ty = true
  | .bool, _ => by simp [finiteChoiceTy]
  | .cls _, _ => by simp [finiteChoiceTy]
  | .int, h | .float, h | .str, h | .list _, h => by simp [fcTy] at h
  | .tuple ts, h => by
    rw [fcTy] at h; rw [finiteChoiceTy]; exact fcTys_finiteChoice ts h
  | .union ts, h => by
    rw [fcTy] at h; rw [finiteChoiceTy]; exact fcTys_finiteChoice ts h
  | .ann base mh, h => by
    unfold fcTy at h
    split at h
    · simp [finiteChoiceTy]
    · simp [finiteChoiceTy]
    · simp [finiteChoiceTy]
    · simp [finiteChoiceTy]
    · simp [finiteChoiceTy]
    · rename_i lo hi t
      rw [finiteChoiceTy]
      exact fcTy_finiteChoice t h
    · cases h
theorem fcTys_finiteChoice : ∀ (ts : List Ty), fcTys ts = true → finiteChoiceTys ts = true
  | [], _ => by simp [finiteChoiceTys]
  | t :: ts, h => by
    rw [fcTys, Bool.and_eq_true] at h
    rw [finiteChoiceTys, fcTy_finiteChoice t h.1, fcTys_finiteChoice ts h.2]; rfl
end

theorem fcGrammar_finiteChoice (g : Grammar) (h : fcGrammar g = true) : finiteChoice g = true := by
  simp only [fcGrammar, finiteChoice, List.all_eq_true] at h ⊢
  exact fun c hc f hf => fcTy_finiteChoice _ (h c hc f hf)

end GEVerif.Language
