/-
  The bounded-language enumerator `langTy` (Model/Lang.lean) against the specification
  (`wt`, `Val.depth`, `Val.erase`), and scripts that steer `createNode` (helper definitions and
  lemmas for the C04 property theorems; everything lives in `namespace GEVerif.Language`).
-/
import GEVerif.Model.Lang
import GEVerif.Lemmas.WellTyped
import GEVerif.Lemmas.Analysis
import GEVerif.Lemmas.Depth
import GEVerif.Lemmas.DepthTotal

namespace GEVerif.Language
open GEVerif GEVerif.WellTyped GEVerif.Analysis

/-! ### Lists -/

/-- component-wise relation between two lists of the same length -/
def All2 {α β : Type} (P : α → β → Prop) : List α → List β → Prop
  | [], [] => True
  | a :: as, b :: bs => P a b ∧ All2 P as bs
  | _, _ => False

theorem All2.imp {α β : Type} {P Q : α → β → Prop} (h : ∀ a b, P a b → Q a b) :
    ∀ (as : List α) (bs : List β), All2 P as bs → All2 Q as bs
  | [], [], _ => trivial
  | [], _ :: _, h' => h'.elim
  | _ :: _, [], h' => h'.elim
  | a :: as, b :: bs, h' => ⟨h a b h'.1, All2.imp h as bs h'.2⟩

theorem mem_cartesian : ∀ (cs : List (List Val)) (vs : List Val),
    vs ∈ cartesian cs ↔ All2 (fun c v => v ∈ c) cs vs
  | [], vs => by
    cases vs <;> simp [cartesian, All2]
  | c :: cs, vs => by
    simp only [cartesian, List.mem_flatMap, List.mem_map]
    constructor
    · rintro ⟨x, hx, rest, hr, rfl⟩
      exact ⟨hx, (mem_cartesian cs rest).1 hr⟩
    · intro h
      cases vs with
      | nil => exact h.elim
      | cons x rest => exact ⟨x, h.1, rest, (mem_cartesian cs rest).2 h.2, rfl⟩

theorem mem_listsOfLen (xs : List Val) : ∀ (k : Nat) (vs : List Val),
    vs ∈ listsOfLen xs k ↔ vs.length = k ∧ ∀ v ∈ vs, v ∈ xs
  | 0, vs => by
    cases vs <;> simp [listsOfLen]
  | k + 1, vs => by
    simp only [listsOfLen, List.mem_flatMap, List.mem_map]
    constructor
    · rintro ⟨x, hx, rest, hr, rfl⟩
      obtain ⟨h1, h2⟩ := (mem_listsOfLen xs k rest).1 hr
      refine ⟨by simp [h1], ?_⟩
      intro v hv
      rcases List.mem_cons.1 hv with rfl | hv
      · exact hx
      · exact h2 v hv
    · rintro ⟨h1, h2⟩
      cases vs with
      | nil => simp at h1
      | cons x rest =>
        refine ⟨x, h2 x List.mem_cons_self, rest, ?_, rfl⟩
        exact (mem_listsOfLen xs k rest).2
          ⟨by simpa using h1, fun v hv => h2 v (List.mem_cons_of_mem _ hv)⟩

theorem mem_intsFromTo : ∀ (n : Nat) (lo i : Int), i ∈ intsFromTo lo n ↔ lo ≤ i ∧ i < lo + n
  | 0, lo, i => by simp only [intsFromTo, List.not_mem_nil, false_iff]; omega
  | n + 1, lo, i => by
    simp only [intsFromTo, List.mem_cons, mem_intsFromTo n (lo + 1) i]
    omega

theorem mem_rangeFromTo (lo hi k : Nat) : k ∈ rangeFromTo lo hi ↔ lo ≤ k ∧ k ≤ hi := by
  simp only [rangeFromTo, List.mem_map, List.mem_range]
  constructor
  · rintro ⟨i, hi', rfl⟩; omega
  · rintro ⟨h1, h2⟩; exact ⟨k - lo, by omega, by omega⟩

/-! ### Boolean equality of values, `dedupVals` -/

mutual
theorem val_eq_of_beq : ∀ (a b : Val), Val.beq a b = true → a = b
  | .int a, b, h => by
    cases b <;> simp [Val.beq] at h
    rw [h]
  | .float, b, h => by
    cases b <;> simp [Val.beq] at h
    rfl
  | .str a, b, h => by
    cases b <;> simp [Val.beq] at h
    rw [h]
  | .bool a, b, h => by
    cases b <;> simp [Val.beq] at h
    rw [h]
  | .foreign a, b, h => by
    cases b <;> simp [Val.beq] at h
    rw [h]
  | .node c d e as, b, h => by
    cases b <;> try (simp [Val.beq] at h; done)
    rename_i c' d' e' bs
    simp only [Val.beq, Bool.and_eq_true, beq_iff_eq] at h
    obtain ⟨⟨⟨rfl, rfl⟩, rfl⟩, h⟩ := h
    rw [val_eq_of_beqList as bs h]
  | .list d e as, b, h => by
    cases b <;> try (simp [Val.beq] at h; done)
    rename_i d' e' bs
    simp only [Val.beq, Bool.and_eq_true, beq_iff_eq] at h
    obtain ⟨⟨rfl, rfl⟩, h⟩ := h
    rw [val_eq_of_beqList as bs h]
  | .tuple as, b, h => by
    cases b <;> try (simp [Val.beq] at h; done)
    rename_i bs
    simp only [Val.beq] at h
    rw [val_eq_of_beqList as bs h]
theorem val_eq_of_beqList : ∀ (as bs : List Val), Val.beqList as bs = true → as = bs
  | [], bs, h => by
    cases bs <;> simp [Val.beqList] at h
    rfl
  | a :: as, bs, h => by
    cases bs with
    | nil => simp [Val.beqList] at h
    | cons b bs =>
      simp only [Val.beqList, Bool.and_eq_true] at h
      rw [val_eq_of_beq a b h.1, val_eq_of_beqList as bs h.2]
end

mutual
theorem val_beq_refl : ∀ (a : Val), Val.beq a a = true
  | .int _ | .float | .str _ | .bool _ | .foreign _ => by simp [Val.beq]
  | .node c d e as => by simp [Val.beq, val_beqList_refl as]
  | .list d e as => by simp [Val.beq, val_beqList_refl as]
  | .tuple as => by simp [Val.beq, val_beqList_refl as]
theorem val_beqList_refl : ∀ (as : List Val), Val.beqList as as = true
  | [] => by simp [Val.beqList]
  | a :: as => by simp [Val.beqList, val_beq_refl a, val_beqList_refl as]
end

theorem val_beq_iff (a b : Val) : (a == b) = true ↔ a = b :=
  ⟨val_eq_of_beq a b, fun h => h ▸ val_beq_refl a⟩

theorem mem_dedupVals : ∀ (l : List Val) (v : Val), v ∈ dedupVals l ↔ v ∈ l
  | [], v => by simp [dedupVals]
  | x :: xs, v => by
    rw [dedupVals]
    split
    · rename_i hany
      rw [mem_dedupVals xs v, List.mem_cons]
      constructor
      · exact Or.inr
      · rintro (rfl | h)
        · obtain ⟨y, hy, hyv⟩ := List.any_eq_true.1 hany
          rw [← (val_beq_iff y v).1 hyv]; exact hy
        · exact h
    · rw [List.mem_cons, List.mem_cons, mem_dedupVals xs v]

/-! ### Strings over an alphabet -/

theorem str_cons (s : String) (c : Char) (cs : List Char) (h : s.toList = c :: cs) :
    s = String.singleton c ++ String.ofList cs :=
  String.ext (by rw [String.toList_append, String.toList_singleton, String.toList_ofList, h]; rfl)

theorem stringsOfLen_sound (al : List String) (hal : ∀ c ∈ al, c.length = 1) :
    ∀ (k : Nat) (s : String), s ∈ stringsOfLen al k →
      s.length = k ∧ (s.toList.all fun ch => al.contains (String.singleton ch)) = true
  | 0, s, h => by
    simp only [stringsOfLen, List.mem_singleton] at h
    subst h; simp
  | k + 1, s, h => by
    simp only [stringsOfLen, List.mem_flatMap, List.mem_map] at h
    obtain ⟨c, hc, rest, hr, rfl⟩ := h
    obtain ⟨ch, rfl⟩ := oneChar_singleton c (hal c hc)
    obtain ⟨ih1, ih2⟩ := stringsOfLen_sound al hal k rest hr
    constructor
    · rw [String.length_append, String.length_singleton, ih1]; omega
    · rw [String.toList_append, String.toList_singleton, List.all_append, ih2]
      simp [hc]

theorem stringsOfLen_complete (al : List String) :
    ∀ (k : Nat) (s : String), s.length = k →
      (s.toList.all fun ch => al.contains (String.singleton ch)) = true → s ∈ stringsOfLen al k
  | 0, s, h, _ => by
    have : s.toList = [] := List.eq_nil_of_length_eq_zero (by rw [String.length_toList]; exact h)
    have : s = "" := String.ext (by rw [this]; rfl)
    subst this; simp [stringsOfLen]
  | k + 1, s, h, hall => by
    have hl : s.toList.length = k + 1 := by rw [String.length_toList]; exact h
    match hc : s.toList, hl with
    | c :: cs, hl' =>
      rw [hc, List.all_cons, Bool.and_eq_true] at hall
      have hs := str_cons s c cs hc
      simp only [stringsOfLen, List.mem_flatMap, List.mem_map]
      refine ⟨String.singleton c, by simpa using hall.1, String.ofList cs, ?_, hs.symm⟩
      apply stringsOfLen_complete al k
      · rw [← String.length_toList, String.toList_ofList]; simpa using hl'
      · rw [String.toList_ofList]; exact hall.2

/-! ### Depth and erasure of lists of values -/

theorem depthList_le (b : Nat) : ∀ (vs : List Val), Val.depthList vs ≤ b ↔ ∀ v ∈ vs, v.depth ≤ b
  | [] => by simp [Val.depthList]
  | v :: vs => by
    simp only [Val.depthList, List.mem_cons, forall_eq_or_imp, ← depthList_le b vs]
    omega

theorem eraseList_eq : ∀ (vs : List Val), Val.eraseList vs = vs ↔ ∀ v ∈ vs, v.erase = v
  | [] => by simp [Val.eraseList]
  | v :: vs => by
    simp only [Val.eraseList, List.cons.injEq, List.mem_cons, forall_eq_or_imp, ← eraseList_eq vs]

theorem All2.right {α β : Type} {P : α → β → Prop} {Q : β → Prop} (h : ∀ a b, P a b → Q b) :
    ∀ (as : List α) (bs : List β), All2 P as bs → ∀ b ∈ bs, Q b
  | [], [], _, b, hb => by cases hb
  | [], _ :: _, h', _, _ => h'.elim
  | _ :: _, [], h', _, _ => h'.elim
  | a :: as, b :: bs, h', x, hx => by
    rcases List.mem_cons.1 hx with rfl | hx
    · exact h a _ h'.1
    · exact All2.right h as bs h'.2 x hx

theorem wtTuple_of_all2 (g : Grammar) : ∀ (ts : List Ty) (vs : List Val),
    All2 (fun t v => wt g [] t v = true) ts vs → wtTuple g ts vs = true
  | [], [], _ => by rw [wtTuple]
  | [], _ :: _, h => h.elim
  | _ :: _, [], h => h.elim
  | _ :: ts, _ :: vs, h => by rw [wtTuple, h.1, wtTuple_of_all2 g ts vs h.2]; rfl

theorem wtFields_of_all2 (g : Grammar) : ∀ (fs : List (String × Ty)) (vs : List Val)
    (deps : List (String × Val)),
    All2 (fun t v => ∀ deps, wt g deps t v = true) (fs.map (·.2)) vs → wtFields g deps fs vs = true
  | [], [], _, _ => by rw [wtFields]
  | [], _ :: _, _, h => h.elim
  | _ :: _, [], _, h => h.elim
  | (n, t) :: fs, v :: vs, deps, h => by
    rw [wtFields, h.1 deps, wtFields_of_all2 g fs vs _ h.2]; rfl

theorem derivesList_of_all2 (g : Grammar) : ∀ (ts : List Ty) (vs : List Val),
    All2 (fun t v => Derives g.spec g.reg t v) ts vs → DerivesList g.spec g.reg ts vs
  | [], [], _ => .nil
  | [], _ :: _, h => h.elim
  | _ :: _, [], h => h.elim
  | _ :: ts, _ :: vs, h => .cons h.1 (derivesList_of_all2 g ts vs h.2)

theorem derivesList_replicate (g : Grammar) (t : Ty) : ∀ (vs : List Val),
    (∀ v ∈ vs, Derives g.spec g.reg t v) → DerivesList g.spec g.reg (List.replicate vs.length t) vs
  | [], _ => .nil
  | v :: vs, h => .cons (h v List.mem_cons_self)
      (derivesList_replicate g t vs fun x hx => h x (List.mem_cons_of_mem _ hx))

theorem altsAbstract_elim (g : Grammar) (h : altsAbstract g = true) (n : Nat) (ps : List Nat)
    (ha : g.altsOf n = some ps) : (g.spec.classes.getD n default).abstract = true := by
  have hm := WellTyped.getAlts_mem _ _ _ ha
  simp only [altsAbstract, List.all_eq_true] at h
  exact h _ hm

theorem tysWF_fields : ∀ (fs : List (String × Ty)) (earlier : List (String × Ty)),
    fieldsWF earlier fs = true → tysWF (fs.map (·.2)) = true
  | [], _, _ => by simp [tysWF]
  | (n, t) :: fs, earlier, h => by
    simp only [fieldsWF, Bool.and_eq_true] at h
    simp only [List.map_cons, tysWF, Bool.and_eq_true]
    exact ⟨h.1.1, tysWF_fields fs _ h.2⟩

theorem tysWF_cls : ∀ (ps : List Nat), tysWF (ps.map Ty.cls) = true
  | [] => by simp [tysWF]
  | p :: ps => by simp [tysWF, tyWF, tysWF_cls ps]

/-! ### Soundness of the enumerator -/

/-- what membership in `langTy g fuel budget ty` guarantees -/
def LangSpec (g : Grammar) (budget : Nat) (ty : Ty) (v : Val) : Prop :=
  (∀ deps, wt g deps ty v = true) ∧ v.depth ≤ budget ∧ v.erase = v ∧
  (altsAbstract g = true → Derives g.spec g.reg ty v)

def SoundP (g : Grammar) (fuel : Nat) : Prop :=
  (∀ budget ty v, tyWF ty = true → v ∈ langTy g fuel budget ty → LangSpec g budget ty v) ∧
  (∀ budget ts vs, tysWF ts = true → vs ∈ cartesian (langTys g fuel budget ts) →
    All2 (LangSpec g budget) ts vs) ∧
  (∀ budget ts v, tysWF ts = true → v ∈ (langTys g fuel budget ts).flatten →
    ∃ t ∈ ts, LangSpec g budget t v)

theorem sound_tys_cart (g : Grammar) (fuel : Nat) (ih : SoundP g fuel) :
    ∀ budget ts vs, tysWF ts = true → vs ∈ cartesian (langTys g (fuel + 1) budget ts) →
      All2 (LangSpec g budget) ts vs := by
  intro budget ts vs hts h
  cases ts with
  | nil =>
    simp only [langTys, cartesian, List.mem_singleton] at h
    subst h; trivial
  | cons t ts =>
    rw [tysWF, Bool.and_eq_true] at hts
    rw [langTys, mem_cartesian] at h
    cases vs with
    | nil => exact h.elim
    | cons x rest =>
      exact ⟨ih.1 budget t x hts.1 h.1, ih.2.1 budget ts rest hts.2 ((mem_cartesian _ _).2 h.2)⟩

theorem sound_tys_flat (g : Grammar) (fuel : Nat) (ih : SoundP g fuel) :
    ∀ budget ts v, tysWF ts = true → v ∈ (langTys g (fuel + 1) budget ts).flatten →
      ∃ t ∈ ts, LangSpec g budget t v := by
  intro budget ts v hts h
  cases ts with
  | nil => simp [langTys] at h
  | cons t ts =>
    rw [tysWF, Bool.and_eq_true] at hts
    rw [langTys, List.flatten_cons, List.mem_append] at h
    rcases h with h | h
    · exact ⟨t, List.mem_cons_self, ih.1 budget t v hts.1 h⟩
    · obtain ⟨t', ht', hv⟩ := ih.2.2 budget ts v hts.2 h
      exact ⟨t', List.mem_cons_of_mem _ ht', hv⟩

theorem soundP_zero (g : Grammar) : SoundP g 0 := by
  refine ⟨?_, ?_, ?_⟩
  · intro budget ty v _ h; simp [langTy] at h
  · intro budget ts vs _ h
    cases ts with
    | nil => simp only [langTys, cartesian, List.mem_singleton] at h; subst h; trivial
    | cons t ts => simp [langTys, cartesian] at h
  · intro budget ts v _ h
    cases ts <;> simp [langTys] at h

theorem wtUnion_of_spec (g : Grammar) (budget : Nat) (ts : List Ty) (t : Ty) (v : Val)
    (ht : t ∈ ts) (h : LangSpec g budget t v) : LangSpec g budget (.union ts) v :=
  ⟨fun deps => by rw [wt]; exact wtUnion_of_mem g deps v t ts ht (h.1 deps), h.2.1, h.2.2.1,
   fun ha => .union ht (h.2.2.2 ha)⟩

theorem sound_ty (g : Grammar) (hwf : GWF g) (fuel : Nat) (ih : SoundP g fuel) :
    ∀ budget ty v, tyWF ty = true → v ∈ langTy g (fuel + 1) budget ty → LangSpec g budget ty v := by
  intro budget ty v hty h
  cases ty with
  | int => simp [langTy] at h
  | float => simp [langTy] at h
  | list t => simp [langTy] at h
  | bool =>
    simp only [langTy, List.mem_cons, List.not_mem_nil, or_false] at h
    rcases h with rfl | rfl <;>
      exact ⟨fun _ => by simp [wt], by simp [Val.depth], by simp [Val.erase], fun _ => .bool _⟩
  | str =>
    simp only [langTy, List.mem_singleton] at h
    subst h
    exact ⟨fun _ => by simp [wt], by simp [Val.depth], by simp [Val.erase], fun _ => .str _⟩
  | tuple ts =>
    simp only [langTy, List.mem_map] at h
    obtain ⟨vs, hvs, rfl⟩ := h
    rw [tyWF] at hty
    have hall := ih.2.1 budget ts vs hty hvs
    refine ⟨fun _ => ?_, ?_, ?_, fun ha => ?_⟩
    · rw [wt]
      exact wtTuple_of_all2 g ts vs (All2.imp (fun t v h => h.1 []) ts vs hall)
    · rw [Val.depth, depthList_le]
      exact All2.right (fun t v (h : LangSpec g budget t v) => h.2.1) ts vs hall
    · rw [Val.erase, (eraseList_eq vs).2]
      exact All2.right (fun t v (h : LangSpec g budget t v) => h.2.2.1) ts vs hall
    · exact .tuple (derivesList_of_all2 g ts vs (All2.imp (fun t v h => h.2.2.2 ha) ts vs hall))
  | union ts =>
    simp only [langTy, mem_dedupVals] at h
    rw [tyWF] at hty
    obtain ⟨t, ht, hv⟩ := ih.2.2 budget ts v hty h
    exact wtUnion_of_spec g budget ts t v ht hv
  | cls n =>
    simp only [langTy] at h
    split at h
    · simp at h
    rename_i hreg
    simp only [Bool.not_eq_true, Bool.not_eq_false'] at hreg
    split at h
    · rename_i prods ha
      rw [mem_dedupVals] at h
      obtain ⟨t, ht, hv⟩ := ih.2.2 budget _ v (tysWF_cls prods) h
      obtain ⟨p, hp, rfl⟩ := List.mem_map.1 ht
      refine ⟨fun deps => wt_cls_step g hwf [] deps n p prods v ha hp (hv.1 []), hv.2.1, hv.2.2.1,
        fun habs => .abs (altsAbstract_elim g habs n prods ha) ha hp (hv.2.2.2 habs)⟩
    · rename_i ha
      split at h
      · simp at h
      rename_i b
      simp only [List.mem_map] at h
      obtain ⟨args, hargs, rfl⟩ := h
      have hall := ih.2.1 b _ args (tysWF_fields _ _ (hwf.fields n)) hargs
      have hconc := hwf.concrete n hreg ha
      refine ⟨fun deps => ?_, ?_, ?_, fun habs => ?_⟩
      · rw [wt]
        simp only [Bool.and_eq_true, Bool.not_eq_true']
        refine ⟨⟨⟨hconc, hreg⟩, isProdOf_self g _ n⟩, ?_⟩
        exact wtFields_of_all2 g _ args [] (All2.imp (fun t v h => h.1) _ args hall)
      · rw [Val.depth]
        have : Val.depthList args ≤ b := (depthList_le b args).2
          (All2.right (fun t v (h : LangSpec g b t v) => h.2.1) _ args hall)
        omega
      · rw [Val.erase, (eraseList_eq args).2]
        exact All2.right (fun t v (h : LangSpec g b t v) => h.2.2.1) _ args hall
      · exact .node hconc (derivesList_of_all2 g _ args (All2.imp (fun t v h => h.2.2.2 habs) _ args hall))
  | ann base mh =>
    rw [tyWF, Bool.and_eq_true] at hty
    simp only [langTy] at h
    split at h
    · -- intRange
      rename_i lo hi
      simp only [List.mem_map, mem_intsFromTo] at h
      obtain ⟨i, hi', rfl⟩ := h
      refine ⟨fun _ => ?_, by simp [Val.depth], by simp [Val.erase], fun _ => .ann (.int i)⟩
      simp only [wt, sat, Bool.true_and, decide_eq_true_eq]; omega
    · -- intList
      rename_i xs
      simp only [mem_dedupVals, List.mem_map] at h
      obtain ⟨i, hi', rfl⟩ := h
      refine ⟨fun _ => ?_, by simp [Val.depth], by simp [Val.erase], fun _ => .ann (.int i)⟩
      simp only [wt, sat, Bool.true_and]; simpa using hi'
    · -- varRange
      rename_i opts
      simp only [mem_dedupVals, List.mem_map] at h
      obtain ⟨x, hx, rfl⟩ := h
      refine ⟨fun _ => ?_, by simp [Val.depth], by simp [Val.erase], fun _ => .ann (.str x)⟩
      simp only [wt, sat, Bool.true_and]; simpa using hx
    · -- strSize
      rename_i lo hi al
      simp only [mem_dedupVals, List.mem_map, List.mem_flatMap, mem_rangeFromTo] at h
      obtain ⟨x, ⟨k, hk, hx⟩, rfl⟩ := h
      have hal : ∀ c ∈ al, c.length = 1 := by
        have := hty.1
        simp only [annOK, List.all_eq_true, beq_iff_eq] at this
        exact this
      obtain ⟨h1, h2⟩ := stringsOfLen_sound al hal k x hx
      refine ⟨fun _ => ?_, by simp [Val.depth], by simp [Val.erase], fun _ => .ann (.str x)⟩
      simp only [wt, sat, Bool.true_and, Bool.and_eq_true, decide_eq_true_eq]
      exact ⟨by omega, h2⟩
    · -- interval
      rename_i mn mx top
      simp only [List.mem_flatMap, List.mem_map, mem_intsFromTo] at h
      obtain ⟨len, hlen, start, hstart, rfl⟩ := h
      refine ⟨fun _ => ?_, by simp [Val.depth, Val.depthList], by simp [Val.erase, Val.eraseList],
        fun _ => .ann (.tuple (.cons (.int _) (.cons (.int _) .nil)))⟩
      simp only [wt, wtTuple, sat, Bool.and_true, Bool.true_and, decide_eq_true_eq]
      omega
    · -- listSize
      rename_i lo hi t
      simp only [List.mem_flatMap, List.mem_map, mem_rangeFromTo, mem_listsOfLen] at h
      obtain ⟨k, hk, vs, ⟨hlen, hvs⟩, rfl⟩ := h
      rw [tyWF] at hty
      have hel : ∀ x ∈ vs, LangSpec g budget t x := fun x hx => ih.1 budget t x hty.2 (hvs x hx)
      refine ⟨fun _ => ?_, ?_, ?_, fun ha => ?_⟩
      · simp only [wt, sat, Bool.and_eq_true, decide_eq_true_eq]
        exact ⟨wtAll_of_forall g t vs fun x hx => (hel x hx).1 [], by omega⟩
      · rw [Val.depth, depthList_le]; exact fun x hx => (hel x hx).2.1
      · rw [Val.erase, (eraseList_eq vs).2]; exact fun x hx => (hel x hx).2.2.1
      · exact .ann (.list (derivesList_replicate g t vs fun x hx => (hel x hx).2.2.2 ha))
    · simp at h

theorem soundP_all (g : Grammar) (hwf : GWF g) : ∀ fuel, SoundP g fuel
  | 0 => soundP_zero g
  | fuel + 1 =>
    have ih := soundP_all g hwf fuel
    ⟨sound_ty g hwf fuel ih, sound_tys_cart g fuel ih, sound_tys_flat g fuel ih⟩

/-! ### Monotonicity in the fuel -/

def MonoP (g : Grammar) (fuel : Nat) : Prop :=
  (∀ budget ty v, v ∈ langTy g fuel budget ty → v ∈ langTy g (fuel + 1) budget ty) ∧
  (∀ budget ts vs, vs ∈ cartesian (langTys g fuel budget ts) →
    vs ∈ cartesian (langTys g (fuel + 1) budget ts)) ∧
  (∀ budget ts v, v ∈ (langTys g fuel budget ts).flatten →
    v ∈ (langTys g (fuel + 1) budget ts).flatten)

theorem monoP_zero (g : Grammar) : MonoP g 0 := by
  refine ⟨?_, ?_, ?_⟩
  · intro budget ty v h; simp [langTy] at h
  · intro budget ts vs h
    cases ts with
    | nil => simpa [langTys] using h
    | cons t ts => simp [langTys, cartesian] at h
  · intro budget ts v h
    cases ts <;> simp [langTys] at h

theorem mono_ty (g : Grammar) (fuel : Nat) (ih : MonoP g fuel) :
    ∀ budget ty v, v ∈ langTy g (fuel + 1) budget ty → v ∈ langTy g (fuel + 2) budget ty := by
  intro budget ty v h
  cases ty with
  | int => simp [langTy] at h
  | float => simp [langTy] at h
  | list t => simp [langTy] at h
  | bool => simpa [langTy] using h
  | str => simpa [langTy] using h
  | tuple ts =>
    simp only [langTy, List.mem_map] at h ⊢
    obtain ⟨vs, hvs, rfl⟩ := h
    exact ⟨vs, ih.2.1 budget ts vs hvs, rfl⟩
  | union ts =>
    simp only [langTy, mem_dedupVals] at h ⊢
    exact ih.2.2 budget ts v h
  | cls n =>
    simp only [langTy] at h ⊢
    split at h
    · simp at h
    rename_i hreg
    rw [if_neg hreg]
    split at h
    · rw [mem_dedupVals] at h ⊢
      exact ih.2.2 budget _ v h
    · split at h
      · simp at h
      simp only [List.mem_map] at h ⊢
      obtain ⟨args, hargs, rfl⟩ := h
      exact ⟨args, ih.2.1 _ _ args hargs, rfl⟩
  | ann base mh =>
    simp only [langTy] at h ⊢
    split at h
    · exact h
    · exact h
    · exact h
    · exact h
    · exact h
    · rename_i lo hi t
      simp only [List.mem_flatMap, List.mem_map, mem_listsOfLen] at h ⊢
      obtain ⟨k, hk, vs, ⟨hlen, hvs⟩, rfl⟩ := h
      exact ⟨k, hk, vs, ⟨hlen, fun x hx => ih.1 budget t x (hvs x hx)⟩, rfl⟩
    · simp at h

theorem monoP_all (g : Grammar) : ∀ fuel, MonoP g fuel
  | 0 => monoP_zero g
  | fuel + 1 => by
    have ih := monoP_all g fuel
    refine ⟨mono_ty g fuel ih, ?_, ?_⟩
    · intro budget ts vs h
      cases ts with
      | nil => simpa [langTys] using h
      | cons t ts =>
        rw [langTys, mem_cartesian] at h ⊢
        cases vs with
        | nil => exact h.elim
        | cons x rest =>
          exact ⟨ih.1 budget t x h.1,
            (mem_cartesian _ _).1 (ih.2.1 budget ts rest ((mem_cartesian _ _).2 h.2))⟩
    · intro budget ts v h
      cases ts with
      | nil => simp [langTys] at h
      | cons t ts =>
        rw [langTys, List.flatten_cons, List.mem_append] at h ⊢
        rcases h with h | h
        · exact Or.inl (ih.1 budget t v h)
        · exact Or.inr (ih.2.2 budget ts v h)

theorem langTy_mono_le (g : Grammar) (budget : Nat) (ty : Ty) (v : Val) :
    ∀ (a b : Nat), a ≤ b → v ∈ langTy g a budget ty → v ∈ langTy g b budget ty := by
  intro a b hab h
  induction hab with
  | refl => exact h
  | step _ ih => exact (monoP_all g _).1 budget ty v ih

/-! ### Completeness of the enumerator -/

mutual
/-- finite-choice types for which `wt` and the enumerator agree: `finiteChoiceTy` without the
plain `str` (every string is a well-typed plain `str`, but creation only ever builds `""`) -/
def fcTy : Ty → Bool
  | .bool => true
  | .cls _ => true
  | .tuple ts => fcTys ts
  | .union ts => fcTys ts
  | .ann base mh =>
    match mh, base with
    | .intRange _ _, .int => true
    | .intList _, .int => true
    | .varRange _, .str => true
    | .strSize _ _ _, .str => true
    | .interval _ _ _, .tuple [.int, .int] => true
    | .listSize _ _, .list t => fcTy t
    | _, _ => false
  | _ => false
def fcTys : List Ty → Bool
  | [] => true
  | t :: ts => fcTy t && fcTys ts
end

/-- every field of every declared class is of a finite-choice type -/
def fcGrammar (g : Grammar) : Bool :=
  g.spec.classes.all fun c => c.fields.all fun f => fcTy f.2

mutual
/-- the enumeration of `ty` at this fuel and budget never runs out of fuel -/
def fuelOK (g : Grammar) : Nat → Nat → Ty → Bool
  | 0, _, _ => false
  | fuel + 1, budget, ty =>
    match ty with
    | .tuple ts => fuelOKs g fuel budget ts
    | .union ts => fuelOKs g fuel budget ts
    | .ann (.list t) (.listSize _ _) => fuelOK g fuel budget t
    | .cls n =>
      if !(g.reg.allNodes.contains (.cls n)) then true else
      match g.altsOf n with
      | some prods => fuelOKs g fuel budget (prods.map Ty.cls)
      | none =>
        match budget with
        | 0 => true
        | b + 1 => fuelOKs g fuel b ((g.cls n).fields.map (·.2))
    | _ => true
def fuelOKs (g : Grammar) : Nat → Nat → List Ty → Bool
  | _, _, [] => true
  | 0, _, _ :: _ => false
  | fuel + 1, budget, t :: ts => fuelOK g fuel budget t && fuelOKs g fuel budget ts
end

theorem fcTys_mem : ∀ (ts : List Ty) (t : Ty), t ∈ ts → fcTys ts = true → fcTy t = true
  | [], _, h, _ => by cases h
  | t' :: ts, t, h, hw => by
    rw [fcTys, Bool.and_eq_true] at hw
    rcases List.mem_cons.1 h with rfl | h
    · exact hw.1
    · exact fcTys_mem ts t h hw.2

theorem fcTys_cls : ∀ (ps : List Nat), fcTys (ps.map Ty.cls) = true
  | [] => by simp [fcTys]
  | p :: ps => by simp [fcTys, fcTy, fcTys_cls ps]

theorem fcTys_fields (fs : List (String × Ty)) (h : (fs.all fun f => fcTy f.2) = true) :
    fcTys (fs.map (·.2)) = true := by
  induction fs with
  | nil => simp [fcTys]
  | cons f fs ih =>
    simp only [List.all_cons, Bool.and_eq_true] at h
    simp only [List.map_cons, fcTys, Bool.and_eq_true]
    exact ⟨h.1, ih h.2⟩

theorem fcGrammar_fields (g : Grammar) (h : fcGrammar g = true) (n : Nat) :
    fcTys ((g.cls n).fields.map (·.2)) = true := by
  apply fcTys_fields
  unfold Grammar.cls
  rw [List.getD_eq_getElem?_getD]
  cases hc : g.spec.classes[n]? with
  | none => rfl
  | some d =>
    simp only [fcGrammar, List.all_eq_true] at h
    simpa using h d (List.mem_of_getElem? hc)

theorem wtUnion_elim (g : Grammar) (deps : List (String × Val)) (v : Val) :
    ∀ (ts : List Ty), wtUnion g deps ts v = true → ∃ t ∈ ts, wt g deps t v = true
  | [], h => by simp [wtUnion] at h
  | t :: ts, h => by
    rw [wtUnion, Bool.or_eq_true] at h
    rcases h with h | h
    · exact ⟨t, List.mem_cons_self, h⟩
    · obtain ⟨t', ht', h'⟩ := wtUnion_elim g deps v ts h
      exact ⟨t', List.mem_cons_of_mem _ ht', h'⟩

theorem all2_of_wtTuple (g : Grammar) : ∀ (ts : List Ty) (vs : List Val),
    wtTuple g ts vs = true → All2 (fun t v => ∃ deps, wt g deps t v = true) ts vs
  | [], [], _ => trivial
  | [], _ :: _, h => by simp [wtTuple] at h
  | _ :: _, [], h => by simp [wtTuple] at h
  | t :: ts, v :: vs, h => by
    rw [wtTuple, Bool.and_eq_true] at h
    exact ⟨⟨[], h.1⟩, all2_of_wtTuple g ts vs h.2⟩

theorem all2_of_wtFields (g : Grammar) : ∀ (fs : List (String × Ty)) (vs : List Val)
    (deps : List (String × Val)), wtFields g deps fs vs = true →
      All2 (fun t v => ∃ deps, wt g deps t v = true) (fs.map (·.2)) vs
  | [], [], _, _ => trivial
  | [], _ :: _, _, h => by simp [wtFields] at h
  | _ :: _, [], _, h => by simp [wtFields] at h
  | (n, t) :: fs, v :: vs, deps, h => by
    rw [wtFields, Bool.and_eq_true] at h
    exact ⟨⟨deps, h.1⟩, all2_of_wtFields g fs vs _ h.2⟩

theorem forall_of_wtAll (g : Grammar) (t : Ty) : ∀ (vs : List Val), wtAll g t vs = true →
    ∀ v ∈ vs, wt g [] t v = true
  | [], _, v, hv => by cases hv
  | x :: xs, h, v, hv => by
    rw [wtAll, Bool.and_eq_true] at h
    rcases List.mem_cons.1 hv with rfl | hv
    · exact h.1
    · exact forall_of_wtAll g t xs h.2 v hv

theorem wt_intpair (g : Grammar) (deps : List (String × Val)) (v : Val)
    (h : wt g deps (.tuple [.int, .int]) v = true) : ∃ a b, v = .tuple [.int a, .int b] := by
  cases v <;> try (simp [wt] at h; done)
  rename_i vs
  rw [wt] at h
  match vs, h with
  | [], h => simp [wtTuple] at h
  | [_], h => simp [wtTuple] at h
  | _ :: _ :: _ :: _, h => simp [wtTuple] at h
  | [x, y], h =>
    simp only [wtTuple, Bool.and_eq_true] at h
    obtain ⟨hx, hy, _⟩ := h
    cases x <;> try (simp [wt] at hx; done)
    cases y <;> try (simp [wt] at hy; done)
    exact ⟨_, _, rfl⟩

/-- the hypotheses on the analysed grammar shared by the completeness results -/
structure GOK (g : Grammar) : Prop where
  wf : GWF g
  abs : altsAbstract g = true
  closed : ClosedNodes g.spec g.reg
  fc : fcGrammar g = true

theorem GOK.prods_reg {g : Grammar} (h : GOK g) (n : Nat) (prods : List Nat)
    (hn : Sym.cls n ∈ g.reg.allNodes) (ha : g.altsOf n = some prods) :
    ∀ s ∈ explodeList (prods.map Ty.cls), s ∈ g.reg.allNodes := by
  intro s hs
  obtain ⟨t, ht, hs⟩ := mem_explodeList.1 hs
  obtain ⟨p, hp, rfl⟩ := List.mem_map.1 ht
  simp only [explode, List.mem_singleton] at hs
  subst hs
  apply h.closed _ hn
  have ha' : getAlts g.reg.alts n = some prods := ha
  rw [succs_abstract (altsAbstract_elim g h.abs n prods ha), ha']
  exact List.mem_map.2 ⟨p, hp, rfl⟩

theorem GOK.fields_reg {g : Grammar} (h : GOK g) (n : Nat)
    (hn : Sym.cls n ∈ g.reg.allNodes) (ha : g.altsOf n = none) :
    ∀ s ∈ explodeList ((g.cls n).fields.map (·.2)), s ∈ g.reg.allNodes := by
  intro s hs
  apply h.closed _ hn
  have hc := h.wf.concrete n (by simpa using hn) ha
  rw [succs_concrete hc]
  exact hs

theorem eraseList_eq_map : ∀ (vs : List Val), Val.eraseList vs = vs.map Val.erase
  | [] => rfl
  | v :: vs => by rw [Val.eraseList, eraseList_eq_map vs]; rfl

def CompleteP (g : Grammar) (fuel : Nat) : Prop :=
  (∀ budget ty deps v, fuelOK g fuel budget ty = true → fcTy ty = true →
    (∀ s ∈ explode ty, s ∈ g.reg.allNodes) → wt g deps ty v = true → v.depth ≤ budget →
    v.erase ∈ langTy g fuel budget ty) ∧
  (∀ budget ts vs, fuelOKs g fuel budget ts = true → fcTys ts = true →
    (∀ s ∈ explodeList ts, s ∈ g.reg.allNodes) →
    All2 (fun t v => ∃ deps, wt g deps t v = true) ts vs → Val.depthList vs ≤ budget →
    Val.eraseList vs ∈ cartesian (langTys g fuel budget ts)) ∧
  (∀ budget ts t deps v, fuelOKs g fuel budget ts = true → fcTys ts = true →
    (∀ s ∈ explodeList ts, s ∈ g.reg.allNodes) → t ∈ ts → wt g deps t v = true →
    v.depth ≤ budget → v.erase ∈ (langTys g fuel budget ts).flatten)

theorem completeP_zero (g : Grammar) : CompleteP g 0 := by
  refine ⟨?_, ?_, ?_⟩
  · intro budget ty deps v h; simp [fuelOK] at h
  · intro budget ts vs h _ _ hall _
    cases ts with
    | nil =>
      cases vs with
      | nil => simp [langTys, cartesian, Val.eraseList]
      | cons _ _ => exact hall.elim
    | cons t ts => simp [fuelOKs] at h
  · intro budget ts t deps v h _ _ ht
    cases ts with
    | nil => cases ht
    | cons t ts => simp [fuelOKs] at h

theorem complete_tys_cart (g : Grammar) (fuel : Nat) (ih : CompleteP g fuel) :
    ∀ budget ts vs, fuelOKs g (fuel + 1) budget ts = true → fcTys ts = true →
    (∀ s ∈ explodeList ts, s ∈ g.reg.allNodes) →
    All2 (fun t v => ∃ deps, wt g deps t v = true) ts vs → Val.depthList vs ≤ budget →
    Val.eraseList vs ∈ cartesian (langTys g (fuel + 1) budget ts) := by
  intro budget ts vs hok hfc hreg hall hd
  cases ts with
  | nil =>
    cases vs with
    | nil => simp [langTys, cartesian, Val.eraseList]
    | cons _ _ => exact hall.elim
  | cons t ts =>
    cases vs with
    | nil => exact hall.elim
    | cons x rest =>
      rw [fuelOKs, Bool.and_eq_true] at hok
      rw [fcTys, Bool.and_eq_true] at hfc
      rw [Val.depthList] at hd
      obtain ⟨deps, hx⟩ := hall.1
      rw [langTys, Val.eraseList, mem_cartesian]
      refine ⟨ih.1 budget t deps x hok.1 hfc.1
          (fun s hs => hreg s (by simp [explodeList, hs])) hx (by omega), ?_⟩
      exact (mem_cartesian _ _).1 (ih.2.1 budget ts rest hok.2 hfc.2
        (fun s hs => hreg s (by simp [explodeList, hs])) hall.2 (by omega))

theorem complete_tys_flat (g : Grammar) (fuel : Nat) (ih : CompleteP g fuel) :
    ∀ budget ts t deps v, fuelOKs g (fuel + 1) budget ts = true → fcTys ts = true →
    (∀ s ∈ explodeList ts, s ∈ g.reg.allNodes) → t ∈ ts → wt g deps t v = true →
    v.depth ≤ budget → v.erase ∈ (langTys g (fuel + 1) budget ts).flatten := by
  intro budget ts t deps v hok hfc hreg ht hw hd
  cases ts with
  | nil => cases ht
  | cons t' ts =>
    rw [fuelOKs, Bool.and_eq_true] at hok
    rw [fcTys, Bool.and_eq_true] at hfc
    rw [langTys, List.flatten_cons, List.mem_append]
    rcases List.mem_cons.1 ht with rfl | ht
    · exact Or.inl (ih.1 budget t deps v hok.1 hfc.1
        (fun s hs => hreg s (by simp [explodeList, hs])) hw hd)
    · exact Or.inr (ih.2.2 budget ts t deps v hok.2 hfc.2
        (fun s hs => hreg s (by simp [explodeList, hs])) ht hw hd)

theorem complete_ty (g : Grammar) (hg : GOK g) (fuel : Nat) (ih : CompleteP g fuel) :
    ∀ budget ty deps v, fuelOK g (fuel + 1) budget ty = true → fcTy ty = true →
    (∀ s ∈ explode ty, s ∈ g.reg.allNodes) → wt g deps ty v = true → v.depth ≤ budget →
    v.erase ∈ langTy g (fuel + 1) budget ty := by
  intro budget ty deps v hok hfc hreg hw hd
  cases ty with
  | int => simp [fcTy] at hfc
  | float => simp [fcTy] at hfc
  | str => simp [fcTy] at hfc
  | list t => simp [fcTy] at hfc
  | bool =>
    cases v <;> simp [wt] at hw
    rename_i b
    cases b <;> simp [langTy, Val.erase]
  | tuple ts =>
    cases v <;> try (simp [wt] at hw; done)
    rename_i vs
    rw [wt] at hw
    rw [fuelOK] at hok
    rw [fcTy] at hfc
    rw [Val.depth] at hd
    simp only [langTy, List.mem_map, Val.erase]
    exact ⟨_, ih.2.1 budget ts vs hok hfc (by simpa [explode] using hreg)
      (all2_of_wtTuple g ts vs hw) hd, rfl⟩
  | union ts =>
    rw [wt] at hw
    obtain ⟨t, ht, hwt⟩ := wtUnion_elim g deps v ts hw
    rw [fuelOK] at hok
    rw [fcTy] at hfc
    simp only [langTy, mem_dedupVals]
    exact ih.2.2 budget ts t deps v hok hfc (by simpa [explode] using hreg) ht hwt hd
  | cls n =>
    cases v <;> try (simp [wt] at hw; done)
    rename_i c d e args
    rw [wt] at hw
    simp only [Bool.and_eq_true, Bool.not_eq_true'] at hw
    obtain ⟨⟨⟨hconc, hcreg⟩, hprod⟩, hfields⟩ := hw
    have hn : Sym.cls n ∈ g.reg.allNodes := hreg _ (by simp [explode])
    have hnc : g.reg.allNodes.contains (Sym.cls n) = true := by simpa using hn
    simp only [fuelOK, hnc, Bool.not_true, Bool.false_eq_true, if_false] at hok
    simp only [langTy, hnc, Bool.not_true, Bool.false_eq_true, if_false]
    rw [isProdOf, Bool.or_eq_true] at hprod
    cases ha : g.altsOf n with
    | some prods =>
      rw [ha] at hok hprod
      simp only
      rw [mem_dedupVals]
      rcases hprod with hnc' | hany
      · have : n = c := by simpa using hnc'
        subst this
        have := altsAbstract_elim g hg.abs n prods ha
        have hconc' : (g.spec.classes.getD n default).abstract = false := hconc
        rw [hconc'] at this; cases this
      · obtain ⟨p, hp, hpc⟩ := List.any_eq_true.1 hany
        have hwp : wt g deps (.cls p) (.node c d e args) = true := by
          rw [wt]
          simp only [Bool.and_eq_true, Bool.not_eq_true']
          exact ⟨⟨⟨hconc, hcreg⟩, isProdOf_mono g _ p c hpc⟩, hfields⟩
        exact ih.2.2 budget _ (.cls p) deps _ hok (fcTys_cls prods) (hg.prods_reg n prods hn ha)
          (List.mem_map.2 ⟨p, hp, rfl⟩) hwp hd
    | none =>
      rw [ha] at hok hprod
      simp only
      have : n = c := by
        rcases hprod with h | h
        · simpa using h
        · simp at h
      subst this
      rw [Val.depth] at hd
      cases budget with
      | zero => omega
      | succ b =>
        simp only at hok ⊢
        simp only [List.mem_map, Val.erase]
        exact ⟨_, ih.2.1 b _ args hok (fcGrammar_fields g hg.fc n) (hg.fields_reg n hn ha)
          (all2_of_wtFields g _ args [] hfields) (by omega), rfl⟩
  | ann base mh =>
    rw [wt, Bool.and_eq_true] at hw
    obtain ⟨hwb, hs⟩ := hw
    unfold fcTy at hfc
    split at hfc
    · -- intRange
      rename_i lo hi
      cases v <;> simp [wt] at hwb
      rename_i i
      simp only [sat, decide_eq_true_eq] at hs
      simp only [langTy, List.mem_map, mem_intsFromTo, Val.erase]
      exact ⟨i, by omega, rfl⟩
    · -- intList
      rename_i xs
      cases v <;> simp [wt] at hwb
      rename_i i
      simp only [sat] at hs
      simp only [langTy, mem_dedupVals, List.mem_map, Val.erase]
      exact ⟨i, by simpa using hs, rfl⟩
    · -- varRange
      rename_i opts
      cases v <;> simp [wt] at hwb
      rename_i x
      simp only [sat] at hs
      simp only [langTy, mem_dedupVals, List.mem_map, Val.erase]
      exact ⟨x, by simpa using hs, rfl⟩
    · -- strSize
      rename_i lo hi al
      cases v <;> simp [wt] at hwb
      rename_i x
      simp only [sat, Bool.and_eq_true, decide_eq_true_eq] at hs
      simp only [langTy, mem_dedupVals, List.mem_map, List.mem_flatMap, mem_rangeFromTo, Val.erase]
      exact ⟨x, ⟨x.length, hs.1, stringsOfLen_complete al _ x rfl hs.2⟩, rfl⟩
    · -- interval
      rename_i mn mx top
      obtain ⟨a, b, rfl⟩ := wt_intpair g deps v hwb
      simp only [sat, decide_eq_true_eq] at hs
      simp only [langTy, List.mem_flatMap, List.mem_map, mem_intsFromTo, Val.erase, Val.eraseList]
      refine ⟨b - a, by omega, a, by omega, ?_⟩
      have : a + (b - a) = b := by omega
      rw [this]
    · -- listSize
      rename_i lo hi t
      cases v <;> try (simp [wt] at hwb; done)
      rename_i d e vs
      rw [wt] at hwb
      simp only [sat, decide_eq_true_eq] at hs
      simp only [fuelOK] at hok
      rw [Val.depth] at hd
      simp only [langTy, List.mem_flatMap, List.mem_map, mem_rangeFromTo, mem_listsOfLen, Val.erase]
      refine ⟨vs.length, hs, _, ⟨by rw [eraseList_eq_map, List.length_map], fun y hy => ?_⟩, rfl⟩
      rw [eraseList_eq_map, List.mem_map] at hy
      obtain ⟨x, hx, rfl⟩ := hy
      exact ih.1 budget t [] x hok hfc (by simpa [explode] using hreg)
        (forall_of_wtAll g t vs hwb x hx) ((depthList_le budget vs).1 hd x hx)
    · cases hfc

theorem completeP_all (g : Grammar) (hg : GOK g) : ∀ fuel, CompleteP g fuel
  | 0 => completeP_zero g
  | fuel + 1 =>
    have ih := completeP_all g hg fuel
    ⟨complete_ty g hg fuel ih, complete_tys_cart g fuel ih, complete_tys_flat g fuel ih⟩

mutual
theorem depth_erase : ∀ (v : Val), v.erase.depth = v.depth
  | .int _ | .float | .str _ | .bool _ | .foreign _ => by simp [Val.erase]
  | .node c d e args => by rw [Val.erase, Val.depth, Val.depth, depthList_erase args]
  | .list d e vs => by rw [Val.erase, Val.depth, Val.depth, depthList_erase vs]
  | .tuple vs => by rw [Val.erase, Val.depth, Val.depth, depthList_erase vs]
theorem depthList_erase : ∀ (vs : List Val), Val.depthList (Val.eraseList vs) = Val.depthList vs
  | [] => by rw [Val.eraseList]
  | v :: vs => by rw [Val.eraseList, Val.depthList, Val.depthList, depth_erase v, depthList_erase vs]
end

mutual
theorem noEmpty_erase : ∀ (v : Val), NoEmptyList v.erase = NoEmptyList v
  | .int _ | .float | .str _ | .bool _ | .foreign _ => by simp [Val.erase]
  | .node c d e args => by rw [Val.erase, NoEmptyList, NoEmptyList, noEmptys_erase args]
  | .list d e vs => by
    rw [Val.erase, NoEmptyList, NoEmptyList, noEmptys_erase vs]
    cases vs <;> simp [Val.eraseList]
  | .tuple vs => by rw [Val.erase, NoEmptyList, NoEmptyList, noEmptys_erase vs]
theorem noEmptys_erase : ∀ (vs : List Val), NoEmptyLists (Val.eraseList vs) = NoEmptyLists vs
  | [] => by rw [Val.eraseList]
  | v :: vs => by rw [Val.eraseList, NoEmptyLists, NoEmptyLists, noEmpty_erase v, noEmptys_erase vs]
end

/-! ### Enough fuel exists -/

def OKMonoP (g : Grammar) (fuel : Nat) : Prop :=
  (∀ budget ty, fuelOK g fuel budget ty = true → fuelOK g (fuel + 1) budget ty = true) ∧
  (∀ budget ts, fuelOKs g fuel budget ts = true → fuelOKs g (fuel + 1) budget ts = true)

theorem okMono_tys (g : Grammar) (fuel : Nat) (ih : OKMonoP g fuel) :
    ∀ budget ts, fuelOKs g (fuel + 1) budget ts = true → fuelOKs g (fuel + 2) budget ts = true := by
  intro budget ts h
  cases ts with
  | nil => simp [fuelOKs]
  | cons t ts =>
    rw [fuelOKs, Bool.and_eq_true] at h ⊢
    exact ⟨ih.1 budget t h.1, ih.2 budget ts h.2⟩

theorem okMonoP_all (g : Grammar) : ∀ fuel, OKMonoP g fuel
  | 0 => by
    refine ⟨fun budget ty h => by simp [fuelOK] at h, fun budget ts h => ?_⟩
    cases ts with
    | nil => simp [fuelOKs]
    | cons t ts => simp [fuelOKs] at h
  | fuel + 1 => by
    have ih := okMonoP_all g fuel
    refine ⟨?_, okMono_tys g fuel ih⟩
    intro budget ty h
    cases ty with
    | int | float | str | bool | list _ => simp [fuelOK]
    | tuple ts => simp only [fuelOK] at h ⊢; exact ih.2 budget ts h
    | union ts => simp only [fuelOK] at h ⊢; exact ih.2 budget ts h
    | cls n =>
      simp only [fuelOK] at h ⊢
      split
      · rfl
      · rename_i hreg
        rw [if_neg hreg] at h
        split
        · rename_i prods ha
          rw [ha] at h
          exact ih.2 budget _ h
        · rename_i ha
          rw [ha] at h
          split
          · rfl
          · exact ih.2 _ _ h
    | ann base mh =>
      cases base <;> cases mh <;> simp only [fuelOK] at h ⊢
      exact ih.1 budget _ h

theorem fuelOK_mono_le (g : Grammar) (budget : Nat) (ty : Ty) :
    ∀ (a b : Nat), a ≤ b → fuelOK g a budget ty = true → fuelOK g b budget ty = true := by
  intro a b hab h
  induction hab with
  | refl => exact h
  | step _ ih => exact (okMonoP_all g _).1 budget ty ih

theorem fuelOKs_mono_le (g : Grammar) (budget : Nat) (ts : List Ty) :
    ∀ (a b : Nat), a ≤ b → fuelOKs g a budget ts = true → fuelOKs g b budget ts = true := by
  intro a b hab h
  induction hab with
  | refl => exact h
  | step _ ih => exact (okMonoP_all g _).2 budget ts ih

theorem exists_tys_of_forall (g : Grammar) (budget : Nat) : ∀ (ts : List Ty),
    (∀ t ∈ ts, ∃ F, fuelOK g F budget t = true) → ∃ F, fuelOKs g F budget ts = true
  | [], _ => ⟨0, by simp [fuelOKs]⟩
  | t :: ts, h => by
    obtain ⟨F1, h1⟩ := h t List.mem_cons_self
    obtain ⟨F2, h2⟩ := exists_tys_of_forall g budget ts fun x hx => h x (List.mem_cons_of_mem _ hx)
    refine ⟨max F1 F2 + 1, ?_⟩
    rw [fuelOKs, Bool.and_eq_true]
    exact ⟨fuelOK_mono_le g budget t _ _ (Nat.le_max_left _ _) h1,
      fuelOKs_mono_le g budget ts _ _ (Nat.le_max_right _ _) h2⟩

mutual
theorem exists_ty (g : Grammar) (budget : Nat)
    (hC : ∀ n, ∃ F, fuelOK g F budget (.cls n) = true) : ∀ (ty : Ty), ∃ F, fuelOK g F budget ty = true
  | .cls n => hC n
  | .int | .float | .str | .bool | .list _ => ⟨1, by simp [fuelOK]⟩
  | .tuple ts => by
    obtain ⟨F, h⟩ := exists_tys g budget hC ts
    exact ⟨F + 1, by simp only [fuelOK]; exact h⟩
  | .union ts => by
    obtain ⟨F, h⟩ := exists_tys g budget hC ts
    exact ⟨F + 1, by simp only [fuelOK]; exact h⟩
  | .ann base mh => by
    cases base with
    | list t =>
      obtain ⟨F, h⟩ := exists_ty g budget hC t
      cases mh <;> first | exact ⟨F + 1, by simp only [fuelOK]; exact h⟩ | exact ⟨1, by simp [fuelOK]⟩
    | _ => exact ⟨1, by simp [fuelOK]⟩
theorem exists_tys (g : Grammar) (budget : Nat)
    (hC : ∀ n, ∃ F, fuelOK g F budget (.cls n) = true) : ∀ (ts : List Ty), ∃ F, fuelOKs g F budget ts = true
  | [] => ⟨0, by simp [fuelOKs]⟩
  | t :: ts => by
    obtain ⟨F1, h1⟩ := exists_ty g budget hC t
    obtain ⟨F2, h2⟩ := exists_tys g budget hC ts
    refine ⟨max F1 F2 + 1, ?_⟩
    rw [fuelOKs, Bool.and_eq_true]
    exact ⟨fuelOK_mono_le g budget t _ _ (Nat.le_max_left _ _) h1,
      fuelOKs_mono_le g budget ts _ _ (Nat.le_max_right _ _) h2⟩
end

theorem fuelOK_cls (g : Grammar) (fuel budget n : Nat) :
    fuelOK g (fuel + 1) budget (.cls n) =
      (if !(g.reg.allNodes.contains (.cls n)) then true else
        match g.altsOf n with
        | some prods => fuelOKs g fuel budget (prods.map Ty.cls)
        | none =>
          match budget with
          | 0 => true
          | b + 1 => fuelOKs g fuel b ((g.cls n).fields.map (·.2))) := by
  simp only [fuelOK]

theorem exists_cls_aux (g : Grammar) (hwf : altsWF g) (budget : Nat)
    (hconc : ∀ n, g.altsOf n = none → ∃ F, fuelOK g F budget (.cls n) = true) :
    ∀ k n, g.spec.classes.length - n ≤ k → ∃ F, fuelOK g F budget (.cls n) = true := by
  intro k
  induction k with
  | zero =>
    intro n hk
    cases ha : g.altsOf n with
    | none => exact hconc n ha
    | some prods => have := (hwf n prods ha).1; omega
  | succ k ihk =>
    intro n hk
    cases ha : g.altsOf n with
    | none => exact hconc n ha
    | some prods =>
      have hb := hwf n prods ha
      obtain ⟨F, hF⟩ := exists_tys_of_forall g budget (prods.map Ty.cls) (by
        intro t ht
        obtain ⟨p, hp, rfl⟩ := List.mem_map.1 ht
        have := hb.2 p hp
        exact ihk p (by omega))
      refine ⟨F + 1, ?_⟩
      rw [fuelOK_cls, ha]
      split
      · rfl
      · exact hF

theorem exists_cls (g : Grammar) (hwf : altsWF g) :
    ∀ (budget n : Nat), ∃ F, fuelOK g F budget (.cls n) = true := by
  intro budget
  induction budget with
  | zero =>
    refine fun n => exists_cls_aux g hwf 0 (fun n ha => ⟨1, ?_⟩) _ n (Nat.le_refl _)
    rw [fuelOK_cls, ha]
    split <;> rfl
  | succ b ihb =>
    refine fun n => exists_cls_aux g hwf (b + 1) (fun n ha => ?_) _ n (Nat.le_refl _)
    obtain ⟨F, hF⟩ := exists_tys g b ihb ((g.cls n).fields.map (·.2))
    refine ⟨F + 1, ?_⟩
    rw [fuelOK_cls, ha]
    split
    · rfl
    · exact hF

theorem exists_fuel (g : Grammar) (hwf : altsWF g) (budget : Nat) (ty : Ty) :
    ∃ F, fuelOK g F budget ty = true :=
  exists_ty g budget (exists_cls g hwf budget) ty

/-! ### `fcTy` refines the model's `finiteChoiceTy` -/

mutual
theorem fcTy_finiteChoice : ∀ (ty : Ty), fcTy ty = true → finiteChoiceTy ty = true
  | .bool, _ => by simp [finiteChoiceTy]
  | .cls _, _ => by simp [finiteChoiceTy]
  | .int, h | .float, h | .str, h | .list _, h => by simp [fcTy] at h
  | .tuple ts, h => by
    rw [fcTy] at h; rw [finiteChoiceTy]; exact fcTys_finiteChoice ts h
  | .union ts, h => by
    rw [fcTy] at h; rw [finiteChoiceTy]; exact fcTys_finiteChoice ts h
  | .ann base mh, h => by
    unfold fcTy at h
    split at h
    · simp [finiteChoiceTy]
    · simp [finiteChoiceTy]
    · simp [finiteChoiceTy]
    · simp [finiteChoiceTy]
    · simp [finiteChoiceTy]
    · rename_i lo hi t
      rw [finiteChoiceTy]
      exact fcTy_finiteChoice t h
    · cases h
theorem fcTys_finiteChoice : ∀ (ts : List Ty), fcTys ts = true → finiteChoiceTys ts = true
  | [], _ => by simp [finiteChoiceTys]
  | t :: ts, h => by
    rw [fcTys, Bool.and_eq_true] at h
    rw [finiteChoiceTys, fcTy_finiteChoice t h.1, fcTys_finiteChoice ts h.2]; rfl
end

theorem fcGrammar_finiteChoice (g : Grammar) (h : fcGrammar g = true) : finiteChoice g = true := by
  simp only [fcGrammar, finiteChoice, List.all_eq_true] at h ⊢
  exact fun c hc f hf => fcTy_finiteChoice _ (h c hc f hf)

/-! ### Scripts that steer a computation -/

/-- From ANY state whose scripted source still has `draws ++ rest` to read (metahandler draws
taken from that source), `m` returns `a`, consumes exactly `draws` and changes nothing else. -/
def Produces {α : Type} (m : SynM α) (draws : List Nat) (a : α) : Prop :=
  ∀ (s : SynSt) (ds : List Nat) (pos : Nat) (rest : List Nat),
    s.src = .scripted ⟨ds, pos⟩ → s.metaFromGenes = false → ds.drop pos = draws ++ rest →
    m s = .ok a { s with src := .scripted ⟨ds, pos + draws.length⟩ }

theorem prod_pure {α : Type} (a : α) : Produces (pure a : SynM α) [] a := by
  intro s ds pos rest hs _ _
  rw [SynM.pure_def]
  obtain ⟨src, ex, dna, p, m⟩ := s
  simp only at hs
  subst hs
  rfl

theorem prod_bind {α β : Type} {m : SynM α} {f : α → SynM β} {d1 d2 : List Nat} {a : α} {b : β}
    (h1 : Produces m d1 a) (h2 : Produces (f a) d2 b) : Produces (m >>= f) (d1 ++ d2) b := by
  intro s ds pos rest hs hm hd
  rw [SynM.bind_def, h1 s ds pos (d2 ++ rest) hs hm (by rw [hd, List.append_assoc])]
  simp only
  refine (h2 { s with src := .scripted ⟨ds, pos + d1.length⟩ } ds (pos + d1.length) rest rfl hm (by
    rw [← List.drop_drop, hd, List.append_assoc, List.drop_left])).trans ?_
  simp [List.length_append, Nat.add_assoc]

theorem prod_map {α β : Type} {m : SynM α} {d : List Nat} {a : α} (f : α → β)
    (h : Produces m d a) : Produces (do let x ← m; Pure.pure (f x) : SynM β) d (f a) := by
  have := prod_bind (f := fun x => (Pure.pure (f x) : SynM β)) h (prod_pure (f a))
  simpa using this

theorem prod_randint (lo hi x : Int) (h1 : lo ≤ x) (h2 : x ≤ hi) :
    Produces (randintM lo hi) [(x - lo).toNat] x := by
  intro s ds pos rest hs hm hd
  have hget : ds.getD pos 0 = (x - lo).toNat := by
    rw [List.getD_eq_getElem?_getD]
    have : (ds.drop pos)[0]? = some (x - lo).toNat := by rw [hd]; rfl
    rw [List.getElem?_drop] at this
    simp only [Nat.add_zero] at this
    rw [this]; rfl
  have hval : lo + ((x - lo).toNat : Int) % (hi - lo + 1) = x := by
    rw [Int.toNat_of_nonneg (by omega), Int.emod_eq_of_lt (by omega) (by omega)]; omega
  unfold randintM
  rw [hm]
  simp only [Bool.false_eq_true, if_false]
  unfold rawRandintM
  rw [if_neg (by omega)]
  simp only [hs, hm, AnySrc.randint, scriptedRandint, Script.next, hget, hval, List.length_singleton]

theorem prod_choiceIdx (n i : Nat) (h : i < n) : Produces (choiceIdxM n) [i] i := by
  unfold choiceIdxM
  rw [if_neg (by omega)]
  have := prod_map Int.toNat (prod_randint 0 ((n : Int) - 1) (i : Int) (by omega) (by omega))
  simpa using this

theorem prod_listGet {α : Type} (xs : List α) (i : Nat) (x : α) (h : xs[i]? = some x) :
    Produces (listGetM xs i) [] x := by
  unfold listGetM
  rw [h]
  exact prod_pure x

/-- `random.choice`: any element can be chosen -/
theorem prod_choice {α : Type} (xs : List α) (x : α) (h : x ∈ xs) :
    ∃ i, Produces (do let i ← choiceIdxM xs.length; listGetM xs i : SynM α) [i] x := by
  obtain ⟨i, hi⟩ := List.getElem?_of_mem h
  have hlt : i < xs.length := by
    rcases Nat.lt_or_ge i xs.length with h | h
    · exact h
    · rw [List.getElem?_eq_none h] at hi; cases hi
  exact ⟨i, by simpa using prod_bind (prod_choiceIdx xs.length i hlt) (prod_listGet xs i x hi)⟩

/-- grow's `choose_production_alternatives`: any alternative that fits can be chosen -/
theorem prod_chooseProd_grow (g : Grammar) (D : Nat) (key : Ty) (alts : List Ty) (ctx : Ctx) (t : Ty)
    (ht : t ∈ alts) (hfit : fits g ⟨.grow, D⟩ ctx t = true) :
    ∃ i, Produces (chooseProd g ⟨.grow, D⟩ key alts ctx) [i] t := by
  have hne : alts.isEmpty = false := by
    cases alts with
    | nil => cases ht
    | cons _ _ => rfl
  obtain ⟨i, hi⟩ := prod_choice (alts.filter (fits g ⟨.grow, D⟩ ctx)) t
    (List.mem_filter.2 ⟨ht, hfit⟩)
  refine ⟨i, ?_⟩
  unfold chooseProd
  simp only [hne, Bool.false_eq_true, if_false]
  exact hi

theorem prod_decBool_grow (D : Nat) (b : Bool) :
    Produces (decBoolM ⟨.grow, D⟩) [if b then 0 else 1] b := by
  unfold decBoolM
  simp only
  have := prod_map (fun i : Nat => decide (i = 0)) (prod_choiceIdx 2 (if b then 0 else 1) (by split <;> omega))
  cases b <;> simpa using this

theorem prod_genChars (al : List String) : ∀ (k : Nat) (s : String), s ∈ stringsOfLen al k →
    ∃ draws, Produces (genChars al k) draws s
  | 0, s, h => by
    simp only [stringsOfLen, List.mem_singleton] at h
    subst h
    exact ⟨[], by rw [genChars]; exact prod_pure _⟩
  | k + 1, s, h => by
    simp only [stringsOfLen, List.mem_flatMap, List.mem_map] at h
    obtain ⟨c, hc, rest, hr, rfl⟩ := h
    obtain ⟨i, hi⟩ := List.getElem?_of_mem hc
    have hlt : i < al.length := by
      rcases Nat.lt_or_ge i al.length with h | h
      · exact h
      · rw [List.getElem?_eq_none h] at hi; cases hi
    obtain ⟨dr, hdr⟩ := prod_genChars al k rest hr
    refine ⟨[i] ++ ([] ++ (dr ++ [])), ?_⟩
    rw [genChars]
    exact prod_bind (prod_choiceIdx al.length i hlt)
      (prod_bind (prod_listGet al i c hi) (prod_bind hdr (prod_pure _)))

theorem erase_setCtx (v : Val) (d e : Nat) : (v.setCtx d e).erase = v.erase := by
  cases v <;> simp [Val.setCtx, Val.erase]

/-- the retry loop, when the first attempt succeeds -/
theorem prod_createAbstract (g : Grammar) (dec : Decider) (f n : Nat) (prods : List Nat) (ctx : Ctx)
    (rule : Ty) (d1 d2 : List Nat) (v : Val) (hne : prods ≠ [])
    (h1 : Produces (chooseProd g dec (.cls n) (prods.map Ty.cls) ctx) d1 rule)
    (h2 : Produces (createNode g dec f rule ⟨ctx.depth, ctx.exp + 1⟩ []) d2 v) :
    Produces (createAbstract g dec (f + 1) n prods ctx) (d1 ++ d2) (v.setCtx ctx.depth ctx.exp) := by
  intro s ds pos rest hs hm hd
  rw [createAbstract]
  have hemp : prods.isEmpty = false := by cases prods <;> simp_all
  simp only [hemp, Bool.false_eq_true, if_false]
  rw [h1 s ds pos (d2 ++ rest) hs hm (by rw [hd, List.append_assoc])]
  simp only
  rw [h2 { s with src := .scripted ⟨ds, pos + d1.length⟩ } ds (pos + d1.length) rest rfl hm (by
    rw [← List.drop_drop, hd, List.append_assoc, List.drop_left])]
  simp [List.length_append, Nat.add_assoc]

/-! ### Steering `createNode` (grow) to a given program -/

/-- with fuel at least `F`, at context `ctx` and for any sibling values, some script makes grow
creation of type `ty` return `v` up to synthesis metadata -/
def Steer (g : Grammar) (D F : Nat) (ctx : Ctx) (ty : Ty) (v : Val) : Prop :=
  ∀ deps, ∃ draws v', (∀ f, F ≤ f → Produces (createNode g ⟨.grow, D⟩ f ty ctx deps) draws v') ∧
    v'.erase = v

theorem Steer.mono {g : Grammar} {D F F' : Nat} {ctx : Ctx} {ty : Ty} {v : Val}
    (h : Steer g D F ctx ty v) (hle : F ≤ F') : Steer g D F' ctx ty v := by
  intro deps
  obtain ⟨draws, v', h1, h2⟩ := h deps
  exact ⟨draws, v', fun f hf => h1 f (Nat.le_trans hle hf), h2⟩

theorem steer_forall_max (g : Grammar) (D : Nat) (ctx : Ctx) (t : Ty) : ∀ (vs : List Val),
    (∀ x ∈ vs, ∃ F, Steer g D F ctx t x) → ∃ F, ∀ x ∈ vs, Steer g D F ctx t x
  | [], _ => ⟨0, fun _ h => by cases h⟩
  | v :: vs, h => by
    obtain ⟨F1, h1⟩ := h v List.mem_cons_self
    obtain ⟨F2, h2⟩ := steer_forall_max g D ctx t vs fun x hx => h x (List.mem_cons_of_mem _ hx)
    refine ⟨max F1 F2, fun x hx => ?_⟩
    rcases List.mem_cons.1 hx with rfl | hx
    · exact h1.mono (Nat.le_max_left _ _)
    · exact (h2 x hx).mono (Nat.le_max_right _ _)

theorem prod_createTuple (g : Grammar) (D F : Nat) (ctx : Ctx) : ∀ (ts : List Ty) (vs : List Val),
    All2 (Steer g D F ctx) ts vs →
    ∃ draws vs', (∀ f, F + ts.length + 1 ≤ f → Produces (createTuple g ⟨.grow, D⟩ f ts ctx) draws vs') ∧
      Val.eraseList vs' = vs
  | [], [], _ => by
    refine ⟨[], [], fun f hf => ?_, rfl⟩
    obtain ⟨f', rfl⟩ : ∃ f', f = f' + 1 := ⟨f - 1, by omega⟩
    rw [createTuple]; exact prod_pure _
  | [], _ :: _, h => h.elim
  | _ :: _, [], h => h.elim
  | t :: ts, v :: vs, h => by
    obtain ⟨d1, v', hv', he⟩ := h.1 []
    obtain ⟨d2, vs', hvs', hes⟩ := prod_createTuple g D F ctx ts vs h.2
    refine ⟨d1 ++ (d2 ++ []), v' :: vs', fun f hf => ?_, by rw [Val.eraseList, he, hes]⟩
    obtain ⟨f', rfl⟩ : ∃ f', f = f' + 1 := ⟨f - 1, by simp only [List.length_cons] at hf; omega⟩
    simp only [List.length_cons] at hf
    rw [createTuple]
    exact prod_bind (hv' f' (by omega)) (prod_bind (hvs' f' (by omega)) (prod_pure _))

theorem prod_createFields (g : Grammar) (D F : Nat) (nctx : Ctx) :
    ∀ (fs : List (String × Ty)) (vs : List Val) (deps : List (String × Val)),
    All2 (Steer g D F nctx) (fs.map (·.2)) vs →
    ∃ draws vs', (∀ f, F + fs.length + 1 ≤ f →
        Produces (createFields g ⟨.grow, D⟩ f fs nctx deps) draws vs') ∧
      Val.eraseList vs' = vs
  | [], [], _, _ => by
    refine ⟨[], [], fun f hf => ?_, rfl⟩
    obtain ⟨f', rfl⟩ : ∃ f', f = f' + 1 := ⟨f - 1, by omega⟩
    rw [createFields]; exact prod_pure _
  | [], _ :: _, _, h => h.elim
  | _ :: _, [], _, h => h.elim
  | (name, t) :: fs, v :: vs, deps, h => by
    obtain ⟨d1, v', hv', he⟩ := h.1 deps
    obtain ⟨d2, vs', hvs', hes⟩ := prod_createFields g D F nctx fs vs (deps ++ [(name, v')]) h.2
    refine ⟨d1 ++ (d2 ++ []), v' :: vs', fun f hf => ?_, by rw [Val.eraseList, he, hes]⟩
    obtain ⟨f', rfl⟩ : ∃ f', f = f' + 1 := ⟨f - 1, by simp only [List.length_cons] at hf; omega⟩
    simp only [List.length_cons] at hf
    rw [createFields]
    exact prod_bind (hv' f' (by omega)) (prod_bind (hvs' f' (by omega)) (prod_pure _))

theorem prod_createElems (g : Grammar) (D F : Nat) (nctx : Ctx) (t : Ty)
    (deps : List (String × Val)) : ∀ (vs : List Val),
    (∀ x ∈ vs, Steer g D F nctx t x) →
    ∃ draws vs', (∀ f, F + vs.length + 1 ≤ f →
        Produces (createElems g ⟨.grow, D⟩ f t nctx deps vs.length) draws vs') ∧
      Val.eraseList vs' = vs
  | [], _ => by
    refine ⟨[], [], fun f hf => ?_, rfl⟩
    obtain ⟨f', rfl⟩ : ∃ f', f = f' + 1 := ⟨f - 1, by omega⟩
    rw [List.length_nil, createElems]; exact prod_pure _
  | v :: vs, h => by
    obtain ⟨d1, v', hv', he⟩ := h v List.mem_cons_self deps
    obtain ⟨d2, vs', hvs', hes⟩ := prod_createElems g D F nctx t deps vs
      fun x hx => h x (List.mem_cons_of_mem _ hx)
    refine ⟨d1 ++ (d2 ++ []), v' :: vs', fun f hf => ?_, by rw [Val.eraseList, he, hes]⟩
    obtain ⟨f', rfl⟩ : ∃ f', f = f' + 1 := ⟨f - 1, by simp only [List.length_cons] at hf; omega⟩
    simp only [List.length_cons] at hf ⊢
    rw [createElems]
    exact prod_bind (hv' f' (by omega)) (prod_bind (hvs' f' (by omega)) (prod_pure _))

/-- what the completeness of grow creation needs of the analysed grammar: well-formedness, only
abstract classes have productions, registration is closed, and the reported distance of a type is
a LOWER bound of the depth of its programs without empty lists (`C05_dist_sound_partial`) -/
structure GrowOK (g : Grammar) : Prop where
  wf : GWF g
  abs : altsAbstract g = true
  closed : ClosedNodes g.spec g.reg
  dist : ∀ ty v, Derives g.spec g.reg ty v → NoEmptyList v = true →
    (∀ s ∈ explode ty, s ∈ g.reg.allNodes) → g.distOf ty ≤ v.depth

theorem GrowOK.prods_reg {g : Grammar} (h : GrowOK g) (n : Nat) (prods : List Nat)
    (hn : Sym.cls n ∈ g.reg.allNodes) (ha : g.altsOf n = some prods) :
    ∀ s ∈ explodeList (prods.map Ty.cls), s ∈ g.reg.allNodes := by
  intro s hs
  obtain ⟨t, ht, hs⟩ := mem_explodeList.1 hs
  obtain ⟨p, hp, rfl⟩ := List.mem_map.1 ht
  simp only [explode, List.mem_singleton] at hs
  subst hs
  apply h.closed _ hn
  have ha' : getAlts g.reg.alts n = some prods := ha
  rw [succs_abstract (altsAbstract_elim g h.abs n prods ha), ha']
  exact List.mem_map.2 ⟨p, hp, rfl⟩

theorem GrowOK.fields_reg {g : Grammar} (h : GrowOK g) (n : Nat)
    (hn : Sym.cls n ∈ g.reg.allNodes) (ha : g.altsOf n = none) :
    ∀ s ∈ explodeList ((g.cls n).fields.map (·.2)), s ∈ g.reg.allNodes := by
  intro s hs
  apply h.closed _ hn
  have hc := h.wf.concrete n (by simpa using hn) ha
  rw [succs_concrete hc]
  exact hs

def GrowP (g : Grammar) (D fuelL : Nat) : Prop :=
  (∀ budget ty v, tyWF ty = true → (∀ s ∈ explode ty, s ∈ g.reg.allNodes) →
    v ∈ langTy g fuelL budget ty → NoEmptyList v = true → ∀ ctx : Ctx, ctx.depth + v.depth ≤ D →
    ∃ F, Steer g D F ctx ty v) ∧
  (∀ budget ts vs, tysWF ts = true → (∀ s ∈ explodeList ts, s ∈ g.reg.allNodes) →
    vs ∈ cartesian (langTys g fuelL budget ts) → NoEmptyLists vs = true →
    ∀ ctx : Ctx, ctx.depth + Val.depthList vs ≤ D → ∃ F, All2 (Steer g D F ctx) ts vs) ∧
  (∀ budget ts v, tysWF ts = true → (∀ s ∈ explodeList ts, s ∈ g.reg.allNodes) →
    v ∈ (langTys g fuelL budget ts).flatten → NoEmptyList v = true →
    ∀ ctx : Ctx, ctx.depth + v.depth ≤ D →
    ∃ t ∈ ts, (∃ f', v ∈ langTy g f' budget t) ∧ ∃ F, Steer g D F ctx t v)

theorem growP_zero (g : Grammar) (D : Nat) : GrowP g D 0 := by
  refine ⟨?_, ?_, ?_⟩
  · intro budget ty v _ _ h; simp [langTy] at h
  · intro budget ts vs _ _ h _ ctx _
    cases ts with
    | nil => simp only [langTys, cartesian, List.mem_singleton] at h; subst h; exact ⟨0, trivial⟩
    | cons t ts => simp [langTys, cartesian] at h
  · intro budget ts v _ _ h
    cases ts <;> simp [langTys] at h

theorem all2_steer_mono {g : Grammar} {D F F' : Nat} {ctx : Ctx} (hle : F ≤ F') :
    ∀ (ts : List Ty) (vs : List Val), All2 (Steer g D F ctx) ts vs → All2 (Steer g D F' ctx) ts vs :=
  All2.imp (fun _ _ h => h.mono hle)

theorem grow_tys_cart (g : Grammar) (D fuelL : Nat) (ih : GrowP g D fuelL) :
    ∀ budget ts vs, tysWF ts = true → (∀ s ∈ explodeList ts, s ∈ g.reg.allNodes) →
    vs ∈ cartesian (langTys g (fuelL + 1) budget ts) → NoEmptyLists vs = true →
    ∀ ctx : Ctx, ctx.depth + Val.depthList vs ≤ D → ∃ F, All2 (Steer g D F ctx) ts vs := by
  intro budget ts vs hts hreg h hne ctx hd
  cases ts with
  | nil =>
    simp only [langTys, cartesian, List.mem_singleton] at h
    subst h; exact ⟨0, trivial⟩
  | cons t ts =>
    rw [tysWF, Bool.and_eq_true] at hts
    rw [langTys, mem_cartesian] at h
    cases vs with
    | nil => exact h.elim
    | cons x rest =>
      rw [NoEmptyLists, Bool.and_eq_true] at hne
      rw [Val.depthList] at hd
      obtain ⟨F1, h1⟩ := ih.1 budget t x hts.1 (fun s hs => hreg s (by simp [explodeList, hs]))
        h.1 hne.1 ctx (by omega)
      obtain ⟨F2, h2⟩ := ih.2.1 budget ts rest hts.2 (fun s hs => hreg s (by simp [explodeList, hs]))
        ((mem_cartesian _ _).2 h.2) hne.2 ctx (by omega)
      exact ⟨max F1 F2, h1.mono (Nat.le_max_left _ _),
        all2_steer_mono (Nat.le_max_right _ _) ts rest h2⟩

theorem grow_tys_flat (g : Grammar) (D fuelL : Nat) (ih : GrowP g D fuelL) :
    ∀ budget ts v, tysWF ts = true → (∀ s ∈ explodeList ts, s ∈ g.reg.allNodes) →
    v ∈ (langTys g (fuelL + 1) budget ts).flatten → NoEmptyList v = true →
    ∀ ctx : Ctx, ctx.depth + v.depth ≤ D →
    ∃ t ∈ ts, (∃ f', v ∈ langTy g f' budget t) ∧ ∃ F, Steer g D F ctx t v := by
  intro budget ts v hts hreg h hne ctx hd
  cases ts with
  | nil => simp [langTys] at h
  | cons t ts =>
    rw [tysWF, Bool.and_eq_true] at hts
    rw [langTys, List.flatten_cons, List.mem_append] at h
    rcases h with h | h
    · exact ⟨t, List.mem_cons_self, ⟨fuelL, h⟩,
        ih.1 budget t v hts.1 (fun s hs => hreg s (by simp [explodeList, hs])) h hne ctx hd⟩
    · obtain ⟨t', ht', hv⟩ := ih.2.2 budget ts v hts.2
        (fun s hs => hreg s (by simp [explodeList, hs])) h hne ctx hd
      exact ⟨t', List.mem_cons_of_mem _ ht', hv⟩

theorem noEmptyLists_mem : ∀ (vs : List Val), NoEmptyLists vs = true → ∀ x ∈ vs, NoEmptyList x = true
  | [], _, x, hx => by cases hx
  | v :: vs, h, x, hx => by
    rw [NoEmptyLists, Bool.and_eq_true] at h
    rcases List.mem_cons.1 hx with rfl | hx
    · exact h.1
    · exact noEmptyLists_mem vs h.2 x hx

theorem index_of_mem {α : Type} (xs : List α) (x : α) (h : x ∈ xs) :
    ∃ i, i < xs.length ∧ xs[i]? = some x := by
  obtain ⟨i, hi⟩ := List.getElem?_of_mem h
  refine ⟨i, ?_, hi⟩
  rcases Nat.lt_or_ge i xs.length with h | h
  · exact h
  · rw [List.getElem?_eq_none h] at hi; cases hi

theorem succ_of_le {F f : Nat} (h : F + 1 ≤ f) : ∃ f', f = f' + 1 ∧ F ≤ f' := ⟨f - 1, by omega, by omega⟩

theorem grow_ty (g : Grammar) (hg : GrowOK g) (D fuelL : Nat) (ih : GrowP g D fuelL) :
    ∀ budget ty v, tyWF ty = true → (∀ s ∈ explode ty, s ∈ g.reg.allNodes) →
    v ∈ langTy g (fuelL + 1) budget ty → NoEmptyList v = true →
    ∀ ctx : Ctx, ctx.depth + v.depth ≤ D → ∃ F, Steer g D F ctx ty v := by
  intro budget ty v hty hreg h hne ctx hd
  cases ty with
  | int => simp [langTy] at h
  | float => simp [langTy] at h
  | list t => simp [langTy] at h
  | bool =>
    have : ∃ b, v = .bool b := by
      simp only [langTy, List.mem_cons, List.not_mem_nil, or_false] at h
      rcases h with rfl | rfl <;> exact ⟨_, rfl⟩
    obtain ⟨b, rfl⟩ := this
    refine ⟨1, fun deps => ⟨[if b then 0 else 1], .bool b, fun f hf => ?_, rfl⟩⟩
    obtain ⟨f', rfl, _⟩ := succ_of_le hf
    rw [createNode]
    exact prod_map Val.bool (prod_decBool_grow D b)
  | str =>
    simp only [langTy, List.mem_singleton] at h
    subst h
    refine ⟨1, fun deps => ⟨[], .str "", fun f hf => ?_, rfl⟩⟩
    obtain ⟨f', rfl, _⟩ := succ_of_le hf
    rw [createNode]
    exact prod_pure _
  | tuple ts =>
    simp only [langTy, List.mem_map] at h
    obtain ⟨vs, hvs, rfl⟩ := h
    rw [tyWF] at hty
    rw [NoEmptyList] at hne
    rw [Val.depth] at hd
    obtain ⟨F, hF⟩ := ih.2.1 budget ts vs hty (by simpa [explode] using hreg) hvs hne ctx hd
    obtain ⟨draws, vs', hp, he⟩ := prod_createTuple g D F ctx ts vs hF
    refine ⟨F + ts.length + 1 + 1, fun deps => ⟨draws, .tuple vs', fun f hf => ?_, by rw [Val.erase, he]⟩⟩
    obtain ⟨f', rfl, hf'⟩ := succ_of_le hf
    rw [createNode]
    exact prod_map Val.tuple (hp f' hf')
  | union ts =>
    simp only [langTy, mem_dedupVals] at h
    rw [tyWF] at hty
    have hreg' : ∀ s ∈ explodeList ts, s ∈ g.reg.allNodes := by simpa [explode] using hreg
    obtain ⟨t, ht, ⟨f0, hmem⟩, F, hF⟩ := ih.2.2 budget ts v hty hreg' h hne ctx hd
    have hspec := (soundP_all g hg.wf f0).1 budget t v (tyWF_of_mem ts t ht hty) hmem
    have hdist := hg.dist t v (hspec.2.2.2 hg.abs) hne
      (fun s hs => hreg' s (mem_explodeList.2 ⟨t, ht, hs⟩))
    have hfit : fits g ⟨.grow, D⟩ ctx t = true := (Depth.fits_iff g _ ctx t).2 (by simp only; omega)
    obtain ⟨i, hi⟩ := prod_chooseProd_grow g D (.union ts) ts ctx t ht hfit
    refine ⟨F + 1, fun deps => ?_⟩
    obtain ⟨draws, v', hp, he⟩ := hF deps
    refine ⟨[i] ++ (draws ++ []), v'.setCtx ctx.depth ctx.exp, fun f hf => ?_, by rw [erase_setCtx, he]⟩
    obtain ⟨f', rfl, hf'⟩ := succ_of_le hf
    rw [createNode]
    exact prod_bind hi (prod_bind (hp f' hf') (prod_pure _))
  | cls n =>
    simp only [langTy] at h
    split at h
    · simp at h
    rename_i hreg0
    simp only [Bool.not_eq_true, Bool.not_eq_false'] at hreg0
    have hn : Sym.cls n ∈ g.reg.allNodes := hreg _ (by simp [explode])
    split at h
    · rename_i prods ha
      rw [mem_dedupVals] at h
      have hne' : prods ≠ [] := by
        rintro rfl
        cases fuelL <;> simp [langTys] at h
      obtain ⟨t, ht, ⟨f0, hmem⟩, F, hF⟩ := ih.2.2 budget _ v (tysWF_cls prods)
        (hg.prods_reg n prods hn ha) h hne ⟨ctx.depth, ctx.exp + 1⟩ hd
      obtain ⟨p, hp, rfl⟩ := List.mem_map.1 ht
      have hspec := (soundP_all g hg.wf f0).1 budget (.cls p) v rfl hmem
      have hdist := hg.dist (.cls p) v (hspec.2.2.2 hg.abs) hne
        (fun s hs => hg.prods_reg n prods hn ha s (mem_explodeList.2 ⟨_, ht, hs⟩))
      have hfit : fits g ⟨.grow, D⟩ ctx (.cls p) = true :=
        (Depth.fits_iff g _ ctx _).2 (by simp only; omega)
      obtain ⟨i, hi⟩ := prod_chooseProd_grow g D (.cls n) (prods.map Ty.cls) ctx (.cls p) ht hfit
      refine ⟨F + 2, fun deps => ?_⟩
      obtain ⟨draws, v', hpv, he⟩ := hF []
      refine ⟨[i] ++ draws, v'.setCtx ctx.depth ctx.exp, fun f hf => ?_, by rw [erase_setCtx, he]⟩
      obtain ⟨f', rfl, hf'⟩ := succ_of_le hf
      obtain ⟨f'', rfl, hf''⟩ := succ_of_le hf'
      rw [createNode]
      simp only [hreg0, Bool.not_true, Bool.false_eq_true, if_false, ha]
      exact prod_createAbstract g _ f'' n prods ctx (.cls p) [i] draws v' hne' hi (hpv f'' hf'')
    · rename_i ha
      split at h
      · simp at h
      rename_i b
      simp only [List.mem_map] at h
      obtain ⟨args, hargs, rfl⟩ := h
      rw [NoEmptyList] at hne
      rw [Val.depth] at hd
      obtain ⟨F, hF⟩ := ih.2.1 b _ args (tysWF_fields _ _ (hg.wf.fields n)) (hg.fields_reg n hn ha)
        hargs hne ⟨ctx.depth + 1, ctx.exp + 1⟩ (by simp only; omega)
      obtain ⟨draws, args', hp, he⟩ := prod_createFields g D F _ (g.cls n).fields args [] hF
      refine ⟨F + (g.cls n).fields.length + 1 + 1, fun deps => ⟨draws, .node n ctx.depth ctx.exp args',
        fun f hf => ?_, by rw [Val.erase, he]⟩⟩
      obtain ⟨f', rfl, hf'⟩ := succ_of_le hf
      rw [createNode]
      simp only [hreg0, Bool.not_true, Bool.false_eq_true, if_false, ha]
      exact prod_map (fun a => Val.node n ctx.depth ctx.exp a) (hp f' hf')
  | ann base mh =>
    rw [tyWF, Bool.and_eq_true] at hty
    simp only [langTy] at h
    split at h
    · -- intRange
      rename_i lo hi
      simp only [List.mem_map, mem_intsFromTo] at h
      obtain ⟨i, hi', rfl⟩ := h
      refine ⟨1, fun deps => ⟨[(i - lo).toNat], .int i, fun f hf => ?_, rfl⟩⟩
      obtain ⟨f', rfl, _⟩ := succ_of_le hf
      rw [createNode]
      simp only [MH.isDep, Bool.false_eq_true, if_false]
      exact prod_map Val.int (prod_randint lo hi i (by omega) (by omega))
    · -- intList
      rename_i xs
      simp only [mem_dedupVals, List.mem_map] at h
      obtain ⟨i, hi', rfl⟩ := h
      obtain ⟨j, hlt, hj⟩ := index_of_mem xs i hi'
      refine ⟨1, fun deps => ⟨[j] ++ ([] ++ []), .int i, fun f hf => ?_, rfl⟩⟩
      obtain ⟨f', rfl, _⟩ := succ_of_le hf
      rw [createNode]
      simp only [MH.isDep, Bool.false_eq_true, if_false]
      exact prod_bind (prod_choiceIdx xs.length j hlt) (prod_bind (prod_listGet xs j i hj) (prod_pure _))
    · -- varRange
      rename_i opts
      simp only [mem_dedupVals, List.mem_map] at h
      obtain ⟨x, hx, rfl⟩ := h
      obtain ⟨j, hlt, hj⟩ := index_of_mem opts x hx
      refine ⟨1, fun deps => ⟨[j] ++ ([] ++ []), .str x, fun f hf => ?_, rfl⟩⟩
      obtain ⟨f', rfl, _⟩ := succ_of_le hf
      rw [createNode]
      simp only [MH.isDep, Bool.false_eq_true, if_false]
      exact prod_bind (prod_choiceIdx opts.length j hlt) (prod_bind (prod_listGet opts j x hj) (prod_pure _))
    · -- strSize
      rename_i lo hi al
      simp only [mem_dedupVals, List.mem_map, List.mem_flatMap, mem_rangeFromTo] at h
      obtain ⟨x, ⟨k, hk, hx⟩, rfl⟩ := h
      obtain ⟨dr, hdr⟩ := prod_genChars al k x hx
      refine ⟨1, fun deps => ⟨[((k : Int) - (lo : Int)).toNat] ++ (dr ++ []), .str x, fun f hf => ?_, rfl⟩⟩
      obtain ⟨f', rfl, _⟩ := succ_of_le hf
      rw [createNode]
      simp only [MH.isDep, Bool.false_eq_true, if_false]
      refine prod_bind (prod_randint (lo : Int) (hi : Int) (k : Int) (by omega) (by omega)) ?_
      rw [Int.toNat_natCast]
      exact prod_bind hdr (prod_pure _)
    · -- interval
      rename_i mn mx top
      simp only [List.mem_flatMap, List.mem_map, mem_intsFromTo] at h
      obtain ⟨len, hlen, start, hstart, rfl⟩ := h
      refine ⟨1, fun deps => ⟨[(len - mn).toNat] ++ ([(start - 0).toNat] ++ []),
        .tuple [.int start, .int (start + len)], fun f hf => ?_, by simp [Val.erase, Val.eraseList]⟩⟩
      obtain ⟨f', rfl, _⟩ := succ_of_le hf
      rw [createNode]
      simp only [MH.isDep, Bool.false_eq_true, if_false]
      exact prod_bind (prod_randint mn mx len (by omega) (by omega))
        (prod_bind (prod_randint 0 (top - len) start (by omega) (by omega)) (prod_pure _))
    · -- listSize
      rename_i lo hi t
      simp only [List.mem_flatMap, List.mem_map, mem_rangeFromTo, mem_listsOfLen] at h
      obtain ⟨k, hk, vs, ⟨hlen, hvs⟩, rfl⟩ := h
      rw [tyWF] at hty
      rw [NoEmptyList, Bool.and_eq_true] at hne
      rw [Val.depth] at hd
      obtain ⟨F, hF⟩ := steer_forall_max g D ⟨ctx.depth, ctx.exp + 1⟩ t vs (fun x hx =>
        ih.1 budget t x hty.2 (by simpa [explode] using hreg) (hvs x hx)
          (noEmptyLists_mem vs hne.2 x hx) ⟨ctx.depth, ctx.exp + 1⟩
          (by have := (depthList_le _ vs).1 (Nat.le_refl _) x hx; simp only; omega))
      refine ⟨F + vs.length + 1 + 1, fun deps => ?_⟩
      obtain ⟨draws, vs', hp, he⟩ := prod_createElems g D F ⟨ctx.depth, ctx.exp + 1⟩ t deps vs hF
      refine ⟨[((vs.length : Int) - (lo : Int)).toNat] ++ (draws ++ []), .list ctx.depth ctx.exp vs',
        fun f hf => ?_, by rw [Val.erase, he]⟩
      obtain ⟨f', rfl, hf'⟩ := succ_of_le hf
      rw [createNode]
      simp only [MH.isDep, Bool.false_eq_true, if_false]
      refine prod_bind (prod_randint (lo : Int) (hi : Int) (vs.length : Int) (by omega) (by omega)) ?_
      rw [Int.toNat_natCast]
      exact prod_bind (hp f' hf') (prod_pure _)
    · simp at h

theorem growP_all (g : Grammar) (hg : GrowOK g) (D : Nat) : ∀ fuelL, GrowP g D fuelL
  | 0 => growP_zero g D
  | fuelL + 1 =>
    have ih := growP_all g hg D fuelL
    ⟨grow_ty g hg D fuelL ih, grow_tys_cart g D fuelL ih, grow_tys_flat g D fuelL ih⟩

/-- a script, run from position 0 on an otherwise fresh state -/
def scriptSt (draws : List Nat) : SynSt := { src := .scripted { draws := draws } }

theorem steer_run {g : Grammar} {D F : Nat} {ctx : Ctx} {ty : Ty} {v : Val}
    (h : Steer g D F ctx ty v) (deps : List (String × Val)) :
    ∃ draws v', (∀ f, F ≤ f → createNode g ⟨.grow, D⟩ f ty ctx deps (scriptSt draws) =
        .ok v' { src := .scripted ⟨draws, draws.length⟩ }) ∧ v'.erase = v := by
  obtain ⟨draws, v', hp, he⟩ := h deps
  refine ⟨draws, v', fun f hf => ?_, he⟩
  have := hp f hf (scriptSt draws) draws 0 [] rfl rfl (by simp)
  simpa [scriptSt] using this

/-- what the retry loop over the productions of an abstract class can return: a value created
for a production that the decider's depth filter let through -/
theorem createAbstract_inv (g : Grammar) (dec : Decider) (hk : dec.kind.depthLimited = true) :
    ∀ (fuel n : Nat) (prods : List Nat) (ctx : Ctx) (s s' : SynSt) (v : Val),
    createAbstract g dec fuel n prods ctx s = .ok v s' →
    ∃ p ∈ prods, fits g dec ctx (.cls p) = true ∧ ∃ f s1 s2 v0,
      createNode g dec f (.cls p) ⟨ctx.depth, ctx.exp + 1⟩ [] s1 = .ok v0 s2 ∧
      v = v0.setCtx ctx.depth ctx.exp
  | 0, n, prods, ctx, s, s', v, h => by
    rw [createAbstract] at h; exact absurd h (throwE_not_ok _ _ _ _)
  | fuel + 1, n, prods, ctx, s, s', v, h => by
    rw [createAbstract] at h
    simp only at h
    split at h
    · cases h
    · cases hc : chooseProd g dec (.cls n) (prods.map Ty.cls) ctx s with
      | err e s1 => rw [hc] at h; cases h
      | ok rule s1 =>
        rw [hc] at h
        simp only at h
        obtain ⟨hmem, hfit⟩ := Depth.chooseProd_fits g dec _ _ ctx s s1 rule hk hc
        obtain ⟨p, hp, rfl⟩ := List.mem_map.1 hmem
        cases hn : createNode g dec fuel (.cls p) ⟨ctx.depth, ctx.exp + 1⟩ [] s1 with
        | ok v1 s2 =>
          rw [hn] at h
          simp only at h
          cases h
          exact ⟨p, hp, hfit, fuel, s1, _, v1, hn, rfl⟩
        | err e s2 =>
          rw [hn] at h
          cases e with
          | synthesis =>
            simp only at h
            obtain ⟨q, hq, hfq, hrest⟩ := createAbstract_inv g dec hk fuel n _ ctx s2 s' v h
            exact ⟨q, (List.mem_filter.1 hq).1, hfq, hrest⟩
          | library => cases h
          | foreign _ => cases h

/-! ### The witness grammar `A ::= Leaf | Many(xs : Annotated[list[A], ListSizeBetween(0, 1)])` -/

def wSpec : GrammarSpec :=
  { classes := [⟨"A", true, none, []⟩, ⟨"Leaf", false, some 0, []⟩,
                ⟨"Many", false, some 0, [("xs", .ann (.list (.cls 0)) (.listSize 0 1))]⟩],
    start := 0, considered := [1, 2] }

def wG : Grammar := analyse wSpec

/-! ### An explicit fuel bound: the fuel of `boundedLanguage` is enough -/

/-- every registered production list is at most as long as the class list (no duplicates is
enough; an invariant of `register_type`, which lists each registered class once) -/
def prodsShort (g : Grammar) : Bool :=
  g.reg.alts.all fun kv => decide (kv.2.length ≤ g.spec.classes.length)

theorem prodsShort_elim (g : Grammar) (h : prodsShort g = true) (n : Nat) (ps : List Nat)
    (ha : g.altsOf n = some ps) : ps.length ≤ g.spec.classes.length := by
  have hm := WellTyped.getAlts_mem _ _ _ ha
  simp only [prodsShort, List.all_eq_true, decide_eq_true_eq] at h
  exact h _ hm

theorem fuelOKs_of_forall (g : Grammar) (b F : Nat) : ∀ (ts : List Ty),
    (∀ t ∈ ts, fuelOK g F b t = true) → fuelOKs g (F + ts.length) b ts = true
  | [], _ => by simp [fuelOKs]
  | t :: ts, h => by
    have e : F + (t :: ts).length = (F + ts.length) + 1 := by simp only [List.length_cons]; omega
    rw [e, fuelOKs, Bool.and_eq_true]
    exact ⟨fuelOK_mono_le g b t F _ (by omega) (h t List.mem_cons_self),
      fuelOKs_of_forall g b F ts fun x hx => h x (List.mem_cons_of_mem _ hx)⟩

theorem chain_bound (g : Grammar) (hwf : altsWF g)
    (hshort : ∀ n ps, g.altsOf n = some ps → ps.length ≤ g.spec.classes.length) (b C : Nat)
    (hconc : ∀ n, g.altsOf n = none → fuelOK g C b (.cls n) = true) :
    ∀ k n, g.spec.classes.length - n ≤ k →
      fuelOK g (C + k * (g.spec.classes.length + 1)) b (.cls n) = true := by
  intro k
  induction k with
  | zero =>
    intro n hk
    cases ha : g.altsOf n with
    | none => simpa using hconc n ha
    | some prods => have := (hwf n prods ha).1; omega
  | succ k ihk =>
    intro n hk
    cases ha : g.altsOf n with
    | none => exact fuelOK_mono_le g b _ C _ (by omega) (hconc n ha)
    | some prods =>
      have hb := hwf n prods ha
      have hl := hshort n prods ha
      have hall : ∀ t ∈ prods.map Ty.cls,
          fuelOK g (C + k * (g.spec.classes.length + 1)) b t = true := by
        intro t ht
        obtain ⟨p, hp, rfl⟩ := List.mem_map.1 ht
        have := hb.2 p hp
        exact ihk p (by omega)
      have h1 := fuelOKs_of_forall g b _ _ hall
      rw [List.length_map] at h1
      have e : C + (k + 1) * (g.spec.classes.length + 1) =
          (C + k * (g.spec.classes.length + 1) + g.spec.classes.length) + 1 := by
        rw [Nat.succ_mul]; omega
      rw [e, fuelOK_cls, ha]
      split
      · rfl
      · exact fuelOKs_mono_le g b _ _ _ (by omega) h1

theorem ty_size_pos : ∀ (ty : Ty), 1 ≤ Ty.size ty
  | .int | .float | .str | .bool | .cls _ => by simp [Ty.size]
  | .list _ | .ann _ _ | .tuple _ | .union _ => by simp only [Ty.size]; omega

mutual
theorem size_ty_bound (g : Grammar) (b C : Nat) (hC : ∀ n, fuelOK g C b (.cls n) = true) :
    ∀ (ty : Ty) (F : Nat), C + 2 * Ty.size ty ≤ F + 1 → fuelOK g F b ty = true
  | .cls n, F, h => fuelOK_mono_le g b _ C F (by simp only [Ty.size] at h; omega) (hC n)
  | .int, F, h | .float, F, h | .str, F, h | .bool, F, h | .list _, F, h => by
    obtain ⟨F', rfl⟩ : ∃ F', F = F' + 1 := ⟨F - 1, by have := ty_size_pos; simp only [Ty.size] at h; omega⟩
    simp [fuelOK]
  | .tuple ts, F, h => by
    simp only [Ty.size] at h
    obtain ⟨F', rfl⟩ : ∃ F', F = F' + 1 := ⟨F - 1, by omega⟩
    simp only [fuelOK]
    exact size_tys_bound g b C hC ts F' (by omega)
  | .union ts, F, h => by
    simp only [Ty.size] at h
    obtain ⟨F', rfl⟩ : ∃ F', F = F' + 1 := ⟨F - 1, by omega⟩
    simp only [fuelOK]
    exact size_tys_bound g b C hC ts F' (by omega)
  | .ann base mh, F, h => by
    simp only [Ty.size] at h
    have hp := ty_size_pos base
    obtain ⟨F', rfl⟩ : ∃ F', F = F' + 1 := ⟨F - 1, by omega⟩
    cases base with
    | list t =>
      simp only [Ty.size] at h
      cases mh <;> simp only [fuelOK]
      exact size_ty_bound g b C hC t F' (by omega)
    | _ => simp [fuelOK]
theorem size_tys_bound (g : Grammar) (b C : Nat) (hC : ∀ n, fuelOK g C b (.cls n) = true) :
    ∀ (ts : List Ty) (F : Nat), C + 2 * Ty.sizeList ts ≤ F → fuelOKs g F b ts = true
  | [], F, _ => by simp [fuelOKs]
  | t :: ts, F, h => by
    simp only [Ty.sizeList] at h
    have hp := ty_size_pos t
    obtain ⟨F', rfl⟩ : ∃ F', F = F' + 1 := ⟨F - 1, by omega⟩
    rw [fuelOKs, Bool.and_eq_true]
    exact ⟨size_ty_bound g b C hC t F' (by omega), size_tys_bound g b C hC ts F' (by omega)⟩
end

theorem sum_map_ge_length {α : Type} (f : α → Nat) : ∀ (l : List α),
    l.length ≤ (l.map fun x => 1 + f x).sum
  | [] => by simp
  | x :: l => by
    have := sum_map_ge_length f l
    simp only [List.length_cons, List.map_cons, List.sum_cons]; omega

theorem le_sum_of_mem {α : Type} (f : α → Nat) : ∀ (l : List α) (x : α), x ∈ l → f x ≤ (l.map f).sum
  | [], _, h => by cases h
  | y :: l, x, h => by
    simp only [List.map_cons, List.sum_cons]
    rcases List.mem_cons.1 h with rfl | h
    · omega
    · have := le_sum_of_mem f l x h; omega

theorem sizeList_fields_le (fs : List (String × Ty)) :
    Ty.sizeList (fs.map (·.2)) ≤ (fs.map fun f => 1 + Ty.size f.2).sum := by
  induction fs with
  | nil => simp [Ty.sizeList]
  | cons f fs ih => simp only [List.map_cons, Ty.sizeList, List.sum_cons]; omega

theorem length_le_specSize (s : GrammarSpec) : s.classes.length ≤ specSize s := by
  have := sum_map_ge_length (fun c : ClassDecl => (c.fields.map fun f => 1 + Ty.size f.2).sum) s.classes
  unfold specSize; omega

theorem fields_size_le_specSize (g : Grammar) (n : Nat) :
    Ty.sizeList ((g.cls n).fields.map (·.2)) ≤ specSize g.spec := by
  unfold Grammar.cls
  rw [List.getD_eq_getElem?_getD]
  cases hc : g.spec.classes[n]? with
  | none => simp; exact Nat.zero_le _
  | some d =>
    have h1 := sizeList_fields_le d.fields
    have h2 := le_sum_of_mem (fun c : ClassDecl => 1 + (c.fields.map fun f => 1 + Ty.size f.2).sum)
      g.spec.classes d (List.mem_of_getElem? hc)
    simp only [Option.getD_some]
    unfold specSize
    omega

/-- fuel spent per depth level: the abstract chain, then the fields and their type expressions -/
def levelCost (g : Grammar) : Nat :=
  2 * specSize g.spec + 1 + g.spec.classes.length * (g.spec.classes.length + 1)

theorem cls_bound (g : Grammar) (hwf : altsWF g)
    (hshort : ∀ n ps, g.altsOf n = some ps → ps.length ≤ g.spec.classes.length) :
    ∀ (b n : Nat), fuelOK g ((b + 1) * levelCost g) b (.cls n) = true := by
  intro b
  induction b with
  | zero =>
    intro n
    have hconc : ∀ n, g.altsOf n = none → fuelOK g (2 * specSize g.spec + 1) 0 (.cls n) = true := by
      intro n ha
      have e : 2 * specSize g.spec + 1 = (2 * specSize g.spec) + 1 := rfl
      rw [e, fuelOK_cls, ha]
      split <;> rfl
    have := chain_bound g hwf hshort 0 _ hconc g.spec.classes.length n (by omega)
    simpa [levelCost] using this
  | succ b ihb =>
    intro n
    have hconc : ∀ n, g.altsOf n = none →
        fuelOK g ((b + 1) * levelCost g + 2 * specSize g.spec + 1) (b + 1) (.cls n) = true := by
      intro n ha
      rw [fuelOK_cls, ha]
      split
      · rfl
      · exact size_tys_bound g b _ ihb _ _ (by have := fields_size_le_specSize g n; omega)
    have := chain_bound g hwf hshort (b + 1) _ hconc g.spec.classes.length n (by omega)
    have e : (b + 1 + 1) * levelCost g =
        (b + 1) * levelCost g + 2 * specSize g.spec + 1 +
          g.spec.classes.length * (g.spec.classes.length + 1) := by
      rw [Nat.succ_mul (b + 1)]; unfold levelCost; omega
    rw [e]; exact this

theorem levelCost_le (g : Grammar) :
    levelCost g ≤ (g.spec.classes.length + 4) * (specSize g.spec + 2) := by
  have hL := length_le_specSize g.spec
  have h1 : g.spec.classes.length * g.spec.classes.length ≤ g.spec.classes.length * specSize g.spec :=
    Nat.mul_le_mul_left _ hL
  unfold levelCost
  rw [Nat.mul_add, Nat.add_mul, Nat.mul_add, Nat.mul_add]
  omega

theorem boundedFuel_ok (g : Grammar) (hwf : altsWF g)
    (hshort : ∀ n ps, g.altsOf n = some ps → ps.length ≤ g.spec.classes.length) (d n : Nat) :
    fuelOK g (4 * (d + 2) * (g.spec.classes.length + 4) * (specSize g.spec + 2) + 64) d (.cls n) = true := by
  refine fuelOK_mono_le g d _ _ _ ?_ (cls_bound g hwf hshort d n)
  have h1 := levelCost_le g
  have h2 : (d + 1) * levelCost g ≤ (4 * (d + 2)) * ((g.spec.classes.length + 4) * (specSize g.spec + 2)) :=
    Nat.mul_le_mul (by omega) h1
  rw [← Nat.mul_assoc] at h2
  omega

/-! ### An example grammar for the non-vacuity checks:
`E ::= Lit(v : IntRange(0,1)) | Add(l : E, r : E) | Seq(xs : ListSizeBetween(1,2) of E, b : bool)
     | Opt(u : Union[E, IntList([7])], t : tuple[bool, VarRange(["x","y"])])` -/

def exLSpec : GrammarSpec :=
  { classes := [⟨"E", true, none, []⟩,
                ⟨"Lit", false, some 0, [("v", .ann .int (.intRange 0 1))]⟩,
                ⟨"Add", false, some 0, [("l", .cls 0), ("r", .cls 0)]⟩,
                ⟨"Seq", false, some 0, [("xs", .ann (.list (.cls 0)) (.listSize 1 2)), ("b", .bool)]⟩,
                ⟨"Opt", false, some 0, [("u", .union [.cls 0, .ann .int (.intList [7])]),
                                         ("t", .tuple [.bool, .ann .str (.varRange ["x", "y"])])]⟩],
    start := 0, considered := [1, 2, 3, 4] }

def exLG : Grammar := analyse exLSpec

/-- `Seq([Lit(0), Opt(7, (true, "x"))], true)` -/
def exLV : Val :=
  .node 3 0 0 [.list 0 0 [.node 1 0 0 [.int 0], .node 4 0 0 [.int 7, .tuple [.bool true, .str "x"]]],
    .bool true]

def erasedResultIs (r : Res Val) (v : Val) : Bool :=
  match r with
  | .ok v' _ => v'.erase == v
  | .err _ _ => false

theorem mem_of_any_beq (l : List Val) (v : Val) (h : (l.any (· == v)) = true) : v ∈ l := by
  obtain ⟨y, hy, hyv⟩ := List.any_eq_true.1 h
  rw [← (val_beq_iff y v).1 hyv]; exact hy

end GEVerif.Language
