/-
  Lemmas about the genotype operators (C06) and the genotype → phenotype mappings (C07):
  list surgery, keyed gene tables, lawfulness of the hand-written `BEq` instances, and the
  lifting of state invariants / replay through `createNode`.
-/
import GEVerif.Model.Linear
import GEVerif.Model.TreeOps
import GEVerif.Lemmas.SynM

namespace GEVerif.Genotype
open GEVerif

/-! ### `==` on `Ty` and `Val` -/

deriving instance ReflBEq for GEVerif.MH
deriving instance LawfulBEq for GEVerif.MH

mutual
theorem Ty.beq_iff : ∀ (a b : Ty), Ty.beq a b = true ↔ a = b
  | .int, b => by cases b <;> simp [Ty.beq]
  | .float, b => by cases b <;> simp [Ty.beq]
  | .str, b => by cases b <;> simp [Ty.beq]
  | .bool, b => by cases b <;> simp [Ty.beq]
  | .cls n, b => by cases b <;> simp [Ty.beq]
  | .list t, b => by
      cases b <;> simp [Ty.beq]
      exact Ty.beq_iff t _
  | .tuple ts, b => by
      cases b <;> simp [Ty.beq]
      exact Ty.beqList_iff ts _
  | .union ts, b => by
      cases b <;> simp [Ty.beq]
      exact Ty.beqList_iff ts _
  | .ann t m, b => by
      cases b <;> simp [Ty.beq]
      rename_i t' m'
      have := Ty.beq_iff t t'
      simp [this]
theorem Ty.beqList_iff : ∀ (a b : List Ty), Ty.beqList a b = true ↔ a = b
  | [], b => by cases b <;> simp [Ty.beqList]
  | x :: xs, b => by
      cases b <;> simp [Ty.beqList]
      rename_i y ys
      have h1 := Ty.beq_iff x y
      have h2 := Ty.beqList_iff xs ys
      simp [h1, h2]
end

/-- the hand-written structural equality on types is propositional equality -/
instance instLawfulBEqTy : LawfulBEq Ty where
  eq_of_beq {a b} h := (Ty.beq_iff a b).1 h
  rfl {a} := (Ty.beq_iff a a).2 rfl

mutual
theorem Val.beq_refl : ∀ v : Val, Val.beq v v = true
  | .int _ => by simp [Val.beq]
  | .float => by simp [Val.beq]
  | .str _ => by simp [Val.beq]
  | .bool _ => by simp [Val.beq]
  | .node _ _ _ args => by simp [Val.beq, Val.beqList_refl args]
  | .list _ _ vs => by simp [Val.beq, Val.beqList_refl vs]
  | .tuple vs => by simp [Val.beq, Val.beqList_refl vs]
  | .foreign _ => by simp [Val.beq]
theorem Val.beqList_refl : ∀ vs : List Val, Val.beqList vs vs = true
  | [] => by simp [Val.beqList]
  | v :: vs => by simp [Val.beqList, Val.beq_refl v, Val.beqList_refl vs]
end

theorem Val.beq_self (v : Val) : (v == v) = true := Val.beq_refl v

theorem listGetM_getElem? {α : Type} (xs : List α) (i : Nat) (x : α) (s s' : SynSt)
    (h : listGetM xs i s = .ok x s') : xs[i]? = some x := by
  unfold listGetM at h
  cases hy : xs[i]? with
  | some y =>
    rw [hy] at h
    simp only at h
    rw [SynM.pure_ok] at h
    rw [h.1]
  | none =>
    rw [hy] at h
    exact absurd h (throwE_not_ok _ _ _ _)

/-! ### Linear genotypes: one-point crossover and point mutation -/

theorem take_drop_locus (r : Nat) (p1 p2 : List Int) (hl : p1.length = p2.length) :
    (p1.take r ++ p2.drop r).length = p1.length ∧
    ∀ i, i < p1.length →
      ((p1.take r ++ p2.drop r)[i]? = p1[i]? ∨ (p1.take r ++ p2.drop r)[i]? = p2[i]?) := by
  constructor
  · simp; omega
  · intro i hi
    by_cases h : i < r
    · left; rw [List.getElem?_append_left (by simp; omega)]; simp [h]
    · right; rw [List.getElem?_append_right (by simp; omega)]; simp [List.getElem?_drop]
      congr 1; omega

theorem locusOK_of_pointwise (p1 p2 c : List Int) (hl : c.length = p1.length)
    (hl2 : p1.length = p2.length)
    (h : ∀ i, i < p1.length → (c[i]? = p1[i]? ∨ c[i]? = p2[i]?)) : locusOK p1 p2 c = true := by
  unfold locusOK
  rw [List.all_eq_true]
  intro i hi
  rw [List.mem_range] at hi
  have hi1 : i < p1.length := by omega
  have hi2 : i < p2.length := by omega
  have hc := h i hi1
  rw [List.getElem?_eq_getElem hi, List.getElem?_eq_getElem hi1, List.getElem?_eq_getElem hi2] at hc
  rw [List.getElem?_eq_getElem hi, List.getElem?_eq_getElem hi1, List.getElem?_eq_getElem hi2]
  simp only [Option.some.injEq] at hc
  simp only [Bool.or_eq_true, beq_iff_eq]
  exact hc

theorem diffCount_self (a : List Int) : diffCount a a = 0 := by
  induction a with
  | nil => rfl
  | cons x xs ih => simp [diffCount, ih]

theorem diffCount_set (a : List Int) (n : Nat) (v : Int) : diffCount a (a.set n v) ≤ 1 := by
  induction a generalizing n with
  | nil => simp [diffCount]
  | cons x xs ih =>
    cases n with
    | zero => simp [diffCount, diffCount_self]; split <;> omega
    | succ n => simp [diffCount]; exact ih n

/-! ### Structured genotypes: per-key uniform crossover, single-gene mutation -/

theorem drawMask_length (n : Nat) (m : List Bool) (s s' : SynSt) (h : drawMask n s = .ok m s') :
    m.length = n := by
  induction n generalizing m s s' with
  | zero =>
    simp only [drawMask] at h
    rw [SynM.pure_ok] at h
    obtain ⟨rfl, _⟩ := h; rfl
  | succ n ih =>
    simp only [drawMask] at h
    rw [SynM.bind_ok] at h
    obtain ⟨b, s1, _, h⟩ := h
    rw [SynM.bind_ok] at h
    obtain ⟨rest, s2, h2, h⟩ := h
    rw [SynM.pure_ok] at h
    obtain ⟨rfl, _⟩ := h
    simp [ih rest s1 s2 h2]

theorem sgeCrossoverWith_nil (mask : List Bool) (p2 : SGEDna) :
    sgeCrossoverWith mask [] p2 = ([], []) := by
  simp [sgeCrossoverWith]

theorem sgeCrossoverWith_cons (b : Bool) (ms : List Bool) (k : String) (g1 : List Int)
    (rest p2 : SGEDna) :
    sgeCrossoverWith (b :: ms) ((k, g1) :: rest) p2 =
      ((k, if b then g1 else sgeLookup k p2) :: (sgeCrossoverWith ms rest p2).1,
       (k, if b then sgeLookup k p2 else g1) :: (sgeCrossoverWith ms rest p2).2) := by
  cases b <;> simp [sgeCrossoverWith]

/-- the SGE per-key uniform crossover, for every mask that covers parent 1 -/
theorem sgeCrossoverWith_spec (mask : List Bool) (p1 p2 : SGEDna) (hm : p1.length ≤ mask.length) :
    (sgeCrossoverWith mask p1 p2).1.map (·.1) = p1.map (·.1) ∧
    (sgeCrossoverWith mask p1 p2).2.map (·.1) = p1.map (·.1) ∧
    ∀ k, (sgeLookup k (sgeCrossoverWith mask p1 p2).1 = sgeLookup k p1 ∨
          sgeLookup k (sgeCrossoverWith mask p1 p2).1 = sgeLookup k p2) ∧
         (sgeLookup k (sgeCrossoverWith mask p1 p2).2 = sgeLookup k p2 ∨
          sgeLookup k (sgeCrossoverWith mask p1 p2).2 = sgeLookup k p1) := by
  induction p1 generalizing mask with
  | nil =>
    rw [sgeCrossoverWith_nil]
    simp [sgeLookup]
  | cons e rest ih =>
    obtain ⟨k0, g1⟩ := e
    cases mask with
    | nil => simp at hm
    | cons b ms =>
      rw [sgeCrossoverWith_cons]
      obtain ⟨h1, h2, h3⟩ := ih ms (by simpa using hm)
      refine ⟨by simp [h1], by simp [h2], ?_⟩
      intro k
      simp only [sgeLookup]
      by_cases hk : (k0 == k) = true
      · simp only [hk, if_true]
        have hk' : k0 = k := by simpa using hk
        subst hk'
        cases b <;> simp
      · simp only [hk]
        exact h3 k

theorem dsgeCrossoverWith_nil (mask : List Bool) (p2 : DSGEDna) :
    dsgeCrossoverWith mask [] p2 = ([], []) := by
  simp [dsgeCrossoverWith]

theorem dsgeCrossoverWith_cons (b : Bool) (ms : List Bool) (k : Ty) (g1 : List Int)
    (rest p2 : DSGEDna) :
    dsgeCrossoverWith (b :: ms) ((k, g1) :: rest) p2 =
      ((k, if b then g1 else tyLookup k [] p2) :: (dsgeCrossoverWith ms rest p2).1,
       (k, if b then tyLookup k [] p2 else g1) :: (dsgeCrossoverWith ms rest p2).2) := by
  cases b <;> simp [dsgeCrossoverWith]

/-- the dynamic-SGE per-key uniform crossover, for every mask that covers parent 1 -/
theorem dsgeCrossoverWith_spec (mask : List Bool) (p1 p2 : DSGEDna) (hm : p1.length ≤ mask.length) :
    (dsgeCrossoverWith mask p1 p2).1.map (·.1) = p1.map (·.1) ∧
    (dsgeCrossoverWith mask p1 p2).2.map (·.1) = p1.map (·.1) ∧
    ∀ k, (tyLookup k [] (dsgeCrossoverWith mask p1 p2).1 = tyLookup k [] p1 ∨
          tyLookup k [] (dsgeCrossoverWith mask p1 p2).1 = tyLookup k [] p2) ∧
         (tyLookup k [] (dsgeCrossoverWith mask p1 p2).2 = tyLookup k [] p2 ∨
          tyLookup k [] (dsgeCrossoverWith mask p1 p2).2 = tyLookup k [] p1) := by
  induction p1 generalizing mask with
  | nil =>
    rw [dsgeCrossoverWith_nil]
    simp [tyLookup]
  | cons e rest ih =>
    obtain ⟨k0, g1⟩ := e
    cases mask with
    | nil => simp at hm
    | cons b ms =>
      rw [dsgeCrossoverWith_cons]
      obtain ⟨h1, h2, h3⟩ := ih ms (by simpa using hm)
      refine ⟨by simp [h1], by simp [h2], ?_⟩
      intro k
      simp only [tyLookup]
      by_cases hk : (k0 == k) = true
      · simp only [hk, if_true]
        have hk' : k0 = k := by simpa using hk
        subst hk'
        cases b <;> simp
      · simp only [hk]
        exact h3 k

theorem sgeSet_eq_set (dna : SGEDna) (i : Nat) (k : String) (genes v : List Int)
    (hnd : (dna.map (·.1)).Nodup) (h : dna[i]? = some (k, genes)) :
    sgeSet k v dna = dna.set i (k, v) := by
  induction dna generalizing i with
  | nil => simp at h
  | cons e rest ih =>
    obtain ⟨k', g'⟩ := e
    cases i with
    | zero =>
      simp at h
      obtain ⟨rfl, rfl⟩ := h
      simp [sgeSet]
    | succ i =>
      simp at h
      simp only [List.map_cons, List.nodup_cons] at hnd
      have hmem : k ∈ rest.map (·.1) := List.mem_map.2 ⟨(k, genes), List.mem_of_getElem? h, rfl⟩
      have hne : (k' == k) = false := by
        simp only [beq_eq_false_iff_ne, ne_eq]
        rintro rfl
        exact hnd.1 hmem
      simp [sgeSet, hne, ih i hnd.2 h]

theorem tySet_eq_set (dna : DSGEDna) (i : Nat) (k : Ty) (genes v : List Int)
    (hnd : (dna.map (·.1)).Nodup) (h : dna[i]? = some (k, genes)) :
    tySet k v dna = dna.set i (k, v) := by
  induction dna generalizing i with
  | nil => simp at h
  | cons e rest ih =>
    obtain ⟨k', g'⟩ := e
    cases i with
    | zero =>
      simp at h
      obtain ⟨rfl, rfl⟩ := h
      simp [tySet]
    | succ i =>
      simp at h
      simp only [List.map_cons, List.nodup_cons] at hnd
      have hmem : k ∈ rest.map (·.1) := List.mem_map.2 ⟨(k, genes), List.mem_of_getElem? h, rfl⟩
      have hne : (k' == k) = false := by
        simp only [beq_eq_false_iff_ne, ne_eq]
        rintro rfl
        exact hnd.1 hmem
      simp [tySet, hne, ih i hnd.2 h]

theorem set_shape {κ : Type} (dna : List (κ × List Int)) (i : Nat) (k : κ) (genes : List Int)
    (h : dna[i]? = some (k, genes)) (n : Nat) (v : Int) :
    (dna.set i (k, genes.set n v)).map (fun e => (e.1, e.2.length)) =
      dna.map (fun e => (e.1, e.2.length)) := by
  induction dna generalizing i with
  | nil => simp
  | cons e rest ih =>
    cases i with
    | zero => simp at h; subst h; simp
    | succ i => simp at h; simp [ih i h]

theorem diffsum_self {κ : Type} (dna : List (κ × List Int)) :
    ((dna.zip dna).map fun ab => diffCount ab.1.2 ab.2.2).sum = 0 := by
  induction dna with
  | nil => simp
  | cons e rest ih => simp [diffCount_self, ih]

theorem set_diffsum {κ : Type} (dna : List (κ × List Int)) (i : Nat) (k : κ) (genes : List Int)
    (h : dna[i]? = some (k, genes)) (n : Nat) (v : Int) :
    ((dna.zip (dna.set i (k, genes.set n v))).map fun ab => diffCount ab.1.2 ab.2.2).sum ≤ 1 := by
  induction dna generalizing i with
  | nil => simp
  | cons e rest ih =>
    cases i with
    | zero =>
      simp at h; subst h
      simp [diffsum_self]
      exact diffCount_set genes n v
    | succ i =>
      simp at h
      simp [diffCount_self]
      exact ih i h
/-! ### Trees: sub-values, erasure of the synthesis context -/

mutual
theorem erase_mem_subvalues : ∀ (v x : Val), x ∈ v.subvalues → x.erase ∈ v.erase.subvalues
  | .int _, x, h => by simp [Val.subvalues] at h; subst h; simp [Val.erase, Val.subvalues]
  | .float, x, h => by simp [Val.subvalues] at h; subst h; simp [Val.erase, Val.subvalues]
  | .str _, x, h => by simp [Val.subvalues] at h; subst h; simp [Val.erase, Val.subvalues]
  | .bool _, x, h => by simp [Val.subvalues] at h; subst h; simp [Val.erase, Val.subvalues]
  | .foreign _, x, h => by simp [Val.subvalues] at h; subst h; simp [Val.erase, Val.subvalues]
  | .node c d e args, x, h => by
      simp only [Val.subvalues, List.mem_cons] at h
      simp only [Val.erase, Val.subvalues, List.mem_cons]
      rcases h with rfl | h
      · left; simp [Val.erase]
      · right; exact erase_mem_subvaluesList args x h
  | .list d e vs, x, h => by
      simp only [Val.subvalues, List.mem_cons] at h
      simp only [Val.erase, Val.subvalues, List.mem_cons]
      rcases h with rfl | h
      · left; simp [Val.erase]
      · right; exact erase_mem_subvaluesList vs x h
  | .tuple vs, x, h => by
      simp only [Val.subvalues, List.mem_cons] at h
      simp only [Val.erase, Val.subvalues, List.mem_cons]
      rcases h with rfl | h
      · left; simp [Val.erase]
      · right; exact erase_mem_subvaluesList vs x h
theorem erase_mem_subvaluesList : ∀ (vs : List Val) (x : Val),
    x ∈ Val.subvaluesList vs → x.erase ∈ Val.subvaluesList (Val.eraseList vs)
  | [], x, h => by simp [Val.subvaluesList] at h
  | v :: vs, x, h => by
      simp only [Val.subvaluesList, List.mem_append] at h
      simp only [Val.eraseList, Val.subvaluesList, List.mem_append]
      rcases h with h | h
      · left; exact erase_mem_subvalues v x h
      · right; exact erase_mem_subvaluesList vs x h
end

theorem mem_occurrences (c : Nat) (v x : Val) (h : x ∈ occurrences c v) : x ∈ v.subvalues := by
  unfold occurrences at h
  exact (List.mem_filter.1 h).1

/-- a sub-value of the other parent, put at the root, is a recombination -/
theorem isRecombination_of_subvalue (p1 p2 c : Val) (h : c ∈ p2.subvalues) :
    isRecombination p1 p2 c = true := by
  unfold isRecombination
  simp only [Bool.or_eq_true]
  right
  unfold recombOf
  simp only [Bool.or_eq_true, List.any_eq_true]
  left
  exact ⟨c.erase, erase_mem_subvalues p2 c h, Val.beq_self _⟩

/-- when the other parent holds an instance of the start class, `mutate` at the root picks one -/
theorem mutateRoot_donor (g : Grammar) (dec : Decider) (fuel : Nat) (p q c : Val) (s s' : SynSt)
    (h : mutateRoot g dec fuel p (some q) s = .ok c s')
    (hd : occurrences g.spec.start q ≠ []) (hc : p.ctx ≠ none) :
    c ∈ occurrences g.spec.start q := by
  unfold mutateRoot at h
  cases hctx : p.ctx with
  | none => exact absurd hctx hc
  | some ctx =>
    rw [hctx] at h
    simp only at h
    have hne : (occurrences g.spec.start q).isEmpty = false := by
      cases hq : occurrences g.spec.start q with
      | nil => exact absurd hq hd
      | cons _ _ => rfl
    rw [hne] at h
    simp only [Bool.false_eq_true, if_false] at h
    rw [SynM.bind_ok] at h
    obtain ⟨k, s1, _, h⟩ := h
    exact (listGetM_mem _ _ _ _ _ h).1

/-! ### The concrete data of `C06_tree_crossover_witness` -/

/-- abstract start symbol `A` with productions `Leaf()` and `Node(l : A, r : A)` -/
def witnessSpec : GrammarSpec :=
  { classes := [ ⟨"A", true, none, []⟩, ⟨"Leaf", false, some 0, []⟩,
                 ⟨"Node", false, some 0, [("l", .cls 0), ("r", .cls 0)]⟩ ],
    start := 0, considered := [0, 1, 2] }
def witnessDec : Decider := { kind := .grow, maxDepth := 3 }
def witnessSt (draws : List Nat) : SynSt := { src := .scripted { draws := draws } }
/-- `Node(Leaf, Leaf)` -/
def witnessP1 : Val := .node 2 0 0 [.node 1 1 2 [], .node 1 1 2 []]
/-- `Node(Node(Leaf, Leaf), Leaf)` -/
def witnessP2 : Val := .node 2 0 0 [.node 2 1 2 [.node 1 2 4 [], .node 1 2 4 []], .node 1 1 2 []]
/-- `Node(Node(Leaf, Leaf), Node(Leaf, Leaf))`: what the model's crossover returns as child 1 -/
def witnessC1 : Val :=
  .node 2 0 0 [.node 2 1 2 [.node 1 2 4 [], .node 1 2 4 []], .node 2 1 2 [.node 1 2 4 [], .node 1 2 4 []]]


/-! ### Lifting a predicate on computations through `createNode` -/

def _root_.GEVerif.Res.state {α : Type} : Res α → SynSt
  | .ok _ s => s
  | .err _ s => s

/-- the retry step of `createAbstract`: a `SynthesisException` of `m` is caught and `h` runs on
the state the failed attempt left behind -/
def retryM (m : SynM Val) (k : Val → Val) (h : SynM Val) : SynM Val := fun s =>
  match m s with
  | .ok v s2 => .ok (k v) s2
  | .err .synthesis s2 => h s2
  | .err e s2 => .err e s2

theorem createAbstract_succ (g : Grammar) (dec : Decider) (fuel n : Nat) (prods : List Nat)
    (ctx : Ctx) :
    createAbstract g dec (fuel + 1) n prods ctx =
      if prods.isEmpty then throwE .synthesis else
      chooseProd g dec (.cls n) (prods.map Ty.cls) ctx >>= fun rule =>
        retryM (createNode g dec fuel rule ⟨ctx.depth, ctx.exp + 1⟩ [])
          (fun v => v.setCtx ctx.depth ctx.exp)
          (createAbstract g dec fuel n (prods.filter fun p => !(Ty.cls p == rule)) ctx) := by
  funext s
  rw [createAbstract]
  dsimp only
  split
  · rfl
  · rw [SynM.bind_def]
    cases chooseProd g dec (Ty.cls n) (List.map Ty.cls prods) ctx s with
    | err e s1 => rfl
    | ok rule s1 =>
      simp only [retryM]
      cases createNode g dec fuel rule ⟨ctx.depth, ctx.exp + 1⟩ [] s1 with
      | ok v s2 => rfl
      | err e s2 => cases e <;> rfl

/-- predicates on computations closed under the monadic structure and the global `randint` -/
structure Closed0 (P : ∀ {α : Type}, SynM α → Prop) : Prop where
  pure : ∀ {α : Type} (a : α), P (Pure.pure a : SynM α)
  throwE : ∀ {α : Type} (e : Err), P (throwE e : SynM α)
  bind : ∀ {α β : Type} (m : SynM α) (f : α → SynM β), P m → (∀ a, P (f a)) → P (m >>= f)
  randint : ∀ lo hi, P (randintM lo hi)

/-- … and under everything else `createNode` is built from -/
structure Closed (g : Grammar) (dec : Decider) (P : ∀ {α : Type}, SynM α → Prop) : Prop
    extends Closed0 P where
  decInt : ∀ E lo hi, P (decIntM dec E lo hi)
  decFloat : P (decFloatM dec)
  decBool : P (decBoolM dec)
  floatDraw : P floatDrawM
  chooseProd : ∀ key alts ctx, P (chooseProd g dec key alts ctx)
  retry : ∀ (m : SynM Val) (k : Val → Val) (h : SynM Val), P m → P h → P (retryM m k h)

section
variable {P : ∀ {α : Type}, SynM α → Prop}

theorem Closed0.of_choiceIdx (hP : Closed0 P) (n : Nat) : P (choiceIdxM n) := by
  unfold choiceIdxM
  split
  · exact hP.throwE _
  · exact hP.bind _ _ (hP.randint _ _) (fun _ => hP.pure _)

theorem Closed0.of_listGet (hP : Closed0 P) {α : Type} (xs : List α) (i : Nat) : P (listGetM xs i) := by
  unfold listGetM
  split
  · exact hP.pure _
  · exact hP.throwE _

theorem Closed0.of_resolveDep (hP : Closed0 P) (mh : MH) (deps : List (String × Val)) :
    P (resolveDep mh deps) := by
  unfold resolveDep
  repeat' split
  all_goals first | exact hP.pure _ | exact hP.throwE _

theorem Closed0.of_genChars (hP : Closed0 P) (al : List String) (n : Nat) : P (genChars al n) := by
  induction n with
  | zero => exact hP.pure _
  | succ n ih =>
    unfold genChars
    exact hP.bind _ _ (hP.of_choiceIdx _) fun _ => hP.bind _ _ (hP.of_listGet _ _) fun _ =>
      hP.bind _ _ ih fun _ => hP.pure _

theorem Closed0.of_deciderInt (hP : Closed0 P) (E : Nat) (lo hi : Int) : P (deciderIntM E lo hi) := by
  unfold deciderIntM
  split
  · exact hP.bind _ _ (hP.randint _ _) fun _ => hP.bind _ _ (hP.randint _ _) fun _ =>
      hP.bind _ _ (hP.of_choiceIdx _) fun _ => hP.pure _
  · exact hP.randint _ _
end


/-- closes goals `P (…)` for computations built from `pure`, `throwE`, `>>=`, `randintM`,
`choiceIdxM`, `listGetM` and pure `if`/`match` -/
macro "closed0_auto " h:ident : tactic => `(tactic|
  repeat' (first
    | exact Closed0.throwE $h _
    | exact Closed0.pure $h _
    | exact Closed0.of_listGet $h _ _
    | exact Closed0.of_choiceIdx $h _
    | exact Closed0.randint $h _ _
    | refine Closed0.bind $h _ _ ?_ (fun _ => ?_)
    | dsimp only
    | split))

section
variable {P : ∀ {α : Type}, SynM α → Prop} {g : Grammar} {dec : Decider}

theorem Closed.createNode_all (hP : Closed g dec P) : ∀ fuel,
    (∀ ty ctx deps, P (createNode g dec fuel ty ctx deps)) ∧
    (∀ n prods ctx, P (createAbstract g dec fuel n prods ctx)) ∧
    (∀ fs nctx deps, P (createFields g dec fuel fs nctx deps)) ∧
    (∀ t nctx deps k, P (createElems g dec fuel t nctx deps k)) ∧
    (∀ ts ctx, P (createTuple g dec fuel ts ctx)) := by
  have h0 := hP.toClosed0
  intro fuel
  induction fuel with
  | zero =>
    refine ⟨?_, ?_, ?_, ?_, ?_⟩ <;> intros <;> simp only [createNode, createAbstract, createFields, createElems, createTuple] <;> exact hP.throwE _
  | succ fuel ih =>
    obtain ⟨ihN, ihA, ihF, ihE, ihT⟩ := ih
    refine ⟨?_, ?_, ?_, ?_, ?_⟩
    · intro ty ctx deps
      cases ty with
      | int =>
        simp only [createNode]
        exact hP.bind _ _ (hP.decInt _ _ _) fun _ => hP.pure _
      | float =>
        simp only [createNode]
        exact hP.bind _ _ hP.decFloat fun _ => hP.pure _
      | bool =>
        simp only [createNode]
        exact hP.bind _ _ hP.decBool fun _ => hP.pure _
      | str =>
        simp only [createNode]
        exact hP.pure _
      | tuple ts =>
        simp only [createNode]
        exact hP.bind _ _ (ihT _ _) fun _ => hP.pure _
      | list t =>
        simp only [createNode]
        exact hP.bind _ _ (hP.decInt _ _ _) fun _ => hP.bind _ _ (ihE _ _ _ _) fun _ => hP.pure _
      | union ts =>
        simp only [createNode]
        exact hP.bind _ _ (hP.chooseProd _ _ _) fun _ => hP.bind _ _ (ihN _ _ _) fun _ => hP.pure _
      | cls n =>
        simp only [createNode]
        split
        · exact hP.throwE _
        · split
          · exact ihA _ _ _
          · exact hP.bind _ _ (ihF _ _ _) fun _ => hP.pure _
      | ann base mh =>
        simp only [createNode]
        split
        · exact hP.bind _ _ (h0.of_resolveDep _ _) fun _ => hP.bind _ _ (ihN _ _ _) fun _ => hP.pure _
        · cases mh with
          | intRange lo hi => exact hP.bind _ _ (hP.randint _ _) fun _ => hP.pure _
          | intList xs =>
            exact hP.bind _ _ (h0.of_choiceIdx _) fun _ => hP.bind _ _ (h0.of_listGet _ _) fun _ => hP.pure _
          | varRange opts =>
            exact hP.bind _ _ (h0.of_choiceIdx _) fun _ => hP.bind _ _ (h0.of_listGet _ _) fun _ => hP.pure _
          | listSize lo hi =>
            dsimp only
            split
            · exact hP.bind _ _ (hP.randint _ _) fun _ => hP.bind _ _ (ihE _ _ _ _) fun _ => hP.pure _
            · exact hP.throwE _
          | strSize lo hi al =>
            exact hP.bind _ _ (hP.randint _ _) fun _ => hP.bind _ _ (h0.of_genChars _ _) fun _ => hP.pure _
          | interval mn mx top =>
            exact hP.bind _ _ (hP.randint _ _) fun _ => hP.bind _ _ (hP.randint _ _) fun _ => hP.pure _
          | floatRange => exact hP.bind _ _ hP.floatDraw fun _ => hP.pure _
          | floatList n => exact hP.bind _ _ (h0.of_choiceIdx _) fun _ => hP.pure _
          | depIntRangeLo f hi => exact hP.throwE _
          | depIntRangeHi lo f => exact hP.throwE _
          | depIntRangeSpan fw flo => exact hP.throwE _
          | depListSize f => exact hP.throwE _
          | depVarFrom f => exact hP.throwE _
    · intro n prods ctx
      rw [createAbstract_succ]
      split
      · exact hP.throwE _
      · exact hP.bind _ _ (hP.chooseProd _ _ _) fun _ => hP.retry _ _ _ (ihN _ _ _) (ihA _ _ _)
    · intro fs nctx deps
      cases fs with
      | nil => simp only [createFields]; exact hP.pure _
      | cons f fs =>
        obtain ⟨name, t⟩ := f
        simp only [createFields]
        exact hP.bind _ _ (ihN _ _ _) fun _ => hP.bind _ _ (ihF _ _ _) fun _ => hP.pure _
    · intro t nctx deps k
      cases k with
      | zero => simp only [createElems]; exact hP.pure _
      | succ k =>
        simp only [createElems]
        exact hP.bind _ _ (ihN _ _ _) fun _ => hP.bind _ _ (ihE _ _ _ _) fun _ => hP.pure _
    · intro ts ctx
      cases ts with
      | nil => simp only [createTuple]; exact hP.pure _
      | cons t ts =>
        simp only [createTuple]
        exact hP.bind _ _ (ihN _ _ _) fun _ => hP.bind _ _ (ihT _ _) fun _ => hP.pure _
end

/-! ### Single-run invariants: relations between the state before and after -/

/-- every run of `m` relates its initial state to its final state (ok and err alike) -/
def Respects (R : SynSt → SynSt → Prop) {α : Type} (m : SynM α) : Prop := ∀ s, R s (m s).state

/-- a reflexive, transitive relation on states respected by the three state-changing primitives -/
structure StepRel (R : SynSt → SynSt → Prop) : Prop where
  refl : ∀ s, R s s
  trans : ∀ a b c, R a b → R b c → R a c
  raw : ∀ lo hi, Respects R (rawRandintM lo hi)
  read : ∀ k, Respects R (dsgeRead k)
  expanding : ∀ s e, R s { s with expanding := e }

section
variable {R : SynSt → SynSt → Prop}

theorem StepRel.bind (hR : StepRel R) {α β : Type} (m : SynM α) (f : α → SynM β)
    (hm : Respects R m) (hf : ∀ a, Respects R (f a)) : Respects R (m >>= f) := by
  intro s
  rw [SynM.bind_def]
  have h1 := hm s
  cases hms : m s with
  | ok a s1 =>
    rw [hms] at h1
    exact hR.trans _ _ _ h1 (hf a s1)
  | err e s1 =>
    rw [hms] at h1
    exact h1

theorem StepRel.dsgeInt (hR : StepRel R) (lo hi : Int) : Respects R (dsgeIntM lo hi) := by
  unfold dsgeIntM
  refine hR.bind _ _ (hR.read _) fun v => ?_
  split
  · exact fun s => hR.refl s
  · exact fun s => hR.refl s

theorem StepRel.closed0 (hR : StepRel R) : Closed0 (fun {α} (m : SynM α) => Respects R m) where
  pure a := fun s => hR.refl s
  throwE e := fun s => hR.refl s
  bind m f hm hf := hR.bind m f hm hf
  randint lo hi := by
    intro s
    unfold randintM
    split
    · exact hR.dsgeInt lo hi s
    · exact hR.raw lo hi s

theorem StepRel.closed (hR : StepRel R) (g : Grammar) (dec : Decider) :
    Closed g dec (fun {α} (m : SynM α) => Respects R m) where
  toClosed0 := hR.closed0
  decInt E lo hi := by
    unfold decIntM
    split
    · exact hR.dsgeInt lo hi
    · exact hR.closed0.of_deciderInt E lo hi
  decFloat := by
    have h0 := hR.closed0
    have hother : Respects R (fun s =>
        match s.src with
        | .scripted _ => (do let _ ← randintM 0 0; pure () : SynM Unit) s
        | .gene _ => (do let _ ← randintM 0 0; let _ ← randintM 0 0; pure () : SynM Unit) s) := by
      intro s
      dsimp only
      split
      · exact h0.bind _ _ (h0.randint _ _) (fun _ => h0.pure _) s
      · exact h0.bind _ _ (h0.randint _ _) (fun _ => h0.bind _ _ (h0.randint _ _) fun _ => h0.pure _) s
    unfold decFloatM
    generalize dec.kind = k
    cases k <;> dsimp only
    all_goals first
      | exact hother
      | exact h0.bind _ _ (hR.read _) (fun _ => h0.pure _)
  decBool := by
    have h0 := hR.closed0
    unfold decBoolM
    split
    · exact h0.bind _ _ (hR.read _) fun _ => h0.pure _
    · exact h0.bind _ _ (h0.of_choiceIdx _) fun _ => h0.pure _
  floatDraw := by
    have h0 := hR.closed0
    intro s
    unfold floatDrawM
    split
    · exact h0.bind _ _ (hR.read _) (fun _ => h0.pure _) s
    · exact h0.bind _ _ (hR.raw _ _) (fun _ => h0.pure _) s
  chooseProd key alts ctx := by
    have h0 := hR.closed0
    unfold chooseProd
    split
    · exact h0.throwE _
    · split
      · closed0_auto h0
      · closed0_auto h0
      · intro s
        dsimp only
        exact hR.trans _ _ _ (hR.expanding s _)
          (h0.bind _ _ (h0.of_choiceIdx _) (fun _ => h0.of_listGet _ _) _)
      · refine h0.bind _ _ (hR.read _) fun _ => ?_
        closed0_auto h0
      · closed0_auto h0
  retry m k h hm hh := by
    intro s
    unfold retryM
    have h1 := hm s
    cases hms : m s with
    | ok v s2 => rw [hms] at h1; exact h1
    | err e s2 =>
      rw [hms] at h1
      cases e with
      | synthesis => exact hR.trans _ _ _ h1 (hh s2)
      | library => exact h1
      | foreign _ => exact h1
end

/-! ### Keyed gene tables -/

theorem tyLookup_tySet {α : Type} (k k' : Ty) (d v : α) (l : List (Ty × α)) :
    tyLookup k' d (tySet k v l) = if k' == k then v else tyLookup k' d l := by
  induction l with
  | nil =>
    simp only [tySet, tyLookup]
    by_cases h : k = k'
    · subst h; simp
    · have h' : ¬ k' = k := fun e => h e.symm
      simp [h, h']
  | cons e rest ih =>
    obtain ⟨k0, v0⟩ := e
    simp only [tySet]
    by_cases h0 : k0 = k
    · subst h0
      simp only [beq_self_eq_true, if_true, tyLookup]
      by_cases h : k0 = k'
      · subst h; simp
      · have h' : ¬ k' = k0 := fun e => h e.symm
        simp [h, h']
    · have hb : (k0 == k) = false := by simpa using h0
      simp only [hb, Bool.false_eq_true, if_false, tyLookup, ih]
      by_cases h : k0 = k'
      · subst h
        simp [h0]
      · simp [h]

/-- writing back what is stored under a present key changes nothing -/
theorem tySet_tyLookup_self (k : Ty) (l : List (Ty × List Int)) (h : tyLookup k [] l ≠ []) :
    tySet k (tyLookup k [] l) l = l := by
  induction l with
  | nil => simp [tyLookup] at h
  | cons e rest ih =>
    obtain ⟨k0, v0⟩ := e
    by_cases h0 : k0 = k
    · subst h0
      simp [tySet, tyLookup]
    · have hb : (k0 == k) = false := by simpa using h0
      simp only [tyLookup, hb, Bool.false_eq_true, if_false] at h ⊢
      simp only [tySet, hb, Bool.false_eq_true, if_false, ih h]

/-- key-wise prefix order on dynamic-SGE genotypes -/
def KeyPrefix (d d' : DSGEDna) : Prop := ∀ k, tyLookup k [] d <+: tyLookup k [] d'

theorem KeyPrefix.refl (d : DSGEDna) : KeyPrefix d d := fun _ => List.prefix_refl _
theorem KeyPrefix.trans {a b c : DSGEDna} (h1 : KeyPrefix a b) (h2 : KeyPrefix b c) :
    KeyPrefix a c := fun k => List.IsPrefix.trans (h1 k) (h2 k)

theorem KeyPrefix.tySet (k : Ty) (d : DSGEDna) (genes' : List Int)
    (h : tyLookup k [] d <+: genes') : KeyPrefix d (tySet k genes' d) := by
  intro k'
  rw [tyLookup_tySet]
  split
  · rename_i hk
    have hk' : k' = k := by simpa using hk
    subst hk'; exact h
  · exact List.prefix_refl _

/-! ### `extendGenes` and `dsgeRead` -/

theorem rawRandintM_gene_ok (s : SynSt) :
    ∃ v src', rawRandintM 0 MAX_GENE_VALUE s = .ok v { s with src := src' } ∧
      (∀ x, s.src = .gene x → ∃ y, src' = .gene y ∧ y.dna = x.dna) := by
  unfold rawRandintM
  have : ¬ (MAX_GENE_VALUE < 0) := by decide
  simp only [this, if_false]
  refine ⟨_, _, rfl, ?_⟩
  intro x hx
  rw [hx]
  exact ⟨_, rfl, rfl⟩

/-- `extendGenes` never fails; it appends to the gene list, touches only the random source, and
reaches position `n` when given the fuel `dsgeRead` gives it -/
theorem extendGenes_spec (fuel : Nat) (genes : List Int) (n : Nat) (s : SynSt) :
    ∃ genes' src', extendGenes fuel genes n s = .ok genes' { s with src := src' } ∧
      genes <+: genes' ∧ (n + 1 ≤ fuel + genes.length → n < genes'.length) ∧
      (n < genes.length → genes' = genes ∧ src' = s.src) ∧
      (∀ x, s.src = .gene x → ∃ y, src' = .gene y ∧ y.dna = x.dna) := by
  induction fuel generalizing genes s with
  | zero =>
    refine ⟨genes, s.src, rfl, List.prefix_refl _, ?_, fun _ => ⟨rfl, rfl⟩, fun x hx => ⟨x, hx, rfl⟩⟩
    intro h; omega
  | succ fuel ih =>
    unfold extendGenes
    by_cases hn : n < genes.length
    · simp only [hn, if_true]
      exact ⟨genes, s.src, rfl, List.prefix_refl _, fun _ => hn, fun _ => ⟨rfl, rfl⟩,
        fun x hx => ⟨x, hx, rfl⟩⟩
    · simp only [hn, if_false]
      obtain ⟨v, src1, h1, hg1⟩ := rawRandintM_gene_ok s
      rw [SynM.bind_def, h1]
      dsimp only
      obtain ⟨genes', src', h2, hp, hlen, _, hg2⟩ := ih (genes ++ [v]) { s with src := src1 }
      refine ⟨genes', src', h2, ?_, ?_, fun h => h.elim, ?_⟩
      · exact List.IsPrefix.trans (List.prefix_append _ _) hp
      · intro h; apply hlen; simp; omega
      · intro x hx
        obtain ⟨y, hy, hyd⟩ := hg1 x hx
        obtain ⟨z, hz, hzd⟩ := hg2 y hy
        exact ⟨z, hz, hzd.trans hyd⟩

/-- full description of one `DynamicSGEDecider.read` -/
theorem dsgeRead_spec (k : Ty) (s : SynSt) :
    ∃ genes' src',
      dsgeRead k s = .ok (genes'.getD (tyLookup k 0 s.pos) 0)
        { s with src := src', dna := tySet k genes' s.dna,
                 pos := tySet k (tyLookup k 0 s.pos + 1) s.pos } ∧
      tyLookup k [] s.dna <+: genes' ∧ tyLookup k 0 s.pos < genes'.length ∧
      (tyLookup k 0 s.pos < (tyLookup k [] s.dna).length →
        genes' = tyLookup k [] s.dna ∧ src' = s.src) ∧
      (∀ x, s.src = .gene x → ∃ y, src' = .gene y ∧ y.dna = x.dna) := by
  obtain ⟨genes', src', h, hp, hlen, hsame, hg⟩ :=
    extendGenes_spec (tyLookup k 0 s.pos + 1 - (tyLookup k [] s.dna).length)
      (tyLookup k [] s.dna) (tyLookup k 0 s.pos) s
  refine ⟨genes', src', ?_, hp, hlen (by omega), hsame, hg⟩
  unfold dsgeRead
  dsimp only
  rw [h]

/-! ### The two single-run invariants of C07 -/

/-- a genotype-backed source stays a genotype-backed source over the same genes -/
def GeneKept (s s' : SynSt) : Prop :=
  ∀ x, s.src = .gene x → ∃ y, s'.src = .gene y ∧ y.dna = x.dna

theorem rawRandintM_state (lo hi : Int) (s : SynSt) :
    ∃ src', (rawRandintM lo hi s).state = { s with src := src' } ∧
      (∀ x, s.src = .gene x → ∃ y, src' = .gene y ∧ y.dna = x.dna) := by
  unfold rawRandintM
  split
  · exact ⟨s.src, rfl, fun x hx => ⟨x, hx, rfl⟩⟩
  · refine ⟨_, rfl, ?_⟩
    intro x hx
    rw [hx]
    exact ⟨_, rfl, rfl⟩

theorem geneKept_stepRel : StepRel GeneKept where
  refl s := fun x hx => ⟨x, hx, rfl⟩
  trans a b c h1 h2 := fun x hx => by
    obtain ⟨y, hy, hyd⟩ := h1 x hx
    obtain ⟨z, hz, hzd⟩ := h2 y hy
    exact ⟨z, hz, hzd.trans hyd⟩
  raw lo hi := fun s => by
    obtain ⟨src', h, hg⟩ := rawRandintM_state lo hi s
    rw [h]; exact hg
  read k := fun s => by
    obtain ⟨genes', src', h, _, _, _, hg⟩ := dsgeRead_spec k s
    rw [h]; exact hg
  expanding s e := fun x hx => ⟨x, hx, rfl⟩

/-- the dynamic-SGE genotype only grows, key by key -/
def DnaGrows (s s' : SynSt) : Prop := KeyPrefix s.dna s'.dna

theorem dnaGrows_stepRel : StepRel DnaGrows where
  refl s := KeyPrefix.refl _
  trans a b c h1 h2 := KeyPrefix.trans h1 h2
  raw lo hi := fun s => by
    obtain ⟨src', h, _⟩ := rawRandintM_state lo hi s
    rw [h]; exact KeyPrefix.refl _
  read k := fun s => by
    obtain ⟨genes', src', h, hp, _, _, _⟩ := dsgeRead_spec k s
    rw [h]; exact KeyPrefix.tySet k s.dna genes' hp
  expanding s e := KeyPrefix.refl _

theorem createNode_geneKept (g : Grammar) (dec : Decider) (fuel : Nat) (ty : Ty) (ctx : Ctx)
    (deps : List (String × Val)) (s : SynSt) :
    GeneKept s (createNode g dec fuel ty ctx deps s).state :=
  ((geneKept_stepRel.closed g dec).createNode_all fuel).1 ty ctx deps s

theorem createNode_dnaGrows (g : Grammar) (dec : Decider) (fuel : Nat) (ty : Ty) (ctx : Ctx)
    (deps : List (String × Val)) (s : SynSt) :
    KeyPrefix s.dna (createNode g dec fuel ty ctx deps s).state.dna :=
  ((dnaGrows_stepRel.closed g dec).createNode_all fuel).1 ty ctx deps s


/-! ### Replay: mapping the extended genotype again -/

/-- same program, or same exception -/
def SameOut {α : Type} : Res α → Res α → Prop
  | .ok a _, .ok b _ => a = b
  | .err e _, .err f _ => e = f
  | _, _ => False

/-- `m` can be replayed: run 1 from `a` only extends the genotype; and run 2 from ANY state `b`
with the same read positions whose genotype already contains (key-wise) everything run 1 ends
with gives the same outcome, ends at the same positions, and neither changes its genotype nor
touches its random source. -/
def Replay {α : Type} (m : SynM α) : Prop :=
  ∀ a, a.metaFromGenes = true →
    (m a).state.metaFromGenes = true ∧ KeyPrefix a.dna (m a).state.dna ∧
    ∀ b, b.metaFromGenes = true → b.pos = a.pos → KeyPrefix (m a).state.dna b.dna →
      SameOut (m a) (m b) ∧ (m b).state.pos = (m a).state.pos ∧ (m b).state.dna = b.dna ∧
      (m b).state.src = b.src ∧ (m b).state.metaFromGenes = true

theorem Replay.congr {α : Type} {m m' : SynM α} (h : ∀ s, s.metaFromGenes = true → m s = m' s)
    (hm : Replay m') : Replay m := by
  intro a ha
  rw [h a ha]
  obtain ⟨h1, h2, h3⟩ := hm a ha
  refine ⟨h1, h2, ?_⟩
  intro b hb
  rw [h b hb]
  exact h3 b hb

theorem Replay.pure {α : Type} (x : α) : Replay (Pure.pure x : SynM α) := by
  intro a ha
  refine ⟨ha, KeyPrefix.refl _, ?_⟩
  intro b hb hpos _
  exact ⟨rfl, hpos, rfl, rfl, hb⟩

theorem Replay.throwE {α : Type} (e : Err) : Replay (throwE e : SynM α) := by
  intro a ha
  refine ⟨ha, KeyPrefix.refl _, ?_⟩
  intro b hb hpos _
  exact ⟨rfl, hpos, rfl, rfl, hb⟩

theorem Replay.bind {α β : Type} (m : SynM α) (f : α → SynM β) (hm : Replay m)
    (hf : ∀ x, Replay (f x)) : Replay (m >>= f) := by
  intro a ha
  obtain ⟨hm1, hm2, hm3⟩ := hm a ha
  simp only [SynM.bind_def]
  cases hma : m a with
  | err e a1 =>
    rw [hma] at hm1 hm2 hm3
    refine ⟨hm1, hm2, ?_⟩
    intro b hb hpos hpre
    obtain ⟨h1, h2, h3, h4, h5⟩ := hm3 b hb hpos hpre
    cases hmb : m b with
    | ok x' b1 => rw [hmb] at h1; exact h1.elim
    | err e' b1 =>
      rw [hmb] at h1 h2 h3 h4 h5
      exact ⟨h1, h2, h3, h4, h5⟩
  | ok x a1 =>
    rw [hma] at hm1 hm2 hm3
    obtain ⟨hf1, hf2, hf3⟩ := hf x a1 hm1
    refine ⟨hf1, hm2.trans hf2, ?_⟩
    intro b hb hpos hpre
    obtain ⟨h1, h2, h3, h4, h5⟩ := hm3 b hb hpos (hf2.trans hpre)
    cases hmb : m b with
    | err e' b1 => rw [hmb] at h1; exact h1.elim
    | ok x' b1 =>
      rw [hmb] at h1 h2 h3 h4 h5
      have hx : x = x' := h1
      subst hx
      simp only [Res.state] at h2 h3 h4 h5
      obtain ⟨g1, g2, g3, g4, g5⟩ := hf3 b1 h5 h2 (by rw [h3]; exact hpre)
      exact ⟨g1, g2, g3.trans h3, g4.trans h4, g5⟩

theorem Replay.dsgeRead (k : Ty) : Replay (dsgeRead k) := by
  intro a ha
  obtain ⟨genes', src', h, hp, hlen, _, _⟩ := dsgeRead_spec k a
  rw [h]
  simp only [Res.state]
  refine ⟨ha, KeyPrefix.tySet k a.dna genes' hp, ?_⟩
  intro b hb hpos hpre
  have hk := hpre k
  rw [tyLookup_tySet] at hk
  simp only [beq_self_eq_true, if_true] at hk
  -- run 2 finds the gene in place
  obtain ⟨gb, srcb, hB, _, _, hsame, _⟩ := dsgeRead_spec k b
  have hlenb : tyLookup k 0 b.pos < (tyLookup k [] b.dna).length := by
    rw [hpos]; exact Nat.lt_of_lt_of_le hlen hk.length_le
  obtain ⟨rfl, rfl⟩ := hsame hlenb
  rw [hB]
  simp only
  have hne : tyLookup k [] b.dna ≠ [] := by
    intro h0; rw [h0] at hlenb; simp at hlenb
  refine ⟨?_, by rw [hpos], tySet_tyLookup_self k b.dna hne, trivial, hb⟩
  show genes'.getD _ 0 = (tyLookup k [] b.dna).getD _ 0
  rw [hpos]
  obtain ⟨t, ht⟩ := hk
  rw [← ht, List.getD_eq_getElem?_getD, List.getD_eq_getElem?_getD, List.getElem?_append_left hlen]

theorem Replay.dsgeInt (lo hi : Int) : Replay (dsgeIntM lo hi) := by
  unfold dsgeIntM
  refine Replay.bind _ _ (Replay.dsgeRead _) fun v => ?_
  split
  · exact Replay.throwE _
  · exact Replay.pure _

theorem replay_closed0 : Closed0 (fun {α} (m : SynM α) => Replay m) where
  pure a := Replay.pure a
  throwE e := Replay.throwE e
  bind m f hm hf := Replay.bind m f hm hf
  randint lo hi := by
    refine Replay.congr (m' := dsgeIntM lo hi) ?_ (Replay.dsgeInt lo hi)
    intro s hs
    unfold randintM
    rw [if_pos hs]

/-- for the dynamic-SGE decider every construct of `createNode` can be replayed -/
theorem replay_closed (g : Grammar) (dec : Decider) (hk : dec.kind = .dsge) :
    Closed g dec (fun {α} (m : SynM α) => Replay m) where
  toClosed0 := replay_closed0
  decInt E lo hi := by
    have : decIntM dec E lo hi = dsgeIntM lo hi := by unfold decIntM; rw [hk]
    rw [this]; exact Replay.dsgeInt lo hi
  decFloat := by
    have : decFloatM dec = (do let _ ← dsgeRead .float; pure () : SynM Unit) := by
      unfold decFloatM; rw [hk]
    rw [this]
    exact Replay.bind _ _ (Replay.dsgeRead _) fun _ => Replay.pure _
  decBool := by
    have : decBoolM dec = (do let v ← dsgeRead .bool; pure (v % 2 == 1) : SynM Bool) := by
      unfold decBoolM; rw [hk]
    rw [this]
    exact Replay.bind _ _ (Replay.dsgeRead _) fun _ => Replay.pure _
  floatDraw := by
    refine Replay.congr (m' := (do let _ ← dsgeRead .float; pure () : SynM Unit)) ?_
      (Replay.bind _ _ (Replay.dsgeRead _) fun _ => Replay.pure _)
    intro s hs
    unfold floatDrawM
    rw [if_pos hs]
  chooseProd key alts ctx := by
    have h0 := replay_closed0
    unfold chooseProd
    rw [hk]
    dsimp only
    split
    · exact Replay.throwE _
    · refine Replay.bind _ _ (Replay.dsgeRead _) fun _ => ?_
      closed0_auto h0
  retry m k h hm hh := by
    intro a ha
    obtain ⟨hm1, hm2, hm3⟩ := hm a ha
    simp only [retryM]
    cases hma : m a with
    | ok v a1 =>
      rw [hma] at hm1 hm2 hm3
      refine ⟨hm1, hm2, ?_⟩
      intro b hb hpos hpre
      obtain ⟨h1, h2, h3, h4, h5⟩ := hm3 b hb hpos hpre
      cases hmb : m b with
      | err e' b1 => rw [hmb] at h1; exact h1.elim
      | ok v' b1 =>
        rw [hmb] at h1 h2 h3 h4 h5
        have hv : v = v' := h1
        subst hv
        exact ⟨rfl, h2, h3, h4, h5⟩
    | err e a1 =>
      rw [hma] at hm1 hm2 hm3
      cases e with
      | synthesis =>
        obtain ⟨hf1, hf2, hf3⟩ := hh a1 hm1
        refine ⟨hf1, hm2.trans hf2, ?_⟩
        intro b hb hpos hpre
        obtain ⟨h1, h2, h3, h4, h5⟩ := hm3 b hb hpos (hf2.trans hpre)
        cases hmb : m b with
        | ok v' b1 => rw [hmb] at h1; exact h1.elim
        | err e' b1 =>
          rw [hmb] at h1 h2 h3 h4 h5
          have he : Err.synthesis = e' := h1
          subst he
          simp only [Res.state] at h2 h3 h4 h5
          obtain ⟨g1, g2, g3, g4, g5⟩ := hh a1 hm1 |>.2.2 b1 h5 h2 (by rw [h3]; exact hpre)
          exact ⟨g1, g2, g3.trans h3, g4.trans h4, g5⟩
      | library =>
        refine ⟨hm1, hm2, ?_⟩
        intro b hb hpos hpre
        obtain ⟨h1, h2, h3, h4, h5⟩ := hm3 b hb hpos hpre
        cases hmb : m b with
        | ok v' b1 => rw [hmb] at h1; exact h1.elim
        | err e' b1 =>
          rw [hmb] at h1 h2 h3 h4 h5
          have he : Err.library = e' := h1
          subst he
          exact ⟨rfl, h2, h3, h4, h5⟩
      | foreign name =>
        refine ⟨hm1, hm2, ?_⟩
        intro b hb hpos hpre
        obtain ⟨h1, h2, h3, h4, h5⟩ := hm3 b hb hpos hpre
        cases hmb : m b with
        | ok v' b1 => rw [hmb] at h1; exact h1.elim
        | err e' b1 =>
          rw [hmb] at h1 h2 h3 h4 h5
          have he : Err.foreign name = e' := h1
          subst he
          exact ⟨rfl, h2, h3, h4, h5⟩

theorem createNode_replay (g : Grammar) (dec : Decider) (hk : dec.kind = .dsge) (fuel : Nat)
    (ty : Ty) (ctx : Ctx) (deps : List (String × Val)) : Replay (createNode g dec fuel ty ctx deps) :=
  ((replay_closed g dec hk).createNode_all fuel).1 ty ctx deps

end GEVerif.Genotype
