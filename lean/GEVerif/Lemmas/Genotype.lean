/-
  Lemmas about the genotype operators (C06) and the genotype → phenotype mappings (C07):
  list surgery, keyed gene tables, lawfulness of the hand-written `BEq` instances, and the
  lifting of state invariants / replay through `createNode`.
-/
import GEVerif.Model.Linear
import GEVerif.Model.TreeOps
import GEVerif.Lemmas.SynM

namespace GEVerif.Genotype
open GEVerif

/-! ### `==` on `Ty` and `Val` -/

deriving instance ReflBEq for GEVerif.MH
deriving instance LawfulBEq for GEVerif.MH

mutual
theorem Ty.beq_iff : ∀ (a b : Ty), Ty.beq a b = true ↔ a = b
  | .int, b => by cases b <;> simp [Ty.beq]
  | .float, b => by cases b <;> simp [Ty.beq]
  | .str, b => by cases b <;> simp [Ty.beq]
  | .bool, b => by cases b <;> simp [Ty.beq]
  | .cls n, b => by cases b <;> simp [Ty.beq]
  | .list t, b => by
      cases b <;> simp [Ty.beq]
      exact Ty.beq_iff t _
  | .tuple ts, b => by
      cases b <;> simp [Ty.beq]
      exact Ty.beqList_iff ts _
  | .union ts, b => by
      cases b <;> simp [Ty.beq]
      exact Ty.beqList_iff ts _
  | .ann t m, b => by
      cases b <;> simp [Ty.beq]
      rename_i t' m'
      have := Ty.beq_iff t t'
      simp [this]
theorem Ty.beqList_iff : ∀ (a b : List Ty), Ty.beqList a b = true ↔ a = b
  | [], b => by cases b <;> simp [Ty.beqList]
  | x :: xs, b => by
      cases b <;> simp [Ty.beqList]
      rename_i y ys
      have h1 := Ty.beq_iff x y
      have h2 := Ty.beqList_iff xs ys
      simp [h1, h2]
end

/-- the hand-written structural equality on types is propositional equality -/
instance instLawfulBEqTy : LawfulBEq Ty where
  eq_of_beq {a b} h := (Ty.beq_iff a b).1 h
  rfl {a} := (Ty.beq_iff a a).2 rfl

mutual
theorem Val.beq_refl : ∀ v : Val, Val.beq v v = true
  | .int _ => by simp [Val.beq]
  | .float => by simp [Val.beq]
  | .str _ => by simp [Val.beq]
  | .bool _ => by simp [Val.beq]
  | .node _ _ _ args => by simp [Val.beq, Val.beqList_refl args]
  | .list _ _ vs => by simp [Val.beq, Val.beqList_refl vs]
  | .tuple vs => by simp [Val.beq, Val.beqList_refl vs]
  | .foreign _ => by simp [Val.beq]
theorem Val.beqList_refl : ∀ vs : List Val, Val.beqList vs vs = true
  | [] => by simp [Val.beqList]
  | v :: vs => by simp [Val.beqList, Val.beq_refl v, Val.beqList_refl vs]
end

theorem Val.beq_self (v : Val) : (v == v) = true := Val.beq_refl v

theorem listGetM_getElem? {α : Type} (xs : List α) (i : Nat) (x : α) (s s' : SynSt)
    (h : listGetM xs i s = .ok x s') : xs[i]? = some x := by
  unfold listGetM at h
  cases hy : xs[i]? with
  | some y =>
    rw [hy] at h
    simp only at h
    rw [SynM.pure_ok] at h
    rw [h.1]
  | none =>
    rw [hy] at h
    exact absurd h (throwE_not_ok _ _ _ _)

/-! ### Linear genotypes: one-point crossover and point mutation -/

theorem take_drop_locus (r : Nat) (p1 p2 : List Int) (hl : p1.length = p2.length) :
    (p1.take r ++ p2.drop r).length = p1.length ∧
    ∀ i, i < p1.length →
      ((p1.take r ++ p2.drop r)[i]? = p1[i]? ∨ (p1.take r ++ p2.drop r)[i]? = p2[i]?) := by
  constructor
  · simp; omega
  · intro i hi
    by_cases h : i < r
    · left; rw [List.getElem?_append_left (by simp; omega)]; simp [h]
    · right; rw [List.getElem?_append_right (by simp; omega)]; simp [List.getElem?_drop]
      congr 1; omega

theorem locusOK_of_pointwise (p1 p2 c : List Int) (hl : c.length = p1.length)
    (hl2 : p1.length = p2.length)
    (h : ∀ i, i < p1.length → (c[i]? = p1[i]? ∨ c[i]? = p2[i]?)) : locusOK p1 p2 c = true := by
  unfold locusOK
  rw [List.all_eq_true]
  intro i hi
  rw [List.mem_range] at hi
  have hi1 : i < p1.length := by omega
  have hi2 : i < p2.length := by omega
  have hc := h i hi1
  rw [List.getElem?_eq_getElem hi, List.getElem?_eq_getElem hi1, List.getElem?_eq_getElem hi2] at hc
  rw [List.getElem?_eq_getElem hi, List.getElem?_eq_getElem hi1, List.getElem?_eq_getElem hi2]
  simp only [Option.some.injEq] at hc
  simp only [Bool.or_eq_true, beq_iff_eq]
  exact hc

theorem diffCount_self (a : List Int) : diffCount a a = 0 := by
  induction a with
  | nil => rfl
  | cons x xs ih => simp [diffCount, ih]

theorem diffCount_set (a : List Int) (n : Nat) (v : Int) : diffCount a (a.set n v) ≤ 1 := by
  induction a generalizing n with
  | nil => simp [diffCount]
  | cons x xs ih =>
    cases n with
    | zero => simp [diffCount, diffCount_self]; split <;> omega
    | succ n => simp [diffCount]; exact ih n

/-! ### Structured genotypes: per-key uniform crossover, single-gene mutation -/

theorem drawMask_length (n : Nat) (m : List Bool) (s s' : SynSt) (h : drawMask n s = .ok m s') :
    m.length = n := by
  induction n generalizing m s s' with
  | zero =>
    simp only [drawMask] at h
    rw [SynM.pure_ok] at h
    obtain ⟨rfl, _⟩ := h; rfl
  | succ n ih =>
    simp only [drawMask] at h
    rw [SynM.bind_ok] at h
    obtain ⟨b, s1, _, h⟩ := h
    rw [SynM.bind_ok] at h
    obtain ⟨rest, s2, h2, h⟩ := h
    rw [SynM.pure_ok] at h
    obtain ⟨rfl, _⟩ := h
    simp [ih rest s1 s2 h2]

theorem sgeCrossoverWith_nil (mask : List Bool) (p2 : SGEDna) :
    sgeCrossoverWith mask [] p2 = ([], []) := by
  simp [sgeCrossoverWith]

theorem sgeCrossoverWith_cons (b : Bool) (ms : List Bool) (k : String) (g1 : List Int)
    (rest p2 : SGEDna) :
    sgeCrossoverWith (b :: ms) ((k, g1) :: rest) p2 =
      ((k, if b then g1 else sgeLookup k p2) :: (sgeCrossoverWith ms rest p2).1,
       (k, if b then sgeLookup k p2 else g1) :: (sgeCrossoverWith ms rest p2).2) := by
  cases b <;> simp [sgeCrossoverWith]

/-- the SGE per-key uniform crossover, for every mask that covers parent 1 -/
theorem sgeCrossoverWith_spec (mask : List Bool) (p1 p2 : SGEDna) (hm : p1.length ≤ mask.length) :
    (sgeCrossoverWith mask p1 p2).1.map (·.1) = p1.map (·.1) ∧
    (sgeCrossoverWith mask p1 p2).2.map (·.1) = p1.map (·.1) ∧
    ∀ k, (sgeLookup k (sgeCrossoverWith mask p1 p2).1 = sgeLookup k p1 ∨
          sgeLookup k (sgeCrossoverWith mask p1 p2).1 = sgeLookup k p2) ∧
         (sgeLookup k (sgeCrossoverWith mask p1 p2).2 = sgeLookup k p2 ∨
          sgeLookup k (sgeCrossoverWith mask p1 p2).2 = sgeLookup k p1) := by
  induction p1 generalizing mask with
  | nil =>
    rw [sgeCrossoverWith_nil]
    simp [sgeLookup]
  | cons e rest ih =>
    obtain ⟨k0, g1⟩ := e
    cases mask with
    | nil => simp at hm
    | cons b ms =>
      rw [sgeCrossoverWith_cons]
      obtain ⟨h1, h2, h3⟩ := ih ms (by simpa using hm)
      refine ⟨by simp [h1], by simp [h2], ?_⟩
      intro k
      simp only [sgeLookup]
      by_cases hk : (k0 == k) = true
      · simp only [hk, if_true]
        have hk' : k0 = k := by simpa using hk
        subst hk'
        cases b <;> simp
      · simp only [hk]
        exact h3 k

theorem dsgeCrossoverWith_nil (mask : List Bool) (p2 : DSGEDna) :
    dsgeCrossoverWith mask [] p2 = ([], []) := by
  simp [dsgeCrossoverWith]

theorem dsgeCrossoverWith_cons (b : Bool) (ms : List Bool) (k : Ty) (g1 : List Int)
    (rest p2 : DSGEDna) :
    dsgeCrossoverWith (b :: ms) ((k, g1) :: rest) p2 =
      ((k, if b then g1 else tyLookup k [] p2) :: (dsgeCrossoverWith ms rest p2).1,
       (k, if b then tyLookup k [] p2 else g1) :: (dsgeCrossoverWith ms rest p2).2) := by
  cases b <;> simp [dsgeCrossoverWith]

/-- the dynamic-SGE per-key uniform crossover, for every mask that covers parent 1 -/
theorem dsgeCrossoverWith_spec (mask : List Bool) (p1 p2 : DSGEDna) (hm : p1.length ≤ mask.length) :
    (dsgeCrossoverWith mask p1 p2).1.map (·.1) = p1.map (·.1) ∧
    (dsgeCrossoverWith mask p1 p2).2.map (·.1) = p1.map (·.1) ∧
    ∀ k, (tyLookup k [] (dsgeCrossoverWith mask p1 p2).1 = tyLookup k [] p1 ∨
          tyLookup k [] (dsgeCrossoverWith mask p1 p2).1 = tyLookup k [] p2) ∧
         (tyLookup k [] (dsgeCrossoverWith mask p1 p2).2 = tyLookup k [] p2 ∨
          tyLookup k [] (dsgeCrossoverWith mask p1 p2).2 = tyLookup k [] p1) := by
  induction p1 generalizing mask with
  | nil =>
    rw [dsgeCrossoverWith_nil]
    simp [tyLookup]
  | cons e rest ih =>
    obtain ⟨k0, g1⟩ := e
    cases mask with
    | nil => simp at hm
    | cons b ms =>
      rw [dsgeCrossoverWith_cons]
      obtain ⟨h1, h2, h3⟩ := ih ms (by simpa using hm)
      refine ⟨by simp [h1], by simp [h2], ?_⟩
      intro k
      simp only [tyLookup]
      by_cases hk : (k0 == k) = true
      · simp only [hk, if_true]
        have hk' : k0 = k := by simpa using hk
        subst hk'
        cases b <;> simp
      · simp only [hk]
        exact h3 k

theorem sgeSet_eq_set (dna : SGEDna) (i : Nat) (k : String) (genes v : List Int)
    (hnd : (dna.map (·.1)).Nodup) (h : dna[i]? = some (k, genes)) :
    sgeSet k v dna = dna.set i (k, v) := by
  induction dna generalizing i with
  | nil => simp at h
  | cons e rest ih =>
    obtain ⟨k', g'⟩ := e
    cases i with
    | zero =>
      simp at h
      obtain ⟨rfl, rfl⟩ := h
      simp [sgeSet]
    | succ i =>
      simp at h
      simp only [List.map_cons, List.nodup_cons] at hnd
      have hmem : k ∈ rest.map (·.1) := List.mem_map.2 ⟨(k, genes), List.mem_of_getElem? h, rfl⟩
      have hne : (k' == k) = false := by
        simp only [beq_eq_false_iff_ne, ne_eq]
        rintro rfl
        exact hnd.1 hmem
      simp [sgeSet, hne, ih i hnd.2 h]

theorem tySet_eq_set (dna : DSGEDna) (i : Nat) (k : Ty) (genes v : List Int)
    (hnd : (dna.map (·.1)).Nodup) (h : dna[i]? = some (k, genes)) :
    tySet k v dna = dna.set i (k, v) := by
  induction dna generalizing i with
  | nil => simp at h
  | cons e rest ih =>
    obtain ⟨k', g'⟩ := e
    cases i with
    | zero =>
      simp at h
      obtain ⟨rfl, rfl⟩ := h
      simp [tySet]
    | succ i =>
      simp at h
      simp only [List.map_cons, List.nodup_cons] at hnd
      have hmem : k ∈ rest.map (·.1) := List.mem_map.2 ⟨(k, genes), List.mem_of_getElem? h, rfl⟩
      have hne : (k' == k) = false := by
        simp only [beq_eq_false_iff_ne, ne_eq]
        rintro rfl
        exact hnd.1 hmem
      simp [tySet, hne, ih i hnd.2 h]

theorem set_shape {κ : Type} (dna : List (κ × List Int)) (i : Nat) (k : κ) (genes : List Int)
    (h : dna[i]? = some (k, genes)) (n : Nat) (v : Int) :
    (dna.set i (k, genes.set n v)).map (fun e => (e.1, e.2.length)) =
      dna.map (fun e => (e.1, e.2.length)) := by
  induction dna generalizing i with
  | nil => simp
  | cons e rest ih =>
    cases i with
    | zero => simp at h; subst h; simp
    | succ i => simp at h; simp [ih i h]

theorem diffsum_self {κ : Type} (dna : List (κ × List Int)) :
    ((dna.zip dna).map fun ab => diffCount ab.1.2 ab.2.2).sum = 0 := by
  induction dna with
  | nil => simp
  | cons e rest ih => simp [diffCount_self, ih]

theorem set_diffsum {κ : Type} (dna : List (κ × List Int)) (i : Nat) (k : κ) (genes : List Int)
    (h : dna[i]? = some (k, genes)) (n : Nat) (v : Int) :
    ((dna.zip (dna.set i (k, genes.set n v))).map fun ab => diffCount ab.1.2 ab.2.2).sum ≤ 1 := by
  induction dna generalizing i with
  | nil => simp
  | cons e rest ih =>
    cases i with
    | zero =>
      simp at h; subst h
      simp [diffsum_self]
      exact diffCount_set genes n v
    | succ i =>
      simp at h
      simp [diffCount_self]
      exact ih i h
/-! ### Trees: sub-values, erasure of the synthesis context -/

mutual
theorem erase_mem_subvalues : ∀ (v x : Val), x ∈ v.subvalues → x.erase ∈ v.erase.subvalues
  | .int _, x, h => by simp [Val.subvalues] at h; subst h; simp [Val.erase, Val.subvalues]
  | .float, x, h => by simp [Val.subvalues] at h; subst h; simp [Val.erase, Val.subvalues]
  | .str _, x, h => by simp [Val.subvalues] at h; subst h; simp [Val.erase, Val.subvalues]
  | .bool _, x, h => by simp [Val.subvalues] at h; subst h; simp [Val.erase, Val.subvalues]
  | .foreign _, x, h => by simp [Val.subvalues] at h; subst h; simp [Val.erase, Val.subvalues]
  | .node c d e args, x, h => by
      simp only [Val.subvalues, List.mem_cons] at h
      simp only [Val.erase, Val.subvalues, List.mem_cons]
      rcases h with rfl | h
      · left; simp [Val.erase]
      · right; exact erase_mem_subvaluesList args x h
  | .list d e vs, x, h => by
      simp only [Val.subvalues, List.mem_cons] at h
      simp only [Val.erase, Val.subvalues, List.mem_cons]
      rcases h with rfl | h
      · left; simp [Val.erase]
      · right; exact erase_mem_subvaluesList vs x h
  | .tuple vs, x, h => by
      simp only [Val.subvalues, List.mem_cons] at h
      simp only [Val.erase, Val.subvalues, List.mem_cons]
      rcases h with rfl | h
      · left; simp [Val.erase]
      · right; exact erase_mem_subvaluesList vs x h
theorem erase_mem_subvaluesList : ∀ (vs : List Val) (x : Val),
    x ∈ Val.subvaluesList vs → x.erase ∈ Val.subvaluesList (Val.eraseList vs)
  | [], x, h => by simp [Val.subvaluesList] at h
  | v :: vs, x, h => by
      simp only [Val.subvaluesList, List.mem_append] at h
      simp only [Val.eraseList, Val.subvaluesList, List.mem_append]
      rcases h with h | h
      · left; exact erase_mem_subvalues v x h
      · right; exact erase_mem_subvaluesList vs x h
end

theorem mem_occurrences (c : Nat) (v x : Val) (h : x ∈ occurrences c v) : x ∈ v.subvalues := by
  unfold occurrences at h
  exact (List.mem_filter.1 h).1

/-- a sub-value of the other parent, put at the root, is a recombination -/
theorem isRecombination_of_subvalue (p1 p2 c : Val) (h : c ∈ p2.subvalues) :
    isRecombination p1 p2 c = true := by
  unfold isRecombination
  simp only [Bool.or_eq_true]
  right
  unfold recombOf
  simp only [Bool.or_eq_true, List.any_eq_true]
  left
  exact ⟨c.erase, erase_mem_subvalues p2 c h, Val.beq_self _⟩

/-- when the other parent holds an instance of the start class, `mutate` at the root picks one -/
theorem mutateRoot_donor (g : Grammar) (dec : Decider) (fuel : Nat) (p q c : Val) (s s' : SynSt)
    (h : mutateRoot g dec fuel p (some q) s = .ok c s')
    (hd : occurrences g.spec.start q ≠ []) (hc : p.ctx ≠ none) :
    c ∈ occurrences g.spec.start q := by
  unfold mutateRoot at h
  cases hctx : p.ctx with
  | none => exact absurd hctx hc
  | some ctx =>
    rw [hctx] at h
    simp only at h
    have hne : (occurrences g.spec.start q).isEmpty = false := by
      cases hq : occurrences g.spec.start q with
      | nil => exact absurd hq hd
      | cons _ _ => rfl
    rw [hne] at h
    simp only [Bool.false_eq_true, if_false] at h
    rw [SynM.bind_ok] at h
    obtain ⟨k, s1, _, h⟩ := h
    exact (listGetM_mem _ _ _ _ _ h).1

/-! ### The concrete data of `C06_tree_crossover_witness` -/

/-- abstract start symbol `A` with productions `Leaf()` and `Node(l : A, r : A)` -/
def witnessSpec : GrammarSpec :=
  { classes := [ ⟨"A", true, none, []⟩, ⟨"Leaf", false, some 0, []⟩,
                 ⟨"Node", false, some 0, [("l", .cls 0), ("r", .cls 0)]⟩ ],
    start := 0, considered := [0, 1, 2] }
def witnessDec : Decider := { kind := .grow, maxDepth := 3 }
def witnessSt (draws : List Nat) : SynSt := { src := .scripted { draws := draws } }
/-- `Node(Leaf, Leaf)` -/
def witnessP1 : Val := .node 2 0 0 [.node 1 1 2 [], .node 1 1 2 []]
/-- `Node(Node(Leaf, Leaf), Leaf)` -/
def witnessP2 : Val := .node 2 0 0 [.node 2 1 2 [.node 1 2 4 [], .node 1 2 4 []], .node 1 1 2 []]
/-- `Node(Node(Leaf, Leaf), Node(Leaf, Leaf))`: what the model's crossover returns as child 1 -/
def witnessC1 : Val :=
  .node 2 0 0 [.node 2 1 2 [.node 1 2 4 [], .node 1 2 4 []], .node 2 1 2 [.node 1 2 4 [], .node 1 2 4 []]]

end GEVerif.Genotype
