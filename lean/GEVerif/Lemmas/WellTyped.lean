/-
  Well-typedness of everything `createNode` builds (helper definitions and lemmas for the
  C01 / C02 property theorems; everything lives in `namespace GEVerif.WellTyped`).

  Definitions
  * `tyWF`      — a type expression is well-formed: every refinement sits on the base type it
                  generates values of (`annOK`), `strSize` alphabets are lists of one-character
                  strings, the element type of a size-refined list carries no exposed dependent
                  refinement (`noDeps`).
  * `mhOK`      — the part of `tyWF` that concerns the refinement alone (`strSize` alphabets).
  * `depsOK`    — the sibling values a dependent LIST-SIZE refinement reads are not negative.
  * `fieldsWF`  — `tyWF` of every field + the static counterpart of `depsOK` (`sizeDepsOK`).
  * `grammarWF` — the decidable well-formedness condition on an analysed grammar.
  * `validate`  — the metahandlers' own `validate` methods (IntervalRange as repaired).
  * `Op`, `stepOp`, `runOps` — sequences of create / map / mutate / crossover / select operations.
  * `siblings`  — the earlier siblings (declared name, actual value) of a field position.

  Main lemmas
  * `createOK`        — mutual induction on fuel over `createNode` / `createAbstract` /
                        `createFields` / `createElems` / `createTuple`.
  * `gen_sat_nodep`, `gen_sat`, `resolveDep_spec` — what each refinement's generator produces.
  * `sub_wt`, `sub_selfWt`, `occurrences_wt` — sub-values of well-typed values.
  * `mutateRoot_wt`, `treeCrossover_wt`, `runOps_wt` — variation operators.
-/
import GEVerif.Lemmas.SynM
import GEVerif.Model.Labels
import GEVerif.Model.Linear
import GEVerif.Model.TreeOps

namespace GEVerif.WellTyped
open GEVerif

/-! ### Well-formed type expressions -/

mutual
/-- no dependent refinement is exposed (reachable through `Annotated` / `Union` only) -/
def noDeps : Ty → Bool
  | .ann b mh => !mh.isDep && noDeps b
  | .union ts => noDepsList ts
  | _ => true
def noDepsList : List Ty → Bool
  | [] => true
  | t :: ts => noDeps t && noDepsList ts
end

/-- the refinement `mh` is placed on the base type it generates values of -/
def annOK : Ty → MH → Bool
  | .int, .intRange _ _ => true
  | .int, .intList _ => true
  | .int, .depIntRangeLo _ _ => true
  | .int, .depIntRangeHi _ _ => true
  | .int, .depIntRangeSpan _ _ => true
  | .str, .varRange _ => true
  | .str, .depVarFrom _ => true
  | .str, .strSize _ _ al => al.all fun c => c.length == 1
  | .list t, .listSize _ _ => noDeps t
  | .list t, .depListSize _ => noDeps t
  | .tuple [.int, .int], .interval _ _ _ => true
  | .float, .floatRange => true
  | .float, .floatList _ => true
  | _, _ => false

mutual
def tyWF : Ty → Bool
  | .list t => tyWF t
  | .tuple ts => tysWF ts
  | .union ts => tysWF ts
  | .ann b mh => annOK b mh && tyWF b
  | _ => true
def tysWF : List Ty → Bool
  | [] => true
  | t :: ts => tyWF t && tysWF ts
end

/-- the sibling a dependent list-size refinement reads -/
def mhSizeDep : MH → List String
  | .depListSize f => [f]
  | _ => []

mutual
/-- the siblings read by the exposed dependent list-size refinements of a type -/
def sizeDeps : Ty → List String
  | .ann _ mh => mhSizeDep mh
  | .union ts => sizeDepsList ts
  | _ => []
def sizeDepsList : List Ty → List String
  | [] => []
  | t :: ts => sizeDeps t ++ sizeDepsList ts
end

/-- `ListSizeBetween(n, n)` built from a sibling `n` only means "length = n" when `n ≥ 0`. -/
def depsOK (deps : List (String × Val)) (ty : Ty) : Bool :=
  (sizeDeps ty).all fun f =>
    match lookupVal deps f with
    | some (.int a) => decide (0 ≤ a)
    | _ => true

/-- a field type all of whose values are non-negative integers -/
def nonnegTy : Ty → Bool
  | .ann _ (.intRange lo _) => decide (0 ≤ lo)
  | .ann _ (.intList xs) => xs.all fun x => decide (0 ≤ x)
  | _ => false

def lookupTy (fs : List (String × Ty)) (k : String) : Option Ty :=
  match fs with
  | [] => none
  | (k', t) :: rest => if k' == k then some t else lookupTy rest k

/-- static counterpart of `depsOK`: the (first) earlier sibling a dependent list-size refinement
reads is declared with a non-negative integer type -/
def sizeDepsOK (earlier : List (String × Ty)) (ty : Ty) : Bool :=
  (sizeDeps ty).all fun f =>
    match lookupTy earlier f with
    | some t => nonnegTy t
    | none => true

def fieldsWF (earlier : List (String × Ty)) : List (String × Ty) → Bool
  | [] => true
  | (n, t) :: fs => tyWF t && sizeDepsOK earlier t && fieldsWF (earlier ++ [(n, t)]) fs

/-! ### Well-formed analysed grammars -/

/-- Exactly what the well-typedness proof needs of an analysed grammar:
* a registered class without productions is concrete;
* every abstract class with productions and each of its productions are declared classes, and a
  production has a larger index than its abstract class (Python forces a base class to be
  defined before its subclasses), so the chains of `alts` edges are shorter than
  `classes.length + 1`, the fuel `wt` gives `isProdOf`;
* the fields of every class are well-formed type expressions (`fieldsWF`). -/
def grammarWF (g : Grammar) : Bool :=
  (g.reg.allNodes.all fun
    | .cls n => (g.altsOf n).isSome || !(g.cls n).abstract
    | _ => true)
  && (g.reg.alts.all fun (p, prods) =>
        decide (p < g.spec.classes.length) &&
        prods.all fun c => decide (p < c) && decide (c < g.spec.classes.length))
  && (g.spec.classes.all fun d => fieldsWF [] d.fields)

/-! ### The metahandlers' own `validate` methods

`IntervalRange.validate` is modelled AS REPAIRED (`minimum_length <= length <= maximum_length and
v[1] <= maximum_top_limit`); `Dependent.validate` raises `NotImplementedError` and is `false` here;
floats are structure-only, as in `sat`. -/
def validate (mh : MH) (v : Val) : Bool :=
  match mh, v with
  | .intRange lo hi, .int i => decide (lo ≤ i) && decide (i ≤ hi)
  | .intList xs, .int i => xs.contains i
  | .varRange opts, .str s => opts.contains s
  | .listSize lo hi, .list _ _ vs => decide (lo ≤ vs.length) && decide (vs.length ≤ hi)
  | .strSize lo hi al, .str s =>
      decide (lo ≤ s.length) && decide (s.length ≤ hi) &&
        s.toList.all fun c => al.contains (String.singleton c)
  | .interval mn mx top, .tuple [.int a, .int b] =>
      decide (mn ≤ b - a) && decide (b - a ≤ mx) && decide (b ≤ top)
  | .floatRange, .float => true
  | .floatList _, .float => true
  | _, _ => false

/-! ### Basic facts about `sat`, `wt` and the well-formedness predicates -/

theorem sat_setCtx (mh : MH) (deps : List (String × Val)) (v : Val) (d e : Nat) :
    sat mh deps (v.setCtx d e) = sat mh deps v := by
  cases v <;> cases mh <;> simp [Val.setCtx, sat]

mutual
theorem wt_setCtx (g : Grammar) (deps : List (String × Val)) (d e : Nat) :
    ∀ (ty : Ty) (v : Val), wt g deps ty (v.setCtx d e) = wt g deps ty v
  | .int, v | .float, v | .str, v | .bool, v | .cls _, v | .list _, v | .tuple _, v => by
      cases v <;> simp [Val.setCtx, wt]
  | .union ts, v => by rw [wt, wt]; exact wtUnion_setCtx g deps d e ts v
  | .ann t mh, v => by rw [wt, wt, wt_setCtx g deps d e t v, sat_setCtx]
theorem wtUnion_setCtx (g : Grammar) (deps : List (String × Val)) (d e : Nat) :
    ∀ (ts : List Ty) (v : Val), wtUnion g deps ts (v.setCtx d e) = wtUnion g deps ts v
  | [], v => by rw [wtUnion, wtUnion]
  | t :: ts, v => by rw [wtUnion, wtUnion, wt_setCtx g deps d e t v, wtUnion_setCtx g deps d e ts v]
end

theorem sat_nodep (mh : MH) (deps deps' : List (String × Val)) (v : Val) (h : mh.isDep = false) :
    sat mh deps v = sat mh deps' v := by
  unfold sat
  split <;> first | rfl | (simp [MH.isDep] at h; done)

mutual
theorem wt_noDeps (g : Grammar) (deps deps' : List (String × Val)) :
    ∀ (ty : Ty) (v : Val), noDeps ty = true → wt g deps ty v = wt g deps' ty v
  | .int, v, _ | .float, v, _ | .str, v, _ | .bool, v, _ | .cls _, v, _ | .list _, v, _ | .tuple _, v, _ => by
      cases v <;> simp [wt]
  | .union ts, v, h => by
      rw [wt, wt]; rw [noDeps] at h; exact wtUnion_noDeps g deps deps' ts v h
  | .ann t mh, v, h => by
      rw [noDeps, Bool.and_eq_true, Bool.not_eq_true'] at h
      rw [wt, wt, wt_noDeps g deps deps' t v h.2, sat_nodep mh deps deps' v h.1]
theorem wtUnion_noDeps (g : Grammar) (deps deps' : List (String × Val)) :
    ∀ (ts : List Ty) (v : Val), noDepsList ts = true → wtUnion g deps ts v = wtUnion g deps' ts v
  | [], v, _ => by rw [wtUnion, wtUnion]
  | t :: ts, v, h => by
      rw [noDepsList, Bool.and_eq_true] at h
      rw [wtUnion, wtUnion, wt_noDeps g deps deps' t v h.1, wtUnion_noDeps g deps deps' ts v h.2]
end

mutual
theorem sizeDeps_noDeps : ∀ (ty : Ty), noDeps ty = true → sizeDeps ty = []
  | .int, _ | .float, _ | .str, _ | .bool, _ | .cls _, _ | .list _, _ | .tuple _, _ => by simp [sizeDeps]
  | .union ts, h => by rw [noDeps] at h; rw [sizeDeps]; exact sizeDepsList_noDeps ts h
  | .ann t mh, h => by
      rw [noDeps, Bool.and_eq_true, Bool.not_eq_true'] at h
      rw [sizeDeps]; cases mh <;> simp [MH.isDep] at h <;> rfl
theorem sizeDepsList_noDeps : ∀ (ts : List Ty), noDepsList ts = true → sizeDepsList ts = []
  | [], _ => by rw [sizeDepsList]
  | t :: ts, h => by
      rw [noDepsList, Bool.and_eq_true] at h
      rw [sizeDepsList, sizeDeps_noDeps t h.1, sizeDepsList_noDeps ts h.2]; rfl
end

theorem depsOK_noDeps (deps : List (String × Val)) (ty : Ty) (h : noDeps ty = true) :
    depsOK deps ty = true := by
  simp [depsOK, sizeDeps_noDeps ty h]

theorem depsOK_nil (ty : Ty) : depsOK [] ty = true := by
  simp [depsOK, lookupVal]

/-! ### `isProdOf` -/

theorem getAlts_mem (alts : List (Nat × List Nat)) (n : Nat) (ps : List Nat)
    (h : getAlts alts n = some ps) : (n, ps) ∈ alts := by
  induction alts with
  | nil => simp [getAlts] at h
  | cons a rest ih =>
    obtain ⟨k, v⟩ := a
    rw [getAlts] at h
    split at h
    · rename_i hk
      have : k = n := by simpa using hk
      cases h; subst this; exact List.mem_cons_self
    · exact List.mem_cons_of_mem _ (ih h)

theorem isProdOf_mono (g : Grammar) : ∀ (fuel n c : Nat),
    isProdOf g fuel n c = true → isProdOf g (fuel + 1) n c = true
  | 0, n, c, h => by simp [isProdOf] at h
  | fuel + 1, n, c, h => by
    rw [isProdOf] at h ⊢
    rw [Bool.or_eq_true] at h ⊢
    rcases h with h | h
    · exact Or.inl h
    · right
      cases ha : g.altsOf n with
      | none => rw [ha] at h; simp at h
      | some ps =>
        rw [ha] at h
        simp only [List.any_eq_true] at h ⊢
        obtain ⟨p, hp, hpc⟩ := h
        exact ⟨p, hp, isProdOf_mono g fuel p c hpc⟩

theorem isProdOf_mono_le (g : Grammar) (n c : Nat) : ∀ (a b : Nat), a ≤ b →
    isProdOf g a n c = true → isProdOf g b n c = true := by
  intro a b hab h
  induction hab with
  | refl => exact h
  | step _ ih => exact isProdOf_mono g _ n c ih

/-- the `alts` part of `grammarWF` -/
def altsWF (g : Grammar) : Prop :=
  ∀ n ps, g.altsOf n = some ps → n < g.spec.classes.length ∧
    ∀ c ∈ ps, n < c ∧ c < g.spec.classes.length

theorem isProdOf_enough (g : Grammar) (hwf : altsWF g) : ∀ (fuel n c : Nat),
    n ≤ g.spec.classes.length → isProdOf g fuel n c = true →
    isProdOf g (g.spec.classes.length + 1 - n) n c = true
  | 0, n, c, _, h => by simp [isProdOf] at h
  | fuel + 1, n, c, hn, h => by
    have hL : g.spec.classes.length + 1 - n = (g.spec.classes.length - n) + 1 := by omega
    rw [hL, isProdOf]
    rw [isProdOf, Bool.or_eq_true] at h
    rw [Bool.or_eq_true]
    rcases h with h | h
    · exact Or.inl h
    · right
      cases ha : g.altsOf n with
      | none => rw [ha] at h; simp at h
      | some ps =>
        rw [ha] at h
        simp only [List.any_eq_true] at h ⊢
        obtain ⟨p, hp, hpc⟩ := h
        have hb := (hwf n ps ha).2 p hp
        have ih := isProdOf_enough g hwf fuel p c (by omega) hpc
        exact ⟨p, hp, isProdOf_mono_le g p c _ _ (by omega) ih⟩

/-- closure of `isProdOf` (at the fuel `wt` uses) under taking a production -/
theorem isProdOf_step (g : Grammar) (hwf : altsWF g) (n p c : Nat) (ps : List Nat)
    (ha : g.altsOf n = some ps) (hp : p ∈ ps)
    (h : isProdOf g (g.spec.classes.length + 1) p c = true) :
    isProdOf g (g.spec.classes.length + 1) n c = true := by
  have hb := hwf n ps ha
  have h1 : isProdOf g (g.spec.classes.length + 1 + 1) n c = true := by
    rw [isProdOf, ha, Bool.or_eq_true]; right
    simp only [List.any_eq_true]
    exact ⟨p, hp, h⟩
  have h2 := isProdOf_enough g hwf _ n c (by omega) h1
  exact isProdOf_mono_le g n c _ _ (by omega) h2

theorem isProdOf_self (g : Grammar) (fuel n : Nat) : isProdOf g (fuel + 1) n n = true := by
  simp [isProdOf]

/-! ### `chooseProd` returns one of the alternatives -/

theorem choice_get_mem {α : Type} (c : List α) (x : α) (s s' : SynSt)
    (h : (do let i ← choiceIdxM c.length; listGetM c i : SynM α) s = .ok x s') : x ∈ c := by
  rw [SynM.bind_ok] at h
  obtain ⟨i, s1, _, h2⟩ := h
  exact (listGetM_mem _ _ _ _ _ h2).1

theorem fullCands_sub (g : Grammar) (dec : Decider) (alts : List Ty) (ctx : Ctx) (t : Ty)
    (h : t ∈ fullCands g dec alts ctx) : t ∈ alts := by
  simp only [fullCands] at h
  repeat' split at h
  all_goals first | exact (List.mem_filter.1 h).1 | (simp at h; done)

theorem pigrowCands_sub (g : Grammar) (dec : Decider) (alts : List Ty) (ctx : Ctx) (e : Bool) (t : Ty)
    (h : t ∈ (pigrowCands g dec alts ctx e).2) : t ∈ alts := by
  simp only [pigrowCands] at h
  repeat' split at h
  all_goals first | exact (List.mem_filter.1 h).1 | (simp at h; done)

theorem chooseProd_mem (g : Grammar) (dec : Decider) (key : Ty) (alts : List Ty) (ctx : Ctx)
    (s s' : SynSt) (t : Ty) (h : chooseProd g dec key alts ctx s = .ok t s') : t ∈ alts := by
  obtain ⟨kind, md⟩ := dec
  unfold chooseProd at h
  split at h
  · exact absurd h (throwE_not_ok _ _ _ _)
  · cases kind <;> simp only at h
    · exact (List.mem_filter.1 (choice_get_mem _ _ _ _ h)).1
    · exact fullCands_sub _ _ _ _ _ (choice_get_mem _ _ _ _ h)
    · exact pigrowCands_sub _ _ _ _ _ _ (choice_get_mem _ _ _ _ h)
    · -- progressive: whatever the weights are, the result is read from `alts`
      repeat' split at h
      all_goals first
        | exact absurd h (throwE_not_ok _ _ _ _)
        | exact choice_get_mem _ _ _ _ h
        | (rw [SynM.bind_ok] at h
           obtain ⟨r, s1, _, h2⟩ := h
           generalize pickAcc _ _ = o at h2
           cases o <;> exact (listGetM_mem _ _ _ _ _ h2).1)
    · rw [SynM.bind_ok] at h
      obtain ⟨v, s1, _, h2⟩ := h
      split at h2
      · exact absurd h2 (throwE_not_ok _ _ _ _)
      · exact (List.mem_filter.1 (listGetM_mem _ _ _ _ _ h2).1).1

/-! ### strings of alphabet characters -/

theorem oneChar_singleton (c : String) (h : c.length = 1) : ∃ ch, c = String.singleton ch := by
  have hl : c.toList.length = 1 := by rw [String.length_toList]; exact h
  match hc : c.toList, hl with
  | [ch], _ => exact ⟨ch, String.ext (by rw [hc, String.toList_singleton])⟩

theorem genChars_spec (al : List String) (hal : ∀ c ∈ al, c.length = 1) :
    ∀ (n : Nat) (s s' : SynSt) (str : String), genChars al n s = .ok str s' →
      str.length = n ∧ (str.toList.all fun ch => al.contains (String.singleton ch)) = true
  | 0, s, s', str, h => by
    rw [genChars, SynM.pure_ok] at h
    obtain ⟨rfl, _⟩ := h
    simp
  | n + 1, s, s', str, h => by
    rw [genChars, SynM.bind_ok] at h
    obtain ⟨i, s1, _, h⟩ := h
    rw [SynM.bind_ok] at h
    obtain ⟨c, s2, hc, h⟩ := h
    rw [SynM.bind_ok] at h
    obtain ⟨rest, s3, hr, h⟩ := h
    rw [SynM.pure_ok] at h
    obtain ⟨rfl, _⟩ := h
    have hmem := (listGetM_mem _ _ _ _ _ hc).1
    obtain ⟨ch, rfl⟩ := oneChar_singleton c (hal c hmem)
    obtain ⟨ih1, ih2⟩ := genChars_spec al hal n _ _ _ hr
    constructor
    · rw [String.length_append, String.length_singleton, ih1]; omega
    · rw [String.toList_append, String.toList_singleton, List.all_append, ih2]
      simp [hmem]

/-! ### lookups -/

theorem lookupVal_append (deps : List (String × Val)) (n : String) (v : Val) (k : String) :
    lookupVal (deps ++ [(n, v)]) k =
      match lookupVal deps k with
      | some x => some x
      | none => if n == k then some v else none := by
  induction deps with
  | nil => simp [lookupVal]
  | cons a rest ih =>
    obtain ⟨k', v'⟩ := a
    simp only [List.cons_append, lookupVal]
    split
    · rfl
    · exact ih

/-- `deps` are values of the field declarations `earlier`, in order; values of non-negative
integer types are non-negative integers -/
def aligned : List (String × Val) → List (String × Ty) → Prop
  | [], [] => True
  | (n, v) :: ds, (n', t) :: es =>
      n = n' ∧ (nonnegTy t = true → ∃ a, v = .int a ∧ 0 ≤ a) ∧ aligned ds es
  | _, _ => False

theorem aligned_append : ∀ (deps : List (String × Val)) (earlier : List (String × Ty))
    (n : String) (v : Val) (t : Ty), aligned deps earlier →
    (nonnegTy t = true → ∃ a, v = .int a ∧ 0 ≤ a) → aligned (deps ++ [(n, v)]) (earlier ++ [(n, t)])
  | [], [], _, _, _, _, h => ⟨rfl, h, trivial⟩
  | [], _ :: _, _, _, _, ha, _ => ha.elim
  | _ :: _, [], _, _, _, ha, _ => ha.elim
  | _ :: ds, _ :: es, n, v, t, ha, h =>
    ⟨ha.1, ha.2.1, aligned_append ds es n v t ha.2.2 h⟩

theorem aligned_lookup : ∀ (deps : List (String × Val)) (earlier : List (String × Ty)) (f : String)
    (v : Val), aligned deps earlier → lookupVal deps f = some v →
    ∃ t, lookupTy earlier f = some t ∧ (nonnegTy t = true → ∃ a, v = .int a ∧ 0 ≤ a)
  | [], [], f, v, _, h => by simp [lookupVal] at h
  | [], _ :: _, _, _, ha, _ => ha.elim
  | _ :: _, [], _, _, ha, _ => ha.elim
  | (n1, v1) :: ds, (n2, t2) :: es, f, v, ha, h => by
    obtain ⟨rfl, h1, h2⟩ := ha
    simp only [lookupVal, lookupTy] at h ⊢
    by_cases hk : (n1 == f) = true
    · simp only [hk, if_true, Option.some.injEq] at h ⊢
      subst h
      exact ⟨t2, rfl, h1⟩
    · simp only [hk] at h ⊢
      exact aligned_lookup ds es f v h2 h

theorem depsOK_of_aligned (deps : List (String × Val)) (earlier : List (String × Ty)) (t : Ty)
    (ha : aligned deps earlier) (h : sizeDepsOK earlier t = true) : depsOK deps t = true := by
  simp only [depsOK, sizeDepsOK, List.all_eq_true] at h ⊢
  intro f hf
  have h1 := h f hf
  cases hv : lookupVal deps f with
  | none => rfl
  | some v =>
    obtain ⟨t', ht, hnn⟩ := aligned_lookup deps earlier f v ha hv
    rw [ht] at h1
    obtain ⟨a, rfl, ha0⟩ := hnn h1
    simpa using ha0

/-- a value of a non-negative integer type is a non-negative integer -/
theorem nonneg_of_wt (g : Grammar) (deps : List (String × Val)) (t : Ty) (v : Val)
    (hn : nonnegTy t = true) (hwt : wt g deps t v = true) : ∃ a, v = .int a ∧ 0 ≤ a := by
  unfold nonnegTy at hn
  split at hn
  · rw [wt, Bool.and_eq_true] at hwt
    have hs := hwt.2
    cases v <;> simp [sat] at hs
    rename_i i
    exact ⟨i, rfl, by simp at hn; omega⟩
  · rw [wt, Bool.and_eq_true] at hwt
    have hs := hwt.2
    cases v <;> simp [sat] at hs
    rename_i i
    simp only [List.all_eq_true, decide_eq_true_eq] at hn
    exact ⟨i, rfl, hn i hs⟩
  · cases hn

/-! ### dependent refinements -/

theorem strsOf_mem : ∀ (vs : List Val) (opts : List String), strsOf vs = some opts →
    ∀ s ∈ opts, Val.str s ∈ vs
  | [], opts, h, s, hs => by simp [strsOf] at h; subst h; cases hs
  | .str t :: rest, opts, h, s, hs => by
    simp only [strsOf, Option.map_eq_some_iff] at h
    obtain ⟨o, ho, rfl⟩ := h
    rcases List.mem_cons.1 hs with rfl | hs
    · exact List.mem_cons_self
    · exact List.mem_cons_of_mem _ (strsOf_mem rest o ho s hs)
  | .int _ :: _, _, h, _, _ | .float :: _, _, h, _, _ | .bool _ :: _, _, h, _, _
  | .node .. :: _, _, h, _, _ | .list .. :: _, _, h, _, _ | .tuple _ :: _, _, h, _, _
  | .foreign _ :: _, _, h, _, _ => by simp [strsOf] at h

/-- `Dependent.generate`: the refinement built from the sibling values is not dependent, sits on
the same base type, and a value satisfying it satisfies the dependent refinement read against
the same sibling values. -/
theorem resolveDep_spec (mh mh' : MH) (deps : List (String × Val)) (s s1 : SynSt)
    (hdep : mh.isDep = true) (h : resolveDep mh deps s = .ok mh' s1) :
    mh'.isDep = false ∧ mhSizeDep mh' = [] ∧ (∀ b, annOK b mh = true → annOK b mh' = true) ∧
    (∀ b v, depsOK deps (.ann b mh) = true → sat mh' deps v = true → sat mh deps v = true) := by
  cases mh with
  | depIntRangeLo f hi =>
    simp only [resolveDep] at h
    cases hl : lookupVal deps f with
    | none => simp only [hl] at h; exact absurd h (throwE_not_ok _ _ _ _)
    | some x =>
      simp only [hl] at h
      cases x <;> try (exact absurd h (throwE_not_ok _ _ _ _); done)
      rw [SynM.pure_ok] at h; obtain ⟨rfl, _⟩ := h
      refine ⟨rfl, rfl, ?_, ?_⟩
      · intro b hb; cases b <;> simp_all [annOK]
      · intro _ v _ hs
        cases v <;> simp [sat] at hs ⊢
        rw [hl]; simpa using hs
  | depIntRangeHi lo f =>
    simp only [resolveDep] at h
    cases hl : lookupVal deps f with
    | none => simp only [hl] at h; exact absurd h (throwE_not_ok _ _ _ _)
    | some x =>
      simp only [hl] at h
      cases x <;> try (exact absurd h (throwE_not_ok _ _ _ _); done)
      rw [SynM.pure_ok] at h; obtain ⟨rfl, _⟩ := h
      refine ⟨rfl, rfl, ?_, ?_⟩
      · intro b hb; cases b <;> simp_all [annOK]
      · intro _ v _ hs
        cases v <;> simp [sat] at hs ⊢
        rw [hl]; simpa using hs
  | depIntRangeSpan fw flo =>
    simp only [resolveDep] at h
    cases hw : lookupVal deps fw with
    | none => simp only [hw] at h; exact absurd h (throwE_not_ok _ _ _ _)
    | some x =>
      cases hl : lookupVal deps flo with
      | none =>
        simp only [hw, hl] at h
        cases x <;> exact absurd h (throwE_not_ok _ _ _ _)
      | some y =>
        simp only [hw, hl] at h
        cases x <;> try (exact absurd h (throwE_not_ok _ _ _ _); done)
        cases y <;> try (exact absurd h (throwE_not_ok _ _ _ _); done)
        rw [SynM.pure_ok] at h; obtain ⟨rfl, _⟩ := h
        refine ⟨rfl, rfl, ?_, ?_⟩
        · intro b hb; cases b <;> simp_all [annOK]
        · intro _ v _ hs
          cases v <;> simp [sat] at hs ⊢
          rw [hw, hl]; simpa using hs
  | depListSize f =>
    simp only [resolveDep] at h
    cases hl : lookupVal deps f with
    | none => simp only [hl] at h; exact absurd h (throwE_not_ok _ _ _ _)
    | some x =>
      simp only [hl] at h
      cases x <;> try (exact absurd h (throwE_not_ok _ _ _ _); done)
      rw [SynM.pure_ok] at h; obtain ⟨rfl, _⟩ := h
      refine ⟨rfl, rfl, ?_, ?_⟩
      · intro b hb; cases b <;> simp_all [annOK]
      · intro b v hok hs
        simp only [depsOK, sizeDeps, mhSizeDep, List.all_cons, List.all_nil, Bool.and_true, hl,
          decide_eq_true_eq] at hok
        cases v <;> simp [sat] at hs ⊢
        rw [hl]; simp only [decide_eq_true_eq]; omega
  | depVarFrom f =>
    simp only [resolveDep] at h
    cases hl : lookupVal deps f with
    | none => simp only [hl] at h; exact absurd h (throwE_not_ok _ _ _ _)
    | some x =>
      simp only [hl] at h
      cases x <;> try (exact absurd h (throwE_not_ok _ _ _ _); done)
      rename_i d e vs
      cases hopts : strsOf vs with
      | none => simp only [hopts] at h; exact absurd h (throwE_not_ok _ _ _ _)
      | some opts =>
        simp only [hopts] at h
        cases opts with
        | nil => exact absurd h (throwE_not_ok _ _ _ _)
        | cons o os =>
          simp only at h
          rw [SynM.pure_ok] at h; obtain ⟨rfl, _⟩ := h
          refine ⟨rfl, rfl, ?_, ?_⟩
          · intro b hb; cases b <;> simp_all [annOK]
          · intro _ v _ hs
            cases v <;> simp [sat] at hs ⊢
            rw [hl]; simp only
            have := strsOf_mem vs _ hopts _ (List.mem_cons.2 hs)
            exact List.any_eq_true.2 ⟨_, this, by simp⟩
  | _ => simp [MH.isDep] at hdep

/-! ### What each refinement's generator produces -/

theorem createElems_length (g : Grammar) (dec : Decider) : ∀ (fuel : Nat) (t : Ty) (nctx : Ctx)
    (deps : List (String × Val)) (k : Nat) (s s' : SynSt) (vs : List Val),
    createElems g dec fuel t nctx deps k s = .ok vs s' → vs.length = k
  | 0, _, _, _, _, _, _, _, h => by rw [createElems] at h; exact absurd h (throwE_not_ok _ _ _ _)
  | fuel + 1, t, nctx, deps, 0, s, s', vs, h => by
    rw [createElems, SynM.pure_ok] at h
    obtain ⟨rfl, _⟩ := h; rfl
  | fuel + 1, t, nctx, deps, k + 1, s, s', vs, h => by
    rw [createElems, SynM.bind_ok] at h
    obtain ⟨v, s1, _, h⟩ := h
    rw [SynM.bind_ok] at h
    obtain ⟨rest, s2, hr, h⟩ := h
    rw [SynM.pure_ok] at h
    obtain ⟨rfl, _⟩ := h
    rw [List.length_cons, createElems_length g dec fuel t nctx deps k _ _ _ hr]

/-- refinement parameters are sane where `sat` needs it: `strSize` alphabets consist of
one-character strings -/
def mhOK : MH → Bool
  | .strSize _ _ al => al.all fun c => c.length == 1
  | _ => true

theorem annOK_inv (b : Ty) (mh : MH) (h : annOK b mh = true) :
    mhOK mh = true ∧
    match mh with
    | .intRange .. | .intList _ | .depIntRangeLo .. | .depIntRangeHi .. | .depIntRangeSpan .. => b = .int
    | .varRange _ | .depVarFrom _ | .strSize .. => b = .str
    | .listSize .. | .depListSize _ => ∃ t, b = .list t ∧ noDeps t = true
    | .interval .. => b = .tuple [.int, .int]
    | .floatRange | .floatList _ => b = .float := by
  unfold annOK at h
  split at h <;> first | (cases h; done) | simp_all [mhOK]

/-- the generator of every non-dependent refinement produces a value satisfying it -/
theorem gen_sat_nodep (g : Grammar) (dec : Decider) (fuel : Nat) (base : Ty) (mh : MH) (ctx : Ctx)
    (deps : List (String × Val)) (s s' : SynSt) (v : Val)
    (hnd : mh.isDep = false) (hok : mhOK mh = true)
    (h : createNode g dec fuel (.ann base mh) ctx deps s = .ok v s') : sat mh deps v = true := by
  cases fuel with
  | zero => rw [createNode] at h; exact absurd h (throwE_not_ok _ _ _ _)
  | succ fuel =>
  cases mh with
  | intRange lo hi =>
    rw [createNode, if_neg (by simp [MH.isDep])] at h
    rw [SynM.bind_ok] at h
    obtain ⟨x, s1, hx, h⟩ := h
    rw [SynM.pure_ok] at h; obtain ⟨rfl, _⟩ := h
    have := randintM_bounds _ _ _ _ _ hx
    simpa [sat] using this
  | intList xs =>
    rw [createNode, if_neg (by simp [MH.isDep])] at h
    rw [SynM.bind_ok] at h
    obtain ⟨i, s1, _, h⟩ := h
    rw [SynM.bind_ok] at h
    obtain ⟨x, s2, hx, h⟩ := h
    rw [SynM.pure_ok] at h; obtain ⟨rfl, _⟩ := h
    have := (listGetM_mem _ _ _ _ _ hx).1
    simpa [sat] using this
  | varRange opts =>
    rw [createNode, if_neg (by simp [MH.isDep])] at h
    rw [SynM.bind_ok] at h
    obtain ⟨i, s1, _, h⟩ := h
    rw [SynM.bind_ok] at h
    obtain ⟨x, s2, hx, h⟩ := h
    rw [SynM.pure_ok] at h; obtain ⟨rfl, _⟩ := h
    have := (listGetM_mem _ _ _ _ _ hx).1
    simpa [sat] using this
  | listSize lo hi =>
    cases base with
    | list inner =>
      rw [createNode, if_neg (by simp [MH.isDep])] at h
      rw [SynM.bind_ok] at h
      obtain ⟨size, s1, hsz, h⟩ := h
      rw [SynM.bind_ok] at h
      obtain ⟨vs, s2, hvs, h⟩ := h
      rw [SynM.pure_ok] at h; obtain ⟨rfl, _⟩ := h
      have hb := randintM_bounds _ _ _ _ _ hsz
      have hl := createElems_length _ _ _ _ _ _ _ _ _ _ hvs
      simp only [sat, hl, decide_eq_true_eq]
      omega
    | _ =>
      rw [createNode, if_neg (by simp [MH.isDep])] at h
      all_goals first | exact absurd h (throwE_not_ok _ _ _ _) | (intro inner hc; cases hc)
  | strSize lo hi al =>
    rw [createNode, if_neg (by simp [MH.isDep])] at h
    rw [SynM.bind_ok] at h
    obtain ⟨size, s1, hsz, h⟩ := h
    rw [SynM.bind_ok] at h
    obtain ⟨str, s2, hstr, h⟩ := h
    rw [SynM.pure_ok] at h; obtain ⟨rfl, _⟩ := h
    have hb := randintM_bounds _ _ _ _ _ hsz
    have hal : ∀ c ∈ al, c.length = 1 := by
      simpa [mhOK] using hok
    obtain ⟨h1, h2⟩ := genChars_spec al hal _ _ _ _ hstr
    simp only [sat, h1, h2, Bool.and_true, decide_eq_true_eq]
    omega
  | interval mn mx top =>
    rw [createNode, if_neg (by simp [MH.isDep])] at h
    rw [SynM.bind_ok] at h
    obtain ⟨len, s1, hlen, h⟩ := h
    rw [SynM.bind_ok] at h
    obtain ⟨start, s2, hst, h⟩ := h
    rw [SynM.pure_ok] at h; obtain ⟨rfl, _⟩ := h
    have hb1 := randintM_bounds _ _ _ _ _ hlen
    have hb2 := randintM_bounds _ _ _ _ _ hst
    simp only [sat, decide_eq_true_eq]
    omega
  | floatRange =>
    rw [createNode, if_neg (by simp [MH.isDep])] at h
    rw [SynM.bind_ok] at h
    obtain ⟨_, s1, _, h⟩ := h
    rw [SynM.pure_ok] at h; obtain ⟨rfl, _⟩ := h
    rfl
  | floatList n =>
    rw [createNode, if_neg (by simp [MH.isDep])] at h
    rw [SynM.bind_ok] at h
    obtain ⟨_, s1, _, h⟩ := h
    rw [SynM.pure_ok] at h; obtain ⟨rfl, _⟩ := h
    rfl
  | _ => simp [MH.isDep] at hnd

/-- outside the list refinements, a value satisfying a refinement has the refinement's base type -/
theorem wt_base_of_sat (g : Grammar) (base : Ty) (mh : MH) (deps : List (String × Val)) (v : Val)
    (hann : annOK base mh = true) (hs : sat mh deps v = true)
    (hnl : ∀ lo hi, mh ≠ .listSize lo hi) (hnd : mh.isDep = false) : wt g deps base v = true := by
  have hb := (annOK_inv base mh hann).2
  cases mh <;> simp only [MH.isDep] at hnd <;> try (cases hnd; done)
  all_goals simp only at hb
  all_goals try subst hb
  · cases v <;> simp [sat] at hs; rw [wt]
  · cases v <;> simp [sat] at hs; rw [wt]
  · cases v <;> simp [sat] at hs; rw [wt]
  · exact absurd rfl (hnl _ _)
  · cases v <;> simp [sat] at hs; rw [wt]
  · unfold sat at hs
    split at hs <;> simp_all [wt, wtTuple]
  · cases v <;> simp [sat] at hs; rw [wt]
  · cases v <;> simp [sat] at hs; rw [wt]

/-! ### The main induction: everything `createNode` builds is well-typed -/

/-- the consequences of `grammarWF` the induction uses -/
structure GWF (g : Grammar) : Prop where
  concrete : ∀ n, g.reg.allNodes.contains (.cls n) = true → g.altsOf n = none →
    (g.cls n).abstract = false
  alts : altsWF g
  fields : ∀ n, fieldsWF [] (g.cls n).fields = true

theorem sym_eq_of_beq (a b : Sym) (h : (a == b) = true) : a = b := by
  cases a <;> cases b <;> simp_all [BEq.beq, instBEqSym.beq]

theorem sym_mem_of_contains (l : List Sym) (x : Sym) (h : l.contains x = true) : x ∈ l := by
  induction l with
  | nil => simp at h
  | cons a l ih =>
    rw [List.contains_cons, Bool.or_eq_true] at h
    rcases h with h | h
    · rw [sym_eq_of_beq x a h]; exact List.mem_cons_self
    · exact List.mem_cons_of_mem _ (ih h)

theorem GWF_of_grammarWF (g : Grammar) (h : grammarWF g = true) : GWF g := by
  simp only [grammarWF, Bool.and_eq_true, List.all_eq_true] at h
  obtain ⟨⟨h1, h2⟩, h3⟩ := h
  refine ⟨?_, ?_, ?_⟩
  · intro n hn ha
    have := h1 (.cls n) (sym_mem_of_contains _ _ hn)
    simp only [ha, Option.isSome_none, Bool.false_or, Bool.not_eq_true'] at this
    exact this
  · intro n ps ha
    have hm := getAlts_mem _ _ _ ha
    have := h2 (n, ps) hm
    simp only [decide_eq_true_eq] at this
    exact ⟨this.1, fun c hc => this.2 c hc⟩
  · intro n
    unfold Grammar.cls
    rw [List.getD_eq_getElem?_getD]
    cases hc : g.spec.classes[n]? with
    | none => rfl
    | some d => exact h3 d (List.mem_of_getElem? hc)

/-- the combined statement over the five mutually recursive creation functions -/
def CreateOK (g : Grammar) (dec : Decider) (fuel : Nat) : Prop :=
  (∀ ty ctx deps s v s', tyWF ty = true → depsOK deps ty = true →
      createNode g dec fuel ty ctx deps s = .ok v s' → wt g deps ty v = true) ∧
  (∀ n prods ps0 ctx s v s', g.altsOf n = some ps0 → (∀ p ∈ prods, p ∈ ps0) →
      createAbstract g dec fuel n prods ctx s = .ok v s' → wt g [] (.cls n) v = true) ∧
  (∀ fs earlier nctx deps s vs s', fieldsWF earlier fs = true → aligned deps earlier →
      createFields g dec fuel fs nctx deps s = .ok vs s' → wtFields g deps fs vs = true) ∧
  (∀ t nctx deps k s vs s', tyWF t = true → depsOK deps t = true →
      createElems g dec fuel t nctx deps k s = .ok vs s' → ∀ v ∈ vs, wt g deps t v = true) ∧
  (∀ ts ctx s vs s', tysWF ts = true →
      createTuple g dec fuel ts ctx s = .ok vs s' → wtTuple g ts vs = true)

theorem wtAll_of_forall (g : Grammar) (t : Ty) : ∀ (vs : List Val),
    (∀ v ∈ vs, wt g [] t v = true) → wtAll g t vs = true
  | [], _ => by rw [wtAll]
  | v :: vs, h => by
    rw [wtAll, h v List.mem_cons_self, wtAll_of_forall g t vs fun x hx => h x (List.mem_cons_of_mem _ hx)]
    rfl

theorem wtUnion_of_mem (g : Grammar) (deps : List (String × Val)) (v : Val) (t : Ty) :
    ∀ (ts : List Ty), t ∈ ts → wt g deps t v = true → wtUnion g deps ts v = true
  | [], h, _ => by cases h
  | t' :: ts, h, hw => by
    rw [wtUnion, Bool.or_eq_true]
    rcases List.mem_cons.1 h with rfl | h
    · exact Or.inl hw
    · exact Or.inr (wtUnion_of_mem g deps v t ts h hw)

theorem tyWF_of_mem : ∀ (ts : List Ty) (t : Ty), t ∈ ts → tysWF ts = true → tyWF t = true
  | [], _, h, _ => by cases h
  | t' :: ts, t, h, hw => by
    rw [tysWF, Bool.and_eq_true] at hw
    rcases List.mem_cons.1 h with rfl | h
    · exact hw.1
    · exact tyWF_of_mem ts t h hw.2

theorem sizeDeps_sub_of_mem : ∀ (ts : List Ty) (t : Ty), t ∈ ts → ∀ f ∈ sizeDeps t, f ∈ sizeDepsList ts
  | [], _, h, _, _ => by cases h
  | t' :: ts, t, h, f, hf => by
    rw [sizeDepsList, List.mem_append]
    rcases List.mem_cons.1 h with rfl | h
    · exact Or.inl hf
    · exact Or.inr (sizeDeps_sub_of_mem ts t h f hf)

theorem depsOK_of_mem (deps : List (String × Val)) (ts : List Ty) (t : Ty) (h : t ∈ ts)
    (hd : depsOK deps (.union ts) = true) : depsOK deps t = true := by
  simp only [depsOK, sizeDeps, List.all_eq_true] at hd ⊢
  exact fun f hf => hd f (sizeDeps_sub_of_mem ts t h f hf)

/-- a production of a production is a production -/
theorem wt_cls_step (g : Grammar) (hwf : GWF g) (deps deps' : List (String × Val)) (n p : Nat)
    (ps : List Nat) (v : Val) (ha : g.altsOf n = some ps) (hp : p ∈ ps)
    (h : wt g deps (.cls p) v = true) : wt g deps' (.cls n) v = true := by
  cases v <;> try (simp [wt] at h; done)
  rw [wt] at h ⊢
  simp only [Bool.and_eq_true] at h ⊢
  exact ⟨⟨h.1.1, isProdOf_step g hwf.alts n p _ ps ha hp h.1.2⟩, h.2⟩

theorem createTuple_step (g : Grammar) (dec : Decider) (fuel : Nat) (ih : CreateOK g dec fuel) :
    ∀ ts ctx s vs s', tysWF ts = true →
      createTuple g dec (fuel + 1) ts ctx s = .ok vs s' → wtTuple g ts vs = true := by
  intro ts ctx s vs s' hts h
  cases ts with
  | nil =>
    rw [createTuple, SynM.pure_ok] at h
    obtain ⟨rfl, _⟩ := h
    rw [wtTuple]
  | cons t ts =>
    rw [tysWF, Bool.and_eq_true] at hts
    rw [createTuple, SynM.bind_ok] at h
    obtain ⟨v, s1, hv, h⟩ := h
    rw [SynM.bind_ok] at h
    obtain ⟨rest, s2, hr, h⟩ := h
    rw [SynM.pure_ok] at h
    obtain ⟨rfl, _⟩ := h
    rw [wtTuple, ih.1 _ _ _ _ _ _ hts.1 (depsOK_nil t) hv, ih.2.2.2.2 _ _ _ _ _ hts.2 hr]
    rfl

theorem createElems_step (g : Grammar) (dec : Decider) (fuel : Nat) (ih : CreateOK g dec fuel) :
    ∀ t nctx deps k s vs s', tyWF t = true → depsOK deps t = true →
      createElems g dec (fuel + 1) t nctx deps k s = .ok vs s' → ∀ v ∈ vs, wt g deps t v = true := by
  intro t nctx deps k s vs s' ht hd h
  cases k with
  | zero =>
    rw [createElems, SynM.pure_ok] at h
    obtain ⟨rfl, _⟩ := h
    intro v hv; cases hv
  | succ k =>
    rw [createElems, SynM.bind_ok] at h
    obtain ⟨v, s1, hv, h⟩ := h
    rw [SynM.bind_ok] at h
    obtain ⟨rest, s2, hr, h⟩ := h
    rw [SynM.pure_ok] at h
    obtain ⟨rfl, _⟩ := h
    intro x hx
    rcases List.mem_cons.1 hx with rfl | hx
    · exact ih.1 _ _ _ _ _ _ ht hd hv
    · exact ih.2.2.2.1 _ _ _ _ _ _ _ ht hd hr x hx

theorem createFields_step (g : Grammar) (dec : Decider) (fuel : Nat) (ih : CreateOK g dec fuel) :
    ∀ fs earlier nctx deps s vs s', fieldsWF earlier fs = true → aligned deps earlier →
      createFields g dec (fuel + 1) fs nctx deps s = .ok vs s' → wtFields g deps fs vs = true := by
  intro fs earlier nctx deps s vs s' hfs hal h
  cases fs with
  | nil =>
    rw [createFields, SynM.pure_ok] at h
    obtain ⟨rfl, _⟩ := h
    rw [wtFields]
  | cons f fs =>
    obtain ⟨name, t⟩ := f
    rw [fieldsWF, Bool.and_eq_true, Bool.and_eq_true] at hfs
    obtain ⟨⟨ht, hsd⟩, hrest⟩ := hfs
    rw [createFields, SynM.bind_ok] at h
    obtain ⟨v, s1, hv, h⟩ := h
    rw [SynM.bind_ok] at h
    obtain ⟨rest, s2, hr, h⟩ := h
    rw [SynM.pure_ok] at h
    obtain ⟨rfl, _⟩ := h
    have hwv := ih.1 _ _ _ _ _ _ ht (depsOK_of_aligned deps earlier t hal hsd) hv
    have hal' := aligned_append deps earlier name v t hal fun hn => nonneg_of_wt g deps t v hn hwv
    rw [wtFields, hwv, ih.2.2.1 _ _ _ _ _ _ _ hrest hal' hr]
    rfl

theorem createAbstract_step (g : Grammar) (hwf : GWF g) (dec : Decider) (fuel : Nat)
    (ih : CreateOK g dec fuel) :
    ∀ n prods ps0 ctx s v s', g.altsOf n = some ps0 → (∀ p ∈ prods, p ∈ ps0) →
      createAbstract g dec (fuel + 1) n prods ctx s = .ok v s' → wt g [] (.cls n) v = true := by
  intro n prods ps0 ctx s v s' ha hsub h
  rw [createAbstract] at h
  simp only at h
  split at h
  · cases h
  · cases hc : chooseProd g dec (.cls n) (prods.map Ty.cls) ctx s with
    | err e s1 => rw [hc] at h; cases h
    | ok rule s1 =>
      rw [hc] at h
      simp only at h
      have hmem := chooseProd_mem _ _ _ _ _ _ _ _ hc
      obtain ⟨p, hp, rfl⟩ := List.mem_map.1 hmem
      cases hn : createNode g dec fuel (.cls p) ⟨ctx.depth, ctx.exp + 1⟩ [] s1 with
      | ok v1 s2 =>
        rw [hn] at h
        simp only at h
        cases h
        have := ih.1 _ _ _ _ _ _ (by simp [tyWF]) (depsOK_nil _) hn
        rw [wt_setCtx]
        exact wt_cls_step g hwf [] [] n p ps0 v1 ha (hsub p hp) this
      | err e s2 =>
        rw [hn] at h
        cases e with
        | synthesis =>
          simp only at h
          exact ih.2.1 _ _ _ _ _ _ _ ha
            (fun q hq => hsub q (List.mem_filter.1 hq).1) h
        | library => cases h
        | foreign _ => cases h

theorem createNode_step (g : Grammar) (hwf : GWF g) (dec : Decider) (fuel : Nat)
    (ih : CreateOK g dec fuel) :
    ∀ ty ctx deps s v s', tyWF ty = true → depsOK deps ty = true →
      createNode g dec (fuel + 1) ty ctx deps s = .ok v s' → wt g deps ty v = true := by
  intro ty ctx deps s v s' hty hd h
  cases ty with
  | int =>
    rw [createNode, SynM.bind_ok] at h
    obtain ⟨x, s1, _, h⟩ := h
    rw [SynM.pure_ok] at h; obtain ⟨rfl, _⟩ := h
    rw [wt]
  | float =>
    rw [createNode, SynM.bind_ok] at h
    obtain ⟨x, s1, _, h⟩ := h
    rw [SynM.pure_ok] at h; obtain ⟨rfl, _⟩ := h
    rw [wt]
  | bool =>
    rw [createNode, SynM.bind_ok] at h
    obtain ⟨x, s1, _, h⟩ := h
    rw [SynM.pure_ok] at h; obtain ⟨rfl, _⟩ := h
    rw [wt]
  | str =>
    rw [createNode, SynM.pure_ok] at h
    obtain ⟨rfl, _⟩ := h
    rw [wt]
  | tuple ts =>
    rw [createNode, SynM.bind_ok] at h
    obtain ⟨vs, s1, hvs, h⟩ := h
    rw [SynM.pure_ok] at h; obtain ⟨rfl, _⟩ := h
    rw [tyWF] at hty
    rw [wt]
    exact ih.2.2.2.2 _ _ _ _ _ hty hvs
  | list t =>
    rw [createNode, SynM.bind_ok] at h
    obtain ⟨len, s1, _, h⟩ := h
    rw [SynM.bind_ok] at h
    obtain ⟨vs, s2, hvs, h⟩ := h
    rw [SynM.pure_ok] at h; obtain ⟨rfl, _⟩ := h
    rw [tyWF] at hty
    rw [wt]
    exact wtAll_of_forall g t vs (ih.2.2.2.1 _ _ _ _ _ _ _ hty (depsOK_nil t) hvs)
  | union ts =>
    rw [createNode, SynM.bind_ok] at h
    obtain ⟨t, s1, ht, h⟩ := h
    rw [SynM.bind_ok] at h
    obtain ⟨v1, s2, hv1, h⟩ := h
    rw [SynM.pure_ok] at h; obtain ⟨rfl, _⟩ := h
    rw [tyWF] at hty
    have hmem := chooseProd_mem _ _ _ _ _ _ _ _ ht
    have := ih.1 _ _ _ _ _ _ (tyWF_of_mem ts t hmem hty) (depsOK_of_mem deps ts t hmem hd) hv1
    rw [wt_setCtx, wt]
    exact wtUnion_of_mem g deps v1 t ts hmem this
  | cls n =>
    rw [createNode] at h
    split at h
    · exact absurd h (throwE_not_ok _ _ _ _)
    · rename_i hreg
      rw [Bool.not_eq_true, Bool.not_eq_false'] at hreg
      cases ha : g.altsOf n with
      | some prods =>
        rw [ha] at h
        simp only at h
        have := ih.2.1 _ _ _ _ _ _ _ ha (fun p hp => hp) h
        cases v <;> try (simp [wt] at this; done)
        rw [wt] at this ⊢
        exact this
      | none =>
        rw [ha] at h
        simp only at h
        rw [SynM.bind_ok] at h
        obtain ⟨args, s1, hargs, h⟩ := h
        rw [SynM.pure_ok] at h; obtain ⟨rfl, _⟩ := h
        have hf := ih.2.2.1 _ _ _ _ _ _ _ (hwf.fields n) (show aligned [] [] from trivial) hargs
        rw [wt, hwf.concrete n hreg ha, hreg, isProdOf_self, hf]
        rfl
  | ann base mh =>
    rw [tyWF, Bool.and_eq_true] at hty
    obtain ⟨hann, hbase⟩ := hty
    by_cases hdep : mh.isDep = true
    · rw [createNode.eq_def] at h
      simp only [hdep, if_true] at h
      rw [SynM.bind_ok] at h
      obtain ⟨mh', s1, hres, h⟩ := h
      rw [SynM.bind_ok] at h
      obtain ⟨v1, s2, hv1, h⟩ := h
      rw [SynM.pure_ok] at h; obtain ⟨rfl, _⟩ := h
      obtain ⟨hnd', hsz', hann', hsat'⟩ := resolveDep_spec mh mh' deps s s1 hdep hres
      have hty' : tyWF (.ann base mh') = true := by
        rw [tyWF, hann' base hann, hbase]; rfl
      have hd' : depsOK deps (.ann base mh') = true := by
        simp [depsOK, sizeDeps, hsz']
      have := ih.1 _ _ _ _ _ _ hty' hd' hv1
      rw [wt, Bool.and_eq_true] at this
      rw [wt, wt_setCtx, sat_setCtx, this.1, hsat' base v1 hd this.2]
      rfl
    · rw [Bool.not_eq_true] at hdep
      have hs := gen_sat_nodep g dec (fuel + 1) base mh ctx deps s s' v hdep
        (annOK_inv base mh hann).1 h
      rw [wt, hs, Bool.and_true]
      by_cases hl : ∃ lo hi, mh = .listSize lo hi
      · obtain ⟨lo, hi, rfl⟩ := hl
        obtain ⟨inner, rfl, hno⟩ := (annOK_inv base _ hann).2
        rw [createNode, if_neg (by simp [MH.isDep])] at h
        rw [SynM.bind_ok] at h
        obtain ⟨size, s1, _, h⟩ := h
        rw [SynM.bind_ok] at h
        obtain ⟨vs, s2, hvs, h⟩ := h
        rw [SynM.pure_ok] at h; obtain ⟨rfl, _⟩ := h
        rw [tyWF] at hbase
        have := ih.2.2.2.1 _ _ _ _ _ _ _ hbase (depsOK_noDeps deps inner hno) hvs
        rw [wt]
        exact wtAll_of_forall g inner vs fun x hx => by
          rw [← wt_noDeps g deps [] inner x hno]; exact this x hx
      · exact wt_base_of_sat g base mh deps v hann hs
          (fun lo hi he => hl ⟨lo, hi, he⟩) hdep

theorem createOK (g : Grammar) (hwf : GWF g) (dec : Decider) : ∀ fuel, CreateOK g dec fuel
  | 0 => by
    refine ⟨?_, ?_, ?_, ?_, ?_⟩
    · intro ty ctx deps s v s' _ _ h
      rw [createNode] at h; exact absurd h (throwE_not_ok _ _ _ _)
    · intro n prods ps0 ctx s v s' _ _ h
      rw [createAbstract] at h; exact absurd h (throwE_not_ok _ _ _ _)
    · intro fs earlier nctx deps s vs s' _ _ h
      rw [createFields] at h; exact absurd h (throwE_not_ok _ _ _ _)
    · intro t nctx deps k s vs s' _ _ h
      rw [createElems] at h; exact absurd h (throwE_not_ok _ _ _ _)
    · intro ts ctx s vs s' _ h
      rw [createTuple] at h; exact absurd h (throwE_not_ok _ _ _ _)
  | fuel + 1 =>
    have ih := createOK g hwf dec fuel
    ⟨createNode_step g hwf dec fuel ih, createAbstract_step g hwf dec fuel ih,
     createFields_step g dec fuel ih, createElems_step g dec fuel ih, createTuple_step g dec fuel ih⟩


/-! ### Sub-values of well-typed values -/

mutual
theorem foreign_not_wt (g : Grammar) (deps : List (String × Val)) (tag : String) :
    ∀ ty, wt g deps ty (.foreign tag) = false
  | .int | .float | .str | .bool | .cls _ | .list _ | .tuple _ => by simp [wt]
  | .union ts => by rw [wt]; exact foreign_not_wtUnion g deps tag ts
  | .ann t mh => by rw [wt, foreign_not_wt g deps tag t]; rfl
theorem foreign_not_wtUnion (g : Grammar) (deps : List (String × Val)) (tag : String) :
    ∀ ts, wtUnion g deps ts (.foreign tag) = false
  | [] => by rw [wtUnion]
  | t :: ts => by rw [wtUnion, foreign_not_wt g deps tag t, foreign_not_wtUnion g deps tag ts]; rfl
end

mutual
/-- a node that inhabits any type is an instance of its own class: the node-level check of
`wt` does not depend on the sibling values -/
theorem wt_node_inv (g : Grammar) (deps : List (String × Val)) (c d e : Nat) (args : List Val) :
    ∀ ty, wt g deps ty (.node c d e args) = true → wt g [] (.cls c) (.node c d e args) = true
  | .cls n, h => by
    rw [wt] at h ⊢
    simp only [Bool.and_eq_true] at h ⊢
    exact ⟨⟨h.1.1, isProdOf_self g _ c⟩, h.2⟩
  | .union ts, h => by rw [wt] at h; exact wtUnion_node_inv g deps c d e args ts h
  | .ann t mh, h => by
    rw [wt, Bool.and_eq_true] at h; exact wt_node_inv g deps c d e args t h.1
  | .int, h | .float, h | .str, h | .bool, h | .list _, h | .tuple _, h => by simp [wt] at h
theorem wtUnion_node_inv (g : Grammar) (deps : List (String × Val)) (c d e : Nat) (args : List Val) :
    ∀ ts, wtUnion g deps ts (.node c d e args) = true → wt g [] (.cls c) (.node c d e args) = true
  | [], h => by simp [wtUnion] at h
  | t :: ts, h => by
    rw [wtUnion, Bool.or_eq_true] at h
    rcases h with h | h
    · exact wt_node_inv g deps c d e args t h
    · exact wtUnion_node_inv g deps c d e args ts h
end

mutual
theorem wt_list_inv (g : Grammar) (deps : List (String × Val)) (d e : Nat) (vs : List Val) :
    ∀ ty, wt g deps ty (.list d e vs) = true → ∃ t, wtAll g t vs = true
  | .list t, h => by rw [wt] at h; exact ⟨t, h⟩
  | .union ts, h => by rw [wt] at h; exact wtUnion_list_inv g deps d e vs ts h
  | .ann t mh, h => by
    rw [wt, Bool.and_eq_true] at h; exact wt_list_inv g deps d e vs t h.1
  | .int, h | .float, h | .str, h | .bool, h | .cls _, h | .tuple _, h => by simp [wt] at h
theorem wtUnion_list_inv (g : Grammar) (deps : List (String × Val)) (d e : Nat) (vs : List Val) :
    ∀ ts, wtUnion g deps ts (.list d e vs) = true → ∃ t, wtAll g t vs = true
  | [], h => by simp [wtUnion] at h
  | t :: ts, h => by
    rw [wtUnion, Bool.or_eq_true] at h
    rcases h with h | h
    · exact wt_list_inv g deps d e vs t h
    · exact wtUnion_list_inv g deps d e vs ts h
end

mutual
theorem wt_tuple_inv (g : Grammar) (deps : List (String × Val)) (vs : List Val) :
    ∀ ty, wt g deps ty (.tuple vs) = true → ∃ ts, wtTuple g ts vs = true
  | .tuple ts, h => by rw [wt] at h; exact ⟨ts, h⟩
  | .union ts, h => by rw [wt] at h; exact wtUnion_tuple_inv g deps vs ts h
  | .ann t mh, h => by
    rw [wt, Bool.and_eq_true] at h; exact wt_tuple_inv g deps vs t h.1
  | .int, h | .float, h | .str, h | .bool, h | .cls _, h | .list _, h => by simp [wt] at h
theorem wtUnion_tuple_inv (g : Grammar) (deps : List (String × Val)) (vs : List Val) :
    ∀ ts, wtUnion g deps ts (.tuple vs) = true → ∃ ts', wtTuple g ts' vs = true
  | [], h => by simp [wtUnion] at h
  | t :: ts, h => by
    rw [wtUnion, Bool.or_eq_true] at h
    rcases h with h | h
    · exact wt_tuple_inv g deps vs t h
    · exact wtUnion_tuple_inv g deps vs ts h
end

/-- a node is a well-typed instance of its own class (vacuous on non-nodes) -/
def nodeSelfWt (g : Grammar) : Val → Prop
  | .node c d e args => wt g [] (.cls c) (.node c d e args) = true
  | _ => True

mutual
/-- every sub-value of a well-typed value is itself a well-typed value (of some type, under
some sibling values) -/
theorem sub_wt (g : Grammar) : ∀ (v : Val) (deps : List (String × Val)) (ty : Ty),
    wt g deps ty v = true → ∀ x ∈ v.subvalues, ∃ deps' ty', wt g deps' ty' x = true
  | .node c d e args, deps, ty, h, x, hx => by
    have hn := wt_node_inv g deps c d e args ty h
    rw [Val.subvalues] at hx
    rcases List.mem_cons.1 hx with rfl | hx
    · exact ⟨_, _, h⟩
    · rw [wt] at hn
      simp only [Bool.and_eq_true] at hn
      exact sub_wtFields g args _ _ hn.2 x hx
  | .list d e vs, deps, ty, h, x, hx => by
    obtain ⟨t, ht⟩ := wt_list_inv g deps d e vs ty h
    rw [Val.subvalues] at hx
    rcases List.mem_cons.1 hx with rfl | hx
    · exact ⟨_, _, h⟩
    · exact sub_wtAll g vs t ht x hx
  | .tuple vs, deps, ty, h, x, hx => by
    obtain ⟨ts, ht⟩ := wt_tuple_inv g deps vs ty h
    rw [Val.subvalues] at hx
    rcases List.mem_cons.1 hx with rfl | hx
    · exact ⟨_, _, h⟩
    · exact sub_wtTuple g vs ts ht x hx
  | .int _, _, _, h, x, hx | .float, _, _, h, x, hx | .str _, _, _, h, x, hx
  | .bool _, _, _, h, x, hx | .foreign _, _, _, h, x, hx => by
    simp [Val.subvalues] at hx; subst hx; exact ⟨_, _, h⟩
theorem sub_wtFields (g : Grammar) : ∀ (vs : List Val) (fs : List (String × Ty))
    (deps : List (String × Val)), wtFields g deps fs vs = true →
    ∀ x ∈ Val.subvaluesList vs, ∃ deps' ty', wt g deps' ty' x = true
  | [], _, _, _, x, hx => by simp [Val.subvaluesList] at hx
  | v :: vs, [], _, h, _, _ => by simp [wtFields] at h
  | v :: vs, (n, t) :: fs, deps, h, x, hx => by
    rw [wtFields, Bool.and_eq_true] at h
    rw [Val.subvaluesList, List.mem_append] at hx
    rcases hx with hx | hx
    · exact sub_wt g v deps t h.1 x hx
    · exact sub_wtFields g vs fs _ h.2 x hx
theorem sub_wtAll (g : Grammar) : ∀ (vs : List Val) (t : Ty), wtAll g t vs = true →
    ∀ x ∈ Val.subvaluesList vs, ∃ deps' ty', wt g deps' ty' x = true
  | [], _, _, x, hx => by simp [Val.subvaluesList] at hx
  | v :: vs, t, h, x, hx => by
    rw [wtAll, Bool.and_eq_true] at h
    rw [Val.subvaluesList, List.mem_append] at hx
    rcases hx with hx | hx
    · exact sub_wt g v [] t h.1 x hx
    · exact sub_wtAll g vs t h.2 x hx
theorem sub_wtTuple (g : Grammar) : ∀ (vs : List Val) (ts : List Ty), wtTuple g ts vs = true →
    ∀ x ∈ Val.subvaluesList vs, ∃ deps' ty', wt g deps' ty' x = true
  | [], _, _, x, hx => by simp [Val.subvaluesList] at hx
  | v :: vs, [], h, _, _ => by simp [wtTuple] at h
  | v :: vs, t :: ts, h, x, hx => by
    rw [wtTuple, Bool.and_eq_true] at h
    rw [Val.subvaluesList, List.mem_append] at hx
    rcases hx with hx | hx
    · exact sub_wt g v [] t h.1 x hx
    · exact sub_wtTuple g vs ts h.2 x hx
end

/-- every node occurring anywhere inside a well-typed value is a well-typed instance of its
own class -/
theorem sub_selfWt (g : Grammar) (v : Val) (deps : List (String × Val)) (ty : Ty)
    (h : wt g deps ty v = true) (x : Val) (hx : x ∈ v.subvalues) : nodeSelfWt g x := by
  obtain ⟨deps', ty', hw⟩ := sub_wt g v deps ty h x hx
  cases x <;> try trivial
  exact wt_node_inv g deps' _ _ _ _ ty' hw

theorem foreign_not_sub (g : Grammar) (v : Val) (deps : List (String × Val)) (ty : Ty)
    (h : wt g deps ty v = true) (tag : String) : Val.foreign tag ∉ v.subvalues := by
  intro hx
  obtain ⟨deps', ty', hw⟩ := sub_wt g v deps ty h _ hx
  rw [foreign_not_wt] at hw
  cases hw

/-- an occurrence of class `c` inside a well-typed value is a well-typed `c` -/
theorem occurrences_wt (g : Grammar) (deps : List (String × Val)) (ty : Ty) (v : Val) (c : Nat)
    (h : wt g deps ty v = true) : ∀ x ∈ occurrences c v, wt g [] (.cls c) x = true := by
  intro x hx
  unfold occurrences at hx
  rw [List.mem_filter] at hx
  obtain ⟨hmem, hc⟩ := hx
  have := sub_selfWt g v deps ty h x hmem
  cases x <;> try (simp at hc; done)
  simp only [beq_iff_eq] at hc
  subst hc
  exact this

/-! ### Variation operators and sequences of operations on a pool of programs -/

/-- `mutate` at the root: the result is a fresh tree, or an occurrence of the start symbol in the
source material; the individual being mutated plays no role for well-typedness. -/
theorem mutateRoot_wt (g : Grammar) (hg : GWF g) (dec : Decider) (fuel : Nat) (i : Val)
    (source : Option Val) (s s' : SynSt) (c : Val)
    (hsrc : ∀ src, source = some src → wt g [] (.cls g.spec.start) src = true)
    (h : mutateRoot g dec fuel i source s = .ok c s') : wt g [] (.cls g.spec.start) c = true := by
  have hcreate : ∀ ctx s s' c, createNode g dec fuel (.cls g.spec.start) ctx [] s = .ok c s' →
      wt g [] (.cls g.spec.start) c = true := fun ctx s s' c h =>
    (createOK g hg dec fuel).1 _ ctx [] s c s' (by simp [tyWF]) (depsOK_nil _) h
  unfold mutateRoot at h
  simp only at h
  cases hctx : i.ctx with
  | none => rw [hctx] at h; exact hcreate _ _ _ _ h
  | some ctx =>
    rw [hctx] at h
    simp only at h
    cases source with
    | none =>
      simp only [List.isEmpty_nil, if_true] at h
      exact hcreate _ _ _ _ h
    | some src =>
      simp only at h
      split at h
      · exact hcreate _ _ _ _ h
      · exact occurrences_wt g [] _ src _ (hsrc src rfl) c (choice_get_mem _ _ _ _ h)

/-- One operation of a search on a pool of programs.  Deciders may change from operation to
operation; `select` models any survivor selection / re-ordering of the pool. -/
inductive Op where
  | create (dec : Decider)
  | mapGE (dec : Decider) (dna : List Int) (expanding : Bool)
  | mapSGE (dec : Decider) (dna : SGEDna) (expanding : Bool)
  | mapDSGE (maxDepth : Nat) (dna : DSGEDna) (shared : Script)
  | mutate (dec : Decider) (i : Nat)
  | crossover (dec : Decider) (i j : Nat)
  | select (idxs : List Nat)

/-- new programs are appended to the pool; a failing operation (library error) adds nothing but
keeps the draws it consumed; an index outside the pool is a no-op -/
def stepOp (g : Grammar) (fuel : Nat) (pool : List Val) (s : SynSt) : Op → List Val × SynSt
  | .create dec =>
    match randomTree g dec fuel s with
    | .ok v s' => (pool ++ [v], s')
    | .err _ s' => (pool, s')
  | .mapGE dec dna e =>
    match mapGE g dec fuel dna e with
    | .ok v _ => (pool ++ [v], s)
    | .err _ _ => (pool, s)
  | .mapSGE dec dna e =>
    match mapSGE g dec fuel dna e with
    | .ok v _ => (pool ++ [v], s)
    | .err _ _ => (pool, s)
  | .mapDSGE maxDepth dna shared =>
    match mapDSGE g maxDepth fuel dna shared with
    | .ok v _ => (pool ++ [v], s)
    | .err _ _ => (pool, s)
  | .mutate dec i =>
    match pool[i]? with
    | none => (pool, s)
    | some p =>
      match treeMutate g dec fuel p s with
      | .ok c s' => (pool ++ [c], s')
      | .err _ s' => (pool, s')
  | .crossover dec i j =>
    match pool[i]?, pool[j]? with
    | some p1, some p2 =>
      match treeCrossover g dec fuel p1 p2 s with
      | .ok (c1, c2) s' => (pool ++ [c1, c2], s')
      | .err _ s' => (pool, s')
    | _, _ => (pool, s)
  | .select idxs => (idxs.filterMap (pool[·]?), s)

def runOps (g : Grammar) (fuel : Nat) : List Op → List Val → SynSt → List Val × SynSt
  | [], pool, s => (pool, s)
  | op :: ops, pool, s =>
    let r := stepOp g fuel pool s op
    runOps g fuel ops r.1 r.2

theorem treeMutate_wt (g : Grammar) (hg : GWF g) (dec : Decider) (fuel : Nat) (i : Val)
    (s s' : SynSt) (c : Val) (h : treeMutate g dec fuel i s = .ok c s') :
    wt g [] (.cls g.spec.start) c = true :=
  mutateRoot_wt g hg dec fuel i none s s' c (fun _ hsrc => by cases hsrc) h

theorem treeCrossover_wt (g : Grammar) (hg : GWF g) (dec : Decider) (fuel : Nat) (p1 p2 : Val)
    (s s' : SynSt) (c1 c2 : Val)
    (h1 : wt g [] (.cls g.spec.start) p1 = true) (h2 : wt g [] (.cls g.spec.start) p2 = true)
    (h : treeCrossover g dec fuel p1 p2 s = .ok (c1, c2) s') :
    wt g [] (.cls g.spec.start) c1 = true ∧ wt g [] (.cls g.spec.start) c2 = true := by
  unfold treeCrossover at h
  rw [SynM.bind_ok] at h
  obtain ⟨a, s1, ha, h⟩ := h
  rw [SynM.bind_ok] at h
  obtain ⟨b, s2, hb, h⟩ := h
  rw [SynM.pure_ok] at h
  obtain ⟨hab, _⟩ := h
  cases hab
  exact ⟨mutateRoot_wt g hg dec fuel p1 (some p2) s s1 c1 (fun _ hs => by cases hs; exact h2) ha,
    mutateRoot_wt g hg dec fuel p2 (some p1) s1 s2 c2 (fun _ hs => by cases hs; exact h1) hb⟩

theorem stepOp_wt (g : Grammar) (hg : GWF g) (fuel : Nat) (pool : List Val) (s : SynSt) (op : Op)
    (hp : ∀ p ∈ pool, wt g [] (.cls g.spec.start) p = true) :
    ∀ p ∈ (stepOp g fuel pool s op).1, wt g [] (.cls g.spec.start) p = true := by
  have hcreate : ∀ dec ctx s s' c, createNode g dec fuel (.cls g.spec.start) ctx [] s = .ok c s' →
      wt g [] (.cls g.spec.start) c = true := fun dec ctx s s' c h =>
    (createOK g hg dec fuel).1 _ ctx [] s c s' (by simp [tyWF]) (depsOK_nil _) h
  have happ : ∀ v, wt g [] (.cls g.spec.start) v = true →
      ∀ p ∈ pool ++ [v], wt g [] (.cls g.spec.start) p = true := by
    intro v hv p hmem
    rcases List.mem_append.1 hmem with hm | hm
    · exact hp p hm
    · rw [List.mem_singleton.1 hm]; exact hv
  cases op with
  | create dec =>
    simp only [stepOp]
    cases h : randomTree g dec fuel s with
    | ok v s' => exact happ v (hcreate dec _ _ _ _ h)
    | err e s' => exact hp
  | mapGE dec dna e =>
    simp only [stepOp]
    cases h : mapGE g dec fuel dna e with
    | ok v s' => exact happ v (hcreate dec _ _ _ _ h)
    | err e s' => exact hp
  | mapSGE dec dna e =>
    simp only [stepOp]
    cases h : mapSGE g dec fuel dna e with
    | ok v s' => exact happ v (hcreate dec _ _ _ _ h)
    | err e s' => exact hp
  | mapDSGE maxDepth dna shared =>
    simp only [stepOp]
    cases h : mapDSGE g maxDepth fuel dna shared with
    | ok v s' =>
      refine happ v ?_
      unfold mapDSGE at h
      simp only at h
      split at h
      · cases h
      · exact hcreate _ _ _ _ _ h
    | err e s' => exact hp
  | mutate dec i =>
    simp only [stepOp]
    cases hi : pool[i]? with
    | none => exact hp
    | some p =>
      simp only
      cases h : treeMutate g dec fuel p s with
      | ok c s' => exact happ c (treeMutate_wt g hg dec fuel p s s' c h)
      | err e s' => exact hp
  | crossover dec i j =>
    simp only [stepOp]
    cases hi : pool[i]? with
    | none => exact hp
    | some p1 =>
      cases hj : pool[j]? with
      | none => exact hp
      | some p2 =>
        simp only
        cases h : treeCrossover g dec fuel p1 p2 s with
        | ok cs s' =>
          obtain ⟨c1, c2⟩ := cs
          obtain ⟨hc1, hc2⟩ := treeCrossover_wt g hg dec fuel p1 p2 s s' c1 c2
            (hp p1 (List.mem_of_getElem? hi)) (hp p2 (List.mem_of_getElem? hj)) h
          intro p hmem
          simp only [List.mem_append, List.mem_cons, List.not_mem_nil, or_false] at hmem
          rcases hmem with hm | rfl | rfl
          · exact hp p hm
          · exact hc1
          · exact hc2
        | err e s' => exact hp
  | select idxs =>
    simp only [stepOp]
    intro p hmem
    obtain ⟨i, _, hi⟩ := List.mem_filterMap.1 hmem
    exact hp p (List.mem_of_getElem? hi)

theorem runOps_wt (g : Grammar) (hg : GWF g) (fuel : Nat) : ∀ (ops : List Op) (pool : List Val)
    (s : SynSt), (∀ p ∈ pool, wt g [] (.cls g.spec.start) p = true) →
    ∀ p ∈ (runOps g fuel ops pool s).1, wt g [] (.cls g.spec.start) p = true
  | [], pool, s, hp => by rw [runOps]; exact hp
  | op :: ops, pool, s, hp => by
    rw [runOps]
    exact runOps_wt g hg fuel ops _ _ (stepOp_wt g hg fuel pool s op hp)

/-! ### Refinements: generation, dependent generation, `validate` -/

theorem resolveDep_mhOK (mh mh' : MH) (deps : List (String × Val)) (s s1 : SynSt)
    (h : resolveDep mh deps s = .ok mh' s1) (hok : mhOK mh = true) : mhOK mh' = true := by
  cases mh with
  | depIntRangeLo f hi =>
    simp only [resolveDep] at h
    cases hl : lookupVal deps f with
    | none => simp only [hl] at h; exact absurd h (throwE_not_ok _ _ _ _)
    | some x =>
      simp only [hl] at h
      cases x <;> try (exact absurd h (throwE_not_ok _ _ _ _); done)
      rw [SynM.pure_ok] at h; obtain ⟨rfl, _⟩ := h; rfl
  | depIntRangeHi lo f =>
    simp only [resolveDep] at h
    cases hl : lookupVal deps f with
    | none => simp only [hl] at h; exact absurd h (throwE_not_ok _ _ _ _)
    | some x =>
      simp only [hl] at h
      cases x <;> try (exact absurd h (throwE_not_ok _ _ _ _); done)
      rw [SynM.pure_ok] at h; obtain ⟨rfl, _⟩ := h; rfl
  | depIntRangeSpan fw flo =>
    simp only [resolveDep] at h
    cases hw : lookupVal deps fw with
    | none => simp only [hw] at h; exact absurd h (throwE_not_ok _ _ _ _)
    | some x =>
      cases hl : lookupVal deps flo with
      | none =>
        simp only [hw, hl] at h
        cases x <;> exact absurd h (throwE_not_ok _ _ _ _)
      | some y =>
        simp only [hw, hl] at h
        cases x <;> try (exact absurd h (throwE_not_ok _ _ _ _); done)
        cases y <;> try (exact absurd h (throwE_not_ok _ _ _ _); done)
        rw [SynM.pure_ok] at h; obtain ⟨rfl, _⟩ := h; rfl
  | depListSize f =>
    simp only [resolveDep] at h
    cases hl : lookupVal deps f with
    | none => simp only [hl] at h; exact absurd h (throwE_not_ok _ _ _ _)
    | some x =>
      simp only [hl] at h
      cases x <;> try (exact absurd h (throwE_not_ok _ _ _ _); done)
      rw [SynM.pure_ok] at h; obtain ⟨rfl, _⟩ := h; rfl
  | depVarFrom f =>
    simp only [resolveDep] at h
    cases hl : lookupVal deps f with
    | none => simp only [hl] at h; exact absurd h (throwE_not_ok _ _ _ _)
    | some x =>
      simp only [hl] at h
      cases x <;> try (exact absurd h (throwE_not_ok _ _ _ _); done)
      rename_i d e vs
      cases hopts : strsOf vs with
      | none => simp only [hopts] at h; exact absurd h (throwE_not_ok _ _ _ _)
      | some opts =>
        simp only [hopts] at h
        cases opts with
        | nil => exact absurd h (throwE_not_ok _ _ _ _)
        | cons o os =>
          simp only at h
          rw [SynM.pure_ok] at h; obtain ⟨rfl, _⟩ := h; rfl
  | intRange _ _ | intList _ | varRange _ | listSize _ _ | strSize _ _ _ | interval _ _ _
  | floatRange | floatList _ =>
    simp only [resolveDep] at h
    rw [SynM.pure_ok] at h; obtain ⟨rfl, _⟩ := h; exact hok

/-- the first step of creation under a dependent refinement -/
theorem createNode_dep_inv (g : Grammar) (dec : Decider) (fuel : Nat) (base : Ty) (mh : MH)
    (ctx : Ctx) (deps : List (String × Val)) (s s' : SynSt) (v : Val) (hdep : mh.isDep = true)
    (h : createNode g dec fuel (.ann base mh) ctx deps s = .ok v s') :
    ∃ fuel' mh' s1 v1 ctx', resolveDep mh deps s = .ok mh' s1 ∧
      createNode g dec fuel' (.ann base mh') ctx' deps s1 = .ok v1 s' ∧
      v = v1.setCtx ctx.depth ctx.exp := by
  cases fuel with
  | zero => rw [createNode] at h; exact absurd h (throwE_not_ok _ _ _ _)
  | succ fuel =>
    rw [createNode.eq_def] at h
    simp only [hdep, if_true] at h
    rw [SynM.bind_ok] at h
    obtain ⟨mh', s1, hres, h⟩ := h
    rw [SynM.bind_ok] at h
    obtain ⟨v1, s2, hv1, h⟩ := h
    rw [SynM.pure_ok] at h; obtain ⟨rfl, rfl⟩ := h
    exact ⟨fuel, mh', s1, v1, _, hres, hv1, rfl⟩

/-- every refinement's generator, dependent or not, at any position (any context, any sibling
values, any state), produces a value satisfying the refinement -/
theorem gen_sat (g : Grammar) (dec : Decider) (fuel : Nat) (base : Ty) (mh : MH) (ctx : Ctx)
    (deps : List (String × Val)) (s s' : SynSt) (v : Val)
    (hok : mhOK mh = true) (hd : depsOK deps (.ann base mh) = true)
    (h : createNode g dec fuel (.ann base mh) ctx deps s = .ok v s') : sat mh deps v = true := by
  by_cases hdep : mh.isDep = true
  · obtain ⟨fuel', mh', s1, v1, ctx', hres, hv1, rfl⟩ :=
      createNode_dep_inv g dec fuel base mh ctx deps s s' v hdep h
    obtain ⟨hnd', _, _, hsat'⟩ := resolveDep_spec mh mh' deps s s1 hdep hres
    have := gen_sat_nodep g dec fuel' base mh' ctx' deps s1 s' v1 hnd'
      (resolveDep_mhOK mh mh' deps s s1 hres hok) hv1
    rw [sat_setCtx]
    exact hsat' base v1 hd this
  · rw [Bool.not_eq_true] at hdep
    exact gen_sat_nodep g dec fuel base mh ctx deps s s' v hdep hok h

theorem validate_setCtx (mh : MH) (v : Val) (d e : Nat) :
    validate mh (v.setCtx d e) = validate mh v := by
  cases v <;> cases mh <;> simp [Val.setCtx, validate]

/-- the documented predicate implies the metahandler's own (repaired) validity check -/
theorem validate_of_sat (mh : MH) (deps : List (String × Val)) (v : Val)
    (hnd : mh.isDep = false) (h : sat mh deps v = true) : validate mh v = true := by
  unfold sat at h
  split at h <;> first
    | rfl
    | (simp only [validate]; simp only [Bool.and_eq_true, decide_eq_true_eq] at h ⊢; omega)
    | (simp only [validate]; exact h)
    | (simp [MH.isDep] at hnd; done)
    | (cases h; done)

/-- ... and conversely, except that `IntervalRange.validate` does not check `0 ≤ start` -/
theorem sat_of_validate (mh : MH) (deps : List (String × Val)) (v : Val)
    (hnd : mh.isDep = false) (hni : ∀ a b c, mh ≠ .interval a b c)
    (h : validate mh v = true) : sat mh deps v = true := by
  unfold validate at h
  split at h <;> first
    | rfl
    | (exact absurd rfl (hni _ _ _); done)
    | (simp only [sat]; simp only [Bool.and_eq_true, decide_eq_true_eq] at h ⊢; omega)
    | (simp only [sat]; exact h)
    | (cases h; done)

/-- the earlier siblings of position `i`: declared names paired with the actual values -/
def siblings (fs : List (String × Ty)) (args : List Val) (i : Nat) : List (String × Val) :=
  ((fs.take i).map (·.1)).zip (args.take i)

theorem wtFields_sat (g : Grammar) : ∀ (fs : List (String × Ty)) (vs : List Val)
    (deps : List (String × Val)) (i : Nat) (name : String) (t : Ty) (mh : MH),
    wtFields g deps fs vs = true → fs[i]? = some (name, .ann t mh) →
    ∃ a, vs[i]? = some a ∧ sat mh (deps ++ siblings fs vs i) a = true
  | [], _, _, _, _, _, _, _, hi => by simp at hi
  | _ :: _, [], _, _, _, _, _, h, _ => by simp [wtFields] at h
  | (n0, t0) :: fs, v0 :: vs, deps, 0, name, t, mh, h, hi => by
    simp only [List.getElem?_cons_zero, Option.some.injEq, Prod.mk.injEq] at hi
    obtain ⟨rfl, rfl⟩ := hi
    rw [wtFields, Bool.and_eq_true, wt, Bool.and_eq_true] at h
    exact ⟨v0, rfl, by simpa [siblings] using h.1.2⟩
  | (n0, t0) :: fs, v0 :: vs, deps, i + 1, name, t, mh, h, hi => by
    rw [wtFields, Bool.and_eq_true] at h
    simp only [List.getElem?_cons_succ] at hi ⊢
    obtain ⟨a, ha, hs⟩ := wtFields_sat g fs vs _ i name t mh h.2 hi
    refine ⟨a, ha, ?_⟩
    simpa [siblings, List.append_assoc] using hs

/-! ### A concrete grammar for the non-vacuity examples of Props/C01 and Props/C02

`Expr` (abstract) ::= `Lit(v: Annotated[int, IntRange(0,9)])` | `Add(l: Expr, r: Expr)` |
`Vec(n: Annotated[int, IntRange(0,3)], xs: Annotated[list[Expr], Dependent("n", ListSizeBetween(n,n))],
t: tuple[bool, Union[str, float]], w: Annotated[str, StringSizeBetween(1,2,"ab")])` -/

def exSpecWT : GrammarSpec :=
  { classes := [
      { name := "Expr", abstract := true, parent := none, fields := [] },
      { name := "Lit", abstract := false, parent := some 0,
        fields := [("v", .ann .int (.intRange 0 9))] },
      { name := "Add", abstract := false, parent := some 0,
        fields := [("l", .cls 0), ("r", .cls 0)] },
      { name := "Vec", abstract := false, parent := some 0,
        fields := [("n", .ann .int (.intRange 0 3)),
                   ("xs", .ann (.list (.cls 0)) (.depListSize "n")),
                   ("t", .tuple [.bool, .union [.str, .float]]),
                   ("w", .ann .str (.strSize 1 2 ["a", "b"]))] }],
    start := 0, considered := [0, 1, 2, 3] }

def exGWT : Grammar := analyse exSpecWT

def exStWT (ds : List Nat) : SynSt := { src := .scripted { draws := ds } }

def resIsOk {α : Type} : Res α → Bool
  | .ok _ _ => true
  | .err _ _ => false

theorem resIsOk_iff {α : Type} (r : Res α) : resIsOk r = true ↔ ∃ a s, r = .ok a s := by
  cases r <;> simp [resIsOk]

end GEVerif.WellTyped
