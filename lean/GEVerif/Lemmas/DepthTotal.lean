/-
  Usability of feasible depth limits (property C03, second half).

  * side conditions `distAttained`, `tyUsable` / `refinementsUsable`, `altsAbstract` : see
    `Lemmas/DepthDefs.lean`.
  * `Depth.chooseProd_total` : with a fitting alternative the deciders always return a production.
  * `Depth.noBadP_all` : under the budget invariant creation never fails with the deciders'
    empty-choice `AssertionError` nor with a `SynthesisException`.
  * `Depth.fixpoint_consistent` / `fixpoint_attained` : `distConsistent` and `distAttained` hold
    for every solution of the distance equations (`isFixpoint`).
-/
import GEVerif.Lemmas.Depth

namespace GEVerif.Depth
open GEVerif

theorem distAttained_elim (g : Grammar) (ha : distAttained g = true) (n : Nat) (prods : List Nat)
    (hreg : g.reg.allNodes.contains (.cls n) = true) (halts : g.altsOf n = some prods)
    (hfin : lookupDist g.dist (.cls n) < INF) :
    ∃ p ∈ prods, g.e + g.distOf (.cls p) ≤ g.distOf (.cls n) := by
  unfold distAttained at ha
  rw [List.all_eq_true] at ha
  have hmem : Sym.cls n ∈ g.reg.allNodes := List.contains_iff_mem.mp hreg
  have h := ha _ hmem
  simp only [halts, Bool.or_eq_true, Bool.not_eq_true', decide_eq_false_iff_not,
    List.any_eq_true, decide_eq_true_eq] at h
  rcases h with h | h
  · exact absurd hfin h
  · obtain ⟨p, hp, hle⟩ := h
    exact ⟨p, hp, by simpa only [Grammar.distOf, distTy] using hle⟩

theorem distTysMin_attained (e : Nat) (d : DistTable) (ts : List Ty)
    (h : distTysMin e d ts < INF) : ∃ t ∈ ts, distTy e d t = distTysMin e d ts := by
  induction ts with
  | nil => simp only [distTysMin] at h; omega
  | cons a as ih =>
    simp only [distTysMin] at h ⊢
    by_cases hle : distTy e d a ≤ distTysMin e d as
    · exact ⟨a, List.mem_cons_self .., by omega⟩
    · obtain ⟨t, ht, heq⟩ := ih (by omega)
      exact ⟨t, List.mem_cons_of_mem _ ht, by omega⟩

/-! ### The primitive draws never fail on a non-empty range -/

theorem rawRandintM_total (lo hi : Int) (h : lo ≤ hi) (s : SynSt) :
    ∃ v s', rawRandintM lo hi s = .ok v s' := by
  unfold rawRandintM
  rw [if_neg (by omega)]
  exact ⟨_, _, rfl⟩

theorem extendGenes_total : ∀ (k : Nat) (genes : List Int) (n : Nat) (s : SynSt),
    ∃ genes' s', extendGenes k genes n s = .ok genes' s'
  | 0, genes, n, s => ⟨genes, s, rfl⟩
  | k + 1, genes, n, s => by
    unfold extendGenes
    by_cases hn : n < genes.length
    · rw [if_pos hn]; exact ⟨genes, s, rfl⟩
    · rw [if_neg hn]
      obtain ⟨v, s1, h1⟩ := rawRandintM_total 0 MAX_GENE_VALUE (by decide) s
      obtain ⟨genes', s2, h2⟩ := extendGenes_total k (genes ++ [v]) n s1
      exact ⟨genes', s2, (SynM.bind_ok _ _ _ _ _).2 ⟨v, s1, h1, h2⟩⟩

theorem dsgeRead_total (k : Ty) (s : SynSt) : ∃ v s', dsgeRead k s = .ok v s' := by
  unfold dsgeRead
  dsimp only
  obtain ⟨genes', s1, h1⟩ := extendGenes_total
    (tyLookup k 0 s.pos + 1 - (tyLookup k [] s.dna).length) (tyLookup k [] s.dna) (tyLookup k 0 s.pos) s
  rw [h1]
  exact ⟨_, _, rfl⟩

theorem dsgeIntM_total (lo hi : Int) (h : lo ≤ hi) (s : SynSt) :
    ∃ v s', dsgeIntM lo hi s = .ok v s' := by
  unfold dsgeIntM
  obtain ⟨v, s1, h1⟩ := dsgeRead_total .int s
  refine ⟨dsgeRandomInt v lo hi, s1, (SynM.bind_ok _ _ _ _ _).2 ⟨v, s1, h1, ?_⟩⟩
  rw [if_neg (by omega)]
  rfl

theorem randintM_total (lo hi : Int) (h : lo ≤ hi) (s : SynSt) :
    ∃ v s', randintM lo hi s = .ok v s' := by
  unfold randintM
  split
  · exact dsgeIntM_total lo hi h s
  · exact rawRandintM_total lo hi h s

theorem pick_total {α : Type} (c : List α) (hne : c ≠ []) (s : SynSt) :
    ∃ t s', (do let i ← choiceIdxM c.length; listGetM c i : SynM α) s = .ok t s' := by
  have hlen : c.length ≠ 0 := by
    intro h0; exact hne (List.eq_nil_of_length_eq_zero h0)
  obtain ⟨v, s1, h1⟩ := randintM_total 0 ((c.length : Int) - 1) (by omega) s
  have hb := randintM_bounds _ _ _ _ _ h1
  have hi : v.toNat < c.length := by omega
  have hch : choiceIdxM c.length s = .ok v.toNat s1 := by
    unfold choiceIdxM
    rw [if_neg hlen]
    exact (SynM.bind_pure_ok _ _ _ _ _).2 ⟨v, h1, rfl⟩
  refine ⟨c[v.toNat], s1, (SynM.bind_ok _ _ _ _ _).2 ⟨v.toNat, s1, hch, ?_⟩⟩
  unfold listGetM
  rw [List.getElem?_eq_getElem hi]
  rfl


theorem filter_ne_nil {α : Type} (p : α → Bool) (l : List α) (t : α) (ht : t ∈ l)
    (hp : p t = true) : l.filter p ≠ [] := by
  intro h
  have : t ∈ l.filter p := List.mem_filter.mpr ⟨ht, hp⟩
  rw [h] at this; cases this

theorem ite_isEmpty_ne_nil {α : Type} (c1 base : List α) (hb : base ≠ []) :
    (if c1.isEmpty then base else c1) ≠ [] := by
  split
  · exact hb
  · rename_i h
    intro h0; rw [h0] at h; exact h rfl

theorem fullCands_ne_nil (g : Grammar) (dec : Decider) (alts : List Ty) (ctx : Ctx)
    (hfit : ∃ t ∈ alts, fits g dec ctx t = true) : fullCands g dec alts ctx ≠ [] := by
  obtain ⟨t, ht, hf⟩ := hfit
  dsimp only [fullCands]
  exact ite_isEmpty_ne_nil _ _ (filter_ne_nil _ _ t ht hf)

theorem pigrowCands_ne_nil (g : Grammar) (dec : Decider) (alts : List Ty) (ctx : Ctx) (ex : Bool)
    (hfit : ∃ t ∈ alts, fits g dec ctx t = true) : (pigrowCands g dec alts ctx ex).2 ≠ [] := by
  obtain ⟨t, ht, hf⟩ := hfit
  dsimp only [pigrowCands]
  exact ite_isEmpty_ne_nil _ _ (filter_ne_nil _ _ t ht hf)

/-- with a fitting alternative the decider returns a production, whatever the state -/
theorem chooseProd_total (g : Grammar) (dec : Decider) (key : Ty) (alts : List Ty) (ctx : Ctx)
    (s : SynSt) (hk : dec.kind.depthLimited = true)
    (hfit : ∃ t ∈ alts, fits g dec ctx t = true) :
    ∃ t s', chooseProd g dec key alts ctx s = .ok t s' := by
  have hne : ¬ alts.isEmpty = true := by
    obtain ⟨t, ht, _⟩ := hfit
    intro h0
    rw [List.isEmpty_iff] at h0; rw [h0] at ht; cases ht
  have hbase : alts.filter (fits g dec ctx) ≠ [] := by
    obtain ⟨t, ht, hf⟩ := hfit
    exact filter_ne_nil _ _ t ht hf
  unfold chooseProd
  rw [if_neg hne]
  cases hkind : dec.kind <;> dsimp only
  · exact pick_total _ hbase s
  · exact pick_total _ (fullCands_ne_nil g dec alts ctx hfit) s
  · exact pick_total _ (pigrowCands_ne_nil g dec alts ctx s.expanding hfit) _
  · rw [hkind] at hk; cases hk
  · obtain ⟨v, s1, h1⟩ := dsgeRead_total key s
    have hlen : 0 < ((alts.filter (fits g dec ctx)).length : Int) := by
      have : (alts.filter (fits g dec ctx)).length ≠ 0 := fun h0 =>
        hbase (List.eq_nil_of_length_eq_zero h0)
      omega
    have h1' := Int.emod_nonneg v (Int.ne_of_gt hlen)
    have h2' := Int.emod_lt_of_pos v hlen
    have hi : (v % ((alts.filter (fits g dec ctx)).length : Int)).toNat
        < (alts.filter (fits g dec ctx)).length := by omega
    refine ⟨(alts.filter (fits g dec ctx))[(v % ((alts.filter (fits g dec ctx)).length : Int)).toNat],
      s1, (SynM.bind_ok _ _ _ _ _).2 ⟨v, s1, h1, ?_⟩⟩
    have hne' : ¬ (alts.filter (fits g dec ctx)).isEmpty = true := by
      intro h0; rw [List.isEmpty_iff] at h0; exact hbase h0
    rw [if_neg hne']
    unfold listGetM
    rw [List.getElem?_eq_getElem hi]
    rfl


theorem abstract_has_fit (g : Grammar) (dec : Decider) (ha : distAttained g = true)
    (hD : dec.maxDepth < INF) (n : Nat) (prods : List Nat) (ctx : Ctx)
    (hreg : g.reg.allNodes.contains (.cls n) = true) (halts : g.altsOf n = some prods)
    (hinv : ctx.depth + g.distOf (.cls n) ≤ dec.maxDepth) :
    ∃ t ∈ prods.map Ty.cls, fits g dec ctx t = true := by
  have hfin : lookupDist g.dist (.cls n) < INF := by
    simp only [Grammar.distOf, distTy] at hinv; omega
  obtain ⟨p, hp, hle⟩ := distAttained_elim g ha n prods hreg halts hfin
  refine ⟨.cls p, List.mem_map.mpr ⟨p, hp, rfl⟩, ?_⟩
  rw [fits_iff]; omega

theorem union_has_fit (g : Grammar) (dec : Decider) (hD : dec.maxDepth < INF) (ts : List Ty)
    (ctx : Ctx) (hinv : ctx.depth + g.distOf (.union ts) ≤ dec.maxDepth) :
    ∃ t ∈ ts, fits g dec ctx t = true := by
  have hinv' : ctx.depth + (g.e + distTysMin g.e g.dist ts) ≤ dec.maxDepth := by
    simpa only [Grammar.distOf, distTy] using hinv
  obtain ⟨t, ht, heq⟩ := distTysMin_attained g.e g.dist ts (by omega)
  refine ⟨t, ht, ?_⟩
  rw [fits_iff]
  simp only [Grammar.distOf]
  omega



/-- the errors that mean "creation failed midway because of the depth budget": the decider's
empty-choice `AssertionError` and a `SynthesisException` -/
def badErr : Err → Bool
  | .synthesis => true
  | .foreign n => n == "AssertionError"
  | .library => false

example : badErr (.foreign "ValueError") = false := by decide
example : badErr (.foreign "fuel") = false := by decide
example : badErr (.foreign "AssertionError") = true := by decide

theorem SynM.bind_err {α β : Type} (m : SynM α) (f : α → SynM β) (s s' : SynSt) (e : Err)
    (h : (m >>= f) s = .err e s') :
    m s = .err e s' ∨ ∃ a s1, m s = .ok a s1 ∧ f a s1 = .err e s' := by
  rw [SynM.bind_def] at h
  split at h
  · rename_i a s1 hm
    exact Or.inr ⟨a, s1, hm, h⟩
  · rename_i e1 s1 hm
    cases h
    exact Or.inl hm

theorem throwE_err {α : Type} (e0 e : Err) (s s' : SynSt) (h : (throwE e0 : SynM α) s = .err e s') :
    e = e0 := by
  cases h; rfl

theorem pure_not_err {α : Type} (a : α) (e : Err) (s s' : SynSt) :
    ¬ ((pure a : SynM α) s = .err e s') := by
  intro h; cases h

theorem rawRandintM_err (lo hi : Int) (s s' : SynSt) (e : Err)
    (h : rawRandintM lo hi s = .err e s') : badErr e = false := by
  unfold rawRandintM at h
  split at h
  · cases h; decide
  · cases h

theorem extendGenes_err : ∀ (k : Nat) (genes : List Int) (n : Nat) (s s' : SynSt) (e : Err),
    extendGenes k genes n s = .err e s' → badErr e = false
  | 0, genes, n, s, s', e, h => by
    unfold extendGenes at h; exact absurd h (pure_not_err _ _ _ _)
  | k + 1, genes, n, s, s', e, h => by
    unfold extendGenes at h
    split at h
    · exact absurd h (pure_not_err _ _ _ _)
    · rcases SynM.bind_err _ _ _ _ _ h with h | ⟨v, s1, _, h⟩
      · exact rawRandintM_err _ _ _ _ _ h
      · exact extendGenes_err k _ _ _ _ _ h

theorem dsgeRead_err (k : Ty) (s s' : SynSt) (e : Err) (h : dsgeRead k s = .err e s') :
    badErr e = false := by
  unfold dsgeRead at h
  dsimp only at h
  split at h
  · rename_i e1 s1 hx
    cases h
    exact extendGenes_err _ _ _ _ _ _ hx
  · cases h

theorem dsgeIntM_err (lo hi : Int) (s s' : SynSt) (e : Err) (h : dsgeIntM lo hi s = .err e s') :
    badErr e = false := by
  unfold dsgeIntM at h
  rcases SynM.bind_err _ _ _ _ _ h with h | ⟨v, s1, _, h⟩
  · exact dsgeRead_err _ _ _ _ h
  · split at h
    · rw [throwE_err _ _ _ _ h]; decide
    · exact absurd h (pure_not_err _ _ _ _)

theorem randintM_err (lo hi : Int) (s s' : SynSt) (e : Err) (h : randintM lo hi s = .err e s') :
    badErr e = false := by
  unfold randintM at h
  split at h
  · exact dsgeIntM_err _ _ _ _ _ h
  · exact rawRandintM_err _ _ _ _ _ h

theorem choiceIdxM_err (n : Nat) (hn : n ≠ 0) (s s' : SynSt) (e : Err)
    (h : choiceIdxM n s = .err e s') : badErr e = false := by
  unfold choiceIdxM at h
  rw [if_neg hn] at h
  rcases SynM.bind_err _ _ _ _ _ h with h | ⟨v, s1, _, h⟩
  · exact randintM_err _ _ _ _ _ h
  · exact absurd h (pure_not_err _ _ _ _)

theorem listGetM_err {α : Type} (xs : List α) (i : Nat) (s s' : SynSt) (e : Err)
    (h : listGetM xs i s = .err e s') : badErr e = false := by
  unfold listGetM at h
  cases hy : xs[i]? with
  | some y => rw [hy] at h; exact absurd h (pure_not_err _ _ _ _)
  | none => rw [hy] at h; rw [throwE_err _ _ _ _ h]; decide

theorem pick_err {α : Type} (c : List α) (hne : c ≠ []) (s s' : SynSt) (e : Err)
    (h : (do let i ← choiceIdxM c.length; listGetM c i : SynM α) s = .err e s') :
    badErr e = false := by
  have hlen : c.length ≠ 0 := fun h0 => hne (List.eq_nil_of_length_eq_zero h0)
  rcases SynM.bind_err _ _ _ _ _ h with h | ⟨v, s1, _, h⟩
  · exact choiceIdxM_err _ hlen _ _ _ h
  · exact listGetM_err _ _ _ _ _ h

theorem deciderIntM_err (E : Nat) (lo hi : Int) (s s' : SynSt) (e : Err)
    (h : deciderIntM E lo hi s = .err e s') : badErr e = false := by
  unfold deciderIntM at h
  split at h
  · dsimp only at h
    rcases SynM.bind_err _ _ _ _ _ h with h | ⟨n, s1, _, h⟩
    · exact randintM_err _ _ _ _ _ h
    rcases SynM.bind_err _ _ _ _ _ h with h | ⟨x, s2, _, h⟩
    · exact randintM_err _ _ _ _ _ h
    rcases SynM.bind_err _ _ _ _ _ h with h | ⟨b, s3, _, h⟩
    · exact choiceIdxM_err 2 (by decide) _ _ _ h
    · exact absurd h (pure_not_err _ _ _ _)
  · exact randintM_err _ _ _ _ _ h

theorem decIntM_err (dec : Decider) (E : Nat) (lo hi : Int) (s s' : SynSt) (e : Err)
    (h : decIntM dec E lo hi s = .err e s') : badErr e = false := by
  unfold decIntM at h
  cases hk : dec.kind <;> rw [hk] at h <;> dsimp only at h <;>
    first
    | exact dsgeIntM_err _ _ _ _ _ h
    | exact deciderIntM_err _ _ _ _ _ _ h

theorem decFloatM_tree_err (s s' : SynSt) (e : Err)
    (h : (match s.src with
      | .scripted _ => (do let _ ← randintM 0 0; pure () : SynM Unit) s
      | .gene _ => (do let _ ← randintM 0 0; let _ ← randintM 0 0; pure () : SynM Unit) s)
      = .err e s') : badErr e = false := by
  split at h
  · rcases SynM.bind_err _ _ _ _ _ h with h | ⟨n, s1, _, h⟩
    · exact randintM_err _ _ _ _ _ h
    · exact absurd h (pure_not_err _ _ _ _)
  · rcases SynM.bind_err _ _ _ _ _ h with h | ⟨n, s1, _, h⟩
    · exact randintM_err _ _ _ _ _ h
    rcases SynM.bind_err _ _ _ _ _ h with h | ⟨n2, s2, _, h⟩
    · exact randintM_err _ _ _ _ _ h
    · exact absurd h (pure_not_err _ _ _ _)

theorem decFloatM_err (dec : Decider) (s s' : SynSt) (e : Err)
    (h : decFloatM dec s = .err e s') : badErr e = false := by
  unfold decFloatM at h
  cases hk : dec.kind <;> rw [hk] at h <;> dsimp only at h <;>
    first
    | exact decFloatM_tree_err _ _ _ h
    | (rcases SynM.bind_err _ _ _ _ _ h with h | ⟨n, s1, _, h⟩
       · exact dsgeRead_err _ _ _ _ h
       · exact absurd h (pure_not_err _ _ _ _))

theorem decBoolM_err (dec : Decider) (s s' : SynSt) (e : Err)
    (h : decBoolM dec s = .err e s') : badErr e = false := by
  unfold decBoolM at h
  cases hk : dec.kind <;> rw [hk] at h <;> dsimp only at h <;>
    rcases SynM.bind_err _ _ _ _ _ h with h | ⟨n, s1, _, h⟩ <;>
    first
    | exact dsgeRead_err _ _ _ _ h
    | exact choiceIdxM_err 2 (by decide) _ _ _ h
    | exact absurd h (pure_not_err _ _ _ _)

theorem floatDrawM_err (s s' : SynSt) (e : Err) (h : floatDrawM s = .err e s') :
    badErr e = false := by
  unfold floatDrawM at h
  split at h
  · rcases SynM.bind_err _ _ _ _ _ h with h | ⟨n, s1, _, h⟩
    · exact dsgeRead_err _ _ _ _ h
    · exact absurd h (pure_not_err _ _ _ _)
  · rcases SynM.bind_err _ _ _ _ _ h with h | ⟨n, s1, _, h⟩
    · exact rawRandintM_err _ _ _ _ _ h
    · exact absurd h (pure_not_err _ _ _ _)

theorem genChars_err (al : List String) (hal : al ≠ []) : ∀ (n : Nat) (s s' : SynSt) (e : Err),
    genChars al n s = .err e s' → badErr e = false
  | 0, s, s', e, h => by
    unfold genChars at h; exact absurd h (pure_not_err _ _ _ _)
  | n + 1, s, s', e, h => by
    unfold genChars at h
    have hlen : al.length ≠ 0 := fun h0 => hal (List.eq_nil_of_length_eq_zero h0)
    rcases SynM.bind_err _ _ _ _ _ h with h | ⟨i, s1, _, h⟩
    · exact choiceIdxM_err _ hlen _ _ _ h
    rcases SynM.bind_err _ _ _ _ _ h with h | ⟨c, s2, _, h⟩
    · exact listGetM_err _ _ _ _ _ h
    rcases SynM.bind_err _ _ _ _ _ h with h | ⟨r, s3, _, h⟩
    · exact genChars_err al hal n _ _ _ h
    · exact absurd h (pure_not_err _ _ _ _)



theorem tysUsable_mem (ts : List Ty) (h : tysUsable ts = true) (t : Ty) (ht : t ∈ ts) :
    tyUsable t = true := by
  induction ts with
  | nil => cases ht
  | cons a as ih =>
    simp only [tysUsable, Bool.and_eq_true] at h
    rcases List.mem_cons.mp ht with rfl | ht
    · exact h.1
    · exact ih h.2 ht

theorem refinementsUsable_elim (g : Grammar) (h : refinementsUsable g = true) (n : Nat)
    (hreg : g.reg.allNodes.contains (.cls n) = true) :
    ∀ f ∈ (g.cls n).fields, tyUsable f.2 = true := by
  unfold refinementsUsable at h
  rw [List.all_eq_true] at h
  have := h _ (List.contains_iff_mem.mp hreg)
  simpa only [List.all_eq_true] using this

theorem resolveDep_shape (base : Ty) (mh : MH) (deps : List (String × Val))
    (hu : mhUsable base mh = true) :
    (∃ m, resolveDep mh deps = pure m ∧ mhUsable base m = true) ∨
    (∃ e, resolveDep mh deps = throwE e ∧ badErr e = false) := by
  cases mh <;> simp only [resolveDep]
  case depIntRangeLo f hi =>
    split
    · exact Or.inl ⟨_, rfl, rfl⟩
    · exact Or.inr ⟨_, rfl, by decide⟩
  case depIntRangeHi lo f =>
    split
    · exact Or.inl ⟨_, rfl, rfl⟩
    · exact Or.inr ⟨_, rfl, by decide⟩
  case depIntRangeSpan fw flo =>
    split
    · exact Or.inl ⟨_, rfl, rfl⟩
    · exact Or.inr ⟨_, rfl, by decide⟩
  case depListSize f =>
    split
    · exact Or.inl ⟨_, rfl, hu⟩
    · exact Or.inr ⟨_, rfl, by decide⟩
  case depVarFrom f => cases hu
  all_goals exact Or.inl ⟨_, rfl, hu⟩



/-- third fuel induction: under the budget invariant creation never fails with the decider's
`AssertionError` nor with a `SynthesisException` -/
def NoBadP (g : Grammar) (dec : Decider) (fuel : Nat) : Prop :=
  (∀ ty ctx deps s e s', createNode g dec fuel ty ctx deps s = .err e s' →
      ctx.depth + g.distOf ty ≤ dec.maxDepth → tyUsable ty = true → badErr e = false) ∧
  (∀ n prods ctx s e s', createAbstract g dec fuel n prods ctx s = .err e s' →
      (∃ t ∈ prods.map Ty.cls, fits g dec ctx t = true) → badErr e = false) ∧
  (∀ fs nctx deps s e s', createFields g dec fuel fs nctx deps s = .err e s' →
      (∀ f ∈ fs, nctx.depth + g.distOf f.2 ≤ dec.maxDepth ∧ tyUsable f.2 = true) →
      badErr e = false) ∧
  (∀ t nctx deps k s e s', createElems g dec fuel t nctx deps k s = .err e s' →
      nctx.depth + g.distOf t ≤ dec.maxDepth → tyUsable t = true → badErr e = false) ∧
  (∀ ts ctx s e s', createTuple g dec fuel ts ctx s = .err e s' →
      (∀ t ∈ ts, ctx.depth + g.distOf t ≤ dec.maxDepth ∧ tyUsable t = true) → badErr e = false)

theorem noBadP_zero (g : Grammar) (dec : Decider) : NoBadP g dec 0 := by
  refine ⟨?_, ?_, ?_, ?_, ?_⟩
  · intro ty ctx deps s e s' h; simp only [createNode] at h; rw [throwE_err _ _ _ _ h]; intros; decide
  · intro n prods ctx s e s' h; simp only [createAbstract] at h; rw [throwE_err _ _ _ _ h]; intros; decide
  · intro fs nctx deps s e s' h; simp only [createFields] at h; rw [throwE_err _ _ _ _ h]; intros; decide
  · intro t nctx deps k s e s' h; simp only [createElems] at h; rw [throwE_err _ _ _ _ h]; intros; decide
  · intro ts ctx s e s' h; simp only [createTuple] at h; rw [throwE_err _ _ _ _ h]; intros; decide

theorem noBad_abstract_succ (g : Grammar) (dec : Decider) (fuel : Nat)
    (hk : dec.kind.depthLimited = true) (ih : NoBadP g dec fuel) :
    ∀ n prods ctx s e s', createAbstract g dec (fuel + 1) n prods ctx s = .err e s' →
      (∃ t ∈ prods.map Ty.cls, fits g dec ctx t = true) → badErr e = false := by
  intro n prods ctx s e s' h hfit
  rw [createAbstract] at h
  dsimp only at h
  obtain ⟨r0, s0, htot⟩ := chooseProd_total g dec (.cls n) (prods.map Ty.cls) ctx s hk hfit
  split at h
  · rename_i hemp
    obtain ⟨t, ht, _⟩ := hfit
    rw [List.isEmpty_iff] at hemp
    rw [hemp] at ht; cases ht
  · split at h
    · rename_i e1 s1 hch
      rw [htot] at hch; cases hch
    · rename_i rule s1 hch
      obtain ⟨hmem, hfit1⟩ := chooseProd_fits _ _ _ _ _ _ _ _ hk hch
      rw [fits_iff] at hfit1
      have husable : tyUsable rule = true := by
        obtain ⟨p, _, rfl⟩ := List.mem_map.mp hmem
        rfl
      split at h
      · cases h
      · rename_i s2 hcn
        have := ih.1 _ ⟨ctx.depth, ctx.exp + 1⟩ _ _ _ _ hcn hfit1 husable
        cases this
      · rename_i e2 s2 _ hcn
        cases h
        exact ih.1 _ ⟨ctx.depth, ctx.exp + 1⟩ _ _ _ _ hcn hfit1 husable

theorem noBad_fields_succ (g : Grammar) (dec : Decider) (fuel : Nat) (ih : NoBadP g dec fuel) :
    ∀ fs nctx deps s e s', createFields g dec (fuel + 1) fs nctx deps s = .err e s' →
      (∀ f ∈ fs, nctx.depth + g.distOf f.2 ≤ dec.maxDepth ∧ tyUsable f.2 = true) →
      badErr e = false := by
  intro fs nctx deps s e s' h hall
  cases fs with
  | nil => simp only [createFields] at h; exact absurd h (pure_not_err _ _ _ _)
  | cons f fs =>
    obtain ⟨name, t⟩ := f
    simp only [createFields] at h
    have hf := hall (name, t) (List.mem_cons_self ..)
    rcases SynM.bind_err _ _ _ _ _ h with h | ⟨v, s1, _, h⟩
    · exact ih.1 _ _ _ _ _ _ h hf.1 hf.2
    rcases SynM.bind_err _ _ _ _ _ h with h | ⟨vs, s2, _, h⟩
    · exact ih.2.2.1 _ _ _ _ _ _ h (fun f hf => hall f (List.mem_cons_of_mem _ hf))
    · exact absurd h (pure_not_err _ _ _ _)

theorem noBad_elems_succ (g : Grammar) (dec : Decider) (fuel : Nat) (ih : NoBadP g dec fuel) :
    ∀ t nctx deps k s e s', createElems g dec (fuel + 1) t nctx deps k s = .err e s' →
      nctx.depth + g.distOf t ≤ dec.maxDepth → tyUsable t = true → badErr e = false := by
  intro t nctx deps k s e s' h hd hu
  cases k with
  | zero => simp only [createElems] at h; exact absurd h (pure_not_err _ _ _ _)
  | succ k =>
    simp only [createElems] at h
    rcases SynM.bind_err _ _ _ _ _ h with h | ⟨v, s1, _, h⟩
    · exact ih.1 _ _ _ _ _ _ h hd hu
    rcases SynM.bind_err _ _ _ _ _ h with h | ⟨vs, s2, _, h⟩
    · exact ih.2.2.2.1 _ _ _ _ _ _ _ h hd hu
    · exact absurd h (pure_not_err _ _ _ _)

theorem noBad_tuple_succ (g : Grammar) (dec : Decider) (fuel : Nat) (ih : NoBadP g dec fuel) :
    ∀ ts ctx s e s', createTuple g dec (fuel + 1) ts ctx s = .err e s' →
      (∀ t ∈ ts, ctx.depth + g.distOf t ≤ dec.maxDepth ∧ tyUsable t = true) →
      badErr e = false := by
  intro ts ctx s e s' h hall
  cases ts with
  | nil => simp only [createTuple] at h; exact absurd h (pure_not_err _ _ _ _)
  | cons t ts =>
    simp only [createTuple] at h
    have hf := hall t (List.mem_cons_self ..)
    rcases SynM.bind_err _ _ _ _ _ h with h | ⟨v, s1, _, h⟩
    · exact ih.1 _ _ _ _ _ _ h hf.1 hf.2
    rcases SynM.bind_err _ _ _ _ _ h with h | ⟨vs, s2, _, h⟩
    · exact ih.2.2.2.2 _ _ _ _ _ h (fun f hf => hall f (List.mem_cons_of_mem _ hf))
    · exact absurd h (pure_not_err _ _ _ _)



theorem noBad_node_succ (g : Grammar) (dec : Decider) (fuel : Nat)
    (hc : distConsistent g = true) (ha : distAttained g = true) (hr : refinementsUsable g = true)
    (hk : dec.kind.depthLimited = true) (hD : dec.maxDepth < INF)
    (ih : NoBadP g dec fuel) :
    ∀ ty ctx deps s e s', createNode g dec (fuel + 1) ty ctx deps s = .err e s' →
      ctx.depth + g.distOf ty ≤ dec.maxDepth → tyUsable ty = true → badErr e = false := by
  intro ty ctx deps s e s' h hinv hu
  cases ty with
  | int =>
    simp only [createNode] at h
    rcases SynM.bind_err _ _ _ _ _ h with h | ⟨a, s1, _, h⟩
    · exact decIntM_err _ _ _ _ _ _ _ h
    · exact absurd h (pure_not_err _ _ _ _)
  | float =>
    simp only [createNode] at h
    rcases SynM.bind_err _ _ _ _ _ h with h | ⟨a, s1, _, h⟩
    · exact decFloatM_err _ _ _ _ h
    · exact absurd h (pure_not_err _ _ _ _)
  | str =>
    simp only [createNode] at h
    exact absurd h (pure_not_err _ _ _ _)
  | bool =>
    simp only [createNode] at h
    rcases SynM.bind_err _ _ _ _ _ h with h | ⟨a, s1, _, h⟩
    · exact decBoolM_err _ _ _ _ h
    · exact absurd h (pure_not_err _ _ _ _)
  | cls n =>
    simp only [createNode] at h
    split at h
    · rw [throwE_err _ _ _ _ h]; decide
    · rename_i hreg
      have hreg' : g.reg.allNodes.contains (Sym.cls n) = true := by simpa using hreg
      cases halts : g.altsOf n with
      | some prods =>
        rw [halts] at h
        exact ih.2.1 _ _ _ _ _ _ h (abstract_has_fit g dec ha hD n prods ctx hreg' halts hinv)
      | none =>
        rw [halts] at h
        dsimp only at h
        obtain ⟨_, hf⟩ := concrete_inv g dec hc hD n ctx hreg halts hinv
        have hfu := refinementsUsable_elim g hr n hreg'
        rcases SynM.bind_err _ _ _ _ _ h with h | ⟨a, s1, _, h⟩
        · exact ih.2.2.1 _ ⟨ctx.depth + 1, ctx.exp + 1⟩ _ _ _ _ h
            (fun f hfm => ⟨hf f hfm, hfu f hfm⟩)
        · exact absurd h (pure_not_err _ _ _ _)
  | list t =>
    simp only [createNode] at h
    simp only [tyUsable] at hu
    have hinv' : ctx.depth + g.e + g.distOf t ≤ dec.maxDepth := by
      simp only [Grammar.distOf, distTy] at hinv ⊢; omega
    rcases SynM.bind_err _ _ _ _ _ h with h | ⟨len, s1, _, h⟩
    · exact decIntM_err _ _ _ _ _ _ _ h
    rcases SynM.bind_err _ _ _ _ _ h with h | ⟨vs, s2, _, h⟩
    · exact ih.2.2.2.1 t ⟨ctx.depth + g.e, ctx.exp + 1⟩ _ _ _ _ _ h hinv' hu
    · exact absurd h (pure_not_err _ _ _ _)
  | tuple ts =>
    simp only [createNode] at h
    simp only [tyUsable] at hu
    rcases SynM.bind_err _ _ _ _ _ h with h | ⟨vs, s2, _, h⟩
    · refine ih.2.2.2.2 _ _ _ _ _ h ?_
      intro t ht
      have := distTysMax_ge g.e g.dist ts t ht
      refine ⟨?_, tysUsable_mem ts hu t ht⟩
      simp only [Grammar.distOf, distTy] at hinv ⊢; omega
    · exact absurd h (pure_not_err _ _ _ _)
  | union ts =>
    simp only [createNode] at h
    simp only [tyUsable] at hu
    have hfit := union_has_fit g dec hD ts ctx hinv
    obtain ⟨r0, s0, htot⟩ := chooseProd_total g dec (.union ts) ts ctx s hk hfit
    rcases SynM.bind_err _ _ _ _ _ h with h | ⟨t, s1, hch, h⟩
    · rw [htot] at h; cases h
    obtain ⟨hmem, hfit1⟩ := chooseProd_fits _ _ _ _ _ _ _ _ hk hch
    rw [fits_iff] at hfit1
    rcases SynM.bind_err _ _ _ _ _ h with h | ⟨v, s2, _, h⟩
    · exact ih.1 _ _ _ _ _ _ h hfit1 (tysUsable_mem ts hu t hmem)
    · exact absurd h (pure_not_err _ _ _ _)
  | ann base mh =>
    rw [distOf_ann] at hinv
    simp only [tyUsable, Bool.and_eq_true] at hu
    obtain ⟨hmu, hbu⟩ := hu
    simp only [createNode] at h
    by_cases hisdep : mh.isDep = true
    · rw [if_pos hisdep] at h
      rcases resolveDep_shape base mh deps hmu with ⟨m, hm, hmu'⟩ | ⟨e0, he0, hb0⟩
      · rw [hm] at h
        rcases SynM.bind_err _ _ _ _ _ h with h | ⟨mh', s1, h1, h⟩
        · exact absurd h (pure_not_err _ _ _ _)
        rw [SynM.pure_ok] at h1
        obtain ⟨rfl, _⟩ := h1
        rcases SynM.bind_err _ _ _ _ _ h with h | ⟨v, s2, _, h⟩
        · exact ih.1 _ ⟨ctx.depth, ctx.exp + 1⟩ _ _ _ _ h (by rw [distOf_ann]; exact hinv)
            (by simp only [tyUsable, hmu', hbu, Bool.and_self])
        · exact absurd h (pure_not_err _ _ _ _)
      · rw [he0] at h
        rcases SynM.bind_err _ _ _ _ _ h with h | ⟨mh', s1, h1, h⟩
        · rw [throwE_err _ _ _ _ h]; exact hb0
        · exact absurd h1 (throwE_not_ok _ _ _ _)
    rw [if_neg hisdep] at h
    cases mh <;> dsimp only at h
    case depIntRangeLo => exact absurd rfl hisdep
    case depIntRangeHi => exact absurd rfl hisdep
    case depIntRangeSpan => exact absurd rfl hisdep
    case depListSize => exact absurd rfl hisdep
    case depVarFrom => exact absurd rfl hisdep
    case intRange =>
      rcases SynM.bind_err _ _ _ _ _ h with h | ⟨a, s1, _, h⟩
      · exact randintM_err _ _ _ _ _ h
      · exact absurd h (pure_not_err _ _ _ _)
    case intList xs =>
      have hne : xs.length ≠ 0 := by
        intro h0
        have := List.eq_nil_of_length_eq_zero h0
        subst this; cases hmu
      rcases SynM.bind_err _ _ _ _ _ h with h | ⟨i, s1, _, h⟩
      · exact choiceIdxM_err _ hne _ _ _ h
      rcases SynM.bind_err _ _ _ _ _ h with h | ⟨a, s2, _, h⟩
      · exact listGetM_err _ _ _ _ _ h
      · exact absurd h (pure_not_err _ _ _ _)
    case varRange opts =>
      have hne : opts.length ≠ 0 := by
        intro h0
        have := List.eq_nil_of_length_eq_zero h0
        subst this; cases hmu
      rcases SynM.bind_err _ _ _ _ _ h with h | ⟨i, s1, _, h⟩
      · exact choiceIdxM_err _ hne _ _ _ h
      rcases SynM.bind_err _ _ _ _ _ h with h | ⟨a, s2, _, h⟩
      · exact listGetM_err _ _ _ _ _ h
      · exact absurd h (pure_not_err _ _ _ _)
    case strSize lo hi al =>
      have hne : al ≠ [] := by
        intro h0; subst h0; cases hmu
      rcases SynM.bind_err _ _ _ _ _ h with h | ⟨i, s1, _, h⟩
      · exact randintM_err _ _ _ _ _ h
      rcases SynM.bind_err _ _ _ _ _ h with h | ⟨a, s2, _, h⟩
      · exact genChars_err al hne _ _ _ _ h
      · exact absurd h (pure_not_err _ _ _ _)
    case interval =>
      rcases SynM.bind_err _ _ _ _ _ h with h | ⟨i, s1, _, h⟩
      · exact randintM_err _ _ _ _ _ h
      rcases SynM.bind_err _ _ _ _ _ h with h | ⟨a, s2, _, h⟩
      · exact randintM_err _ _ _ _ _ h
      · exact absurd h (pure_not_err _ _ _ _)
    case floatRange =>
      rcases SynM.bind_err _ _ _ _ _ h with h | ⟨a, s1, _, h⟩
      · exact floatDrawM_err _ _ _ h
      · exact absurd h (pure_not_err _ _ _ _)
    case floatList n =>
      have hne : n ≠ 0 := by
        intro h0; subst h0; cases hmu
      rcases SynM.bind_err _ _ _ _ _ h with h | ⟨a, s1, _, h⟩
      · exact choiceIdxM_err _ hne _ _ _ h
      · exact absurd h (pure_not_err _ _ _ _)
    case listSize lo hi =>
      cases base <;> first | (cases hmu; done) | skip
      rename_i inner
      dsimp only at h
      simp only [tyUsable] at hbu
      have hinv' : ctx.depth + g.distOf inner ≤ dec.maxDepth := by
        simp only [Grammar.distOf, distTy] at hinv ⊢; omega
      rcases SynM.bind_err _ _ _ _ _ h with h | ⟨size, s1, _, h⟩
      · exact randintM_err _ _ _ _ _ h
      rcases SynM.bind_err _ _ _ _ _ h with h | ⟨vs, s2, _, h⟩
      · exact ih.2.2.2.1 inner ⟨ctx.depth, ctx.exp + 1⟩ _ _ _ _ _ h hinv' hbu
      · exact absurd h (pure_not_err _ _ _ _)

theorem noBadP_all (g : Grammar) (dec : Decider) (hc : distConsistent g = true)
    (ha : distAttained g = true) (hr : refinementsUsable g = true)
    (hk : dec.kind.depthLimited = true) (hD : dec.maxDepth < INF) : ∀ fuel, NoBadP g dec fuel := by
  intro fuel
  induction fuel with
  | zero => exact noBadP_zero g dec
  | succ fuel ih =>
    exact ⟨noBad_node_succ g dec fuel hc ha hr hk hD ih, noBad_abstract_succ g dec fuel hk ih,
      noBad_fields_succ g dec fuel ih, noBad_elems_succ g dec fuel ih, noBad_tuple_succ g dec fuel ih⟩



theorem lookupDist_mem_of_lt (d : DistTable) (s : Sym) (h : lookupDist d s < INF) :
    (s, lookupDist d s) ∈ d := by
  induction d with
  | nil => simp only [lookupDist] at h; omega
  | cons kv rest ih =>
    obtain ⟨k, v⟩ := kv
    simp only [lookupDist] at h ⊢
    split
    · rename_i hks
      have : k = s := eq_of_beq hks
      subst this
      exact List.mem_cons_self ..
    · rename_i hks
      rw [if_neg hks] at h
      exact List.mem_cons_of_mem _ (ih h)

theorem fixpoint_value (g : GrammarSpec) (r : Reg) (d : DistTable) (s : Sym)
    (hfix : isFixpoint g r d = true) (hlt : lookupDist d s < INF) :
    lookupDist d s = rhsSym g r d s := by
  unfold isFixpoint at hfix
  rw [List.all_eq_true] at hfix
  have := hfix _ (lookupDist_mem_of_lt d s hlt)
  simp only [beq_iff_eq] at this
  omega

theorem listMax_ge (l : List Nat) (x : Nat) (h : x ∈ l) : x ≤ listMax l := by
  induction l with
  | nil => cases h
  | cons a as ih =>
    simp only [listMax]
    rcases List.mem_cons.mp h with rfl | h
    · omega
    · have := ih h; omega

theorem listMin_attained (l : List Nat) (h : listMin l < INF) : ∃ x ∈ l, x = listMin l := by
  induction l with
  | nil => simp only [listMin] at h; omega
  | cons a as ih =>
    simp only [listMin] at h ⊢
    by_cases hle : a ≤ listMin as
    · exact ⟨a, List.mem_cons_self .., by omega⟩
    · obtain ⟨x, hx, heq⟩ := ih (by omega)
      exact ⟨x, List.mem_cons_of_mem _ hx, by omega⟩

theorem getAlts_mem (alts : List (Nat × List Nat)) (n : Nat) (prods : List Nat)
    (h : getAlts alts n = some prods) : (n, prods) ∈ alts := by
  induction alts with
  | nil => simp only [getAlts] at h; cases h
  | cons kv rest ih =>
    obtain ⟨k, v⟩ := kv
    simp only [getAlts] at h
    split at h
    · rename_i hk
      have : k = n := eq_of_beq hk
      subst this
      cases h
      exact List.mem_cons_self ..
    · exact List.mem_cons_of_mem _ (ih h)

/-- any solution of the distance equations is consistent with the class declarations -/
theorem fixpoint_consistent (g : Grammar) (hfix : isFixpoint g.spec g.reg g.dist = true) :
    distConsistent g = true := by
  unfold distConsistent
  rw [List.all_eq_true]
  intro s _
  cases s with
  | cls n =>
    dsimp only
    cases halts : g.altsOf n with
    | some prods => rfl
    | none =>
      by_cases hlt : lookupDist g.dist (.cls n) < INF
      · have hv := fixpoint_value g.spec g.reg g.dist (.cls n) hfix hlt
        have halts' : getAlts g.reg.alts n = none := halts
        simp only [rhsSym, halts'] at hv
        have hcls : g.cls n = g.spec.classes.getD n default := rfl
        simp only [Option.isSome_none, Bool.false_or, Bool.or_eq_true, Bool.not_eq_true',
          decide_eq_false_iff_not, Bool.and_eq_true, decide_eq_true_eq, List.all_eq_true]
        refine Or.inr ?_
        rw [hcls]
        split at hv
        · omega
        · split at hv
          · rename_i hemp
            rw [List.isEmpty_iff] at hemp
            rw [hemp]
            exact ⟨by omega, fun f hf => by cases hf⟩
          · rename_i hemp
            have hge : ∀ f ∈ (g.spec.classes.getD n default).fields,
                1 + distTy g.e g.dist f.2 ≤ lookupDist g.dist (.cls n) := by
              intro f hf
              rw [hv]
              exact listMax_ge _ _ (List.mem_map.mpr ⟨f, hf, rfl⟩)
            refine ⟨?_, hge⟩
            cases hfs : (g.spec.classes.getD n default).fields with
            | nil => rw [hfs] at hemp; exact absurd rfl hemp
            | cons f fs =>
              have := hge f (by rw [hfs]; exact List.mem_cons_self ..)
              omega
      · simp only [Option.isSome_none, Bool.false_or, Bool.or_eq_true, Bool.not_eq_true',
          decide_eq_false_iff_not]
        exact Or.inl hlt
  | _ => rfl

/-- ... and every finite distance of an abstract class is attained by an alternative -/
theorem fixpoint_attained (g : Grammar) (hfix : isFixpoint g.spec g.reg g.dist = true)
    (habs : altsAbstract g = true) : distAttained g = true := by
  unfold distAttained
  rw [List.all_eq_true]
  intro s _
  cases s with
  | cls n =>
    dsimp only
    cases halts : g.altsOf n with
    | none => rfl
    | some prods =>
      dsimp only
      by_cases hlt : lookupDist g.dist (.cls n) < INF
      · have hv := fixpoint_value g.spec g.reg g.dist (.cls n) hfix hlt
        have halts' : getAlts g.reg.alts n = some prods := halts
        have habs' : (g.spec.classes.getD n default).abstract = true := by
          unfold altsAbstract at habs
          rw [List.all_eq_true] at habs
          exact habs _ (getAlts_mem _ _ _ halts')
        simp only [rhsSym, halts', habs', if_true] at hv
        obtain ⟨x, hx, heq⟩ := listMin_attained _ (by rw [← hv]; exact hlt)
        obtain ⟨p, hp, rfl⟩ := List.mem_map.mp hx
        simp only [Bool.or_eq_true, Bool.not_eq_true', decide_eq_false_iff_not, List.any_eq_true,
          decide_eq_true_eq]
        exact Or.inr ⟨p, hp, by show g.spec.e + _ ≤ _; omega⟩
      · simp only [Bool.or_eq_true, Bool.not_eq_true', decide_eq_false_iff_not]
        exact Or.inl hlt
  | _ => rfl



theorem badErr_false (e : Err) (h : badErr e = false) :
    e ≠ .foreign "AssertionError" ∧ e ≠ .synthesis := by
  constructor <;> (intro h0; subst h0; revert h; decide)

/-- variation re-enters creation only at contexts that satisfy the invariant -/
theorem mutateRoot_noBad (g : Grammar) (dec : Decider) (fuel : Nat) (i : Val) (source : Option Val)
    (s s' : SynSt) (e : Err) (hc : distConsistent g = true) (ha : distAttained g = true)
    (hr : refinementsUsable g = true) (hk : dec.kind.depthLimited = true)
    (hD : dec.maxDepth < INF) (hvalid : g.minTreeDepth ≤ dec.maxDepth)
    (hi : IndOK g dec i)
    (h : mutateRoot g dec fuel i source s = .err e s') : badErr e = false := by
  have hP := (noBadP_all g dec hc ha hr hk hD fuel).1
  unfold mutateRoot at h
  cases hctx : i.ctx with
  | none =>
    rw [hctx] at h
    dsimp only at h
    exact hP _ _ _ _ _ _ h (by rw [distOf_start]; simpa using hvalid) rfl
  | some ctx =>
    rw [hctx] at h
    dsimp only at h
    have hfresh : createNode g dec fuel (.cls g.spec.start) ctx [] s = .err e s' →
        badErr e = false :=
      fun h => hP _ _ _ _ _ _ h (by rw [distOf_start]; exact hi.2.2 ctx hctx) rfl
    cases source with
    | none => exact hfresh h
    | some src =>
      dsimp only at h
      by_cases hemp : (occurrences g.spec.start src).isEmpty = true
      · rw [if_pos hemp] at h; exact hfresh h
      · rw [if_neg hemp] at h
        exact pick_err _ (by intro h0; rw [h0] at hemp; exact hemp rfl) _ _ _ h

/-! ### The grammar of the retry-loop witness -/

/-- abstract `A` with `P1(vars : Annotated[list[str], ListSizeBetween(0,1)],
x : Annotated[str, Dependent("vars", VarRange)])` and `P2(a : P1)`; minimum depth 1 -/
def retrySpec : GrammarSpec :=
  { classes := [
      { name := "A", abstract := true, parent := none, fields := [] },
      { name := "P1", abstract := false, parent := some 0,
        fields := [("vars", .ann (.list .str) (.listSize 0 1)),
                   ("x", .ann .str (.depVarFrom "vars"))] },
      { name := "P2", abstract := false, parent := some 0, fields := [("a", .cls 1)] }],
    start := 0, considered := [0, 1, 2] }

def retryG : Grammar := analyse retrySpec

def errOf : Res Val → Option Err
  | .ok _ _ => none
  | .err e _ => some e

end GEVerif.Depth
