/-
  Lemmas about `relabelE` (both depth modes): it coincides with `relabel` in node mode, its type
  index never depends on the mode, and in expansion mode its three numbers are what the
  independent traversals of `Model/LabelsE.lean` compute.
-/
import GEVerif.Model.LabelsE
import GEVerif.Lemmas.Labels

namespace GEVerif.Labels
open GEVerif

/-! ### Equation lemmas -/

theorem relabelE_node (g : Grammar) (decl : Option Ty) (c d x : Nat) (args : List Val) :
    relabelE g decl (.node c d x args) =
      if g.isTerminalCls c then ⟨g.e, g.e, g.e, [(.cls c, 1)]⟩ else
      let r := relabelChildrenE g true (childDecls g decl (.node c d x args)) args
      ⟨1 + r.1, max 1 r.2.1, r.2.2.1 + max 1 r.2.1, mergeCounts [(.cls c, 1)] r.2.2.2⟩ := by
  rw [relabelE]

theorem relabelE_list (g : Grammar) (decl : Option Ty) (d x : Nat) (vs : List Val) :
    relabelE g decl (.list d x vs) =
      let r := relabelChildrenE g true (childDecls g decl (.list d x vs)) vs
      ⟨r.1, r.2.1, r.2.2.1, mergeCounts [(.list, 1)] r.2.2.2⟩ := by
  rw [relabelE]

theorem relabelE_tuple (g : Grammar) (decl : Option Ty) (vs : List Val) :
    relabelE g decl (.tuple vs) =
      let r := relabelChildrenE g false (childDecls g decl (.tuple vs)) vs
      ⟨r.1, r.2.1, r.2.2.1, mergeCounts [(.tuple, 1)] r.2.2.2⟩ := by
  rw [relabelE]

theorem relabelChildrenE_nil (g : Grammar) (ch : Bool) (tys : List (Option Ty)) :
    relabelChildrenE g ch tys [] = (0, 0, 0, []) := by
  rw [relabelChildrenE]

theorem relabelChildrenE_cons (g : Grammar) (ch : Bool) (tys : List (Option Ty)) (c : Val)
    (cs : List Val) :
    relabelChildrenE g ch tys (c :: cs) =
      let l := relabelE g tys.head?.join c
      let r := relabelChildrenE g ch tys.tail cs
      let a := absAdjust g (if ch then tys.head?.join else none) c
      (l.nodes + a + r.1, max (l.dtt + a + listAdjust c) r.2.1, l.weighted + r.2.2.1,
       mergeCounts l.types r.2.2.2) := by
  rw [relabelChildrenE]

theorem listAdjust_eq_childAdj (v : Val) : listAdjust v = childAdj v := by
  cases v <;> rfl

theorem absAdjust_node_mode (g : Grammar) (h : g.e = 0) (decl : Option Ty) (v : Val) :
    absAdjust g decl v = 0 := by
  cases v <;> simp [absAdjust, h]

/-! ### Node mode: `relabelE` is `relabel` -/

mutual
theorem relabelE_eq_relabel (g : Grammar) (h : g.e = 0) :
    ∀ (decl : Option Ty) (v : Val), relabelE g decl v = relabel g v
  | decl, .node c d x args => by
      have ih := relabelChildrenE_eq_relabelChildren g h true (childDecls g decl (.node c d x args)) args
      rw [relabelE_node, relabel_node]
      by_cases ht : g.isTerminalCls c
      · simp [ht, h]
      · simp [ht, ih]
  | decl, .list d x vs => by
      have ih := relabelChildrenE_eq_relabelChildren g h true (childDecls g decl (.list d x vs)) vs
      rw [relabelE_list, relabel_list]; simp [ih]
  | decl, .tuple vs => by
      have ih := relabelChildrenE_eq_relabelChildren g h false (childDecls g decl (.tuple vs)) vs
      rw [relabelE_tuple, relabel_tuple]; simp [ih]
  | _, .int _ => by simp [relabelE, relabel, h, Val.key]
  | _, .float => by simp [relabelE, relabel, h, Val.key]
  | _, .str _ => by simp [relabelE, relabel, h, Val.key]
  | _, .bool _ => by simp [relabelE, relabel, h, Val.key]
  | _, .foreign _ => by simp [relabelE, relabel, h, Val.key]
theorem relabelChildrenE_eq_relabelChildren (g : Grammar) (h : g.e = 0) :
    ∀ (ch : Bool) (tys : List (Option Ty)) (vs : List Val),
      relabelChildrenE g ch tys vs = relabelChildren g vs
  | ch, tys, [] => by rw [relabelChildrenE_nil, relabelChildren_nil]
  | ch, tys, v :: vs => by
      have ih1 := relabelE_eq_relabel g h tys.head?.join v
      have ih2 := relabelChildrenE_eq_relabelChildren g h ch tys.tail vs
      rw [relabelChildrenE_cons, relabelChildren_cons]
      simp [ih1, ih2, absAdjust_node_mode g h, listAdjust_eq_childAdj]
end

/-! ### The type index does not depend on the depth mode -/

mutual
theorem relabelE_types (g : Grammar) :
    ∀ (decl : Option Ty) (v : Val), (relabelE g decl v).types = (relabel g v).types
  | decl, .node c d x args => by
      have ih := relabelChildrenE_types g true (childDecls g decl (.node c d x args)) args
      rw [relabelE_node, relabel_node]
      by_cases ht : g.isTerminalCls c
      · simp [ht]
      · simp [ht, ih]
  | decl, .list d x vs => by
      have ih := relabelChildrenE_types g true (childDecls g decl (.list d x vs)) vs
      rw [relabelE_list, relabel_list]; simp [ih]
  | decl, .tuple vs => by
      have ih := relabelChildrenE_types g false (childDecls g decl (.tuple vs)) vs
      rw [relabelE_tuple, relabel_tuple]; simp [ih]
  | _, .int _ => by simp [relabelE, relabel, Val.key]
  | _, .float => by simp [relabelE, relabel, Val.key]
  | _, .str _ => by simp [relabelE, relabel, Val.key]
  | _, .bool _ => by simp [relabelE, relabel, Val.key]
  | _, .foreign _ => by simp [relabelE, relabel, Val.key]
theorem relabelChildrenE_types (g : Grammar) :
    ∀ (ch : Bool) (tys : List (Option Ty)) (vs : List Val),
      (relabelChildrenE g ch tys vs).2.2.2 = (relabelChildren g vs).2.2.2
  | ch, tys, [] => by rw [relabelChildrenE_nil, relabelChildren_nil]
  | ch, tys, v :: vs => by
      have ih1 := relabelE_types g tys.head?.join v
      have ih2 := relabelChildrenE_types g ch tys.tail vs
      rw [relabelChildrenE_cons, relabelChildren_cons]
      simp [ih1, ih2]
end

/-! ### Expansion mode: distance -/

theorem dttChildrenE_nil (g : Grammar) (ch : Bool) (tys : List (Option Ty)) :
    dttChildrenE g ch tys [] = 0 := by rw [dttChildrenE]

theorem dttChildrenE_cons (g : Grammar) (ch : Bool) (tys : List (Option Ty)) (c : Val)
    (cs : List Val) :
    dttChildrenE g ch tys (c :: cs) =
      max (dttSpecE g tys.head?.join c + absAdjust g (if ch then tys.head?.join else none) c + listAdjust c)
        (dttChildrenE g ch tys.tail cs) := by
  rw [dttChildrenE]

mutual
theorem relabelE_dtt_eq (g : Grammar) (h : g.e = 1) :
    ∀ (decl : Option Ty) (v : Val), (relabelE g decl v).dtt = dttSpecE g decl v
  | decl, .node c d x args => by
      have ih := relabelChildrenE_dtt_eq g h true (childDecls g decl (.node c d x args)) args
      rw [relabelE_node, dttSpecE]
      by_cases ht : g.isTerminalCls c <;> simp [ht, ih, h]
  | decl, .list d x vs => by
      have ih := relabelChildrenE_dtt_eq g h true (childDecls g decl (.list d x vs)) vs
      rw [relabelE_list, dttSpecE]; exact ih
  | decl, .tuple vs => by
      have ih := relabelChildrenE_dtt_eq g h false (childDecls g decl (.tuple vs)) vs
      rw [relabelE_tuple, dttSpecE]; exact ih
  | _, .int _ => by simp [relabelE, dttSpecE, h]
  | _, .float => by simp [relabelE, dttSpecE, h]
  | _, .str _ => by simp [relabelE, dttSpecE, h]
  | _, .bool _ => by simp [relabelE, dttSpecE, h]
  | _, .foreign _ => by simp [relabelE, dttSpecE, h]
theorem relabelChildrenE_dtt_eq (g : Grammar) (h : g.e = 1) :
    ∀ (ch : Bool) (tys : List (Option Ty)) (vs : List Val),
      (relabelChildrenE g ch tys vs).2.1 = dttChildrenE g ch tys vs
  | ch, tys, [] => by rw [relabelChildrenE_nil, dttChildrenE_nil]
  | ch, tys, v :: vs => by
      have ih1 := relabelE_dtt_eq g h tys.head?.join v
      have ih2 := relabelChildrenE_dtt_eq g h ch tys.tail vs
      rw [relabelChildrenE_cons, dttChildrenE_cons]
      simp [ih1, ih2]
end

/-- in expansion mode every object is at distance at least one from its deepest terminal -/
theorem dttSpecE_pos (g : Grammar) (decl : Option Ty) :
    ∀ v : Val, v.isContainer = false → 1 ≤ dttSpecE g decl v
  | .node c d x args => by
      intro _
      rw [dttSpecE]
      by_cases ht : g.isTerminalCls c <;> simp [ht]
      omega
  | .list .. => by intro h; simp [Val.isContainer] at h
  | .tuple .. => by intro h; simp [Val.isContainer] at h
  | .int _ => by intro _; simp [dttSpecE]
  | .float => by intro _; simp [dttSpecE]
  | .str _ => by intro _; simp [dttSpecE]
  | .bool _ => by intro _; simp [dttSpecE]
  | .foreign _ => by intro _; simp [dttSpecE]

/-! ### Expansion mode: node count -/

theorem hopsSumChildren_nil (g : Grammar) (ch : Bool) (tys : List (Option Ty)) :
    hopsSumChildren g ch tys [] = 0 := by rw [hopsSumChildren]

theorem hopsSumChildren_cons (g : Grammar) (ch : Bool) (tys : List (Option Ty)) (c : Val)
    (cs : List Val) :
    hopsSumChildren g ch tys (c :: cs) =
      (if c.isContainer then 0 else absAdjust g (if ch then tys.head?.join else none) c)
        + hopsSum g tys.head?.join c + hopsSumChildren g ch tys.tail cs := by
  rw [hopsSumChildren]

theorem subvalues_eq_cons_tail : ∀ v : Val, v.subvalues = v :: v.subvalues.tail
  | .node .. => by rw [subvalues_node]; rfl
  | .list .. => by rw [subvalues_list]; rfl
  | .tuple .. => by rw [subvalues_tuple]; rfl
  | .int _ => by simp [Val.subvalues]
  | .float => by simp [Val.subvalues]
  | .str _ => by simp [Val.subvalues]
  | .bool _ => by simp [Val.subvalues]
  | .foreign _ => by simp [Val.subvalues]

theorem absAdjust_container (g : Grammar) (decl : Option Ty) (v : Val) (h : v.isContainer = true) :
    absAdjust g decl v = g.e := by
  cases v <;> simp [Val.isContainer] at h <;> simp [absAdjust]

/-- the number of non-container values and of containers in a list of values -/
def objCount (l : List Val) : Nat := (l.filter fun x => !x.isContainer).length
def contCount (l : List Val) : Nat := (l.filter Val.isContainer).length

theorem objCount_append (a b : List Val) : objCount (a ++ b) = objCount a + objCount b := by
  simp [objCount]
theorem contCount_append (a b : List Val) : contCount (a ++ b) = contCount a + contCount b := by
  simp [contCount]
theorem objCount_cons (x : Val) (l : List Val) :
    objCount (x :: l) = (if x.isContainer then 0 else 1) + objCount l := by
  unfold objCount; by_cases h : x.isContainer <;> simp [h]; omega
theorem contCount_cons (x : Val) (l : List Val) :
    contCount (x :: l) = (if x.isContainer then 1 else 0) + contCount l := by
  unfold contCount; by_cases h : x.isContainer <;> simp [h]; omega

theorem nodesSpecE_eq (g : Grammar) (decl : Option Ty) (v : Val) :
    nodesSpecE g decl v = objCount v.subvalues + contCount v.subvalues.tail + hopsSum g decl v := rfl

mutual
theorem relabelE_nodes_eq (g : Grammar) (h : g.e = 1) :
    ∀ (decl : Option Ty) (v : Val), FieldlessTerminals g v.subvalues →
      (relabelE g decl v).nodes = nodesSpecE g decl v
  | decl, .node c d x args => by
      intro H
      rw [relabelE_node, nodesSpecE_eq, hopsSum]
      by_cases ht : g.isTerminalCls c
      · have := H.node_args ht; subst this
        simp [ht, h, subvalues_node, subvaluesList_nil, objCount, contCount, Val.isContainer,
          hopsSumChildren_nil]
      · rw [subvalues_node] at H ⊢
        have ih := relabelChildrenE_nodes_eq g h true (childDecls g decl (.node c d x args)) args H.tail
        simp [ht, ih, objCount_cons, Val.isContainer]; omega
  | decl, .list d x vs => by
      intro H
      rw [subvalues_list] at H
      have ih := relabelChildrenE_nodes_eq g h true (childDecls g decl (.list d x vs)) vs H.tail
      rw [relabelE_list, nodesSpecE_eq, hopsSum, subvalues_list]
      simp [ih, objCount_cons, Val.isContainer]
  | decl, .tuple vs => by
      intro H
      rw [subvalues_tuple] at H
      have ih := relabelChildrenE_nodes_eq g h false (childDecls g decl (.tuple vs)) vs H.tail
      rw [relabelE_tuple, nodesSpecE_eq, hopsSum, subvalues_tuple]
      simp [ih, objCount_cons, Val.isContainer]
  | _, .int _ => by intro _; simp [relabelE, nodesSpecE, hopsSum, Val.subvalues, Val.isContainer, h]
  | _, .float => by intro _; simp [relabelE, nodesSpecE, hopsSum, Val.subvalues, Val.isContainer, h]
  | _, .str _ => by intro _; simp [relabelE, nodesSpecE, hopsSum, Val.subvalues, Val.isContainer, h]
  | _, .bool _ => by intro _; simp [relabelE, nodesSpecE, hopsSum, Val.subvalues, Val.isContainer, h]
  | _, .foreign _ => by intro _; simp [relabelE, nodesSpecE, hopsSum, Val.subvalues, Val.isContainer, h]
theorem relabelChildrenE_nodes_eq (g : Grammar) (h : g.e = 1) :
    ∀ (ch : Bool) (tys : List (Option Ty)) (vs : List Val),
      FieldlessTerminals g (Val.subvaluesList vs) →
      (relabelChildrenE g ch tys vs).1 =
        objCount (Val.subvaluesList vs) + contCount (Val.subvaluesList vs) + hopsSumChildren g ch tys vs
  | ch, tys, [] => by
      intro _
      simp [relabelChildrenE_nil, subvaluesList_nil, hopsSumChildren_nil, objCount, contCount]
  | ch, tys, v :: vs => by
      intro H
      rw [subvaluesList_cons] at H
      have ih1 := relabelE_nodes_eq g h tys.head?.join v H.left
      have ih2 := relabelChildrenE_nodes_eq g h ch tys.tail vs H.right
      rw [relabelChildrenE_cons, subvaluesList_cons, hopsSumChildren_cons, objCount_append,
        contCount_append]
      simp only [ih1, ih2, nodesSpecE_eq]
      have hs := subvalues_eq_cons_tail v
      have hc : contCount v.subvalues = (if v.isContainer then 1 else 0) + contCount v.subvalues.tail := by
        conv => lhs; rw [hs]
        exact contCount_cons v _
      by_cases hv : v.isContainer
      · have ha := absAdjust_container g (if ch then tys.head?.join else none) v hv
        simp [hv] at hc ⊢
        omega
      · simp [hv] at hc ⊢
        omega
end

/-! ### Expansion mode: weighted size -/

theorem declSubvaluesList_nil (g : Grammar) (tys : List (Option Ty)) :
    declSubvaluesList g tys [] = [] := by rw [declSubvaluesList]

theorem declSubvaluesList_cons (g : Grammar) (tys : List (Option Ty)) (c : Val) (cs : List Val) :
    declSubvaluesList g tys (c :: cs) =
      declSubvalues g tys.head?.join c ++ declSubvaluesList g tys.tail cs := by
  rw [declSubvaluesList]

/-- Σ of the expansion-mode distance over the non-terminal nodes of a declared traversal -/
def ntDttSum (g : Grammar) (l : List (Option Ty × Val)) : Nat :=
  ((l.filter fun p => p.2.isNonTerminalNode g).map fun p => dttSpecE g p.1 p.2).sum

/-- the terminal objects (field-less class instances and base values) of a list of values -/
def termCount (g : Grammar) (l : List Val) : Nat :=
  (l.filter fun x => !x.isContainer && !x.isNonTerminalNode g).length

theorem ntDttSum_append (g : Grammar) (a b : List (Option Ty × Val)) :
    ntDttSum g (a ++ b) = ntDttSum g a + ntDttSum g b := by simp [ntDttSum]
theorem termCount_append (g : Grammar) (a b : List Val) :
    termCount g (a ++ b) = termCount g a + termCount g b := by simp [termCount]

theorem weightedSpecE_eq (g : Grammar) (decl : Option Ty) (v : Val) :
    weightedSpecE g decl v = ntDttSum g (declSubvalues g decl v) + termCount g v.subvalues := rfl

mutual
theorem relabelE_weighted_eq (g : Grammar) (h : g.e = 1) :
    ∀ (decl : Option Ty) (v : Val), FieldlessTerminals g v.subvalues →
      (relabelE g decl v).weighted = weightedSpecE g decl v
  | decl, .node c d x args => by
      intro H
      rw [relabelE_node, weightedSpecE_eq, declSubvalues]
      by_cases ht : g.isTerminalCls c
      · have := H.node_args ht; subst this
        simp [ht, h, subvalues_node, subvaluesList_nil, ntDttSum, termCount, Val.isContainer,
          Val.isNonTerminalNode, declSubvaluesList_nil]
      · rw [subvalues_node] at H ⊢
        have ih := relabelChildrenE_weighted_eq g h true (childDecls g decl (.node c d x args)) args H.tail
        have hd := relabelChildrenE_dtt_eq g h true (childDecls g decl (.node c d x args)) args
        simp [ht, ih, hd, ntDttSum, termCount, Val.isContainer, Val.isNonTerminalNode, dttSpecE]
        omega
  | decl, .list d x vs => by
      intro H
      rw [subvalues_list] at H
      have ih := relabelChildrenE_weighted_eq g h true (childDecls g decl (.list d x vs)) vs H.tail
      rw [relabelE_list, weightedSpecE_eq, declSubvalues, subvalues_list]
      simp [ih, ntDttSum, termCount, Val.isContainer, Val.isNonTerminalNode]
  | decl, .tuple vs => by
      intro H
      rw [subvalues_tuple] at H
      have ih := relabelChildrenE_weighted_eq g h false (childDecls g decl (.tuple vs)) vs H.tail
      rw [relabelE_tuple, weightedSpecE_eq, declSubvalues, subvalues_tuple]
      simp [ih, ntDttSum, termCount, Val.isContainer, Val.isNonTerminalNode]
  | _, .int _ => by
      intro _; simp [relabelE, weightedSpecE, declSubvalues, Val.subvalues, Val.isContainer, Val.isNonTerminalNode, h]
  | _, .float => by
      intro _; simp [relabelE, weightedSpecE, declSubvalues, Val.subvalues, Val.isContainer, Val.isNonTerminalNode, h]
  | _, .str _ => by
      intro _; simp [relabelE, weightedSpecE, declSubvalues, Val.subvalues, Val.isContainer, Val.isNonTerminalNode, h]
  | _, .bool _ => by
      intro _; simp [relabelE, weightedSpecE, declSubvalues, Val.subvalues, Val.isContainer, Val.isNonTerminalNode, h]
  | _, .foreign _ => by
      intro _; simp [relabelE, weightedSpecE, declSubvalues, Val.subvalues, Val.isContainer, Val.isNonTerminalNode, h]
theorem relabelChildrenE_weighted_eq (g : Grammar) (h : g.e = 1) :
    ∀ (ch : Bool) (tys : List (Option Ty)) (vs : List Val),
      FieldlessTerminals g (Val.subvaluesList vs) →
      (relabelChildrenE g ch tys vs).2.2.1 =
        ntDttSum g (declSubvaluesList g tys vs) + termCount g (Val.subvaluesList vs)
  | ch, tys, [] => by
      intro _
      simp [relabelChildrenE_nil, subvaluesList_nil, declSubvaluesList_nil, ntDttSum, termCount]
  | ch, tys, v :: vs => by
      intro H
      rw [subvaluesList_cons] at H
      have ih1 := relabelE_weighted_eq g h tys.head?.join v H.left
      have ih2 := relabelChildrenE_weighted_eq g h ch tys.tail vs H.right
      rw [relabelChildrenE_cons, subvaluesList_cons, declSubvaluesList_cons, ntDttSum_append,
        termCount_append]
      simp only [ih1, ih2, weightedSpecE_eq]
      omega
end

/-! ### `abstract_dist_to_t` is the length of the shortest chain of alternatives -/

/-- `c` is reached from the abstract symbol `a` by `k` expansions of alternatives -/
inductive Chain (g : Grammar) : Nat → Nat → Nat → Prop
  | direct {a c : Nat} : c ∈ (g.altsOf a).getD [] → Chain g a c 1
  | step {a b c k : Nat} : b ∈ (g.altsOf a).getD [] → Chain g b c k → Chain g a c (k + 1)

theorem Chain.pos {g : Grammar} {a c k : Nat} (h : Chain g a c k) : 1 ≤ k := by
  cases h <;> omega

theorem mem_next {g : Grammar} {frontier : List Nat} {b : Nat} :
    b ∈ (frontier.map fun a => (g.altsOf a).getD []).flatten ↔
      ∃ a, a ∈ frontier ∧ b ∈ (g.altsOf a).getD [] := by
  simp [List.mem_flatten]
  constructor
  · rintro ⟨l, ⟨a, ha, rfl⟩, hb⟩; exact ⟨a, ha, hb⟩
  · rintro ⟨a, ha, hb⟩; exact ⟨_, ⟨a, ha, rfl⟩, hb⟩

/-- soundness: a finite answer is the length of an actual chain from the frontier -/
theorem absDistFrom_sound (g : Grammar) (c : Nat) :
    ∀ (fuel : Nat) (frontier : List Nat) (lvl : Nat),
      absDistFrom g fuel frontier lvl c ≠ INF →
      ∃ k a, a ∈ frontier ∧ Chain g a c k ∧ absDistFrom g fuel frontier lvl c = lvl + k
  | 0, _, _ => by intro h; simp [absDistFrom] at h
  | fuel + 1, frontier, lvl => by
      intro h
      rw [absDistFrom] at h ⊢
      by_cases hc : (frontier.map fun a => (g.altsOf a).getD []).flatten.contains c
      · simp only [hc, if_true] at h ⊢
        have hm : c ∈ (frontier.map fun a => (g.altsOf a).getD []).flatten := by
          simpa using hc
        obtain ⟨a, ha, hca⟩ := mem_next.mp hm
        exact ⟨1, a, ha, .direct hca, rfl⟩
      · simp only [hc] at h ⊢
        by_cases he : (frontier.map fun a => (g.altsOf a).getD []).flatten.isEmpty
        · simp [he] at h
        · simp only [he] at h ⊢
          obtain ⟨k, b, hb, hch, heq⟩ := absDistFrom_sound g c fuel _ (lvl + 1) h
          have hb' : b ∈ (frontier.map fun a => (g.altsOf a).getD []).flatten :=
            List.mem_eraseDups.mp hb
          obtain ⟨a, ha, hba⟩ := mem_next.mp hb'
          refine ⟨k + 1, a, ha, .step hba hch, ?_⟩
          simp at heq ⊢
          omega

/-- minimality: no chain from the frontier (short enough for the fuel) is shorter than the answer -/
theorem absDistFrom_le (g : Grammar) (c : Nat) :
    ∀ (fuel : Nat) (frontier : List Nat) (lvl : Nat) (a k : Nat),
      a ∈ frontier → Chain g a c k → k ≤ fuel → absDistFrom g fuel frontier lvl c ≤ lvl + k
  | 0, _, _, _, k, _, hch, hk => by have := hch.pos; omega
  | fuel + 1, frontier, lvl, a, k, ha, hch, hk => by
      rw [absDistFrom]
      by_cases hc : (frontier.map fun a => (g.altsOf a).getD []).flatten.contains c
      · simp only [hc, if_true]; have := hch.pos; omega
      · simp only [hc]
        cases hch with
        | direct hca =>
            exfalso; apply hc
            have : c ∈ (frontier.map fun a => (g.altsOf a).getD []).flatten := mem_next.mpr ⟨a, ha, hca⟩
            simpa using this
        | @step _ b _ k' hba hch' =>
            have hb : b ∈ (frontier.map fun a => (g.altsOf a).getD []).flatten := mem_next.mpr ⟨a, ha, hba⟩
            have hne : (frontier.map fun a => (g.altsOf a).getD []).flatten.isEmpty = false := by
              cases hl : (frontier.map fun a => (g.altsOf a).getD []).flatten with
              | nil => rw [hl] at hb; cases hb
              | cons _ _ => rfl
            simp only [hne]
            have := absDistFrom_le g c fuel _ (lvl + 1) b k' (List.mem_eraseDups.mpr hb) hch' (by omega)
            simp at this ⊢
            omega

/-- a production listed directly under an abstract symbol is one expansion away -/
theorem absDist_direct (g : Grammar) (a c : Nat) (h : c ∈ (g.altsOf a).getD []) :
    g.absDist a c = 1 := by
  unfold Grammar.absDist
  rw [absDistFrom]
  simp
  intro hn; exact absurd h hn

/-- `abstract_dist_to_t[a][c]`, when finite, is the length of a chain of alternatives from `a` to `c` ... -/
theorem absDist_chain (g : Grammar) (a c : Nat) (h : g.absDist a c ≠ INF) :
    ∃ k, Chain g a c k ∧ g.absDist a c = k := by
  obtain ⟨k, a', ha', hch, heq⟩ := absDistFrom_sound g c _ [a] 0 h
  simp at ha'; subst ha'
  exact ⟨k, hch, by unfold Grammar.absDist; omega⟩

/-- ... and no chain of at most (number of classes + 1) expansions is shorter -/
theorem absDist_le_chain (g : Grammar) (a c k : Nat) (hch : Chain g a c k)
    (hk : k ≤ g.spec.classes.length + 1) : g.absDist a c ≤ k := by
  have := absDistFrom_le g c _ [a] 0 a k (by simp) hch hk
  unfold Grammar.absDist; omega

/-! ### Memoised relabelling in either depth mode -/

theorem eraseList_length : ∀ ts : List LVal, (LVal.eraseList ts).length = ts.length
  | [] => by simp [eraseList_nil]
  | t :: ts => by simp [eraseList_cons, eraseList_length ts]

theorem relabelMemoChildrenE_nil (g : Grammar) (ch : Bool) (tys : List (Option Ty)) :
    relabelMemoChildrenE g ch tys [] = ((0, 0, 0, []), []) := by
  rw [relabelMemoChildrenE]

theorem relabelMemoChildrenE_cons (g : Grammar) (ch : Bool) (tys : List (Option Ty)) (c : LVal)
    (cs : List LVal) :
    relabelMemoChildrenE g ch tys (c :: cs) =
      let m := relabelMemoE g tys.head?.join c
      let r := relabelMemoChildrenE g ch tys.tail cs
      let a := absAdjust g (if ch then tys.head?.join else none) c.erase
      ((m.1.nodes + a + r.1.1, max (m.1.dtt + a + listAdjust c.erase) r.1.2.1, m.1.weighted + r.1.2.2.1,
        mergeCounts m.1.types r.1.2.2.2), m.2 :: r.2) := by
  rw [relabelMemoChildrenE]

/-- the conclusion of memoisation soundness for one tree at a position of declared type `decl` -/
def MemoOKE (g : Grammar) (decl : Option Ty) (t : LVal) : Prop :=
  (relabelMemoE g decl t).1 = relabelE g decl t.erase ∧
  (relabelMemoE g decl t).2.erase = t.erase ∧
  CachesCorrectE g decl (relabelMemoE g decl t).2

def MemoListOKE (g : Grammar) (ch : Bool) (tys : List (Option Ty)) (ts : List LVal) : Prop :=
  (relabelMemoChildrenE g ch tys ts).1 = relabelChildrenE g ch tys (LVal.eraseList ts) ∧
  LVal.eraseList (relabelMemoChildrenE g ch tys ts).2 = LVal.eraseList ts ∧
  CachesCorrectListE g tys (relabelMemoChildrenE g ch tys ts).2

theorem relabelMemoE_node_none (g : Grammar) (decl : Option Ty) (c d e : Nat) (args : List LVal) :
    relabelMemoE g decl (.node none c d e args) =
      if g.isTerminalCls c then
        (⟨g.e, g.e, g.e, [(.cls c, 1)]⟩, .node (some ⟨g.e, g.e, g.e, [(.cls c, 1)]⟩) c d e args)
      else
        let r := relabelMemoChildrenE g true ((g.cls c).fields.map fun f => some f.2) args
        let l : Lab := ⟨1 + r.1.1, max 1 r.1.2.1, r.1.2.2.1 + max 1 r.1.2.1, mergeCounts [(.cls c, 1)] r.1.2.2.2⟩
        (l, .node (some l) c d e r.2) := by
  rw [relabelMemoE]

theorem relabelMemoE_list_none (g : Grammar) (decl : Option Ty) (d e : Nat) (vs : List LVal) :
    relabelMemoE g decl (.list none d e vs) =
      let r := relabelMemoChildrenE g true (List.replicate vs.length (decl.bind Ty.elem)) vs
      let l : Lab := ⟨r.1.1, r.1.2.1, r.1.2.2.1, mergeCounts [(.list, 1)] r.1.2.2.2⟩
      (l, .list (some l) d e r.2) := by
  rw [relabelMemoE]

theorem relabelMemoE_tuple (g : Grammar) (decl : Option Ty) (vs : List LVal) :
    relabelMemoE g decl (.tuple vs) =
      let r := relabelMemoChildrenE g false (((decl.map Ty.comps).getD []).map some) vs
      (⟨r.1.1, r.1.2.1, r.1.2.2.1, mergeCounts [(.tuple, 1)] r.1.2.2.2⟩, .tuple r.2) := by
  rw [relabelMemoE]

mutual
theorem memoE_ok (g : Grammar) : ∀ (decl : Option Ty) (t : LVal), CachesCorrectE g decl t → MemoOKE g decl t
  | decl, .node (some l) c d e args => by
      intro H
      simp only [CachesCorrectE] at H
      have hl := H.1 l rfl
      refine ⟨?_, ?_, ?_⟩
      · simpa [relabelMemoE, LVal.erase] using hl
      · simp [relabelMemoE]
      · simp only [relabelMemoE, CachesCorrectE]
        exact ⟨fun l' h => by cases h; exact hl, H.2⟩
  | decl, .node none c d e args => by
      intro H
      simp only [CachesCorrectE] at H
      obtain ⟨ih1, ih2, ih3⟩ := memoListE_ok g true ((g.cls c).fields.map fun f => some f.2) args H.2
      rw [MemoOKE, relabelMemoE_node_none]
      by_cases h : g.isTerminalCls c
      · rw [if_pos h]
        refine ⟨by simp [LVal.erase, relabelE_node, h], by simp [LVal.erase], ?_⟩
        simp only [CachesCorrectE]
        exact ⟨fun l' h' => by cases h'; simp [relabelE_node, h], H.2⟩
      · rw [if_neg h]
        dsimp only
        have key : (⟨1 + (relabelMemoChildrenE g true ((g.cls c).fields.map fun f => some f.2) args).1.1,
              max 1 (relabelMemoChildrenE g true ((g.cls c).fields.map fun f => some f.2) args).1.2.1,
              (relabelMemoChildrenE g true ((g.cls c).fields.map fun f => some f.2) args).1.2.2.1 +
                max 1 (relabelMemoChildrenE g true ((g.cls c).fields.map fun f => some f.2) args).1.2.1,
              mergeCounts [(.cls c, 1)]
                (relabelMemoChildrenE g true ((g.cls c).fields.map fun f => some f.2) args).1.2.2.2⟩ : Lab) =
            relabelE g decl (.node c d e (LVal.eraseList args)) := by
          rw [relabelE_node]; simp [h, childDecls, ih1]
        refine ⟨by simpa [LVal.erase] using key, by simp [LVal.erase, ih2], ?_⟩
        simp only [CachesCorrectE, ih2]
        exact ⟨fun l' h' => by cases h'; exact key, ih3⟩
  | decl, .list (some l) d e vs => by
      intro H
      simp only [CachesCorrectE] at H
      have hl := H.1 l rfl
      refine ⟨?_, ?_, ?_⟩
      · simpa [relabelMemoE, LVal.erase] using hl
      · simp [relabelMemoE]
      · simp only [relabelMemoE, CachesCorrectE]
        exact ⟨fun l' h => by cases h; exact hl, H.2⟩
  | decl, .list none d e vs => by
      intro H
      simp only [CachesCorrectE] at H
      obtain ⟨ih1, ih2, ih3⟩ := memoListE_ok g true (List.replicate vs.length (decl.bind Ty.elem)) vs H.2
      rw [MemoOKE, relabelMemoE_list_none]
      dsimp only
      have hlen : (relabelMemoChildrenE g true (List.replicate vs.length (decl.bind Ty.elem)) vs).2.length = vs.length := by
        rw [← eraseList_length, ih2, eraseList_length]
      have key : (⟨(relabelMemoChildrenE g true (List.replicate vs.length (decl.bind Ty.elem)) vs).1.1,
            (relabelMemoChildrenE g true (List.replicate vs.length (decl.bind Ty.elem)) vs).1.2.1,
            (relabelMemoChildrenE g true (List.replicate vs.length (decl.bind Ty.elem)) vs).1.2.2.1,
            mergeCounts [(.list, 1)]
              (relabelMemoChildrenE g true (List.replicate vs.length (decl.bind Ty.elem)) vs).1.2.2.2⟩ : Lab) =
          relabelE g decl (.list d e (LVal.eraseList vs)) := by
        rw [relabelE_list]; simp [childDecls, eraseList_length, ih1]
      refine ⟨by simpa [LVal.erase] using key, by simp [LVal.erase, ih2], ?_⟩
      simp only [CachesCorrectE, ih2, hlen]
      exact ⟨fun l' h' => by cases h'; exact key, ih3⟩
  | decl, .tuple vs => by
      intro H
      simp only [CachesCorrectE] at H
      obtain ⟨ih1, ih2, ih3⟩ := memoListE_ok g false (((decl.map Ty.comps).getD []).map some) vs H
      rw [MemoOKE, relabelMemoE_tuple]
      dsimp only
      refine ⟨?_, by simp [LVal.erase, ih2], ?_⟩
      · simp [LVal.erase, relabelE_tuple, childDecls, ih1]
      · simpa [CachesCorrectE] using ih3
  | _, .int _ => by intro _; simp [MemoOKE, relabelMemoE, LVal.erase, relabelE, Val.key, CachesCorrectE]
  | _, .float => by intro _; simp [MemoOKE, relabelMemoE, LVal.erase, relabelE, Val.key, CachesCorrectE]
  | _, .str _ => by intro _; simp [MemoOKE, relabelMemoE, LVal.erase, relabelE, Val.key, CachesCorrectE]
  | _, .bool _ => by intro _; simp [MemoOKE, relabelMemoE, LVal.erase, relabelE, Val.key, CachesCorrectE]
  | _, .foreign _ => by intro _; simp [MemoOKE, relabelMemoE, LVal.erase, relabelE, Val.key, CachesCorrectE]
theorem memoListE_ok (g : Grammar) :
    ∀ (ch : Bool) (tys : List (Option Ty)) (ts : List LVal),
      CachesCorrectListE g tys ts → MemoListOKE g ch tys ts
  | ch, tys, [] => by
      intro _
      simp [MemoListOKE, relabelMemoChildrenE_nil, eraseList_nil, relabelChildrenE_nil, CachesCorrectListE]
  | ch, tys, t :: ts => by
      intro H
      simp only [CachesCorrectListE] at H
      obtain ⟨a1, a2, a3⟩ := memoE_ok g tys.head?.join t H.1
      obtain ⟨b1, b2, b3⟩ := memoListE_ok g ch tys.tail ts H.2
      refine ⟨?_, ?_, ?_⟩
      · simp [relabelMemoChildrenE_cons, eraseList_cons, relabelChildrenE_cons, a1, b1]
      · simp [relabelMemoChildrenE_cons, eraseList_cons, a2, b2]
      · simp only [relabelMemoChildrenE_cons, CachesCorrectListE]; exact ⟨a3, b3⟩
end

theorem freshList_length : ∀ vs : List Val, (LVal.freshList vs).length = vs.length
  | [] => by simp [LVal.freshList]
  | v :: vs => by simp [LVal.freshList, freshList_length vs]

mutual
/-- nothing is cached on a fresh value, so every cache on it is (vacuously) correct -/
theorem freshE_ok (g : Grammar) : ∀ (decl : Option Ty) (v : Val), CachesCorrectE g decl (LVal.fresh v)
  | decl, .node c d e args => by
      simp only [LVal.fresh, CachesCorrectE]
      exact ⟨fun l h => (by cases h), freshListE_ok g _ args⟩
  | decl, .list d e vs => by
      simp only [LVal.fresh, CachesCorrectE]
      exact ⟨fun l h => (by cases h), freshListE_ok g _ vs⟩
  | decl, .tuple vs => by
      simp only [LVal.fresh, CachesCorrectE]
      exact freshListE_ok g _ vs
  | _, .int _ => by simp [LVal.fresh, CachesCorrectE]
  | _, .float => by simp [LVal.fresh, CachesCorrectE]
  | _, .str _ => by simp [LVal.fresh, CachesCorrectE]
  | _, .bool _ => by simp [LVal.fresh, CachesCorrectE]
  | _, .foreign _ => by simp [LVal.fresh, CachesCorrectE]
theorem freshListE_ok (g : Grammar) :
    ∀ (tys : List (Option Ty)) (vs : List Val), CachesCorrectListE g tys (LVal.freshList vs)
  | _, [] => by simp [LVal.freshList, CachesCorrectListE]
  | tys, v :: vs => by
      simp only [LVal.freshList, CachesCorrectListE]
      exact ⟨freshE_ok g _ v, freshListE_ok g _ vs⟩
end

/-! ### Every node is labelled after memoised relabelling, in either depth mode -/

theorem declSubtreesList_nil (g : Grammar) (tys : List (Option Ty)) : LVal.declSubtreesList g tys [] = [] := by
  rw [LVal.declSubtreesList]
theorem declSubtreesList_cons (g : Grammar) (tys : List (Option Ty)) (v : LVal) (vs : List LVal) :
    LVal.declSubtreesList g tys (v :: vs) =
      LVal.declSubtrees g tys.head?.join v ++ LVal.declSubtreesList g tys.tail vs := by
  rw [LVal.declSubtreesList]

theorem relabelMemoE_node_none_snd (g : Grammar) (decl : Option Ty) (c d e : Nat) (args : List LVal) :
    (relabelMemoE g decl (.node none c d e args)).2 =
      .node (some (relabelMemoE g decl (.node none c d e args)).1) c d e
        (if g.isTerminalCls c then args
         else (relabelMemoChildrenE g true ((g.cls c).fields.map fun f => some f.2) args).2) := by
  rw [relabelMemoE_node_none]
  by_cases h : g.isTerminalCls c <;> simp [h]

theorem relabelMemoE_list_none_snd (g : Grammar) (decl : Option Ty) (d e : Nat) (vs : List LVal) :
    (relabelMemoE g decl (.list none d e vs)).2 =
      .list (some (relabelMemoE g decl (.list none d e vs)).1) d e
        (relabelMemoChildrenE g true (List.replicate vs.length (decl.bind Ty.elem)) vs).2 := by
  rw [relabelMemoE_list_none]

mutual
theorem memoE_fullyLabelled (g : Grammar) :
    ∀ (decl : Option Ty) t, FieldlessTerminals g t.erase.subvalues → t.labelClosed = true →
      (relabelMemoE g decl t).2.fullyLabelled = true
  | decl, .node (some l) c d e args => by
      intro _ hc
      simpa [relabelMemoE, LVal.fullyLabelled, LVal.labelClosed] using hc
  | decl, .node none c d e args => by
      intro H hc
      rw [relabelMemoE_node_none_snd]
      by_cases h : g.isTerminalCls c
      · have : args = [] := eraseList_eq_nil (by
          rw [LVal.erase] at H; exact H.node_args h)
        subst this
        simp [h, LVal.fullyLabelled, fullyLabelledList_nil]
      · rw [LVal.erase, subvalues_node] at H
        have ih := memoListE_fullyLabelled g true ((g.cls c).fields.map fun f => some f.2) args H.tail (by simpa [LVal.labelClosed] using hc)
        simp [h, LVal.fullyLabelled, ih]
  | decl, .list (some l) d e vs => by
      intro _ hc
      simpa [relabelMemoE, LVal.fullyLabelled, LVal.labelClosed] using hc
  | decl, .list none d e vs => by
      intro H hc
      rw [relabelMemoE_list_none_snd]
      rw [LVal.erase, subvalues_list] at H
      have ih := memoListE_fullyLabelled g true (List.replicate vs.length (decl.bind Ty.elem)) vs H.tail (by simpa [LVal.labelClosed] using hc)
      simp [LVal.fullyLabelled, ih]
  | decl, .tuple vs => by
      intro H hc
      rw [LVal.erase, subvalues_tuple] at H
      have ih := memoListE_fullyLabelled g false (((decl.map Ty.comps).getD []).map some) vs H.tail (by simpa [LVal.labelClosed] using hc)
      rw [relabelMemoE_tuple]
      simp [LVal.fullyLabelled, ih]
  | decl, .int _ => by intro _ _; simp [relabelMemoE, LVal.fullyLabelled]
  | decl, .float => by intro _ _; simp [relabelMemoE, LVal.fullyLabelled]
  | decl, .str _ => by intro _ _; simp [relabelMemoE, LVal.fullyLabelled]
  | decl, .bool _ => by intro _ _; simp [relabelMemoE, LVal.fullyLabelled]
  | decl, .foreign _ => by intro _ _; simp [relabelMemoE, LVal.fullyLabelled]
theorem memoListE_fullyLabelled (g : Grammar) :
    ∀ (ch : Bool) (tys : List (Option Ty)) ts, FieldlessTerminals g (Val.subvaluesList (LVal.eraseList ts)) →
      LVal.labelClosedList ts = true →
      LVal.fullyLabelledList (relabelMemoChildrenE g ch tys ts).2 = true
  | ch, tys, [] => by intro _ _; simp [relabelMemoChildrenE_nil, LVal.fullyLabelledList]
  | ch, tys, t :: ts => by
      intro H hc
      rw [eraseList_cons, subvaluesList_cons] at H
      simp only [LVal.labelClosedList, Bool.and_eq_true] at hc
      have ih1 := memoE_fullyLabelled g tys.head?.join t H.left hc.1
      have ih2 := memoListE_fullyLabelled g ch tys.tail ts H.right hc.2
      simp [relabelMemoChildrenE_cons, LVal.fullyLabelledList, ih1, ih2]
end

mutual
theorem memoE_fixes_labelled (g : Grammar) :
    ∀ (decl : Option Ty) (t : LVal), t.fullyLabelled = true → (relabelMemoE g decl t).2 = t
  | decl, .node (some l) c d e args => by intro _; simp [relabelMemoE]
  | decl, .node none c d e args => by intro h; simp [LVal.fullyLabelled] at h
  | decl, .list (some l) d e vs => by intro _; simp [relabelMemoE]
  | decl, .list none d e vs => by intro h; simp [LVal.fullyLabelled] at h
  | decl, .tuple vs => by
      intro h
      simp only [LVal.fullyLabelled] at h
      rw [relabelMemoE_tuple]
      simp [memoListE_fixes_labelled g false (((decl.map Ty.comps).getD []).map some) vs h]
  | decl, .int _ => by simp [relabelMemoE]
  | decl, .float => by simp [relabelMemoE]
  | decl, .str _ => by simp [relabelMemoE]
  | decl, .bool _ => by simp [relabelMemoE]
  | decl, .foreign _ => by simp [relabelMemoE]
theorem memoListE_fixes_labelled (g : Grammar) :
    ∀ (ch : Bool) (tys : List (Option Ty)) (ts : List LVal), LVal.fullyLabelledList ts = true →
      (relabelMemoChildrenE g ch tys ts).2 = ts
  | ch, tys, [] => by simp [relabelMemoChildrenE_nil]
  | ch, tys, t :: ts => by
      intro h
      simp only [LVal.fullyLabelledList, Bool.and_eq_true] at h
      simp [relabelMemoChildrenE_cons, memoE_fixes_labelled g _ t h.1, memoListE_fixes_labelled g ch _ ts h.2]
end

mutual
theorem labelledE_flat (g : Grammar) :
    ∀ (decl : Option Ty) t, CachesCorrectE g decl t → t.fullyLabelled = true →
      ∀ p ∈ LVal.declSubtrees g decl t, p.2.canCache = true → p.2.rootCache = some (relabelE g p.1 p.2.erase)
  | decl, .node o c d e args => by
      intro H hf p hp hcan
      simp only [CachesCorrectE] at H
      simp only [LVal.fullyLabelled, Bool.and_eq_true] at hf
      rw [LVal.declSubtrees] at hp
      rcases List.mem_cons.1 hp with rfl | hp
      · obtain ⟨l, rfl⟩ := Option.isSome_iff_exists.1 hf.1
        simp [LVal.rootCache, LVal.erase, ← H.1 l rfl]
      · exact labelledListE_flat g _ args H.2 hf.2 p hp hcan
  | decl, .list o d e vs => by
      intro H hf p hp hcan
      simp only [CachesCorrectE] at H
      simp only [LVal.fullyLabelled, Bool.and_eq_true] at hf
      rw [LVal.declSubtrees] at hp
      rcases List.mem_cons.1 hp with rfl | hp
      · obtain ⟨l, rfl⟩ := Option.isSome_iff_exists.1 hf.1
        simp [LVal.rootCache, LVal.erase, ← H.1 l rfl]
      · exact labelledListE_flat g _ vs H.2 hf.2 p hp hcan
  | decl, .tuple vs => by
      intro H hf p hp hcan
      simp only [CachesCorrectE] at H
      simp only [LVal.fullyLabelled] at hf
      rw [LVal.declSubtrees] at hp
      rcases List.mem_cons.1 hp with rfl | hp
      · simp [LVal.canCache] at hcan
      · exact labelledListE_flat g _ vs H hf p hp hcan
  | decl, .int _ => by intro _ _ p hp hcan; simp [LVal.declSubtrees] at hp; subst hp; simp [LVal.canCache] at hcan
  | decl, .float => by intro _ _ p hp hcan; simp [LVal.declSubtrees] at hp; subst hp; simp [LVal.canCache] at hcan
  | decl, .str _ => by intro _ _ p hp hcan; simp [LVal.declSubtrees] at hp; subst hp; simp [LVal.canCache] at hcan
  | decl, .bool _ => by intro _ _ p hp hcan; simp [LVal.declSubtrees] at hp; subst hp; simp [LVal.canCache] at hcan
  | decl, .foreign _ => by intro _ _ p hp hcan; simp [LVal.declSubtrees] at hp; subst hp; simp [LVal.canCache] at hcan
theorem labelledListE_flat (g : Grammar) :
    ∀ (tys : List (Option Ty)) ts, CachesCorrectListE g tys ts → LVal.fullyLabelledList ts = true →
      ∀ p ∈ LVal.declSubtreesList g tys ts, p.2.canCache = true → p.2.rootCache = some (relabelE g p.1 p.2.erase)
  | tys, [] => by intro _ _ p hp; simp [declSubtreesList_nil] at hp
  | tys, t :: ts => by
      intro H hf p hp hcan
      simp only [CachesCorrectListE] at H
      simp only [LVal.fullyLabelledList, Bool.and_eq_true] at hf
      rw [declSubtreesList_cons] at hp
      rcases List.mem_append.1 hp with hp | hp
      · exact labelledE_flat g _ t H.1 hf.1 p hp hcan
      · exact labelledListE_flat g _ ts H.2 hf.2 p hp hcan
end

mutual
theorem declSubtrees_mem_subtrees (g : Grammar) :
    ∀ (decl : Option Ty) (t : LVal) p, p ∈ LVal.declSubtrees g decl t → p.2 ∈ t.subtrees
  | decl, .node o c d e args, p, hp => by
      rw [LVal.declSubtrees] at hp
      rw [subtrees_node]
      rcases List.mem_cons.1 hp with rfl | hp
      · exact List.mem_cons_self
      · exact List.mem_cons_of_mem _ (declSubtreesList_mem_subtrees g _ args p hp)
  | decl, .list o d e vs, p, hp => by
      rw [LVal.declSubtrees] at hp
      rw [subtrees_list]
      rcases List.mem_cons.1 hp with rfl | hp
      · exact List.mem_cons_self
      · exact List.mem_cons_of_mem _ (declSubtreesList_mem_subtrees g _ vs p hp)
  | decl, .tuple vs, p, hp => by
      rw [LVal.declSubtrees] at hp
      rw [subtrees_tuple]
      rcases List.mem_cons.1 hp with rfl | hp
      · exact List.mem_cons_self
      · exact List.mem_cons_of_mem _ (declSubtreesList_mem_subtrees g _ vs p hp)
  | decl, .int _, p, hp => by simp [LVal.declSubtrees] at hp; subst hp; simp [LVal.subtrees]
  | decl, .float, p, hp => by simp [LVal.declSubtrees] at hp; subst hp; simp [LVal.subtrees]
  | decl, .str _, p, hp => by simp [LVal.declSubtrees] at hp; subst hp; simp [LVal.subtrees]
  | decl, .bool _, p, hp => by simp [LVal.declSubtrees] at hp; subst hp; simp [LVal.subtrees]
  | decl, .foreign _, p, hp => by simp [LVal.declSubtrees] at hp; subst hp; simp [LVal.subtrees]
theorem declSubtreesList_mem_subtrees (g : Grammar) :
    ∀ (tys : List (Option Ty)) (ts : List LVal) p, p ∈ LVal.declSubtreesList g tys ts → p.2 ∈ LVal.subtreesList ts
  | tys, [], p, hp => by simp [declSubtreesList_nil] at hp
  | tys, t :: ts, p, hp => by
      rw [declSubtreesList_cons] at hp
      rw [subtreesList_cons]
      rcases List.mem_append.1 hp with hp | hp
      · exact List.mem_append_left _ (declSubtrees_mem_subtrees g _ t p hp)
      · exact List.mem_append_right _ (declSubtreesList_mem_subtrees g _ ts p hp)
end


end GEVerif.Labels
