/-
  Helper definitions and lemmas for C05 (grammar analysis is exact).

  * tables: keys, pointwise order, monotonicity of the distance equations, the invariant of the
    descending iteration (`TableInv`);
  * the language of a grammar: `Derives` (plain), `DerivesK` (with the derivation cost of both
    depth-counting modes and a switch forbidding empty lists), `NoEmptyList`;
  * attainment and soundness of the distance table;
  * the reachability closure `Reach` / `ReachPlus` and `reachFrom`;
  * registration (`RegInv`): productions = registered direct subclasses;
  * convergence of the loop within `number of entries` rounds (`stepN_length_stable`).
-/
import GEVerif.Model.Tree

namespace GEVerif.Analysis
open GEVerif

/-! ### Symbols -/

theorem Sym.beq_iff (a b : Sym) : (a == b) = true ↔ a = b := by
  cases a <;> cases b <;> simp [BEq.beq, instBEqSym.beq]

instance instLawfulBEqSym : LawfulBEq Sym where
  eq_of_beq {a b} h := (Sym.beq_iff a b).1 h
  rfl {a} := (Sym.beq_iff a a).2 rfl

/-! ### Tables -/

/-- the symbols a table has an entry for -/
def keys (d : DistTable) : List Sym := d.map (·.1)

/-- pointwise order on tables (as functions `Sym → Nat` through `lookupDist`) -/
def TLe (d' d : DistTable) : Prop := ∀ s, lookupDist d' s ≤ lookupDist d s

theorem TLe.refl (d : DistTable) : TLe d d := fun _ => Nat.le_refl _
theorem TLe.trans {a b c : DistTable} (h1 : TLe a b) (h2 : TLe b c) : TLe a c :=
  fun s => Nat.le_trans (h1 s) (h2 s)

theorem lookupDist_not_mem {d : DistTable} {s : Sym} (h : s ∉ keys d) : lookupDist d s = INF := by
  induction d with
  | nil => rfl
  | cons p rest ih =>
    obtain ⟨k, v⟩ := p
    simp only [keys, List.map_cons, List.mem_cons, not_or] at h
    have hk : (k == s) = false := by
      simp only [beq_eq_false_iff_ne, ne_eq]; exact fun e => h.1 e.symm
    simp only [lookupDist, hk]
    exact ih h.2

theorem lookupDist_mem {d : DistTable} {s : Sym} (h : s ∈ keys d) : (s, lookupDist d s) ∈ d := by
  induction d with
  | nil => simp [keys] at h
  | cons p rest ih =>
    obtain ⟨k, v⟩ := p
    by_cases hk : k = s
    · subst hk; simp [lookupDist]
    · have hk' : (k == s) = false := by simpa using hk
      simp only [lookupDist, hk']
      simp only [keys, List.map_cons, List.mem_cons] at h
      rcases h with h | h
      · exact absurd h.symm hk
      · exact List.mem_cons_of_mem _ (ih h)

theorem mem_keys_of_mem {d : DistTable} {s : Sym} {v : Nat} (h : (s, v) ∈ d) : s ∈ keys d :=
  List.mem_map.2 ⟨(s, v), h, rfl⟩

theorem mem_keys_of_lt {d : DistTable} {s : Sym} (h : lookupDist d s < INF) : s ∈ keys d := by
  apply Classical.byContradiction
  intro hn
  rw [lookupDist_not_mem hn] at h
  exact Nat.lt_irrefl _ h

/-- lookup in a table rebuilt key by key -/
theorem lookupDist_map_mem (f : Sym → Nat) (l : DistTable) (s : Sym) (h : s ∈ keys l) :
    lookupDist (l.map fun p => (p.1, f p.1)) s = f s := by
  induction l with
  | nil => simp [keys] at h
  | cons p rest ih =>
    obtain ⟨k, v⟩ := p
    by_cases hk : k = s
    · subst hk; simp [lookupDist]
    · have hk' : (k == s) = false := by simpa using hk
      simp only [keys, List.map_cons, List.mem_cons] at h
      rcases h with h | h
      · exact absurd h.symm hk
      · simp only [List.map_cons, lookupDist, hk']
        exact ih h

theorem keys_map (f : Sym → Nat) (l : DistTable) :
    keys (l.map fun p => (p.1, f p.1)) = keys l := by
  simp [keys, List.map_map, Function.comp_def]

theorem lookupDist_map (f : Sym → Nat) (l : DistTable) (s : Sym) :
    lookupDist (l.map fun p => (p.1, f p.1)) s = if s ∈ keys l then f s else INF := by
  split
  · rename_i h; exact lookupDist_map_mem f l s h
  · rename_i h; exact lookupDist_not_mem (by rw [keys_map]; exact h)

theorem distStep_eq (g : GrammarSpec) (r : Reg) (d : DistTable) :
    distStep g r d = d.map fun p => (p.1, distStepSym g r d p.1) := rfl

theorem keys_distStep (g : GrammarSpec) (r : Reg) (d : DistTable) :
    keys (distStep g r d) = keys d := by
  simp [distStep_eq, keys, List.map_map, Function.comp_def]

theorem lookupDist_distStep (g : GrammarSpec) (r : Reg) (d : DistTable) (s : Sym) :
    lookupDist (distStep g r d) s = if s ∈ keys d then distStepSym g r d s else INF := by
  rw [distStep_eq]; exact lookupDist_map _ _ _

/-! ### Monotonicity of the equations -/

theorem listMin_map_mono {α} (f f' : α → Nat) (l : List α) (h : ∀ x ∈ l, f' x ≤ f x) :
    listMin (l.map f') ≤ listMin (l.map f) := by
  induction l with
  | nil => exact Nat.le_refl _
  | cons a l ih =>
    simp only [List.map_cons, listMin]
    have h1 := h a (List.mem_cons_self)
    have h2 := ih fun x hx => h x (List.mem_cons_of_mem _ hx)
    omega

theorem listMax_map_mono {α} (f f' : α → Nat) (l : List α) (h : ∀ x ∈ l, f' x ≤ f x) :
    listMax (l.map f') ≤ listMax (l.map f) := by
  induction l with
  | nil => exact Nat.le_refl _
  | cons a l ih =>
    simp only [List.map_cons, listMax]
    have h1 := h a (List.mem_cons_self)
    have h2 := ih fun x hx => h x (List.mem_cons_of_mem _ hx)
    omega

mutual
theorem distTy_mono {e : Nat} {d' d : DistTable} (h : TLe d' d) :
    ∀ ty, distTy e d' ty ≤ distTy e d ty
  | .int => h _
  | .float => h _
  | .str => h _
  | .bool => h _
  | .cls _ => h _
  | .ann t _ => by simp only [distTy]; exact distTy_mono h t
  | .list t => by simp only [distTy]; have := distTy_mono (e := e) h t; omega
  | .tuple ts => by simp only [distTy]; have := distTysMax_mono (e := e) h ts; omega
  | .union ts => by simp only [distTy]; have := distTysMin_mono (e := e) h ts; omega
theorem distTysMax_mono {e : Nat} {d' d : DistTable} (h : TLe d' d) :
    ∀ ts, distTysMax e d' ts ≤ distTysMax e d ts
  | [] => Nat.le_refl _
  | t :: ts => by
    simp only [distTysMax]
    have := distTy_mono (e := e) h t; have := distTysMax_mono (e := e) h ts; omega
theorem distTysMin_mono {e : Nat} {d' d : DistTable} (h : TLe d' d) :
    ∀ ts, distTysMin e d' ts ≤ distTysMin e d ts
  | [] => Nat.le_refl _
  | t :: ts => by
    simp only [distTysMin]
    have := distTy_mono (e := e) h t; have := distTysMin_mono (e := e) h ts; omega
end

theorem rhsSym_mono (g : GrammarSpec) (r : Reg) {d' d : DistTable} (h : TLe d' d) (s : Sym) :
    rhsSym g r d' s ≤ rhsSym g r d s := by
  cases s with
  | cls n =>
    simp only [rhsSym]
    split
    · split
      · apply listMin_map_mono
        intro p _; have := h (.cls p); omega
      · exact Nat.le_refl _
    · split
      · exact Nat.le_refl _
      · apply listMax_map_mono
        intro f _; have := distTy_mono (e := g.e) h f.2; omega
  | _ => exact Nat.le_refl _

/-! ### The descending iteration -/

theorem distStepSym_le (g : GrammarSpec) (r : Reg) (d : DistTable) (s : Sym) :
    distStepSym g r d s ≤ lookupDist d s := Nat.min_le_left _ _

theorem distStep_le (g : GrammarSpec) (r : Reg) (d : DistTable) : TLe (distStep g r d) d := by
  intro s
  rw [lookupDist_distStep]
  split
  · exact distStepSym_le g r d s
  · rename_i hn; rw [lookupDist_not_mem hn]; exact Nat.le_refl _

theorem distIter_le (g : GrammarSpec) (r : Reg) (fuel : Nat) (d : DistTable) :
    TLe (distIter g r fuel d) d := by
  induction fuel generalizing d with
  | zero => exact TLe.refl d
  | succ n ih =>
    simp only [distIter]
    split
    · exact TLe.refl d
    · exact TLe.trans (ih _) (distStep_le g r d)

theorem keys_distIter (g : GrammarSpec) (r : Reg) (fuel : Nat) (d : DistTable) :
    keys (distIter g r fuel d) = keys d := by
  induction fuel generalizing d with
  | zero => rfl
  | succ n ih =>
    simp only [distIter]
    split
    · rfl
    · rw [ih, keys_distStep]

/-- The invariant of the iteration started from the all-`INF` table: entries with the same key
agree, nothing exceeds `INF`, and every entry is at least the (capped) right-hand side of its
equation evaluated on the current table — every stored value was the right-hand side on an
earlier, pointwise larger table. -/
def TableInv (g : GrammarSpec) (r : Reg) (d : DistTable) : Prop :=
  ∀ p ∈ d, p.2 = lookupDist d p.1 ∧ p.2 ≤ INF ∧ min INF (rhsSym g r d p.1) ≤ p.2

theorem lookupDist_le_INF {g : GrammarSpec} {r : Reg} {d : DistTable} (h : TableInv g r d) (s : Sym) :
    lookupDist d s ≤ INF := by
  by_cases hs : s ∈ keys d
  · have := h _ (lookupDist_mem hs); exact this.2.1
  · rw [lookupDist_not_mem hs]; exact Nat.le_refl _

theorem tableInv_init (g : GrammarSpec) (r : Reg) (nodes : List Sym) :
    TableInv g r (nodes.map fun s => (s, INF)) := by
  intro p hp
  obtain ⟨s, _, rfl⟩ := List.mem_map.1 hp
  refine ⟨?_, Nat.le_refl _, Nat.min_le_left _ _⟩
  have := lookupDist_map (fun _ => INF) (nodes.map fun s => (s, INF)) s
  simp only [List.map_map, Function.comp_def] at this
  rw [this]; simp

theorem tableInv_step {g : GrammarSpec} {r : Reg} {d : DistTable} (h : TableInv g r d) :
    TableInv g r (distStep g r d) := by
  intro p hp
  rw [distStep_eq] at hp
  obtain ⟨q, hq, rfl⟩ := List.mem_map.1 hp
  have hk : q.1 ∈ keys d := List.mem_map.2 ⟨q, hq, rfl⟩
  have hq' := h _ (lookupDist_mem hk)
  simp only at hq' ⊢
  refine ⟨?_, ?_, ?_⟩
  · rw [lookupDist_distStep, if_pos hk]
  · exact Nat.le_trans (distStepSym_le g r d q.1) hq'.2.1
  · have hm := rhsSym_mono g r (distStep_le g r d) q.1
    have h3 := hq'.2.2
    simp only [distStepSym]
    omega

theorem tableInv_iter {g : GrammarSpec} {r : Reg} (fuel : Nat) {d : DistTable} (h : TableInv g r d) :
    TableInv g r (distIter g r fuel d) := by
  induction fuel generalizing d with
  | zero => exact h
  | succ n ih =>
    simp only [distIter]
    split
    · exact h
    · exact ih (tableInv_step h)

theorem distTableEq_iff (a b : DistTable) : distTableEq a b = true ↔ a = b := by
  constructor
  · intro h
    simp only [distTableEq, Bool.and_eq_true, beq_iff_eq, List.all_eq_true] at h
    obtain ⟨hl, hz⟩ := h
    induction a generalizing b with
    | nil => cases b with
      | nil => rfl
      | cons _ _ => simp at hl
    | cons x a ih =>
      cases b with
      | nil => simp at hl
      | cons y b =>
        simp only [List.length_cons, Nat.add_right_cancel_iff] at hl
        have h0 := hz (x, y) (by simp)
        have hxy : x = y := Prod.ext h0.1 h0.2
        rw [hxy, ih b hl (fun p hp => hz p (by simp [hp]))]
  · rintro rfl
    simp only [distTableEq, Bool.and_eq_true, beq_iff_eq, List.all_eq_true, true_and]
    intro p hp
    induction a with
    | nil => simp at hp
    | cons x a ih =>
      simp only [List.zip_cons_cons, List.mem_cons] at hp
      rcases hp with rfl | hp
      · simp
      · exact ih hp

/-- A table that `distStep` leaves unchanged satisfies `d s ≤ rhs d s` on its keys. -/
theorem le_rhs_of_stable {g : GrammarSpec} {r : Reg} {d : DistTable}
    (hst : distStep g r d = d) {s : Sym} (hs : s ∈ keys d) :
    lookupDist d s ≤ rhsSym g r d s := by
  have := lookupDist_distStep g r d s
  rw [hst, if_pos hs] at this
  simp only [distStepSym] at this
  omega

theorem isFixpoint_iff (g : GrammarSpec) (r : Reg) (d : DistTable) :
    isFixpoint g r d = true ↔ ∀ p ∈ d, p.2 = min INF (rhsSym g r d p.1) := by
  simp [isFixpoint, List.all_eq_true]

/-- invariant + unchanged by a round ⇒ solution of the capped equations -/
theorem isFixpoint_of_stable {g : GrammarSpec} {r : Reg} {d : DistTable}
    (h : TableInv g r d) (hst : distStep g r d = d) : isFixpoint g r d = true := by
  rw [isFixpoint_iff]
  intro p hp
  obtain ⟨h1, h2, h3⟩ := h p hp
  have h4 := le_rhs_of_stable hst (mem_keys_of_mem (v := p.2) (s := p.1) hp)
  rw [← h1] at h4
  omega

/-- a solution of the capped equations is unchanged by a round, provided equal keys carry equal
values -/
theorem stable_of_isFixpoint {g : GrammarSpec} {r : Reg} {d : DistTable}
    (hc : ∀ p ∈ d, p.2 = lookupDist d p.1) (h : isFixpoint g r d = true) :
    distStep g r d = d := by
  rw [isFixpoint_iff] at h
  rw [distStep_eq]
  conv => rhs; rw [← List.map_id d]
  apply List.map_congr_left
  intro p hp
  have h1 := hc p hp; have h2 := h p hp
  simp only [id, distStepSym]
  apply Prod.ext
  · rfl
  · simp only; omega

/-- `k` rounds of `distStep` -/
def stepN (g : GrammarSpec) (r : Reg) : Nat → DistTable → DistTable
  | 0, d => d
  | k + 1, d => stepN g r k (distStep g r d)

/-- `distIter` either stops on a table unchanged by `distStep`, or it performed `fuel` rounds each
of which changed the table. -/
theorem distIter_stable_or_fuel (g : GrammarSpec) (r : Reg) (fuel : Nat) (d : DistTable) :
    distStep g r (distIter g r fuel d) = distIter g r fuel d ∨
    (distIter g r fuel d = stepN g r fuel d ∧
      ∀ k, k < fuel → stepN g r (k + 1) d ≠ stepN g r k d) := by
  induction fuel generalizing d with
  | zero => right; exact ⟨rfl, fun k hk => absurd hk (Nat.not_lt_zero _)⟩
  | succ n ih =>
    simp only [distIter]
    split
    · rename_i heq
      left; exact (distTableEq_iff _ _).1 heq
    · rename_i hne
      rcases ih (distStep g r d) with h | ⟨h1, h2⟩
      · left; exact h
      · right
        refine ⟨by rw [h1]; rfl, ?_⟩
        intro k hk
        cases k with
        | zero =>
          intro heq
          apply hne
          exact (distTableEq_iff _ _).2 heq
        | succ k =>
          have := h2 k (by omega)
          simpa [stepN] using this

/-! ### The language of a grammar -/

mutual
/-- `Derives g r ty v`: `v` is a program of type `ty` in the grammar with class declarations
`g.classes` and registered productions `r.alts`.  Refinements (annotations) are ignored, so this is
the honest, largest language: in particular a list may be empty. -/
inductive Derives (g : GrammarSpec) (r : Reg) : Ty → Val → Prop
  | int (i : Int) : Derives g r .int (.int i)
  | float : Derives g r .float .float
  | str (s : String) : Derives g r .str (.str s)
  | bool (b : Bool) : Derives g r .bool (.bool b)
  /-- an abstract class derives what one of its registered productions derives -/
  | abs {n : Nat} {prods : List Nat} {p : Nat} {v : Val} :
      (g.classes.getD n default).abstract = true → getAlts r.alts n = some prods → p ∈ prods →
      Derives g r (.cls p) v → Derives g r (.cls n) v
  /-- a concrete class derives its instances, arguments derived field-wise -/
  | node {n : Nat} {dp ex : Nat} {args : List Val} :
      (g.classes.getD n default).abstract = false →
      DerivesList g r ((g.classes.getD n default).fields.map (·.2)) args →
      Derives g r (.cls n) (.node n dp ex args)
  /-- a list of any length (also 0) whose elements are all derived from `t` -/
  | list {t : Ty} {dp ex : Nat} {vs : List Val} :
      DerivesList g r (List.replicate vs.length t) vs → Derives g r (.list t) (.list dp ex vs)
  | tuple {ts : List Ty} {vs : List Val} :
      DerivesList g r ts vs → Derives g r (.tuple ts) (.tuple vs)
  | union {ts : List Ty} {t : Ty} {v : Val} :
      t ∈ ts → Derives g r t v → Derives g r (.union ts) v
  | ann {t : Ty} {mh : MH} {v : Val} : Derives g r t v → Derives g r (.ann t mh) v
/-- component-wise derivation -/
inductive DerivesList (g : GrammarSpec) (r : Reg) : List Ty → List Val → Prop
  | nil : DerivesList g r [] []
  | cons {t : Ty} {ts : List Ty} {v : Val} {vs : List Val} :
      Derives g r t v → DerivesList g r ts vs → DerivesList g r (t :: ts) (v :: vs)
end

mutual
/-- The same language with the COST of the derivation in the depth-counting mode of `g`
(`g.e = 1` in expansion-depthing mode, else 0): a class instance costs 1 more than its most
expensive argument; every other expansion step (abstract class → production, list, tuple, union,
base value) costs `g.e`.  With `g.e = 0` the cost is `Val.depth` (`derivesK_cost_eq_depth`). -/
inductive DerivesK (g : GrammarSpec) (r : Reg) : Ty → Val → Nat → Prop
  | int (i : Int) : DerivesK g r .int (.int i) g.e
  | float : DerivesK g r .float .float g.e
  | str (s : String) : DerivesK g r .str (.str s) g.e
  | bool (b : Bool) : DerivesK g r .bool (.bool b) g.e
  | abs {n : Nat} {prods : List Nat} {p : Nat} {v : Val} {k : Nat} :
      (g.classes.getD n default).abstract = true → getAlts r.alts n = some prods → p ∈ prods →
      DerivesK g r (.cls p) v k → DerivesK g r (.cls n) v (g.e + k)
  | node {n : Nat} {dp ex : Nat} {args : List Val} {k : Nat} :
      (g.classes.getD n default).abstract = false →
      DerivesKs g r ((g.classes.getD n default).fields.map (·.2)) args k →
      DerivesK g r (.cls n) (.node n dp ex args) (1 + k)
  | list {t : Ty} {dp ex : Nat} {vs : List Val} {k : Nat} :
      DerivesKs g r (List.replicate vs.length t) vs k →
      DerivesK g r (.list t) (.list dp ex vs) (g.e + k)
  | tuple {ts : List Ty} {vs : List Val} {k : Nat} :
      DerivesKs g r ts vs k → DerivesK g r (.tuple ts) (.tuple vs) (g.e + k)
  | union {ts : List Ty} {t : Ty} {v : Val} {k : Nat} :
      t ∈ ts → DerivesK g r t v k → DerivesK g r (.union ts) v (g.e + k)
  | ann {t : Ty} {mh : MH} {v : Val} {k : Nat} : DerivesK g r t v k → DerivesK g r (.ann t mh) v k
/-- component-wise, cost = the maximum -/
inductive DerivesKs (g : GrammarSpec) (r : Reg) : List Ty → List Val → Nat → Prop
  | nil : DerivesKs g r [] [] 0
  | cons {t : Ty} {ts : List Ty} {v : Val} {vs : List Val} {k ks : Nat} :
      DerivesK g r t v k → DerivesKs g r ts vs ks → DerivesKs g r (t :: ts) (v :: vs) (max k ks)
end

mutual
/-- no list value inside `v` is empty -/
def NoEmptyList : Val → Bool
  | .node _ _ _ args => NoEmptyLists args
  | .list _ _ vs => !vs.isEmpty && NoEmptyLists vs
  | .tuple vs => NoEmptyLists vs
  | _ => true
def NoEmptyLists : List Val → Bool
  | [] => true
  | v :: vs => NoEmptyList v && NoEmptyLists vs
end

/-! #### `Derives` and `DerivesK` describe the same language; cost 0-mode = depth -/

mutual
theorem DerivesK.toDerives {g : GrammarSpec} {r : Reg} :
    ∀ {ty : Ty} {v : Val} {k : Nat}, DerivesK g r ty v k → Derives g r ty v
  | _, _, _, .int i => .int i
  | _, _, _, .float => .float
  | _, _, _, .str s => .str s
  | _, _, _, .bool b => .bool b
  | _, _, _, .abs h1 h2 h3 h4 => .abs h1 h2 h3 h4.toDerives
  | _, _, _, .node h1 h2 => .node h1 h2.toDerivesList
  | _, _, _, .list h => .list h.toDerivesList
  | _, _, _, .tuple h => .tuple h.toDerivesList
  | _, _, _, .union h1 h2 => .union h1 h2.toDerives
  | _, _, _, .ann h => .ann h.toDerives
theorem DerivesKs.toDerivesList {g : GrammarSpec} {r : Reg} :
    ∀ {ts : List Ty} {vs : List Val} {k : Nat}, DerivesKs g r ts vs k → DerivesList g r ts vs
  | _, _, _, .nil => .nil
  | _, _, _, .cons h1 h2 => .cons h1.toDerives h2.toDerivesList
end

mutual
theorem Derives.toDerivesK {g : GrammarSpec} {r : Reg} :
    ∀ {ty : Ty} {v : Val}, Derives g r ty v → ∃ k, DerivesK g r ty v k
  | _, _, .int i => ⟨_, .int i⟩
  | _, _, .float => ⟨_, .float⟩
  | _, _, .str s => ⟨_, .str s⟩
  | _, _, .bool b => ⟨_, .bool b⟩
  | _, _, .abs h1 h2 h3 h4 => let ⟨_, h⟩ := h4.toDerivesK; ⟨_, .abs h1 h2 h3 h⟩
  | _, _, .node h1 h2 => let ⟨_, h⟩ := h2.toDerivesKs; ⟨_, .node h1 h⟩
  | _, _, .list h => let ⟨_, h⟩ := h.toDerivesKs; ⟨_, .list h⟩
  | _, _, .tuple h => let ⟨_, h⟩ := h.toDerivesKs; ⟨_, .tuple h⟩
  | _, _, .union h1 h2 => let ⟨_, h⟩ := h2.toDerivesK; ⟨_, .union h1 h⟩
  | _, _, .ann h => let ⟨_, h⟩ := h.toDerivesK; ⟨_, .ann h⟩
theorem DerivesList.toDerivesKs {g : GrammarSpec} {r : Reg} :
    ∀ {ts : List Ty} {vs : List Val}, DerivesList g r ts vs → ∃ k, DerivesKs g r ts vs k
  | _, _, .nil => ⟨_, .nil⟩
  | _, _, .cons h1 h2 =>
    let ⟨_, h1'⟩ := h1.toDerivesK; let ⟨_, h2'⟩ := h2.toDerivesKs; ⟨_, .cons h1' h2'⟩
end

theorem derives_iff_derivesK {g : GrammarSpec} {r : Reg} {ty : Ty} {v : Val} :
    Derives g r ty v ↔ ∃ k, DerivesK g r ty v k :=
  ⟨Derives.toDerivesK, fun ⟨_, h⟩ => h.toDerives⟩

mutual
theorem derivesK_cost_eq_depth {g : GrammarSpec} {r : Reg} (he : g.e = 0) :
    ∀ {ty : Ty} {v : Val} {k : Nat}, DerivesK g r ty v k → k = v.depth
  | _, _, _, .int i => by simp [Val.depth, he]
  | _, _, _, .float => by simp [Val.depth, he]
  | _, _, _, .str s => by simp [Val.depth, he]
  | _, _, _, .bool b => by simp [Val.depth, he]
  | _, _, _, .abs h1 h2 h3 h4 => by rw [he, Nat.zero_add]; exact derivesK_cost_eq_depth he h4
  | _, _, _, .node h1 h2 => by rw [Val.depth, derivesKs_cost_eq_depth he h2]
  | _, _, _, .list h => by rw [Val.depth, he, Nat.zero_add]; exact derivesKs_cost_eq_depth he h
  | _, _, _, .tuple h => by rw [Val.depth, he, Nat.zero_add]; exact derivesKs_cost_eq_depth he h
  | _, _, _, .union h1 h2 => by rw [he, Nat.zero_add]; exact derivesK_cost_eq_depth he h2
  | _, _, _, .ann h => derivesK_cost_eq_depth he h
theorem derivesKs_cost_eq_depth {g : GrammarSpec} {r : Reg} (he : g.e = 0) :
    ∀ {ts : List Ty} {vs : List Val} {k : Nat}, DerivesKs g r ts vs k → k = Val.depthList vs
  | _, _, _, .nil => by simp [Val.depthList]
  | _, _, _, .cons h1 h2 => by
    rw [Val.depthList, derivesK_cost_eq_depth he h1, derivesKs_cost_eq_depth he h2]
end

mutual
/-- in either mode the node depth is at most the cost -/
theorem derivesK_depth_le_cost {g : GrammarSpec} {r : Reg} :
    ∀ {ty : Ty} {v : Val} {k : Nat}, DerivesK g r ty v k → v.depth ≤ k
  | _, _, _, .int i => by simp [Val.depth]
  | _, _, _, .float => by simp [Val.depth]
  | _, _, _, .str s => by simp [Val.depth]
  | _, _, _, .bool b => by simp [Val.depth]
  | _, _, _, .abs h1 h2 h3 h4 => by have := derivesK_depth_le_cost h4; omega
  | _, _, _, .node h1 h2 => by rw [Val.depth]; have := derivesKs_depth_le_cost h2; omega
  | _, _, _, .list h => by rw [Val.depth]; have := derivesKs_depth_le_cost h; omega
  | _, _, _, .tuple h => by rw [Val.depth]; have := derivesKs_depth_le_cost h; omega
  | _, _, _, .union h1 h2 => by have := derivesK_depth_le_cost h2; omega
  | _, _, _, .ann h => derivesK_depth_le_cost h
theorem derivesKs_depth_le_cost {g : GrammarSpec} {r : Reg} :
    ∀ {ts : List Ty} {vs : List Val} {k : Nat}, DerivesKs g r ts vs k → Val.depthList vs ≤ k
  | _, _, _, .nil => by simp [Val.depthList]
  | _, _, _, .cons h1 h2 => by
    rw [Val.depthList]
    have := derivesK_depth_le_cost h1; have := derivesKs_depth_le_cost h2; omega
end

/-! ### Soundness: a table below its equations is a lower bound of the cost -/

/-- the keys of the table are closed under the successor relation of the grammar: every class or
base type mentioned in a field of a keyed concrete class, and every registered production of a
keyed abstract class, is keyed -/
def Closed (g : GrammarSpec) (r : Reg) (d : DistTable) : Prop :=
  ∀ s ∈ keys d, ∀ s' ∈ succs g r s, s' ∈ keys d

instance (g : GrammarSpec) (r : Reg) (d : DistTable) : Decidable (Closed g r d) := by
  unfold Closed; infer_instance

/-- `d s ≤ rhs d s` on the keys -/
def PreFix (g : GrammarSpec) (r : Reg) (d : DistTable) : Prop :=
  ∀ s ∈ keys d, lookupDist d s ≤ rhsSym g r d s

theorem preFix_of_isFixpoint {g : GrammarSpec} {r : Reg} {d : DistTable}
    (h : isFixpoint g r d = true) : PreFix g r d := by
  intro s hs
  have := (isFixpoint_iff g r d).1 h _ (lookupDist_mem hs)
  simp only at this
  omega

theorem eq_rhs_of_isFixpoint {g : GrammarSpec} {r : Reg} {d : DistTable}
    (h : isFixpoint g r d = true) {s : Sym} (hs : s ∈ keys d) :
    lookupDist d s = min INF (rhsSym g r d s) :=
  (isFixpoint_iff g r d).1 h _ (lookupDist_mem hs)

theorem listMin_le_of_mem {l : List Nat} {x : Nat} (h : x ∈ l) : listMin l ≤ x := by
  induction l with
  | nil => simp at h
  | cons a l ih =>
    simp only [listMin]
    rcases List.mem_cons.1 h with rfl | h
    · exact Nat.min_le_left _ _
    · exact Nat.le_trans (Nat.min_le_right _ _) (ih h)

theorem listMax_fields (e : Nat) (d : DistTable) (fs : List (String × Ty)) (h : fs ≠ []) :
    listMax (fs.map fun f => 1 + distTy e d f.2) = 1 + distTysMax e d (fs.map (·.2)) := by
  induction fs with
  | nil => exact absurd rfl h
  | cons f fs ih =>
    cases fs with
    | nil => simp [listMax, distTysMax]
    | cons f' fs' =>
      have := ih (by simp)
      simp only [List.map_cons, listMax, distTysMax] at this ⊢
      omega

theorem distTysMax_replicate (e : Nat) (d : DistTable) (t : Ty) (n : Nat) (h : 0 < n) :
    distTysMax e d (List.replicate n t) = distTy e d t := by
  induction n with
  | zero => exact absurd h (Nat.lt_irrefl _)
  | succ n ih =>
    cases n with
    | zero => simp [List.replicate, distTysMax]
    | succ m =>
      have := ih (Nat.succ_pos _)
      rw [List.replicate_succ, distTysMax, this, Nat.max_self]

theorem distTysMin_le_of_mem (e : Nat) (d : DistTable) {ts : List Ty} {t : Ty} (h : t ∈ ts) :
    distTysMin e d ts ≤ distTy e d t := by
  induction ts with
  | nil => simp at h
  | cons a l ih =>
    simp only [distTysMin]
    rcases List.mem_cons.1 h with rfl | h
    · exact Nat.min_le_left _ _
    · exact Nat.le_trans (Nat.min_le_right _ _) (ih h)

theorem explodeList_eq (ts : List Ty) : explodeList ts = (ts.map explode).flatten := by
  induction ts with
  | nil => rfl
  | cons t ts ih => simp [explodeList, ih]

theorem mem_explodeList {ts : List Ty} {s : Sym} :
    s ∈ explodeList ts ↔ ∃ t ∈ ts, s ∈ explode t := by
  induction ts with
  | nil => simp [explodeList]
  | cons t ts ih => simp [explodeList, ih]

theorem succs_abstract {g : GrammarSpec} {r : Reg} {n : Nat}
    (h : (g.classes.getD n default).abstract = true) :
    succs g r (.cls n) = ((getAlts r.alts n).getD []).map Sym.cls := by
  simp only [succs, h, ↓reduceIte]

theorem succs_concrete {g : GrammarSpec} {r : Reg} {n : Nat}
    (h : (g.classes.getD n default).abstract = false) :
    succs g r (.cls n) = explodeList ((g.classes.getD n default).fields.map (·.2)) := by
  simp only [succs, h, explodeList_eq, List.map_map, Function.comp_def, Bool.false_eq_true, ↓reduceIte]

theorem rhsSym_abstract {g : GrammarSpec} {r : Reg} {d : DistTable} {n : Nat} {prods : List Nat}
    (h : (g.classes.getD n default).abstract = true) (h2 : getAlts r.alts n = some prods) :
    rhsSym g r d (.cls n) = listMin (prods.map fun p => g.e + lookupDist d (.cls p)) := by
  simp only [rhsSym, h, h2, ↓reduceIte]

theorem rhsSym_concrete {g : GrammarSpec} {r : Reg} {d : DistTable} {n : Nat}
    (h : (g.classes.getD n default).abstract = false) :
    rhsSym g r d (.cls n) = 1 + distTysMax g.e d ((g.classes.getD n default).fields.map (·.2)) := by
  simp only [rhsSym, h, Bool.false_eq_true, if_false]
  split
  · rename_i he
    have : (g.classes.getD n default).fields = [] := by simpa using he
    rw [this]; rfl
  · rename_i he
    exact listMax_fields _ _ _ (by simpa using he)

mutual
theorem derivesK_sound {g : GrammarSpec} {r : Reg} {d : DistTable}
    (hle : PreFix g r d) (hcl : Closed g r d) :
    ∀ {ty : Ty} {v : Val} {k : Nat}, DerivesK g r ty v k → NoEmptyList v = true →
      (∀ s ∈ explode ty, s ∈ keys d) → distTy g.e d ty ≤ k
  | _, _, _, .int i, _, hk => by
    have := hle .int (hk _ (by simp [explode])); simpa [distTy, rhsSym] using this
  | _, _, _, .float, _, hk => by
    have := hle .float (hk _ (by simp [explode])); simpa [distTy, rhsSym] using this
  | _, _, _, .str _, _, hk => by
    have := hle .str (hk _ (by simp [explode])); simpa [distTy, rhsSym] using this
  | _, _, _, .bool _, _, hk => by
    have := hle .bool (hk _ (by simp [explode])); simpa [distTy, rhsSym] using this
  | _, _, _, .abs (n := n) (prods := prods) (p := p) h1 h2 h3 h4, hne, hk => by
    have hn : Sym.cls n ∈ keys d := hk _ (by simp [explode])
    have h5 := hle _ hn
    rw [rhsSym_abstract h1 h2] at h5
    have hp : Sym.cls p ∈ keys d := by
      apply hcl _ hn
      rw [succs_abstract h1, h2]
      exact List.mem_map.2 ⟨p, h3, rfl⟩
    have ih := derivesK_sound hle hcl h4 hne (by intro s hs; simp [explode] at hs; rw [hs]; exact hp)
    have h6 : listMin (prods.map fun p => g.e + lookupDist d (.cls p)) ≤ g.e + lookupDist d (.cls p) :=
      listMin_le_of_mem (List.mem_map.2 ⟨p, h3, rfl⟩)
    simp only [distTy] at ih ⊢
    omega
  | _, _, _, .node (n := n) h1 h2, hne, hk => by
    have hn : Sym.cls n ∈ keys d := hk _ (by simp [explode])
    have h5 := hle _ hn
    rw [rhsSym_concrete h1] at h5
    have ih := derivesKs_sound hle hcl h2 (by simpa [NoEmptyList] using hne)
      (by intro s hs; apply hcl _ hn; rw [succs_concrete h1]; exact hs)
    simp only [distTy]
    omega
  | _, _, _, .list (t := t) (vs := vs) h, hne, hk => by
    simp only [NoEmptyList, Bool.and_eq_true, Bool.not_eq_true', List.isEmpty_eq_false_iff] at hne
    have hpos : 0 < vs.length := List.length_pos_iff.2 hne.1
    have ih := derivesKs_sound hle hcl h hne.2 (by
      intro s hs
      obtain ⟨t', ht', hs'⟩ := mem_explodeList.1 hs
      rw [(List.mem_replicate.1 ht').2] at hs'
      exact hk s (by simpa [explode] using hs'))
    rw [distTysMax_replicate _ _ _ _ hpos] at ih
    simp only [distTy]
    omega
  | _, _, _, .tuple h, hne, hk => by
    have ih := derivesKs_sound hle hcl h (by simpa [NoEmptyList] using hne)
      (by intro s hs; exact hk s (by simpa [explode] using hs))
    simp only [distTy]
    omega
  | _, _, _, .union (ts := ts) (t := t) h1 h2, hne, hk => by
    have ih := derivesK_sound hle hcl h2 hne
      (by intro s hs; exact hk s (by simp only [explode]; exact mem_explodeList.2 ⟨t, h1, hs⟩))
    have := distTysMin_le_of_mem g.e d h1
    simp only [distTy]
    omega
  | _, _, _, .ann h, hne, hk => by
    have ih := derivesK_sound hle hcl h hne (by intro s hs; exact hk s (by simpa [explode] using hs))
    simpa [distTy] using ih
theorem derivesKs_sound {g : GrammarSpec} {r : Reg} {d : DistTable}
    (hle : PreFix g r d) (hcl : Closed g r d) :
    ∀ {ts : List Ty} {vs : List Val} {k : Nat}, DerivesKs g r ts vs k → NoEmptyLists vs = true →
      (∀ s ∈ explodeList ts, s ∈ keys d) → distTysMax g.e d ts ≤ k
  | _, _, _, .nil, _, _ => Nat.le_refl _
  | _, _, _, .cons h1 h2, hne, hk => by
    simp only [NoEmptyLists, Bool.and_eq_true] at hne
    have ih1 := derivesK_sound hle hcl h1 hne.1
      (by intro s hs; exact hk s (by simp [explodeList, hs]))
    have ih2 := derivesKs_sound hle hcl h2 hne.2
      (by intro s hs; exact hk s (by simp [explodeList, hs]))
    simp only [distTysMax]
    omega
end

/-! ### Attainment: finite table values are reached by derivable programs -/

/-- some program of type `ty` without empty lists costs at most `b` -/
def Att (g : GrammarSpec) (r : Reg) (ty : Ty) (b : Nat) : Prop :=
  ∃ v k, DerivesK g r ty v k ∧ NoEmptyList v = true ∧ k ≤ b

def Atts (g : GrammarSpec) (r : Reg) (ts : List Ty) (b : Nat) : Prop :=
  ∃ vs k, DerivesKs g r ts vs k ∧ NoEmptyLists vs = true ∧ k ≤ b

theorem Att.mono {g : GrammarSpec} {r : Reg} {ty : Ty} {b b' : Nat} (h : Att g r ty b) (hb : b ≤ b') :
    Att g r ty b' := by
  obtain ⟨v, k, h1, h2, h3⟩ := h; exact ⟨v, k, h1, h2, Nat.le_trans h3 hb⟩

theorem listMin_mem {l : List Nat} (h : listMin l < INF) : listMin l ∈ l := by
  induction l with
  | nil => exact absurd h (Nat.lt_irrefl _)
  | cons a l ih =>
    simp only [listMin] at h ⊢
    by_cases ha : a ≤ listMin l
    · rw [Nat.min_eq_left ha]; exact List.mem_cons_self
    · have hl : listMin l ≤ a := by omega
      rw [Nat.min_eq_right hl] at h ⊢
      exact List.mem_cons_of_mem _ (ih h)

mutual
theorem att_ty {g : GrammarSpec} {r : Reg} {d : DistTable} {B : Nat} (hB : B < INF)
    (H : ∀ s, lookupDist d s ≤ B → Att g r s.toTy (lookupDist d s)) :
    ∀ ty, distTy g.e d ty ≤ B → Att g r ty (distTy g.e d ty)
  | .int, h => H .int h
  | .float, h => H .float h
  | .str, h => H .str h
  | .bool, h => H .bool h
  | .cls n, h => H (.cls n) h
  | .ann t mh, h => by
    simp only [distTy] at h ⊢
    obtain ⟨v, k, h1, h2, h3⟩ := att_ty hB H t h
    exact ⟨v, k, .ann h1, h2, h3⟩
  | .list t, h => by
    simp only [distTy] at h ⊢
    obtain ⟨v, k, h1, h2, h3⟩ := att_ty hB H t (by omega)
    refine ⟨.list 0 0 [v], g.e + max k 0, .list (.cons h1 .nil), ?_, by omega⟩
    simp [NoEmptyList, NoEmptyLists, h2]
  | .tuple ts, h => by
    simp only [distTy] at h ⊢
    obtain ⟨vs, k, h1, h2, h3⟩ := atts_ty hB H ts (by omega)
    exact ⟨.tuple vs, g.e + k, .tuple h1, by simpa [NoEmptyList] using h2, by omega⟩
  | .union ts, h => by
    simp only [distTy] at h ⊢
    obtain ⟨t, ht, v, k, h1, h2, h3⟩ := att_union_ty hB H ts (by omega)
    exact ⟨v, g.e + k, .union ht h1, h2, by omega⟩
theorem atts_ty {g : GrammarSpec} {r : Reg} {d : DistTable} {B : Nat} (hB : B < INF)
    (H : ∀ s, lookupDist d s ≤ B → Att g r s.toTy (lookupDist d s)) :
    ∀ ts, distTysMax g.e d ts ≤ B → Atts g r ts (distTysMax g.e d ts)
  | [], _ => ⟨[], 0, .nil, rfl, Nat.le_refl _⟩
  | t :: ts, h => by
    simp only [distTysMax] at h ⊢
    obtain ⟨v, k, h1, h2, h3⟩ := att_ty hB H t (by omega)
    obtain ⟨vs, ks, h4, h5, h6⟩ := atts_ty hB H ts (by omega)
    exact ⟨v :: vs, max k ks, .cons h1 h4, by simp [NoEmptyLists, h2, h5], by omega⟩
theorem att_union_ty {g : GrammarSpec} {r : Reg} {d : DistTable} {B : Nat} (hB : B < INF)
    (H : ∀ s, lookupDist d s ≤ B → Att g r s.toTy (lookupDist d s)) :
    ∀ ts, distTysMin g.e d ts ≤ B → ∃ t ∈ ts, Att g r t (distTysMin g.e d ts)
  | [], h => by simp only [distTysMin] at h; omega
  | t :: ts, h => by
    simp only [distTysMin] at h ⊢
    by_cases ht : distTy g.e d t ≤ distTysMin g.e d ts
    · rw [Nat.min_eq_left ht] at h ⊢
      exact ⟨t, List.mem_cons_self, att_ty hB H t h⟩
    · have hl : distTysMin g.e d ts ≤ distTy g.e d t := by omega
      rw [Nat.min_eq_right hl] at h ⊢
      obtain ⟨t', ht', ha⟩ := att_union_ty hB H ts h
      exact ⟨t', List.mem_cons_of_mem _ ht', ha⟩
end

/-- One symbol: if the right-hand side of its equation is finite and the table entries it was
computed from are attained, the right-hand side is attained. -/
theorem att_rhs {g : GrammarSpec} {r : Reg} {d : DistTable} (s : Sym)
    (hV : rhsSym g r d s < INF)
    (H1 : ∀ s', lookupDist d s' < rhsSym g r d s → Att g r s'.toTy (lookupDist d s'))
    (H2 : ∀ n prods p, s = .cls n → (g.classes.getD n default).abstract = true →
      getAlts r.alts n = some prods → p ∈ prods →
      g.e + lookupDist d (.cls p) = rhsSym g r d s → Att g r (.cls p) (lookupDist d (.cls p))) :
    Att g r s.toTy (rhsSym g r d s) := by
  cases s with
  | int => exact ⟨.int 0, g.e, .int 0, rfl, Nat.le_refl _⟩
  | float => exact ⟨.float, g.e, .float, rfl, Nat.le_refl _⟩
  | str => exact ⟨.str "", g.e, .str "", rfl, Nat.le_refl _⟩
  | bool => exact ⟨.bool false, g.e, .bool false, rfl, Nat.le_refl _⟩
  | cls n =>
    cases hab : (g.classes.getD n default).abstract with
    | true =>
      cases hal : getAlts r.alts n with
      | none =>
        simp only [rhsSym, hab, hal, ↓reduceIte] at hV
        exact absurd hV (Nat.lt_irrefl _)
      | some prods =>
        rw [rhsSym_abstract hab hal] at hV
        obtain ⟨p, hp, hpe⟩ := List.mem_map.1 (listMin_mem hV)
        have h2 := H2 n prods p rfl hab hal hp (by rw [rhsSym_abstract hab hal]; exact hpe)
        obtain ⟨v, k, h3, h4, h5⟩ := h2
        refine ⟨v, g.e + k, .abs hab hal hp h3, h4, ?_⟩
        rw [rhsSym_abstract hab hal, ← hpe]
        omega
    | false =>
      rw [rhsSym_concrete hab] at hV H1 ⊢
      obtain ⟨vs, k, h1, h2, h3⟩ :=
        atts_ty (B := distTysMax g.e d ((g.classes.getD n default).fields.map (·.2)))
          (by omega) (fun s' hs' => H1 s' (by omega)) _ (Nat.le_refl _)
      exact ⟨.node n 0 0 vs, 1 + k, .node hab h1, by simpa [NoEmptyList] using h2, by omega⟩

/-- every finite entry of the table is attained -/
def AttInv (g : GrammarSpec) (r : Reg) (d : DistTable) : Prop :=
  ∀ s, lookupDist d s < INF → Att g r s.toTy (lookupDist d s)

theorem attInv_ty {g : GrammarSpec} {r : Reg} {d : DistTable} (h : AttInv g r d) (ty : Ty)
    (hf : distTy g.e d ty < INF) : Att g r ty (distTy g.e d ty) :=
  att_ty hf (fun s hs => h s (by omega)) ty (Nat.le_refl _)

theorem lookupDist_init (nodes : List Sym) (s : Sym) :
    lookupDist (nodes.map fun s => (s, INF)) s = INF := by
  induction nodes with
  | nil => rfl
  | cons a l ih => simp only [List.map_cons, lookupDist]; split <;> first | rfl | exact ih

theorem attInv_init (g : GrammarSpec) (r : Reg) (nodes : List Sym) :
    AttInv g r (nodes.map fun s => (s, INF)) := by
  intro s hs; rw [lookupDist_init] at hs; exact absurd hs (Nat.lt_irrefl _)

theorem attInv_step {g : GrammarSpec} {r : Reg} {d : DistTable} (h : AttInv g r d) :
    AttInv g r (distStep g r d) := by
  intro s hs
  rw [lookupDist_distStep] at hs ⊢
  split at hs
  · rename_i hk
    rw [if_pos hk]
    simp only [distStepSym] at hs ⊢
    by_cases hle : lookupDist d s ≤ rhsSym g r d s
    · rw [Nat.min_eq_left hle] at hs ⊢; exact h s hs
    · have hle' : rhsSym g r d s ≤ lookupDist d s := by omega
      rw [Nat.min_eq_right hle'] at hs ⊢
      exact att_rhs s hs (fun s' hs' => h s' (by omega))
        (fun n prods p _ _ _ _ he => h (.cls p) (by omega))
  · exact absurd hs (Nat.lt_irrefl _)

theorem attInv_iter {g : GrammarSpec} {r : Reg} (fuel : Nat) {d : DistTable} (h : AttInv g r d) :
    AttInv g r (distIter g r fuel d) := by
  induction fuel generalizing d with
  | zero => exact h
  | succ n ih =>
    simp only [distIter]
    split
    · exact h
    · exact ih (attInv_step h)

/-- the registered productions form an acyclic relation (they do when they come from
`register_type`: a production's parent is the class it is registered under) -/
def AltsRanked (r : Reg) (rank : Nat → Nat) : Prop :=
  ∀ n prods p, getAlts r.alts n = some prods → p ∈ prods → rank p < rank n

/-- ANY solution of the capped equations has all its finite entries attained, provided the
production relation is acyclic. -/
theorem attInv_of_isFixpoint {g : GrammarSpec} {r : Reg} {d : DistTable}
    (hfix : isFixpoint g r d = true) {rank : Nat → Nat} (hr : AltsRanked r rank) :
    AttInv g r d := by
  have key : ∀ V rk s, lookupDist d s = V → V < INF →
      (match s with | .cls n => rank n | _ => 0) = rk → Att g r s.toTy (lookupDist d s) := by
    intro V
    induction V using Nat.strongRecOn with
    | _ V ihV =>
      intro rk
      induction rk using Nat.strongRecOn with
      | _ rk ihR =>
        intro s hsV hV hrk
        have hk : s ∈ keys d := mem_keys_of_lt (by omega)
        have heq := eq_rhs_of_isFixpoint hfix hk
        have hrhs : rhsSym g r d s = V := by omega
        rw [hsV, ← hrhs]
        apply att_rhs s (by omega)
        · intro s' hs'
          exact ihV (lookupDist d s') (by omega) _ s' rfl (by omega) rfl
        · intro n prods p hs hab hal hp he
          by_cases hlt : lookupDist d (.cls p) < V
          · exact ihV _ hlt _ (.cls p) rfl (by omega) rfl
          · have hpe : lookupDist d (.cls p) = V := by omega
            subst hs
            have := hr n prods p hal hp
            exact ihR (rank p) (by simp only at hrk; omega) (.cls p) hpe hV rfl
  intro s hs
  exact key _ _ s rfl hs rfl

/-! ### Reachability -/

/-- `ReachPlus g r a b`: there is a non-empty path `a → … → b` along `succs g r` -/
inductive ReachPlus (g : GrammarSpec) (r : Reg) : Sym → Sym → Prop
  | step {a b : Sym} : b ∈ succs g r a → ReachPlus g r a b
  | tail {a b c : Sym} : ReachPlus g r a b → c ∈ succs g r b → ReachPlus g r a c

/-- reflexive-transitive closure -/
def Reach (g : GrammarSpec) (r : Reg) (a b : Sym) : Prop := a = b ∨ ReachPlus g r a b

theorem Reach.tail {g : GrammarSpec} {r : Reg} {a b c : Sym} (h : Reach g r a b)
    (hc : c ∈ succs g r b) : ReachPlus g r a c := by
  rcases h with rfl | h
  · exact .step hc
  · exact .tail h hc

theorem ReachPlus.trans {g : GrammarSpec} {r : Reg} {a b c : Sym} (h1 : ReachPlus g r a b)
    (h2 : ReachPlus g r b c) : ReachPlus g r a c := by
  induction h2 with
  | step h => exact .tail h1 h
  | tail _ h ih => exact .tail ih h

/-- the registered symbols are closed under the successor relation -/
def ClosedNodes (g : GrammarSpec) (r : Reg) : Prop :=
  ∀ x ∈ r.allNodes, ∀ y ∈ succs g r x, y ∈ r.allNodes

instance (g : GrammarSpec) (r : Reg) : Decidable (ClosedNodes g r) := by
  unfold ClosedNodes; infer_instance

theorem ReachPlus.mem_of_closed {g : GrammarSpec} {r : Reg} {U : List Sym}
    (hU : ∀ x ∈ U, ∀ y ∈ succs g r x, y ∈ U) {a b : Sym} (ha : a ∈ U) (h : ReachPlus g r a b) :
    b ∈ U := by
  induction h with
  | step h => exact hU _ ha _ h
  | tail _ h ih => exact hU _ ih _ h

theorem mem_addAll {acc xs : List Sym} {y : Sym} : y ∈ addAll acc xs ↔ y ∈ acc ∨ y ∈ xs := by
  unfold addAll
  induction xs generalizing acc with
  | nil => simp
  | cons x xs ih =>
    simp only [List.foldl_cons, List.mem_cons]
    rw [ih]
    split
    · rename_i hx
      have hx' : x ∈ acc := by simpa using hx
      constructor
      · rintro (h | h)
        · exact .inl h
        · exact .inr (.inr h)
      · rintro (h | rfl | h)
        · exact .inl h
        · exact .inl hx'
        · exact .inr h
    · simp only [List.mem_append, List.mem_singleton]
      constructor
      · rintro ((h | h) | h)
        · exact .inl h
        · exact .inr (.inl h)
        · exact .inr (.inr h)
      · rintro (h | h | h)
        · exact .inl (.inl h)
        · exact .inl (.inr h)
        · exact .inr h

theorem addAll_nodup {acc xs : List Sym} (h : acc.Nodup) : (addAll acc xs).Nodup := by
  unfold addAll
  induction xs generalizing acc with
  | nil => simpa using h
  | cons x xs ih =>
    simp only [List.foldl_cons]
    apply ih
    split
    · exact h
    · rename_i hx
      have hx' : x ∉ acc := by simpa using hx
      rw [List.nodup_append]
      refine ⟨h, by simp, ?_⟩
      intro a ha b hb
      simp only [List.mem_singleton] at hb
      subst hb
      exact fun e => hx' (e ▸ ha)

theorem mem_next {g : GrammarSpec} {r : Reg} {frontier : List Sym} {y : Sym} :
    y ∈ (frontier.map (succs g r)).flatten ↔ ∃ x ∈ frontier, y ∈ succs g r x := by
  simp only [List.mem_flatten, List.mem_map]
  constructor
  · rintro ⟨l, ⟨x, hx, rfl⟩, hy⟩; exact ⟨x, hx, hy⟩
  · rintro ⟨x, hx, hy⟩; exact ⟨_, ⟨x, hx, rfl⟩, hy⟩

/-- Everything `reachFrom` collects is reachable in at least one step (any fuel). -/
theorem reachFrom_sound (g : GrammarSpec) (r : Reg) (s : Sym) :
    ∀ (fuel : Nat) (frontier seen : List Sym),
      (∀ x ∈ frontier, Reach g r s x) → (∀ x ∈ seen, ReachPlus g r s x) →
      ∀ x ∈ reachFrom g r fuel frontier seen, ReachPlus g r s x := by
  intro fuel
  induction fuel with
  | zero => intro frontier seen _ hs x hx; exact hs x hx
  | succ n ih =>
    intro frontier seen hf hs x hx
    simp only [reachFrom] at hx
    split at hx
    · exact hs x hx
    · have hfresh : ∀ y ∈ ((frontier.map (succs g r)).flatten.filter fun x => !seen.contains x),
          ReachPlus g r s y := by
        intro y hy
        obtain ⟨a, ha, hya⟩ := mem_next.1 (List.mem_filter.1 hy).1
        exact (hf a ha).tail hya
      refine ih _ _ ?_ ?_ x hx
      · intro y hy
        rcases mem_addAll.1 hy with h | h
        · simp at h
        · exact .inr (hfresh y h)
      · intro y hy
        rcases mem_addAll.1 hy with h | h
        · exact hs y h
        · exact hfresh y h

/-- With enough fuel (`U` any list containing everything reachable from `s`) `reachFrom` collects
everything reachable in at least one step. -/
theorem reachFrom_complete (g : GrammarSpec) (r : Reg) (s : Sym) (U : List Sym)
    (hU : ∀ x, ReachPlus g r s x → x ∈ U) :
    ∀ (fuel : Nat) (frontier seen : List Sym),
      (∀ x ∈ frontier, Reach g r s x) → (∀ x ∈ seen, ReachPlus g r s x) → seen.Nodup →
      (∀ x, (x ∈ seen ∨ x = s) → x ∉ frontier → ∀ y ∈ succs g r x, y ∈ seen) →
      U.length + 1 ≤ fuel + seen.length →
      ∀ x, ReachPlus g r s x → x ∈ reachFrom g r fuel frontier seen := by
  intro fuel
  induction fuel with
  | zero =>
    intro frontier seen _ hs hnd _ hlen
    have := hnd.length_le_of_subset (l₂ := U) (fun x hx => hU x (hs x hx))
    omega
  | succ n ih =>
    intro frontier seen hf hs hnd hcl hlen x hx
    simp only [reachFrom]
    have hfresh : ∀ y, y ∈ ((frontier.map (succs g r)).flatten.filter fun x => !seen.contains x) ↔
        (∃ a ∈ frontier, y ∈ succs g r a) ∧ y ∉ seen := by
      intro y; rw [List.mem_filter, mem_next]; simp
    split
    · rename_i hemp
      have hemp' : ∀ y, (∃ a ∈ frontier, y ∈ succs g r a) → y ∈ seen := by
        intro y hy
        apply Classical.byContradiction
        intro hn
        have := (hfresh y).2 ⟨hy, hn⟩
        rw [List.isEmpty_iff.1 hemp] at this
        simp at this
      have hclosed : ∀ a, (a ∈ seen ∨ a = s) → ∀ y ∈ succs g r a, y ∈ seen := by
        intro a ha y hy
        by_cases haf : a ∈ frontier
        · exact hemp' y ⟨a, haf, hy⟩
        · exact hcl a ha haf y hy
      induction hx with
      | step h => exact hclosed s (.inr rfl) _ h
      | tail _ h ih' => exact hclosed _ (.inl ih') _ h
    · rename_i hne
      obtain ⟨w, hw⟩ : ∃ w, w ∈ ((frontier.map (succs g r)).flatten.filter fun x => !seen.contains x) := by
        cases hl : ((frontier.map (succs g r)).flatten.filter fun x => !seen.contains x) with
        | nil => rw [hl] at hne; simp at hne
        | cons w _ => exact ⟨w, List.mem_cons_self⟩
      have hreach : ∀ y ∈ ((frontier.map (succs g r)).flatten.filter fun x => !seen.contains x),
          ReachPlus g r s y := by
        intro y hy
        obtain ⟨⟨a, ha, hya⟩, _⟩ := (hfresh y).1 hy
        exact (hf a ha).tail hya
      refine ih _ _ ?_ ?_ (addAll_nodup hnd) ?_ ?_ x hx
      · intro y hy
        rcases mem_addAll.1 hy with h | h
        · simp at h
        · exact .inr (hreach y h)
      · intro y hy
        rcases mem_addAll.1 hy with h | h
        · exact hs y h
        · exact hreach y h
      · intro a ha hna y hy
        have hna' : a ∉ ((frontier.map (succs g r)).flatten.filter fun x => !seen.contains x) :=
          fun h => hna (mem_addAll.2 (.inr h))
        have ha' : a ∈ seen ∨ a = s := by
          rcases ha with ha | ha
          · rcases mem_addAll.1 ha with h | h
            · exact .inl h
            · exact absurd h hna'
          · exact .inr ha
        by_cases haf : a ∈ frontier
        · by_cases hys : y ∈ seen
          · exact mem_addAll.2 (.inl hys)
          · exact mem_addAll.2 (.inr ((hfresh y).2 ⟨⟨a, haf, hy⟩, hys⟩))
        · exact mem_addAll.2 (.inl (hcl a ha' haf y hy))
      · have hwn : w ∉ seen := ((hfresh w).1 hw).2
        have hnd' : (w :: seen).Nodup := List.nodup_cons.2 ⟨hwn, hnd⟩
        have := hnd'.length_le_of_subset
          (l₂ := addAll seen ((frontier.map (succs g r)).flatten.filter fun x => !seen.contains x))
          (by
            intro z hz
            rcases List.mem_cons.1 hz with rfl | hz
            · exact mem_addAll.2 (.inr hw)
            · exact mem_addAll.2 (.inl hz))
        simp only [List.length_cons] at this
        omega

/-- `reachFrom` from `[s]` with the fuel the model gives it: exactly the symbols reachable in at
least one step, provided the registered symbols contain everything reachable from `s`. -/
theorem mem_reachFrom_iff {g : GrammarSpec} {r : Reg} {s : Sym}
    (hU : ∀ x, ReachPlus g r s x → x ∈ r.allNodes) (x : Sym) :
    x ∈ reachFrom g r (r.allNodes.length + 1) [s] [] ↔ ReachPlus g r s x := by
  constructor
  · exact reachFrom_sound g r s _ _ _ (by intro y hy; simp at hy; exact .inl hy.symm)
      (by intro y hy; simp at hy) x
  · exact reachFrom_complete g r s r.allNodes hU _ _ _
      (by intro y hy; simp at hy; exact .inl hy.symm) (by intro y hy; simp at hy)
      List.nodup_nil
      (by
        intro a ha hna
        rcases ha with ha | ha
        · simp at ha
        · subst ha; simp at hna)
      (by simp) x

/-! ### Registration: productions = registered direct subclasses -/

theorem getAlts_addAlt (alts : List (Nat × List Nat)) (p c a : Nat) :
    getAlts (addAlt alts p c) a =
      if a = p then some ((getAlts alts p).getD [] ++ [c]) else getAlts alts a := by
  induction alts with
  | nil =>
    by_cases h : a = p
    · subst h; simp [addAlt, getAlts]
    · have : ¬ p = a := fun e => h e.symm
      simp [addAlt, getAlts, h, this]
  | cons kv rest ih =>
    obtain ⟨k, v⟩ := kv
    by_cases hk : k = p
    · subst hk
      by_cases h : a = k
      · subst h; simp [addAlt, getAlts]
      · have : ¬ k = a := fun e => h e.symm
        simp [addAlt, getAlts, h, this]
    · by_cases hka : k = a
      · subst hka
        have : ¬ k = p := hk
        simp [addAlt, getAlts, this]
      · simp only [addAlt, getAlts, beq_iff_eq, hk, hka, if_false, ih]

/-- the part of `register_type` on a class that registers the parent and the alternative -/
def regParent (classes : List ClassDecl) (considered : List Nat) (fuel n : Nat) (r : Reg) : Reg :=
  match (classes.getD n default).parent with
  | some p =>
    let r := regTy classes considered fuel (.cls p) r
    if (classes.getD p default).abstract then { r with alts := addAlt r.alts p n }
    else { r with error := true }
  | none => r

def regFinish (classes : List ClassDecl) (n : Nat) (r : Reg) : Reg :=
  if (!(classes.getD n default).abstract && (classes.getD n default).fields.isEmpty) then
    { r with terminals := r.terminals ++ [.cls n] }
  else { r with nonTerminals := r.nonTerminals ++ [.cls n] }

theorem regTy_cls (classes : List ClassDecl) (considered : List Nat) (fuel n : Nat) (r : Reg) :
    regTy classes considered (fuel + 1) (.cls n) r =
      if r.allNodes.contains (.cls n) then r else
      let r1 := regParent classes considered fuel n { r with allNodes := r.allNodes ++ [.cls n] }
      let r2 := if (classes.getD n default).abstract then r1
                else regFields classes considered fuel (classes.getD n default).fields r1
      regFinish classes n (regSubs classes considered fuel n considered r2) := by
  rw [regTy]; rfl

/-- Invariant of registration.  `sound`: every registered production is a registered direct
subclass of the abstract class it is listed under.  `complete`: every registered class (except
those in `pend`, whose registration is in progress) is listed under its parent if that is abstract. -/
structure RegInv (classes : List ClassDecl) (pend : List Nat) (r : Reg) : Prop where
  sound : ∀ a prods p, getAlts r.alts a = some prods → p ∈ prods →
    (classes.getD p default).parent = some a ∧ (classes.getD a default).abstract = true ∧
      Sym.cls p ∈ r.allNodes
  complete : ∀ n p, Sym.cls n ∈ r.allNodes → n ∉ pend → (classes.getD n default).parent = some p →
    (classes.getD p default).abstract = true → ∃ prods, getAlts r.alts p = some prods ∧ n ∈ prods

/-- what one registration call guarantees -/
def RegStep (classes : List ClassDecl) (r r' : Reg) : Prop :=
  (∀ s ∈ r.allNodes, s ∈ r'.allNodes) ∧ ∀ pend, RegInv classes pend r → RegInv classes pend r'

theorem RegStep.refl (classes : List ClassDecl) (r : Reg) : RegStep classes r r :=
  ⟨fun _ h => h, fun _ h => h⟩

theorem RegStep.trans {classes : List ClassDecl} {a b c : Reg} (h1 : RegStep classes a b)
    (h2 : RegStep classes b c) : RegStep classes a c :=
  ⟨fun s hs => h2.1 s (h1.1 s hs), fun pend h => h2.2 pend (h1.2 pend h)⟩

theorem RegStep.of_eq {classes : List ClassDecl} {r r' : Reg} (h1 : r'.allNodes = r.allNodes)
    (h2 : r'.alts = r.alts) : RegStep classes r r' := by
  refine ⟨fun s hs => h1 ▸ hs, fun pend h => ⟨?_, ?_⟩⟩
  · rw [h1, h2]; exact h.sound
  · rw [h1, h2]; exact h.complete

theorem regParent_step {classes : List ClassDecl} {considered : List Nat} {f n : Nat} {r0 : Reg}
    (ih1 : ∀ ty r, RegStep classes r (regTy classes considered f ty r))
    (hn : Sym.cls n ∈ r0.allNodes) :
    (∀ s ∈ r0.allNodes, s ∈ (regParent classes considered f n r0).allNodes) ∧
    ∀ pend, RegInv classes (n :: pend) r0 → RegInv classes pend (regParent classes considered f n r0) := by
  unfold regParent
  split
  · rename_i p hp
    have hstep := ih1 (.cls p) r0
    dsimp only
    split
    · rename_i hab
      refine ⟨hstep.1, fun pend h => ?_⟩
      have h' := hstep.2 _ h
      constructor
      · intro a prods q hg hq
        simp only at hg ⊢
        rw [getAlts_addAlt] at hg
        split at hg
        · rename_i hap
          subst hap
          cases hg
          rcases List.mem_append.1 hq with hq | hq
          · cases hgp : getAlts (regTy classes considered f (.cls a) r0).alts a with
            | none => rw [hgp] at hq; simp at hq
            | some l => rw [hgp] at hq; exact h'.sound a l q hgp hq
          · simp at hq; subst hq; exact ⟨hp, hab, hstep.1 _ hn⟩
        · exact h'.sound a prods q hg hq
      · intro m q hm hmp hpar habq
        simp only at hm ⊢
        rw [getAlts_addAlt]
        by_cases hmn : m = n
        · subst hmn
          have : q = p := by rw [hp] at hpar; exact (Option.some.inj hpar).symm
          subst this
          simp
        · obtain ⟨prods, hg, hmem⟩ := h'.complete m q hm (by simp [hmn, hmp]) hpar habq
          split
          · rename_i hqp; subst hqp; rw [hg]; exact ⟨_, rfl, by simp [hmem]⟩
          · exact ⟨prods, hg, hmem⟩
    · rename_i hab
      refine ⟨hstep.1, fun pend h => ?_⟩
      have h' := hstep.2 _ h
      refine ⟨h'.sound, ?_⟩
      intro m q hm hmp hpar habq
      by_cases hmn : m = n
      · subst hmn
        have : q = p := by rw [hp] at hpar; exact (Option.some.inj hpar).symm
        subst this
        exact absurd habq hab
      · exact h'.complete m q hm (by simp [hmn, hmp]) hpar habq
  · rename_i hp
    refine ⟨fun _ h => h, fun pend h => ⟨h.sound, ?_⟩⟩
    intro m q hm hmp hpar habq
    by_cases hmn : m = n
    · subst hmn; rw [hp] at hpar; cases hpar
    · exact h.complete m q hm (by simp [hmn, hmp]) hpar habq

theorem reg_step (classes : List ClassDecl) (considered : List Nat) : ∀ fuel,
    (∀ ty r, RegStep classes r (regTy classes considered fuel ty r)) ∧
    (∀ ts r, RegStep classes r (regTys classes considered fuel ts r)) ∧
    (∀ fs r, RegStep classes r (regFields classes considered fuel fs r)) ∧
    (∀ n l r, RegStep classes r (regSubs classes considered fuel n l r)) := by
  intro fuel
  induction fuel with
  | zero =>
    refine ⟨?_, ?_, ?_, ?_⟩ <;> intros <;> simp only [regTy, regTys, regFields, regSubs] <;>
      exact RegStep.refl _ _
  | succ f ih =>
    obtain ⟨ih1, ih2, ih3, ih4⟩ := ih
    have hbase : ∀ s r, (∀ n, s ≠ Sym.cls n) → RegStep classes r (regTy.regBase s r) := by
      intro s r hs; simp only [regTy.regBase]; split
      · exact RegStep.refl _ _
      · refine ⟨fun x hx => List.mem_append_left _ hx, fun pend h => ⟨?_, ?_⟩⟩
        · intro a prods p hg hp
          obtain ⟨h1, h2, h3⟩ := h.sound a prods p hg hp
          exact ⟨h1, h2, List.mem_append_left _ h3⟩
        · intro n p hn
          have : Sym.cls n ∈ r.allNodes := by
            rcases List.mem_append.1 hn with hn | hn
            · exact hn
            · simp only [List.mem_singleton] at hn
              exact absurd hn.symm (hs n)
          exact h.complete n p this
    refine ⟨?_, ?_, ?_, ?_⟩
    · intro ty r
      cases ty with
      | int => rw [regTy]; exact hbase _ _ (by intro n h; cases h)
      | float => rw [regTy]; exact hbase _ _ (by intro n h; cases h)
      | str => rw [regTy]; exact hbase _ _ (by intro n h; cases h)
      | bool => rw [regTy]; exact hbase _ _ (by intro n h; cases h)
      | list t => rw [regTy]; exact ih1 _ _
      | ann t mh => rw [regTy]; exact ih1 _ _
      | tuple ts => rw [regTy]; exact ih2 _ _
      | union ts => rw [regTy]; exact ih2 _ _
      | cls n =>
        rw [regTy_cls]
        split
        · exact RegStep.refl _ _
        · rename_i hc
          have hc' : Sym.cls n ∉ r.allNodes := by simpa using hc
          dsimp only
          have hpar := regParent_step (considered := considered) (f := f) (n := n)
            (r0 := { r with allNodes := r.allNodes ++ [.cls n] }) ih1 (by simp)
          have h01 : RegStep classes r
              (regParent classes considered f n { r with allNodes := r.allNodes ++ [.cls n] }) := by
            refine ⟨fun s hs => hpar.1 s (List.mem_append_left _ hs), fun pend h => hpar.2 pend ⟨?_, ?_⟩⟩
            · intro a prods p hg hp
              obtain ⟨h1, h2, h3⟩ := h.sound a prods p hg hp
              exact ⟨h1, h2, List.mem_append_left _ h3⟩
            · intro m q hm hmp
              have hmn : m ≠ n := fun e => hmp (by simp [e])
              have : Sym.cls m ∈ r.allNodes := by
                rcases List.mem_append.1 hm with hm | hm
                · exact hm
                · simp at hm; exact absurd hm hmn
              exact h.complete m q this (fun hp => hmp (List.mem_cons_of_mem _ hp))
          have hfin : ∀ r, RegStep classes r (regFinish classes n r) := by
            intro r; unfold regFinish; split <;> exact RegStep.of_eq rfl rfl
          refine RegStep.trans ?_ (hfin _)
          refine RegStep.trans ?_ (ih4 _ _ _)
          refine RegStep.trans h01 ?_
          split
          · exact RegStep.refl _ _
          · exact ih3 _ _
    · intro ts r
      cases ts with
      | nil => simp only [regTys]; exact RegStep.refl _ _
      | cons t ts => simp only [regTys]; exact RegStep.trans (ih1 _ _) (ih2 _ _)
    · intro fs r
      cases fs with
      | nil => simp only [regFields]; exact RegStep.refl _ _
      | cons t ts => obtain ⟨_, t⟩ := t; simp only [regFields]; exact RegStep.trans (ih1 _ _) (ih3 _ _)
    · intro n l r
      cases l with
      | nil => simp only [regSubs]; exact RegStep.refl _ _
      | cons t ts =>
        simp only [regSubs]
        refine RegStep.trans ?_ (ih4 _ _ _)
        split
        · exact ih1 _ _
        · exact RegStep.refl _ _

theorem regInv_analyse (g : GrammarSpec) : RegInv g.classes [] (analyse g).reg := by
  have := ((reg_step g.classes g.considered (regFuel g)).1 (.cls g.start) {}).2 []
  apply this
  constructor
  · intro a prods p hg; simp [getAlts] at hg
  · intro n p hn; simp at hn


/-- the declared single-inheritance relation is acyclic (always true of Python classes) -/
def ParentRanked (classes : List ClassDecl) (rank : Nat → Nat) : Prop :=
  ∀ c p, (classes.getD c default).parent = some p → rank c < rank p

theorem altsRanked_analyse (g : GrammarSpec) {rank : Nat → Nat} (h : ParentRanked g.classes rank) :
    AltsRanked (analyse g).reg rank := by
  intro n prods p hg hp
  exact h p n ((regInv_analyse g).sound n prods p hg hp).1

/-! ### The loop converges within `number of entries` rounds -/

theorem stepN_succ (g : GrammarSpec) (r : Reg) (k : Nat) (d : DistTable) :
    stepN g r (k + 1) d = distStep g r (stepN g r k d) := by
  induction k generalizing d with
  | zero => rfl
  | succ k ih => rw [stepN, ih (distStep g r d)]; rfl

theorem keys_stepN (g : GrammarSpec) (r : Reg) (k : Nat) (d : DistTable) :
    keys (stepN g r k d) = keys d := by
  induction k with
  | zero => rfl
  | succ k ih => rw [stepN_succ, keys_distStep, ih]

theorem tableInv_stepN {g : GrammarSpec} {r : Reg} {d : DistTable} (h : TableInv g r d) (k : Nat) :
    TableInv g r (stepN g r k d) := by
  induction k with
  | zero => exact h
  | succ k ih => rw [stepN_succ]; exact tableInv_step ih

theorem stepN_antitone (g : GrammarSpec) (r : Reg) (d : DistTable) {j k : Nat} (h : j ≤ k) :
    TLe (stepN g r k d) (stepN g r j d) := by
  induction k with
  | zero => have : j = 0 := by omega
            subst this; exact TLe.refl _
  | succ k ih =>
    by_cases hj : j = k + 1
    · subst hj; exact TLe.refl _
    · rw [stepN_succ]
      exact TLe.trans (distStep_le g r _) (ih (by omega))

theorem stepN_stable (g : GrammarSpec) (r : Reg) (d : DistTable) {L : Nat}
    (hL : distStep g r (stepN g r L d) = stepN g r L d) {k : Nat} (h : L ≤ k) :
    stepN g r k d = stepN g r L d := by
  induction k with
  | zero => have : L = 0 := by omega
            subst this; rfl
  | succ k ih =>
    by_cases hj : L = k + 1
    · subst hj; rfl
    · rw [stepN_succ, ih (by omega), hL]

/-! #### local monotonicity of the right-hand sides -/

mutual
theorem distTy_le_local {e : Nat} {d d' : DistTable} {B : Nat}
    (H : ∀ s', lookupDist d' s' ≤ B → lookupDist d s' ≤ lookupDist d' s') :
    ∀ ty, distTy e d' ty ≤ B → distTy e d ty ≤ distTy e d' ty
  | .int, h => H _ h
  | .float, h => H _ h
  | .str, h => H _ h
  | .bool, h => H _ h
  | .cls _, h => H _ h
  | .ann t _, h => by simp only [distTy] at h ⊢; exact distTy_le_local H t h
  | .list t, h => by
    simp only [distTy] at h ⊢; have := distTy_le_local (e := e) H t (by omega); omega
  | .tuple ts, h => by
    simp only [distTy] at h ⊢; have := distTysMax_le_local (e := e) H ts (by omega); omega
  | .union ts, h => by
    simp only [distTy] at h ⊢; have := distTysMin_le_local (e := e) H ts (by omega); omega
theorem distTysMax_le_local {e : Nat} {d d' : DistTable} {B : Nat}
    (H : ∀ s', lookupDist d' s' ≤ B → lookupDist d s' ≤ lookupDist d' s') :
    ∀ ts, distTysMax e d' ts ≤ B → distTysMax e d ts ≤ distTysMax e d' ts
  | [], _ => Nat.le_refl _
  | t :: ts, h => by
    simp only [distTysMax] at h ⊢
    have := distTy_le_local (e := e) H t (by omega)
    have := distTysMax_le_local (e := e) H ts (by omega)
    omega
theorem distTysMin_le_local {e : Nat} {d d' : DistTable} {B : Nat}
    (H : ∀ s', lookupDist d' s' ≤ B → lookupDist d s' ≤ lookupDist d' s') :
    ∀ ts, distTysMin e d' ts ≤ B → distTysMin e d ts ≤ distTysMin e d' ts
  | [], _ => Nat.le_refl _
  | t :: ts, h => by
    simp only [distTysMin] at h ⊢
    by_cases hc : distTy e d' t ≤ distTysMin e d' ts
    · have := distTy_le_local (e := e) H t (by omega); omega
    · have := distTysMin_le_local (e := e) H ts (by omega); omega
end

/-- If `d` is below `d'` on the entries the finite right-hand side `rhs d' s` was computed from,
then `rhs d s ≤ rhs d' s`. -/
theorem rhsSym_le_local {g : GrammarSpec} {r : Reg} {d d' : DistTable} (s : Sym)
    (hV : rhsSym g r d' s < INF)
    (H1 : ∀ s', lookupDist d' s' < rhsSym g r d' s → lookupDist d s' ≤ lookupDist d' s')
    (H2 : ∀ n prods p, s = .cls n → (g.classes.getD n default).abstract = true →
      getAlts r.alts n = some prods → p ∈ prods →
      g.e + lookupDist d' (.cls p) = rhsSym g r d' s →
      lookupDist d (.cls p) ≤ lookupDist d' (.cls p)) :
    rhsSym g r d s ≤ rhsSym g r d' s := by
  cases s with
  | cls n =>
    cases hab : (g.classes.getD n default).abstract with
    | true =>
      cases hal : getAlts r.alts n with
      | none => simp only [rhsSym, hab, hal, ↓reduceIte]; exact Nat.le_refl _
      | some prods =>
        rw [rhsSym_abstract hab hal] at hV ⊢
        obtain ⟨p, hp, hpe⟩ := List.mem_map.1 (listMin_mem hV)
        have h2 := H2 n prods p rfl hab hal hp (by rw [rhsSym_abstract hab hal]; exact hpe)
        have h3 : listMin (prods.map fun p => g.e + lookupDist d (.cls p)) ≤
            g.e + lookupDist d (.cls p) := listMin_le_of_mem (List.mem_map.2 ⟨p, hp, rfl⟩)
        rw [rhsSym_abstract hab hal]
        omega
    | false =>
      rw [rhsSym_concrete hab] at hV H1 ⊢
      rw [rhsSym_concrete hab]
      have := distTysMax_le_local (e := g.e) (d := d) (d' := d')
        (B := distTysMax g.e d' ((g.classes.getD n default).fields.map (·.2)))
        (fun s' hs' => H1 s' (by omega)) _ (Nat.le_refl _)
      omega
  | _ => exact Nat.le_refl _

theorem exists_min {α : Type} (P : α → Prop) (f : α → Nat) (h : ∃ a, P a) :
    ∃ a, P a ∧ ∀ b, P b → f a ≤ f b := by
  obtain ⟨a, ha⟩ := h
  have key : ∀ n a, P a → f a = n → ∃ a, P a ∧ ∀ b, P b → f a ≤ f b := by
    intro n
    induction n using Nat.strongRecOn with
    | _ n ih =>
      intro a ha hn
      by_cases hb : ∃ b, P b ∧ f b < n
      · obtain ⟨b, hb1, hb2⟩ := hb
        exact ih (f b) hb2 b hb1 rfl
      · refine ⟨a, ha, fun b hPb => ?_⟩
        apply Classical.byContradiction
        intro hlt
        exact hb ⟨b, hPb, by omega⟩
  exact key _ a ha rfl

/-! #### every round settles a new symbol -/

theorem first_hit (g : GrammarSpec) (r : Reg) (d0 : DistTable) (L : Nat) (s : Sym) :
    ∀ j k, L - k = j → k ≤ L →
      lookupDist (stepN g r L d0) s < lookupDist (stepN g r k d0) s →
      ∃ t, k ≤ t ∧ t < L ∧ lookupDist (stepN g r (t + 1) d0) s = lookupDist (stepN g r L d0) s ∧
        lookupDist (stepN g r L d0) s < lookupDist (stepN g r t d0) s := by
  intro j
  induction j with
  | zero =>
    intro k hj hk h
    have : k = L := by omega
    subst this; exact absurd h (Nat.lt_irrefl _)
  | succ j ih =>
    intro k hj hk h
    have hkL : k < L := by omega
    by_cases he : lookupDist (stepN g r (k + 1) d0) s = lookupDist (stepN g r L d0) s
    · exact ⟨k, Nat.le_refl _, hkL, he, h⟩
    · have := stepN_antitone g r d0 (j := k + 1) (k := L) (by omega) s
      obtain ⟨t, h1, h2, h3, h4⟩ := ih (k + 1) (by omega) (by omega) (by omega)
      exact ⟨t, by omega, h2, h3, h4⟩

theorem hit_rhs {g : GrammarSpec} {r : Reg} {d0 : DistTable} {t : Nat} {s : Sym} {V : Nat}
    (hinv : TableInv g r d0)
    (h1 : lookupDist (stepN g r (t + 1) d0) s = V) (h2 : V < lookupDist (stepN g r t d0) s) :
    s ∈ keys d0 ∧ rhsSym g r (stepN g r t d0) s = V := by
  rw [stepN_succ, lookupDist_distStep] at h1
  have hle := lookupDist_le_INF (tableInv_stepN hinv t) s
  split at h1
  · rename_i hk
    rw [keys_stepN] at hk
    simp only [distStepSym] at h1
    exact ⟨hk, by omega⟩
  · omega

theorem progress {g : GrammarSpec} {r : Reg} {d0 : DistTable} (hinv : TableInv g r d0)
    {k L : Nat} (hk : k ≤ L)
    (hne : ∃ s, lookupDist (stepN g r k d0) s ≠ lookupDist (stepN g r L d0) s) :
    ∃ s, s ∈ keys d0 ∧ lookupDist (stepN g r k d0) s ≠ lookupDist (stepN g r L d0) s ∧
      lookupDist (stepN g r (k + 1) d0) s = lookupDist (stepN g r L d0) s := by
  -- `P s`: not settled at round `k`
  let P : Sym → Prop := fun s => lookupDist (stepN g r L d0) s < lookupDist (stepN g r k d0) s
  have hP : ∃ s, P s := by
    obtain ⟨s, hs⟩ := hne
    have := stepN_antitone g r d0 hk s
    exact ⟨s, by show _ < _; omega⟩
  obtain ⟨s1, hs1, hmin1⟩ := exists_min P (fun s => lookupDist (stepN g r L d0) s) hP
  let V := lookupDist (stepN g r L d0) s1
  let Q : Sym × Nat → Prop := fun q =>
    P q.1 ∧ lookupDist (stepN g r L d0) q.1 = V ∧ k ≤ q.2 ∧ q.2 < L ∧
      lookupDist (stepN g r (q.2 + 1) d0) q.1 = V ∧ V < lookupDist (stepN g r q.2 d0) q.1
  have hQ : ∃ q, Q q := by
    obtain ⟨t, h1, h2, h3, h4⟩ := first_hit g r d0 L s1 _ k rfl hk hs1
    exact ⟨(s1, t), hs1, rfl, h1, h2, h3, h4⟩
  obtain ⟨⟨s, t⟩, ⟨hPs, hVs, hkt, htL, hhit, hgt⟩, hmin2⟩ := exists_min Q (fun q => q.2) hQ
  simp only at hPs hVs hkt htL hhit hgt hmin2
  obtain ⟨hkey, hrhs⟩ := hit_rhs hinv hhit hgt
  have hINF := lookupDist_le_INF (tableInv_stepN hinv t) s
  have hloc : rhsSym g r (stepN g r k d0) s ≤ rhsSym g r (stepN g r t d0) s := by
    apply rhsSym_le_local s (by omega)
    · intro s' hs'
      have ha := stepN_antitone g r d0 (j := t) (k := L) (by omega) s'
      by_cases hp : P s'
      · have := hmin1 s' hp
        show _ ≤ _
        omega
      · have : ¬ (lookupDist (stepN g r L d0) s' < lookupDist (stepN g r k d0) s') := hp
        omega
    · intro n prods p _ _ _ _ hpe
      have ha := stepN_antitone g r d0 (j := t) (k := L) (by omega) (.cls p)
      by_cases hp : P (.cls p)
      · have h1 := hmin1 _ hp
        have hpV : lookupDist (stepN g r L d0) (.cls p) = V := by show _ = _; omega
        obtain ⟨tp, h2, h3, h4, h5⟩ := first_hit g r d0 L (.cls p) _ k rfl hk hp
        have := hmin2 (.cls p, tp) ⟨hp, hpV, h2, h3, by rw [h4, hpV], by rw [← hpV]; exact h5⟩
        simp only at this
        have hb := stepN_antitone g r d0 (j := t) (k := tp) this (.cls p)
        omega
      · have : ¬ (lookupDist (stepN g r L d0) (.cls p) < lookupDist (stepN g r k d0) (.cls p)) := hp
        omega
  refine ⟨s, hkey, by have : _ < _ := hPs; omega, ?_⟩
  have h1 : lookupDist (stepN g r (k + 1) d0) s ≤ rhsSym g r (stepN g r k d0) s := by
    rw [stepN_succ, lookupDist_distStep, if_pos (by rw [keys_stepN]; exact hkey)]
    exact Nat.min_le_right _ _
  have h2 := stepN_antitone g r d0 (j := k + 1) (k := L) (by omega) s
  omega

theorem countP_lt {α : Type} (p q : α → Bool) (l : List α)
    (hmono : ∀ x ∈ l, p x = true → q x = true) (hex : ∃ x ∈ l, q x = true ∧ p x = false) :
    l.countP p < l.countP q := by
  induction l with
  | nil => obtain ⟨x, hx, _⟩ := hex; simp at hx
  | cons a l ih =>
    rw [List.countP_cons, List.countP_cons]
    have hm : ∀ x ∈ l, p x = true → q x = true := fun x hx => hmono x (List.mem_cons_of_mem _ hx)
    have hle := List.countP_mono_left (p := p) (q := q) hm
    obtain ⟨x, hx, hq, hp⟩ := hex
    rcases List.mem_cons.1 hx with rfl | hx
    · simp only [hq, hp, if_true]
      have : (if false = true then 1 else 0) = 0 := rfl
      omega
    · have hlt := ih hm ⟨x, hx, hq, hp⟩
      have ha := hmono a List.mem_cons_self
      by_cases hpa : p a = true
      · simp only [hpa, ha hpa, if_true]; omega
      · have hpf : p a = false := by simpa using hpa
        have h0 : (if p a = true then 1 else 0) = 0 := by simp [hpf]
        rw [h0]
        split <;> omega

/-- From any table satisfying the invariant, `number of entries` rounds are enough: the table after
`d0.length` rounds is unchanged by one more round. -/
theorem stepN_length_stable {g : GrammarSpec} {r : Reg} {d0 : DistTable} (hinv : TableInv g r d0) :
    distStep g r (stepN g r d0.length d0) = stepN g r d0.length d0 := by
  let L := d0.length + 1
  let cnt : Nat → Nat := fun k =>
    (keys d0).countP fun s => lookupDist (stepN g r k d0) s == lookupDist (stepN g r L d0) s
  have hsettle : ∀ k, k + 1 ≤ L → ∀ s,
      lookupDist (stepN g r k d0) s = lookupDist (stepN g r L d0) s →
      lookupDist (stepN g r (k + 1) d0) s = lookupDist (stepN g r L d0) s := by
    intro k hk s hs
    have h1 := stepN_antitone g r d0 (j := k) (k := k + 1) (by omega) s
    have h2 := stepN_antitone g r d0 (j := k + 1) (k := L) hk s
    omega
  have hcount : ∀ k, k + 1 ≤ L →
      (∀ s, lookupDist (stepN g r k d0) s = lookupDist (stepN g r L d0) s) ∨ k + 1 ≤ cnt (k + 1) := by
    intro k
    induction k with
    | zero =>
      intro hk
      by_cases hall : ∀ s, lookupDist (stepN g r 0 d0) s = lookupDist (stepN g r L d0) s
      · exact .inl hall
      · right
        have hne : ∃ s, lookupDist (stepN g r 0 d0) s ≠ lookupDist (stepN g r L d0) s :=
          Classical.not_forall.1 hall
        obtain ⟨s, hs1, hs2, hs3⟩ := progress hinv (by omega) hne
        have := countP_lt
          (fun s => lookupDist (stepN g r 0 d0) s == lookupDist (stepN g r L d0) s)
          (fun s => lookupDist (stepN g r (0 + 1) d0) s == lookupDist (stepN g r L d0) s) (keys d0)
          (fun x _ hx => by simp only [beq_iff_eq] at hx ⊢; exact hsettle 0 hk x hx)
          ⟨s, hs1, by simpa using hs3, by simpa using hs2⟩
        show 0 + 1 ≤ List.countP _ _
        omega
    | succ k ih =>
      intro hk
      by_cases hall : ∀ s, lookupDist (stepN g r (k + 1) d0) s = lookupDist (stepN g r L d0) s
      · exact .inl hall
      · right
        have hne : ∃ s, lookupDist (stepN g r (k + 1) d0) s ≠ lookupDist (stepN g r L d0) s :=
          Classical.not_forall.1 hall
        rcases ih (by omega) with h | h
        · exact absurd (fun s => hsettle k (by omega) s (h s)) hall
        · obtain ⟨s, hs1, hs2, hs3⟩ := progress hinv (by omega) hne
          have := countP_lt
            (fun s => lookupDist (stepN g r (k + 1) d0) s == lookupDist (stepN g r L d0) s)
            (fun s => lookupDist (stepN g r (k + 1 + 1) d0) s == lookupDist (stepN g r L d0) s)
            (keys d0)
            (fun x _ hx => by simp only [beq_iff_eq] at hx ⊢; exact hsettle (k + 1) hk x hx)
            ⟨s, hs1, by simpa using hs3, by simpa using hs2⟩
          show k + 1 + 1 ≤ List.countP _ _
          have h' : k + 1 ≤ List.countP
            (fun s => lookupDist (stepN g r (k + 1) d0) s == lookupDist (stepN g r L d0) s) (keys d0) := h
          omega
  have hall : ∀ s, lookupDist (stepN g r d0.length d0) s = lookupDist (stepN g r L d0) s := by
    rcases hcount d0.length (Nat.le_refl _) with h | h
    · exact h
    · have h1 : cnt (d0.length + 1) ≤ (keys d0).length := List.countP_le_length
      have h2 : (keys d0).length = d0.length := by simp [keys]
      omega
  -- equal lookups + consistent entries ⇒ equal tables
  have hinvn := tableInv_stepN hinv d0.length
  rw [distStep_eq]
  conv => rhs; rw [← List.map_id (stepN g r d0.length d0)]
  apply List.map_congr_left
  intro p hp
  have hk : p.1 ∈ keys (stepN g r d0.length d0) := List.mem_map.2 ⟨p, hp, rfl⟩
  have h1 := lookupDist_distStep g r (stepN g r d0.length d0) p.1
  rw [if_pos hk, ← stepN_succ] at h1
  have h2 := hall p.1
  have h3 := (hinvn p hp).1
  apply Prod.ext
  · rfl
  · simp only [id]
    show distStepSym g r (stepN g r d0.length d0) p.1 = p.2
    rw [← h1, h3]
    exact h2.symm

/-- `distIter` with at least `length + 1` fuel returns a table unchanged by a round. -/
theorem distIter_stable {g : GrammarSpec} {r : Reg} {d0 : DistTable} (hinv : TableInv g r d0)
    {fuel : Nat} (hf : d0.length + 1 ≤ fuel) :
    distStep g r (distIter g r fuel d0) = distIter g r fuel d0 := by
  rcases distIter_stable_or_fuel g r fuel d0 with h | ⟨_, h⟩
  · exact h
  · have := h d0.length (by omega)
    rw [stepN_succ] at this
    exact absurd (stepN_length_stable hinv) this

/-! ### Example grammars (used by the non-vacuity examples and the witness of C05) -/

/-- The grammar `A ::= Leaf | Many(xs : list[A])` (A abstract). -/
def witnessSpec : GrammarSpec :=
  { classes := [⟨"A", true, none, []⟩, ⟨"Leaf", false, some 0, []⟩,
                ⟨"Many", false, some 0, [("xs", .list (.cls 0))]⟩],
    start := 0, considered := [1, 2] }

/-- `Expr ::= Lit(v : int) | Add(l : Expr, r : Expr) | Neg(x : Annotated[Expr, …]) |
Pair(t : tuple[Expr, bool]) | U(u : Union[Lit, Add])`, plus an unreachable class. -/
def exSpec (expansion : Bool) : GrammarSpec :=
  { classes := [⟨"Expr", true, none, []⟩,
                ⟨"Lit", false, some 0, [("v", .int)]⟩,
                ⟨"Add", false, some 0, [("l", .cls 0), ("r", .cls 0)]⟩,
                ⟨"Neg", false, some 0, [("x", .ann (.cls 0) (.intRange 0 1))]⟩,
                ⟨"Pair", false, some 0, [("t", .tuple [.cls 0, .bool])]⟩,
                ⟨"U", false, some 0, [("u", .union [.cls 1, .cls 2])]⟩,
                ⟨"Other", false, none, []⟩],
    start := 0, considered := [1, 2, 3, 4, 5, 6], expansion := expansion }

/-- rank of the classes of `exSpec`: the abstract root above its productions -/
def exRank : Nat → Nat := fun n => if n = 0 then 1 else 0

theorem exRanked (b : Bool) : ParentRanked (exSpec b).classes exRank := by
  intro c p h
  have hc : c < 7 ∨ 7 ≤ c := by omega
  rcases hc with hc | hc
  · have : c = 0 ∨ c = 1 ∨ c = 2 ∨ c = 3 ∨ c = 4 ∨ c = 5 ∨ c = 6 := by omega
    rcases this with rfl | rfl | rfl | rfl | rfl | rfl | rfl <;> simp [exSpec] at h <;>
      subst h <;> simp [exRank]
  · have : (exSpec b).classes.getD c default = default := by
      rw [List.getD_eq_getElem?_getD, List.getElem?_eq_none (by simpa [exSpec] using hc)]; rfl
    rw [this] at h; cases h

end GEVerif.Analysis
