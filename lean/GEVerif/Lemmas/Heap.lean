/-
  Lemmas about the heap model of the genotype operators (`Model/Heap.lean`): which operators only allocate
  (`FreshExt`), the separation invariant (`Sep`: no gene-list object belongs to two genotypes), growth (`Grows`) and
  the frame property of dynamic-SGE mapping, lifted to arbitrary operation sequences (`run_*`).
-/
import GEVerif.Model.Heap
namespace GEVerif.Heap

def addrs (d : Dict) : List Nat := d.map (·.2)
def allAddrs (h : Heap) : List Nat := h.genos.flatMap addrs

/-- no gene list object belongs to two genotypes (or twice to one), and every address is allocated -/
def Sep (h : Heap) : Prop := (allAddrs h).Nodup ∧ ∀ a ∈ allAddrs h, a < h.lists.length

/-- every list only ever grows at its end, every dictionary only gains keys at its end -/
def Grows (h h' : Heap) : Prop := (∀ a, h.listAt a <+: h'.listAt a) ∧ (∀ g, h.genoAt g <+: h'.genoAt g)

theorem Grows.refl (h : Heap) : Grows h h := ⟨fun _ => List.prefix_refl _, fun _ => List.prefix_refl _⟩
theorem Grows.trans {a b c : Heap} (h1 : Grows a b) (h2 : Grows b c) : Grows a c :=
  ⟨fun x => (h1.1 x).trans (h2.1 x), fun x => (h1.2 x).trans (h2.2 x)⟩

/-- new cells and new genotype objects only; the new genotypes own fresh, pairwise different cells -/
def FreshExt (h h' : Heap) : Prop :=
  ∃ ls gs, h'.lists = h.lists ++ ls ∧ h'.genos = h.genos ++ gs ∧ (gs.flatMap addrs).Nodup ∧
    ∀ a ∈ gs.flatMap addrs, h.lists.length ≤ a ∧ a < h.lists.length + ls.length

theorem listAt_append_left {ls : List (List Int)} {gs gs'} {ms a} (ha : a < ls.length) :
    (Heap.mk (ls ++ ms) gs).listAt a = (Heap.mk ls gs').listAt a := by
  simp [Heap.listAt, List.getElem?_append_left ha]

theorem listAt_of_ge {h : Heap} {a} (ha : h.lists.length ≤ a) : h.listAt a = [] := by
  simp [Heap.listAt, List.getElem?_eq_none ha]

theorem genoAt_of_ge {h : Heap} {g} (hg : h.genos.length ≤ g) : h.genoAt g = [] := by
  simp [Heap.genoAt, List.getElem?_eq_none hg]

theorem FreshExt.listAt_eq {h h' : Heap} (e : FreshExt h h') {a} (ha : a < h.lists.length) : h'.listAt a = h.listAt a := by
  obtain ⟨ls, gs, h1, -, -, -⟩ := e
  simp [Heap.listAt, h1, List.getElem?_append_left ha]

theorem FreshExt.genoAt_eq {h h' : Heap} (e : FreshExt h h') {g} (hg : g < h.genos.length) : h'.genoAt g = h.genoAt g := by
  obtain ⟨ls, gs, -, h2, -, -⟩ := e
  simp [Heap.genoAt, h2, List.getElem?_append_left hg]

theorem FreshExt.grows {h h' : Heap} (e : FreshExt h h') : Grows h h' := by
  refine ⟨fun a => ?_, fun g => ?_⟩
  · by_cases ha : a < h.lists.length
    · rw [e.listAt_eq ha]; exact List.prefix_refl _
    · rw [listAt_of_ge (Nat.le_of_not_lt ha)]; exact List.nil_prefix
  · by_cases hg : g < h.genos.length
    · rw [e.genoAt_eq hg]; exact List.prefix_refl _
    · rw [genoAt_of_ge (Nat.le_of_not_lt hg)]; exact List.nil_prefix

theorem FreshExt.sep {h h' : Heap} (e : FreshExt h h') (s : Sep h) : Sep h' := by
  obtain ⟨ls, gs, h1, h2, nd, rg⟩ := e
  unfold Sep allAddrs at *
  rw [h2, List.flatMap_append, h1]
  refine ⟨List.nodup_append.2 ⟨s.1, nd, ?_⟩, ?_⟩
  · intro a ha b hb hab
    have := s.2 a ha
    have := (rg b hb).1
    omega
  · intro a ha
    rcases List.mem_append.1 ha with ha | ha
    · have := s.2 a ha; simp; omega
    · have := (rg a ha).2; simp; omega

theorem FreshExt.refl (h : Heap) : FreshExt h h := ⟨[], [], by simp, by simp, by simp, by simp⟩

theorem mem_allAddrs_of_genoAt {h : Heap} {g a} (ha : a ∈ addrs (h.genoAt g)) : a ∈ allAddrs h := by
  unfold Heap.genoAt at ha
  cases hg : h.genos[g]? with
  | none => simp [hg, addrs] at ha
  | some d =>
    simp [hg] at ha
    exact List.mem_flatMap.2 ⟨d, List.mem_of_getElem? hg, ha⟩

theorem FreshExt.view_eq {h h' : Heap} (e : FreshExt h h') (s : Sep h) {g} (hg : g < h.genos.length) : h'.view g = h.view g := by
  unfold Heap.view
  rw [e.genoAt_eq hg]
  apply List.map_congr_left
  intro x hx
  have : x.2 ∈ allAddrs h := mem_allAddrs_of_genoAt (List.mem_map.2 ⟨x, hx, rfl⟩)
  rw [e.listAt_eq (s.2 _ this)]

/-- `h'` is `h` plus new cells; the dictionaries `ds` (not yet stored) own fresh, pairwise different cells -/
def Built (h h' : Heap) (ds : List Dict) : Prop :=
  ∃ ls, h'.lists = h.lists ++ ls ∧ h'.genos = h.genos ∧ (ds.flatMap addrs).Nodup ∧
    ∀ a ∈ ds.flatMap addrs, h.lists.length ≤ a ∧ a < h.lists.length + ls.length

theorem Built.refl (h : Heap) : Built h h [] := ⟨[], by simp, rfl, by simp, by simp⟩

theorem Built.store {h h' : Heap} {ds : List Dict} (b : Built h h' ds) :
    FreshExt h (ds.foldl Heap.allocGeno h') := by
  obtain ⟨ls, h1, h2, nd, rg⟩ := b
  refine ⟨ls, ds, ?_, ?_, nd, rg⟩
  · clear nd rg h2
    induction ds generalizing h' with
    | nil => simpa using h1
    | cons d ds ih => simp only [List.foldl_cons]; exact ih (by simpa [Heap.allocGeno] using h1)
  · clear nd rg h1
    induction ds generalizing h' h with
    | nil => simpa using h2
    | cons d ds ih =>
      simp only [List.foldl_cons]
      have := @ih ⟨h.lists, h.genos ++ [d]⟩ (h'.allocGeno d) (by simp [Heap.allocGeno, h2])
      simpa using this

theorem Built.setItem {h h' : Heap} {ds} (b : Built h h' ds) (a i : Nat) (v : Int) (ha : h.lists.length ≤ a) :
    Built h (h'.setItem a i v) ds := by
  obtain ⟨ls, h1, h2, nd, rg⟩ := b
  refine ⟨ls.set (a - h.lists.length) ((h'.listAt a).set i v), ?_, by simpa [Heap.setItem] using h2, nd, by simpa using rg⟩
  simp only [Heap.setItem, h1, List.set_append]
  rw [if_neg (by omega)]

/-- one more fresh cell, owned by the dictionary under construction -/
theorem built_alloc_cons {h : Heap} {v : List Int} {h2 : Heap} {rest : Dict} {k : Nat}
    (b : Built (h.allocList v).1 h2 [rest]) : 
    ∃ ls, h2.lists = h.lists ++ ls ∧ h2.genos = h.genos ∧ (addrs ((k, h.lists.length) :: rest)).Nodup ∧
      ∀ a ∈ addrs ((k, h.lists.length) :: rest), h.lists.length ≤ a ∧ a < h.lists.length + ls.length := by
  obtain ⟨ls, h1, hg2, nd, rg⟩ := b
  simp only [Heap.allocList, List.flatMap_cons, List.flatMap_nil, List.append_nil, List.length_append, List.length_cons, List.length_nil] at h1 hg2 nd rg
  refine ⟨v :: ls, by simpa using h1, hg2, ?_, ?_⟩
  · simp only [addrs, List.map_cons, List.nodup_cons]
    refine ⟨fun hm => ?_, nd⟩
    have := (rg _ hm).1
    omega
  · intro a ha
    simp only [addrs, List.map_cons, List.mem_cons] at ha
    rcases ha with rfl | ha
    · simp
    · have := rg a ha
      simp only [List.length_cons]; omega

theorem copyDict_built (h : Heap) (d : Dict) : Built h (copyDict h d).1 [(copyDict h d).2] := by
  induction d generalizing h with
  | nil => exact ⟨[], by simp [copyDict], rfl, by simp [copyDict, addrs], by simp [copyDict, addrs]⟩
  | cons e rest ih =>
    obtain ⟨k, a⟩ := e
    simp only [copyDict]
    have := built_alloc_cons (k := k) (ih (h.allocList (h.listAt a)).1)
    obtain ⟨ls, h1, h2, nd, rg⟩ := this
    exact ⟨ls, h1, h2, by simpa [Heap.allocList] using nd, by simpa [Heap.allocList] using rg⟩

theorem copyDict_keys (h : Heap) (d : Dict) : (copyDict h d).2.map (·.1) = d.map (·.1) := by
  induction d generalizing h with
  | nil => rfl
  | cons e rest ih => obtain ⟨k, a⟩ := e; simp [copyDict, ih]

theorem dictCreate_built (h : Heap) (c : List (Nat × List Int)) : Built h (dictCreate h c).1 [(dictCreate h c).2] := by
  induction c generalizing h with
  | nil => exact ⟨[], by simp [dictCreate], rfl, by simp [dictCreate, addrs], by simp [dictCreate, addrs]⟩
  | cons e rest ih =>
    obtain ⟨k, genes⟩ := e
    simp only [dictCreate]
    have := built_alloc_cons (k := k) (ih (h.allocList genes).1)
    obtain ⟨ls, h1, h2, nd, rg⟩ := this
    exact ⟨ls, h1, h2, by simpa [Heap.allocList] using nd, by simpa [Heap.allocList] using rg⟩

theorem crossKeys_built (h : Heap) (d1 d2 : Dict) (km : List (Nat × Bool)) :
    Built h (crossKeys h d1 d2 km).1 [(crossKeys h d1 d2 km).2.1, (crossKeys h d1 d2 km).2.2] := by
  induction km generalizing h with
  | nil => exact ⟨[], by simp [crossKeys], rfl, by simp [crossKeys, addrs], by simp [crossKeys, addrs]⟩
  | cons e rest ih =>
    obtain ⟨k, b⟩ := e
    simp only [crossKeys, crossKey, Heap.allocList]
    generalize hv1 : (if b = true then (Option.map h.listAt (dictGet d1 k)).getD [] else (Option.map h.listAt (dictGet d2 k)).getD []) = v1
    generalize hv2 : (if b = true then (Option.map h.listAt (dictGet d2 k)).getD [] else (Option.map h.listAt (dictGet d1 k)).getD []) = v2
    obtain ⟨ls, h1, h2, nd, rg⟩ := ih ⟨h.lists ++ [v1] ++ [v2], h.genos⟩
    simp only [List.flatMap_cons, List.flatMap_nil, List.append_nil, List.length_append, List.length_cons, List.length_nil] at h1 h2 nd rg
    refine ⟨v1 :: v2 :: ls, by simpa using h1, h2, ?_, ?_⟩
    · simp only [List.flatMap_cons, List.flatMap_nil, List.append_nil, addrs, List.map_cons, List.length_append, List.length_cons, List.length_nil]
      simp only [addrs] at nd rg
      rw [List.nodup_append] at nd ⊢
      obtain ⟨n1, n2, n3⟩ := nd
      refine ⟨List.nodup_cons.2 ⟨fun hm => ?_, n1⟩, List.nodup_cons.2 ⟨fun hm => ?_, n2⟩, ?_⟩
      · have := (rg _ (List.mem_append_left _ hm)).1; omega
      · have := (rg _ (List.mem_append_right _ hm)).1; omega
      · intro x hx y hy
        rcases List.mem_cons.1 hx with rfl | hx <;> rcases List.mem_cons.1 hy with rfl | hy
        · omega
        · have := (rg _ (List.mem_append_right _ hy)).1; omega
        · have := (rg _ (List.mem_append_left _ hx)).1; omega
        · exact n3 x hx y hy
    · intro a ha
      simp only [List.flatMap_cons, List.flatMap_nil, List.append_nil, addrs, List.map_cons, List.mem_append, List.mem_cons, List.length_append, List.length_cons, List.length_nil] at ha
      simp only [addrs, List.mem_append] at rg
      simp only [List.length_cons]
      rcases ha with (rfl | ha) | (rfl | ha)
      · omega
      · have := rg a (Or.inl ha); omega
      · omega
      · have := rg a (Or.inr ha); omega

theorem flatCreate_fresh (h : Heap) (genes : List Int) : FreshExt h (flatCreate h genes) := by
  have b : Built h (h.allocList genes).1 [[(0, h.lists.length)]] :=
    ⟨[genes], rfl, rfl, by simp [addrs], by simp [addrs]⟩
  exact b.store

theorem structCreate_fresh (h : Heap) (c : List (Nat × List Int)) : FreshExt h (structCreate h c) :=
  (dictCreate_built h c).store

theorem flatMutate_fresh (h : Heap) (g r : Nat) (v : Int) : FreshExt h (flatMutate h g r v) := by
  have b : Built h (h.allocList (h.listAt ((dictGet (h.genoAt g) 0).getD 0))).1 [[(0, h.lists.length)]] :=
    ⟨[_], rfl, rfl, by simp [addrs], by simp [addrs]⟩
  exact (b.setItem h.lists.length r v (Nat.le_refl _)).store

theorem flatCrossover_fresh (h : Heap) (g1 g2 cut : Nat) : FreshExt h (flatCrossover h g1 g2 cut) := by
  simp only [flatCrossover, Heap.allocList]
  generalize (List.take cut _ ++ List.drop cut _) = v1
  generalize (List.take cut _ ++ List.drop cut _) = v2
  have b : Built h ⟨h.lists ++ [v1] ++ [v2], h.genos⟩ [[(0, h.lists.length)], [(0, (h.lists ++ [v1]).length)]] :=
    ⟨[v1, v2], by simp, rfl, by simp [addrs], by simp [addrs]⟩
  exact b.store

theorem structMutate_fresh (h : Heap) (g : Nat) (c : Option (Nat × Nat × Int)) : FreshExt h (structMutate h g c) := by
  have b := copyDict_built h (h.genoAt g)
  unfold structMutate
  cases c with
  | none => exact b.store
  | some c =>
    obtain ⟨kidx, rindex, v⟩ := c
    simp only
    cases hd : (copyDict h (h.genoAt g)).2[kidx]? with
    | none => exact b.store
    | some e =>
      have hm : e.2 ∈ [(copyDict h (h.genoAt g)).2].flatMap addrs := by
        simp only [List.flatMap_cons, List.flatMap_nil, List.append_nil, addrs]
        exact List.mem_map.2 ⟨e, List.mem_of_getElem? hd, rfl⟩
      obtain ⟨ls, h1, h2, nd, rg⟩ := b
      have hge := (rg _ hm).1
      exact (Built.setItem ⟨ls, h1, h2, nd, rg⟩ e.2 rindex v hge).store

theorem structCrossover_fresh (h : Heap) (g1 g2 : Nat) (m : List Bool) : FreshExt h (structCrossover h g1 g2 m) :=
  (crossKeys_built h (h.genoAt g1) (h.genoAt g2) _).store

theorem flatMap_nodup_disjoint {α β : Type} (f : α → List β) : ∀ (l : List α), (l.flatMap f).Nodup →
    ∀ (i j : Nat) (x y : α), l[i]? = some x → l[j]? = some y → i ≠ j → ∀ b, b ∈ f x → b ∈ f y → False := by
  intro l
  induction l with
  | nil => intro _ i j x y hi; simp at hi
  | cons z zs ih =>
    intro nd i j x y hi hj hij b hbx hby
    rw [List.flatMap_cons, List.nodup_append] at nd
    obtain ⟨-, n2, n3⟩ := nd
    cases i with
    | zero =>
      cases j with
      | zero => exact hij rfl
      | succ j =>
        simp at hi hj
        subst hi
        exact n3 b hbx b (List.mem_flatMap.2 ⟨y, List.mem_of_getElem? hj, hby⟩) rfl
    | succ i =>
      cases j with
      | zero =>
        simp at hi hj
        subst hj
        exact n3 b hby b (List.mem_flatMap.2 ⟨x, List.mem_of_getElem? hi, hbx⟩) rfl
      | succ j =>
        simp at hi hj
        exact ih n2 i j x y hi hj (by omega) b hbx hby

theorem Sep.disjoint {h : Heap} (s : Sep h) {g g' a : Nat} (hne : g ≠ g')
    (h1 : a ∈ addrs (h.genoAt g)) (h2 : a ∈ addrs (h.genoAt g')) : False := by
  unfold Heap.genoAt at h1 h2
  cases hg : h.genos[g]? with
  | none => simp [hg, addrs] at h1
  | some d =>
    cases hg' : h.genos[g']? with
    | none => simp [hg', addrs] at h2
    | some d' =>
      simp [hg] at h1; simp [hg'] at h2
      exact flatMap_nodup_disjoint addrs h.genos s.1 g g' d d' hg hg' hne a h1 h2

theorem dictGet_mem {d : Dict} {k a : Nat} (h : dictGet d k = some a) : (k, a) ∈ d := by
  unfold dictGet at h
  cases hf : d.find? (fun e => e.1 == k) with
  | none => simp [hf] at h
  | some e =>
    simp [hf] at h
    have hm := List.mem_of_find?_eq_some hf
    have hk := List.find?_some hf
    simp at hk
    obtain ⟨e1, e2⟩ := e
    simp at h hk
    subst h; subst hk
    exact hm

theorem listAt_extendList (h : Heap) (a a' : Nat) (vs : List Int) :
    (h.extendList a vs).listAt a' = if a' = a ∧ a < h.lists.length then h.listAt a ++ vs else h.listAt a' := by
  simp only [Heap.extendList, Heap.listAt, List.getElem?_set]
  by_cases h1 : a = a'
  · subst h1
    by_cases h2 : a < h.lists.length <;> simp [h2]
  · have : ¬ a' = a := fun e => h1 e.symm
    simp [h1, this]

theorem genoAt_insertKey (h : Heap) (g g' k a : Nat) :
    (h.insertKey g k a).genoAt g' = if g' = g ∧ g < h.genos.length then h.genoAt g ++ [(k, a)] else h.genoAt g' := by
  simp only [Heap.insertKey, Heap.genoAt, List.getElem?_set]
  by_cases h1 : g = g'
  · subst h1
    by_cases h2 : g < h.genos.length <;> simp [h2]
  · have : ¬ g' = g := fun e => h1 e.symm
    simp [h1, this]

theorem mapKey_genos_length (h : Heap) (g : Nat) (e : Nat × List Int) : (mapKey h g e).genos.length = h.genos.length := by
  unfold mapKey
  split
  · simp [Heap.extendList]
  · simp [Heap.insertKey, Heap.allocList]

theorem mapKey_grows (h : Heap) (g : Nat) (e : Nat × List Int) : Grows h (mapKey h g e) := by
  unfold mapKey
  split
  · rename_i a _
    refine ⟨fun a' => ?_, fun g' => by simp [Heap.extendList, Heap.genoAt]⟩
    rw [listAt_extendList]
    split
    · rename_i hc; rw [hc.1]; exact List.prefix_append _ _
    · exact List.prefix_refl _
  · refine ⟨fun a' => ?_, fun g' => ?_⟩
    · have : (Heap.insertKey (h.allocList e.2).1 g e.1 (h.allocList e.2).2).listAt a' = (h.allocList e.2).1.listAt a' := by
        simp [Heap.insertKey, Heap.listAt]
      rw [this]
      by_cases ha : a' < h.lists.length
      · simp [Heap.allocList, Heap.listAt, List.getElem?_append_left ha]
      · rw [listAt_of_ge (Nat.le_of_not_lt ha)]; exact List.nil_prefix
    · rw [genoAt_insertKey]
      split
      · rename_i hc; rw [hc.1]
        have : (h.allocList e.2).1.genoAt g = h.genoAt g := by simp [Heap.allocList, Heap.genoAt]
        rw [this]; exact List.prefix_append _ _
      · simp [Heap.allocList, Heap.genoAt]

theorem flatMap_set_append_perm (e : Nat × Nat) : ∀ (l : List Dict) (g : Nat) (d : Dict), l[g]? = some d →
    ((l.set g (d ++ [e])).flatMap addrs).Perm (e.2 :: l.flatMap addrs) := by
  intro l
  induction l with
  | nil => intro g d hg; simp at hg
  | cons x xs ih =>
    intro g d hg
    cases g with
    | zero =>
      simp at hg; subst hg
      simp only [List.set_cons_zero, List.flatMap_cons, addrs, List.map_append, List.map_cons, List.map_nil, List.append_assoc, List.singleton_append]
      exact List.perm_middle
    | succ g =>
      simp at hg
      simp only [List.set_cons_succ, List.flatMap_cons]
      exact ((ih g d hg).append_left (addrs x)).trans List.perm_middle

theorem mapKey_sep {h : Heap} (s : Sep h) {g : Nat} (hg : g < h.genos.length) (e : Nat × List Int) : Sep (mapKey h g e) := by
  unfold mapKey
  split
  · exact ⟨by simpa [Sep, allAddrs, Heap.extendList] using s.1, by simpa [Sep, allAddrs, Heap.extendList] using s.2⟩
  · have hd : h.genos[g]? = some (h.genoAt g) := by
      simp [Heap.genoAt, List.getElem?_eq_getElem hg]
    have hp := flatMap_set_append_perm (e.1, h.lists.length) h.genos g (h.genoAt g) hd
    have hgen : (h.allocList e.2).1.genoAt g = h.genoAt g := by simp [Heap.allocList, Heap.genoAt]
    refine ⟨?_, ?_⟩
    · simp only [allAddrs, Heap.insertKey, hgen]
      simp only [Heap.allocList]
      rw [hp.nodup_iff, List.nodup_cons]
      refine ⟨fun hm => ?_, s.1⟩
      have := s.2 _ hm
      simp at this
    · intro a ha
      simp only [allAddrs, Heap.insertKey, hgen] at ha
      simp only [Heap.allocList] at ha
      rw [hp.mem_iff] at ha
      simp only [Heap.insertKey, Heap.allocList, List.length_append, List.length_cons, List.length_nil]
      rcases List.mem_cons.1 ha with rfl | ha
      · simp
      · have := s.2 a ha; omega

theorem mapKey_frame {h : Heap} (s : Sep h) {g g' : Nat} (hne : g' ≠ g) (e : Nat × List Int) :
    (mapKey h g e).view g' = h.view g' := by
  unfold mapKey
  split
  · rename_i a ha
    have hag : a ∈ addrs (h.genoAt g) := List.mem_map.2 ⟨_, dictGet_mem ha, rfl⟩
    unfold Heap.view
    have : (h.extendList a e.2).genoAt g' = h.genoAt g' := by simp [Heap.extendList, Heap.genoAt]
    rw [this]
    apply List.map_congr_left
    intro x hx
    rw [listAt_extendList]
    have hxa : x.2 ≠ a := by
      intro hxa
      exact s.disjoint hne (hxa ▸ List.mem_map.2 ⟨x, hx, rfl⟩) hag
    simp [hxa]
  · unfold Heap.view
    rw [genoAt_insertKey]
    have hgen : (h.allocList e.2).1.genoAt g' = h.genoAt g' := by simp [Heap.allocList, Heap.genoAt]
    simp only [hne, false_and, if_false, hgen]
    apply List.map_congr_left
    intro x hx
    have hv : x.2 < h.lists.length := s.2 _ (mem_allAddrs_of_genoAt (List.mem_map.2 ⟨x, hx, rfl⟩))
    simp [Heap.insertKey, Heap.allocList, Heap.listAt, List.getElem?_append_left hv]

/-! the whole mapping -/

theorem foldl_mapKey_length (g : Nat) (ext : List (Nat × List Int)) (h : Heap) :
    (ext.foldl (fun h e => mapKey h g e) h).genos.length = h.genos.length := by
  induction ext generalizing h with
  | nil => rfl
  | cons e rest ih => simp only [List.foldl_cons]; rw [ih, mapKey_genos_length]

theorem dsgeMap_grows (h : Heap) (g : Nat) (ext : List (Nat × List Int)) : Grows h (dsgeMap h g ext) := by
  unfold dsgeMap
  split
  · rename_i hg; clear hg
    induction ext generalizing h with
    | nil => exact Grows.refl h
    | cons e rest ih => simp only [List.foldl_cons]; exact (mapKey_grows h g e).trans (ih _)
  · exact Grows.refl h

theorem dsgeMap_sep {h : Heap} (s : Sep h) (g : Nat) (ext : List (Nat × List Int)) : Sep (dsgeMap h g ext) := by
  unfold dsgeMap
  split
  · rename_i hg
    induction ext generalizing h with
    | nil => exact s
    | cons e rest ih =>
      simp only [List.foldl_cons]
      exact ih (mapKey_sep s hg e) (by rw [mapKey_genos_length]; exact hg)
  · exact s

theorem dsgeMap_frame {h : Heap} (s : Sep h) {g g' : Nat} (hne : g' ≠ g) (ext : List (Nat × List Int)) :
    (dsgeMap h g ext).view g' = h.view g' := by
  unfold dsgeMap
  split
  · rename_i hg
    induction ext generalizing h with
    | nil => rfl
    | cons e rest ih =>
      simp only [List.foldl_cons]
      rw [ih (mapKey_sep s hg e) (by rw [mapKey_genos_length]; exact hg), mapKey_frame s hne]
  · rfl

theorem dsgeMap_genos_length (h : Heap) (g : Nat) (ext : List (Nat × List Int)) : (dsgeMap h g ext).genos.length = h.genos.length := by
  unfold dsgeMap
  split
  · exact foldl_mapKey_length g ext h
  · rfl

theorem step_fresh_or_map (h : Heap) (op : Op) : FreshExt h (step h op) ∨ ∃ g ext, op = .dsgeMap g ext := by
  cases op with
  | flatCreate genes => exact Or.inl (flatCreate_fresh h genes)
  | structCreate c => exact Or.inl (structCreate_fresh h c)
  | flatMutate g r v => exact Or.inl (flatMutate_fresh h g r v)
  | flatCrossover g1 g2 c => exact Or.inl (flatCrossover_fresh h g1 g2 c)
  | structMutate g c => exact Or.inl (structMutate_fresh h g c)
  | structCrossover g1 g2 m => exact Or.inl (structCrossover_fresh h g1 g2 m)
  | dsgeMap g ext => exact Or.inr ⟨g, ext, rfl⟩

theorem step_grows (h : Heap) (op : Op) : Grows h (step h op) := by
  rcases step_fresh_or_map h op with e | ⟨g, ext, rfl⟩
  · exact e.grows
  · exact dsgeMap_grows h g ext

theorem step_sep {h : Heap} (s : Sep h) (op : Op) : Sep (step h op) := by
  rcases step_fresh_or_map h op with e | ⟨g, ext, rfl⟩
  · exact e.sep s
  · exact dsgeMap_sep s g ext

theorem step_genos_length (h : Heap) (op : Op) : h.genos.length ≤ (step h op).genos.length := by
  rcases step_fresh_or_map h op with e | ⟨g, ext, rfl⟩
  · obtain ⟨ls, gs, -, h2, -, -⟩ := e
    rw [h2]; simp
  · simp [step, dsgeMap_genos_length]

theorem step_frame {h : Heap} (s : Sep h) {g : Nat} (hg : g < h.genos.length) (op : Op) (hno : op.target ≠ some g) :
    (step h op).view g = h.view g := by
  rcases step_fresh_or_map h op with e | ⟨g', ext, rfl⟩
  · exact e.view_eq s hg
  · have : g ≠ g' := fun e => hno (by simp [Op.target, e])
    exact dsgeMap_frame s this ext

theorem run_grows (h : Heap) (ops : List Op) : Grows h (run h ops) := by
  induction ops generalizing h with
  | nil => exact Grows.refl h
  | cons op rest ih => exact (step_grows h op).trans (ih _)

theorem run_sep {h : Heap} (s : Sep h) (ops : List Op) : Sep (run h ops) := by
  induction ops generalizing h with
  | nil => exact s
  | cons op rest ih => exact ih (step_sep s op)

theorem run_frame {h : Heap} (s : Sep h) (ops : List Op) {g : Nat} (hg : g < h.genos.length)
    (hno : ∀ op ∈ ops, op.target ≠ some g) : (run h ops).view g = h.view g := by
  induction ops generalizing h with
  | nil => rfl
  | cons op rest ih =>
    simp only [run, List.foldl_cons]
    have h1 := ih (step_sep s op) (Nat.lt_of_lt_of_le hg (step_genos_length h op)) (fun o ho => hno o (List.mem_cons_of_mem _ ho))
    simp only [run] at h1
    rw [h1, step_frame s hg op (hno op List.mem_cons_self)]

theorem sep_empty : Sep empty := ⟨by simp [allAddrs, empty], by simp [allAddrs, empty]⟩

/-- growth seen through the view: every key keeps its position, every gene list is a prefix of what it becomes -/
theorem Grows.view {h h' : Heap} (gr : Grows h h') (g i : Nat) (k : Nat) (l : List Int)
    (hv : (h.view g)[i]? = some (k, l)) : ∃ l', (h'.view g)[i]? = some (k, l') ∧ l <+: l' := by
  unfold Heap.view at *
  rw [List.getElem?_map] at hv
  cases hd : (h.genoAt g)[i]? with
  | none => simp [hd] at hv
  | some e =>
    simp [hd] at hv
    obtain ⟨t, ht⟩ := gr.2 g
    have : (h'.genoAt g)[i]? = some e := by
      rw [← ht, List.getElem?_append_left (List.getElem?_eq_some_iff.1 hd).1]; exact hd
    refine ⟨h'.listAt e.2, by rw [List.getElem?_map, this]; simp [hv.1], ?_⟩
    rw [← hv.2]; exact gr.1 e.2



/-! ### refinement: what the object-level operators compute, seen through `view` -/

/-- every address of the dictionary is allocated -/
def ValidDict (h : Heap) (d : Dict) : Prop := ∀ e ∈ d, e.2 < h.lists.length

def viewOf (h : Heap) (d : Dict) : List (Nat × List Int) := d.map fun e => (e.1, h.listAt e.2)

theorem view_eq_viewOf (h : Heap) (g : Nat) : h.view g = viewOf h (h.genoAt g) := rfl

theorem listAt_alloc_old (h : Heap) (v : List Int) {a : Nat} (ha : a < h.lists.length) :
    (h.allocList v).1.listAt a = h.listAt a := by
  simp [Heap.allocList, Heap.listAt, List.getElem?_append_left ha]

theorem listAt_alloc_new (h : Heap) (v : List Int) : (h.allocList v).1.listAt h.lists.length = v := by
  simp [Heap.allocList, Heap.listAt]

theorem viewOf_congr {h h' : Heap} {d : Dict} (hv : ValidDict h d) (hf : ∀ a, a < h.lists.length → h'.listAt a = h.listAt a) :
    viewOf h' d = viewOf h d := by
  unfold viewOf
  apply List.map_congr_left
  intro e he
  rw [hf _ (hv e he)]

/-- copying keeps every old cell and gives the copy the contents of the original -/
theorem copyDict_spec (h : Heap) (d : Dict) (hv : ValidDict h d) :
    (∀ a, a < h.lists.length → (copyDict h d).1.listAt a = h.listAt a) ∧
    h.lists.length ≤ (copyDict h d).1.lists.length ∧
    viewOf (copyDict h d).1 (copyDict h d).2 = viewOf h d := by
  induction d generalizing h with
  | nil => simp [copyDict, viewOf]
  | cons e rest ih =>
    obtain ⟨k, a⟩ := e
    have ha : a < h.lists.length := hv (k, a) List.mem_cons_self
    have hv1 : ValidDict (h.allocList (h.listAt a)).1 rest := by
      intro e he
      have := hv e (List.mem_cons_of_mem _ he)
      simp [Heap.allocList]; omega
    obtain ⟨f1, l1, v1⟩ := ih (h.allocList (h.listAt a)).1 hv1
    simp only [copyDict]
    refine ⟨fun x hx => ?_, ?_, ?_⟩
    · rw [f1 x (by simp [Heap.allocList]; omega), listAt_alloc_old h _ hx]
    · have : h.lists.length ≤ (h.allocList (h.listAt a)).1.lists.length := by simp [Heap.allocList]
      omega
    · simp only [viewOf, List.map_cons]
      congr 1
      · have := f1 h.lists.length (by simp [Heap.allocList])
        simp only [Heap.allocList] at this ⊢
        rw [this]
        simp [Heap.listAt]
      · have e1 : viewOf (copyDict (h.allocList (h.listAt a)).1 rest).1 (copyDict (h.allocList (h.listAt a)).1 rest).2 =
            viewOf (h.allocList (h.listAt a)).1 rest := v1
        have e2 : viewOf (h.allocList (h.listAt a)).1 rest = viewOf h rest :=
          viewOf_congr (fun e he => hv e (List.mem_cons_of_mem _ he)) (fun x hx => listAt_alloc_old h _ hx)
        exact e1.trans e2


theorem listAt_setItem (h : Heap) (a i : Nat) (v : Int) (a' : Nat) :
    (h.setItem a i v).listAt a' = if a' = a ∧ a < h.lists.length then (h.listAt a).set i v else h.listAt a' := by
  simp only [Heap.setItem, Heap.listAt, List.getElem?_set]
  by_cases h1 : a = a'
  · subst h1
    by_cases h2 : a < h.lists.length <;> simp [h2]
  · have : ¬ a' = a := fun e => h1 e.symm
    simp [h1, this]

theorem nodup_addrs_index {d : Dict} (nd : (addrs d).Nodup) {i j : Nat} {e1 e2 : Nat × Nat}
    (h1 : d[i]? = some e1) (h2 : d[j]? = some e2) (he : e1.2 = e2.2) : i = j := by
  have hi := (List.getElem?_eq_some_iff.1 h1)
  have hj := (List.getElem?_eq_some_iff.1 h2)
  obtain ⟨hil, hie⟩ := hi
  obtain ⟨hjl, hje⟩ := hj
  have a1 : (addrs d)[i]'(by simpa [addrs] using hil) = e1.2 := by simp [addrs, hie]
  have a2 : (addrs d)[j]'(by simpa [addrs] using hjl) = e2.2 := by simp [addrs, hje]
  exact (List.getElem_inj nd).1 (by rw [a1, a2, he])

theorem viewOf_setItem (h : Heap) (d : Dict) (nd : (addrs d).Nodup) (hv : ValidDict h d) (k r : Nat) (v : Int) (e : Nat × Nat)
    (hk : d[k]? = some e) :
    viewOf (h.setItem e.2 r v) d = (viewOf h d).modify k (fun x => (x.1, x.2.set r v)) := by
  apply List.ext_getElem?
  intro i
  rw [List.getElem?_modify]
  simp only [viewOf, List.getElem?_map]
  cases hi : d[i]? with
  | none => simp
  | some x =>
    simp only [Option.map_some]
    rw [listAt_setItem]
    have hval : e.2 < h.lists.length := hv e (List.mem_of_getElem? hk)
    by_cases hik : k = i
    · subst hik
      rw [hk] at hi
      cases hi
      simp [hval]
    · have : x.2 ≠ e.2 := fun hx => hik (nodup_addrs_index nd hk hi hx.symm)
      simp [hik, this]


theorem view_allocGeno_new (h : Heap) (d : Dict) : (h.allocGeno d).view h.genos.length = viewOf h d := by
  simp [Heap.view, Heap.allocGeno, Heap.genoAt, viewOf, Heap.listAt]

theorem view_allocGeno_old (h : Heap) (d : Dict) {g : Nat} (hg : g < h.genos.length) : (h.allocGeno d).view g = h.view g := by
  simp [Heap.view, Heap.allocGeno, Heap.genoAt, Heap.listAt, List.getElem?_append_left hg]

theorem copyDict_genos (h : Heap) (d : Dict) : (copyDict h d).1.genos = h.genos := by
  obtain ⟨_, _, h2, _, _⟩ := copyDict_built h d
  exact h2

theorem copyDict_valid (h : Heap) (d : Dict) : ValidDict (copyDict h d).1 (copyDict h d).2 ∧ (addrs (copyDict h d).2).Nodup := by
  obtain ⟨ls, h1, _, nd, rg⟩ := copyDict_built h d
  simp only [List.flatMap_cons, List.flatMap_nil, List.append_nil] at nd rg
  refine ⟨fun e he => ?_, nd⟩
  have := (rg e.2 (List.mem_map.2 ⟨e, he, rfl⟩)).2
  rw [h1]; simp; omega

theorem modify_of_getElem?_none {α : Type} (l : List α) (k : Nat) (f : α → α) (hk : l[k]? = none) : l.modify k f = l := by
  apply List.ext_getElem?
  intro i
  rw [List.getElem?_modify]
  by_cases hik : k = i
  · subst hik; simp [hk]
  · simp [hik]

/-- SGE / dynamic-SGE `mutate` at the object level computes the genes of the value-level operator: the new genotype object reads
like its parent with gene `r` of list number `k` replaced (or exactly like its parent when no gene was chosen) -/
theorem structMutate_view (h : Heap) (g : Nat) (hv : ValidDict h (h.genoAt g)) (choice : Option (Nat × Nat × Int)) :
    (structMutate h g choice).view h.genos.length =
      match choice with
      | none => h.view g
      | some (k, r, v) => (h.view g).modify k (fun x => (x.1, x.2.set r v)) := by
  obtain ⟨_, _, vw⟩ := copyDict_spec h (h.genoAt g) hv
  obtain ⟨cv, cn⟩ := copyDict_valid h (h.genoAt g)
  have hg := copyDict_genos h (h.genoAt g)
  unfold structMutate
  cases choice with
  | none =>
    simp only
    rw [← hg, view_allocGeno_new, vw]; rfl
  | some c =>
    obtain ⟨k, r, v⟩ := c
    simp only
    cases hd : (copyDict h (h.genoAt g)).2[k]? with
    | none =>
      simp only
      rw [← hg, view_allocGeno_new, vw]
      have : (viewOf h (h.genoAt g))[k]? = none := by
        rw [← vw]; simp [viewOf, hd]
      rw [view_eq_viewOf, modify_of_getElem?_none _ _ _ this]
    | some e =>
      simp only
      have hg2 : ((copyDict h (h.genoAt g)).1.setItem e.2 r v).genos = h.genos := by simp [Heap.setItem, hg]
      rw [← hg2, view_allocGeno_new, viewOf_setItem _ _ cn cv k r v e hd, vw]; rfl


/-- the genes genotype dictionary `d` holds for key `k` (`dna.get(k, [])`) -/
def rd (h : Heap) (d : Dict) (k : Nat) : List Int := ((dictGet d k).map h.listAt).getD []

theorem rd_frame {h0 h : Heap} {d : Dict} (hv : ValidDict h0 d) (hf : ∀ a, a < h0.lists.length → h.listAt a = h0.listAt a) (k : Nat) :
    rd h d k = rd h0 d k := by
  unfold rd
  cases hk : dictGet d k with
  | none => rfl
  | some a =>
    simp only [Option.map_some, Option.getD_some]
    exact hf a (hv (k, a) (dictGet_mem hk))

theorem crossKeys_spec (h0 : Heap) (d1 d2 : Dict) (hv1 : ValidDict h0 d1) (hv2 : ValidDict h0 d2) (km : List (Nat × Bool)) :
    ∀ (h : Heap), (∀ a, a < h0.lists.length → h.listAt a = h0.listAt a) → h0.lists.length ≤ h.lists.length →
    (∀ a, a < h.lists.length → (crossKeys h d1 d2 km).1.listAt a = h.listAt a) ∧ h.lists.length ≤ (crossKeys h d1 d2 km).1.lists.length ∧
    viewOf (crossKeys h d1 d2 km).1 (crossKeys h d1 d2 km).2.1 = km.map (fun e => (e.1, if e.2 then rd h0 d1 e.1 else rd h0 d2 e.1)) ∧
    viewOf (crossKeys h d1 d2 km).1 (crossKeys h d1 d2 km).2.2 = km.map (fun e => (e.1, if e.2 then rd h0 d2 e.1 else rd h0 d1 e.1)) := by
  induction km with
  | nil => intro h _ _; simp [crossKeys, viewOf]
  | cons e rest ih =>
    intro h hf hle
    obtain ⟨k, b⟩ := e
    have r1 : rd h d1 k = rd h0 d1 k := rd_frame hv1 hf k
    have r2 : rd h d2 k = rd h0 d2 k := rd_frame hv2 hf k
    simp only [crossKeys, crossKey]
    -- the heap after the two allocations of this key
    generalize hl1 : (if b = true then (Option.map h.listAt (dictGet d1 k)).getD [] else (Option.map h.listAt (dictGet d2 k)).getD []) = v1
    generalize hl2 : (if b = true then (Option.map h.listAt (dictGet d2 k)).getD [] else (Option.map h.listAt (dictGet d1 k)).getD []) = v2
    have e1 : v1 = if b then rd h0 d1 k else rd h0 d2 k := by rw [← hl1, ← r1, ← r2]; rfl
    have e2 : v2 = if b then rd h0 d2 k else rd h0 d1 k := by rw [← hl2, ← r1, ← r2]; rfl
    have fB : ∀ a, a < h.lists.length → ((h.allocList v1).1.allocList v2).1.listAt a = h.listAt a := by
      intro a ha
      have : a < (h.allocList v1).1.lists.length := by simp [Heap.allocList]; omega
      rw [listAt_alloc_old (h.allocList v1).1 v2 this, listAt_alloc_old h v1 ha]
    have lenB : ((h.allocList v1).1.allocList v2).1.lists.length = h.lists.length + 2 := by simp [Heap.allocList]
    obtain ⟨f, l, w1, w2⟩ := ih ((h.allocList v1).1.allocList v2).1 (fun a ha => by rw [fB a (by omega), hf a ha]) (by omega)
    have a1v : ((h.allocList v1).1.allocList v2).1.listAt h.lists.length = v1 := by
      have : h.lists.length < (h.allocList v1).1.lists.length := by simp [Heap.allocList]
      rw [listAt_alloc_old (h.allocList v1).1 v2 this]; exact listAt_alloc_new h v1
    have a2v : ((h.allocList v1).1.allocList v2).1.listAt (h.lists.length + 1) = v2 := by
      have : (h.allocList v1).1.lists.length = h.lists.length + 1 := by simp [Heap.allocList]
      rw [← this]; exact listAt_alloc_new (h.allocList v1).1 v2
    have s1 : (h.allocList v1).2 = h.lists.length := rfl
    have s2 : ((h.allocList v1).1.allocList v2).2 = h.lists.length + 1 := by simp [Heap.allocList]
    refine ⟨fun a ha => ?_, by omega, ?_, ?_⟩
    · rw [f a (by omega), fB a ha]
    · simp only [viewOf, List.map_cons]
      rw [s1, f _ (by omega), a1v]
      refine congr (congrArg List.cons ?_) w1
      rw [e1]
    · simp only [viewOf, List.map_cons]
      rw [s2, f _ (by omega), a2v]
      refine congr (congrArg List.cons ?_) w2
      rw [e2]

theorem crossKeys_genos (h : Heap) (d1 d2 : Dict) (km : List (Nat × Bool)) : (crossKeys h d1 d2 km).1.genos = h.genos := by
  obtain ⟨_, _, h2, _, _⟩ := crossKeys_built h d1 d2 km
  exact h2

/-- SGE / dynamic-SGE `crossover` at the object level computes the genes of the value-level operator: over the keys of parent 1, one
mask bit per key, child 1 reads parent 1's genes where the bit is set and parent 2's (`[]` for a key parent 2 lacks) where it is not;
child 2 the other way round -/
theorem structCrossover_view (h : Heap) (g1 g2 : Nat) (hv1 : ValidDict h (h.genoAt g1)) (hv2 : ValidDict h (h.genoAt g2)) (mask : List Bool) :
    let km := ((h.genoAt g1).map (·.1)).zip mask
    (structCrossover h g1 g2 mask).view h.genos.length = km.map (fun e => (e.1, if e.2 then rd h (h.genoAt g1) e.1 else rd h (h.genoAt g2) e.1)) ∧
    (structCrossover h g1 g2 mask).view (h.genos.length + 1) = km.map (fun e => (e.1, if e.2 then rd h (h.genoAt g2) e.1 else rd h (h.genoAt g1) e.1)) := by
  intro km
  obtain ⟨_, _, w1, w2⟩ := crossKeys_spec h (h.genoAt g1) (h.genoAt g2) hv1 hv2 km h (fun _ _ => rfl) (Nat.le_refl _)
  have hg := crossKeys_genos h (h.genoAt g1) (h.genoAt g2) km
  unfold structCrossover
  simp only
  have n1 : ((crossKeys h (h.genoAt g1) (h.genoAt g2) km).1.allocGeno (crossKeys h (h.genoAt g1) (h.genoAt g2) km).2.1).genos.length = h.genos.length + 1 := by
    simp [Heap.allocGeno, hg]
  constructor
  · rw [view_allocGeno_old _ _ (by rw [n1]; omega), ← hg, view_allocGeno_new, w1]
  · rw [← n1, view_allocGeno_new]
    have : viewOf ((crossKeys h (h.genoAt g1) (h.genoAt g2) km).1.allocGeno (crossKeys h (h.genoAt g1) (h.genoAt g2) km).2.1)
        (crossKeys h (h.genoAt g1) (h.genoAt g2) km).2.2 = viewOf (crossKeys h (h.genoAt g1) (h.genoAt g2) km).1 (crossKeys h (h.genoAt g1) (h.genoAt g2) km).2.2 := rfl
    rw [this, w2]


/-! the dynamic-SGE mapping, seen through the view -/

/-- value level: genes appended to the first entry with that key; a key that is not there yet is added at the end -/
def viewExtend : List (Nat × List Int) → Nat × List Int → List (Nat × List Int)
  | [], e => [e]
  | x :: xs, e => if x.1 == e.1 then (x.1, x.2 ++ e.2) :: xs else x :: viewExtend xs e

theorem dictGet_cons (x : Nat × Nat) (xs : Dict) (k : Nat) :
    dictGet (x :: xs) k = if x.1 == k then some x.2 else dictGet xs k := by
  unfold dictGet
  rw [List.find?_cons]
  by_cases hx : (x.1 == k) = true <;> simp [hx]

theorem viewOf_extendList_found (h : Heap) (vs : List Int) : ∀ (d : Dict) (k a : Nat), dictGet d k = some a → (addrs d).Nodup →
    a < h.lists.length → viewOf (h.extendList a vs) d = viewExtend (viewOf h d) (k, vs) := by
  intro d
  induction d with
  | nil => intro k a hk; simp [dictGet] at hk
  | cons x xs ih =>
    intro k a hk nd ha
    rw [dictGet_cons] at hk
    simp only [addrs, List.map_cons, List.nodup_cons] at nd
    by_cases hx : (x.1 == k) = true
    · simp only [hx, if_true, Option.some.injEq] at hk
      subst hk
      simp only [viewOf, List.map_cons, viewExtend, hx, if_true]
      congr 1
      · rw [listAt_extendList]; simp [ha]
      · apply List.map_congr_left
        intro e he
        rw [listAt_extendList]
        have : e.2 ≠ x.2 := fun hh => nd.1 (hh ▸ List.mem_map.2 ⟨e, he, rfl⟩)
        simp [this]
    · simp only [hx] at hk
      have hk' : dictGet xs k = some a := by simpa using hk
      have hne : x.2 ≠ a := fun hh => nd.1 (hh ▸ List.mem_map.2 ⟨(k, a), dictGet_mem hk', rfl⟩)
      have := ih k a hk' nd.2 ha
      simp only [viewOf, List.map_cons, viewExtend, hx] at this ⊢
      rw [listAt_extendList]
      simp only [hne, false_and, if_false]
      simpa using this

theorem viewExtend_not_found : ∀ (v : List (Nat × List Int)) (e : Nat × List Int), (∀ x ∈ v, (x.1 == e.1) = false) →
    viewExtend v e = v ++ [e] := by
  intro v
  induction v with
  | nil => intro e _; rfl
  | cons x xs ih =>
    intro e hn
    have hx := hn x List.mem_cons_self
    simp only [viewExtend, hx]
    rw [ih e (fun y hy => hn y (List.mem_cons_of_mem _ hy))]
    simp

theorem dictGet_none_keys {d : Dict} {k : Nat} (hk : dictGet d k = none) : ∀ x ∈ d, (x.1 == k) = false := by
  unfold dictGet at hk
  simp only [Option.map_eq_none_iff, List.find?_eq_none] at hk
  intro x hx
  simpa using hk x hx

theorem nodup_of_flatMap {α β : Type} (f : α → List β) : ∀ (l : List α), (l.flatMap f).Nodup → ∀ x ∈ l, (f x).Nodup := by
  intro l
  induction l with
  | nil => intro _ x hx; cases hx
  | cons y ys ih =>
    intro nd x hx
    rw [List.flatMap_cons, List.nodup_append] at nd
    rcases List.mem_cons.1 hx with rfl | hx
    · exact nd.1
    · exact ih nd.2.1 x hx

theorem Sep.nodup_genoAt {h : Heap} (s : Sep h) (g : Nat) : (addrs (h.genoAt g)).Nodup := by
  unfold Heap.genoAt
  cases hg : h.genos[g]? with
  | none => simp [addrs]
  | some d => simpa using nodup_of_flatMap addrs h.genos s.1 d (List.mem_of_getElem? hg)

theorem Sep.valid_genoAt {h : Heap} (s : Sep h) (g : Nat) : ValidDict h (h.genoAt g) :=
  fun e he => s.2 _ (mem_allAddrs_of_genoAt (List.mem_map.2 ⟨e, he, rfl⟩))

theorem mapKey_view {h : Heap} (s : Sep h) {g : Nat} (hg : g < h.genos.length) (e : Nat × List Int) :
    (mapKey h g e).view g = viewExtend (h.view g) e := by
  unfold mapKey
  split
  · rename_i a ha
    have hval : a < h.lists.length := s.valid_genoAt g (e.1, a) (dictGet_mem ha)
    have : (h.extendList a e.2).genoAt g = h.genoAt g := by simp [Heap.extendList, Heap.genoAt]
    rw [view_eq_viewOf, this, viewOf_extendList_found h e.2 (h.genoAt g) e.1 a ha (s.nodup_genoAt g) hval]
    rfl
  · rename_i hn
    rw [view_eq_viewOf, genoAt_insertKey]
    have hlen : g < (h.allocList e.2).1.genos.length := by simpa [Heap.allocList] using hg
    have hgen : (h.allocList e.2).1.genoAt g = h.genoAt g := by simp [Heap.allocList, Heap.genoAt]
    simp only [hlen, and_self, if_true, hgen]
    have hnone : dictGet (h.genoAt g) e.1 = none := hn
    rw [view_eq_viewOf, viewExtend_not_found (viewOf h (h.genoAt g)) e]
    · simp only [viewOf, List.map_append, List.map_cons, List.map_nil]
      congr 1
      · apply List.map_congr_left
        intro x hx
        have hv : x.2 < h.lists.length := s.valid_genoAt g x hx
        simp [Heap.insertKey, Heap.allocList, Heap.listAt, List.getElem?_append_left hv]
      · simp [Heap.insertKey, Heap.allocList, Heap.listAt]
    · intro x hx
      obtain ⟨y, hy, rfl⟩ := List.mem_map.1 hx
      exact dictGet_none_keys hnone y hy

/-- dynamic-SGE mapping at the object level computes the value-level extension: the genotype that is mapped reads like before with the
appended genes added to the lists of their keys and new keys added at the end, in the order the mapping met them -/
theorem dsgeMap_view {h : Heap} (s : Sep h) {g : Nat} (hg : g < h.genos.length) (ext : List (Nat × List Int)) :
    (dsgeMap h g ext).view g = ext.foldl viewExtend (h.view g) := by
  unfold dsgeMap
  rw [if_pos hg]
  induction ext generalizing h with
  | nil => rfl
  | cons e rest ih =>
    simp only [List.foldl_cons]
    rw [ih (mapKey_sep s hg e) (by rw [mapKey_genos_length]; exact hg), mapKey_view s hg]


end GEVerif.Heap
