/-
  The depth-bounded language of a finite-choice grammar (C04): an enumerator of every
  well-typed, refinement-satisfying value of a type whose depth is at most a bound.  Synthesis
  metadata is erased (depth / expansions stored as 0).

  Finite-choice types: bool, refined ints (`intRange`, `intList`), refined strings (`varRange`,
  `strSize`), `interval`, bounded lists (`listSize`), tuples, unions, classes, and the plain `str`
  (always ""); NOT plain `int`, `float`, un-annotated lists (0..10 elements: finite but not
  enumerable in practice) and dependent refinements — for those the enumerator returns [].
-/
import GEVerif.Model.Grammar
import GEVerif.Model.Tree

namespace GEVerif

def dedupVals : List Val → List Val
  | [] => []
  | v :: vs => if vs.any (· == v) then dedupVals vs else v :: dedupVals vs

/-- all lists `[x₁,…,xₖ]` with `xᵢ ∈ cands i` (cartesian product, in order) -/
def cartesian : List (List Val) → List (List Val)
  | [] => [[]]
  | c :: cs => c.flatMap fun x => (cartesian cs).map fun rest => x :: rest

/-- all lists of exactly `k` elements drawn from `xs` -/
def listsOfLen (xs : List Val) : Nat → List (List Val)
  | 0 => [[]]
  | k + 1 => xs.flatMap fun x => (listsOfLen xs k).map fun rest => x :: rest

def intsFromTo (lo : Int) : Nat → List Int
  | 0 => []
  | n + 1 => lo :: intsFromTo (lo + 1) n

def stringsOfLen (al : List String) : Nat → List String
  | 0 => [""]
  | k + 1 => al.flatMap fun c => (stringsOfLen al k).map fun rest => c ++ rest

def rangeFromTo (lo hi : Nat) : List Nat := (List.range (hi + 1 - lo)).map (· + lo)

mutual
/-- `langTy g fuel budget ty`: the values of type `ty` with depth ≤ `budget`. -/
def langTy (g : Grammar) : Nat → Nat → Ty → List Val
  | 0, _, _ => []
  | fuel + 1, budget, ty =>
    match ty with
    | .bool => [.bool true, .bool false]
    | .str => [.str ""]
    | .int => []
    | .float => []
    | .list _ => []
    | .tuple ts => (cartesian (langTys g fuel budget ts)).map Val.tuple
    | .union ts => dedupVals (langTys g fuel budget ts).flatten
    | .ann base mh =>
      match mh, base with
      | .intRange lo hi, .int => (intsFromTo lo (hi - lo + 1).toNat).map Val.int
      | .intList xs, .int => dedupVals (xs.map Val.int)
      | .varRange opts, .str => dedupVals (opts.map Val.str)
      | .strSize lo hi al, .str =>
          dedupVals (((rangeFromTo lo hi).flatMap fun k => stringsOfLen al k).map Val.str)
      | .interval mn mx top, .tuple [.int, .int] =>
          (intsFromTo mn (mx - mn + 1).toNat).flatMap fun len =>
            (intsFromTo 0 (top - len + 1).toNat).map fun start => .tuple [.int start, .int (start + len)]
      | .listSize lo hi, .list t =>
          let elems := langTy g fuel budget t
          (rangeFromTo lo hi).flatMap fun k => (listsOfLen elems k).map fun vs => Val.list 0 0 vs
      | _, _ => []
    | .cls n =>
      if !(g.reg.allNodes.contains (.cls n)) then [] else
      match g.altsOf n with
      | some prods => dedupVals (langTys g fuel budget (prods.map Ty.cls)).flatten
      | none =>
        match budget with
        | 0 => []
        | b + 1 =>
          (cartesian (langTys g fuel b ((g.cls n).fields.map (·.2)))).map fun args => Val.node n 0 0 args
def langTys (g : Grammar) : Nat → Nat → List Ty → List (List Val)
  | 0, _, [] => []
  -- out of fuel with components still to enumerate: one EMPTY candidate list, which makes the
  -- cartesian product (and the union) contribute nothing instead of ill-typed short tuples
  | 0, _, _ :: _ => [[]]
  | _ + 1, _, [] => []
  | fuel + 1, budget, t :: ts => langTy g fuel budget t :: langTys g fuel budget ts
end

/-- the bounded language of the start symbol -/
def boundedLanguage (g : Grammar) (d : Nat) : List Val :=
  langTy g (4 * (d + 2) * (g.spec.classes.length + 4) * (specSize g.spec + 2) + 64) d (.cls g.spec.start)

mutual
/-- is the type finite-choice (so that `langTy` is meaningful for it)? -/
def finiteChoiceTy : Ty → Bool
  | .bool => true
  | .str => true
  | .cls _ => true
  | .tuple ts => finiteChoiceTys ts
  | .union ts => finiteChoiceTys ts
  | .ann .int (.intRange ..) => true
  | .ann .int (.intList ..) => true
  | .ann .str (.varRange ..) => true
  | .ann .str (.strSize ..) => true
  | .ann (.tuple [.int, .int]) (.interval ..) => true
  | .ann (.list t) (.listSize ..) => finiteChoiceTy t
  | _ => false
def finiteChoiceTys : List Ty → Bool
  | [] => true
  | t :: ts => finiteChoiceTy t && finiteChoiceTys ts
end

def finiteChoice (g : Grammar) : Bool :=
  g.spec.classes.all fun c => c.fields.all fun f => finiteChoiceTy f.2

end GEVerif
