/-
  A heap model of what the genotype operators of the four linear / structured representations do to
  Python OBJECTS (C09): gene lists are mutable cells with an address, a genotype object holds a mutable
  dictionary from keys to gene-list addresses.  The value-level operators of `Model/Linear.lean` say which
  genes an offspring has; this file says which OBJECTS hold them, what is copied, what is written in place
  and what stays shared:

  * GE / stack (`flat`): `clone = [i for i in dna]; clone[r] = v` -- one fresh list; crossover builds two
    fresh lists by slicing and concatenation;
  * SGE: `deepcopy(genotype.dna)` -- every gene list copied; crossover deep-copies list by list;
  * dynamic SGE: `{k: list(v) for k, v in dna.items()}` -- every list copied, keys kept; crossover
    deep-copies list by list over parent 1's keys (`get(k, [])`: a key parent 2 lacks gives a fresh `[]`);
  * dynamic SGE mapping is the one operation that writes IN PLACE: it appends genes to the lists of the
    genotype being mapped and inserts new keys into its dictionary (the side effect the property permits).

  Decisions (indices, new gene values, masks, the genes a mapping appends) are parameters: the harness reads
  them off the real run (recording random source / before-after difference of the mapped genotype), the
  model then predicts the whole object graph, which the harness compares with the real one (addresses
  renamed by first occurrence).  Import-free.
-/
namespace GEVerif.Heap

/-- a dictionary in insertion order: key ↦ address of a gene list -/
abbrev Dict := List (Nat × Nat)

structure Heap where
  lists : List (List Int)
  genos : List Dict
  deriving Repr, BEq, Inhabited

def empty : Heap := ⟨[], []⟩

def Heap.listAt (h : Heap) (a : Nat) : List Int := (h.lists[a]?).getD []
def Heap.genoAt (h : Heap) (g : Nat) : Dict := (h.genos[g]?).getD []

def Heap.allocList (h : Heap) (v : List Int) : Heap × Nat :=
  ({ h with lists := h.lists ++ [v] }, h.lists.length)

def Heap.allocGeno (h : Heap) (d : Dict) : Heap :=
  { h with genos := h.genos ++ [d] }

/-- `lst[i] = v` on the list object at `a` (Python raises IndexError out of range: the harness never asks for it) -/
def Heap.setItem (h : Heap) (a i : Nat) (v : Int) : Heap :=
  { h with lists := h.lists.set a ((h.listAt a).set i v) }

/-- `lst.extend(vs)` / repeated `append` on the list object at `a` -/
def Heap.extendList (h : Heap) (a : Nat) (vs : List Int) : Heap :=
  { h with lists := h.lists.set a (h.listAt a ++ vs) }

/-- `d[k] = a` for a key that is not yet in the dictionary of genotype `g` -/
def Heap.insertKey (h : Heap) (g k a : Nat) : Heap :=
  { h with genos := h.genos.set g (h.genoAt g ++ [(k, a)]) }

def dictGet (d : Dict) (k : Nat) : Option Nat := (d.find? (fun e => e.1 == k)).map (·.2)

/-- what a genotype IS, addresses forgotten: key ↦ genes -/
def Heap.view (h : Heap) (g : Nat) : List (Nat × List Int) := (h.genoAt g).map fun e => (e.1, h.listAt e.2)

/-! ### copying -/

/-- copy every gene list of a dictionary into a fresh cell, keys kept (`{k: list(v) ...}`, `deepcopy` of a
dictionary of separate lists) -/
def copyDict (h : Heap) : Dict → Heap × Dict
  | [] => (h, [])
  | (k, a) :: rest =>
    let (h1, a') := h.allocList (h.listAt a)
    let (h2, rest') := copyDict h1 rest
    (h2, (k, a') :: rest')

/-! ### the operators -/

/-- GE / stack `create_genotype`: one list of genes -/
def flatCreate (h : Heap) (genes : List Int) : Heap :=
  let (h1, a) := h.allocList genes
  h1.allocGeno [(0, a)]

/-- SGE `create_genotype` (one list per key) / a dynamic-SGE genotype with given contents -/
def dictCreate (h : Heap) : List (Nat × List Int) → Heap × Dict
  | [] => (h, [])
  | (k, genes) :: rest =>
    let (h1, a) := h.allocList genes
    let (h2, rest') := dictCreate h1 rest
    (h2, (k, a) :: rest')

def structCreate (h : Heap) (content : List (Nat × List Int)) : Heap :=
  let (h1, d) := dictCreate h content
  h1.allocGeno d

/-- GE / stack `mutate`: `clone = [i for i in genotype.dna]; clone[rindex] = v; Genotype(clone)` -/
def flatMutate (h : Heap) (g rindex : Nat) (v : Int) : Heap :=
  let a0 := (dictGet (h.genoAt g) 0).getD 0
  let (h1, a) := h.allocList (h.listAt a0)
  (h1.setItem a rindex v).allocGeno [(0, a)]

/-- GE / stack `crossover`: `p1[:r] + p2[r:]`, `p2[:r] + p1[r:]` -/
def flatCrossover (h : Heap) (g1 g2 cut : Nat) : Heap :=
  let p1 := h.listAt ((dictGet (h.genoAt g1) 0).getD 0)
  let p2 := h.listAt ((dictGet (h.genoAt g2) 0).getD 0)
  let (h1, a1) := h.allocList (p1.take cut ++ p2.drop cut)
  let (h2, a2) := h1.allocList (p2.take cut ++ p1.drop cut)
  (h2.allocGeno [(0, a1)]).allocGeno [(0, a2)]

/-- SGE and dynamic SGE `mutate`: copy every list, then (if a gene was chosen) write the new gene into the COPY of
list number `kidx` -/
def structMutate (h : Heap) (g : Nat) (choice : Option (Nat × Nat × Int)) : Heap :=
  let (h1, d) := copyDict h (h.genoAt g)
  let h2 := match choice with
    | none => h1
    | some (kidx, rindex, v) =>
      match d[kidx]? with
      | some (_, a) => h1.setItem a rindex v
      | none => h1
  h2.allocGeno d

/-- one key of the uniform crossover: both children get a fresh copy of a parent's list for that key (a fresh
`[]` when the parent lacks it) -/
def crossKey (h : Heap) (d1 d2 : Dict) (k : Nat) (b : Bool) : Heap × Nat × Nat :=
  let l1 := ((dictGet d1 k).map h.listAt).getD []
  let l2 := ((dictGet d2 k).map h.listAt).getD []
  let (h1, a1) := h.allocList (if b then l1 else l2)
  let (h2, a2) := h1.allocList (if b then l2 else l1)
  (h2, a1, a2)

def crossKeys (h : Heap) (d1 d2 : Dict) : List (Nat × Bool) → Heap × Dict × Dict
  | [] => (h, [], [])
  | (k, b) :: rest =>
    let (h1, a1, a2) := crossKey h d1 d2 k b
    let (h2, c1, c2) := crossKeys h1 d1 d2 rest
    (h2, (k, a1) :: c1, (k, a2) :: c2)

/-- SGE and dynamic SGE `crossover`: over the keys of parent 1, one mask bit per key -/
def structCrossover (h : Heap) (g1 g2 : Nat) (mask : List Bool) : Heap :=
  let d1 := h.genoAt g1
  let d2 := h.genoAt g2
  let (h1, c1, c2) := crossKeys h d1 d2 ((d1.map (·.1)).zip mask)
  (h1.allocGeno c1).allocGeno c2

/-- dynamic SGE mapping, one key: genes appended IN PLACE to the list of genotype `g` for key `k`; a key the
genotype does not have yet gets a fresh list, inserted into the genotype's own dictionary -/
def mapKey (h : Heap) (g : Nat) (e : Nat × List Int) : Heap :=
  match dictGet (h.genoAt g) e.1 with
  | some a => h.extendList a e.2
  | none =>
    let (h1, a) := h.allocList e.2
    h1.insertKey g e.1 a

def dsgeMap (h : Heap) (g : Nat) (ext : List (Nat × List Int)) : Heap :=
  if g < h.genos.length then ext.foldl (fun h e => mapKey h g e) h else h

inductive Op where
  | flatCreate (genes : List Int)
  | structCreate (content : List (Nat × List Int))
  | flatMutate (g rindex : Nat) (v : Int)
  | flatCrossover (g1 g2 cut : Nat)
  | structMutate (g : Nat) (choice : Option (Nat × Nat × Int))
  | structCrossover (g1 g2 : Nat) (mask : List Bool)
  | dsgeMap (g : Nat) (ext : List (Nat × List Int))
  deriving Repr

def step (h : Heap) : Op → Heap
  | .flatCreate genes => flatCreate h genes
  | .structCreate c => structCreate h c
  | .flatMutate g r v => flatMutate h g r v
  | .flatCrossover g1 g2 c => flatCrossover h g1 g2 c
  | .structMutate g c => structMutate h g c
  | .structCrossover g1 g2 m => structCrossover h g1 g2 m
  | .dsgeMap g ext => dsgeMap h g ext

def run (h : Heap) (ops : List Op) : Heap := ops.foldl step h

/-- the genotype an operation writes into in place, if any -/
def Op.target : Op → Option Nat
  | .dsgeMap g _ => some g
  | _ => none

/-! ### the object graph, addresses renamed by first occurrence (what the harness compares) -/

def renameAddr (seen : List Nat) (a : Nat) : List Nat × Nat :=
  match seen.idxOf? a with
  | some i => (seen, i)
  | none => (seen ++ [a], seen.length)

def dumpDict (h : Heap) (seen : List Nat) : Dict → List Nat × List (Nat × Nat × List Int)
  | [] => (seen, [])
  | (k, a) :: rest =>
    let (seen1, c) := renameAddr seen a
    let (seen2, rest') := dumpDict h seen1 rest
    (seen2, (k, c, h.listAt a) :: rest')

def dumpGenos (h : Heap) (seen : List Nat) : List Dict → List (List (Nat × Nat × List Int))
  | [] => []
  | d :: rest =>
    let (seen1, x) := dumpDict h seen d
    x :: dumpGenos h seen1 rest

def dump (h : Heap) : List (List (Nat × Nat × List Int)) := dumpGenos h [] h.genos

end GEVerif.Heap
