/-
  Model of `geneticengine/grammar/grammar.py`: class declarations, `register_type`
  (productions in registration order, terminals / non-terminals), `get_distance_to_terminal`,
  `preprocess` (distance fixpoint + reachability closure), `usable_grammar`.

  Classes are indices into a declaration list.  Types mirror what `typing` introspection sees:
  base types, classes, `list[T]`, `tuple[...]`, `Union[...]`, `Annotated[T, metahandler]`.
-/
namespace GEVerif

/-- Refinements (metahandlers).  Dependent refinements carry the sibling field they read. -/
inductive MH where
  | intRange (lo hi : Int)
  | intList (xs : List Int)
  | varRange (opts : List String)
  | listSize (lo hi : Nat)
  | strSize (lo hi : Nat) (alphabet : List String)
  | interval (minLen maxLen top : Int)
  | floatRange
  | floatList (n : Nat)
  | depIntRangeLo (field : String) (hi : Int)   -- Dependent(field, λ a. IntRange(a, hi))
  | depIntRangeHi (lo : Int) (field : String)   -- Dependent(field, λ a. IntRange(lo, a))
  | depIntRangeSpan (w lo : String)             -- Dependent("w,lo", λ w lo. IntRange(lo, lo + w)): two siblings, NAMED order
  | depListSize (field : String)                -- Dependent(field, λ n. ListSizeBetween(n, n))
  | depVarFrom (field : String)                 -- Dependent(field, λ xs. VarRange(xs)); raises SynthesisException on []
  deriving Repr, BEq, Inhabited

inductive Ty where
  | int | float | str | bool
  | cls (n : Nat)
  | list (t : Ty)
  | tuple (ts : List Ty)
  | union (ts : List Ty)
  | ann (t : Ty) (mh : MH)
  deriving Repr, Inhabited

mutual
def Ty.beq : Ty → Ty → Bool
  | .int, .int => true
  | .float, .float => true
  | .str, .str => true
  | .bool, .bool => true
  | .cls a, .cls b => a == b
  | .list a, .list b => Ty.beq a b
  | .tuple as, .tuple bs => Ty.beqList as bs
  | .union as, .union bs => Ty.beqList as bs
  | .ann a m, .ann b n => Ty.beq a b && m == n
  | _, _ => false
def Ty.beqList : List Ty → List Ty → Bool
  | [], [] => true
  | a :: as, b :: bs => Ty.beq a b && Ty.beqList as bs
  | _, _ => false
end

instance : BEq Ty := ⟨Ty.beq⟩

structure ClassDecl where
  name : String
  abstract : Bool
  parent : Option Nat
  fields : List (String × Ty)
  deriving Repr, Inhabited

/-- Symbols that key `distanceToTerminal`: base types and classes. -/
inductive Sym where
  | int | float | str | bool
  | cls (n : Nat)
  deriving Repr, BEq, DecidableEq, Inhabited

def Sym.toTy : Sym → Ty
  | .int => .int | .float => .float | .str => .str | .bool => .bool | .cls n => .cls n

def INF : Nat := 1000000

/-! ### Registration (`register_type`) -/

structure Reg where
  allNodes : List Sym := []                 -- in order of insertion (a set in Python)
  alts : List (Nat × List Nat) := []        -- abstract class ↦ productions, registration order
  terminals : List Sym := []
  nonTerminals : List Sym := []
  error : Bool := false                     -- alternative registered on a non-abstract class
  deriving Repr, Inhabited

def addAlt (alts : List (Nat × List Nat)) (p c : Nat) : List (Nat × List Nat) :=
  match alts with
  | [] => [(p, [c])]
  | (k, v) :: rest => if k == p then (k, v ++ [c]) :: rest else (k, v) :: addAlt rest p c

def getAlts (alts : List (Nat × List Nat)) (p : Nat) : Option (List Nat) :=
  match alts with
  | [] => none
  | (k, v) :: rest => if k == p then some v else getAlts rest p

/-- `issubclass(st, ty)` along the single-inheritance chain. -/
def isSubclass (classes : List ClassDecl) : Nat → Nat → Nat → Bool
  | 0, _, _ => false
  | fuel + 1, st, ty =>
    if st == ty then true else
    match (classes.getD st default).parent with
    | some p => isSubclass classes fuel p ty
    | none => false

mutual
/-- `register_type` on a type expression. -/
def regTy (classes : List ClassDecl) (considered : List Nat) : Nat → Ty → Reg → Reg
  | 0, _, r => r
  | fuel + 1, ty, r =>
    match ty with
    | .list t => regTy classes considered fuel t r
    | .ann t _ => regTy classes considered fuel t r
    | .tuple ts => regTys classes considered fuel ts r
    | .union ts => regTys classes considered fuel ts r
    | .int => regBase .int r
    | .float => regBase .float r
    | .str => regBase .str r
    | .bool => regBase .bool r
    | .cls n =>
      if r.allNodes.contains (.cls n) then r else
      let d := classes.getD n default
      let r := { r with allNodes := r.allNodes ++ [.cls n] }
      -- parent first, then this class as an alternative of the parent
      let r := match d.parent with
        | some p =>
          let r := regTy classes considered fuel (.cls p) r
          let pd := classes.getD p default
          if pd.abstract then { r with alts := addAlt r.alts p n } else { r with error := true }
        | none => r
      -- fields of a concrete class
      let r := if d.abstract then r else regFields classes considered fuel d.fields r
      -- considered subtypes that are subclasses of this class
      let r := regSubs classes considered fuel n considered r
      let terminal := !d.abstract && d.fields.isEmpty
      if terminal then { r with terminals := r.terminals ++ [.cls n] }
      else { r with nonTerminals := r.nonTerminals ++ [.cls n] }
where
  regBase (s : Sym) (r : Reg) : Reg :=
    if r.allNodes.contains s then r
    else { r with allNodes := r.allNodes ++ [s], terminals := r.terminals ++ [s] }

def regTys (classes : List ClassDecl) (considered : List Nat) : Nat → List Ty → Reg → Reg
  | 0, _, r => r
  | _ + 1, [], r => r
  | fuel + 1, t :: ts, r => regTys classes considered fuel ts (regTy classes considered fuel t r)

def regFields (classes : List ClassDecl) (considered : List Nat) : Nat → List (String × Ty) → Reg → Reg
  | 0, _, r => r
  | _ + 1, [], r => r
  | fuel + 1, (_, t) :: fs, r =>
    regFields classes considered fuel fs (regTy classes considered fuel t r)

def regSubs (classes : List ClassDecl) (considered : List Nat) : Nat → Nat → List Nat → Reg → Reg
  | 0, _, _, r => r
  | _ + 1, _, [], r => r
  | fuel + 1, n, st :: rest, r =>
    let r := if isSubclass classes (classes.length + 1) st n
             then regTy classes considered fuel (.cls st) r else r
    regSubs classes considered fuel n rest r
end

/-! ### Distances -/

abbrev DistTable := List (Sym × Nat)

def lookupDist (d : DistTable) (s : Sym) : Nat :=
  match d with
  | [] => INF
  | (k, v) :: rest => if k == s then v else lookupDist rest s

def listMax : List Nat → Nat
  | [] => 0
  | x :: xs => max x (listMax xs)

def listMin : List Nat → Nat
  | [] => INF
  | x :: xs => min x (listMin xs)

mutual
/-- `get_distance_to_terminal` on a type expression (as repaired: a union costs the MINIMUM of
its alternatives; `e = int(expansion_depthing)`). -/
def distTy (e : Nat) (d : DistTable) : Ty → Nat
  | .int => lookupDist d .int
  | .float => lookupDist d .float
  | .str => lookupDist d .str
  | .bool => lookupDist d .bool
  | .cls n => lookupDist d (.cls n)
  | .ann t _ => distTy e d t
  | .list t => e + distTy e d t
  | .tuple ts => e + distTysMax e d ts
  | .union ts => e + distTysMin e d ts
def distTysMax (e : Nat) (d : DistTable) : List Ty → Nat
  | [] => 0
  | t :: ts => max (distTy e d t) (distTysMax e d ts)
def distTysMin (e : Nat) (d : DistTable) : List Ty → Nat
  | [] => INF
  | t :: ts => min (distTy e d t) (distTysMin e d ts)
end

structure GrammarSpec where
  classes : List ClassDecl
  start : Nat
  considered : List Nat
  expansion : Bool := false
  deriving Repr, Inhabited

def GrammarSpec.e (g : GrammarSpec) : Nat := if g.expansion then 1 else 0

/-- Right-hand side of the distance equation of one symbol (`preprocess`'s loop body). -/
def rhsSym (g : GrammarSpec) (r : Reg) (d : DistTable) (s : Sym) : Nat :=
  match s with
  | .cls n =>
    let c := g.classes.getD n default
    if c.abstract then
      match getAlts r.alts n with
      | some prods => listMin (prods.map fun p => g.e + lookupDist d (.cls p))
      | none => INF
    else if c.fields.isEmpty then 1
    else listMax (c.fields.map fun f => 1 + distTy g.e d f.2)
  | _ => g.e   -- base types (as repaired: bool like int / float / str)

/-- One Jacobi round: values only ever decrease (`if val < old_val`). -/
def distStepSym (g : GrammarSpec) (r : Reg) (d : DistTable) (s : Sym) : Nat :=
  min (lookupDist d s) (rhsSym g r d s)

/-- `d` solves the (capped) distance equations. -/
def isFixpoint (g : GrammarSpec) (r : Reg) (d : DistTable) : Bool :=
  d.all fun (s, v) => v == min INF (rhsSym g r d s)

def distStep (g : GrammarSpec) (r : Reg) (d : DistTable) : DistTable :=
  d.map fun (s, _) => (s, distStepSym g r d s)

def distTableEq (a b : DistTable) : Bool :=
  a.length == b.length && (a.zip b).all fun (x, y) => x.1 == y.1 && x.2 == y.2

def distIter (g : GrammarSpec) (r : Reg) : Nat → DistTable → DistTable
  | 0, d => d
  | fuel + 1, d =>
    let d' := distStep g r d
    if distTableEq d' d then d else distIter g r fuel d'

/-! ### Reachability / recursion -/

mutual
/-- `explode_generics` (as repaired: tuples are exploded too). -/
def explode : Ty → List Sym
  | .int => [.int] | .float => [.float] | .str => [.str] | .bool => [.bool]
  | .cls n => [.cls n]
  | .list t => explode t
  | .ann t _ => explode t
  | .union ts => explodeList ts
  | .tuple ts => explodeList ts
def explodeList : List Ty → List Sym
  | [] => []
  | t :: ts => explode t ++ explodeList ts
end

/-- direct successors of a symbol in the derivation graph -/
def succs (g : GrammarSpec) (r : Reg) : Sym → List Sym
  | .cls n =>
    let c := g.classes.getD n default
    if c.abstract then ((getAlts r.alts n).getD []).map Sym.cls
    else (c.fields.map fun f => explode f.2).flatten
  | _ => []

def addAll (acc : List Sym) (xs : List Sym) : List Sym :=
  xs.foldl (fun a x => if a.contains x then a else a ++ [x]) acc

/-- symbols reachable in ≥ 1 step, by bounded frontier expansion -/
def reachFrom (g : GrammarSpec) (r : Reg) : Nat → List Sym → List Sym → List Sym
  | 0, _, seen => seen
  | fuel + 1, frontier, seen =>
    let next := (frontier.map (succs g r)).flatten
    let fresh := next.filter fun x => !seen.contains x
    if fresh.isEmpty then seen
    else reachFrom g r fuel (addAll [] fresh) (addAll seen fresh)

def isRecursive (g : GrammarSpec) (r : Reg) (s : Sym) : Bool :=
  (reachFrom g r (r.allNodes.length + 1) [s] []).contains s

/-! ### The analysed grammar -/

structure Grammar where
  spec : GrammarSpec
  reg : Reg
  dist : DistTable
  recursive : List Sym
  deriving Repr, Inhabited

mutual
def Ty.size : Ty → Nat
  | .list t => 1 + Ty.size t
  | .ann t _ => 1 + Ty.size t
  | .tuple ts => 1 + Ty.sizeList ts
  | .union ts => 1 + Ty.sizeList ts
  | _ => 1
def Ty.sizeList : List Ty → Nat
  | [] => 0
  | t :: ts => Ty.size t + Ty.sizeList ts
end

/-- total size of the declarations: registration spends one unit of fuel per class, per field
and per type-nesting level -/
def specSize (g : GrammarSpec) : Nat :=
  (g.classes.map fun c => 1 + (c.fields.map fun f => 1 + Ty.size f.2).sum).sum + g.considered.length

def regFuel (g : GrammarSpec) : Nat :=
  4 * (g.classes.length + 2) * (g.classes.length + 2) * (specSize g + 2) + 64

def analyse (g : GrammarSpec) : Grammar :=
  let r := regTy g.classes g.considered (regFuel g) (.cls g.start) {}
  let d0 : DistTable := r.allNodes.map fun s => (s, INF)
  let d := distIter g r (r.allNodes.length + 2) d0
  { spec := g, reg := r, dist := d, recursive := r.allNodes.filter (isRecursive g r) }

def Grammar.e (g : Grammar) : Nat := g.spec.e
def Grammar.distOf (g : Grammar) (t : Ty) : Nat := distTy g.e g.dist t
def Grammar.minTreeDepth (g : Grammar) : Nat := lookupDist g.dist (.cls g.spec.start)
def Grammar.altsOf (g : Grammar) (n : Nat) : Option (List Nat) := getAlts g.reg.alts n
def Grammar.cls (g : Grammar) (n : Nat) : ClassDecl := g.spec.classes.getD n default
def Grammar.isRec (g : Grammar) (n : Nat) : Bool := g.recursive.contains (.cls n)
def Grammar.maxNodeDepth (g : Grammar) : Nat := listMax (g.dist.map (·.2))

/-- Classes reachable from the start symbol (the work list of `usable_grammar`). -/
def reachableClasses (g : Grammar) : List Nat :=
  let start : Sym := .cls g.spec.start
  let all := addAll [start] (reachFrom g.spec g.reg (g.reg.allNodes.length + 1) [start] [])
  all.filterMap fun | .cls n => some n | _ => none

/-- `usable_grammar`: re-extract with the reachable classes as the considered subtypes. -/
def usableGrammar (g : Grammar) : Grammar :=
  analyse { g.spec with considered := reachableClasses g }

def Grammar.classNodes (g : Grammar) : List Nat :=
  g.reg.allNodes.filterMap fun | .cls n => some n | _ => none

end GEVerif
