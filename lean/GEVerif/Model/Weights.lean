/-
  Model of production weights:
    `geneticengine/grammar/decorators.py`  (`weight`, `get_gengy`: the weight lives in the CLASS's
                                            own `__gengy__` dict, so extraction mutates the classes)
    `geneticengine/grammar/grammar.py`     (`get_weights`, `update_weights`, the weight call of
                                            `extract_grammar`)
    `representations/tree/initializations.py` (`ProgressivelyTerminalDecider.choose_production_alternatives`)
    `representations/stackgggp/__init__.py`   (the weighted symbol chooser of `create_tree_using_stacks`)

  Numbers.  Weights are EXACT RATIONALS: core Lean's `Rat` (a reduced pair `num : Int`,
  `den : Nat`).  Python computes with floats; IEEE rounding is modelled, not verified (the
  harness uses dyadic weights, where float arithmetic is exact, for the exact comparison, and a
  stated tolerance for a stream of non-dyadic weights).  The choosers feed `choice_weighted`,
  whose model (`Model/Rand.lean`) takes `Nat` numerators over a common denominator; the chooser
  models below do the same.

  Classes.  A grammar is the list of REGISTERED classes (`Grammar.all_nodes`); class `c` is the
  index `c`.  `parent = some r` means `c` was registered as an alternative of the abstract class
  `r` (`register_alternative(mro()[1], c)`): every class is an alternative of at most one rule,
  and a nested abstract class is both an alternative of its parent and a rule of its own.

  The model mirrors the code AS REPAIRED (weights are written back to every registered
  non-builtin class and the normalisation is triggered by any registered weighted class; the
  pinned code did both only for the start symbol / `considered_subtypes`).
-/
import GEVerif.Model.Rand

namespace GEVerif.Weights
open GEVerif

structure Cls where
  parent : Option Nat     -- the rule this class is an alternative of
  weight : Option Rat     -- `cls.__dict__["__gengy__"].get("weight")`
  builtin : Bool          -- `int`, `float`, …: no `__gengy__` dict, never weighted
  deriving Repr, DecidableEq

abbrev Grammar := List Cls

/-- `get_gengy(prod).get("weight", 1.0)` -/
def declared (g : Grammar) (c : Nat) : Rat :=
  match g[c]? with
  | some cls => cls.weight.getD 1
  | none => 1

/-- `Grammar.get_weights()`, as a list indexed by class -/
def getWeights (g : Grammar) : List Rat := (List.range g.length).map (declared g)

/-- `self.alternatives[r]`: the classes registered as alternatives of `r` -/
def alts (g : Grammar) (r : Nat) : List Nat :=
  (List.range g.length).filter fun c => (g[c]?.bind (·.parent)) == some r

/-- the keys of `self.alternatives` -/
def rules (g : Grammar) : List Nat :=
  (List.range g.length).filter fun r => !(alts g r).isEmpty

def sumOver (w : Nat → Rat) (cs : List Nat) : Rat := (cs.map w).sum

inductive WErr where
  | zeroDivision     -- a rule whose weights total 0
  | assertion        -- `assert 0 <= w <= 1` failed
  deriving Repr, DecidableEq

/-- One iteration of `for rule in self.alternatives` in `update_weights`:
```
for prod in prods: weights[prod] += lr * extra[prod]; total += weights[prod]
for prod in prods: weights[prod] = weights[prod] / total
``` -/
def updateRule (lr : Rat) (extra : Nat → Rat) (prods : List Nat) (w : Nat → Rat) :
    Except WErr (Nat → Rat) :=
  let w1 : Nat → Rat := fun c => if c ∈ prods then w c + lr * extra c else w c
  let total := sumOver w1 prods
  if total = 0 then .error .zeroDivision
  else .ok fun c => if c ∈ prods then w1 c / total else w1 c

/-- the loop over the rules, in the given order -/
def updateRules (lr : Rat) (extra : Nat → Rat) (g : Grammar) :
    List Nat → (Nat → Rat) → Except WErr (Nat → Rat)
  | [], w => .ok w
  | r :: rest, w =>
    match updateRule lr extra (alts g r) w with
    | .error e => .error e
    | .ok w' => updateRules lr extra g rest w'

/-- write the new weights into the classes' own dicts (builtins have none) -/
def writeBack (g : Grammar) (w : Nat → Rat) : Grammar :=
  g.mapIdx fun c cls => if cls.builtin then cls else { cls with weight := some (w c) }

/-- `Grammar.update_weights(lr, extra)` with the rules visited in the order `order`:
renormalise rule by rule, check `0 ≤ w ≤ 1` for every registered class, store. -/
def updateWeightsOrd (order : List Nat) (lr : Rat) (extra : Nat → Rat) (g : Grammar) :
    Except WErr Grammar :=
  match updateRules lr extra g order (declared g) with
  | .error e => .error e
  | .ok w =>
    if (List.range g.length).all fun c => decide (0 ≤ w c ∧ w c ≤ 1) then .ok (writeBack g w)
    else .error .assertion

def updateWeights (lr : Rat) (extra : Nat → Rat) (g : Grammar) : Except WErr Grammar :=
  updateWeightsOrd (rules g) lr extra g

def anyWeighted (g : Grammar) : Bool := g.any fun cls => cls.weight.isSome

/-- the weight call of `extract_grammar`: `if any class carries a weight:
g.update_weights(1, g.get_weights())` -/
def extract (g : Grammar) : Except WErr Grammar :=
  if anyWeighted g then updateWeights 1 (declared g) g else .ok g

/-- `n` extractions of the same classes, one after the other (each sees the class dicts the
previous one left behind) -/
def extractN : Nat → Grammar → Except WErr Grammar
  | 0, g => .ok g
  | n + 1, g =>
    match extract g with
    | .error e => .error e
    | .ok g' => extractN n g'

/-! ### The weight-aware choosers -/

/-- the depth heuristic of `ProgressivelyTerminalDecider`:
`target // (ctx.depth + 1)` for a recursive production, `target - distance_to_terminal` otherwise
(`target` = the grammar's maximum node depth, so the difference is a natural number). -/
def heur (target depth : Nat) (recursive : Bool) (dist : Nat) : Nat :=
  if recursive then target / (depth + 1) else target - dist

/-- `choose_production_alternatives` (as repaired): heuristic × production weight; when that is
zero for every alternative, the production weights alone.  `gs` are the production weights'
numerators over the common denominator `den`. -/
def ptdWeights (hs gs : List Nat) : List Nat :=
  let comb := List.zipWith (· * ·) hs gs
  if comb.any (0 < ·) then comb else gs

def ptdChoose {σ : Type} (src : Source σ) (den : Nat) (hs gs : List Nat) (s : σ) : Option Nat × σ :=
  let ws := ptdWeights hs gs
  choiceWeightedIdx src (accScaled den ws) ws.length s

/-- the code as pinned: no fallback to the production weights -/
def ptdChoosePinned {σ : Type} (src : Source σ) (den : Nat) (hs gs : List Nat) (s : σ) : Option Nat × σ :=
  let ws := List.zipWith (· * ·) hs gs
  choiceWeightedIdx src (accScaled den ws) ws.length s

/-- the stack representation's symbol chooser: `choice_weighted(symbols, [weights.get(x, 1) …])` -/
def stackChoose {σ : Type} (src : Source σ) (den : Nat) (ws : List Nat) (s : σ) : Option Nat × σ :=
  choiceWeightedIdx src (accScaled den ws) ws.length s

end GEVerif.Weights
