/-
  Model of the genotype-based representations:
  `grammatical_evolution/ge.py`, `structured_ge.py`, `dynamic_structured_ge.py` and the genotype
  operators of `stackgggp/__init__.py` (its stack machine is not modelled).

  Genotypes: GE / stack = `List Int`; SGE = `List (String × List Int)` (a dict in insertion
  order); dynamic SGE = `List (Ty × List Int)` (dict keyed by type objects).
-/
import GEVerif.Model.Rand
import GEVerif.Model.Synth

namespace GEVerif

def MAXSIZE : Int := 9223372036854775807

/-! ### Genotype operators (draw order as in the code) -/

def drawMany (lo hi : Int) : Nat → SynM (List Int)
  | 0 => pure []
  | n + 1 => do
    let v ← randintM lo hi
    let rest ← drawMany lo hi n
    pure (v :: rest)

/-- `GrammaticalEvolutionRepresentation.create_genotype` / stack: `gene_length` draws. -/
def linCreate (geneLength : Nat) : SynM (List Int) := drawMany 0 MAXSIZE geneLength

/-- `mutate`: `rindex = randint(0, gene_length-1)`; `clone[rindex] = randint(0, top)`.
An index beyond the genotype is Python's IndexError. -/
def linMutate (geneLength : Nat) (top : Int) (dna : List Int) : SynM (List Int) := do
  let r ← randintM 0 ((geneLength : Int) - 1)
  let v ← randintM 0 top
  if r.toNat < dna.length then pure (dna.set r.toNat v) else throwE (.foreign "IndexError")

/-- one-point crossover at `rindex = randint(0, cutTop)` (GE: `gene_length-1`; stack: 255). -/
def linCrossover (cutTop : Int) (p1 p2 : List Int) : SynM (List Int × List Int) := do
  let r ← randintM 0 cutTop
  pure (p1.take r.toNat ++ p2.drop r.toNat, p2.take r.toNat ++ p1.drop r.toNat)

/-! SGE -/

abbrev SGEDna := List (String × List Int)

def sgeLookup (k : String) : SGEDna → List Int
  | [] => []
  | (k', v) :: rest => if k' == k then v else sgeLookup k rest

def sgeSet (k : String) (v : List Int) : SGEDna → SGEDna
  | [] => []
  | (k', v') :: rest => if k' == k then (k', v) :: rest else (k', v') :: sgeSet k v rest

/-- `mutate`: `rkey = choice(keys)`, `rindex = randint(0, len-1)`, new gene. -/
def sgeMutate (dna : SGEDna) : SynM SGEDna := do
  let ki ← choiceIdxM dna.length
  let (k, genes) ← listGetM dna ki
  let r ← randintM 0 ((genes.length : Int) - 1)
  let v ← randintM 0 MAXSIZE
  pure (sgeSet k (genes.set r.toNat v) dna)

/-- one `random_bool` per key of parent 1, in key order (the whole mask is drawn first) -/
def drawMask : Nat → SynM (List Bool)
  | 0 => pure []
  | n + 1 => do
    let b ← choiceIdxM 2
    let rest ← drawMask n
    pure ((b = 0) :: rest)

def sgeCrossoverWith (mask : List Bool) (p1 p2 : SGEDna) : SGEDna × SGEDna :=
  let pairs := (p1.zip mask).map fun ((k, g1), b) =>
    let g2 := sgeLookup k p2
    if b then ((k, g1), (k, g2)) else ((k, g2), (k, g1))
  (pairs.map (·.1), pairs.map (·.2))

def sgeCrossover (p1 p2 : SGEDna) : SynM (SGEDna × SGEDna) := do
  let mask ← drawMask p1.length
  pure (sgeCrossoverWith mask p1 p2)

/-! dynamic SGE -/

abbrev DSGEDna := List (Ty × List Int)

def dsgeMutate (dna : DSGEDna) : SynM DSGEDna := do
  if dna.isEmpty then pure dna else
  let ki ← choiceIdxM dna.length
  let (k, genes) ← listGetM dna ki
  if genes.isEmpty then pure dna else
  let r ← randintM 0 ((genes.length : Int) - 1)
  let v ← randintM 0 MAXSIZE
  pure (tySet k (genes.set r.toNat v) dna)

def dsgeCrossoverWith (mask : List Bool) (p1 p2 : DSGEDna) : DSGEDna × DSGEDna :=
  let pairs := (p1.zip mask).map fun ((k, g1), b) =>
    let g2 := tyLookup k [] p2
    if b then ((k, g1), (k, g2)) else ((k, g2), (k, g1))
  (pairs.map (·.1), pairs.map (·.2))

def dsgeCrossover (p1 p2 : DSGEDna) : SynM (DSGEDna × DSGEDna) := do
  let mask ← drawMask p1.length
  pure (dsgeCrossoverWith mask p1 p2)

/-! ### Genotype → phenotype -/

/-- GE / SGE mapping (as repaired): decider and metahandlers both draw from the genotype;
`random_node` = `create_node` at the empty context.  Returns the program or the error. -/
def mapGE (g : Grammar) (dec : Decider) (fuel : Nat) (dna : List Int) (expanding : Bool) : Res Val :=
  createNode g dec fuel (.cls g.spec.start) ⟨0, 0⟩ []
    { src := .gene { dna := dna, index := 0 }, expanding := expanding }

/-- SGE: every draw reads the `$infrastructure` gene list. -/
def mapSGE (g : Grammar) (dec : Decider) (fuel : Nat) (dna : SGEDna) (expanding : Bool) : Res Val :=
  mapGE g dec fuel (sgeLookup "$infrastructure" dna) expanding

/-- dynamic SGE: every decision, including the draws of metahandlers (as repaired), is read from `dna`,
which is extended on demand from the shared stream.  Returns program / error and the final state (whose
`dna` is the extended genotype and whose `src` is the shared stream after mapping). -/
def mapDSGE (g : Grammar) (maxDepth : Nat) (fuel : Nat) (dna : DSGEDna) (shared : Script) : Res Val :=
  let dec : Decider := { kind := .dsge, maxDepth := maxDepth }
  if !deciderValid g dec then .err .library { src := .scripted shared, dna := dna } else
  createNode g dec fuel (.cls g.spec.start) ⟨0, 0⟩ []
    { src := .scripted shared, dna := dna, pos := [], metaFromGenes := true }

/-! ### Property predicates on genotypes -/

/-- every gene of the child comes from one of the parents at the same locus -/
def locusOK (p1 p2 c : List Int) : Bool :=
  (List.range c.length).all fun i =>
    (match c[i]?, p1[i]? with | some x, some y => x == y | _, _ => false) ||
    (match c[i]?, p2[i]? with | some x, some y => x == y | _, _ => false)

/-- number of positions at which two equally long gene lists differ -/
def diffCount : List Int → List Int → Nat
  | a :: as, b :: bs => (if a == b then 0 else 1) + diffCount as bs
  | _, _ => 0

end GEVerif
