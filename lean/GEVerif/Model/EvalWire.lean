/-
  Wire format (s-expressions) for the evaluation-layer model: parsers and printers shared by the
  C12 / C13 / C14 line-protocol handlers.  No proofs, no property content.
-/
import GEVerif.Model.Sexp
import GEVerif.Model.Eval

namespace GEVerif.Eval.Wire
open GEVerif GEVerif.Sexp GEVerif.Eval

def asBools? (s : Sexp) : Option (List Bool) := do
  let xs ← s.asList?
  xs.mapM asBool?

/-- `(id agg)` or `(id agg comp)` -/
def parseReg : Sexp → Option Reg
  | list [i, a] => do pure { id := ← i.asNat?, agg := ← a.asInt?, comp := 0 }
  | list [i, a, c] => do pure { id := ← i.asNat?, agg := ← a.asInt?, comp := ← c.asInt? }
  | _ => none

def parseRegs (s : Sexp) : Option (List Reg) := do
  let xs ← s.asList?
  xs.mapM parseReg

def optId : Option Reg → Sexp
  | some r => ofNat r.id
  | none => atom "none"

def ids (rs : List Reg) : Sexp := ofNats (rs.map (·.id))

def ofBools (bs : List Bool) : Sexp := list (bs.map ofBool)

def parseTracker : Sexp → Option Tracker
  | atom "single" => some (.single none)
  | atom "multi" => some (.multi [])
  | _ => none

/-- `(regs evals)` or `(regs evals unseen)` -/
def parseIter : Sexp → Option Iter
  | list [rs, k] => do pure { regs := ← parseRegs rs, evals := ← k.asNat?, unseen := [] }
  | list [rs, k, us] => do pure { regs := ← parseRegs rs, evals := ← k.asNat?, unseen := ← parseRegs us }
  | _ => none

partial def parseBudget : Sexp → Option Budget
  | list [atom "evals", n] => do pure (.evaluations (← n.asNat?))
  | list [atom "target", v] => do pure (.target (← v.asInt?))
  | list [atom "anyof", a, b] => do pure (.anyOf (← parseBudget a) (← parseBudget b))
  | _ => none

def parseAlgo : Sexp → Option Algo
  | atom "rs" => some .randomSearch
  | atom "opo" => some .onePlusOne
  | list [atom "hc", m] => do pure (.hillClimbing (← m.asNat?))
  | list [atom "gp", n] => do pure (.gp (← n.asNat?))
  | _ => none

/-- problem kinds: `(single b)`, `(multi (b…))`, `(user (w…))` (linear aggregate Σ wᵢ·cᵢ),
`usermax` (aggregate = largest component, 0 for none) -/
def dot : List Int → List Int → Int
  | w :: ws, c :: cs => w * c + dot ws cs
  | _, _ => 0

def maxOf : List Int → Int
  | [] => 0
  | c :: cs => cs.foldl (fun a b => if a < b then b else a) c

def parseKind : Sexp → Option ProblemKind
  | list [atom "single", b] => do pure (.single (← b.asBool?))
  | list [atom "multi", bs] => do pure (.multi (← asBools? bs))
  | list [atom "user", ws] => do
      let ws ← ws.asInts?
      pure (.multiUser (dot ws))
  | atom "usermax" => some (.multiUser maxOf)
  | _ => none

/-- `(kind (row…))`: the fitness function is the table phenotype ↦ row -/
def parseProblem : Sexp → Option Problem
  | list [k, list rows] => do
      let kind ← parseKind k
      let table ← rows.mapM asInts?
      pure { kind := kind, ff := fun ph => if 0 ≤ ph then table.getD ph.toNat [] else [] }
  | _ => none

def parseCall : Sexp → Option Call
  | list [atom "seq", p, b] => do pure (.seq (← p.asNat?) (← b.asNats?))
  | list [atom "par", p, b, o] => do pure (.par (← p.asNat?) (← b.asNats?) (← o.asNats?))
  | _ => none

def ofFitness (f : Fitness) : Sexp := list [ofInt f.agg, ofInts f.comps]

def parseFitness : Sexp → Option Fitness
  | list [a, cs] => do pure { agg := ← a.asInt?, comps := ← cs.asInts? }
  | _ => none

def ofCache (c : List (Nat × Fitness)) : Sexp :=
  list (c.map fun e => list [ofNat e.1, ofInt e.2.agg, ofInts e.2.comps])

def parseCache (s : Sexp) : Option (List (Nat × Fitness)) := do
  let xs ← s.asList?
  xs.mapM fun e =>
    match e with
    | list [p, a, cs] => do pure (← p.asNat?, { agg := ← a.asInt?, comps := ← cs.asInts? })
    | _ => none

def ofLog (l : List (Nat × Nat)) : Sexp := list (l.map fun e => list [ofNat e.1, ofNat e.2])

def parseLog (s : Sexp) : Option (List (Nat × Nat)) := do
  let xs ← s.asList?
  xs.mapM fun e =>
    match e with
    | list [p, i] => do pure (← p.asNat?, ← i.asNat?)
    | _ => none

end GEVerif.Eval.Wire
