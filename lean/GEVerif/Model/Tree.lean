/-
  Programs (phenotypes) as values, their depth, and well-typedness for a grammar.

  `Val.node` / `Val.list` carry the synthesis context the library stores on every node
  (`gengy_synthesis_context`: depth and expansions), because mutation re-enters creation with it.
  `Val.foreign` exists only so that ill-formed implementation outputs (a generator object in a
  tuple slot, an `int` in a `bool` slot, a plain Python list) can be written down; it inhabits
  no type.
-/
import GEVerif.Model.Grammar

namespace GEVerif

inductive Val where
  | int (i : Int)
  | float
  | str (s : String)
  | bool (b : Bool)
  | node (cls : Nat) (depth exp : Nat) (args : List Val)
  | list (depth exp : Nat) (vs : List Val)
  | tuple (vs : List Val)
  | foreign (tag : String)
  deriving Repr, Inhabited

mutual
def Val.beq : Val → Val → Bool
  | .int a, .int b => a == b
  | .float, .float => true
  | .str a, .str b => a == b
  | .bool a, .bool b => a == b
  | .node c d e as, .node c' d' e' bs => c == c' && d == d' && e == e' && Val.beqList as bs
  | .list d e as, .list d' e' bs => d == d' && e == e' && Val.beqList as bs
  | .tuple as, .tuple bs => Val.beqList as bs
  | .foreign a, .foreign b => a == b
  | _, _ => false
def Val.beqList : List Val → List Val → Bool
  | [], [] => true
  | a :: as, b :: bs => Val.beq a b && Val.beqList as bs
  | _, _ => false
end
instance : BEq Val := ⟨Val.beq⟩

mutual
/-- Depth: the longest chain of nested grammar nodes (lists and tuples are transparent). -/
def Val.depth : Val → Nat
  | .node _ _ _ args => 1 + Val.depthList args
  | .list _ _ vs => Val.depthList vs
  | .tuple vs => Val.depthList vs
  | _ => 0
def Val.depthList : List Val → Nat
  | [] => 0
  | v :: vs => max (Val.depth v) (Val.depthList vs)
end

/-- `wrap_result`: non-builtin values get the context of the call that returns them. -/
def Val.setCtx (v : Val) (depth exp : Nat) : Val :=
  match v with
  | .node c _ _ args => .node c depth exp args
  | .list _ _ vs => .list depth exp vs
  | v => v

/-! ### Refinement predicates (the documented meaning of each metahandler) -/

def lookupVal (deps : List (String × Val)) (k : String) : Option Val :=
  match deps with
  | [] => none
  | (k', v) :: rest => if k' == k then some v else lookupVal rest k

/-- Does `v` satisfy refinement `mh` (with dependent refinements read against the actual
sibling values `deps`)?  Structure-only for floats (their range is checked on the Python side). -/
def sat (mh : MH) (deps : List (String × Val)) (v : Val) : Bool :=
  match mh, v with
  | .intRange lo hi, .int i => decide (lo ≤ i ∧ i ≤ hi)
  | .intList xs, .int i => xs.contains i
  | .varRange opts, .str s => opts.contains s
  | .listSize lo hi, .list _ _ vs => decide (lo ≤ vs.length ∧ vs.length ≤ hi)
  | .strSize lo hi al, .str s =>
      decide (lo ≤ s.length ∧ s.length ≤ hi) && s.toList.all fun c => al.contains (String.singleton c)
  | .interval mn mx top, .tuple [.int a, .int b] =>
      decide (mn ≤ b - a ∧ b - a ≤ mx ∧ 0 ≤ a ∧ b ≤ top)
  | .floatRange, .float => true
  | .floatList _, .float => true
  | .depIntRangeLo f hi, .int i =>
      (match lookupVal deps f with | some (.int a) => decide (a ≤ i ∧ i ≤ hi) | _ => false)
  | .depIntRangeHi lo f, .int i =>
      (match lookupVal deps f with | some (.int a) => decide (lo ≤ i ∧ i ≤ a) | _ => false)
  | .depIntRangeSpan fw flo, .int i =>
      (match lookupVal deps fw, lookupVal deps flo with
       | some (.int w), some (.int a) => decide (a ≤ i ∧ i ≤ a + w)
       | _, _ => false)
  | .depListSize f, .list _ _ vs =>
      (match lookupVal deps f with | some (.int a) => decide ((vs.length : Int) = a) | _ => false)
  | .depVarFrom f, .str s =>
      (match lookupVal deps f with
       | some (.list _ _ vs) => vs.any fun | .str t => t == s | _ => false
       | _ => false)
  | _, _ => false

/-! ### Well-typedness -/

/-- `c` is a production of class `n`: `c = n` or reachable through registered alternatives. -/
def isProdOf (g : Grammar) : Nat → Nat → Nat → Bool
  | 0, _, _ => false
  | fuel + 1, n, c =>
    n == c ||
    match g.altsOf n with
    | some ps => ps.any fun p => isProdOf g fuel p c
    | none => false

mutual
/-- `wt g deps ty v`: `v` is a fully built value of type `ty` for grammar `g`; refinements
included, dependent ones evaluated on the earlier siblings `deps`. -/
def wt (g : Grammar) (deps : List (String × Val)) : Ty → Val → Bool
  | .int, .int _ => true
  | .float, .float => true
  | .str, .str _ => true
  | .bool, .bool _ => true
  | .cls n, .node c _ _ args =>
      let d := g.cls c
      !d.abstract && g.reg.allNodes.contains (.cls c) && isProdOf g (g.spec.classes.length + 1) n c
        && wtFields g [] d.fields args
  | .list t, .list _ _ vs => wtAll g t vs
  | .tuple ts, .tuple vs => wtTuple g ts vs
  | .union ts, v => wtUnion g deps ts v
  | .ann t mh, v => wt g deps t v && sat mh deps v
  | _, _ => false
termination_by ty v => (sizeOf v, sizeOf ty)
def wtAll (g : Grammar) (t : Ty) : List Val → Bool
  | [] => true
  | v :: vs => wt g [] t v && wtAll g t vs
termination_by vs => (sizeOf vs, sizeOf t)
def wtTuple (g : Grammar) : List Ty → List Val → Bool
  | [], [] => true
  | t :: ts, v :: vs => wt g [] t v && wtTuple g ts vs
  | _, _ => false
termination_by ts vs => (sizeOf vs, sizeOf ts)
def wtUnion (g : Grammar) (deps : List (String × Val)) : List Ty → Val → Bool
  | [], _ => false
  | t :: ts, v => wt g deps t v || wtUnion g deps ts v
termination_by ts v => (sizeOf v, sizeOf ts)
def wtFields (g : Grammar) (deps : List (String × Val)) : List (String × Ty) → List Val → Bool
  | [], [] => true
  | (n, t) :: fs, v :: vs => wt g deps t v && wtFields g (deps ++ [(n, v)]) fs vs
  | _, _ => false
termination_by fs vs => (sizeOf vs, sizeOf fs)
end

end GEVerif
