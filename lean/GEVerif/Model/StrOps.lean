import GEVerif.Model.Rand
namespace GEVerif.StrOps
open GEVerif

/-! Model of `StringSizeBetween.mutate` and `.crossover` (grammar/metahandlers/strings.py), over an arbitrary
random source.  A string is the list of its letters; `none` is the `ValueError` of `randint` on an empty range. -/

variable {σ α : Type} (src : Source σ)

/-- `randint(lo, hi)`; Python's `random.randint` (and every source of the library) raises on an empty range. -/
def randintE (lo hi : Int) (s : σ) : Option Int × σ :=
  if lo ≤ hi then let (v, s') := src.randint lo hi s; (some v, s') else (none, s)

/-- `mutate`: draw the operation (0 delete, 1 insert, otherwise replace); an operation that would leave the bounds falls through to
"replace" (an empty string is returned as it is). -/
def strMutate (lo hi : Nat) (al cur : List α) (s : σ) : Option (List α) × σ :=
  let (m, s1) := src.randint 0 2 s
  let n := cur.length
  if m = 0 ∧ lo < n then
    match randintE src 0 ((n : Int) - 1) s1 with
    | (some i, s2) => (some (cur.take i.toNat ++ cur.drop (i.toNat + 1)), s2)
    | (none, s2) => (none, s2)
  else if m = 1 ∧ n < hi then
    match choice src al s1 with
    | (some c, s2) =>
      (match randintE src 0 ((n : Int) - 1) s2 with
       | (some i, s3) => (some (cur.take i.toNat ++ c :: cur.drop i.toNat), s3)
       | (none, s3) => (none, s3))
    | (none, s2) => (none, s2)
  else if 0 < n then
    match randintE src 0 ((n : Int) - 1) s1 with
    | (some i, s2) =>
      (match choice src al s2 with
       | (some c, s3) => (some (cur.take i.toNat ++ c :: cur.drop (i.toNat + 1)), s3)
       | (none, s3) => (none, s3))
    | (none, s2) => (none, s2)
  else (some cur, s1)

/-- `crossover`: `cur[:mid] + other[mid:]` with `mid = randint(1, randint(lo, hi) - 1)` and `other` the same field of a drawn mate;
strings shorter than two letters (and an empty list of mates) are returned as they are. -/
def strCrossover (lo hi : Nat) (mates : List (List α)) (cur : List α) (s : σ) : Option (List α) × σ :=
  if mates.isEmpty ∨ cur.length < 2 then (some cur, s) else
  match randintE src lo hi s with
  | (some size, s1) =>
    (match randintE src 1 (size - 1) s1 with
     | (some mid, s2) =>
       (match choice src mates s2 with
        | (some other, s3) => (some (cur.take mid.toNat ++ other.drop mid.toNat), s3)
        | (none, s3) => (none, s3))
     | (none, s2) => (none, s2))
  | (none, s1) => (none, s1)

/-- the refinement: length within the bounds, letters from the alphabet -/
def InRange (lo hi : Nat) (al : List α) (w : List α) : Prop := lo ≤ w.length ∧ w.length ≤ hi ∧ ∀ c ∈ w, c ∈ al

/-- `WeightedStringHandler.generate`: one `choice_weighted(alphabet, row)` per row of the probability matrix, in order (rows given
as numerators over a common denominator); the result is the list of letter INDICES.  `none`: a draw failed (never, for a sound source
and a non-empty alphabet). -/
def wsGenerate (den : Nat) : List (List Nat) → σ → Option (List Nat) × σ
  | [], s => (some [], s)
  | row :: rows, s =>
    match choiceWeightedIdx src (accScaled den row) row.length s with
    | (some i, s1) =>
      (match wsGenerate den rows s1 with
       | (some is, s2) => (some (i :: is), s2)
       | (none, s2) => (none, s2))
    | (none, s1) => (none, s1)

/-- a row is usable when its scaled total weight is positive (the chooser's resolution is 1/100000) -/
def rowUsable (den : Nat) (row : List Nat) : Prop := 0 < (accScaled den row).getLastD 0

end GEVerif.StrOps
