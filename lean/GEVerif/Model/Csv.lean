/-
  Model of `geneticengine/evaluation/recorder.py` (CSVSearchRecorder), of the recorder
  construction in `geml/simplegp.py` (`SimpleGP.build_recorder`) and of the single-objective
  tracker's `is_best` flag (`evaluation/tracker.py`), plus the buffered-file model of DESIGN §3.

  Conventions
  * Column names are structured (`Name`), so that `"Fitness0"`, `"Fitness1"`, … are distinct by
    construction; a user may still call an extra field `Fitness0` or `Phenotype` (then the
    Python dict assignment REPLACES the extractor in place — modelled by `dictSet`).
  * User callbacks are uninterpreted: a cell records WHICH callback was applied to WHICH
    individual / program (`Cell.user cb ind`, `Cell.extra cb prog`).  Faithfulness statements
    therefore hold for every interpretation of the callbacks.
  * A closure created in a loop captures the loop VARIABLE (`Capt.cell`, read at call time:
    Python's late binding) unless the value is bound per closure (`Capt.bound v`, the
    `lambda …, comp=comp:` idiom).  `Binding.late` is the code as pinned, `Binding.perClosure`
    the code as repaired; the recorder is parametric in it.
  * File = `(disk, buffer)`.  `write` appends to the buffer, the adversary may move any prefix
    of the buffer to disk at any time (`spill`), `flush` moves everything.
-/
namespace GEVerif.Csv

/-! ### Python `dict` with insertion order -/

section Dict
variable {κ α : Type} [DecidableEq κ]

def dictGet (k : κ) : List (κ × α) → Option α
  | [] => none
  | (k', v) :: rest => if k' = k then some v else dictGet k rest

/-- `d[k] = v`: replace in place when the key exists, append otherwise. -/
def dictSet (k : κ) (v : α) : List (κ × α) → List (κ × α)
  | [] => [(k, v)]
  | (k', v') :: rest => if k' = k then (k, v) :: rest else (k', v') :: dictSet k v rest

/-- `for k in u: d[k] = u[k]`. -/
def dictUpdate (d u : List (κ × α)) : List (κ × α) :=
  u.foldl (fun d p => dictSet p.1 p.2 d) d

def keys (d : List (κ × α)) : List κ := d.map (·.1)

/-- The entry that survives when `u` is poured into a dict: the LAST one with that key. -/
def lastGet (k : κ) : List (κ × α) → Option α
  | [] => none
  | (k', v) :: rest => match lastGet k rest with
    | some w => some w
    | none => if k' = k then some v else none

end Dict

/-! ### Individuals, cells, names -/

/-- An evaluated individual as the recorder sees it. -/
structure Ind where
  id : Nat            -- identity of the `Individual` object
  prog : Nat          -- its program (phenotype)
  comps : List Int    -- `get_fitness(problem).fitness_components`
  deriving Repr, DecidableEq

inductive Name where
  | time                -- "Execution Time"
  | pheno               -- "Phenotype"
  | fitness (k : Nat)   -- f"Fitness{k}"
  | custom (n : Nat)    -- any other user-chosen name
  deriving Repr, DecidableEq

inductive Cell where
  | time                          -- a wall-clock float: never compared
  | pheno (prog : Nat)            -- `i.get_phenotype()` of program `prog`
  | fit (v : Int)                 -- one fitness component
  | user (cb : Nat) (ind : Nat)   -- FieldMapper `cb` applied to `(tracker, individual ind, problem)`
  | extra (cb : Nat) (prog : Nat) -- SimpleGP extra-field callback `cb` applied to program `prog`
  | err                           -- the extractor raised (`IndexError`)
  deriving Repr, DecidableEq

/-! ### Closures -/

inductive Binding where
  | late         -- the closure reads the loop variable when called
  | perClosure   -- the closure owns a copy made when it was created
  deriving Repr, DecidableEq

inductive Capt where
  | cell
  | bound (v : Nat)
  deriving Repr, DecidableEq

def capture (b : Binding) (v : Nat) : Capt :=
  match b with
  | .late => .cell
  | .perClosure => .bound v

/-- Reading a captured loop variable at call time; `final` is the value the loop variable
holds after the loop has ended. -/
def readCapt (final : Nat) : Capt → Nat
  | .cell => final
  | .bound v => v

inductive Extractor where
  | time
  | pheno
  /-- `lambda t, i, p: i.get_fitness(p).fitness_components[comp]` -/
  | fitness (c : Capt) (final : Nat)
  /-- a user-supplied `FieldMapper` -/
  | user (cb : Nat)
  /-- SimpleGP: `lambda t, i, p: csv_extra_fields[cb](i.get_phenotype())`, `cb` ranging over the
  positions of `csv_extra_fields` (`cbs` = its callbacks by position) -/
  | wrapped (c : Capt) (final : Nat) (cbs : List Nat)
  deriving Repr, DecidableEq

/-- `i.get_fitness(p).fitness_components[c]` (`IndexError` when there is no such component) -/
def fitCell (i : Ind) (c : Nat) : Cell :=
  match i.comps[c]? with
  | some v => .fit v
  | none => .err

def evalEx : Extractor → Ind → Cell
  | .time, _ => .time
  | .pheno, i => .pheno i.prog
  | .fitness c final, i => fitCell i (readCapt final c)
  | .user cb, i => .user cb i.id
  | .wrapped c final cbs, i =>
    match cbs[readCapt final c]? with
    | some cb => .extra cb i.prog
    | none => .err

/-! ### Recorder construction -/

abbrev Table := List (Name × Extractor)

/-- the default `fields` dict: two fixed entries, then
`for comp in range(k): self.fields[f"Fitness{comp}"] = lambda …` -/
def defaultFields (b : Binding) (k : Nat) : Table :=
  dictUpdate [(Name.time, Extractor.time), (Name.pheno, Extractor.pheno)]
    ((List.range k).map fun comp => (Name.fitness comp, Extractor.fitness (capture b comp) (k - 1)))

/-- Configuration of a `CSVSearchRecorder`. `fields = none` selects the defaults. -/
structure Config where
  nObj : Nat
  fields : Option Table
  extras : Table
  onlyBest : Bool
  deriving Repr

/-- `self.fields` after `__init__`. -/
def buildFields (b : Binding) (cfg : Config) : Table :=
  dictUpdate (match cfg.fields with
    | some fs => fs
    | none => defaultFields b cfg.nObj) cfg.extras

/-- `SimpleGP.build_recorder`: the comprehension over the user's `csv_extra_fields`
(name ↦ callback id, in dict order).  `j` is the position the loop variable has reached, `cbs`
the callbacks of `csv_extra_fields` by position. -/
def simpleGPExtrasGo (b : Binding) (final : Nat) (cbs : List Nat) : Nat → List (Name × Nat) → Table
  | _, [] => []
  | j, (n, _) :: rest =>
    (n, Extractor.wrapped (capture b j) final cbs) :: simpleGPExtrasGo b final cbs (j + 1) rest

def simpleGPExtras (b : Binding) (csvExtra : List (Name × Nat)) : Table :=
  simpleGPExtrasGo b (csvExtra.length - 1) (csvExtra.map (·.2)) 0 csvExtra

/-- a dict of user `FieldMapper`s -/
def userTable (l : List (Name × Nat)) : Table := l.map fun p => (p.1, Extractor.user p.2)

/-- a `CSVSearchRecorder` built directly by the user -/
def recorderConfig (k : Nat) (fields : Option (List (Name × Nat))) (extras : List (Name × Nat))
    (onlyBest : Bool) : Config :=
  { nObj := k, fields := fields.map userTable, extras := userTable extras, onlyBest := onlyBest }

def simpleGPConfig (b : Binding) (k : Nat) (csvExtra : List (Name × Nat)) (onlyBest : Bool) : Config :=
  { nObj := k, fields := none, extras := simpleGPExtras b csvExtra, onlyBest := onlyBest }

def header (t : Table) : List Name := keys t
def rowOf (t : Table) (i : Ind) : List Cell := t.map fun p => evalEx p.2 i

/-- The cell written under column `name` for individual `i`. -/
def colCell (t : Table) (i : Ind) (name : Name) : Option Cell :=
  (dictGet name t).map fun ex => evalEx ex i

/-! ### File model -/

inductive Sym where
  | name (n : Name)
  | cell (c : Cell)
  | eol
  deriving Repr, DecidableEq

structure File where
  disk : List Sym
  buffer : List Sym
  deriving Repr

def File.write (f : File) (xs : List Sym) : File := { f with buffer := f.buffer ++ xs }
/-- the adversary moves the first `k` buffered symbols to disk -/
def File.spill (f : File) (k : Nat) : File :=
  { disk := f.disk ++ f.buffer.take k, buffer := f.buffer.drop k }
def File.flush (f : File) : File := { disk := f.disk ++ f.buffer, buffer := [] }

def renderHeader (ns : List Name) : List Sym := ns.map Sym.name ++ [Sym.eol]
def renderRow (cs : List Cell) : List Sym := cs.map Sym.cell ++ [Sym.eol]

/-- Split a byte stream into complete lines and the trailing incomplete one. -/
def splitEol : List Sym → List (List Sym) × List Sym
  | [] => ([], [])
  | Sym.eol :: rest => let (ls, t) := splitEol rest; ([] :: ls, t)
  | s :: rest =>
    match splitEol rest with
    | ([], t) => ([], s :: t)
    | (l :: ls, t) => ((s :: l) :: ls, t)

/-! ### The recorder as a state machine -/

structure Recorder where
  table : Table
  onlyBest : Bool
  file : File
  deriving Repr

/-- `__init__`: `open(path, "w")` (empty file), write the header, flush. `adv` = what the
adversary spills between the write and the flush. -/
def Recorder.new (b : Binding) (cfg : Config) (adv : Nat) : Recorder :=
  let t := buildFields b cfg
  { table := t, onlyBest := cfg.onlyBest,
    file := (((File.mk [] []).write (renderHeader (header t))).spill adv).flush }

def records (onlyBest best : Bool) : Bool := !onlyBest || best

/-- the state between `writerow` and `flush` inside `register` -/
def Recorder.registerWrite (r : Recorder) (adv : Nat) (i : Ind) : Recorder :=
  { r with file := (r.file.write (renderRow (rowOf r.table i))).spill adv }

def Recorder.register (r : Recorder) (adv : Nat) (i : Ind) (best : Bool) : Recorder :=
  if records r.onlyBest best then
    let r' := r.registerWrite adv i
    { r' with file := r'.file.flush }
  else r

/-- What happens to a recorder: registrations (with the adversary's move inside) and
adversarial spills between them. -/
inductive Ev where
  | reg (adv : Nat) (i : Ind) (best : Bool)
  | spill (k : Nat)
  deriving Repr

def Recorder.step (r : Recorder) : Ev → Recorder
  | .reg adv i best => r.register adv i best
  | .spill k => { r with file := r.file.spill k }

def Recorder.run (r : Recorder) (evs : List Ev) : Recorder := evs.foldl Recorder.step r

/-- the individuals whose row must be in the log, in order -/
def recorded (onlyBest : Bool) : List Ev → List Ind
  | [] => []
  | .reg _ i best :: rest => if records onlyBest best then i :: recorded onlyBest rest else recorded onlyBest rest
  | .spill _ :: rest => recorded onlyBest rest

/-- the complete log for a list of recorded individuals -/
def fullLog (t : Table) (is : List Ind) : List Sym :=
  renderHeader (header t) ++ is.flatMap fun i => renderRow (rowOf t i)

/-! ### The single-objective tracker's flag

`post_process`: `is_best` iff there is no best yet or `is_better(new, best)` (strictly greater
maximising aggregate); the best is replaced exactly then. -/
def trackFlags : Option Int → List Int → List Bool
  | _, [] => []
  | none, a :: rest => true :: trackFlags (some a) rest
  | some b, a :: rest => if b < a then true :: trackFlags (some a) rest else false :: trackFlags (some b) rest

/-! ### Independent specification of a cell (no closures, no dict mutation) -/

/-- What the property says column `name` must hold for individual `i`: an extra field of that
name is computed by its own callback; otherwise a user field by its callback; otherwise the
default meaning of the name.  `mk cb i` is the cell a callback produces. -/
def specCell (k : Nat) (fields : Option (List (Name × Nat))) (extras : List (Name × Nat))
    (mkField mkExtra : Nat → Ind → Cell) (name : Name) (i : Ind) : Option Cell :=
  match lastGet name extras with
  | some cb => some (mkExtra cb i)
  | none =>
    match fields with
    | some fs => (dictGet name fs).map fun cb => mkField cb i
    | none =>
      match name with
      | .time => some .time
      | .pheno => some (.pheno i.prog)
      | .fitness c => if c < k then some (fitCell i c) else none
      | .custom _ => none

/-- names of the columns the configuration asks for: the user's fields (or the defaults), then
every extra field whose name is new -/
def specColumns (k : Nat) (fields : Option (List (Name × Nat))) (extras : List (Name × Nat)) : List Name :=
  let base := match fields with
    | some fs => keys fs
    | none => [Name.time, Name.pheno] ++ (List.range k).map Name.fitness
  extras.foldl (fun ns p => if p.1 ∈ ns then ns else ns ++ [p.1]) base

/-- the events a single-objective tracker generates for a sequence of evaluated individuals
(with their maximising aggregates) -/
def trackerEvs (xs : List (Ind × Int)) : List Ev :=
  List.zipWith (fun x f => Ev.reg 0 x.1 f) xs (trackFlags none (xs.map (·.2)))

end GEVerif.Csv
