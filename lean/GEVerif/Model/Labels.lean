/-
  Model of `geneticengine/representations/tree/utils.py::relabel_nodes` (tree-depth mode,
  i.e. `expansion_depthing = False`) and the independent specification of the four labels.

  Convention (pinned by `tests/.../relabel_test.py` and docs/source/grammars.md): terminals are
  base values and field-less class instances (all labels 0); lists and tuples are transparent
  containers: their elements count as children of the enclosing node.
-/
import GEVerif.Model.Grammar
import GEVerif.Model.Tree

namespace GEVerif

/-- key of `gengy_types_this_way` -/
inductive TKey where
  | int | float | str | bool | tuple | list
  | cls (n : Nat)
  | other
  deriving Repr, BEq, DecidableEq, Inhabited

def Val.key : Val → TKey
  | .int _ => .int | .float => .float | .str _ => .str | .bool _ => .bool
  | .node c _ _ _ => .cls c
  | .list _ _ _ => .list
  | .tuple _ => .tuple
  | .foreign _ => .other

structure Lab where
  nodes : Nat
  dtt : Nat
  weighted : Nat
  types : List (TKey × Nat)     -- number of occurrences per key, in first-seen order
  deriving Repr, BEq, Inhabited

def addCount (m : List (TKey × Nat)) (k : TKey) (n : Nat) : List (TKey × Nat) :=
  match m with
  | [] => [(k, n)]
  | (k', c) :: rest => if k' == k then (k', c + n) :: rest else (k', c) :: addCount rest k n

def mergeCounts (a b : List (TKey × Nat)) : List (TKey × Nat) :=
  b.foldl (fun acc (k, n) => addCount acc k n) a

/-- a class instance is a terminal for the labels iff its class is not a non-terminal of the
grammar (field-less productions) -/
def Grammar.isTerminalCls (g : Grammar) (c : Nat) : Bool :=
  !(g.reg.nonTerminals.contains (.cls c))

mutual
/-- `relabel_nodes` on a fresh (unlabelled) value. -/
def relabel (g : Grammar) : Val → Lab
  | .node c _ _ args =>
      if g.isTerminalCls c then ⟨0, 0, 0, [(.cls c, 1)]⟩ else
      let (n, d, w, t) := relabelChildren g args
      let dtt := max 1 d
      ⟨1 + n, dtt, w + dtt, mergeCounts [(.cls c, 1)] t⟩
  | .list _ _ vs =>
      let (n, d, w, t) := relabelChildren g vs
      ⟨n, d, w, mergeCounts [(.list, 1)] t⟩
  | .tuple vs =>
      let (n, d, w, t) := relabelChildren g vs
      ⟨n, d, w, mergeCounts [(.tuple, 1)] t⟩
  | v => ⟨0, 0, 0, [(v.key, 1)]⟩
/-- fold over children: (Σ nodes, max (dtt + adjust), Σ weighted, merged types); the adjust is
0 for a container child (its elements are the real children) and 1 otherwise -/
def relabelChildren (g : Grammar) : List Val → Nat × Nat × Nat × List (TKey × Nat)
  | [] => (0, 0, 0, [])
  | c :: cs =>
      let l := relabel g c
      let (n, d, w, t) := relabelChildren g cs
      let adj := match c with | .list .. => 0 | .tuple .. => 0 | _ => 1
      (l.nodes + n, max (l.dtt + adj) d, l.weighted + w, mergeCounts l.types t)
end

/-! ### Independent specification by flat traversal -/

mutual
/-- all sub-values in pre-order (the value itself first) -/
def Val.subvalues : Val → List Val
  | .node c d e args => .node c d e args :: Val.subvaluesList args
  | .list d e vs => .list d e vs :: Val.subvaluesList vs
  | .tuple vs => .tuple vs :: Val.subvaluesList vs
  | v => [v]
def Val.subvaluesList : List Val → List Val
  | [] => []
  | v :: vs => Val.subvalues v ++ Val.subvaluesList vs
end

def Val.isNonTerminalNode (g : Grammar) : Val → Bool
  | .node c _ _ _ => !g.isTerminalCls c
  | _ => false

/-- node count: the number of non-terminal grammar nodes in the structure -/
def nodesSpec (g : Grammar) (v : Val) : Nat :=
  (v.subvalues.filter (Val.isNonTerminalNode g)).length

mutual
/-- distance to the deepest terminal: edges from a node to its (container-flattened) children -/
def dttSpec (g : Grammar) : Val → Nat
  | .node c _ _ args => if g.isTerminalCls c then 0 else max 1 (dttChildren g args)
  | .list _ _ vs => dttChildren g vs
  | .tuple vs => dttChildren g vs
  | _ => 0
def dttChildren (g : Grammar) : List Val → Nat
  | [] => 0
  | c :: cs =>
      let adj := match c with | .list .. => 0 | .tuple .. => 0 | _ => 1
      max (dttSpec g c + adj) (dttChildren g cs)
end

/-- weighted size: the sum of `dtt` over all non-terminal nodes -/
def weightedSpec (g : Grammar) (v : Val) : Nat :=
  ((v.subvalues.filter (Val.isNonTerminalNode g)).map (dttSpec g)).sum

/-- occurrences of a type key beneath (and including) a value -/
def typeCountSpec (v : Val) (k : TKey) : Nat :=
  (v.subvalues.filter fun x => x.key == k).length

def lookupCount (m : List (TKey × Nat)) (k : TKey) : Nat :=
  match m with
  | [] => 0
  | (k', c) :: rest => if k' == k then c else lookupCount rest k

end GEVerif
