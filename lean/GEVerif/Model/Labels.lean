/-
  Model of `geneticengine/representations/tree/utils.py::relabel_nodes` (tree-depth mode,
  i.e. `expansion_depthing = False`) and the independent specification of the four labels.

  Convention (pinned by `tests/.../relabel_test.py` and docs/source/grammars.md): terminals are
  base values and field-less class instances (all labels 0); lists and tuples are transparent
  containers: their elements count as children of the enclosing node.
-/
import GEVerif.Model.Grammar
import GEVerif.Model.Tree

namespace GEVerif

/-- key of `gengy_types_this_way` -/
inductive TKey where
  | int | float | str | bool | tuple | list
  | cls (n : Nat)
  | other
  deriving Repr, BEq, DecidableEq, Inhabited

def Val.key : Val → TKey
  | .int _ => .int | .float => .float | .str _ => .str | .bool _ => .bool
  | .node c _ _ _ => .cls c
  | .list _ _ _ => .list
  | .tuple _ => .tuple
  | .foreign _ => .other

structure Lab where
  nodes : Nat
  dtt : Nat
  weighted : Nat
  types : List (TKey × Nat)     -- number of occurrences per key, in first-seen order
  deriving Repr, BEq, Inhabited

def addCount (m : List (TKey × Nat)) (k : TKey) (n : Nat) : List (TKey × Nat) :=
  match m with
  | [] => [(k, n)]
  | (k', c) :: rest => if k' == k then (k', c + n) :: rest else (k', c) :: addCount rest k n

def mergeCounts (a b : List (TKey × Nat)) : List (TKey × Nat) :=
  b.foldl (fun acc (k, n) => addCount acc k n) a

/-- a class instance is a terminal for the labels iff its class is not a non-terminal of the
grammar (field-less productions) -/
def Grammar.isTerminalCls (g : Grammar) (c : Nat) : Bool :=
  !(g.reg.nonTerminals.contains (.cls c))

mutual
/-- `relabel_nodes` on a fresh (unlabelled) value. -/
def relabel (g : Grammar) : Val → Lab
  | .node c _ _ args =>
      if g.isTerminalCls c then ⟨0, 0, 0, [(.cls c, 1)]⟩ else
      let (n, d, w, t) := relabelChildren g args
      let dtt := max 1 d
      ⟨1 + n, dtt, w + dtt, mergeCounts [(.cls c, 1)] t⟩
  | .list _ _ vs =>
      let (n, d, w, t) := relabelChildren g vs
      ⟨n, d, w, mergeCounts [(.list, 1)] t⟩
  | .tuple vs =>
      let (n, d, w, t) := relabelChildren g vs
      ⟨n, d, w, mergeCounts [(.tuple, 1)] t⟩
  | v => ⟨0, 0, 0, [(v.key, 1)]⟩
/-- fold over children: (Σ nodes, max (dtt + adjust), Σ weighted, merged types); the adjust is
0 for a container child (its elements are the real children) and 1 otherwise -/
def relabelChildren (g : Grammar) : List Val → Nat × Nat × Nat × List (TKey × Nat)
  | [] => (0, 0, 0, [])
  | c :: cs =>
      let l := relabel g c
      let (n, d, w, t) := relabelChildren g cs
      let adj := match c with | .list .. => 0 | .tuple .. => 0 | _ => 1
      (l.nodes + n, max (l.dtt + adj) d, l.weighted + w, mergeCounts l.types t)
end

/-! ### Independent specification by flat traversal -/

mutual
/-- all sub-values in pre-order (the value itself first) -/
def Val.subvalues : Val → List Val
  | .node c d e args => .node c d e args :: Val.subvaluesList args
  | .list d e vs => .list d e vs :: Val.subvaluesList vs
  | .tuple vs => .tuple vs :: Val.subvaluesList vs
  | v => [v]
def Val.subvaluesList : List Val → List Val
  | [] => []
  | v :: vs => Val.subvalues v ++ Val.subvaluesList vs
end

def Val.isNonTerminalNode (g : Grammar) : Val → Bool
  | .node c _ _ _ => !g.isTerminalCls c
  | _ => false

/-- node count: the number of non-terminal grammar nodes in the structure -/
def nodesSpec (g : Grammar) (v : Val) : Nat :=
  (v.subvalues.filter (Val.isNonTerminalNode g)).length

mutual
/-- distance to the deepest terminal: edges from a node to its (container-flattened) children -/
def dttSpec (g : Grammar) : Val → Nat
  | .node c _ _ args => if g.isTerminalCls c then 0 else max 1 (dttChildren g args)
  | .list _ _ vs => dttChildren g vs
  | .tuple vs => dttChildren g vs
  | _ => 0
def dttChildren (g : Grammar) : List Val → Nat
  | [] => 0
  | c :: cs =>
      let adj := match c with | .list .. => 0 | .tuple .. => 0 | _ => 1
      max (dttSpec g c + adj) (dttChildren g cs)
end

/-- weighted size: the sum of `dtt` over all non-terminal nodes -/
def weightedSpec (g : Grammar) (v : Val) : Nat :=
  ((v.subvalues.filter (Val.isNonTerminalNode g)).map (dttSpec g)).sum

/-- occurrences of a type key beneath (and including) a value -/
def typeCountSpec (v : Val) (k : TKey) : Nat :=
  (v.subvalues.filter fun x => x.key == k).length

def lookupCount (m : List (TKey × Nat)) (k : TKey) : Nat :=
  match m with
  | [] => 0
  | (k', c) :: rest => if k' == k then c else lookupCount rest k

/-! ### The memoised algorithm on trees that carry cached labels

`relabel_nodes` returns the stored labels of an object whose `gengy_labeled` flag is set WITHOUT
looking at its children, and otherwise computes the labels from the children's results and
stores them on the object.  Class instances and `GengyList`s can carry the attributes
(`cache`); base values, tuples and foreign objects cannot. -/

inductive LVal where
  | int (i : Int)
  | float
  | str (s : String)
  | bool (b : Bool)
  | node (cache : Option Lab) (cls depth exp : Nat) (args : List LVal)
  | list (cache : Option Lab) (depth exp : Nat) (vs : List LVal)
  | tuple (vs : List LVal)
  | foreign (tag : String)
  deriving Repr, Inhabited

mutual
/-- forget the cached labels -/
def LVal.erase : LVal → Val
  | .int i => .int i
  | .float => .float
  | .str s => .str s
  | .bool b => .bool b
  | .node _ c d e args => .node c d e (LVal.eraseList args)
  | .list _ d e vs => .list d e (LVal.eraseList vs)
  | .tuple vs => .tuple (LVal.eraseList vs)
  | .foreign t => .foreign t
def LVal.eraseList : List LVal → List Val
  | [] => []
  | v :: vs => LVal.erase v :: LVal.eraseList vs
end

mutual
/-- a value on which nothing is labelled yet -/
def LVal.fresh : Val → LVal
  | .int i => .int i
  | .float => .float
  | .str s => .str s
  | .bool b => .bool b
  | .node c d e args => .node none c d e (LVal.freshList args)
  | .list d e vs => .list none d e (LVal.freshList vs)
  | .tuple vs => .tuple (LVal.freshList vs)
  | .foreign t => .foreign t
def LVal.freshList : List Val → List LVal
  | [] => []
  | v :: vs => LVal.fresh v :: LVal.freshList vs
end

/-- the `gengy_*` attributes of the object itself, if `gengy_labeled` is set -/
def LVal.rootCache : LVal → Option Lab
  | .node cache .. => cache
  | .list cache .. => cache
  | _ => none

/-- can the object carry the attributes at all? -/
def LVal.canCache : LVal → Bool
  | .node .. => true
  | .list .. => true
  | _ => false

mutual
/-- `relabel_nodes` with its memoisation: the labels it returns and the tree it leaves behind. -/
def relabelMemo (g : Grammar) : LVal → Lab × LVal
  | .node (some l) c d e args => (l, .node (some l) c d e args)
  | .node none c d e args =>
      if g.isTerminalCls c then
        let l : Lab := ⟨0, 0, 0, [(.cls c, 1)]⟩
        (l, .node (some l) c d e args)
      else
        let (r, args') := relabelMemoChildren g args
        let dtt := max 1 r.2.1
        let l : Lab := ⟨1 + r.1, dtt, r.2.2.1 + dtt, mergeCounts [(.cls c, 1)] r.2.2.2⟩
        (l, .node (some l) c d e args')
  | .list (some l) d e vs => (l, .list (some l) d e vs)
  | .list none d e vs =>
      let (r, vs') := relabelMemoChildren g vs
      let l : Lab := ⟨r.1, r.2.1, r.2.2.1, mergeCounts [(.list, 1)] r.2.2.2⟩
      (l, .list (some l) d e vs')
  | .tuple vs =>
      let (r, vs') := relabelMemoChildren g vs
      (⟨r.1, r.2.1, r.2.2.1, mergeCounts [(.tuple, 1)] r.2.2.2⟩, .tuple vs')
  | .int i => (⟨0, 0, 0, [(.int, 1)]⟩, .int i)
  | .float => (⟨0, 0, 0, [(.float, 1)]⟩, .float)
  | .str s => (⟨0, 0, 0, [(.str, 1)]⟩, .str s)
  | .bool b => (⟨0, 0, 0, [(.bool, 1)]⟩, .bool b)
  | .foreign t => (⟨0, 0, 0, [(.other, 1)]⟩, .foreign t)
def relabelMemoChildren (g : Grammar) :
    List LVal → (Nat × Nat × Nat × List (TKey × Nat)) × List LVal
  | [] => ((0, 0, 0, []), [])
  | c :: cs =>
      let (l, c') := relabelMemo g c
      let (r, cs') := relabelMemoChildren g cs
      let adj := match c with | .list .. => 0 | .tuple .. => 0 | _ => 1
      ((l.nodes + r.1, max (l.dtt + adj) r.2.1, l.weighted + r.2.2.1, mergeCounts l.types r.2.2.2),
       c' :: cs')
end

mutual
/-- every cached label anywhere in the tree is the label of the (immutable) subtree it sits on -/
def CachesCorrect (g : Grammar) : LVal → Prop
  | .node cache c d e args =>
      (∀ l, cache = some l → l = relabel g (.node c d e (LVal.eraseList args))) ∧
        CachesCorrectList g args
  | .list cache d e vs =>
      (∀ l, cache = some l → l = relabel g (.list d e (LVal.eraseList vs))) ∧
        CachesCorrectList g vs
  | .tuple vs => CachesCorrectList g vs
  | _ => True
def CachesCorrectList (g : Grammar) : List LVal → Prop
  | [] => True
  | v :: vs => CachesCorrect g v ∧ CachesCorrectList g vs
end

mutual
/-- every class instance and every list in the tree carries labels -/
def LVal.fullyLabelled : LVal → Bool
  | .node cache _ _ _ args => cache.isSome && LVal.fullyLabelledList args
  | .list cache _ _ vs => cache.isSome && LVal.fullyLabelledList vs
  | .tuple vs => LVal.fullyLabelledList vs
  | _ => true
def LVal.fullyLabelledList : List LVal → Bool
  | [] => true
  | v :: vs => LVal.fullyLabelled v && LVal.fullyLabelledList vs
end

mutual
/-- labelling happened bottom-up: below a labelled object everything is labelled (what
`wrap_result` after every constructor application maintains) -/
def LVal.labelClosed : LVal → Bool
  | .node cache _ _ _ args =>
      if cache.isSome then LVal.fullyLabelledList args else LVal.labelClosedList args
  | .list cache _ _ vs =>
      if cache.isSome then LVal.fullyLabelledList vs else LVal.labelClosedList vs
  | .tuple vs => LVal.labelClosedList vs
  | _ => true
def LVal.labelClosedList : List LVal → Bool
  | [] => true
  | v :: vs => LVal.labelClosed v && LVal.labelClosedList vs
end

mutual
/-- all subtrees in pre-order (the tree itself first) -/
def LVal.subtrees : LVal → List LVal
  | .node cache c d e args => .node cache c d e args :: LVal.subtreesList args
  | .list cache d e vs => .list cache d e vs :: LVal.subtreesList vs
  | .tuple vs => .tuple vs :: LVal.subtreesList vs
  | v => [v]
def LVal.subtreesList : List LVal → List LVal
  | [] => []
  | v :: vs => LVal.subtrees v ++ LVal.subtreesList vs
end

end GEVerif
