/-
  Model of `geneticengine/random/sources.py` and of the genotype-backed sources
  (`ge.ListWrapper`, `structured_ge.StructuredListWrapper`, `stackgggp.ListWrapper`),
  plus the deciders' bounded integer draws.

  A random source is any state type `σ` with a `randint lo hi` transition.  Everything the
  library derives from `randint` (choice, choice_weighted, shuffle, pop_random, random_bool)
  is defined here once, for an arbitrary source, exactly as `RandomSource` defines it.
-/
namespace GEVerif

/-- An abstract random source. `randint lo hi s` returns the drawn value and the next state. -/
structure Source (σ : Type) where
  randint : Int → Int → σ → Int × σ

/-- The contract of `randint`: inclusive bounds. -/
def Source.Sound {σ : Type} (src : Source σ) : Prop :=
  ∀ lo hi s, lo ≤ hi → lo ≤ (src.randint lo hi s).1 ∧ (src.randint lo hi s).1 ≤ hi

/-! ### The scripted source used by the correspondence harness

`ScriptedSource.randint(lo, hi)` returns `lo + d mod (hi - lo + 1)` for the next script
element `d` (0 once the script is exhausted). -/

structure Script where
  draws : List Nat
  pos : Nat := 0
  deriving Repr

def Script.next (s : Script) : Nat × Script :=
  (s.draws.getD s.pos 0, { s with pos := s.pos + 1 })

def scriptedRandint (lo hi : Int) (s : Script) : Int × Script :=
  let (d, s') := s.next
  (lo + (d : Int) % (hi - lo + 1), s')

def scripted : Source Script := ⟨scriptedRandint⟩

/-! ### Genotype-backed sources -/

/-- `ge.ListWrapper` / `stackgggp.ListWrapper`: pre-increment with wrap-around, then reduce the
gene modulo the width.  `dna = []` is rejected by the real code (`ZeroDivisionError`); the model
returns gene 0 there and the driver reports the error branch separately. -/
structure GeneSrc where
  dna : List Int
  index : Nat := 0
  deriving Repr

def geneRandint (lo hi : Int) (s : GeneSrc) : Int × GeneSrc :=
  let idx := (s.index + 1) % s.dna.length
  let v := s.dna.getD idx 0
  (v % (hi - lo + 1) + lo, { s with index := idx })

def geneSource : Source GeneSrc := ⟨geneRandint⟩

/-- `structured_ge.StructuredListWrapper`: one cursor per key; `randint` without a `prod`
argument always reads the `$infrastructure` key. -/
structure SGESrc where
  dna : List (String × List Int)
  indexes : List (String × Nat)
  deriving Repr

def lookupD {α : Type} (k : String) (d : α) : List (String × α) → α
  | [] => d
  | (k', v) :: rest => if k' = k then v else lookupD k d rest

def setKey {α : Type} (k : String) (v : α) : List (String × α) → List (String × α)
  | [] => [(k, v)]
  | (k', v') :: rest => if k' = k then (k, v) :: rest else (k', v') :: setKey k v rest

def sgeRandintKey (key : String) (lo hi : Int) (s : SGESrc) : Int × SGESrc :=
  let genes := lookupD key [] s.dna
  let idx := (lookupD key 0 s.indexes + 1) % genes.length
  let v := genes.getD idx 0
  (v % (hi - lo + 1) + lo, { s with indexes := setKey key idx s.indexes })

def sgeSource : Source SGESrc := ⟨sgeRandintKey "$infrastructure"⟩

/-! ### Derived primitives, as in `RandomSource` -/

section Derived
variable {σ : Type} (src : Source σ)

/-- `choice`: `assert choices; i = randint(0, len-1); return choices[i]`. `none` is the
assertion / index error. -/
def choice {α : Type} (xs : List α) (s : σ) : Option α × σ :=
  if xs.isEmpty then (none, s) else
  let (i, s') := src.randint 0 ((xs.length : Int) - 1) s
  (if 0 ≤ i then xs[i.toNat]? else none, s')

/-- `random_bool = choice([True, False])`. -/
def randomBool (s : σ) : Option Bool × σ := choice src [true, false] s

/-- Integer prefix sums scaled as in `choice_weighted`:
`acc_i = int((w_0 + … + w_i) * 100000)` for weights `w_i = n_i / den` (exact rationals). -/
def accScaled (den : Nat) (ns : List Nat) : List Nat :=
  let rec go (run : Nat) : List Nat → List Nat
    | [] => []
    | n :: rest => ((run + n) * 100000 / den) :: go (run + n) rest
  go 0 ns

/-- Index of the first accumulated weight strictly above `r`. -/
def pickAcc : List Nat → Nat → Option Nat
  | [], _ => none
  | a :: rest, r => if r < a then some 0 else (pickAcc rest r).map (· + 1)

/-- `choice_weighted` (as repaired by the `fix:` commit): draw in `[0, total-1]`, return the
first option whose accumulated weight exceeds the draw; with no positive total weight fall back
to a uniform `choice`. -/
def choiceWeightedIdx (acc : List Nat) (n : Nat) (s : σ) : Option Nat × σ :=
  let total := acc.getLastD 0
  if total = 0 then
    if n = 0 then (none, s) else
    let (i, s') := src.randint 0 ((n : Int) - 1) s
    (if 0 ≤ i ∧ i.toNat < n then some i.toNat else none, s')
  else
    let (r, s') := src.randint 0 ((total : Int) - 1) s
    (if 0 ≤ r then pickAcc acc r.toNat else none, s')

/-- One Fisher–Yates pass as written in `shuffle`: `for i in reversed(range(1, len))`,
`j = randint(0, i)`, swap. -/
def swapAt {α : Type} (xs : List α) (i j : Nat) : List α :=
  match xs[i]?, xs[j]? with
  | some a, some b => (xs.set i b).set j a
  | _, _ => xs

def shuffleGo {α : Type} : Nat → List α → σ → List α × σ
  | 0, xs, s => (xs, s)
  | i + 1, xs, s =>
    let (j, s') := src.randint 0 ((i + 1 : Nat) : Int) s
    shuffleGo i (swapAt xs (i + 1) j.toNat) s'

def shuffle {α : Type} (xs : List α) (s : σ) : List α × σ :=
  shuffleGo src (xs.length - 1) xs s

/-- `pop_random`: pop the last, draw `i ∈ [0, len-1]` (new length), return the popped item if
`i == len` else swap it into slot `i` and return the evicted element.  Result: (item, rest). -/
def popRandom {α : Type} (xs : List α) (s : σ) : Option (α × List α) × σ :=
  match xs.getLast?, xs.dropLast with
  | none, _ => (none, s)
  | some item, rest =>
    let (i, s') := src.randint 0 (rest.length : Int) s
    if i = (rest.length : Int) then (some (item, rest), s')
    else if 0 ≤ i then
      match rest[i.toNat]? with
      | some y => (some (y, rest.set i.toNat item), s')
      | none => (none, s')
    else (none, s')

end Derived

/-! ### The deciders' bounded integer draw -/

/-- `BaseDecider.random_int` (as repaired): narrow ranges draw directly; wide ranges
(`width > 1000`) return `lo + half ± (n^e mod (half+1))`, with `n ∈ [0,10]` and
`e ∈ [0, E]`, `E = round(log10(width))` supplied by the caller (float `log10` is not modelled). -/
def deciderRandomInt {σ : Type} (src : Source σ) (E : Nat) (lo hi : Int) (s : σ) : Option Int × σ :=
  let width := hi - lo
  if width > 1000 then
    let half := width / 2
    let (n, s1) := src.randint 0 10 s
    let (e, s2) := src.randint 0 (E : Int) s1
    let extra := (n ^ e.toNat) % (half + 1)
    let (b, s3) := randomBool src s2
    match b with
    | some true => (some (lo + half + extra), s3)
    | some false => (some (lo + half - extra), s3)
    | none => (none, s3)
  else
    let (v, s') := src.randint lo hi s
    (some v, s')

/-- `DynamicSGEDecider.random_int` (as repaired): `gene mod (hi - lo + 1) + lo`. -/
def dsgeRandomInt (gene : Int) (lo hi : Int) : Int := gene % (hi - lo + 1) + lo

end GEVerif
