/-
  Model of `representations/stackgggp/__init__.py::create_tree_using_stacks` (the stack
  machine behind `StackBasedGGGPRepresentation.genotype_to_phenotype`), as the code stands:

  * one stack per mentioned symbol, INCLUDING refined (`Annotated`) types, whose values are built
    by calling the base type's constructor (`0`, `[]`, `''`, `()`, `0.0`) — never validated
    (open finding for C02);
  * every step draws a target symbol with `choice_weighted` over the symbols in the canonical
    (sorted) order, from the genotype-backed source;
  * an `IndexError` (a needed stack is empty) counts a failure; values already popped by the
    failing step are lost; the loop ends when the start symbol's stack is non-empty or after
    `failures_limit` failures.

  The order of the symbol list (`sorted(..., key=str)`) is an input: the model has no `str()`.
  Nodes built here carry no synthesis context (the machine never calls `wrap_result`); the model
  stores depth / expansions 0 and the driver prints them as `noctx`.
-/
import GEVerif.Model.Rand
import GEVerif.Model.Grammar
import GEVerif.Model.Tree
import GEVerif.Model.Synth

namespace GEVerif.Stack
open GEVerif

abbrev Stacks := List (Ty × List Val)

def getStack (t : Ty) (st : Stacks) : List Val := tyLookup t [] st
def hasStack (t : Ty) (st : Stacks) : Bool := st.any fun p => p.1 == t
def setStack (t : Ty) (vs : List Val) (st : Stacks) : Stacks := tySet t vs st
def push (t : Ty) (v : Val) (st : Stacks) : Stacks := setStack t (getStack t st ++ [v]) st

/-- result of one step: new stacks and whether it counted as a failure -/
structure StepOut where
  stacks : Stacks
  failed : Bool

/-- `stacks[t].pop(0)` -/
def popFront (t : Ty) (st : Stacks) : Option (Val × Stacks) :=
  match getStack t st with
  | [] => none
  | v :: rest => some (v, setStack t rest st)

/-- `stacks[t].pop()` -/
def popBack (t : Ty) (st : Stacks) : Option (Val × Stacks) :=
  match (getStack t st).getLast? with
  | none => none
  | some v => some (v, setStack t (getStack t st).dropLast st)

/-- tuple components from the FRONT of their stacks, left to right; on an empty stack the
components already taken stay removed -/
def takeTuple : List Ty → Stacks → Option (List Val) × Stacks
  | [], st => (some [], st)
  | t :: ts, st =>
    match popFront t st with
    | none => (none, st)
    | some (v, st1) =>
      match takeTuple ts st1 with
      | (some vs, st2) => (some (v :: vs), st2)
      | (none, st2) => (none, st2)

/-- constructor arguments from the BACK of their stacks, left to right; a field type without a
stack, or an empty stack, is the IndexError -/
def takeArgs : List (String × Ty) → Stacks → Option (List Val) × Stacks
  | [], st => (some [], st)
  | (_, t) :: fs, st =>
    if !hasStack t st then (none, st) else
    match popBack t st with
    | none => (none, st)
    | some (v, st1) =>
      match takeArgs fs st1 with
      | (some vs, st2) => (some (v :: vs), st2)
      | (none, st2) => (none, st2)

/-- `Annotated[base, …]()`: the base type's constructor with no arguments -/
def defaultOf : Ty → Val
  | .int => .int 0
  | .float => .float
  | .str => .str ""
  | .bool => .bool false
  | .list _ => .list 0 0 []
  | .tuple _ => .tuple []
  | .ann t _ => defaultOf t
  | .union _ => .foreign "union()"
  | .cls n => .node n 0 0 []

/-- one iteration of the loop body for the chosen target symbol -/
def step (g : Grammar) (target : Ty) (st : Stacks) : SynM StepOut :=
  match target with
  | .ann base _ => pure ⟨push target (defaultOf base) st, false⟩
  | .int => do
      let v ← randintM (-10000) 10000
      pure ⟨push .int (.int v) st, false⟩
  | .float => do
      let _ ← randintM 1 10
      let _ ← randintM 1 10
      pure ⟨push .float .float st, false⟩
  | .bool => do
      let b ← choiceIdxM 2
      pure ⟨push .bool (.bool (b = 0)) st, false⟩
  | .str => pure ⟨push .str (.str "") st, false⟩
  | .tuple ts =>
      match takeTuple ts st with
      | (some vs, st1) => pure ⟨push target (.tuple vs) st1, false⟩
      | (none, st1) => pure ⟨st1, true⟩
  | .list inner => do
      let avail := getStack inner st
      let len ← randintM 0 (avail.length : Int)
      let st1 := setStack inner (avail.drop len.toNat) st
      pure ⟨push target (.list 0 0 (avail.take len.toNat)) st1, false⟩
  | .union alts => do
      let i ← choiceIdxM alts.length
      let t ← listGetM alts i
      match popBack t st with
      | some (v, st1) => pure ⟨push target v st1, false⟩
      | none => pure ⟨st, true⟩
  | .cls n =>
      if (g.cls n).abstract then
        match g.altsOf n with
        | none => throwE (.foreign "KeyError")
        | some prods => do
          let i ← choiceIdxM prods.length
          let c ← listGetM prods i
          match popFront (.cls c) st with
          | some (v, st1) => pure ⟨push target v st1, false⟩
          | none => pure ⟨st, true⟩
      else
        match takeArgs (g.cls n).fields st with
        | (some args, st1) => pure ⟨push target (.node n 0 0 args) st1, false⟩
        | (none, st1) => pure ⟨st1, true⟩

/-- `choice_weighted(order, [1, …, 1])`: unweighted grammars only -/
def chooseTarget (order : List Ty) : SynM Ty := do
  if order.isEmpty then throwE (.foreign "IndexError") else
  let total : Int := 100000 * order.length
  let r ← randintM 0 (total - 1)
  listGetM order (r.toNat / 100000)

/-- the main loop: `fuel` is the number of operations left -- the real loop performs at most
`failures_limit * len(dna)` of them (the genome is read cyclically, and an operation that succeeds is not a
failure: without this bound a genome that never assembles a program is read round and round forever;
repaired by a `fix:` commit after the model had recorded the loop as bounded by the failure limit only).
When the budget is used up the loop ends like it does at the failure limit: the program on the start
stack if there is one, else `GeneticEngineError("Stack genome not enough.")` -/
def loop (g : Grammar) (order : List Ty) (limit : Nat) : Nat → Stacks → Nat → SynM Val
  | 0, st, _ =>
    match getStack (.cls g.spec.start) st with
    | v :: _ => pure v
    | [] => throwE .library
  | fuel + 1, st, failures =>
    match getStack (.cls g.spec.start) st with
    | v :: _ => pure v
    | [] =>
      if failures ≥ limit then throwE .library else do
      let target ← chooseTarget order
      let out ← step g target st
      loop g order limit fuel out.stacks (if out.failed then failures + 1 else failures)

/-- `create_tree_using_stacks(g, ListWrapper(dna), failures_limit)` -/
def mapStack (g : Grammar) (order : List Ty) (limit fuel : Nat) (dna : List Int) : Res Val :=
  loop g order limit fuel (order.map fun t => (t, [])) 0
    { src := .gene { dna := dna, index := 0 } }

end GEVerif.Stack
