/-
  Model of the genetic-programming steps and initialisers
  (`geneticengine/algorithms/gp/operators/*.py`, `gp/structure.py`, `gp/gp.py`,
  `representations/tree/operators.py`, `problems/helpers.py`), as they are in /repo AFTER the
  `fix:` commits for C15/C17 (compute_ranges clamps, ParallelStep/ElitismStep/EvaluateStep read
  their input once, TournamentSelection refills from the materialised pool, LexicaseSelection
  shuffles the cases for every winner, InjectInitialPopulationWrapper/HalfAndHalfInitializer).

  Conventions
  * an individual is `(id, agg, comps)`: object identity, `Fitness.maximizing_aggregate`,
    `Fitness.fitness_components`; fitness floats are an arbitrary linear order (`Int`);
  * a population handed to a step is an `Iter`: a list plus the one-shot flag (Python generator)
    and the `consumed` flag; `Iter.iterate` is "iterate it once more";
  * integer draws (`random.choice` = one `randint`, `random.shuffle`) come from an arbitrary
    `Source σ`; `random_float` draws come from a separate stream of script elements (the harness's
    source keeps two scripts), decision `v <= probability` with `v = ((d mod 1000)+1)/1001` and
    probability `m/1001`, i.e. `d mod 1000 + 1 ≤ m`;
  * new individuals (novelty / mutation / crossover) are produced by the harness's stub
    representation: the fitness is a deterministic function of the parents, the id is
    `1000 + creation counter` (object identity).
  * evaluation order: a step tree is run eagerly.  The real code is a pipeline of generators.
    Integer draws happen in the eager order (the only lazy consumers, mutation and identity,
    draw no integers), with one exception that is modelled: a step that never reads its input
    (`NoveltyStep`, or a sequence containing one) prevents everything before it in a
    `SequenceStep` from running at all.  The order of FLOAT draws and of the creation counter
    when a mutation step lazily consumes another creating step is interleaved in the real code
    and eager here; the harness compares such compositions with a constant float script and
    with the ids of created individuals masked (both order-insensitive), see c15.py.
  * `none` = the real code raises (ZeroDivisionError, IndexError, AssertionError, ValueError).
-/
import GEVerif.Model.Rand

namespace GEVerif.Steps

/-! ## `ParallelStep.compute_ranges` -/

/-- Python's `int(round(a / b, 0))` for integers `a ≥ 0`, `b > 0`: round-half-to-even of the exact
rational (exact for the float expression whenever `2*a < 2^53`). -/
def roundHalfEven (a b : Nat) : Nat :=
  let q := a / b
  let r := a % b
  if 2 * r < b then q else if b < 2 * r then q + 1 else if q % 2 = 0 then q else q + 1

/-- `ParallelStep.cumsum` (running sums), started from `run`. -/
def cumsumFrom (run : Nat) : List Nat → List Nat
  | [] => []
  | x :: xs => (run + x) :: cumsumFrom (run + x) xs

/-- `[int(round(w * target_size / total, 0)) for w in weights]` -/
def shares (ws : List Nat) (target : Nat) : List Nat :=
  ws.map (fun w => roundHalfEven (w * target) ws.sum)

/-- boundaries: `[0] + cumsum(shares)`, every boundary clamped to the target, the last one set to
the target. -/
def boundaries (ws : List Nat) (target : Nat) : List Nat :=
  let idx := (0 :: cumsumFrom 0 (shares ws target)).map (fun i => min i target)
  idx.dropLast ++ [target]

/-- `compute_ranges` (repaired): `list(zip(indices, indices[1:]))`.  `none` is the
`ZeroDivisionError` for a non-empty weight vector whose sum is zero. -/
def computeRanges (ws : List Nat) (target : Nat) : Option (List (Nat × Nat)) :=
  if ws.sum = 0 ∧ ws ≠ [] then none
  else
    let idx := boundaries ws target
    some (idx.zip idx.tail)

/-- the slice sizes `end - start` -/
def sliceSizes (rs : List (Nat × Nat)) : List Nat := rs.map (fun p => p.2 - p.1)

/-! ## Individuals and iterables -/

structure Ind where
  id : Int
  agg : Int
  comps : List Int
  deriving DecidableEq, Repr

/-- An iterable handed to a step. `oneShot = false`: a `list` or a `Population`;
`oneShot = true`: a generator / iterator, which yields nothing once consumed. -/
structure Iter where
  items : List Ind
  oneShot : Bool
  consumed : Bool
  deriving Repr

def Iter.ofList (xs : List Ind) : Iter := ⟨xs, false, false⟩
def Iter.gen (xs : List Ind) : Iter := ⟨xs, true, false⟩

/-- iterate once more: what is seen, and the iterable afterwards -/
def Iter.iterate (it : Iter) : List Ind × Iter :=
  if it.oneShot && it.consumed then ([], it) else (it.items, { it with consumed := true })

/-! ## State threaded through a step tree -/

structure St (σ : Type) where
  rnd : σ
  floats : List Nat
  fresh : Nat

/-- one `random_float(0, 1)` followed by `v <= probability` -/
def floatDecision {σ : Type} (m : Nat) (st : St σ) : Bool × St σ :=
  (decide (st.floats.headD 0 % 1000 + 1 ≤ m), { st with floats := st.floats.tail })

/-! ## The stub representation of the harness (`harness/props/c15.py: StubRep`) -/

def mkNovel (nComps : Nat) (c : Nat) : Ind :=
  ⟨1000 + (c : Int), 2, (List.range nComps).map (fun j => ((j * 2 + 1) % 3 : Nat))⟩

def mutateInd (c : Nat) (p : Ind) : Ind :=
  ⟨1000 + (c : Int), (p.agg * 3 + 1) % 5,
   (p.comps.zip (List.range p.comps.length)).map (fun (x, j) => (x * 2 + (j : Int) + 1) % 4)⟩

def crossInd (c : Nat) (a b : Ind) : Ind × Ind :=
  (⟨1000 + (c : Int), a.agg, b.comps⟩, ⟨1000 + (c : Int) + 1, b.agg, a.comps⟩)

/-! ## Sorting and maxima -/

/-- insert before the first element that is not strictly better (keeps ties in input order) -/
def insertDesc (x : Ind) : List Ind → List Ind
  | [] => [x]
  | y :: ys => if y.agg > x.agg then y :: insertDesc x ys else x :: y :: ys

/-- `sorted(pop, key=maximizing_aggregate, reverse=True)`: stable, best first -/
def sortDesc : List Ind → List Ind
  | [] => []
  | x :: xs => insertDesc x (sortDesc xs)

/-- `max(xs, key=aggregate)`: the FIRST maximal element; `none` on the empty list (`ValueError`) -/
def maxByAgg : List Ind → Option Ind
  | [] => none
  | x :: xs =>
    match maxByAgg xs with
    | none => some x
    | some b => if b.agg > x.agg then some b else some x

/-! ## Steps without sub-steps -/

/-- `NoveltyStep`: `target_size` fresh individuals -/
def noveltyGo {σ : Type} (nComps : Nat) : Nat → St σ → List Ind × St σ
  | 0, st => ([], st)
  | n + 1, st =>
    let x := mkNovel nComps st.fresh
    let (xs, st') := noveltyGo nComps n { st with fresh := st.fresh + 1 }
    (x :: xs, st')

/-- `GenericMutationStep` on the first `target_size` individuals -/
def mutationGo {σ : Type} (m : Nat) : List Ind → St σ → List Ind × St σ
  | [], st => ([], st)
  | x :: xs, st =>
    let (b, st1) := floatDecision m st
    let (y, st2) := if b then (mutateInd st1.fresh x, { st1 with fresh := st1.fresh + 1 }) else (x, st1)
    let (ys, st3) := mutationGo m xs st2
    (y :: ys, st3)

/-- `GenericCrossoverStep`, pair `i`, `n` pairs to go -/
def crossoverGo {σ : Type} (m : Nat) (npop : List Ind) : Nat → Nat → St σ → Option (List Ind × St σ)
  | _, 0, st => some ([], st)
  | i, n + 1, st =>
    if npop.length = 0 then none else
    let j := i % npop.length
    match npop[j]?, npop[j + 1]? with
    | some a, some b =>
      let (d, st1) := floatDecision m st
      let (cs, st2) := if d then (crossInd st1.fresh a b, { st1 with fresh := st1.fresh + 2 }) else ((a, b), st1)
      match crossoverGo m npop (i + 1) n st2 with
      | some (ys, st3) => some (cs.1 :: cs.2 :: ys, st3)
      | none => none
    | _, _ => none

def crossoverStep {σ : Type} (m : Nat) (npop : List Ind) (k : Nat) (st : St σ) : Option (List Ind × St σ) :=
  match crossoverGo m npop 0 (k / 2) st with
  | none => none
  | some (ys, st') =>
    if k % 2 = 1 then
      match npop[0]? with
      | some a => some (ys ++ [a], st')
      | none => none
    else some (ys, st')

section Selection
variable {σ : Type} (src : Source σ)

/-- `[random.choice(candidates) for _ in range(n)]` -/
def drawN (cands : List Ind) : Nat → σ → Option (List Ind × σ)
  | 0, s => some ([], s)
  | n + 1, s =>
    match choice src cands s with
    | (some x, s1) =>
      match drawN cands n s1 with
      | some (xs, s2) => some (x :: xs, s2)
      | none => none
    | (none, _) => none

/-- `TournamentSelection.iterate` (repaired): the list of (participants, winner), one per
requested individual.  Note that `candidates` is re-bound to the participants of the previous
tournament, exactly as in the code. -/
def tournamentGo (pool : List Ind) (ts : Nat) (wr : Bool) :
    Nat → List Ind → σ → Option (List (List Ind × Ind) × σ)
  | 0, _, s => some ([], s)
  | n + 1, cands, s =>
    match drawN src cands ts s with
    | none => none
    | some (parts, s1) =>
      match maxByAgg parts with
      | none => none
      | some w =>
        let cands' := if wr then parts else
          (let r := parts.erase w
           if r.isEmpty then pool else r)
        match tournamentGo pool ts wr n cands' s1 with
        | some (rest, s2) => some ((parts, w) :: rest, s2)
        | none => none

/-! ### lexicase -/

def compAt (c : Nat) (x : Ind) : Int := x.comps.getD c 0

/-- `min(...)` / `max(...)` of component `c` over a non-empty list (0 on the empty list, never
used there) -/
def bestOn (minimize : Bool) (c : Nat) : List Ind → Int
  | [] => 0
  | [x] => compAt c x
  | x :: xs => if minimize then min (compAt c x) (bestOn minimize c xs) else max (compAt c x) (bestOn minimize c xs)

def insertAsc (x : Int) : List Int → List Int
  | [] => [x]
  | y :: ys => if x ≤ y then x :: y :: ys else y :: insertAsc x ys

def sortAsc : List Int → List Int
  | [] => []
  | x :: xs => insertAsc x (sortAsc xs)

/-- twice `numpy.median` of a non-empty integer list -/
def median2 (xs : List Int) : Int :=
  let s := sortAsc xs
  let n := s.length
  if n % 2 = 1 then 2 * s.getD (n / 2) 0 else s.getD (n / 2 - 1) 0 + s.getD (n / 2) 0

/-- four times the median absolute deviation `median(|x - median(x)|)` -/
def mad4 (xs : List Int) : Int :=
  let m2 := median2 xs
  median2 (xs.map (fun x => (2 * x - m2).natAbs))

/-- the epsilon band of one filtering pass (0 for plain lexicase), scaled by 4 -/
def band4 (eps : Bool) (c : Nat) (xs : List Ind) : Int := if eps then mad4 (xs.map (compAt c)) else 0

/-- one lexicase filtering pass on case `c` (everything scaled by 4 so the epsilon band is an
integer) -/
def lexFilterCase (eps : Bool) (minimize : Bool) (c : Nat) (xs : List Ind) : List Ind :=
  let best := bestOn minimize c xs
  let band : Int := band4 eps c xs
  xs.filter (fun x =>
    if minimize then decide (4 * compAt c x ≤ 4 * best + band) else decide (4 * compAt c x ≥ 4 * best - band))

/-- `while len(candidates_to_check) > 1 and cases: c = cases.pop(0); …` -/
def lexFilter (eps : Bool) (mins : List Bool) : List Nat → List Ind → List Ind
  | [], xs => xs
  | c :: cs, xs =>
    if xs.length > 1 then lexFilter eps mins cs (lexFilterCase eps (mins.getD c false) c xs) else xs

/-- `LexicaseSelection.iterate` (repaired): per requested individual the triple
(remaining candidates, shuffled case order, winner). -/
def lexicaseGo (nCases : Nat) (mins : List Bool) (eps : Bool) :
    Nat → List Ind → σ → Option (List (List Ind × List Nat × Ind) × σ)
  | 0, _, s => some ([], s)
  | n + 1, cands, s =>
    let (cases, s1) := shuffle src (List.range nCases) s
    let tc := lexFilter eps mins cases cands
    let pick : Option (Ind × σ) :=
      match tc with
      | [] => none
      | [w] => some (w, s1)
      | _ =>
        match choice src tc s1 with
        | (some w, s2) => some (w, s2)
        | (none, _) => none
    match pick with
    | none => none
    | some (w, s2) =>
      match lexicaseGo nCases mins eps n (cands.erase w) s2 with
      | some (rest, s3) => some ((cands, cases, w) :: rest, s3)
      | none => none

end Selection

/-! ## The step tree -/

inductive Step where
  | identity
  | elitism
  | novelty
  | tournament (size : Nat) (withReplacement : Bool)
  | lexicase (nCases : Nat) (minimize : List Bool) (epsilon : Bool)
  | mutation (m : Nat)
  | crossover (m : Nat)
  | seq (steps : List Step)
  | par (steps : List Step) (weights : List Nat)
  | xpar (steps : List Step) (weights : List Nat)
  deriving Repr

mutual
/-- the step never pulls from its input generator -/
def Step.ignoresInput : Step → Bool
  | .novelty => true
  | .seq ss => Step.anyIgnores ss
  | _ => false
def Step.anyIgnores : List Step → Bool
  | [] => false
  | s :: rest => s.ignoresInput || Step.anyIgnores rest
end

/-! ### configurations the code accepts

`TournamentSelection(0)` fails (`max([])`), the combinators assert one weight per step, an
all-zero weight vector divides by zero, and `SequenceStep()` without steps hands its whole input
through (it does not look at `target_size`). -/
mutual
def Step.WF : Step → Prop
  | .tournament ts _ => 1 ≤ ts
  | .seq ss => ss ≠ [] ∧ Step.allWF ss
  | .par ss ws => ss.length = ws.length ∧ 0 < ws.sum ∧ Step.allWF ss
  | .xpar ss ws => ss.length = ws.length ∧ 0 < ws.sum ∧ Step.allWF ss
  | _ => True
def Step.allWF : List Step → Prop
  | [] => True
  | s :: rest => s.WF ∧ Step.allWF rest
end

/-- run-time parameters that are not part of the step tree -/
structure Cfg where
  nComps : Nat

section Apply
variable {σ : Type} (src : Source σ) (cfg : Cfg)

mutual
/-- `list(step.apply(problem, evaluator, representation, random, population, target_size, gen))` -/
def apply : Step → Iter → Nat → St σ → Option (List Ind × St σ)
  | .identity, it, k, st => some (it.iterate.1.take k, st)
  | .elitism, it, k, st => some ((sortDesc it.iterate.1).take k, st)
  | .novelty, _, k, st => some (noveltyGo cfg.nComps k st)
  | .tournament ts wr, it, k, st =>
    let pool := it.iterate.1
    match tournamentGo src pool ts wr k pool st.rnd with
    | some (tr, r) => some (tr.map (·.2), { st with rnd := r })
    | none => none
  | .lexicase n mins eps, it, k, st =>
    match lexicaseGo src n mins eps k it.iterate.1 st.rnd with
    | some (tr, r) => some (tr.map (·.2.2), { st with rnd := r })
    | none => none
  | .mutation m, it, k, st => some (mutationGo m (it.iterate.1.take k) st)
  | .crossover m, it, k, st => crossoverStep m it.iterate.1 k st
  | .seq ss, it, k, st => applySeq ss it k st
  | .par ss ws, it, k, st =>
    let npop := it.iterate.1
    if ss.length ≠ ws.length then none else
    match computeRanges ws k with
    | none => none
    | some rs => applyPar ss rs npop st
  | .xpar ss ws, it, k, st =>
    let npop := it.iterate.1
    if ss.length ≠ ws.length then none else
    match computeRanges ws k with
    | none => none
    | some rs => applyXPar ss rs npop st
/-- `SequenceStep`: chain the generators; steps in front of one that never reads its input do
not run. -/
def applySeq : List Step → Iter → Nat → St σ → Option (List Ind × St σ)
  | [], it, _, st => some (it.iterate.1, st)
  | s :: rest, it, k, st =>
    if Step.anyIgnores rest then applySeq rest it k st
    else
      match apply s it k st with
      | none => none
      | some (o, st1) => applySeq rest (Iter.gen o) k st1
/-- `ParallelStep`: every sub-step with a non-empty slice sees the whole (materialised) input -/
def applyPar : List Step → List (Nat × Nat) → List Ind → St σ → Option (List Ind × St σ)
  | s :: rest, (a, b) :: rs, npop, st =>
    if b - a > 0 then
      match apply s (Iter.ofList npop) (b - a) st with
      | none => none
      | some (o, st1) =>
        match applyPar rest rs npop st1 with
        | none => none
        | some (o2, st2) => some (o ++ o2, st2)
    else applyPar rest rs npop st
  | [], _, _, st => some ([], st)
  | _ :: _, [], _, st => some ([], st)
/-- `ExclusiveParallelStep`: sub-step `i` sees `iter(npopulation[start:end])` -/
def applyXPar : List Step → List (Nat × Nat) → List Ind → St σ → Option (List Ind × St σ)
  | s :: rest, (a, b) :: rs, npop, st =>
    match apply s (Iter.gen ((npop.drop a).take (b - a))) (b - a) st with
    | none => none
    | some (o, st1) =>
      match applyXPar rest rs npop st1 with
      | none => none
      | some (o2, st2) => some (o ++ o2, st2)
  | [], _, _, st => some ([], st)
  | _ :: _, [], _, st => some ([], st)
end

/-- `EvaluateStep` (repaired): evaluates and yields the WHOLE input, whatever `target_size` is.
It is therefore kept outside the step tree of the size theorem. -/
def evaluateStep (it : Iter) : List Ind := it.iterate.1

/-- `GeneticProgramming.search`: the list of generations `[gen 0, …, gen t]`, each wrapped in a
`Population` (re-iterable) before it is handed to the step. -/
def gpGenerations (step : Step) (size : Nat) : Nat → List Ind → St σ → Option (List (List Ind) × St σ)
  | 0, pop, st => some ([pop], st)
  | t + 1, pop, st =>
    match apply src cfg step (Iter.ofList pop) size st with
    | none => none
    | some (nxt, st1) =>
      match gpGenerations step size t nxt st1 with
      | none => none
      | some (gens, st2) => some (pop :: gens, st2)

end Apply

/-! ## Specification vocabulary (used by the theorems of Props/C16, C17 only) -/

/-- `g'` is no worse than `g`: every individual of `g` is matched or beaten by one of `g'`. -/
def NoWorse (g g' : List Ind) : Prop := ∀ y ∈ g, ∃ x ∈ g', y.agg ≤ x.agg

/-- the step is a `ParallelStep` that, for a target of `size`, gives an `ElitismStep` a
non-empty slice -/
def HasEliteSlot (step : Step) (size : Nat) : Prop :=
  ∃ (ss : List Step) (ws : List Nat) (rs : List (Nat × Nat)) (i a b : Nat), step = .par ss ws ∧
    computeRanges ws size = some rs ∧ ss[i]? = some Step.elitism ∧ rs[i]? = some (a, b) ∧ a < b

/-- the candidates still available: the population minus the winners selected so far
(`candidates.remove(winner)` after each selection) -/
def remainingAfter (pop : List Ind) (winners : List Ind) : List Ind := winners.foldl List.erase pop

/-- `w` is within the (possibly zero) epsilon band of the best value on case `c` among `xs`;
for plain lexicase: `w` is best on case `c` among `xs`. Values scaled by 4. -/
def WithinBand (eps : Bool) (mins : List Bool) (c : Nat) (xs : List Ind) (w : Ind) : Prop :=
  ∀ x ∈ xs, if mins.getD c false then 4 * compAt c w ≤ 4 * compAt c x + band4 eps c xs
            else 4 * compAt c w ≥ 4 * compAt c x - band4 eps c xs

/-! ## Initialisers: who produced each of the individuals -/

inductive Origin where
  | injected (i : Nat)
  | created
  deriving DecidableEq, Repr

/-- `standard`, `full`, `grow` create `target_size` individuals one by one
(`GrowInitializer` retries until it has them); the others are combinators. -/
inductive Init where
  | standard
  | full
  | grow
  | pigrow
  | inject (nPrograms : Nat) (backup : Init)
  | halfAndHalf (a b : Init)
  deriving Repr

def initRun : Init → Nat → List Origin
  | .standard, k => List.replicate k .created
  | .full, k => List.replicate k .created
  | .grow, k => List.replicate k .created
  | .pigrow, k => List.replicate (k / 2) .created ++ List.replicate (k - k / 2) .created
  | .inject n backup, k =>
    let injected := (List.range n).take k
    injected.map .injected ++ (if injected.length < k then initRun backup (k - injected.length) else [])
  | .halfAndHalf a b, k => initRun a (k / 2) ++ initRun b (k - k / 2)

/-! ## The pinned tree (before the `fix:` commits), kept only for the witness theorems

These are NOT part of the model of the current code; they record what the defective code computed,
so that the counterexamples reported by the check on the unrepaired tree are machine-checked. -/
namespace Pinned

/-- shares rounded from `len(population)`; only an under-shooting last slice was patched -/
def computeRanges (ws : List Nat) (popLen target : Nat) : List (Nat × Nat) :=
  let idx := 0 :: cumsumFrom 0 (ws.map (fun w => roundHalfEven (w * popLen) ws.sum))
  let rs := idx.zip idx.tail
  match rs.getLast? with
  | some (a, _) => if a < target then rs.dropLast ++ [(a, target)] else rs
  | none => rs

/-- `evaluator.evaluate(problem, population)` iterated the input, `list(population)` iterated it again -/
def elitism (it : Iter) (k : Nat) : List Ind :=
  let it1 := it.iterate.2
  (sortDesc it1.iterate.1).take k

/-- number of individuals `InjectInitialPopulationWrapper` yielded for `n` programs and target `k`
(`none`: `UnboundLocalError`, the loop variable `i` was never bound) -/
def injectCount (n k : Nat) : Option Nat :=
  let injected := min n k
  if injected = 0 then none
  else
    let i := injected - 1
    some (injected + (if i + 1 < k then k - i else 0))

/-- the case list was shuffled once and consumed across winners -/
def lexFilterConsume (eps : Bool) (mins : List Bool) : List Nat → List Ind → List Ind × List Nat
  | [], xs => (xs, [])
  | c :: cs, xs =>
    if xs.length > 1 then lexFilterConsume eps mins cs (lexFilterCase eps (mins.getD c false) c xs) else (xs, c :: cs)

def lexicaseGo {σ : Type} (src : Source σ) (mins : List Bool) (eps : Bool) :
    Nat → List Nat → List Ind → σ → Option (List Ind)
  | 0, _, _, _ => some []
  | n + 1, cases, cands, s =>
    let (tc, cases') := lexFilterConsume eps mins cases cands
    let pick : Option (Ind × σ) :=
      match tc with
      | [] => none
      | [w] => some (w, s)
      | _ =>
        match choice src tc s with
        | (some w, s2) => some (w, s2)
        | (none, _) => none
    match pick with
    | none => none
    | some (w, s2) =>
      match lexicaseGo src mins eps n cases' (cands.erase w) s2 with
      | some rest => some (w :: rest)
      | none => none

def lexicase {σ : Type} (src : Source σ) (nCases : Nat) (mins : List Bool) (eps : Bool) (k : Nat)
    (pop : List Ind) (s : σ) : Option (List Ind) :=
  let (cases, s1) := shuffle src (List.range nCases) s
  lexicaseGo src mins eps k cases pop s1

end Pinned

end GEVerif.Steps
