/-
  The grammar as MUTABLE state (C10).  `Grammar.alternatives` is a dict of Python lists; a
  function that binds `compatible_productions = grammar.alternatives[sym]` holds an ALIAS, and
  `compatible_productions.remove(rule)` then edits the grammar itself.  This file models exactly
  that hazard around the retry loop of `create_node`'s abstract branch:

  * `retryCopy`  — the loop as repaired (`list(grammar.alternatives[sym])`: a local copy);
  * `retryAlias` — the loop as it was at the pinned commit (every removal written through).

  The attempt to build a production is abstracted to a predicate (`true` = built, `false` =
  raised `SynthesisException`) and the decider to a function picking an index.
-/
namespace GEVerif.GState

/-- the mutable part of a grammar that synthesis could reach -/
structure G where
  alts : List (Nat × List Nat)
  deriving Repr, BEq, DecidableEq

def lookup (sym : Nat) : List (Nat × List Nat) → List Nat
  | [] => []
  | (k, v) :: rest => if k = sym then v else lookup sym rest

def store (sym : Nat) (v : List Nat) : List (Nat × List Nat) → List (Nat × List Nat)
  | [] => []
  | (k, v') :: rest => if k = sym then (k, v) :: rest else (k, v') :: store sym v rest

abbrev Attempt := Nat → Bool
abbrev Chooser := List Nat → Nat

def pick (ch : Chooser) (prods : List Nat) : Nat := prods.getD (ch prods % prods.length) 0

/-- repaired loop: `compatible = list(grammar.alternatives[sym])`; failures shrink the COPY -/
def retryCopyLoop (att : Attempt) (ch : Chooser) : Nat → List Nat → Option Nat
  | 0, _ => none
  | fuel + 1, prods =>
    if prods.isEmpty then none else
    let rule := pick ch prods
    if att rule then some rule else retryCopyLoop att ch fuel (prods.erase rule)

def retryCopy (att : Attempt) (ch : Chooser) (sym : Nat) (g : G) : Option Nat × G :=
  (retryCopyLoop att ch ((lookup sym g.alts).length + 1) (lookup sym g.alts), g)

/-- pinned loop: `compatible = grammar.alternatives[sym]` (alias); every `remove` edits the grammar -/
def retryAliasLoop (att : Attempt) (ch : Chooser) (sym : Nat) : Nat → G → Option Nat × G
  | 0, g => (none, g)
  | fuel + 1, g =>
    let prods := lookup sym g.alts
    if prods.isEmpty then (none, g) else
    let rule := pick ch prods
    if att rule then (some rule, g)
    else retryAliasLoop att ch sym fuel { alts := store sym (prods.erase rule) g.alts }

def retryAlias (att : Attempt) (ch : Chooser) (sym : Nat) (g : G) : Option Nat × G :=
  retryAliasLoop att ch sym ((lookup sym g.alts).length + 1) g

/-- a history of expansions (symbol, which productions fail this time, decider) run in sequence
against the same grammar object, as happens over the lifetime of a process -/
def runCopy : List (Nat × Attempt × Chooser) → G → List (Option Nat) × G
  | [], g => ([], g)
  | (sym, att, ch) :: rest, g =>
    let (r, g1) := retryCopy att ch sym g
    let (rs, g2) := runCopy rest g1
    (r :: rs, g2)

def runAlias : List (Nat × Attempt × Chooser) → G → List (Option Nat) × G
  | [], g => ([], g)
  | (sym, att, ch) :: rest, g =>
    let (r, g1) := retryAlias att ch sym g
    let (rs, g2) := runAlias rest g1
    (r :: rs, g2)

end GEVerif.GState
