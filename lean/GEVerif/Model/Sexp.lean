/-
  S-expressions: the wire format of the line protocol between the Python harness
  (which drives the real GeneticEngine code) and the Lean driver (which runs the model).
  Import-free so that the driver can be compiled to a native executable.
-/
namespace GEVerif

inductive Sexp where
  | atom (s : String)
  | list (xs : List Sexp)
  deriving Repr, Inhabited, BEq

namespace Sexp

partial def toStr : Sexp → String
  | atom s => s
  | list xs => "(" ++ " ".intercalate (xs.map toStr) ++ ")"

instance : ToString Sexp := ⟨toStr⟩

/-- Tokeniser: parentheses are their own tokens, everything else is split on blanks. -/
def tokenize (s : String) : List String := Id.run do
  let mut toks : Array String := #[]
  let mut cur : String := ""
  for c in s.toList do
    if c == '(' || c == ')' then
      if cur != "" then toks := toks.push cur
      cur := ""
      toks := toks.push (String.singleton c)
    else if c == ' ' || c == '\t' || c == '\n' || c == '\r' then
      if cur != "" then toks := toks.push cur
      cur := ""
    else
      cur := cur.push c
  if cur != "" then toks := toks.push cur
  return toks.toList

/-- Stack-based parser (total, no recursion on the token list needed). -/
def parseToks (toks : List String) : Option Sexp := Id.run do
  -- stack of partially built lists, innermost first
  let mut stack : List (Array Sexp) := [#[]]
  for t in toks do
    if t == "(" then
      stack := #[] :: stack
    else if t == ")" then
      match stack with
      | top :: next :: rest => stack := (next.push (Sexp.list top.toList)) :: rest
      | _ => return none
    else
      match stack with
      | top :: rest => stack := (top.push (Sexp.atom t)) :: rest
      | [] => return none
  match stack with
  | [top] => if top.size == 1 then some top[0]! else some (Sexp.list top.toList)
  | _ => none

def parse (s : String) : Option Sexp := parseToks (tokenize s)

def asInt? : Sexp → Option Int
  | atom s => s.toInt?
  | _ => none

def asNat? : Sexp → Option Nat
  | atom s => s.toNat?
  | _ => none

def asAtom? : Sexp → Option String
  | atom s => some s
  | _ => none

def asList? : Sexp → Option (List Sexp)
  | list xs => some xs
  | _ => none

def asInts? (s : Sexp) : Option (List Int) := do
  let xs ← s.asList?
  xs.mapM asInt?

def asNats? (s : Sexp) : Option (List Nat) := do
  let xs ← s.asList?
  xs.mapM asNat?

def ofInt (i : Int) : Sexp := atom (toString i)
def ofNat (n : Nat) : Sexp := atom (toString n)
def ofInts (xs : List Int) : Sexp := list (xs.map ofInt)
def ofNats (xs : List Nat) : Sexp := list (xs.map ofNat)
def ofBool (b : Bool) : Sexp := atom (if b then "true" else "false")

def asBool? : Sexp → Option Bool
  | atom "true" => some true
  | atom "false" => some false
  | _ => none

end Sexp
end GEVerif
