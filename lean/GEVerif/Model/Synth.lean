/-
  Model of `geneticengine/representations/tree/initializations.py`: the deciders and
  `create_node`, with the same branch order and the same order of random draws.

  Effects: a random stream and PI-grow's `expanding` flag are threaded through a state that
  SURVIVES exceptions (a Python exception does not undo draws already made), which is what the
  retry loop over the productions of an abstract class observes.
-/
import GEVerif.Model.Rand
import GEVerif.Model.Grammar
import GEVerif.Model.Tree

namespace GEVerif

inductive Err where
  | library                 -- GeneticEngineError
  | synthesis               -- SynthesisException
  | foreign (name : String) -- anything else (AssertionError, KeyError, ValueError, …)
  deriving Repr, BEq, Inhabited

structure Ctx where
  depth : Nat
  exp : Nat
  deriving Repr, Inhabited

inductive DKind where
  | grow | full | pigrow | progressive
  | dsge        -- DynamicSGEDecider: every decision is read from the genotype
  deriving Repr, BEq, Inhabited

structure Decider where
  kind : DKind
  maxDepth : Nat
  deriving Repr, Inhabited

/-- The random source behind `GlobalSynthesisContext.random` (and, for the tree deciders, behind
`decider.random`): the harness's scripted stream, or a genotype (GE / SGE mapping). -/
inductive AnySrc where
  | scripted (s : Script)
  | gene (s : GeneSrc)
  deriving Repr

def AnySrc.randint (lo hi : Int) : AnySrc → Int × AnySrc
  | .scripted s => let (v, s') := scriptedRandint lo hi s; (v, .scripted s')
  | .gene s => let (v, s') := geneRandint lo hi s; (v, .gene s')

/-- Mutable state during synthesis: the random stream, PI-grow's `expanding` flag (which lives
on the decider object and therefore persists across calls) and, for dynamic SGE, the genotype
(`dna`, extended on demand) with the per-type read positions of the current mapping. -/
structure SynSt where
  src : AnySrc
  expanding : Bool := true
  dna : List (Ty × List Int) := []
  pos : List (Ty × Nat) := []
  metaFromGenes : Bool := false   -- dynamic SGE: metahandler draws are read from the genotype
  deriving Repr

instance : Inhabited SynSt := ⟨{ src := .scripted { draws := [] } }⟩

inductive Res (α : Type) where
  | ok (a : α) (s : SynSt)
  | err (e : Err) (s : SynSt)
  deriving Repr

def SynM (α : Type) := SynSt → Res α

instance : Monad SynM where
  pure a := fun s => .ok a s
  bind m f := fun s =>
    match m s with
    | .ok a s' => f a s'
    | .err e s' => .err e s'

def throwE {α : Type} (e : Err) : SynM α := fun s => .err e s

/-- a draw from the underlying random source -/
def rawRandintM (lo hi : Int) : SynM Int := fun s =>
  if hi < lo then .err (.foreign "ValueError") s else
  let (v, src') := s.src.randint lo hi
  .ok v { s with src := src' }

/-! ### Dynamic SGE: reading (and extending) the genotype -/

def tyLookup {α : Type} (k : Ty) (d : α) : List (Ty × α) → α
  | [] => d
  | (k', v) :: rest => if k' == k then v else tyLookup k d rest

def tySet {α : Type} (k : Ty) (v : α) : List (Ty × α) → List (Ty × α)
  | [] => [(k, v)]
  | (k', v') :: rest => if k' == k then (k, v) :: rest else (k', v') :: tySet k v rest

def MAX_GENE_VALUE : Int := 1024

/-- `Genotype.get(ty, n)`: extend `dna[ty]` with fresh draws from the genotype's random source
until position `n` exists. -/
def extendGenes : Nat → List Int → Nat → SynM (List Int)
  | 0, genes, _ => pure genes
  | k + 1, genes, n =>
    if n < genes.length then pure genes else do
    let v ← rawRandintM 0 MAX_GENE_VALUE
    extendGenes k (genes ++ [v]) n

/-- `DynamicSGEDecider.read(ty)` -/
def dsgeRead (k : Ty) : SynM Int := fun s =>
  let p := tyLookup k 0 s.pos
  let genes := tyLookup k [] s.dna
  match extendGenes (p + 1 - genes.length) genes p s with
  | .err e s' => .err e s'
  | .ok genes' s' =>
    .ok (genes'.getD p 0) { s' with dna := tySet k genes' s'.dna, pos := tySet k (p + 1) s'.pos }

/-- `DynamicSGEDecider.random_int` on a gene -/
def dsgeIntM (lo hi : Int) : SynM Int := do
  let v ← dsgeRead .int
  if hi < lo then throwE (.foreign "ZeroDivisionError") else
  pure (dsgeRandomInt v lo hi)

/-- `GlobalSynthesisContext.random.randint`: the source metahandlers (and the tree deciders)
draw from.  Under dynamic SGE it is the genotype-backed source. -/
def randintM (lo hi : Int) : SynM Int := fun s =>
  if s.metaFromGenes then dsgeIntM lo hi s else rawRandintM lo hi s

/-- one `random_float` of the global source (value not modelled) -/
def floatDrawM : SynM Unit := fun s =>
  if s.metaFromGenes then (do let _ ← dsgeRead .float; pure () : SynM Unit) s
  else (do let _ ← rawRandintM 0 0; pure () : SynM Unit) s

/-- `random.choice(xs)` by index; an empty list is the `assert choices` failure. -/
def choiceIdxM (n : Nat) : SynM Nat :=
  if n = 0 then throwE (.foreign "AssertionError") else do
  let i ← randintM 0 ((n : Int) - 1)
  pure i.toNat

def listGetM {α : Type} (xs : List α) (i : Nat) : SynM α :=
  match xs[i]? with
  | some x => pure x
  | none => throwE (.foreign "IndexError")

/-- The exponent bound `round(log10(width))` for the default bounds of `random_int()`. -/
def defaultE : Nat := 19
def defaultLo : Int := -(9223372036854775807 - 1)
def defaultHi : Int := 9223372036854775807

/-- `BaseDecider.random_int(lo, hi)` on the threaded state. `E` is only used when wide. -/
def deciderIntM (E : Nat) (lo hi : Int) : SynM Int :=
  if hi - lo > 1000 then do
    let half := (hi - lo) / 2
    let n ← randintM 0 10
    let e ← randintM 0 (E : Int)
    let extra := (n ^ e.toNat) % (half + 1)
    let b ← choiceIdxM 2      -- random_bool = choice([True, False])
    pure (if b = 0 then lo + half + extra else lo + half - extra)
  else randintM lo hi

/-! ### Deciders -/

def Grammar.isRecTy (g : Grammar) : Ty → Bool
  | .cls n => g.isRec n
  | _ => false

/-- `x in grammar.get_weights()`: only registered symbols have a weight. -/
def Grammar.hasWeight (g : Grammar) : Ty → Bool
  | .cls n => g.reg.allNodes.contains (.cls n)
  | .int => g.reg.allNodes.contains .int
  | .float => g.reg.allNodes.contains .float
  | .str => g.reg.allNodes.contains .str
  | .bool => g.reg.allNodes.contains .bool
  | _ => false

def fits (g : Grammar) (dec : Decider) (ctx : Ctx) (x : Ty) : Bool :=
  decide ((g.distOf x : Int) ≤ (dec.maxDepth : Int) - ctx.depth)

def fitsStrict (g : Grammar) (dec : Decider) (ctx : Ctx) (x : Ty) : Bool :=
  decide ((g.distOf x : Int) < (dec.maxDepth : Int) - ctx.depth)

/-- candidate list of the FullDecider -/
def fullCands (g : Grammar) (dec : Decider) (alts : List Ty) (ctx : Ctx) : List Ty :=
  let c1 := if ctx.depth ≤ dec.maxDepth then
      alts.filter fun x =>
        (g.isRecTy x && fitsStrict g dec ctx x)
          || decide ((g.distOf x : Int) = (dec.maxDepth : Int) - ctx.depth - 1)
    else []
  if c1.isEmpty then alts.filter (fits g dec ctx) else c1

/-- PI-grow: the new value of `expanding` and the candidate list -/
def pigrowCands (g : Grammar) (dec : Decider) (alts : List Ty) (ctx : Ctx) (expanding : Bool) :
    Bool × List Ty :=
  let baseline := alts.filter (fits g dec ctx)
  let e1 := if ctx.exp = 0 then true else expanding
  let e2 := if (ctx.depth : Int) = (dec.maxDepth : Int) - 1 then false else e1
  let c1 := if e2 then alts.filter fun x => g.isRecTy x && fitsStrict g dec ctx x else baseline
  (e2, if c1.isEmpty then baseline else c1)

/-- `choose_production_alternatives` of the four tree deciders. -/
def chooseProd (g : Grammar) (dec : Decider) (key : Ty) (alts : List Ty) (ctx : Ctx) : SynM Ty :=
  if alts.isEmpty then throwE (.foreign "AssertionError") else
  match dec.kind with
  | .grow => do
      let c := alts.filter (fits g dec ctx)
      let i ← choiceIdxM c.length
      listGetM c i
  | .full => do
      let c := fullCands g dec alts ctx
      let i ← choiceIdxM c.length
      listGetM c i
  | .pigrow => fun s =>
      let (e2, c) := pigrowCands g dec alts ctx s.expanding
      (do let i ← choiceIdxM c.length
          listGetM c i : SynM Ty) { s with expanding := e2 }
  | .dsge => do
      -- the key is the symbol being expanded (an abstract class, or the Union type itself)
      let v ← dsgeRead key
      let c := alts.filter (fits g dec ctx)
      if c.isEmpty then throwE (.foreign "ZeroDivisionError") else
      listGetM c (v % (c.length : Int)).toNat
  | .progressive =>
      -- unweighted grammars only (every registered symbol has weight 1.0; an alternative of a Union that is not a
      -- grammar node -- a list, a tuple, a refined type -- has no production weight and counts as 1.0 too)
      let mx := g.maxNodeDepth
      let target : Int := if mx = INF then (g.minTreeDepth : Int) * g.recursive.length else mx
      let ws : List Int := alts.map fun x =>
        if g.isRecTy x then target / ((ctx.depth : Int) + 1) else target - (g.distOf x : Int)
      -- with no positive heuristic weight the production weights alone decide (all 1.0 here)
      let ns : List Nat := if ws.any (· > 0) then ws.map Int.toNat else alts.map fun _ => 1
      if ws.any (· > 0) && ws.any (· < 0) then throwE (.foreign "negative-weight") else
      let acc := accScaled 1 ns
      let total := acc.getLastD 0
      if total = 0 then do
        let i ← choiceIdxM alts.length
        listGetM alts i
      else do
        let r ← randintM 0 ((total : Int) - 1)
        match pickAcc acc r.toNat with
        | some i => listGetM alts i
        | none => listGetM alts (alts.length - 1)

/-- `decider.random_int(lo, hi)` -/
def decIntM (dec : Decider) (E : Nat) (lo hi : Int) : SynM Int :=
  match dec.kind with
  | .dsge => dsgeIntM lo hi
  | _ => deciderIntM E lo hi

/-- `decider.random_float()`: the value is not modelled, the draws are.  Tree deciders call
`random.normalvariate`: one draw on the scripted source; on a genotype-backed source it is the
Box–Muller default, i.e. two `random_float` calls of one gene each. -/
def decFloatM (dec : Decider) : SynM Unit :=
  match dec.kind with
  | .dsge => do let _ ← dsgeRead .float; pure ()
  | _ => fun s =>
    match s.src with
    | .scripted _ => (do let _ ← randintM 0 0; pure () : SynM Unit) s
    | .gene _ => (do let _ ← randintM 0 0; let _ ← randintM 0 0; pure () : SynM Unit) s

/-- `decider.random_bool()` -/
def decBoolM (dec : Decider) : SynM Bool :=
  match dec.kind with
  | .dsge => do
      let v ← dsgeRead .bool
      pure (v % 2 == 1)
  | _ => do
      let b ← choiceIdxM 2
      pure (b = 0)

def strsOf : List Val → Option (List String)
  | [] => some []
  | .str s :: rest => (strsOf rest).map (s :: ·)
  | _ => none

/-- `Dependent.generate`: the refinement obtained from the sibling values
(`VarRange([])` raises `SynthesisException`). -/
def resolveDep (mh : MH) (deps : List (String × Val)) : SynM MH :=
  match mh with
  | .depIntRangeLo f hi =>
      (match lookupVal deps f with
       | some (.int a) => pure (.intRange a hi)
       | _ => throwE (.foreign "KeyError"))
  | .depIntRangeHi lo f =>
      (match lookupVal deps f with
       | some (.int a) => pure (.intRange lo a)
       | _ => throwE (.foreign "KeyError"))
  | .depIntRangeSpan fw flo =>
      (match lookupVal deps fw, lookupVal deps flo with
       | some (.int w), some (.int a) => pure (.intRange a (a + w))
       | _, _ => throwE (.foreign "KeyError"))
  | .depListSize f =>
      (match lookupVal deps f with
       | some (.int a) => pure (.listSize a.toNat a.toNat)
       | _ => throwE (.foreign "KeyError"))
  | .depVarFrom f =>
      (match lookupVal deps f with
       | some (.list _ _ vs) =>
          (match strsOf vs with
           | some [] => throwE .synthesis
           | some opts => pure (.varRange opts)
           | none => throwE (.foreign "TypeError"))
       | _ => throwE (.foreign "KeyError"))
  | m => pure m

def MH.isDep : MH → Bool
  | .depIntRangeLo .. | .depIntRangeHi .. | .depIntRangeSpan .. | .depListSize .. | .depVarFrom .. => true
  | _ => false

/-- characters drawn one `choice` at a time (`StringSizeBetween.generate`) -/
def genChars (al : List String) : Nat → SynM String
  | 0 => pure ""
  | n + 1 => do
    let i ← choiceIdxM al.length
    let c ← listGetM al i
    let rest ← genChars al n
    pure (c ++ rest)

mutual
/-- `create_node`. -/
def createNode (g : Grammar) (dec : Decider) : Nat → Ty → Ctx → List (String × Val) → SynM Val
  | 0, _, _, _ => throwE (.foreign "fuel")
  | fuel + 1, ty, ctx, deps =>
    match ty with
    | .int => do
        -- `decider.random_int()` with the decider's own default bounds
        let lo := if dec.kind == .dsge then -defaultHi else defaultLo
        let v ← decIntM dec defaultE lo defaultHi
        pure (.int v)
    | .float => do
        decFloatM dec
        pure .float
    | .bool => do
        let b ← decBoolM dec
        pure (.bool b)
    | .tuple ts => do
        let vs ← createTuple g dec fuel ts ctx
        pure (.tuple vs)
    | .list t => do
        let len ← decIntM dec 0 0 10
        let vs ← createElems g dec fuel t ⟨ctx.depth + g.e, ctx.exp + 1⟩ [] len.toNat
        pure (.list ctx.depth ctx.exp vs)
    | .ann base mh =>
        if mh.isDep then do
          -- Dependent: rec(Annotated[base, callable(*values)]) one expansion deeper
          let mh' ← resolveDep mh deps
          let v ← createNode g dec fuel (.ann base mh') ⟨ctx.depth, ctx.exp + 1⟩ deps
          pure (v.setCtx ctx.depth ctx.exp)
        else
        match mh with
        | .intRange lo hi => do
            let v ← randintM lo hi
            pure (.int v)
        | .intList xs => do
            let i ← choiceIdxM xs.length
            pure (.int (← listGetM xs i))
        | .varRange opts => do
            let i ← choiceIdxM opts.length
            pure (.str (← listGetM opts i))
        | .listSize lo hi =>
            match base with
            | .list inner => do
              let size ← randintM lo hi
              let vs ← createElems g dec fuel inner ⟨ctx.depth, ctx.exp + 1⟩ deps size.toNat
              pure (.list ctx.depth ctx.exp vs)
            | _ => throwE (.foreign "AssertionError")
        | .strSize lo hi al => do
            let size ← randintM lo hi
            let str ← genChars al size.toNat
            pure (.str str)
        | .interval mn mx top => do
            let len ← randintM mn mx
            let start ← randintM 0 (top - len)
            pure (.tuple [.int start, .int (start + len)])
        | .floatRange => do
            floatDrawM
            pure .float
        | .floatList n => do
            let _ ← choiceIdxM n
            pure .float
        | _ => throwE (.foreign "unreachable")
    | .union ts => do
        let t ← chooseProd g dec (.union ts) ts ctx
        let v ← createNode g dec fuel t ctx deps
        pure (v.setCtx ctx.depth ctx.exp)
    | .str => pure (.str "")
    | .cls n =>
        if !(g.reg.allNodes.contains (.cls n)) then throwE .library else
        match g.altsOf n with
        | some prods => createAbstract g dec fuel n prods ctx
        | none => do
            let args ← createFields g dec fuel (g.cls n).fields ⟨ctx.depth + 1, ctx.exp + 1⟩ []
            pure (.node n ctx.depth ctx.exp args)

/-- the retry loop over the productions of an abstract class: a production whose creation
raises `SynthesisException` is removed from a LOCAL copy of the list and another is tried;
the draws made by the failed attempt stay consumed. -/
def createAbstract (g : Grammar) (dec : Decider) : Nat → Nat → List Nat → Ctx → SynM Val
  | 0, _, _, _ => throwE (.foreign "fuel")
  | fuel + 1, n, prods, ctx => fun s =>
    if prods.isEmpty then .err .synthesis s else
    match chooseProd g dec (.cls n) (prods.map Ty.cls) ctx s with
    | .err e s1 => .err e s1
    | .ok rule s1 =>
      match createNode g dec fuel rule ⟨ctx.depth, ctx.exp + 1⟩ [] s1 with
      | .ok v s2 => .ok (v.setCtx ctx.depth ctx.exp) s2
      | .err .synthesis s2 =>
          createAbstract g dec fuel n (prods.filter fun p => !(Ty.cls p == rule)) ctx s2
      | .err e s2 => .err e s2

def createFields (g : Grammar) (dec : Decider) : Nat → List (String × Ty) → Ctx → List (String × Val) → SynM (List Val)
  | 0, _, _, _ => throwE (.foreign "fuel")
  | _ + 1, [], _, _ => pure []
  | fuel + 1, (name, t) :: fs, nctx, deps => do
    let v ← createNode g dec fuel t nctx deps
    let vs ← createFields g dec fuel fs nctx (deps ++ [(name, v)])
    pure (v :: vs)

def createElems (g : Grammar) (dec : Decider) : Nat → Ty → Ctx → List (String × Val) → Nat → SynM (List Val)
  | 0, _, _, _, _ => throwE (.foreign "fuel")
  | _ + 1, _, _, _, 0 => pure []
  | fuel + 1, t, nctx, deps, k + 1 => do
    let v ← createNode g dec fuel t nctx deps
    let vs ← createElems g dec fuel t nctx deps k
    pure (v :: vs)

def createTuple (g : Grammar) (dec : Decider) : Nat → List Ty → Ctx → SynM (List Val)
  | 0, _, _ => throwE (.foreign "fuel")
  | _ + 1, [], _ => pure []
  | fuel + 1, t :: ts, ctx => do
    let v ← createNode g dec fuel t ctx []
    let vs ← createTuple g dec fuel ts ctx
    pure (v :: vs)
end

/-- `MaxDepthDecider.validate` (also Full / PI-grow): reject infeasible limits up-front. -/
def deciderValid (g : Grammar) (dec : Decider) : Bool :=
  match dec.kind with
  | .progressive => true
  | _ => decide (g.minTreeDepth ≤ dec.maxDepth)   -- dSGE as repaired (it used to reject d = min)

/-- `random_tree` after the decider was constructed: create from the start symbol at the
empty context. -/
def randomTree (g : Grammar) (dec : Decider) (fuel : Nat) : SynM Val :=
  createNode g dec fuel (.cls g.spec.start) ⟨0, 0⟩ []

end GEVerif
