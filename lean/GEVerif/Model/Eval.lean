/-
  Model of the evaluation layer of GeneticEngine (as it stands in /repo after the `fix:`
  commits):

    geneticengine/problems/__init__.py      Fitness, SingleObjectiveProblem, MultiObjectiveProblem
    geneticengine/solutions/individual.py   Individual.fitness_store
    geneticengine/evaluation/api.py         Evaluator (counter)
    geneticengine/evaluation/sequential.py  SequentialEvaluator.evaluate_async
    geneticengine/evaluation/parallel.py    ParallelEvaluator.evaluate_async
    geneticengine/evaluation/tracker.py     Single/MultiObjectiveProgressTracker
    geneticengine/evaluation/budget.py      EvaluationBudget, TargetFitness, AnyOf
    geneticengine/algorithms/{random_search,hill_climbing,one_plus_one}.py, gp/gp.py
                                            the four `while not self.is_done(): …` loops

  Conventions (DESIGN.md section 3): fitness floats are an arbitrary linear order, here `Int`
  (NaN is outside the model); individuals live in a heap (`store`, addressed by index) so that a
  batch may present the same object twice; `pool.map` writes the result of input `i` into slot
  `i`, the order in which workers complete is an explicit parameter.
-/
namespace GEVerif.Eval

/-! ## Fitness and problems -/

/-- `Fitness(maximizing_aggregate, fitness_components)`. -/
structure Fitness where
  agg : Int
  comps : List Int
  deriving DecidableEq, Repr

/-- The default multi-objective aggregate
`sum(m and -fit or +fit for (fit, m) in zip(components, minimize))` (`zip` truncates). -/
def signedSum : List Int → List Bool → Int
  | c :: cs, m :: ms => (if m then -c else c) + signedSum cs ms
  | _, _ => 0

/-- The three ways a problem turns the fitness function's result into a `Fitness`. -/
inductive ProblemKind where
  /-- `SingleObjectiveProblem(ff, minimize)` -/
  | single (minimize : Bool)
  /-- `MultiObjectiveProblem(minimize=[…], ff)` with the default aggregate.  (`minimize: bool`
  is expanded by the library to a list of the length of the first result.) -/
  | multi (minimize : List Bool)
  /-- `MultiObjectiveProblem(…, aggregate_fitness=g)` -/
  | multiUser (g : List Int → Int)

/-- `Problem.evaluate` applied to what the user's fitness function returned (`raw`); a
single-objective fitness function returns one number, modelled as a one-element list. -/
def ProblemKind.evaluate : ProblemKind → List Int → Fitness
  | .single mn, raw => let v := raw.headD 0; ⟨if mn then -v else v, [v]⟩
  | .multi mins, raw => ⟨signedSum raw mins, raw⟩
  | .multiUser g, raw => ⟨g raw, raw⟩

/-- A problem: its kind and its fitness function (phenotype ↦ returned numbers). -/
structure Problem where
  kind : ProblemKind
  ff : Int → List Int

/-- what gets stored for an individual with phenotype `ph` -/
def Problem.fitnessOf (P : Problem) (ph : Int) : Fitness := P.kind.evaluate (P.ff ph)

/-- `Problem.is_better(a, b)`: strict `>` on the maximising aggregate. -/
def isBetter (a b : Int) : Bool := decide (b < a)

/-! ## Individuals: phenotype and the per-problem fitness cache -/

/-- `fitness_store[p]` -/
def cacheGet (p : Nat) : List (Nat × Fitness) → Option Fitness
  | [] => none
  | (q, f) :: rest => if q = p then some f else cacheGet p rest

/-- `fitness_store[p] = f` (dict semantics: overwrite in place, else append). -/
def cacheSet (p : Nat) (f : Fitness) : List (Nat × Fitness) → List (Nat × Fitness)
  | [] => [(p, f)]
  | (q, g) :: rest => if q = p then (p, f) :: rest else (q, g) :: cacheSet p f rest

structure Indiv where
  pheno : Int
  cache : List (Nat × Fitness) := []
  deriving Repr

def Indiv.fitness? (ind : Indiv) (p : Nat) : Option Fitness := cacheGet p ind.cache
def Indiv.has (ind : Indiv) (p : Nat) : Bool := (cacheGet p ind.cache).isSome
def Indiv.setFitness (ind : Indiv) (p : Nat) (f : Fitness) : Indiv :=
  { ind with cache := cacheSet p f ind.cache }
/-- `get_fitness(None)`: the fitness for the first problem that was stored. -/
def Indiv.defaultFitness? (ind : Indiv) : Option Fitness := ind.cache.head?.map (·.2)

/-! ## Evaluators -/

/-- Heap of individuals, the evaluator's counter, and the log of fitness-function invocations
`(problem id, individual id)` in the order they happened. -/
structure EvalState where
  store : List Indiv
  count : Nat := 0
  log : List (Nat × Nat) := []
  deriving Repr

/-- body of the `for individual in individuals` loop of `SequentialEvaluator.evaluate_async` -/
def evalOne (P : Problem) (p : Nat) (st : EvalState) (i : Nat) : EvalState :=
  match st.store[i]? with
  | none => st
  | some ind =>
    if ind.has p then st
    else
      { store := st.store.set i (ind.setFitness p (P.fitnessOf ind.pheno))
        count := st.count + 1
        log := st.log ++ [(p, i)] }

/-- `SequentialEvaluator.evaluate(problem, batch)`; `batch` is a list of heap addresses. -/
def seqEval (P : Problem) (p : Nat) (batch : List Nat) (st : EvalState) : EvalState :=
  batch.foldl (evalOne P p) st

/-- The individuals `ParallelEvaluator` sends to the pool: those of the batch without a fitness
for the problem, each object once, in batch order. -/
def pendingGo (p : Nat) (store : List Indiv) : List Nat → List Nat → List Nat
  | _, [] => []
  | seen, i :: rest =>
    match store[i]? with
    | none => pendingGo p store seen rest
    | some ind =>
      if ind.has p || seen.contains i then pendingGo p store seen rest
      else i :: pendingGo p store (i :: seen) rest

def pending (p : Nat) (store : List Indiv) (batch : List Nat) : List Nat :=
  pendingGo p store [] batch

/-- `pool.map(f, xs)`: worker `j` computes `f xs[j]` and the result is written into slot `j`;
`order` is the order in which the workers complete.  Returns the result slots and the inputs in
completion order (what an append-only log written by the workers shows). -/
def poolStep {β : Type} (f : Nat → β) (xs : List Nat) (acc : List (Option β) × List Nat) (j : Nat) :
    List (Option β) × List Nat :=
  match xs[j]? with
  | some x => (acc.1.set j (some (f x)), acc.2 ++ [x])
  | none => acc

def poolMap {β : Type} (f : Nat → β) (xs : List Nat) (order : List Nat) :
    List (Option β) × List Nat :=
  order.foldl (poolStep f xs) (List.replicate xs.length none, [])

/-- `for i, f in zip(pending, fitnesses): i.set_fitness(problem, f); self.register_evaluation()` -/
def applyResults (p : Nat) : List Nat → List (Option Fitness) → EvalState → EvalState
  | i :: is, some f :: fs, st =>
    match st.store[i]? with
    | some ind =>
      applyResults p is fs { st with store := st.store.set i (ind.setFitness p f), count := st.count + 1 }
    | none => applyResults p is fs st
  | _ :: is, none :: fs, st => applyResults p is fs st
  | _, _, st => st

/-- `ParallelEvaluator.evaluate(problem, batch)` (as repaired): evaluate the pending ones in a
pool — each worker applies `problem.evaluate` to its pickled copy of the individual — write the
results back by position, count one evaluation per result. -/
def parEval (P : Problem) (p : Nat) (batch : List Nat) (order : List Nat) (st : EvalState) : EvalState :=
  let pend := pending p st.store batch
  if pend.isEmpty then st
  else
    let worker := fun i => P.fitnessOf ((st.store[i]?.map (·.pheno)).getD 0)
    let (results, completed) := poolMap worker pend order
    let st' := applyResults p pend results st
    { st' with log := st'.log ++ completed.map (fun i => (p, i)) }

/-- One `evaluator.evaluate(problem, batch)` call. -/
inductive Call where
  | seq (p : Nat) (batch : List Nat)
  | par (p : Nat) (batch : List Nat) (order : List Nat)
  deriving Repr

def Call.problem : Call → Nat
  | .seq p _ => p
  | .par p _ _ => p

def Call.batch : Call → List Nat
  | .seq _ b => b
  | .par _ b _ => b

def runCall (Ps : List Problem) (st : EvalState) : Call → EvalState
  | .seq p batch => match Ps[p]? with
    | some P => seqEval P p batch st
    | none => st
  | .par p batch order => match Ps[p]? with
    | some P => parEval P p batch order st
    | none => st

def runCalls (Ps : List Problem) (st : EvalState) (calls : List Call) : EvalState :=
  calls.foldl (runCall Ps) st

/-- A heap of never-evaluated individuals. -/
def fresh (phenos : List Int) : EvalState := { store := phenos.map (fun ph => { pheno := ph }) }

/-! ## Trackers -/

/-- What a tracker sees of an individual handed to it: identity, maximising aggregate, first
fitness component (the number `TargetFitness` reads). -/
structure Reg where
  id : Nat
  agg : Int
  comp : Int := 0
  deriving DecidableEq, Repr

/-- `SingleObjectiveProgressTracker.post_process`: new state and the `is_best` flag. -/
def sStep (best : Option Reg) (r : Reg) : Option Reg × Bool :=
  match best with
  | none => (some r, true)
  | some b => if isBetter r.agg b.agg then (some r, true) else (some b, false)

/-- Feed a history to the single-objective tracker: final best and the flags, in order. -/
def sRun (best : Option Reg) : List Reg → Option Reg × List Bool
  | [] => (best, [])
  | r :: rs =>
    let (b', f) := sStep best r
    let (bf, fs) := sRun b' rs
    (bf, f :: fs)

/-- `MultiObjectiveProgressTracker.is_dominated(current, others)`: `all(...)` of `is_better`. -/
def isDominated (cur : Reg) (others : List Reg) : Bool :=
  others.all (fun x => isBetter x.agg cur.agg)

/-- the `for old in self.pareto_front` loop that rebuilds the front -/
def rebuild (nf : List Reg) : List Reg → List Reg
  | [] => nf
  | old :: rest => rebuild (if !isDominated old nf then nf ++ [old] else nf) rest

/-- One iteration of `MultiObjectiveProgressTracker.evaluate`: new `pareto_front`, `is_best`. -/
def mStep (front : List Reg) (r : Reg) : List Reg × Bool :=
  let notDominated := front.isEmpty || !isDominated r front
  if notDominated then (rebuild [r] front, true) else (front, false)

def mRun (front : List Reg) : List Reg → List Reg × List Bool
  | [] => (front, [])
  | r :: rs =>
    let (f', b) := mStep front r
    let (ff, bs) := mRun f' rs
    (ff, b :: bs)

inductive Tracker where
  | single (best : Option Reg)
  | multi (front : List Reg)
  deriving DecidableEq, Repr

def Tracker.present : Tracker → Reg → Tracker
  | .single b, r => .single (sStep b r).1
  | .multi f, r => .multi (mStep f r).1

def Tracker.presentAll (t : Tracker) (rs : List Reg) : Tracker := rs.foldl Tracker.present t

/-- `tracker.get_best_individual()`; for the multi-objective tracker (as repaired) the head of
the Pareto list, `None` while it is empty. -/
def Tracker.best? : Tracker → Option Reg
  | .single b => b
  | .multi f => f.head?

/-! ## Budgets -/

inductive Budget where
  | evaluations (n : Nat)
  | target (v : Int)
  | anyOf (a b : Budget)
  deriving DecidableEq, Repr

/-- Fitness values of the target budget are carried in units of `1e-5`; `0.0001` is 10 units. -/
def tolerance : Int := 10

structure SearchState where
  count : Nat
  tracker : Tracker
  deriving DecidableEq, Repr

/-- `SearchBudget.is_done(tracker)`.  (`TargetFitness` asserts a single-objective tracker; with a
multi-objective one the real code raises — the model says `false` and the harness never does it.) -/
def Budget.isDone : Budget → SearchState → Bool
  | .evaluations n, s => decide (n ≤ s.count)
  | .target v, s =>
    match s.tracker with
    | .single (some b) => decide ((b.comp - v).natAbs < tolerance.toNat)
    | _ => false
  | .anyOf a b, s => a.isDone s || b.isDone s

/-! ## The search loops

All four `search()` methods have the shape

    [GP only: evaluate the initial population]
    while not self.is_done():
        hand some individuals to the tracker      -- iteration i: `iters i`
    return tracker.get_best_individual()

An iteration is abstracted to what the tracker and the counter see of it: the individuals
presented (in order) and the number of evaluations performed — and, for GP, the individuals a
step evaluated directly through `evaluator.evaluate` (steps are handed the evaluator, not the
tracker) without their ever reaching the tracker (`unseen`; e.g. the losers of a tournament held
right after a mutation step). -/

structure Iter where
  regs : List Reg
  evals : Nat
  unseen : List Reg
  deriving Repr

def SearchState.step (s : SearchState) (it : Iter) : SearchState :=
  { count := s.count + it.evals, tracker := s.tracker.presentAll it.regs }

/-- `while not is_done(): iteration i`.  `fuel` bounds the number of budget checks; the result is
the index of the check at which the loop stopped and the state then, `none` if `fuel` checks all
said "not done". -/
def search (b : Budget) (iters : Nat → Iter) : Nat → Nat → SearchState → Option (Nat × SearchState)
  | 0, _, _ => none
  | fuel + 1, i, s =>
    if b.isDone s then some (i, s) else search b iters fuel (i + 1) (s.step (iters i))

/-- The state at budget check `j` of a run that has not stopped before. -/
def stateFrom (iters : Nat → Iter) (i : Nat) (s : SearchState) : Nat → SearchState
  | 0 => s
  | j + 1 => stateFrom iters (i + 1) (s.step (iters i)) j

inductive Algo where
  | randomSearch
  | hillClimbing (mutations : Nat)
  | onePlusOne
  | gp (population : Nat)
  deriving DecidableEq, Repr

/-- State at the first budget check: GP has evaluated its initial population by then. -/
def Algo.start (a : Algo) (t0 : Tracker) (init : Iter) : SearchState :=
  match a with
  | .gp _ => (SearchState.mk 0 t0).step init
  | _ => ⟨0, t0⟩

/-- What the code of each algorithm guarantees about its iterations (every individual a loop
creates is a new object, hence evaluated; GP re-presents a whole population of which any
number may be new). -/
def Algo.Shape (a : Algo) (init : Iter) (iters : Nat → Iter) : Prop :=
  match a with
  | .randomSearch | .onePlusOne => ∀ i, (iters i).regs.length = 1 ∧ (iters i).evals = 1
  | .hillClimbing m =>
      ((iters 0).regs.length = 1 ∧ (iters 0).evals = 1) ∧
      ∀ i, (iters (i + 1)).regs.length = m ∧ (iters (i + 1)).evals = m
  | .gp pop =>
      (init.regs.length = pop ∧ init.evals = pop) ∧
      ∀ i, (iters i).regs.length = pop ∧ (iters i).evals ≤ pop

/-- The number of individuals evaluated between two budget checks is at most this. -/
def Algo.bound : Algo → Nat
  | .randomSearch | .onePlusOne => 1
  | .hillClimbing m => m
  | .gp pop => pop

/-- `search()`: stop index, final state, returned individual. -/
def runSearch (a : Algo) (b : Budget) (t0 : Tracker) (init : Iter) (iters : Nat → Iter) (fuel : Nat) :
    Option (Nat × SearchState × Option Reg) :=
  (search b iters fuel 0 (a.start t0 init)).map (fun r => (r.1, r.2, r.2.tracker.best?))

/-- Everything evaluated before check `m` that never reached the tracker. -/
def evaluatedUnseen (a : Algo) (init : Iter) (iters : Nat → Iter) (m : Nat) : List Reg :=
  (match a with | .gp _ => init.unseen | _ => []) ++ (List.range m).flatMap (fun i => (iters i).unseen)

/-- Everything presented to the tracker before check `m`. -/
def presented (a : Algo) (init : Iter) (iters : Nat → Iter) (m : Nat) : List Reg :=
  (match a with | .gp _ => init.regs | _ => []) ++ (List.range m).flatMap (fun i => (iters i).regs)

/-! ## The public ranking helpers (`problems/helpers.py`) -/

/-- `problems.helpers.best_individual(population, problem)`: Python's `max(population, key=aggregate)` -- the FIRST individual of
maximal aggregate. -/
def helperBest : List Reg → Option Reg
  | [] => none
  | x :: xs => some (xs.foldl (fun b y => if isBetter y.agg b.agg then y else b) x)

/-- `problems.helpers.is_better(problem, a, b)` -/
def helperIsBetter (a b : Reg) : Bool := isBetter a.agg b.agg

end GEVerif.Eval
