/-
  Model of the places where the library iterates a Python `set` of grammar symbols, with the
  iteration order made an explicit parameter (C08).

  A `set` of classes iterates in an order that depends on object addresses (different between
  processes).  Two functions let that order reach the result:

  * `StructuredGrammaticalEvolutionRepresentation.create_genotype` deals `gene_length` draws of the
    seeded stream to each key *in iteration order*;
  * `stackgggp.create_tree_using_stacks` builds a list from the set and indexes it with a value read
    from the genotype.

  Both were repaired to iterate `sorted(symbols, key=str)`.  Here the code AS IT WAS is the
  function of an arbitrary enumeration `order` of the set (`sgeCreateWith`, `stackPick`), and the
  code AS REPAIRED applies it to `sortBy key symbols` (`sgeCreate`, `stackPickSorted`).

  Symbols and dictionary keys are `Nat` codes; `key : Key → Nat` is the code of `str(symbol)` in
  string order (distinct symbols have distinct `str()`: an assumption the harness guarantees).
-/
import GEVerif.Model.Rand
import GEVerif.Model.Synth
import GEVerif.Model.Linear

namespace GEVerif.Order
open GEVerif

/-! ### `sorted(xs, key=…)`: stable insertion sort -/

/-- insert `x` before the first element whose key is not smaller -/
def insertBy {α : Type} (key : α → Nat) (x : α) : List α → List α
  | [] => [x]
  | y :: ys => if key x ≤ key y then x :: y :: ys else y :: insertBy key x ys

/-- `sorted(xs, key=key)`.  Inserting from the right keeps equal keys in their original order
(Python's sort is stable). -/
def sortBy {α : Type} (key : α → Nat) : List α → List α
  | [] => []
  | x :: xs => insertBy key x (sortBy key xs)

/-! ### SGE genotype creation -/

/-- a grammar symbol / a dictionary key of the SGE genotype (the code of its `str()`) -/
abbrev Key := Nat

/-- the key `"$infrastructure"` -/
def INFRA : Key := 0

/-- `for nodestr in nodes: dna[nodestr] = [random.randint(0, sys.maxsize) for _ in range(L)]`:
the sequence of dictionary assignments, in order (the resulting `dict` is a function of it). -/
def dealTo (L : Nat) : List Key → SynM (List (Key × List Int))
  | [] => pure []
  | k :: ks => do
    let genes ← drawMany 0 MAXSIZE L
    let rest ← dealTo L ks
    pure ((k, genes) :: rest)

/-- the key list of `create_genotype`: the symbols in iteration order, then the field types found
while walking the symbols in that same order (`extra`, a function of the enumeration), then
`$infrastructure` last. -/
def sgeNodes (extra : List Key → List Key) (order : List Key) : List Key :=
  order ++ extra order ++ [INFRA]

/-- `create_genotype` AS IT WAS: `order` is whatever the set `grammar.all_nodes` yields. -/
def sgeCreateWith (extra : List Key → List Key) (order : List Key) (L : Nat) :
    SynM (List (Key × List Int)) :=
  dealTo L (sgeNodes extra order)

/-- `create_genotype` AS REPAIRED: `all_nodes = sorted(self.grammar.all_nodes, key=str)`;
`symbols` is any enumeration of the set. -/
def sgeCreate (extra : List Key → List Key) (key : Key → Nat) (symbols : List Key) (L : Nat) :
    SynM (List (Key × List Int)) :=
  sgeCreateWith extra (sortBy key symbols) L

/-- the genotype a run returned, if it returned one -/
def resVal {α : Type} : Res α → Option α
  | .ok a _ => some a
  | .err _ _ => none

/-! ### Stack mapping -/

/-- what the stack machine does with a gene `i`: index the list built from the symbol set
(uniform weights: `choice_weighted` falls on `all_stack_types[i % len]`).  AS IT WAS: `order` is
whatever `get_all_mentioned_symbols()` yields. -/
def stackPick (order : List Key) (i : Nat) : Option Key := order[i % order.length]?

/-- AS REPAIRED: `all_stack_types = sorted(g.get_all_mentioned_symbols(), key=str)`. -/
def stackPickSorted (key : Key → Nat) (symbols : List Key) (i : Nat) : Option Key :=
  stackPick (sortBy key symbols) i

end GEVerif.Order
