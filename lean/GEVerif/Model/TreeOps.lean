/-
  Model of `representations/tree/treebased.py`: `mutate`, `tree_mutate`, `tree_crossover`
  AS THE CODE IS at the pinned commit, and the specification of subtree recombination.

  In `mutate` the test `hasattr(i, "synthesis_context")` is always false (the attribute is
  `gengy_synthesis_context`), so `node_to_mutate = 0`: the operator always acts at the root.
  At the root it looks for donors of the (usually abstract) start symbol in the other parent's
  `gengy_types_this_way`, which is keyed by CONCRETE classes; a donor is found only when the
  start symbol is itself a concrete class.  Otherwise a fresh tree is created with the root's
  stored synthesis context.  (Open finding for C06; see Props/C06.lean.)
-/
import GEVerif.Model.Synth
import GEVerif.Model.Labels

namespace GEVerif

def Val.ctx : Val → Option Ctx
  | .node _ d e _ => some ⟨d, e⟩
  | .list d e _ => some ⟨d, e⟩
  | _ => none

/-- occurrences of class `c` in pre-order: `gengy_types_this_way[c]` of the root -/
def occurrences (c : Nat) (v : Val) : List Val :=
  v.subvalues.filter fun x => match x with | .node c' _ _ _ => c' == c | _ => false

/-- `mutate(global_context, i, start, source_material=src)` at the root. -/
def mutateRoot (g : Grammar) (dec : Decider) (fuel : Nat) (i : Val) (source : Option Val) : SynM Val :=
  let start := g.spec.start
  match i.ctx with
  | none => createNode g dec fuel (.cls start) ⟨0, 0⟩ []
  | some ctx =>
    let options := match source with
      | some src => occurrences start src
      | none => []
    if options.isEmpty then createNode g dec fuel (.cls start) ctx []
    else do
      -- decider.choose_options = random.choice
      let k ← choiceIdxM options.length
      listGetM options k

def treeMutate (g : Grammar) (dec : Decider) (fuel : Nat) (i : Val) : SynM Val :=
  mutateRoot g dec fuel i none

def treeCrossover (g : Grammar) (dec : Decider) (fuel : Nat) (p1 p2 : Val) : SynM (Val × Val) := do
  let c1 ← mutateRoot g dec fuel p1 (some p2)
  let c2 ← mutateRoot g dec fuel p2 (some p1)
  pure (c1, c2)

/-! ### Specification: one subtree of `p` replaced by a subtree of the other parent -/

mutual
/-- structure without the synthesis-context metadata -/
def Val.erase : Val → Val
  | .node c _ _ args => .node c 0 0 (Val.eraseList args)
  | .list _ _ vs => .list 0 0 (Val.eraseList vs)
  | .tuple vs => .tuple (Val.eraseList vs)
  | v => v
def Val.eraseList : List Val → List Val
  | [] => []
  | v :: vs => Val.erase v :: Val.eraseList vs
end

mutual
/-- `c` is `p` with exactly one sub-value (possibly the root) replaced by one of `donors` -/
def recombOf (donors : List Val) : Val → Val → Bool
  | p, c =>
    donors.any (· == c) ||
    match p, c with
    | .node k _ _ as, .node k' _ _ bs => k == k' && recombOne donors as bs
    | .list _ _ as, .list _ _ bs => recombOne donors as bs
    | .tuple as, .tuple bs => recombOne donors as bs
    | _, _ => false
/-- exactly one position differs, and there the child is a recombination -/
def recombOne (donors : List Val) : List Val → List Val → Bool
  | a :: as, b :: bs =>
    if a == b then recombOne donors as bs
    else recombOf donors a b && Val.beqList as bs
  | _, _ => false
end

/-- the child consists of parental material: it is `p1` itself, or `p1` with one subtree
replaced by a subtree of `p2` (synthesis-context metadata ignored) -/
def isRecombination (p1 p2 c : Val) : Bool :=
  let p1 := p1.erase; let c := c.erase
  p1 == c || recombOf (p2.erase.subvalues) p1 c

end GEVerif
