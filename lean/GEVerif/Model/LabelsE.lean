/-
  `relabel_nodes` in BOTH depth modes (`expansion_depthing` False / True) and the independent
  specification of the labels in grammar-expansion mode.

  Expansion mode (docs/source/grammars.md, "Depth of the grammatical expansion"): every object
  -- also a base value and a field-less class instance -- counts as one node at distance 1;
  every expansion of an abstract symbol on the way from the DECLARED type of a field down to the
  class of the value stored there costs one more node and one more level
  (`Grammar.abstract_dist_to_t[declared][actual]`); a list or tuple stored in a field costs one
  node and one level, its elements are then the children.
-/
import GEVerif.Model.Labels

namespace GEVerif

/-! ### `abstract_dist_to_t`: the number of abstract expansions from a symbol to a class -/

/-- breadth-first levels over the alternatives table: the level at which `c` first appears -/
def absDistFrom (g : Grammar) : Nat → List Nat → Nat → Nat → Nat
  | 0, _, _, _ => INF
  | fuel + 1, frontier, lvl, c =>
    let next := (frontier.map fun a => (g.altsOf a).getD []).flatten
    if next.contains c then lvl + 1
    else if next.isEmpty then INF
    else absDistFrom g fuel next.eraseDups (lvl + 1) c

/-- `grammar.abstract_dist_to_t[a][c]` (the table `preprocess` relaxes until nothing changes:
the length of the shortest chain of alternatives from `a` to `c`; `INF_VALUE` when there is
none) -/
def Grammar.absDist (g : Grammar) (a c : Nat) : Nat :=
  absDistFrom g (g.spec.classes.length + 1) [a] 0 c

/-- what the enclosing node adds for the step from the declared type of a field to the value:
`abs_adjust` of `relabel_nodes` -/
def absAdjust (g : Grammar) (declared : Option Ty) : Val → Nat
  | .list .. => g.e
  | .tuple .. => g.e
  | .node c _ _ _ =>
      if g.e == 0 then 0 else
      match declared with
      | some (.cls a) => if (g.cls a).abstract then g.absDist a c else 0
      | _ => 0
  | _ =>
      if g.e == 0 then 0 else
      match declared with
      | some (.cls a) => if (g.cls a).abstract then INF else 0
      | _ => 0

/-- `list_adjust` of `relabel_nodes`: a container child is transparent -/
def listAdjust : Val → Nat
  | .list .. => 0
  | .tuple .. => 0
  | _ => 1

mutual
/-- the element type a list created for this declared type remembers (`GengyList.typ`) -/
def Ty.elem : Ty → Option Ty
  | .list t => some t
  | .ann t _ => Ty.elem t
  | .union ts => Ty.elemFirst ts
  | _ => none
def Ty.elemFirst : List Ty → Option Ty
  | [] => none
  | t :: ts => match Ty.elem t with
    | some x => some x
    | none => Ty.elemFirst ts
end

mutual
/-- the component types of a tuple created for this declared type -/
def Ty.comps : Ty → List Ty
  | .tuple ts => ts
  | .ann t _ => Ty.comps t
  | .union ts => Ty.compsFirst ts
  | _ => []
def Ty.compsFirst : List Ty → List Ty
  | [] => []
  | t :: ts => match Ty.comps t with
    | [] => Ty.compsFirst ts
    | cs => cs
end

/-- declared types of the children of a value whose own declared type is `decl`:
a class instance declares its fields; a `GengyList` declares every element with its remembered
element type; a tuple's components are not charged (`relabel_nodes` sees `type(obj)` there) but
the component types are still threaded down to the lists inside. -/
def childDecls (g : Grammar) (decl : Option Ty) : Val → List (Option Ty)
  | .node c _ _ _ => (g.cls c).fields.map fun f => some f.2
  | .list _ _ vs => List.replicate vs.length (decl.bind Ty.elem)
  | .tuple _ => ((decl.map Ty.comps).getD []).map some
  | _ => []

/-- are the children charged for abstract expansions? -/
def chargesChildren : Val → Bool
  | .tuple _ => false
  | _ => true

mutual
/-- `relabel_nodes` on a fresh (unlabelled) value whose declared type is `decl`, either depth mode -/
def relabelE (g : Grammar) (decl : Option Ty) : Val → Lab
  | .node c d x args =>
      if g.isTerminalCls c then ⟨g.e, g.e, g.e, [(.cls c, 1)]⟩ else
      let (n, dd, w, t) := relabelChildrenE g true (childDecls g decl (.node c d x args)) args
      let dtt := max 1 dd
      ⟨1 + n, dtt, w + dtt, mergeCounts [(.cls c, 1)] t⟩
  | .list d x vs =>
      let (n, dd, w, t) := relabelChildrenE g true (childDecls g decl (.list d x vs)) vs
      ⟨n, dd, w, mergeCounts [(.list, 1)] t⟩
  | .tuple vs =>
      let (n, dd, w, t) := relabelChildrenE g false (childDecls g decl (.tuple vs)) vs
      ⟨n, dd, w, mergeCounts [(.tuple, 1)] t⟩
  | v => ⟨g.e, g.e, g.e, [(v.key, 1)]⟩
/-- fold over the children; `tys` are the declared types still to be consumed -/
def relabelChildrenE (g : Grammar) (charge : Bool) :
    List (Option Ty) → List Val → Nat × Nat × Nat × List (TKey × Nat)
  | _, [] => (0, 0, 0, [])
  | tys, c :: cs =>
      let l := relabelE g tys.head?.join c
      let (n, d, w, t) := relabelChildrenE g charge tys.tail cs
      let a := absAdjust g (if charge then tys.head?.join else none) c
      (l.nodes + a + n, max (l.dtt + a + listAdjust c) d, l.weighted + w, mergeCounts l.types t)
end

/-! ### Independent specification in expansion mode -/

def Val.isContainer : Val → Bool
  | .list .. => true
  | .tuple .. => true
  | _ => false

mutual
/-- total number of abstract expansions on all parent → child steps beneath a value -/
def hopsSum (g : Grammar) (decl : Option Ty) : Val → Nat
  | .node c d x args => hopsSumChildren g true (childDecls g decl (.node c d x args)) args
  | .list d x vs => hopsSumChildren g true (childDecls g decl (.list d x vs)) vs
  | .tuple vs => hopsSumChildren g false (childDecls g decl (.tuple vs)) vs
  | _ => 0
def hopsSumChildren (g : Grammar) (charge : Bool) : List (Option Ty) → List Val → Nat
  | _, [] => 0
  | tys, c :: cs =>
      (if c.isContainer then 0 else absAdjust g (if charge then tys.head?.join else none) c)
        + hopsSum g tys.head?.join c + hopsSumChildren g charge tys.tail cs
end

/-- node count in expansion mode: every object (class instance or base value) counts one, every
container stored BENEATH the value counts one, every abstract expansion counts one. -/
def nodesSpecE (g : Grammar) (decl : Option Ty) (v : Val) : Nat :=
  (v.subvalues.filter fun x => !x.isContainer).length
    + (v.subvalues.tail.filter Val.isContainer).length
    + hopsSum g decl v

mutual
/-- distance to the deepest terminal in expansion mode -/
def dttSpecE (g : Grammar) (decl : Option Ty) : Val → Nat
  | .node c d x args =>
      if g.isTerminalCls c then 1
      else max 1 (dttChildrenE g true (childDecls g decl (.node c d x args)) args)
  | .list d x vs => dttChildrenE g true (childDecls g decl (.list d x vs)) vs
  | .tuple vs => dttChildrenE g false (childDecls g decl (.tuple vs)) vs
  | _ => 1
def dttChildrenE (g : Grammar) (charge : Bool) : List (Option Ty) → List Val → Nat
  | _, [] => 0
  | tys, c :: cs =>
      max (dttSpecE g tys.head?.join c + absAdjust g (if charge then tys.head?.join else none) c + listAdjust c)
        (dttChildrenE g charge tys.tail cs)
end

mutual
/-- the values beneath (and including) `v`, each with its declared type -/
def declSubvalues (g : Grammar) (decl : Option Ty) : Val → List (Option Ty × Val)
  | .node c d x args =>
      (decl, .node c d x args) :: declSubvaluesList g (childDecls g decl (.node c d x args)) args
  | .list d x vs => (decl, .list d x vs) :: declSubvaluesList g (childDecls g decl (.list d x vs)) vs
  | .tuple vs => (decl, .tuple vs) :: declSubvaluesList g (childDecls g decl (.tuple vs)) vs
  | v => [(decl, v)]
def declSubvaluesList (g : Grammar) : List (Option Ty) → List Val → List (Option Ty × Val)
  | _, [] => []
  | tys, c :: cs => declSubvalues g tys.head?.join c ++ declSubvaluesList g tys.tail cs
end

/-- weighted size in expansion mode: the distance of every non-terminal node plus one per
terminal object -/
def weightedSpecE (g : Grammar) (decl : Option Ty) (v : Val) : Nat :=
  (((declSubvalues g decl v).filter fun p => p.2.isNonTerminalNode g).map fun p => dttSpecE g p.1 p.2).sum
    + (v.subvalues.filter fun x => !x.isContainer && !x.isNonTerminalNode g).length

/-! ### The memoised algorithm in either depth mode

As in `Model/Labels.lean`: an object whose `gengy_labeled` flag is set returns its stored labels
without looking at its children.  What the ENCLOSING node adds for the step down to a child
(`absAdjust`, `listAdjust`) is computed from the child's class, never cached. -/

mutual
def relabelMemoE (g : Grammar) (decl : Option Ty) : LVal → Lab × LVal
  | .node (some l) c d e args => (l, .node (some l) c d e args)
  | .node none c d e args =>
      if g.isTerminalCls c then
        let l : Lab := ⟨g.e, g.e, g.e, [(.cls c, 1)]⟩
        (l, .node (some l) c d e args)
      else
        let (r, args') := relabelMemoChildrenE g true ((g.cls c).fields.map fun f => some f.2) args
        let dtt := max 1 r.2.1
        let l : Lab := ⟨1 + r.1, dtt, r.2.2.1 + dtt, mergeCounts [(.cls c, 1)] r.2.2.2⟩
        (l, .node (some l) c d e args')
  | .list (some l) d e vs => (l, .list (some l) d e vs)
  | .list none d e vs =>
      let (r, vs') := relabelMemoChildrenE g true (List.replicate vs.length (decl.bind Ty.elem)) vs
      let l : Lab := ⟨r.1, r.2.1, r.2.2.1, mergeCounts [(.list, 1)] r.2.2.2⟩
      (l, .list (some l) d e vs')
  | .tuple vs =>
      let (r, vs') := relabelMemoChildrenE g false (((decl.map Ty.comps).getD []).map some) vs
      (⟨r.1, r.2.1, r.2.2.1, mergeCounts [(.tuple, 1)] r.2.2.2⟩, .tuple vs')
  | .int i => (⟨g.e, g.e, g.e, [(.int, 1)]⟩, .int i)
  | .float => (⟨g.e, g.e, g.e, [(.float, 1)]⟩, .float)
  | .str s => (⟨g.e, g.e, g.e, [(.str, 1)]⟩, .str s)
  | .bool b => (⟨g.e, g.e, g.e, [(.bool, 1)]⟩, .bool b)
  | .foreign t => (⟨g.e, g.e, g.e, [(.other, 1)]⟩, .foreign t)
def relabelMemoChildrenE (g : Grammar) (charge : Bool) :
    List (Option Ty) → List LVal → (Nat × Nat × Nat × List (TKey × Nat)) × List LVal
  | _, [] => ((0, 0, 0, []), [])
  | tys, c :: cs =>
      let (l, c') := relabelMemoE g tys.head?.join c
      let (r, cs') := relabelMemoChildrenE g charge tys.tail cs
      let a := absAdjust g (if charge then tys.head?.join else none) c.erase
      ((l.nodes + a + r.1, max (l.dtt + a + listAdjust c.erase) r.2.1, l.weighted + r.2.2.1,
        mergeCounts l.types r.2.2.2), c' :: cs')
end

mutual
/-- every cached label anywhere in the tree is the (mode-aware) label of the subtree it sits on,
for the declared type of its position -/
def CachesCorrectE (g : Grammar) (decl : Option Ty) : LVal → Prop
  | .node cache c d e args =>
      (∀ l, cache = some l → l = relabelE g decl (.node c d e (LVal.eraseList args))) ∧
        CachesCorrectListE g ((g.cls c).fields.map fun f => some f.2) args
  | .list cache d e vs =>
      (∀ l, cache = some l → l = relabelE g decl (.list d e (LVal.eraseList vs))) ∧
        CachesCorrectListE g (List.replicate vs.length (decl.bind Ty.elem)) vs
  | .tuple vs => CachesCorrectListE g (((decl.map Ty.comps).getD []).map some) vs
  | _ => True
def CachesCorrectListE (g : Grammar) : List (Option Ty) → List LVal → Prop
  | _, [] => True
  | tys, v :: vs => CachesCorrectE g tys.head?.join v ∧ CachesCorrectListE g tys.tail vs
end

mutual
/-- all subtrees in pre-order, each with the declared type of its position (the positions `CachesCorrectE` uses) -/
def LVal.declSubtrees (g : Grammar) (decl : Option Ty) : LVal → List (Option Ty × LVal)
  | .node o c d e args =>
      (decl, .node o c d e args) :: LVal.declSubtreesList g ((g.cls c).fields.map fun f => some f.2) args
  | .list o d e vs =>
      (decl, .list o d e vs) :: LVal.declSubtreesList g (List.replicate vs.length (decl.bind Ty.elem)) vs
  | .tuple vs => (decl, .tuple vs) :: LVal.declSubtreesList g (((decl.map Ty.comps).getD []).map some) vs
  | v => [(decl, v)]
def LVal.declSubtreesList (g : Grammar) : List (Option Ty) → List LVal → List (Option Ty × LVal)
  | _, [] => []
  | tys, v :: vs => LVal.declSubtrees g tys.head?.join v ++ LVal.declSubtreesList g tys.tail vs
end

end GEVerif
