/-
  Wire format (s-expressions) of the Steps model, shared by the C15/C16/C17 line handlers, and
  the decidable predicates those handlers evaluate on IMPLEMENTATION output (level B).
  No proofs here; imports only the model.
-/
import GEVerif.Model.Sexp
import GEVerif.Model.Steps

namespace GEVerif.StepsWire
open GEVerif GEVerif.Steps Sexp

def parseInd : Sexp → Option Ind
  | list [i, a, cs] => do pure ⟨← i.asInt?, ← a.asInt?, ← cs.asInts?⟩
  | _ => none

def parsePop (s : Sexp) : Option (List Ind) := do (← s.asList?).mapM parseInd

def parseBools (s : Sexp) : Option (List Bool) := do (← s.asList?).mapM asBool?

def ofInd (x : Ind) : Sexp := list [ofInt x.id, ofInt x.agg, ofInts x.comps]
def ofPop (xs : List Ind) : Sexp := list (xs.map ofInd)
def ofIds (xs : List Ind) : Sexp := ofInts (xs.map (·.id))

partial def parseStep : Sexp → Option Step
  | atom "identity" => some .identity
  | atom "elitism" => some .elitism
  | atom "novelty" => some .novelty
  | list [atom "tournament", ts, wr] => do pure (.tournament (← ts.asNat?) (← wr.asBool?))
  | list [atom "lexicase", n, mins, eps] => do pure (.lexicase (← n.asNat?) (← parseBools mins) (← eps.asBool?))
  | list [atom "mutation", m] => do pure (.mutation (← m.asNat?))
  | list [atom "crossover", m] => do pure (.crossover (← m.asNat?))
  | list (atom "seq" :: ss) => do pure (.seq (← ss.mapM parseStep))
  | list [atom "par", list ss, ws] => do pure (.par (← ss.mapM parseStep) (← ws.asNats?))
  | list [atom "xpar", list ss, ws] => do pure (.xpar (← ss.mapM parseStep) (← ws.asNats?))
  | _ => none

def parseForm (xs : List Ind) : Sexp → Option Iter
  | atom "list" => some (Iter.ofList xs)
  | atom "population" => some (Iter.ofList xs)
  | atom "iterator" => some (Iter.gen xs)
  | _ => none

partial def parseInit : Sexp → Option Init
  | atom "standard" => some .standard
  | atom "full" => some .full
  | atom "grow" => some .grow
  | atom "pigrow" => some .pigrow
  | list [atom "inject", n, b] => do pure (.inject (← n.asNat?) (← parseInit b))
  | list [atom "half", a, b] => do pure (.halfAndHalf (← parseInit a) (← parseInit b))
  | _ => none

def ofOrigin : Origin → Sexp
  | .injected i => atom s!"i{i}"
  | .created => atom "c"

def mkSt (ints floats : List Nat) : St Script := ⟨{ draws := ints, pos := 0 }, floats, 0⟩

def err : Sexp := atom "error"

/-! ### decidable predicates on implementation output -/

/-- `compute_ranges` output: one slice per weight, `start ≤ end`, sizes sum to the target -/
def rangesOk (nWeights target : Nat) (rs : List (Nat × Nat)) : Bool :=
  rs.length == nWeights && rs.all (fun p => p.1 ≤ p.2) && (sliceSizes rs).sum == target

/-- multiset difference `xs ∖ ys` -/
def removeAll (xs ys : List Ind) : List Ind := ys.foldl (fun acc y => acc.erase y) xs

/-- every element of `ys` can be matched with a distinct element of `xs` -/
def subMultiset (ys xs : List Ind) : Bool := ys.all (fun y => ys.count y ≤ xs.count y)

/-- C16: `out` is `min k len` members of `pop` and nothing left out is strictly better -/
def topkOk (pop : List Ind) (k : Nat) (out : List Ind) : Bool :=
  out.length == min k pop.length && subMultiset out pop &&
    out.all (fun x => (removeAll pop out).all (fun y => y.agg ≤ x.agg))

def chainLe : List Int → Bool
  | a :: b :: rest => a ≤ b && chainLe (b :: rest)
  | _ => true

/-- C17 tournament: winner among the drawn participants, participants from the population,
no participant strictly fitter than the winner -/
def tournamentRoundOk (pop : List Ind) (parts : List Ind) (w : Ind) : Bool :=
  parts.contains w && parts.all (fun p => pop.contains p) && pop.contains w &&
    parts.all (fun p => p.agg ≤ w.agg)

def insertAll {α : Type} (x : α) : List α → List (List α)
  | [] => [[x]]
  | y :: ys => (x :: y :: ys) :: (insertAll x ys).map (y :: ·)

def permutations {α : Type} : List α → List (List α)
  | [] => [[]]
  | x :: xs => (permutations xs).flatMap (insertAll x)

/-- C17 lexicase, one winner: it is one of the remaining candidates and survives the filter for
SOME order of the cases (every order is a possible fresh shuffle) -/
def lexicaseRoundOk (nCases : Nat) (mins : List Bool) (eps : Bool) (remaining : List Ind) (w : Ind) : Bool :=
  remaining.contains w &&
    (permutations (List.range nCases)).any (fun cs => (lexFilter eps mins cs remaining).contains w)

/-- C17 lexicase, whole output: each winner is sound w.r.t. the candidates still available when
it is chosen (the population minus the earlier winners); implies the multiplicity bound -/
def lexicaseOk (nCases : Nat) (mins : List Bool) (eps : Bool) : List Ind → List Ind → Bool
  | _, [] => true
  | remaining, w :: ws =>
    lexicaseRoundOk nCases mins eps remaining w && lexicaseOk nCases mins eps (remaining.erase w) ws

end GEVerif.StepsWire
