/-
  Line-protocol handlers for C16 (elitism keeps the best, monotone best fitness).
-/
import GEVerif.Model.Sexp
import GEVerif.Model.Steps
import GEVerif.Model.StepsWire

namespace GEVerif.Drive.C16
open GEVerif GEVerif.Steps Sexp StepsWire

def bestAggOf (xs : List Ind) : Sexp :=
  match maxByAgg xs with
  | some b => ofInt b.agg
  | none => atom "none"

def handle : List Sexp → Option Sexp
  | [atom "elitism", form, pop, k] => do
      let pop ← parsePop pop
      match apply scripted ⟨0⟩ .elitism (← parseForm pop form) (← k.asNat?) (mkSt [] []) with
      | some (out, _) => pure (ofIds out)
      | none => pure err
  | [atom "sort", pop] => do
      pure (ofIds (sortDesc (← parsePop pop)))
  -- best aggregate of every generation of a whole modelled run
  | [atom "gp_best", step, size, gens, pop, ints, floats, nComps] => do
      match gpGenerations scripted ⟨← nComps.asNat?⟩ (← parseStep step) (← size.asNat?) (← gens.asNat?) (← parsePop pop)
          (mkSt (← ints.asNats?) (← floats.asNats?)) with
      | some (gs, _) => pure (list (gs.map bestAggOf))
      | none => pure err
  -- predicates on implementation output
  | [atom "prop_topk", pop, k, out] => do
      pure (ofBool (topkOk (← parsePop pop) (← k.asNat?) (← parsePop out)))
  | [atom "prop_monotone", bests] => do
      pure (ofBool (chainLe (← bests.asInts?)))
  | [atom "prop_direction", minimize, v, agg] => do
      let v ← v.asInt?
      pure (ofBool ((← agg.asInt?) == (if (← minimize.asBool?) then -v else v)))
  | _ => none

end GEVerif.Drive.C16
