/-
  Line-protocol handlers for C16.  `handle` receives the tokens after the property id.
-/
import GEVerif.Model.Sexp

namespace GEVerif.Drive.C16
open GEVerif Sexp

def handle : List Sexp → Option Sexp
  | _ => none

end GEVerif.Drive.C16
