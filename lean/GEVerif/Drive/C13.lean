/-
  Line-protocol handlers for C13 (fitness from the phenotype, once, counted honestly).
-/
import GEVerif.Model.Sexp
import GEVerif.Model.Eval
import GEVerif.Model.EvalWire

namespace GEVerif.Drive.C13
open GEVerif Sexp GEVerif.Eval GEVerif.Eval.Wire

/-- individuals that arrive already evaluated (honestly, by someone else: no count, no log) -/
def preEvaluate (Ps : List Problem) (pre : List (Nat × Nat)) (st : EvalState) : EvalState :=
  let st' := pre.foldl (fun st e => match Ps[e.1]? with
    | some P => evalOne P e.1 st e.2
    | none => st) st
  { store := st'.store }

def ofState (st : EvalState) : Sexp :=
  list [ofNat st.count, ofLog st.log, list (st.store.map (fun ind => ofCache ind.cache))]

/-- decidable form of `Honest` + "presented ⇒ has a fitness", on the implementation's output -/
def propHonest (Ps : List Problem) (phenos : List Int) (count : Nat) (log : List (Nat × Nat))
    (caches : List (List (Nat × Fitness))) (presented : List (Nat × Nat)) : Bool :=
  -- counter = number of invocations
  log.length == count &&
  -- each (problem, individual) at most once
  (List.range log.length).all (fun k => match log[k]? with
    | some e => !(log.take k).contains e
    | none => false) &&
  -- every recorded fitness is the problem's function of the phenotype
  caches.length == phenos.length &&
  (List.range phenos.length).all (fun i => match caches[i]?, phenos[i]? with
    | some c, some ph => c.all (fun e => match Ps[e.1]? with
        | some P => decide (e.2 = P.fitnessOf ph)
        | none => false)
    | _, _ => false) &&
  -- whatever was evaluated or presented carries a fitness
  (log ++ presented).all (fun e => match caches[e.2]? with
    | some c => (cacheGet e.1 c).isSome
    | none => false)

def handle : List Sexp → Option Sexp
  | [atom "run", ps, phenos, pre, calls] => do
      let Ps ← (← ps.asList?).mapM parseProblem
      let phenos ← phenos.asInts?
      let pre ← parseLog pre
      let calls ← (← calls.asList?).mapM parseCall
      pure (ofState (runCalls Ps (preEvaluate Ps pre (fresh phenos)) calls))
  | [atom "aggregate", k, raw] => do
      pure (ofFitness ((← parseKind k).evaluate (← raw.asInts?)))
  | [atom "default_fitness", cache] => do
      let ind : Indiv := { pheno := 0, cache := ← parseCache cache }
      pure (match ind.defaultFitness? with
        | some f => ofFitness f
        | none => atom "none")
  | [atom "prop_honest", ps, phenos, count, log, caches, presented] => do
      let Ps ← (← ps.asList?).mapM parseProblem
      let caches ← (← caches.asList?).mapM parseCache
      pure (ofBool (propHonest Ps (← phenos.asInts?) (← count.asNat?) (← parseLog log) caches (← parseLog presented)))
  | [atom "prop_same", a, b] =>
      -- two evaluators, same population: same fitness values on the same individuals, same count
      pure (ofBool (a == b))
  | _ => none

end GEVerif.Drive.C13
