/-
  Line-protocol handlers for C05 (grammar analysis).
-/
import GEVerif.Model.Sexp
import GEVerif.Model.Grammar
import GEVerif.Drive.Parse

namespace GEVerif.Drive.C05
open GEVerif Sexp GEVerif.Drive

def altsSx (alts : List (Nat × List Nat)) : Sexp :=
  list ((sortBy (fun (p : Nat × List Nat) => p.1) alts).map fun (p, cs) => list [ofNat p, ofNats cs])

def distSx (d : DistTable) : Sexp :=
  list ((sortBy (fun (p : Sym × Nat) => symKey p.1) d).map fun (s, n) => list [symSx s, ofNat n])

def parseDist (s : Sexp) : Option DistTable := do
  let xs ← s.asList?
  xs.mapM fun
    | list [k, v] => do pure (← parseSym k, ← v.asNat?)
    | _ => none

def obs (g : Grammar) : List Sexp := [
  list [atom "error", ofBool g.reg.error],
  list [atom "alts", altsSx g.reg.alts],
  list [atom "dist", distSx g.dist],
  list [atom "rec", symsSx g.recursive],
  list [atom "terminals", symsSx g.reg.terminals],
  list [atom "nonterminals", symsSx g.reg.nonTerminals]]

def handle : List Sexp → Option Sexp
  | [atom "analyse", spec] => do
      let g := analyse (← parseSpec spec)
      pure (list (obs g ++ [list [atom "usable", ofNats (sortBy id (usableGrammar g).classNodes)]]))
  | [atom "analyse_nousable", spec] => do
      pure (list (obs (analyse (← parseSpec spec))))
  | [atom "analyse_error", spec] => do
      pure (ofBool (analyse (← parseSpec spec)).reg.error)
  | [atom "prop_fixpoint", spec, dist] => do
      let spec ← parseSpec spec
      let g := analyse spec
      pure (ofBool (isFixpoint spec g.reg (← parseDist dist)))
  | _ => none

end GEVerif.Drive.C05
