/-
  Line-protocol handlers for C02.  `handle` receives the tokens after the property id.
-/
import GEVerif.Model.Sexp

namespace GEVerif.Drive.C02
open GEVerif Sexp

def handle : List Sexp → Option Sexp
  | _ => none

end GEVerif.Drive.C02
