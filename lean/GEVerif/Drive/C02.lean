/-
  Line-protocol handlers for C02 (refinements hold on every produced value).
-/
import GEVerif.Model.Sexp
import GEVerif.Model.Synth
import GEVerif.Model.StrOps
import GEVerif.Drive.Val
import GEVerif.Drive.C01

namespace GEVerif.Drive.C02
open GEVerif Sexp GEVerif.Drive

def parseDeps (s : Sexp) : Option (List (String × Val)) := do
  let xs ← s.asList?
  xs.mapM fun
    | list [atom k, v] => do pure (k, ← parseVal v)
    | _ => none

/-- a grammar with one abstract class and one field-less production, enough to host the
`rec` callback of list refinements over base types -/
def hostGrammar : Grammar :=
  analyse { classes := [{ name := "A", abstract := true, parent := none, fields := [] },
                        { name := "L", abstract := false, parent := some 0, fields := [] }],
            start := 0, considered := [1] }

def handle : List Sexp → Option Sexp
  | [atom "gen", ty, deps, draws] => do
      -- `create_node` on a refined type with given sibling values (metahandler.generate)
      let r := createNode hostGrammar { kind := .grow, maxDepth := 3 } 64 (← parseTy ty) ⟨1, 1⟩
        (← parseDeps deps) (mkSynSt (← draws.asNats?))
      pure (resSx valSx r)
  | [atom "prop_sat", mh, deps, v] => do
      pure (ofBool (sat (← parseMH mh) (← parseDeps deps) (← parseVal v)))
  | [atom "str_mutate", lo, hi, al, cur, draws] => do
      -- `StringSizeBetween(lo, hi, al).mutate(source, …, cur)` under the scripted source
      let r := StrOps.strMutate scripted (← lo.asNat?) (← hi.asNat?) (← parseStrs al) (← parseStrs cur) ⟨← draws.asNats?, 0⟩
      pure (match r.1 with | some out => list [atom "ok", strsSx out] | none => atom "error")
  | [atom "ws_generate", den, rows, draws] => do
      -- `WeightedStringHandler(matrix, alphabet).generate` under the scripted source: the letter indices
      let rs ← (← rows.asList?).mapM asNats?
      let r := StrOps.wsGenerate scripted (← den.asNat?) rs ⟨← draws.asNats?, 0⟩
      pure (match r.1 with | some out => list [atom "ok", ofNats out] | none => atom "error")
  | [atom "str_crossover", lo, hi, mates, cur, draws] => do
      let ms ← (← mates.asList?).mapM parseStrs
      let r := StrOps.strCrossover scripted (← lo.asNat?) (← hi.asNat?) ms (← parseStrs cur) ⟨← draws.asNats?, 0⟩
      pure (match r.1 with | some out => list [atom "ok", strsSx out] | none => atom "error")
  | rest => C01.handle rest

end GEVerif.Drive.C02
