/-
  Line-protocol handlers for C09: the object-level model of the genotype operators (`Model/Heap.lean`).
  `(C09 heap_run (op …))` executes the operations from the empty heap and returns the object graph after EVERY
  operation (all genotype objects ever made, addresses renamed by first occurrence); the harness compares each with
  the real graph (`id()` of the gene lists).  Everything else C09 observes lives on the implementation
  (see harness/props/c09.py).
-/
import GEVerif.Model.Sexp
import GEVerif.Model.Heap

namespace GEVerif.Drive.C09
open GEVerif Sexp GEVerif.Heap

def parseContent (s : Sexp) : Option (List (Nat × List Int)) := do
  let xs ← s.asList?
  xs.mapM fun
    | list [k, genes] => do pure (← k.asNat?, ← genes.asInts?)
    | _ => none

def parseOp : Sexp → Option Op
  | list [atom "fc", genes] => do pure (.flatCreate (← genes.asInts?))
  | list [atom "sc", c] => do pure (.structCreate (← parseContent c))
  | list [atom "fm", g, r, v] => do pure (.flatMutate (← g.asNat?) (← r.asNat?) (← v.asInt?))
  | list [atom "fx", g1, g2, cut] => do pure (.flatCrossover (← g1.asNat?) (← g2.asNat?) (← cut.asNat?))
  | list [atom "sm", g, atom "none"] => do pure (.structMutate (← g.asNat?) none)
  | list [atom "sm", g, list [k, r, v]] => do pure (.structMutate (← g.asNat?) (some (← k.asNat?, ← r.asNat?, ← v.asInt?)))
  | list [atom "sx", g1, g2, mask] => do
      pure (.structCrossover (← g1.asNat?) (← g2.asNat?) (← (← mask.asList?).mapM asBool?))
  | list [atom "map", g, ext] => do pure (.dsgeMap (← g.asNat?) (← parseContent ext))
  | _ => none

def dumpSx (d : List (List (Nat × Nat × List Int))) : Sexp :=
  list (d.map fun geno => list (geno.map fun (k, c, genes) => list [ofNat k, ofNat c, ofInts genes]))

/-- the graph after every operation -/
def runDumps (h : Heap) : List Op → List Sexp
  | [] => []
  | op :: rest => let h' := step h op; dumpSx (dump h') :: runDumps h' rest

def handle : List Sexp → Option Sexp
  | [atom "heap_run", ops] => do
      let ops ← (← ops.asList?).mapM parseOp
      pure (list (runDumps empty ops))
  | _ => none

end GEVerif.Drive.C09
