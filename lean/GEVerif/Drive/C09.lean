/-
  Line-protocol handlers for C09: none needed beyond the shared ones (the check observes object
  identity and caches on the implementation; see harness/props/c09.py).
-/
import GEVerif.Model.Sexp

namespace GEVerif.Drive.C09
open GEVerif Sexp

def handle : List Sexp → Option Sexp
  | _ => none

end GEVerif.Drive.C09
