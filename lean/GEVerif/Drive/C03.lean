/-
  Line-protocol handlers for C03.  `handle` receives the tokens after the property id.
-/
import GEVerif.Model.Sexp

namespace GEVerif.Drive.C03
open GEVerif Sexp

def handle : List Sexp → Option Sexp
  | _ => none

end GEVerif.Drive.C03
