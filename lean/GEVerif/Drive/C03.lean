/-
  Line-protocol handlers for C03 (depth limits).
-/
import GEVerif.Model.Sexp
import GEVerif.Model.Synth
import GEVerif.Drive.Val
import GEVerif.Drive.C07

namespace GEVerif.Drive.C03
open GEVerif Sexp GEVerif.Drive

def handle : List Sexp → Option Sexp
  | [atom "create", spec, dec, draws] => do
      let g := analyse (← parseSpec spec)
      let dec ← parseDecider dec
      if !deciderValid g dec then pure (list [atom "err", atom "library"]) else
      pure (resSx valSx (randomTree g dec bigFuel (mkSynSt (← draws.asNats?))))
  | [atom "prop_depth", mx, v] => do
      pure (ofBool (decide ((← parseVal v).depth ≤ (← mx.asNat?))))
  | [atom "min_depth", spec] => do
      pure (ofNat (analyse (← parseSpec spec)).minTreeDepth)
  | atom "map_dsge" :: rest => C07.handle (atom "map_dsge" :: rest)
  | atom "map_ge" :: rest => C07.handle (atom "map_ge" :: rest)
  | _ => none

end GEVerif.Drive.C03
