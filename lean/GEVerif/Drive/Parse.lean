/-
  Parsers / printers shared by the property handlers: types, refinements, grammar specs.
-/
import GEVerif.Model.Sexp
import GEVerif.Model.Grammar

namespace GEVerif.Drive
open GEVerif Sexp

def hexVal (c : Char) : Option Nat :=
  if '0' ≤ c ∧ c ≤ '9' then some (c.toNat - '0'.toNat)
  else if 'a' ≤ c ∧ c ≤ 'f' then some (c.toNat - 'a'.toNat + 10)
  else none

def decodeHex : List Char → Option (List UInt8)
  | [] => some []
  | a :: b :: rest => do
      let x ← hexVal a
      let y ← hexVal b
      let r ← decodeHex rest
      pure (UInt8.ofNat (16 * x + y) :: r)
  | _ => none

/-- Strings on the wire (the harness's `gram.hexs`): `-` is the empty string, `0x<hex>` the UTF-8
bytes in hexadecimal, anything else stands for itself. -/
def decodeStr (s : String) : String :=
  if s == "-" then ""
  else if s.startsWith "0x" then
    match decodeHex (s.toList.drop 2) with
    | some bs => (String.fromUTF8? (ByteArray.mk bs.toArray)).getD s
    | none => s
  else s

def hexDigitChar (n : Nat) : Char := if n < 10 then Char.ofNat ('0'.toNat + n) else Char.ofNat ('a'.toNat + n - 10)

def encodeStr (s : String) : String :=
  if s.isEmpty then "-"
  else if s.all (fun c => c.isAlphanum) && s != "-" && !(s.startsWith "0x") then s
  else "0x" ++ String.ofList (s.toUTF8.toList.flatMap (fun b => [hexDigitChar (b.toNat / 16), hexDigitChar (b.toNat % 16)]))


def parseStrs (s : Sexp) : Option (List String) := do
  let xs ← s.asList?
  (← xs.mapM asAtom?).map decodeStr

def parseMH : Sexp → Option MH
  | list [atom "intRange", lo, hi] => do pure (.intRange (← lo.asInt?) (← hi.asInt?))
  | list [atom "intList", xs] => do pure (.intList (← xs.asInts?))
  | list [atom "varRange", xs] => do pure (.varRange (← parseStrs xs))
  | list [atom "listSize", lo, hi] => do pure (.listSize (← lo.asNat?) (← hi.asNat?))
  -- `ListSizeBetweenWithoutListOperations`: the same generator and predicate (only its mutation operators differ)
  | list [atom "listSizeNoOps", lo, hi] => do pure (.listSize (← lo.asNat?) (← hi.asNat?))
  | list [atom "strSize", lo, hi, al] => do pure (.strSize (← lo.asNat?) (← hi.asNat?) (← parseStrs al))
  | list [atom "interval", a, b, c] => do pure (.interval (← a.asInt?) (← b.asInt?) (← c.asInt?))
  | atom "floatRange" => some .floatRange
  | list [atom "floatList", n] => do pure (.floatList (← n.asNat?))
  | list [atom "depIntRangeLo", atom f, hi] => do pure (.depIntRangeLo f (← hi.asInt?))
  | list [atom "depIntRangeHi", lo, atom f] => do pure (.depIntRangeHi (← lo.asInt?) f)
  | list [atom "depIntRangeSpan", atom fw, atom flo] => pure (.depIntRangeSpan fw flo)
  | list [atom "depListSize", atom f] => some (.depListSize f)
  | list [atom "depVarFrom", atom f] => some (.depVarFrom f)
  | _ => none

partial def parseTy : Sexp → Option Ty
  | atom "int" => some .int
  | atom "float" => some .float
  | atom "str" => some .str
  | atom "bool" => some .bool
  | list [atom "cls", n] => do pure (.cls (← n.asNat?))
  | list [atom "list", t] => do pure (.list (← parseTy t))
  | list (atom "tuple" :: ts) => do pure (.tuple (← ts.mapM parseTy))
  | list (atom "union" :: ts) => do pure (.union (← ts.mapM parseTy))
  | list [atom "ann", t, mh] => do pure (.ann (← parseTy t) (← parseMH mh))
  | _ => none

def strsSx (xs : List String) : Sexp := list (xs.map (fun x => atom (encodeStr x)))

def mhSx : MH → Sexp
  | .intRange lo hi => list [atom "intRange", ofInt lo, ofInt hi]
  | .intList xs => list [atom "intList", ofInts xs]
  | .varRange xs => list [atom "varRange", strsSx xs]
  | .listSize lo hi => list [atom "listSize", ofNat lo, ofNat hi]
  | .strSize lo hi al => list [atom "strSize", ofNat lo, ofNat hi, strsSx al]
  | .interval a b c => list [atom "interval", ofInt a, ofInt b, ofInt c]
  | .floatRange => atom "floatRange"
  | .floatList n => list [atom "floatList", ofNat n]
  | .depIntRangeLo f hi => list [atom "depIntRangeLo", atom f, ofInt hi]
  | .depIntRangeHi lo f => list [atom "depIntRangeHi", ofInt lo, atom f]
  | .depIntRangeSpan fw flo => list [atom "depIntRangeSpan", atom fw, atom flo]
  | .depListSize f => list [atom "depListSize", atom f]
  | .depVarFrom f => list [atom "depVarFrom", atom f]

partial def tySx : Ty → Sexp
  | .int => atom "int" | .float => atom "float" | .str => atom "str" | .bool => atom "bool"
  | .cls n => list [atom "cls", ofNat n]
  | .list t => list [atom "list", tySx t]
  | .tuple ts => list (atom "tuple" :: ts.map tySx)
  | .union ts => list (atom "union" :: ts.map tySx)
  | .ann t mh => list [atom "ann", tySx t, mhSx mh]

def parseField : Sexp → Option (String × Ty)
  | list [atom n, t] => do pure (n, ← parseTy t)
  | _ => none

def parseClass : Sexp → Option ClassDecl
  | list [atom "cls", atom name, abs, parent, list fields] => do
      let parent ← match parent with
        | atom "none" => some none
        | p => (p.asNat?).map some
      pure { name := name, abstract := ← abs.asBool?, parent := parent, fields := ← fields.mapM parseField }
  | _ => none

/-- `(spec (classes…) start (considered…) expansion)` -/
def parseSpec : Sexp → Option GrammarSpec
  | list [atom "spec", list classes, start, considered, exp] => do
      pure { classes := ← classes.mapM parseClass, start := ← start.asNat?,
             considered := ← considered.asNats?, expansion := ← exp.asBool? }
  | _ => none

def symKey : Sym → Nat
  | .int => 0 | .float => 1 | .str => 2 | .bool => 3 | .cls n => 4 + n

def symSx : Sym → Sexp
  | .int => atom "int" | .float => atom "float" | .str => atom "str" | .bool => atom "bool"
  | .cls n => list [atom "cls", ofNat n]

def parseSym : Sexp → Option Sym
  | atom "int" => some .int | atom "float" => some .float | atom "str" => some .str
  | atom "bool" => some .bool
  | list [atom "cls", n] => do pure (.cls (← n.asNat?))
  | _ => none

def insertBy {α : Type} (key : α → Nat) (x : α) : List α → List α
  | [] => [x]
  | y :: ys => if key x ≤ key y then x :: y :: ys else y :: insertBy key x ys

def sortBy {α : Type} (key : α → Nat) (xs : List α) : List α :=
  xs.foldl (fun acc x => insertBy key x acc) []

def symsSx (xs : List Sym) : Sexp := list ((sortBy symKey xs).map symSx)

end GEVerif.Drive
