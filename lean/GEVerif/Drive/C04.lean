/-
  Line-protocol handlers for C04 (depth-bounded creation reaches exactly the bounded language).
-/
import GEVerif.Model.Sexp
import GEVerif.Model.Lang
import GEVerif.Model.TreeOps
import GEVerif.Drive.Val
import GEVerif.Drive.C01

namespace GEVerif.Drive.C04
open GEVerif Sexp GEVerif.Drive

def handle : List Sexp → Option Sexp
  | [atom "language", spec, d] => do
      let g := analyse (← parseSpec spec)
      if !finiteChoice g then pure (atom "not-finite-choice") else
      pure (list ((boundedLanguage g (← d.asNat?)).map valSx))
  | [atom "prop_in_language", spec, d, v] => do
      -- membership by the independent predicates: well-typed (refinements included) and within depth
      let g := analyse (← parseSpec spec)
      let v ← parseVal v
      pure (ofBool (wt g [] (.cls g.spec.start) v && decide (v.depth ≤ (← d.asNat?))))
  | rest => C01.handle rest

end GEVerif.Drive.C04
