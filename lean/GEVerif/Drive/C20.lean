/-
  Line-protocol handlers for C20 (CSV search log).  `handle` receives the tokens after the
  property id.

  Encodings
    name   : `Execution_Time` | `Phenotype` | `Fitness<k>` | `c<n>`
    cell   : `T` (a wall-clock float) | `(p prog)` | `(f v)` | `(u cb ind)` | `(x cb prog)` | `err`
    fields : `default` | `((name cb) …)`        extras : `((name cb) …)`
    events : `((id prog (comps…) best) …)`
    file   : `(row …)`, a row being a list of names (header) or of cells
  Model ops
    (recorder binding k fields extras onlyBest events)   -- binding: fixed | late
    (simplegp binding k csvExtras onlyBest events)
        → the parsed disk content after construction and after each registration
    (recorder_last …), (simplegp_last …) → the parsed disk content after the last registration only
    (track_flags (aggregates…)) → the single-objective tracker's is_best flags
    (prop_flags (aggregates…) (flags…)) → are the flags exactly "strictly better than every earlier one"
  Property predicates on the REAL file
    (prop_file recorder|simplegp k fields extras onlyBest events file)
-/
import GEVerif.Model.Sexp
import GEVerif.Model.Csv

namespace GEVerif.Drive.C20
open GEVerif Sexp GEVerif.Csv

def natSuffix (pre s : String) : Option Nat :=
  if s.startsWith pre then (s.drop pre.length).toNat? else none

def parseName : Sexp → Option Name
  | atom "Execution_Time" => some .time
  | atom "Phenotype" => some .pheno
  | atom s =>
    match natSuffix "Fitness" s with
    | some k => some (.fitness k)
    | none => (natSuffix "c" s).map .custom
  | _ => none

def nameSx : Name → Sexp
  | .time => atom "Execution_Time"
  | .pheno => atom "Phenotype"
  | .fitness k => atom s!"Fitness{k}"
  | .custom n => atom s!"c{n}"

def cellSx : Cell → Sexp
  | .time => atom "T"
  | .pheno p => list [atom "p", ofNat p]
  | .fit v => list [atom "f", ofInt v]
  | .user cb i => list [atom "u", ofNat cb, ofNat i]
  | .extra cb p => list [atom "x", ofNat cb, ofNat p]
  | .err => atom "err"

/-- anything unrecognised in the real file becomes `err`, which no specification cell equals
(specifications only produce `err` for a missing fitness component, which the harness never
generates) -/
def parseCell : Sexp → Cell
  | atom "T" => .time
  | list [atom "p", p] => match p.asNat? with | some p => .pheno p | none => .err
  | list [atom "f", v] => match v.asInt? with | some v => .fit v | none => .err
  | list [atom "u", cb, i] => match cb.asNat?, i.asNat? with | some cb, some i => .user cb i | _, _ => .err
  | list [atom "x", cb, p] => match cb.asNat?, p.asNat? with | some cb, some p => .extra cb p | _, _ => .err
  | _ => .err

def parseNamed (s : Sexp) : Option (List (Name × Nat)) := do
  let xs ← s.asList?
  xs.mapM fun p => do
    match p with
    | list [n, cb] => pure (← parseName n, ← cb.asNat?)
    | _ => none

def parseFields : Sexp → Option (Option (List (Name × Nat)))
  | atom "default" => some none
  | s => (parseNamed s).map some

def parseEvents (s : Sexp) : Option (List Ev) := do
  let xs ← s.asList?
  xs.mapM fun e => do
    match e with
    | list [id, prog, comps, best] =>
      pure (Ev.reg 0 { id := ← id.asNat?, prog := ← prog.asNat?, comps := ← comps.asInts? } (← best.asBool?))
    | _ => none

def parseBinding : Sexp → Option Binding
  | atom "fixed" => some .perClosure
  | atom "late" => some .late
  | _ => none

def symSx : Sym → Sexp
  | .name n => nameSx n
  | .cell c => cellSx c
  | .eol => atom "EOL"

/-- the disk content as the harness sees it: complete lines, plus a marker for a partial one -/
def diskSx (disk : List Sym) : Sexp :=
  let (ls, t) := splitEol disk
  list (ls.map (fun l => list (l.map symSx)) ++ (if t.isEmpty then [] else [list (atom "partial" :: t.map symSx)]))

/-- snapshots after construction and after every event -/
def snapshots (r : Recorder) (evs : List Ev) : List Sexp :=
  let rec go (r : Recorder) : List Ev → List Sexp
    | [] => []
    | e :: rest => let r' := r.step e; diskSx r'.file.disk :: go r' rest
  diskSx r.file.disk :: go r evs

/-- the property, evaluated on a parsed real file: one column per configured field, one complete
row per recorded individual, every cell as specified -/
def fileOk (k : Nat) (fields : Option (List (Name × Nat))) (extras : List (Name × Nat))
    (mkExtra : Nat → Ind → Cell) (onlyBest : Bool) (evs : List Ev) (file : List Sexp) : Sexp :=
  let cols := specColumns k fields extras
  let inds := recorded onlyBest evs
  match file with
  | [] => atom "no-header"
  | hd :: rows =>
    if hd != list (cols.map nameSx) then atom "header-differs"
    else if rows.length != inds.length then atom "row-count-differs"
    else
      let ok := (rows.zip inds).all fun (row, i) =>
        match row with
        | list cells =>
          cells.length == cols.length &&
          (cells.zip cols).all fun (c, n) =>
            specCell k fields extras (fun cb i => Cell.user cb i.id) mkExtra n i == some (parseCell c)
        | _ => false
      if ok then ofBool true else atom "cell-differs"

def handle : List Sexp → Option Sexp
  | [atom "recorder", b, k, fields, extras, onlyBest, events] => do
      let cfg := recorderConfig (← k.asNat?) (← parseFields fields) (← parseNamed extras) (← onlyBest.asBool?)
      pure (list (snapshots (Recorder.new (← parseBinding b) cfg 0) (← parseEvents events)))
  | [atom "simplegp", b, k, extras, onlyBest, events] => do
      let cfg := simpleGPConfig (← parseBinding b) (← k.asNat?) (← parseNamed extras) (← onlyBest.asBool?)
      pure (list (snapshots (Recorder.new .perClosure cfg 0) (← parseEvents events)))
  | [atom "recorder_last", b, k, fields, extras, onlyBest, events] => do
      let cfg := recorderConfig (← k.asNat?) (← parseFields fields) (← parseNamed extras) (← onlyBest.asBool?)
      pure (diskSx ((Recorder.new (← parseBinding b) cfg 0).run (← parseEvents events)).file.disk)
  | [atom "simplegp_last", b, k, extras, onlyBest, events] => do
      let cfg := simpleGPConfig (← parseBinding b) (← k.asNat?) (← parseNamed extras) (← onlyBest.asBool?)
      pure (diskSx ((Recorder.new .perClosure cfg 0).run (← parseEvents events)).file.disk)
  | [atom "prop_flags", aggs, flags] => do
      -- independent statement: the k-th registration is flagged iff its aggregate beats EVERY earlier one
      let a ← aggs.asInts?
      let f ← (← flags.asList?).mapM Sexp.asBool?
      pure (ofBool (f.length == a.length &&
        (List.range a.length).all fun k => f.getD k false == (a.take k).all fun x => decide (x < a.getD k 0)))
  | [atom "track_flags", aggs] => do
      pure (list ((trackFlags none (← aggs.asInts?)).map ofBool))
  | [atom "prop_file", atom kind, k, fields, extras, onlyBest, events, file] => do
      let mkExtra : Nat → Ind → Cell ← match kind with
        | "recorder" => some (fun cb i => Cell.user cb i.id)
        | "simplegp" => some (fun cb i => Cell.extra cb i.prog)
        | _ => none
      pure (fileOk (← k.asNat?) (← parseFields fields) (← parseNamed extras) mkExtra
        (← onlyBest.asBool?) (← parseEvents events) (← file.asList?))
  | _ => none

end GEVerif.Drive.C20
