/-
  Line-protocol handlers for C06 (crossover recombines parental material; point mutation is local).
-/
import GEVerif.Model.Sexp
import GEVerif.Model.Linear
import GEVerif.Model.TreeOps
import GEVerif.Drive.Val
import GEVerif.Drive.C07

namespace GEVerif.Drive.C06
open GEVerif Sexp GEVerif.Drive GEVerif.Drive.C07

def sgeSx (d : SGEDna) : Sexp := list (d.map fun (k, v) => list [atom k, ofInts v])

def res1 {α : Type} (f : α → Sexp) (r : Res α) : Sexp := resSx f r

def handle : List Sexp → Option Sexp
  | [atom "lin_create", len, draws] => do
      pure (res1 ofInts (linCreate (← len.asNat?) (mkSynSt (← draws.asNats?))))
  | [atom "lin_mutate", len, top, dna, draws] => do
      pure (res1 ofInts (linMutate (← len.asNat?) (← top.asInt?) (← dna.asInts?) (mkSynSt (← draws.asNats?))))
  | [atom "lin_crossover", cut, p1, p2, draws] => do
      pure (res1 (fun (c : List Int × List Int) => list [ofInts c.1, ofInts c.2])
        (linCrossover (← cut.asInt?) (← p1.asInts?) (← p2.asInts?) (mkSynSt (← draws.asNats?))))
  | [atom "sge_mutate", dna, draws] => do
      pure (res1 sgeSx (sgeMutate (← parseSGE dna) (mkSynSt (← draws.asNats?))))
  | [atom "sge_crossover", p1, p2, draws] => do
      pure (res1 (fun (c : SGEDna × SGEDna) => list [sgeSx c.1, sgeSx c.2])
        (sgeCrossover (← parseSGE p1) (← parseSGE p2) (mkSynSt (← draws.asNats?))))
  | [atom "dsge_mutate", dna, draws] => do
      pure (res1 dsgeSx (dsgeMutate (← parseDSGE dna) (mkSynSt (← draws.asNats?))))
  | [atom "dsge_crossover", p1, p2, draws] => do
      pure (res1 (fun (c : DSGEDna × DSGEDna) => list [dsgeSx c.1, dsgeSx c.2])
        (dsgeCrossover (← parseDSGE p1) (← parseDSGE p2) (mkSynSt (← draws.asNats?))))
  | [atom "tree_mutate", spec, dec, p, draws] => do
      let g := analyse (← parseSpec spec)
      pure (res1 valSx (treeMutate g (← parseDecider dec) bigFuel (← parseVal p) (mkSynSt (← draws.asNats?))))
  | [atom "tree_crossover", spec, dec, p1, p2, draws] => do
      let g := analyse (← parseSpec spec)
      pure (res1 (fun (c : Val × Val) => list [valSx c.1, valSx c.2])
        (treeCrossover g (← parseDecider dec) bigFuel (← parseVal p1) (← parseVal p2) (mkSynSt (← draws.asNats?))))
  -- property predicates on implementation outputs
  | [atom "prop_locus", p1, p2, c] => do
      let p1 ← p1.asInts?; let p2 ← p2.asInts?; let c ← c.asInts?
      pure (ofBool (locusOK p1 p2 c))
  | [atom "prop_mutate_one", p, c] => do
      let p ← p.asInts?; let c ← c.asInts?
      pure (ofBool (p.length == c.length && decide (diffCount p c ≤ 1)))
  | [atom "prop_sge_locus", p1, p2, c] => do
      let p1 ← parseSGE p1; let p2 ← parseSGE p2; let c ← parseSGE c
      -- same keys as parent 1, and each gene list is one parent's list for that key
      pure (ofBool (c.map (·.1) == p1.map (·.1) &&
        c.all fun (k, v) => v == sgeLookup k p1 || v == sgeLookup k p2))
  | [atom "prop_sge_mutate_one", p, c] => do
      let p ← parseSGE p; let c ← parseSGE c
      let diffs := (p.zip c).map fun ((_, a), (_, b)) => if a.length == b.length then diffCount a b else 2
      pure (ofBool (c.map (·.1) == p.map (·.1) && decide (diffs.sum ≤ 1)))
  | [atom "prop_dsge_locus", p1, p2, c] => do
      let p1 ← parseDSGE p1; let p2 ← parseDSGE p2; let c ← parseDSGE c
      pure (ofBool (c.all fun (k, v) => v == tyLookup k [] p1 || v == tyLookup k [] p2))
  | [atom "prop_dsge_mutate_one", p, c] => do
      let p ← parseDSGE p; let c ← parseDSGE c
      let diffs := (p.zip c).map fun ((_, a), (_, b)) => if a.length == b.length then diffCount a b else 2
      pure (ofBool (p.length == c.length && ((p.zip c).all fun ((k, _), (k', _)) => k == k') && decide (diffs.sum ≤ 1)))
  | [atom "prop_recomb", p1, p2, c] => do
      pure (ofBool (isRecombination (← parseVal p1) (← parseVal p2) (← parseVal c)))
  | _ => none

end GEVerif.Drive.C06
