/-
  Printing / parsing programs (`Val`), errors and deciders on the wire.
-/
import GEVerif.Model.Sexp
import GEVerif.Model.Tree
import GEVerif.Model.Synth
import GEVerif.Drive.Parse

namespace GEVerif.Drive
open GEVerif Sexp

def strAtom (s : String) : Sexp := atom (encodeStr s)

partial def valSx : Val → Sexp
  | .int i => list [atom "i", ofInt i]
  | .float => list [atom "f"]
  | .str s => list [atom "s", strAtom s]
  | .bool b => list [atom "b", ofBool b]
  | .node c d e args => list ([atom "n", ofNat c, ofNat d, ofNat e] ++ args.map valSx)
  | .list d e vs => list ([atom "l", ofNat d, ofNat e] ++ vs.map valSx)
  | .tuple vs => list (atom "t" :: vs.map valSx)
  | .foreign t => list [atom "x", atom t]

/-- Parses the canonical form produced by the harness.  Nodes whose context is missing
(`noctx`) parse with depth/expansions 0 (the context is metadata, not part of well-typedness). -/
partial def parseVal : Sexp → Option Val
  | list [atom "i", i] => do pure (.int (← i.asInt?))
  | list [atom "f"] => some .float
  | list [atom "s", atom s] => some (.str (decodeStr s))
  | list [atom "b", b] => do pure (.bool (← b.asBool?))
  | list (atom "n" :: c :: d :: e :: args) => do
      pure (.node (← c.asNat?) (d.asNat?.getD 0) (e.asNat?.getD 0) (← args.mapM parseVal))
  | list (atom "l" :: d :: e :: vs) => do
      pure (.list (d.asNat?.getD 0) (e.asNat?.getD 0) (← vs.mapM parseVal))
  | list (atom "t" :: vs) => do pure (.tuple (← vs.mapM parseVal))
  | list [atom "x", atom t] => some (.foreign t)
  | _ => none

def errSx : Err → Sexp
  | .library => atom "library"
  | .synthesis => atom "synthesis"
  | .foreign n => atom ("foreign:" ++ n)

def parseDecider : Sexp → Option Decider
  | list [atom k, d] => do
      let kind ← match k with
        | "grow" => some DKind.grow | "full" => some .full | "pigrow" => some .pigrow
        | "progressive" => some .progressive | "dsge" => some .dsge | _ => none
      pure { kind := kind, maxDepth := ← d.asNat? }
  | _ => none

def mkSynSt (draws : List Nat) (expanding : Bool := true) : SynSt :=
  { src := .scripted { draws := draws, pos := 0 }, expanding := expanding }

def mkGeneSt (dna : List Int) (expanding : Bool := true) : SynSt :=
  { src := .gene { dna := dna, index := 0 }, expanding := expanding }

def resSx {α : Type} (f : α → Sexp) : Res α → Sexp
  | .ok a _ => list [atom "ok", f a]
  | .err e _ => list [atom "err", errSx e]

/-- fuel large enough for every run the harness performs (the real code recurses at most
`sys.setrecursionlimit(10000)` deep) -/
def bigFuel : Nat := 4000

end GEVerif.Drive
