/-
  Line-protocol handlers for C14 (searches terminate and stop at the first budget check after the
  budget is met).
-/
import GEVerif.Model.Sexp
import GEVerif.Model.Eval
import GEVerif.Model.EvalWire

namespace GEVerif.Drive.C14
open GEVerif Sexp GEVerif.Eval GEVerif.Eval.Wire

def itersOf (its : List Iter) : Nat → Iter := fun i => its.getD i ⟨[], 0, []⟩

/-- decidable `Algo.Shape` on the finitely many iterations that were observed -/
def shapeOk (a : Algo) (init : Iter) (its : List Iter) : Bool :=
  match a with
  | .randomSearch | .onePlusOne => its.all (fun it => it.regs.length == 1 && it.evals == 1)
  | .hillClimbing m =>
    (List.range its.length).all (fun i => match its[i]? with
      | some it => if i == 0 then it.regs.length == 1 && it.evals == 1
                   else it.regs.length == m && it.evals == m
      | none => false)
  | .gp pop =>
    init.regs.length == pop && init.evals == pop &&
    its.all (fun it => it.regs.length == pop && decide (it.evals ≤ pop))

/-- the statement of the property on the counters an implementation run showed at its budget
checks (the run returned after the last one) -/
def propStops (n bound : Nat) (checks : List Nat) : Bool :=
  match checks.getLast? with
  | none => false
  | some last =>
    checks.dropLast.all (fun c => decide (c < n)) && decide (n ≤ last) && decide (last < n + bound)

/-- target budget: `comps` = first fitness component of the best individual at each check
(`none` while there is none); the run returned after the last check -/
def within (v : Int) : Option Int → Bool
  | some c => decide ((c - v).natAbs < tolerance.toNat)
  | none => false

def propTarget (v : Int) (comps : List (Option Int)) : Bool :=
  match comps.getLast? with
  | none => false
  | some last => comps.dropLast.all (fun c => !within v c) && within v last

/-- `AnyOf(EvaluationBudget(n), TargetFitness(v))`: stopped at the last check, the first at which
either member is met -/
def propAnyOf (n : Nat) (v : Int) (checks : List Nat) (comps : List (Option Int)) : Bool :=
  checks.length == comps.length &&
  match checks.getLast?, comps.getLast? with
  | some lc, some lcomp =>
    (decide (n ≤ lc) || within v lcomp) &&
    (checks.dropLast.zip comps.dropLast).all (fun e => decide (e.1 < n) && !within v e.2)
  | _, _ => false

def parseOptInt : Sexp → Option (Option Int)
  | atom "none" => some none
  | s => (s.asInt?).map some

def handle : List Sexp → Option Sexp
  | [atom "run", a, b, t, init, its] => do
      let a ← parseAlgo a
      let b ← parseBudget b
      let t0 ← parseTracker t
      let init ← parseIter init
      let its ← (← its.asList?).mapM parseIter
      let iters := itersOf its
      let s0 := a.start t0 init
      match runSearch a b t0 init iters (its.length + 1) with
      | some (m, s, res) =>
        let checks := (List.range (m + 1)).map (fun j => (stateFrom iters 0 s0 j).count)
        pure (list [ofNat m, ofNats checks, ofNat s.count, optId res])
      | none =>
        let checks := (List.range (its.length + 1)).map (fun j => (stateFrom iters 0 s0 j).count)
        pure (list [atom "running", ofNats checks])
  | [atom "prop_shape", a, init, its] => do
      pure (ofBool (shapeOk (← parseAlgo a) (← parseIter init) (← (← its.asList?).mapM parseIter)))
  | [atom "prop_stops", n, bound, checks] => do
      pure (ofBool (propStops (← n.asNat?) (← bound.asNat?) (← checks.asNats?)))
  | [atom "prop_target", v, comps] => do
      pure (ofBool (propTarget (← v.asInt?) (← (← comps.asList?).mapM parseOptInt)))
  | [atom "prop_anyof", n, v, checks, comps] => do
      pure (ofBool (propAnyOf (← n.asNat?) (← v.asInt?) (← checks.asNats?) (← (← comps.asList?).mapM parseOptInt)))
  | [atom "bound", a] => do
      pure (ofNat (← parseAlgo a).bound)
  | _ => none

end GEVerif.Drive.C14
