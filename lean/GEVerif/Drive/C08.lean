/-
  Line-protocol handlers for C08.  `handle` receives the tokens after the property id.
-/
import GEVerif.Model.Sexp

namespace GEVerif.Drive.C08
open GEVerif Sexp

def handle : List Sexp → Option Sexp
  | _ => none

end GEVerif.Drive.C08
