/-
  Line-protocol handlers for C12 (the reported best is the best evaluated).
  Model ops run the tracker models on a history; `prop_*` ops evaluate the property's own
  statement (in terms of raw fitness values and the declared direction) on what the
  IMPLEMENTATION reported.
-/
import GEVerif.Model.Sexp
import GEVerif.Model.Eval
import GEVerif.Model.EvalWire

namespace GEVerif.Drive.C12
open GEVerif Sexp GEVerif.Eval GEVerif.Eval.Wire

/-- best id after each registration, and the flags -/
def singleTrace (h : List Reg) : List Sexp × List Bool :=
  let r := h.foldl (fun (acc : Option Reg × List Sexp × List Bool) r =>
      let (b', f) := sStep acc.1 r
      (b', acc.2.1 ++ [optId b'], acc.2.2 ++ [f])) (none, [], [])
  (r.2.1, r.2.2)

/-- Pareto list (ids) after each registration, and the flags -/
def multiTrace (h : List Reg) : List Sexp × List Bool :=
  let r := h.foldl (fun (acc : List Reg × List Sexp × List Bool) r =>
      let (f', b) := mStep acc.1 r
      (f', acc.2.1 ++ [ids f'], acc.2.2 ++ [b])) ([], [], [])
  (r.2.1, r.2.2)

/-- `a` at least as good as `b` in the declared direction (raw fitness values) -/
def asGood (minimize : Bool) (a b : Int) : Bool := if minimize then decide (a ≤ b) else decide (b ≤ a)
def strictlyBetter (minimize : Bool) (a b : Int) : Bool := if minimize then decide (a < b) else decide (b < a)

def rawOf (h : List Reg) (id : Nat) : Option Int := (h.find? (·.id == id)).map (·.agg)

/-- The property for a single-objective tracker, on the implementation's report: after every
registration `k` the reported best is an individual seen so far whose raw value is at least as
good as every value seen so far; the flag is set iff `k = 0` or the value strictly improves on
all earlier ones. (`h` carries RAW values in `.agg`.) -/
def propSingle (minimize : Bool) (h : List Reg) (bests : List Nat) (flags : List Bool) : Bool :=
  bests.length == h.length && flags.length == h.length &&
  (List.range h.length).all fun k =>
    let seen := h.take (k + 1)
    let earlier := h.take k
    match bests[k]?, flags[k]?, h[k]? with
    | some b, some fl, some cur =>
      (match rawOf seen b with
        | some bv => seen.all (fun x => asGood minimize bv x.agg)
        | none => false) &&
      (fl == (k == 0 || earlier.all (fun x => strictlyBetter minimize cur.agg x.agg)))
    | _, _, _ => false

/-- The property for a multi-objective tracker: every reported best individual (every member of
the list, and every flagged individual) attains the best aggregate seen so far. -/
def propMulti (h : List Reg) (fronts : List (List Nat)) (flags : List Bool) : Bool :=
  fronts.length == h.length && flags.length == h.length &&
  (List.range h.length).all fun k =>
    let seen := h.take (k + 1)
    match fronts[k]?, flags[k]?, h[k]? with
    | some fr, some fl, some cur =>
      !fr.isEmpty &&
      fr.all (fun b => match rawOf seen b with
        | some bv => seen.all (fun x => decide (x.agg ≤ bv))
        | none => false) &&
      (!fl || seen.all (fun x => decide (x.agg ≤ cur.agg)))
    | _, _, _ => false

def handle : List Sexp → Option Sexp
  | [atom "single_run", h] => do
      let (bs, fs) := singleTrace (← parseRegs h)
      pure (list [list bs, ofBools fs])
  | [atom "multi_run", h] => do
      let (frs, fs) := multiTrace (← parseRegs h)
      pure (list [list frs, ofBools fs])
  | [atom "helper_best", h] => do
      pure (optId (helperBest (← parseRegs h)))
  | [atom "helper_is_better", h] => do
      match ← parseRegs h with
      | [a, b] => pure (ofBool (helperIsBetter a b))
      | _ => none
  | [atom "search_result", t, h] => do
      let t ← parseTracker t
      pure (optId (t.presentAll (← parseRegs h)).best?)
  | [atom "prop_single", mn, h, bests, flags] => do
      pure (ofBool (propSingle (← mn.asBool?) (← parseRegs h) (← bests.asNats?) (← asBools? flags)))
  | [atom "prop_multi", h, fronts, flags] => do
      let frs ← (← fronts.asList?).mapM asNats?
      pure (ofBool (propMulti (← parseRegs h) frs (← asBools? flags)))
  | [atom "prop_returned", mn, h, ret] => do
      let h ← parseRegs h
      let mn ← mn.asBool?
      match ret with
      | atom "none" => pure (ofBool h.isEmpty)
      | r => do
        let id ← r.asNat?
        pure (ofBool (match rawOf h id with
          | some bv => h.all (fun x => asGood mn bv x.agg)
          | none => false))
  | _ => none

end GEVerif.Drive.C12
