/-
  Line-protocol handlers for C18 (random primitives).  Each handler runs the MODEL on the
  input carried by the line and returns its result as an s-expression; `prop …` lines evaluate
  the property predicate on a result produced by the IMPLEMENTATION.
-/
import GEVerif.Model.Sexp
import GEVerif.Model.Rand

namespace GEVerif.Drive.C18
open GEVerif Sexp

def optInt : Option Int → Sexp
  | some i => ofInt i
  | none => atom "none"

def optNat : Option Nat → Sexp
  | some i => ofNat i
  | none => atom "none"

def mkScript (draws : List Nat) : Script := { draws := draws, pos := 0 }

def parsePairs (s : Sexp) : Option (List (String × List Int)) := do
  let xs ← s.asList?
  xs.mapM fun p => do
    match p with
    | list [atom k, v] => pure (k, ← v.asInts?)
    | _ => none

def parseIdx (s : Sexp) : Option (List (String × Nat)) := do
  let xs ← s.asList?
  xs.mapM fun p => do
    match p with
    | list [atom k, v] => pure (k, ← v.asNat?)
    | _ => none

/-- is `ys` a permutation of `xs` (decidable check by counting) -/
def isPerm (xs ys : List Int) : Bool :=
  xs.length == ys.length && xs.all (fun x => xs.count x == ys.count x)

def handle : List Sexp → Option Sexp
  | [atom "randint_scripted", lo, hi, draws] => do
      let (v, s') := scriptedRandint (← lo.asInt?) (← hi.asInt?) (mkScript (← draws.asNats?))
      pure (list [ofInt v, ofNat s'.pos])
  | [atom "randint_gene", lo, hi, dna, idx] => do
      let dna ← dna.asInts?
      if dna.isEmpty then pure (atom "error") else
      let (v, s') := geneRandint (← lo.asInt?) (← hi.asInt?) { dna := dna, index := ← idx.asNat? }
      pure (list [ofInt v, ofNat s'.index])
  | [atom "randint_sge", atom key, lo, hi, dna, idxs] => do
      let dna ← parsePairs dna
      if (lookupD key [] dna).isEmpty then pure (atom "error") else
      let (v, s') := sgeRandintKey key (← lo.asInt?) (← hi.asInt?) { dna := dna, indexes := ← parseIdx idxs }
      pure (list [ofInt v, ofNat (lookupD key 0 s'.indexes)])
  | [atom "choice", n, draws] => do
      let n ← n.asNat?
      let (r, _) := choice scripted (List.range n) (mkScript (← draws.asNats?))
      pure (optNat r)
  | [atom "random_bool", draws] => do
      let (r, _) := randomBool scripted (mkScript (← draws.asNats?))
      pure (match r with | some b => ofBool b | none => atom "none")
  | [atom "choice_weighted", den, ns, draws] => do
      let ns ← ns.asNats?
      let (r, _) := choiceWeightedIdx scripted (accScaled (← den.asNat?) ns) ns.length (mkScript (← draws.asNats?))
      pure (optNat r)
  | [atom "shuffle", xs, draws] => do
      let (r, _) := shuffle scripted (← xs.asInts?) (mkScript (← draws.asNats?))
      pure (ofInts r)
  | [atom "pop_random", xs, draws] => do
      let (r, _) := popRandom scripted (← xs.asInts?) (mkScript (← draws.asNats?))
      pure (match r with
        | some (item, rest) => list [ofInt item, ofInts rest]
        | none => atom "none")
  | [atom "decider_random_int", e, lo, hi, draws] => do
      let (r, _) := deciderRandomInt scripted (← e.asNat?) (← lo.asInt?) (← hi.asInt?) (mkScript (← draws.asNats?))
      pure (optInt r)
  | [atom "dsge_random_int", gene, lo, hi] => do
      pure (ofInt (dsgeRandomInt (← gene.asInt?) (← lo.asInt?) (← hi.asInt?)))
  -- property predicates evaluated on implementation output
  | [atom "prop_bounds", lo, hi, v] => do
      let lo ← lo.asInt?; let hi ← hi.asInt?; let v ← v.asInt?
      pure (ofBool (decide (lo ≤ v ∧ v ≤ hi)))
  | [atom "prop_member", n, v] => do
      let n ← n.asNat?; let v ← v.asInt?
      pure (ofBool (decide (0 ≤ v ∧ v.toNat < n)))
  | [atom "prop_weighted", ns, i] => do
      let ns ← ns.asNats?; let i ← i.asNat?
      -- a member, and not of zero weight while a positive one is available
      pure (ofBool (decide (i < ns.length) && (decide (0 < ns.getD i 0) || ns.all (· == 0))))
  | [atom "prop_perm", xs, ys] => do
      pure (ofBool (isPerm (← xs.asInts?) (← ys.asInts?)))
  | [atom "prop_pop", xs, item, rest] => do
      let xs ← xs.asInts?; let item ← item.asInt?; let rest ← rest.asInts?
      pure (ofBool (isPerm xs (item :: rest)))
  | _ => none

end GEVerif.Drive.C18
