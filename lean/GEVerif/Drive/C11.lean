/-
  Line-protocol handlers for C11 (per-node metadata).
-/
import GEVerif.Model.Sexp
import GEVerif.Model.Labels
import GEVerif.Model.LabelsE
import GEVerif.Drive.Val

namespace GEVerif.Drive.C11
open GEVerif Sexp GEVerif.Drive

def keyIdx : TKey → Nat
  | .int => 0 | .float => 1 | .str => 2 | .bool => 3 | .tuple => 4 | .list => 5
  | .cls n => 6 + n | .other => 1000000

def keySx : TKey → Sexp
  | .int => atom "int" | .float => atom "float" | .str => atom "str" | .bool => atom "bool"
  | .tuple => atom "tuple" | .list => atom "list" | .other => atom "other"
  | .cls n => list [atom "cls", ofNat n]

def labSx (l : Lab) : Sexp :=
  list [ofNat l.nodes, ofNat l.dtt, ofNat l.weighted,
        list ((sortBy (fun (p : TKey × Nat) => keyIdx p.1) l.types).map fun (k, c) => list [keySx k, ofNat c])]

def rootDecl (g : Grammar) : Option Ty := some (.cls g.spec.start)

/-- labels of every node and list of the program, in pre-order -/
def allLabels (g : Grammar) (v : Val) : List Sexp :=
  if g.spec.expansion then
    (declSubvalues g (rootDecl g) v).filterMap fun (decl, x) =>
      match x with
      | .node .. => some (labSx (relabelE g decl x))
      | .list .. => some (labSx (relabelE g decl x))
      | _ => none
  else
    v.subvalues.filterMap fun x =>
      match x with
      | .node .. => some (labSx (relabel g x))
      | .list .. => some (labSx (relabel g x))
      | _ => none

def typeCounts (v : Val) : List (TKey × Nat) :=
  ((v.subvalues.map Val.key).eraseDups).map fun k => (k, typeCountSpec v k)

def specLab (g : Grammar) (v : Val) : Lab :=
  ⟨nodesSpec g v, dttSpec g v, weightedSpec g v, typeCounts v⟩

def specLabE (g : Grammar) (decl : Option Ty) (v : Val) : Lab :=
  ⟨nodesSpecE g decl v, dttSpecE g decl v, weightedSpecE g decl v, typeCounts v⟩

def allSpecLabels (g : Grammar) (v : Val) : List Sexp :=
  if g.spec.expansion then
    (declSubvalues g (rootDecl g) v).filterMap fun (decl, x) =>
      match x with
      | .node .. => some (labSx (specLabE g decl x))
      | .list .. => some (labSx (specLabE g decl x))
      | _ => none
  else
    v.subvalues.filterMap fun x =>
      match x with
      | .node .. => some (labSx (specLab g x))
      | .list .. => some (labSx (specLab g x))
      | _ => none

def handle : List Sexp → Option Sexp
  | [atom "labels", spec, v] => do
      let g := analyse (← parseSpec spec)
      pure (list (allLabels g (← parseVal v)))
  | [atom "prop_labels", spec, v, labs] => do
      let g := analyse (← parseSpec spec)
      pure (ofBool (toString (list (allSpecLabels g (← parseVal v))) == toString labs))
  | _ => none

end GEVerif.Drive.C11
