/-
  Line-protocol handlers for C17.  `handle` receives the tokens after the property id.
-/
import GEVerif.Model.Sexp

namespace GEVerif.Drive.C17
open GEVerif Sexp

def handle : List Sexp → Option Sexp
  | _ => none

end GEVerif.Drive.C17
