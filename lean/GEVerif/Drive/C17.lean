/-
  Line-protocol handlers for C17 (tournament and lexicase selection).
-/
import GEVerif.Model.Sexp
import GEVerif.Model.Steps
import GEVerif.Model.StepsWire

namespace GEVerif.Drive.C17
open GEVerif GEVerif.Steps Sexp StepsWire

def mkScript (draws : List Nat) : Script := { draws := draws, pos := 0 }

def parseRounds (s : Sexp) : Option (List (List Ind × Ind)) := do
  (← s.asList?).mapM fun r => do
    match r with
    | list [parts, w] => pure (← parsePop parts, ← parseInd w)
    | _ => none

def handle : List Sexp → Option Sexp
  -- (participants, winner) of every tournament
  | [atom "tournament", pop, ts, wr, k, ints] => do
      let pop ← parsePop pop
      match tournamentGo scripted pop (← ts.asNat?) (← wr.asBool?) (← k.asNat?) pop (mkScript (← ints.asNats?)) with
      | some (tr, _) => pure (list (tr.map fun (parts, w) => list [ofIds parts, ofInt w.id]))
      | none => pure err
  -- (case order, winner) of every lexicase selection
  | [atom "lexicase", pop, n, mins, eps, k, ints] => do
      let pop ← parsePop pop
      match lexicaseGo scripted (← n.asNat?) (← parseBools mins) (← eps.asBool?) (← k.asNat?) pop (mkScript (← ints.asNats?)) with
      | some (tr, _) => pure (list (tr.map fun (_, cases, w) => list [ofNats cases, ofInt w.id]))
      | none => pure err
  -- predicates on implementation output
  | [atom "prop_tournament", pop, rounds] => do
      let pop ← parsePop pop
      pure (ofBool ((← parseRounds rounds).all fun (parts, w) => tournamentRoundOk pop parts w))
  | [atom "prop_lexicase", pop, n, mins, eps, winners] => do
      pure (ofBool (lexicaseOk (← n.asNat?) (← parseBools mins) (← eps.asBool?) (← parsePop pop) (← parsePop winners)))
  -- one winner against the case order the implementation actually drew for it
  | [atom "prop_lexicase_round", remaining, n, mins, eps, cases, w] => do
      let rem ← parsePop remaining
      let w ← parseInd w
      let cases ← cases.asNats?
      let n ← n.asNat?
      pure (ofBool (rem.contains w && cases.length == n && (List.range n).all (cases.contains ·) &&
        (lexFilter (← eps.asBool?) (← parseBools mins) cases rem).contains w))
  | _ => none

end GEVerif.Drive.C17
