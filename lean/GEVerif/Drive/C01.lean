/-
  Line-protocol handlers for C01 (well-typed programs): creation under the four tree deciders.
-/
import GEVerif.Model.Sexp
import GEVerif.Model.Synth
import GEVerif.Drive.Val
import GEVerif.Drive.C06
import GEVerif.Drive.C07

namespace GEVerif.Drive.C01
open GEVerif Sexp GEVerif.Drive

def handle : List Sexp → Option Sexp
  | [atom "create", spec, dec, draws] => do
      let g := analyse (← parseSpec spec)
      let dec ← parseDecider dec
      if !deciderValid g dec then pure (list [atom "err", atom "library"]) else
      pure (resSx valSx (randomTree g dec bigFuel (mkSynSt (← draws.asNats?))))
  | [atom "prop_wt", spec, v] => do
      let g := analyse (← parseSpec spec)
      pure (ofBool (wt g [] (.cls g.spec.start) (← parseVal v)))
  -- mapping and variation operators: same model entry points as C07 / C06
  | atom "map_ge" :: rest => C07.handle (atom "map_ge" :: rest)
  | atom "map_sge" :: rest => C07.handle (atom "map_sge" :: rest)
  | atom "map_dsge" :: rest => C07.handle (atom "map_dsge" :: rest)
  | atom "tree_mutate" :: rest => C06.handle (atom "tree_mutate" :: rest)
  | atom "tree_crossover" :: rest => C06.handle (atom "tree_crossover" :: rest)
  | _ => none

end GEVerif.Drive.C01
