/-
  Line-protocol handlers for C01 (well-typed programs): creation under the four tree deciders.
-/
import GEVerif.Model.Sexp
import GEVerif.Model.Synth
import GEVerif.Drive.Val

namespace GEVerif.Drive.C01
open GEVerif Sexp GEVerif.Drive

def handle : List Sexp → Option Sexp
  | [atom "create", spec, dec, draws] => do
      let g := analyse (← parseSpec spec)
      let dec ← parseDecider dec
      if !deciderValid g dec then pure (list [atom "err", atom "library"]) else
      pure (resSx valSx (randomTree g dec bigFuel (mkSynSt (← draws.asNats?))))
  | [atom "prop_wt", spec, v] => do
      let g := analyse (← parseSpec spec)
      pure (ofBool (wt g [] (.cls g.spec.start) (← parseVal v)))
  | _ => none

end GEVerif.Drive.C01
