/-
  Line-protocol handlers for C01 (well-typed programs): creation under the four tree deciders.
-/
import GEVerif.Model.Sexp
import GEVerif.Model.Synth
import GEVerif.Drive.Val
import GEVerif.Drive.C06
import GEVerif.Drive.C07

namespace GEVerif.Drive.C01
open GEVerif Sexp GEVerif.Drive

mutual
/-- the type with every refinement erased (`Annotated[T, mh]` ↦ `T`) -/
def stripTy : Ty → Ty
  | .list t => .list (stripTy t)
  | .tuple ts => .tuple (stripTys ts)
  | .union ts => .union (stripTys ts)
  | .ann t _ => stripTy t
  | t => t
def stripTys : List Ty → List Ty
  | [] => []
  | t :: ts => stripTy t :: stripTys ts
end

/-- the grammar with all refinements erased: well-typedness for it is C01's structural part
(refinement satisfaction is C02's) -/
def stripSpec (g : GrammarSpec) : GrammarSpec :=
  { g with classes := g.classes.map fun c => { c with fields := c.fields.map fun (n, t) => (n, stripTy t) } }

def handle : List Sexp → Option Sexp
  | [atom "prop_wt_struct", spec, v] => do
      let g := analyse (stripSpec (← parseSpec spec))
      pure (ofBool (wt g [] (.cls g.spec.start) (← parseVal v)))
  | [atom "create", spec, dec, draws] => do
      let g := analyse (← parseSpec spec)
      let dec ← parseDecider dec
      if !deciderValid g dec then pure (list [atom "err", atom "library"]) else
      pure (resSx valSx (randomTree g dec bigFuel (mkSynSt (← draws.asNats?))))
  | [atom "prop_wt", spec, v] => do
      let g := analyse (← parseSpec spec)
      pure (ofBool (wt g [] (.cls g.spec.start) (← parseVal v)))
  -- mapping and variation operators: same model entry points as C07 / C06
  | atom "map_ge" :: rest => C07.handle (atom "map_ge" :: rest)
  | atom "map_sge" :: rest => C07.handle (atom "map_sge" :: rest)
  | atom "map_dsge" :: rest => C07.handle (atom "map_dsge" :: rest)
  | atom "tree_mutate" :: rest => C06.handle (atom "tree_mutate" :: rest)
  | atom "tree_crossover" :: rest => C06.handle (atom "tree_crossover" :: rest)
  | _ => none

end GEVerif.Drive.C01
