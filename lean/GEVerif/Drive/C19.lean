/-
  Line-protocol handlers for C19 (production weights).  `handle` receives the tokens after the
  property id.

  Encodings
    rational : `(num den)`                      class : `(parent weight builtin)`
    parent   : `none` | index                   weight : `none` | rational
  Model ops
    (extract n classes)        → after each of the n successive extractions: `(ok (w₀ w₁ …))`
                                 (`Grammar.get_weights()` by class index) or `zerodiv` / `assert`
                                 (the list stops at the first error)
    (ptd_choose target depth ((recursive dist gnum) …) den draws)  → chosen index
    (ptd_slices target depth alts den) → for each alternative the number of draws that select it
    (ptd_choose_pinned …)      → what the pinned decider chose (diagnostics only)
    (stack_choose den nums draws) → chosen index
  Property predicates on IMPLEMENTATION output
    (prop_normalised classes weights)  every rule: weights within [0,1], sum exactly 1
    (prop_ratios classes weights)      every rule: declared proportions kept; non-productions unchanged
    (prop_close classes weights tol)   |impl − exact model| ≤ tol for every class, |rule sum − 1| ≤ tol·(#alternatives)
    (prop_same weights weights' tol)   a further extraction moved no weight by more than tol
    (prop_respects gnums idx)          the chosen alternative has positive weight, or none has
-/
import GEVerif.Model.Sexp
import GEVerif.Model.Weights

namespace GEVerif.Drive.C19
open GEVerif Sexp GEVerif.Weights

def parseRat : Sexp → Option Rat
  | list [n, d] => do
      let n ← n.asInt?
      let d ← d.asNat?
      if d = 0 then none else pure (mkRat n d)
  | _ => none

def ratSx (q : Rat) : Sexp := list [ofInt q.num, ofNat q.den]

def parseCls : Sexp → Option Cls
  | list [p, w, b] => do
      let parent ← match p with
        | atom "none" => some none
        | p => p.asNat?.map some
      let weight ← match w with
        | atom "none" => some none
        | w => (parseRat w).map some
      pure { parent := parent, weight := weight, builtin := ← b.asBool? }
  | _ => none

def parseGrammar (s : Sexp) : Option Grammar := do
  (← s.asList?).mapM parseCls

def parseRats (s : Sexp) : Option (List Rat) := do
  (← s.asList?).mapM parseRat

def extractSteps : Nat → Grammar → List Sexp
  | 0, _ => []
  | n + 1, g =>
    match extract g with
    | .error .zeroDivision => [atom "zerodiv"]
    | .error .assertion => [atom "assert"]
    | .ok g' => list [atom "ok", list ((getWeights g').map ratSx)] :: extractSteps n g'

def absQ (q : Rat) : Rat := if q < 0 then -q else q

/-- weights as a function of the class index -/
def asFn (ws : List Rat) (c : Nat) : Rat := ws.getD c 1

def normalised (g : Grammar) (ws : List Rat) : Sexp :=
  let bad := (rules g).filter fun r =>
    !((alts g r).all (fun c => decide (0 ≤ asFn ws c ∧ asFn ws c ≤ 1)) && sumOver (asFn ws) (alts g r) == 1)
  match bad with
  | [] => ofBool true
  | r :: _ => list [atom "rule", ofNat r, atom "sum", ratSx (sumOver (asFn ws) (alts g r))]

def ratiosKept (g : Grammar) (ws : List Rat) : Sexp :=
  let okRules := (rules g).all fun r =>
    (alts g r).all fun c₁ => (alts g r).all fun c₂ =>
      asFn ws c₁ * declared g c₂ == asFn ws c₂ * declared g c₁
  let okRest := (List.range g.length).all fun c =>
    match g[c]?.bind (·.parent) with
    | some _ => true
    | none => asFn ws c == declared g c
  if !okRules then atom "ratios-differ" else if !okRest then atom "non-production-changed" else ofBool true

def close (g : Grammar) (ws : List Rat) (tol : Rat) : Sexp :=
  match extract g with
  | .error _ => atom "model-error"
  | .ok g' =>
    let okCls := (List.range g.length).all fun c => decide (absQ (asFn ws c - declared g' c) ≤ tol)
    let okSum := (rules g).all fun r =>
      decide (absQ (sumOver (asFn ws) (alts g r) - 1) ≤ tol * ((alts g r).length : Nat))
    if !okCls then atom "weight-off" else if !okSum then atom "sum-off" else ofBool true

def parseAlts (s : Sexp) : Option (List (Bool × Nat × Nat)) := do
  (← s.asList?).mapM fun a => do
    match a with
    | list [r, d, gnum] => pure (← r.asBool?, ← d.asNat?, ← gnum.asNat?)
    | _ => none

def mkScript (draws : List Nat) : Script := { draws := draws, pos := 0 }

def optNat : Option Nat → Sexp
  | some i => ofNat i
  | none => atom "none"

def handle : List Sexp → Option Sexp
  | [atom "extract", n, classes] => do
      pure (list (extractSteps (← n.asNat?) (← parseGrammar classes)))
  | [atom "ptd_choose", target, depth, alts, den, draws] => do
      let target ← target.asNat?; let depth ← depth.asNat?
      let alts ← parseAlts alts
      let hs := alts.map fun a => heur target depth a.1 a.2.1
      let gs := alts.map fun a => a.2.2
      pure (optNat (ptdChoose scripted (← den.asNat?) hs gs (mkScript (← draws.asNats?))).1)
  | [atom "ptd_slices", target, depth, alts, den] => do
      let target ← target.asNat?; let depth ← depth.asNat?
      let alts ← parseAlts alts
      let hs := alts.map fun a => heur target depth a.1 a.2.1
      let gs := alts.map fun a => a.2.2
      let acc := accScaled (← den.asNat?) (ptdWeights hs gs)
      -- number of draws selecting each option: the slice widths, or one each under the uniform fallback
      if acc.getLastD 0 = 0 then pure (ofNats (alts.map fun _ => 1))
      else pure (ofNats ((acc.zip (0 :: acc)).map fun p => p.1 - p.2))
  | [atom "ptd_choose_pinned", target, depth, alts, den, draws] => do
      let target ← target.asNat?; let depth ← depth.asNat?
      let alts ← parseAlts alts
      let hs := alts.map fun a => heur target depth a.1 a.2.1
      let gs := alts.map fun a => a.2.2
      pure (optNat (ptdChoosePinned scripted (← den.asNat?) hs gs (mkScript (← draws.asNats?))).1)
  | [atom "stack_choose", den, nums, draws] => do
      pure (optNat (stackChoose scripted (← den.asNat?) (← nums.asNats?) (mkScript (← draws.asNats?))).1)
  | [atom "prop_normalised", classes, ws] => do
      pure (normalised (← parseGrammar classes) (← parseRats ws))
  | [atom "prop_ratios", classes, ws] => do
      pure (ratiosKept (← parseGrammar classes) (← parseRats ws))
  | [atom "prop_close", classes, ws, tol] => do
      pure (close (← parseGrammar classes) (← parseRats ws) (← parseRat tol))
  | [atom "prop_same", ws, ws', tol] => do
      let a ← parseRats ws; let b ← parseRats ws'; let tol ← parseRat tol
      pure (ofBool (a.length == b.length && (a.zip b).all fun (x, y) => decide (absQ (x - y) ≤ tol)))
  | [atom "prop_respects", gs, i] => do
      let gs ← gs.asNats?; let i ← i.asNat?
      pure (ofBool (decide (i < gs.length) && (decide (0 < gs.getD i 0) || gs.all (· == 0))))
  | _ => none

end GEVerif.Drive.C19
