/-
  Line-protocol handlers for C07 (genotype → phenotype mapping is a function of the genotype).
-/
import GEVerif.Model.Sexp
import GEVerif.Model.Linear
import GEVerif.Model.Stack
import GEVerif.Drive.Val

namespace GEVerif.Drive.C07
open GEVerif Sexp GEVerif.Drive

def parseSGE (s : Sexp) : Option SGEDna := do
  let xs ← s.asList?
  xs.mapM fun
    | list [atom k, v] => do pure (k, ← v.asInts?)
    | _ => none

def parseDSGE (s : Sexp) : Option DSGEDna := do
  let xs ← s.asList?
  xs.mapM fun
    | list [k, v] => do pure (← parseTy k, ← v.asInts?)
    | _ => none

def dsgeSx (d : DSGEDna) : Sexp := list (d.map fun (k, v) => list [tySx k, ofInts v])

def srcPos : AnySrc → Nat
  | .scripted s => s.pos
  | .gene s => s.index

/-- programs built by the stack machine carry no synthesis context -/
partial def valSxNoCtx : Val → Sexp
  | .node c _ _ args => list ([atom "n", ofNat c, atom "noctx", atom "noctx"] ++ args.map valSxNoCtx)
  | .list _ _ vs => list ([atom "l", atom "noctx", atom "noctx"] ++ vs.map valSxNoCtx)
  | .tuple vs => list (atom "t" :: vs.map valSxNoCtx)
  | v => valSx v

def handle : List Sexp → Option Sexp
  | [atom "map_stack", spec, order, limit, dna] => do
      let g := analyse (← parseSpec spec)
      let order ← (← order.asList?).mapM parseTy
      let genes ← dna.asInts?
      let lim ← limit.asNat?
      -- the operation budget of the repaired loop: failures_limit * len(dna)
      pure (resSx valSxNoCtx (Stack.mapStack g order lim (lim * genes.length) genes))
  | [atom "map_ge", spec, dec, dna] => do
      let g := analyse (← parseSpec spec)
      pure (resSx valSx (mapGE g (← parseDecider dec) bigFuel (← dna.asInts?) true))
  | [atom "map_sge", spec, dec, dna] => do
      let g := analyse (← parseSpec spec)
      pure (resSx valSx (mapSGE g (← parseDecider dec) bigFuel (← parseSGE dna) true))
  | [atom "map_dsge", spec, maxDepth, dna, shared] => do
      let g := analyse (← parseSpec spec)
      let r := mapDSGE g (← maxDepth.asNat?) bigFuel (← parseDSGE dna) { draws := ← shared.asNats?, pos := 0 }
      let st := match r with | .ok _ s => s | .err _ s => s
      pure (list [resSx valSx r, dsgeSx st.dna, ofNat (srcPos st.src)])
  | _ => none

end GEVerif.Drive.C07
