/-
  Line-protocol handlers for C10 (the grammar is read-only).  The grammar observables the
  implementation shows AFTER a history of operations are compared with the model's analysis of
  the (unchanged) class declarations; the retry loop's state model is exercised directly.
-/
import GEVerif.Model.Sexp
import GEVerif.Model.GrammarState
import GEVerif.Drive.C05
import GEVerif.Drive.C01

namespace GEVerif.Drive.C10
open GEVerif Sexp GEVerif.Drive GEVerif.GState

def parseAlts (s : Sexp) : Option (List (Nat × List Nat)) := do
  let xs ← s.asList?
  xs.mapM fun
    | list [k, v] => do pure (← k.asNat?, ← v.asNats?)
    | _ => none

def handle : List Sexp → Option Sexp
  -- (retry alts sym (failing productions) (choices…)) → chosen production and grammar afterwards
  | [atom "retry", alts, sym, failing, choices] => do
      let g : G := { alts := ← parseAlts alts }
      let failing ← failing.asNats?
      let choices ← choices.asNats?
      let att : Attempt := fun p => !failing.contains p
      -- the k-th call of the chooser returns choices[k]; the loop shrinks the list by one per call
      let n := (lookup (← sym.asNat?) g.alts).length
      let ch : Chooser := fun prods => choices.getD (n - prods.length) 0
      let (r, g') := retryCopy att ch (← sym.asNat?) g
      pure (list [match r with | some p => ofNat p | none => atom "none",
                  list (g'.alts.map fun (k, v) => list [ofNat k, ofNats v])])
  -- what is creatable after a history is what the model creates from the (unchanged) declarations
  | atom "create" :: rest => C01.handle (atom "create" :: rest)
  | rest => C05.handle rest

end GEVerif.Drive.C10
