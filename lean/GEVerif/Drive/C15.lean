/-
  Line-protocol handlers for C15 (population size).  `handle` receives the tokens after the
  property id.  Model ops run `Model/Steps.lean`; `prop_*` ops evaluate the Lean-side predicate on
  an IMPLEMENTATION output.
-/
import GEVerif.Model.Sexp
import GEVerif.Model.Steps
import GEVerif.Model.StepsWire

namespace GEVerif.Drive.C15
open GEVerif GEVerif.Steps Sexp StepsWire

def ofRanges (rs : List (Nat × Nat)) : Sexp := list (rs.map fun p => list [ofNat p.1, ofNat p.2])

def parseRanges (s : Sexp) : Option (List (Nat × Nat)) := do
  (← s.asList?).mapM fun p => do
    match p with
    | list [a, b] => pure (← a.asNat?, ← b.asNat?)
    | _ => none

/-- created individuals (id ≥ 1000) print as id 1000 when `mask` is set -/
def maskPop (mask : Bool) (xs : List Ind) : List Ind :=
  if mask then xs.map (fun x => if x.id ≥ 1000 then { x with id := 1000 } else x) else xs

def novelPop (nComps n : Nat) : List Ind := (List.range n).map (fun i => { mkNovel nComps i with id := i })

def handle : List Sexp → Option Sexp
  | [atom "ranges", ws, target] => do
      match computeRanges (← ws.asNats?) (← target.asNat?) with
      | some rs => pure (ofRanges rs)
      | none => pure err
  -- full level A: the individuals a step tree yields
  | [atom "apply", step, form, pop, k, ints, floats, nComps, mask] => do
      let pop ← parsePop pop
      let mask ← mask.asBool?
      match apply scripted ⟨← nComps.asNat?⟩ (← parseStep step) (← parseForm pop form) (← k.asNat?)
          (mkSt (← ints.asNats?) (← floats.asNats?)) with
      | some (out, _) => pure (ofPop (maskPop mask out))
      | none => pure err
  -- sizes only (used where the float-draw order of lazily chained variation steps is not modelled)
  | [atom "apply_count", step, form, pop, k, nComps] => do
      let pop ← parsePop pop
      match apply scripted ⟨← nComps.asNat?⟩ (← parseStep step) (← parseForm pop form) (← k.asNat?) (mkSt [] []) with
      | some (out, _) => pure (ofNat out.length)
      | none => pure err
  | [atom "evaluate", form, pop] => do
      let pop ← parsePop pop
      pure (ofPop (evaluateStep (← parseForm pop form)))
  | [atom "init", ini, k] => do
      pure (list ((initRun (← parseInit ini) (← k.asNat?)).map ofOrigin))
  -- generation sizes of a whole run (independent of the draws)
  | [atom "gp_sizes", step, size, gens, nComps] => do
      let n ← size.asNat?
      let nc ← nComps.asNat?
      match gpGenerations scripted ⟨nc⟩ (← parseStep step) n (← gens.asNat?) (novelPop nc n) (mkSt [] []) with
      | some (gs, _) => pure (ofNats (gs.map List.length))
      | none => pure err
  -- a whole run, individuals of every generation
  | [atom "gp", step, size, gens, pop, ints, floats, nComps, mask] => do
      let mask ← mask.asBool?
      match gpGenerations scripted ⟨← nComps.asNat?⟩ (← parseStep step) (← size.asNat?) (← gens.asNat?) (← parsePop pop)
          (mkSt (← ints.asNats?) (← floats.asNats?)) with
      | some (gs, _) => pure (list (gs.map fun g => ofPop (maskPop mask g)))
      | none => pure err
  -- property predicates evaluated on implementation output
  | [atom "prop_ranges", ws, target, rs] => do
      pure (ofBool (rangesOk (← ws.asNats?).length (← target.asNat?) (← parseRanges rs)))
  | [atom "prop_count", k, n] => do
      pure (ofBool ((← k.asNat?) == (← n.asNat?)))
  | [atom "prop_gen_counts", size, counts] => do
      let n ← size.asNat?
      pure (ofBool ((← counts.asNats?).all (· == n)))
  | _ => none

end GEVerif.Drive.C15
