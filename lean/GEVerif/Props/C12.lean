/-
  C12 — The reported best individual really is the best one evaluated.

  Statement (properties.jsonl): at every point of a search the individual reported as best has a
  fitness at least as good, in the declared optimisation direction, as every individual evaluated
  so far, and the value returned by the search is that individual.  Recorders are told an
  individual is a new best exactly when it is the first one or strictly improves on all earlier
  ones; for multi-objective problems every reported best individual attains the best aggregate
  value seen so far.

  Model: `Model/Eval.lean` (`sStep`/`sRun` = SingleObjectiveProgressTracker.post_process over a
  history, `mStep`/`mRun` = MultiObjectiveProgressTracker.evaluate with its `pareto_front` list,
  `runSearch` = the four search loops).  All theorems are for ALL histories (no length bound),
  all budgets, all algorithms.  Fitness values are an arbitrary linear order (`Int`); NaN is
  outside the model.  `C12_tracker_order_only`: under any strictly monotone re-scaling of the
  fitness values the tracker reports the same best individual and raises the same flags -- it sees
  the order of the values, not their distance (what the harness's neighbouring-float, huge-magnitude
  and +-inf histories rely on when they are judged on ranks).
-/
import GEVerif.Model.Eval
import GEVerif.Lemmas.Search

namespace GEVerif.C12
open GEVerif.Eval

/-! ## Single-objective tracker -/

private theorem sStep_some (b r : Reg) :
    sStep (some b) r = if b.agg < r.agg then (some r, true) else (some b, false) := by
  simp [sStep, isBetter]

private theorem sRun_some (b : Reg) (h : List Reg) :
    ∃ r, (sRun (some b) h).1 = some r ∧ (r = b ∨ r ∈ h) ∧ b.agg ≤ r.agg ∧ ∀ x ∈ h, x.agg ≤ r.agg := by
  induction h generalizing b with
  | nil => exact ⟨b, rfl, Or.inl rfl, Int.le_refl _, by simp⟩
  | cons r rs ih =>
    simp only [sRun, sStep_some]
    by_cases hlt : b.agg < r.agg
    · simp only [hlt, if_true]
      obtain ⟨w, hw, hmem, hle, hall⟩ := ih r
      refine ⟨w, hw, ?_, by omega, ?_⟩
      · rcases hmem with rfl | hm
        · exact Or.inr (List.mem_cons_self)
        · exact Or.inr (List.mem_cons_of_mem _ hm)
      · intro x hx
        rcases List.mem_cons.mp hx with rfl | hx
        · exact hle
        · exact hall x hx
    · simp only [hlt, if_false]
      obtain ⟨w, hw, hmem, hle, hall⟩ := ih b
      refine ⟨w, hw, ?_, hle, ?_⟩
      · rcases hmem with rfl | hm
        · exact Or.inl rfl
        · exact Or.inr (List.mem_cons_of_mem _ hm)
      · intro x hx
        rcases List.mem_cons.mp hx with rfl | hx
        · omega
        · exact hall x hx

/-- After ANY non-empty history the tracked best is one of the individuals seen and its aggregate
is the maximum seen. -/
theorem C12_best_is_max (h : List Reg) (hne : h ≠ []) :
    ∃ r, (sRun none h).1 = some r ∧ r ∈ h ∧ ∀ x ∈ h, x.agg ≤ r.agg := by
  cases h with
  | nil => exact absurd rfl hne
  | cons r rs =>
    obtain ⟨w, hw, hmem, hle, hall⟩ := sRun_some r rs
    refine ⟨w, by simpa [sRun, sStep] using hw, ?_, ?_⟩
    · rcases hmem with rfl | hm
      · exact List.mem_cons_self
      · exact List.mem_cons_of_mem _ hm
    · intro x hx
      rcases List.mem_cons.mp hx with rfl | hx
      · exact hle
      · exact hall x hx

private theorem sRun_flags_length (b : Option Reg) (h : List Reg) : (sRun b h).2.length = h.length := by
  induction h generalizing b with
  | nil => rfl
  | cons r rs ih => simp [sRun, ih]

private theorem flags_some (b : Reg) (h : List Reg) (k : Nat) (hk : k < h.length) :
    (sRun (some b) h).2[k]? = some true ↔
      (b.agg < h[k].agg ∧ ∀ j (hj : j < k), (h[j]'(Nat.lt_trans hj hk)).agg < h[k].agg) := by
  induction h generalizing b k with
  | nil => simp at hk
  | cons r rs ih =>
    simp only [sRun, sStep_some]
    cases k with
    | zero =>
      by_cases hlt : b.agg < r.agg <;> simp [hlt]
    | succ k =>
      have hk' : k < rs.length := by simpa using hk
      by_cases hlt : b.agg < r.agg
      · simp only [hlt, if_true, List.getElem?_cons_succ, List.getElem_cons_succ]
        rw [ih r k hk']
        constructor
        · rintro ⟨h1, h2⟩
          refine ⟨by omega, ?_⟩
          intro j hj
          cases j with
          | zero => simpa using h1
          | succ j => simpa using h2 j (by omega)
        · rintro ⟨h1, h2⟩
          refine ⟨by simpa using h2 0 (by omega), ?_⟩
          intro j hj
          simpa using h2 (j + 1) (by omega)
      · simp only [hlt, if_false, List.getElem?_cons_succ, List.getElem_cons_succ]
        rw [ih b k hk']
        constructor
        · rintro ⟨h1, h2⟩
          refine ⟨h1, ?_⟩
          intro j hj
          cases j with
          | zero => simp; omega
          | succ j => simpa using h2 j (by omega)
        · rintro ⟨h1, h2⟩
          refine ⟨h1, ?_⟩
          intro j hj
          simpa using h2 (j + 1) (by omega)

/-- `is_best` is reported for registration `k` exactly when it is the first one or strictly
improves on ALL earlier ones (ties and plateaus are not new bests). -/
theorem C12_flag_iff (h : List Reg) :
    (sRun none h).2.length = h.length ∧
    ∀ k (hk : k < h.length), ((sRun none h).2[k]? = some true ↔
      (k = 0 ∨ ∀ j (hj : j < k), (h[j]'(Nat.lt_trans hj hk)).agg < h[k].agg)) := by
  refine ⟨sRun_flags_length _ _, ?_⟩
  intro k hk
  cases h with
  | nil => simp at hk
  | cons r rs =>
    cases k with
    | zero => simp [sRun, sStep]
    | succ k =>
      have hk' : k < rs.length := by simpa using hk
      simp only [sRun, sStep, List.getElem?_cons_succ, List.getElem_cons_succ]
      rw [flags_some r rs k hk']
      constructor
      · rintro ⟨h1, h2⟩
        right
        intro j hj
        cases j with
        | zero => simpa using h1
        | succ j => simpa using h2 j (by omega)
      · rintro (h0 | h2)
        · omega
        · refine ⟨by simpa using h2 0 (by omega), ?_⟩
          intro j hj
          simpa using h2 (j + 1) (by omega)

/-- "At every point of a search": after every non-empty prefix of every history the tracked best
is a maximum of that prefix. -/
theorem C12_best_is_max_at_every_point (h : List Reg) (k : Nat) (hk : 0 < k) (hkl : k ≤ h.length) :
    ∃ r, (sRun none (h.take k)).1 = some r ∧ r ∈ h.take k ∧ ∀ x ∈ h.take k, x.agg ≤ r.agg := by
  apply C12_best_is_max
  intro hnil
  have hl : (h.take k).length = 0 := by rw [hnil]; rfl
  rw [List.length_take] at hl
  omega

/-- "In the declared optimisation direction": the aggregate of a single-objective problem orders
individuals by the raw fitness value when maximising and by its reverse when minimising. -/
theorem C12_direction (mn : Bool) (v w : Int) :
    ((ProblemKind.single mn).evaluate [v]).agg ≤ ((ProblemKind.single mn).evaluate [w]).agg ↔
      (if mn then w ≤ v else v ≤ w) := by
  cases mn <;> simp [ProblemKind.evaluate] <;> omega

/-! ## Multi-objective tracker (`pareto_front` list exactly as coded) -/

private theorem isDominated_flat (cur : Reg) (others : List Reg) (a : Int) (hne : others ≠ [])
    (hflat : ∀ x ∈ others, x.agg = a) : isDominated cur others = decide (cur.agg < a) := by
  cases others with
  | nil => exact absurd rfl hne
  | cons o os =>
    simp only [isDominated, isBetter]
    by_cases hlt : cur.agg < a
    · simp only [hlt, decide_true, List.all_eq_true, decide_eq_true_eq]
      intro x hx; rw [hflat x hx]; exact hlt
    · simp only [hlt, decide_false]
      rw [Bool.eq_false_iff]
      intro hall
      rw [List.all_eq_true] at hall
      have := hall o List.mem_cons_self
      rw [hflat o List.mem_cons_self] at this
      simp at this; omega

private theorem rebuild_flat (nf olds : List Reg) (a m : Int) (hne : nf ≠ []) (hma : m ≤ a)
    (hnf : ∀ x ∈ nf, x.agg = a) (hold : ∀ x ∈ olds, x.agg = m) :
    rebuild nf olds = if m < a then nf else nf ++ olds := by
  induction olds generalizing nf with
  | nil => simp [rebuild]
  | cons o os ih =>
    simp only [rebuild]
    rw [isDominated_flat o nf a hne hnf, hold o List.mem_cons_self]
    by_cases hlt : m < a
    · simp only [hlt, decide_true, Bool.not_true, Bool.false_eq_true, if_false, if_true]
      rw [ih nf hne hnf (fun x hx => hold x (List.mem_cons_of_mem _ hx))]
      simp [hlt]
    · simp only [hlt, decide_false, Bool.not_false, if_true, if_false]
      have hoa : o.agg = a := by rw [hold o List.mem_cons_self]; omega
      rw [ih (nf ++ [o]) (by simp) (by
        intro x hx
        rcases List.mem_append.mp hx with hx | hx
        · exact hnf x hx
        · simp at hx; rw [hx]; exact hoa) (fun x hx => hold x (List.mem_cons_of_mem _ hx))]
      simp [hlt]

private theorem mStep_flat (front : List Reg) (m : Int) (hne : front ≠ [])
    (hflat : ∀ x ∈ front, x.agg = m) (r : Reg) :
    mStep front r =
      if r.agg < m then (front, false) else if m < r.agg then ([r], true) else (r :: front, true) := by
  have hemp : front.isEmpty = false := by cases front <;> simp_all
  simp only [mStep, hemp, Bool.false_or, isDominated_flat r front m hne hflat]
  by_cases hlt : r.agg < m
  · simp [hlt]
  · simp only [hlt, decide_false, Bool.not_false, if_true, if_false]
    rw [rebuild_flat [r] front r.agg m (by simp) (by omega) (by simp) hflat]
    by_cases h2 : m < r.agg <;> simp [h2]

/-- generalised invariant of the multi-objective tracker -/
private theorem mRun_inv (front : List Reg) (m : Int) (hne : front ≠ [])
    (hflat : ∀ x ∈ front, x.agg = m) (h : List Reg) :
    (mRun front h).1 ≠ [] ∧
    (∃ m', (∀ x ∈ (mRun front h).1, x.agg = m') ∧ m ≤ m' ∧ ∀ y ∈ h, y.agg ≤ m') ∧
    (∀ x ∈ (mRun front h).1, x ∈ front ∨ x ∈ h) ∧
    (mRun front h).2.length = h.length ∧
    ∀ k (hk : k < h.length), ((mRun front h).2[k]? = some true ↔
      (m ≤ h[k].agg ∧ ∀ j (hj : j < k), (h[j]'(Nat.lt_trans hj hk)).agg ≤ h[k].agg)) := by
  induction h generalizing front m with
  | nil => exact ⟨hne, ⟨m, hflat, Int.le_refl _, by simp⟩, fun x hx => Or.inl hx, rfl, by simp⟩
  | cons r rs ih =>
    simp only [mRun, mStep_flat front m hne hflat r]
    by_cases hlt : r.agg < m
    · simp only [hlt, if_true]
      obtain ⟨i1, ⟨m', i2, i3, i4⟩, i5, i6, i7⟩ := ih front m hne hflat
      refine ⟨i1, ⟨m', i2, i3, ?_⟩, ?_, by simp [i6], ?_⟩
      · intro y hy
        rcases List.mem_cons.mp hy with rfl | hy
        · omega
        · exact i4 y hy
      · intro x hx
        rcases i5 x hx with h1 | h1
        · exact Or.inl h1
        · exact Or.inr (List.mem_cons_of_mem _ h1)
      · intro k hk
        cases k with
        | zero => simp; omega
        | succ k =>
          have hk' : k < rs.length := by simpa using hk
          simp only [List.getElem?_cons_succ, List.getElem_cons_succ]
          rw [i7 k hk']
          constructor
          · rintro ⟨h1, h2⟩
            refine ⟨h1, ?_⟩
            intro j hj
            cases j with
            | zero => simp; omega
            | succ j => simpa using h2 j (by omega)
          · rintro ⟨h1, h2⟩
            exact ⟨h1, fun j hj => by simpa using h2 (j + 1) (by omega)⟩
    · simp only [hlt, if_false]
      -- the new individual enters the front; the new common aggregate is r.agg
      have key : ∀ f' : List Reg, f' ≠ [] → (∀ x ∈ f', x.agg = r.agg) → (∀ x ∈ f', x = r ∨ x ∈ front) →
          (mRun f' rs).1 ≠ [] ∧
          (∃ m', (∀ x ∈ (mRun f' rs).1, x.agg = m') ∧ m ≤ m' ∧ ∀ y ∈ r :: rs, y.agg ≤ m') ∧
          (∀ x ∈ (mRun f' rs).1, x ∈ front ∨ x ∈ r :: rs) ∧
          (true :: (mRun f' rs).2).length = (r :: rs).length ∧
          ∀ k (hk : k < (r :: rs).length), ((true :: (mRun f' rs).2)[k]? = some true ↔
            (m ≤ (r :: rs)[k].agg ∧ ∀ j (hj : j < k), ((r :: rs)[j]'(Nat.lt_trans hj hk)).agg ≤ (r :: rs)[k].agg)) := by
        intro f' hne' hflat' hsub
        obtain ⟨i1, ⟨m', i2, i3, i4⟩, i5, i6, i7⟩ := ih f' r.agg hne' hflat'
        refine ⟨i1, ⟨m', i2, by omega, ?_⟩, ?_, by simp [i6], ?_⟩
        · intro y hy
          rcases List.mem_cons.mp hy with rfl | hy
          · exact i3
          · exact i4 y hy
        · intro x hx
          rcases i5 x hx with h1 | h1
          · rcases hsub x h1 with rfl | h2
            · exact Or.inr List.mem_cons_self
            · exact Or.inl h2
          · exact Or.inr (List.mem_cons_of_mem _ h1)
        · intro k hk
          cases k with
          | zero => simp; omega
          | succ k =>
            have hk' : k < rs.length := by simpa using hk
            simp only [List.getElem?_cons_succ, List.getElem_cons_succ]
            rw [i7 k hk']
            constructor
            · rintro ⟨h1, h2⟩
              refine ⟨by omega, ?_⟩
              intro j hj
              cases j with
              | zero => simpa using h1
              | succ j => simpa using h2 j (by omega)
            · rintro ⟨h1, h2⟩
              exact ⟨by simpa using h2 0 (by omega), fun j hj => by simpa using h2 (j + 1) (by omega)⟩
      by_cases h2 : m < r.agg
      · simp only [h2, if_true]
        exact key [r] (by simp) (by simp) (by simp)
      · simp only [h2, if_false]
        refine key (r :: front) (by simp) ?_ ?_
        · intro x hx
          rcases List.mem_cons.mp hx with rfl | hx
          · rfl
          · rw [hflat x hx]; omega
        · intro x hx
          rcases List.mem_cons.mp hx with rfl | hx
          · exact Or.inl rfl
          · exact Or.inr hx

/-- After any non-empty history every member of the Pareto list is one of the individuals seen
and attains the best aggregate seen. -/
theorem C12_multi_front_attains_max (h : List Reg) (hne : h ≠ []) :
    (mRun [] h).1 ≠ [] ∧ ∀ x ∈ (mRun [] h).1, x ∈ h ∧ ∀ y ∈ h, y.agg ≤ x.agg := by
  cases h with
  | nil => exact absurd rfl hne
  | cons r rs =>
    have hstep : mStep [] r = ([r], true) := by simp [mStep, rebuild]
    simp only [mRun, hstep]
    obtain ⟨i1, ⟨m', i2, i3, i4⟩, i5, _, _⟩ := mRun_inv [r] r.agg (by simp) (by simp) rs
    refine ⟨i1, ?_⟩
    intro x hx
    constructor
    · rcases i5 x hx with h1 | h1
      · simp at h1; rw [h1]; exact List.mem_cons_self
      · exact List.mem_cons_of_mem _ h1
    · intro y hy
      rw [i2 x hx]
      rcases List.mem_cons.mp hy with rfl | hy
      · exact i3
      · exact i4 y hy

/-- A recorder is told `is_best` exactly when the individual attains the best aggregate seen so
far (itself included); in particular every flagged individual attains it. -/
theorem C12_multi_flagged_attains_max (h : List Reg) :
    (mRun [] h).2.length = h.length ∧
    ∀ k (hk : k < h.length), ((mRun [] h).2[k]? = some true ↔
      ∀ j (hj : j < k), (h[j]'(Nat.lt_trans hj hk)).agg ≤ h[k].agg) := by
  cases h with
  | nil => simp [mRun]
  | cons r rs =>
    have hstep : mStep [] r = ([r], true) := by simp [mStep, rebuild]
    simp only [mRun, hstep]
    obtain ⟨_, _, _, i6, i7⟩ := mRun_inv [r] r.agg (by simp) (by simp) rs
    refine ⟨by simp [i6], ?_⟩
    intro k hk
    cases k with
    | zero => simp
    | succ k =>
      have hk' : k < rs.length := by simpa using hk
      simp only [List.getElem?_cons_succ, List.getElem_cons_succ]
      rw [i7 k hk']
      constructor
      · rintro ⟨h1, h2⟩ j hj
        cases j with
        | zero => simpa using h1
        | succ j => simpa using h2 j (by omega)
      · intro h2
        exact ⟨by simpa using h2 0 (by omega), fun j hj => by simpa using h2 (j + 1) (by omega)⟩

/-! ## The value returned by `search()` -/

/-- For every algorithm, budget and run: when the loop stops, the tracker has seen exactly the
individuals presented so far, and `search()` returns `tracker.get_best_individual()` — an
individual among those presented whose aggregate is maximal (single- and multi-objective
trackers alike); nothing is returned only if nothing was presented. -/
theorem C12_search_returns_best (a : Algo) (b : Budget) (t0 : Tracker) (init : Iter) (iters : Nat → Iter)
    (fuel m : Nat) (s : SearchState) (res : Option Reg)
    (ht0 : t0 = .single none ∨ t0 = .multi [])
    (hrun : runSearch a b t0 init iters fuel = some (m, s, res)) :
    s.tracker = t0.presentAll (presented a init iters m) ∧
    (presented a init iters m = [] → res = none) ∧
    (presented a init iters m ≠ [] →
      ∃ r, res = some r ∧ r ∈ presented a init iters m ∧ ∀ x ∈ presented a init iters m, x.agg ≤ r.agg) := by
  unfold runSearch at hrun
  cases hs : search b iters fuel 0 (a.start t0 init) with
  | none => simp [hs] at hrun
  | some r =>
    obtain ⟨k, s'⟩ := r
    simp only [hs, Option.map_some, Option.some.injEq, Prod.mk.injEq] at hrun
    obtain ⟨rfl, rfl, rfl⟩ := hrun
    obtain ⟨m, hk, _, hst, _, _⟩ := (search_eq_some_iff b iters fuel 0 _ k s').mp hs
    have hkm : k = m := by omega
    subst hkm
    have htr : s'.tracker = t0.presentAll (presented a init iters k) := by
      rw [hst, stateFrom_tracker]
      unfold presented Algo.start
      cases a <;> simp [SearchState.step, Tracker.presentAll]
    refine ⟨htr, ?_, ?_⟩
    · intro hnil
      rw [htr, hnil]
      rcases ht0 with rfl | rfl <;> rfl
    · intro hne
      rw [htr]
      rcases ht0 with rfl | rfl
      · rw [presentAll_single]
        exact C12_best_is_max _ hne
      · rw [presentAll_multi]
        obtain ⟨hf, hall⟩ := C12_multi_front_attains_max _ hne
        cases hfr : (mRun [] (presented a init iters k)).1 with
        | nil => exact absurd hfr hf
        | cons x xs =>
          have := hall x (by rw [hfr]; exact List.mem_cons_self)
          exact ⟨x, rfl, this.1, this.2⟩

/-! ## "Every individual evaluated so far"

  FULL STATEMENT (NOT provable for the code as it stands — see the witness):

      ∀ a b t0 init iters fuel m s r, runSearch a b t0 init iters fuel = some (m, s, some r) →
        ∀ x ∈ presented a init iters m ++ evaluatedUnseen a init iters m, x.agg ≤ r.agg

  The trackers only learn of individuals handed to `tracker.evaluate`.  A GP step is given the
  bare evaluator, so a step composition such as `SequenceStep(GenericMutationStep(1),
  TournamentSelection(2))` evaluates (and counts against the budget) offspring that lose their
  tournament and are never shown to the tracker.  Proved instead: `_partial` (no individual is
  evaluated behind the tracker's back — true of random search, hill climbing, (1+1) and of GP
  steps that select before they vary) and `_witness`. -/

/-- If every evaluated individual reached the tracker, the returned individual is at least as
good as every individual evaluated. -/
theorem C12_best_of_evaluated_partial (a : Algo) (b : Budget) (t0 : Tracker) (init : Iter)
    (iters : Nat → Iter) (fuel m : Nat) (s : SearchState) (r : Reg)
    (ht0 : t0 = .single none ∨ t0 = .multi [])
    (hseen : evaluatedUnseen a init iters m = [])
    (hrun : runSearch a b t0 init iters fuel = some (m, s, some r)) :
    ∀ x ∈ presented a init iters m ++ evaluatedUnseen a init iters m, x.agg ≤ r.agg := by
  intro x hx
  rw [hseen, List.append_nil] at hx
  obtain ⟨_, hnil, hne⟩ := C12_search_returns_best a b t0 init iters fuel m s (some r) ht0 hrun
  have hp : presented a init iters m ≠ [] := by
    intro h; rw [h] at hx; cases hx
  obtain ⟨r', hr', _, hall⟩ := hne hp
  cases hr'
  exact hall x hx

/-- GP, population 2, budget 4, step "mutate everything, then tournaments": the second generation
evaluates offspring 2 and 3 (aggregates 9 and 1); 3 wins both tournaments by the draw, 2 is
dropped without the tracker ever seeing it.  The search returns individual 0 (aggregate 5) although
an individual of aggregate 9 was evaluated. -/
theorem C12_gp_step_evaluation_witness :
    ¬ (∀ (a : Algo) (b : Budget) (t0 : Tracker) (init : Iter) (iters : Nat → Iter) (fuel m : Nat)
        (s : SearchState) (r : Reg),
        runSearch a b t0 init iters fuel = some (m, s, some r) →
        ∀ x ∈ presented a init iters m ++ evaluatedUnseen a init iters m, x.agg ≤ r.agg) := by
  intro hall
  have h := hall (.gp 2) (.evaluations 4) (.single none) ⟨[⟨0, 5, 5⟩, ⟨1, 3, 3⟩], 2, []⟩
    (fun _ => ⟨[⟨3, 1, 1⟩, ⟨3, 1, 1⟩], 2, [⟨2, 9, 9⟩]⟩) 5 1 ⟨4, .single (some ⟨0, 5, 5⟩)⟩ ⟨0, 5, 5⟩ (by decide)
    ⟨2, 9, 9⟩ (by decide)
  revert h
  decide

/-! ## Non-vacuity: concrete histories with ties, plateaus and late improvements -/

-- history 2,2,1,3,3: best is the FIRST individual with aggregate 3; flags first / strict only
example : sRun none [⟨0, 2, 0⟩, ⟨1, 2, 0⟩, ⟨2, 1, 0⟩, ⟨3, 3, 0⟩, ⟨4, 3, 0⟩] =
    (some ⟨3, 3, 0⟩, [true, false, false, true, false]) := by decide
-- the multi-objective list keeps every tie, newest first, and flags ties as well
example : mRun [] [⟨0, 2, 0⟩, ⟨1, 2, 0⟩, ⟨2, 1, 0⟩, ⟨3, 3, 0⟩, ⟨4, 3, 0⟩] =
    ([⟨4, 3, 0⟩, ⟨3, 3, 0⟩], [true, true, false, true, true]) := by decide
-- re-presenting the same individual duplicates it in the list (as coded)
example : (mRun [] [⟨0, 2, 0⟩, ⟨0, 2, 0⟩]).1 = [⟨0, 2, 0⟩, ⟨0, 2, 0⟩] := by decide
-- minimising: 5 is worse than 3
example : ¬ ((ProblemKind.single true).evaluate [3]).agg ≤ ((ProblemKind.single true).evaluate [5]).agg := by decide
-- a hill-climbing run (neighbourhood 2) under an evaluation budget of 4 returns the best of 5
example : runSearch (.hillClimbing 2) (.evaluations 4) (.single none) ⟨[], 0, []⟩
    (fun i => if i = 0 then ⟨[⟨0, 1, 1⟩], 1, []⟩ else ⟨[⟨2 * i - 1, 5 - i, 0⟩, ⟨2 * i, i, 0⟩], 2, []⟩) 10 =
    some (3, ⟨5, .single (some ⟨1, 4, 0⟩)⟩, some ⟨1, 4, 0⟩) := by decide
-- the same run on a multi-objective tracker returns the head of the Pareto list
example : (runSearch .randomSearch (.evaluations 3) (.multi []) ⟨[], 0, []⟩
    (fun i => ⟨[⟨i, (if i = 1 then 7 else 2), 0⟩], 1, []⟩) 10).map (·.2.2) = some (some ⟨1, 7, 0⟩) := by decide

/-! ## only the ORDER of the fitness values matters -/

def Reg.rescale (f : Int → Int) (r : Reg) : Reg := { r with agg := f r.agg }

def StrictMono (f : Int → Int) : Prop := ∀ a b, a < b → f a < f b

theorem StrictMono.lt_iff {f : Int → Int} (hf : StrictMono f) (a b : Int) : f a < f b ↔ a < b := by
  constructor
  · intro h
    rcases Int.lt_trichotomy a b with h1 | h1 | h1
    · exact h1
    · subst h1; omega
    · have := hf b a h1; omega
  · exact hf a b

private theorem sStep_rescale {f : Int → Int} (hf : StrictMono f) (b : Option Reg) (r : Reg) :
    sStep (b.map (Reg.rescale f)) (Reg.rescale f r) = ((sStep b r).1.map (Reg.rescale f), (sStep b r).2) := by
  cases b with
  | none => simp [sStep]
  | some b =>
    have hiff : (Reg.rescale f b).agg < (Reg.rescale f r).agg ↔ b.agg < r.agg := hf.lt_iff _ _
    by_cases h : b.agg < r.agg
    · have h' := hiff.2 h
      simp [sStep, isBetter, h, h']
    · have h' : ¬ (Reg.rescale f b).agg < (Reg.rescale f r).agg := fun c => h (hiff.1 c)
      simp [sStep, isBetter, h, h']

private theorem sRun_rescale {f : Int → Int} (hf : StrictMono f) (b : Option Reg) (h : List Reg) :
    sRun (b.map (Reg.rescale f)) (h.map (Reg.rescale f)) = ((sRun b h).1.map (Reg.rescale f), (sRun b h).2) := by
  induction h generalizing b with
  | nil => simp [sRun]
  | cons r rs ih =>
    simp only [List.map_cons, sRun, sStep_rescale hf, ih]

/-- **The single-objective tracker sees the ORDER of the fitness values only**: under any strictly monotone re-scaling of
the aggregates (neighbouring floats, values in the billions) it reports the same individual as best after every
registration history and raises exactly the same `is_best` flags. -/
theorem C12_tracker_order_only {f : Int → Int} (hf : StrictMono f) (h : List Reg) :
    (sRun none (h.map (Reg.rescale f))).1 = (sRun none h).1.map (Reg.rescale f) ∧
    (sRun none (h.map (Reg.rescale f))).2 = (sRun none h).2 := by
  have := sRun_rescale hf none h
  simp only [Option.map_none] at this
  rw [this]
  exact ⟨rfl, rfl⟩

example : StrictMono (fun a => 5 * a - 2) := by intro a b h; show 5 * a - 2 < 5 * b - 2; omega

theorem presentAll_append (t : Tracker) (xs ys : List Reg) : (t.presentAll xs).presentAll ys = t.presentAll (xs ++ ys) := by
  simp [Tracker.presentAll, List.foldl_append]

/-- ONE tracker through several searches (a warm start, the same algorithm object searched twice, individuals evaluated through the
tracker beforehand): the hypothesis "the tracker is fresh" of `C12_search_returns_best` is not needed.  For a tracker that has already
been presented the history `h0`, when the loop stops the tracker has seen `h0` followed by what this search presented, and `search()`
returns an individual of maximal aggregate among ALL of them -- "every individual evaluated so far" counts from the tracker's first
evaluation, not from the start of the last search. -/
theorem C12_search_returns_best_warm (a : Algo) (b : Budget) (t00 : Tracker) (h0 : List Reg) (init : Iter) (iters : Nat → Iter)
    (fuel m : Nat) (s : SearchState) (res : Option Reg)
    (ht0 : t00 = .single none ∨ t00 = .multi [])
    (hrun : runSearch a b (t00.presentAll h0) init iters fuel = some (m, s, res)) :
    s.tracker = t00.presentAll (h0 ++ presented a init iters m) ∧
    (h0 ++ presented a init iters m = [] → res = none) ∧
    (h0 ++ presented a init iters m ≠ [] →
      ∃ r, res = some r ∧ r ∈ h0 ++ presented a init iters m ∧ ∀ x ∈ h0 ++ presented a init iters m, x.agg ≤ r.agg) := by
  unfold runSearch at hrun
  cases hs : search b iters fuel 0 (a.start (t00.presentAll h0) init) with
  | none => simp [hs] at hrun
  | some r =>
    obtain ⟨k, s'⟩ := r
    simp only [hs, Option.map_some, Option.some.injEq, Prod.mk.injEq] at hrun
    obtain ⟨rfl, rfl, rfl⟩ := hrun
    obtain ⟨m, hk, _, hst, _, _⟩ := (search_eq_some_iff b iters fuel 0 _ k s').mp hs
    have hkm : k = m := by omega
    subst hkm
    have htr : s'.tracker = (t00.presentAll h0).presentAll (presented a init iters k) := by
      rw [hst, stateFrom_tracker]
      unfold presented Algo.start
      cases a <;> simp [SearchState.step, Tracker.presentAll]
    rw [presentAll_append] at htr
    refine ⟨htr, ?_, ?_⟩
    · intro hnil
      rw [htr, hnil]
      rcases ht0 with rfl | rfl <;> rfl
    · intro hne
      rw [htr]
      rcases ht0 with rfl | rfl
      · rw [presentAll_single]
        exact C12_best_is_max _ hne
      · rw [presentAll_multi]
        obtain ⟨hf, hall⟩ := C12_multi_front_attains_max _ hne
        cases hfr : (mRun [] (h0 ++ presented a init iters k)).1 with
        | nil => exact absurd hfr hf
        | cons x xs =>
          have := hall x (by rw [hfr]; exact List.mem_cons_self)
          exact ⟨x, rfl, this.1, this.2⟩

/-! ## The public ranking helpers -/

theorem sRun_fst_eq_foldl (b : Reg) (h : List Reg) :
    (sRun (some b) h).1 = some (h.foldl (fun b y => if isBetter y.agg b.agg then y else b) b) := by
  induction h generalizing b with
  | nil => rfl
  | cons r rs ih =>
    simp only [sRun, sStep, List.foldl_cons]
    split <;> exact ih _

/-- The public helper and the tracker agree: ranking a population with `best_individual` names the individual a tracker would hold
after seeing the same individuals in the same order -- ties go to the earlier one in both. -/
theorem C12_helper_best_eq_tracker (h : List Reg) : helperBest h = (sRun none h).1 := by
  cases h with
  | nil => rfl
  | cons r rs =>
    simp only [helperBest, sRun, sStep]
    exact (sRun_fst_eq_foldl r rs).symm

/-- ... hence `best_individual` returns a member of the population whose aggregate no member exceeds. -/
theorem C12_helper_best_is_max (h : List Reg) (hne : h ≠ []) :
    ∃ r, helperBest h = some r ∧ r ∈ h ∧ ∀ x ∈ h, x.agg ≤ r.agg := by
  rw [C12_helper_best_eq_tracker]
  exact C12_best_is_max h hne

/-- `is_better` is a strict order on aggregates: never both ways, never reflexive -/
theorem C12_helper_is_better_strict (a b : Reg) :
    helperIsBetter a a = false ∧ (helperIsBetter a b = true → helperIsBetter b a = false) := by
  unfold helperIsBetter isBetter
  constructor
  · simp
  · intro hab
    simp only [decide_eq_true_eq] at hab
    simp only [decide_eq_false_iff_not]
    omega

example : helperBest [⟨0, 3, 0⟩, ⟨1, 5, 0⟩, ⟨2, 5, 0⟩, ⟨3, 1, 0⟩] = some ⟨1, 5, 0⟩ := by decide

end GEVerif.C12
