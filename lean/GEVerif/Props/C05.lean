/-
  C05 — grammar analysis is exact: productions, minimum depths, recursion, reachability.

  Full statement (properties.jsonl): "the minimum depth [the grammar] reports for each symbol
  equals the depth of the shallowest program derivable from that symbol".  On the code as it
  stands this is FALSE for grammars with possibly-empty lists of non-terminal elements (an
  un-annotated `list[T]` may be `[]`, the analysis charges `dist T` for it): see
  `C05_dist_sound_witness`.  What holds, and is proved here for every grammar, every table and both
  depth-counting modes:

  * the iteration of `preprocess` never increases a value, stops after at most as many rounds as
    there are symbols, and returns a SOLUTION of the (capped) distance equations
    (`C05_iter_returns_fixpoint_or_fuel`, `C05_iter_converges`, `C05_analyse_fixpoint`);
  * every finite reported distance is ATTAINED by a derivable program (`C05_dist_upper…`): the
    reported minimum is an upper bound of the true minimum, always;
  * it is a LOWER bound over the programs without empty lists (`C05_dist_sound_partial`), hence the
    exact minimum over those (`C05_dist_exact_partial`, `C05_analyse_exact_partial`);
  * the solution of the equations is unique (`C05_fixpoint_unique`), so the reported distances do
    not depend on the order in which the loop visits its symbol set
    (`C05_analyse_order_independent`);
  * productions = registered direct subclasses (`C05_productions_exact`); reported recursive =
    lies on a cycle of the successor graph (`C05_recursive_iff_cycle`); classes kept by
    `usable_grammar` = classes reachable from the start symbol (`C05_usable_contains_reachable`).

  Hypotheses that are artefacts of the model's registration fuel (`Closed`, `ClosedNodes`: every
  symbol mentioned by a registered symbol is registered) are decidable and are stated explicitly.
  NOT proved here: the language-level reading of recursion ("can derive a program containing
  itself", needs productivity of the siblings) and "`usable_grammar` generates the same programs".

  Definitions (`GEVerif/Lemmas/Analysis.lean`): `Derives g r ty v` — the language (refinements
  ignored, lists of any length); `DerivesK g r ty v k` — the same with the derivation cost `k` of
  the grammar's depth-counting mode (`k = v.depth` when `g.e = 0`); `NoEmptyList v`; `keys d`;
  `Closed g r d` — the table's keys are closed under `succs`; `AltsRanked r rank` — the production
  relation is acyclic; `ParentRanked classes rank` — the declared inheritance is acyclic;
  `ReachPlus g r a b` — a non-empty `succs`-path; `Reach` — its reflexive closure;
  `ClosedNodes g r` — the registered symbols are closed under `succs`.
-/
import GEVerif.Lemmas.Analysis

namespace GEVerif.C05
open GEVerif GEVerif.Analysis

/-! ### 1. Productions -/

/-- The productions the extraction lists for `a` are exactly the registered classes whose declared
parent is `a`, `a` abstract ("its direct subtypes among the supplied classes"); whatever the
registration fuel. -/
theorem C05_productions_exact (g : GrammarSpec) (a p : Nat) :
    (∃ prods, (analyse g).altsOf a = some prods ∧ p ∈ prods) ↔
    (Sym.cls p ∈ (analyse g).reg.allNodes ∧ (g.classes.getD p default).parent = some a ∧
      (g.classes.getD a default).abstract = true) := by
  have hinv := regInv_analyse g
  constructor
  · rintro ⟨prods, hg, hp⟩
    obtain ⟨h1, h2, h3⟩ := hinv.sound a prods p hg hp
    exact ⟨h3, h1, h2⟩
  · rintro ⟨h1, h2, h3⟩
    exact hinv.complete p a h1 (by simp) h2 h3

/-- Hence the production relation of an analysed grammar is acyclic as soon as the declared
inheritance relation is (it always is for Python classes). -/
theorem C05_productions_acyclic (g : GrammarSpec) {rank : Nat → Nat}
    (h : ParentRanked g.classes rank) : AltsRanked (analyse g).reg rank :=
  altsRanked_analyse g h

/-! ### 2. The iteration computes a solution of the equations -/

/-- One round never increases any value. -/
theorem C05_step_decreasing (g : GrammarSpec) (r : Reg) (d : DistTable) (s : Sym) :
    lookupDist (distStep g r d) s ≤ lookupDist d s :=
  distStep_le g r d s

/-- Neither does the whole loop; the keys are unchanged. -/
theorem C05_iter_decreasing (g : GrammarSpec) (r : Reg) (fuel : Nat) (d : DistTable) :
    (∀ s, lookupDist (distIter g r fuel d) s ≤ lookupDist d s) ∧
    keys (distIter g r fuel d) = keys d :=
  ⟨distIter_le g r fuel d, keys_distIter g r fuel d⟩

/-- Started from the all-`INF` table, `distIter` either returns a table that a further round
leaves unchanged AND that solves the capped equations `d s = min INF (rhs d s)`, or it used all
its fuel: it is then the `fuel`-th iterate and every single round changed the table. -/
theorem C05_iter_returns_fixpoint_or_fuel (g : GrammarSpec) (r : Reg) (nodes : List Sym)
    (fuel : Nat) :
    let d0 : DistTable := nodes.map fun s => (s, INF)
    let d := distIter g r fuel d0
    (distStep g r d = d ∧ isFixpoint g r d = true) ∨
    (d = stepN g r fuel d0 ∧ ∀ k, k < fuel → stepN g r (k + 1) d0 ≠ stepN g r k d0) := by
  intro d0 d
  rcases distIter_stable_or_fuel g r fuel d0 with h | h
  · left
    exact ⟨h, isFixpoint_of_stable (tableInv_iter fuel (tableInv_init g r nodes)) h⟩
  · right; exact h

/-- For the tables the loop can reach, "unchanged by a round" and "solves the equations" are the
same thing. -/
theorem C05_stable_iff_fixpoint (g : GrammarSpec) (r : Reg) (nodes : List Sym) (fuel : Nat) :
    let d := distIter g r fuel (nodes.map fun s => (s, INF))
    distStep g r d = d ↔ isFixpoint g r d = true := by
  intro d
  have hinv : TableInv g r d := tableInv_iter fuel (tableInv_init g r nodes)
  exact ⟨isFixpoint_of_stable hinv, stable_of_isFixpoint (fun p hp => (hinv p hp).1)⟩

/-- The fuel is never the reason to stop: started from the all-`INF` table over `nodes`, after at
most `nodes.length` rounds nothing changes any more (every round that changes the table gives at
least one more symbol its final value), so with `nodes.length + 1` fuel or more the loop returns a
table unchanged by a round, which solves the equations. -/
theorem C05_iter_converges (g : GrammarSpec) (r : Reg) (nodes : List Sym) (fuel : Nat)
    (hf : nodes.length + 1 ≤ fuel) :
    let d := distIter g r fuel (nodes.map fun s => (s, INF))
    distStep g r d = d ∧ isFixpoint g r d = true := by
  intro d
  have hinv := tableInv_init g r nodes
  have hst : distStep g r d = d := distIter_stable hinv (by simpa using hf)
  exact ⟨hst, isFixpoint_of_stable (tableInv_iter fuel hinv) hst⟩

/-- The analysed grammar, unconditionally: the reported table is unchanged by a further round and
is a solution of the capped distance equations. -/
theorem C05_analyse_fixpoint (g : GrammarSpec) :
    distStep g (analyse g).reg (analyse g).dist = (analyse g).dist ∧
    isFixpoint g (analyse g).reg (analyse g).dist = true :=
  C05_iter_converges g _ _ _ (by omega)

/-! ### 3. Soundness (lower bound) — needs "no empty list" -/

/-- Both modes: the reported distance of a type is at most the cost of every derivation of a
program without empty lists.  `d` only needs `d s ≤ rhs d s` on its keys (any fixpoint does),
keys closed under successors and covering the symbols of `ty`. -/
theorem C05_dist_sound_cost_partial {g : GrammarSpec} {r : Reg} {d : DistTable}
    (hfix : isFixpoint g r d = true) (hcl : Closed g r d)
    {ty : Ty} (hty : ∀ s ∈ explode ty, s ∈ keys d)
    {v : Val} {k : Nat} (hd : DerivesK g r ty v k) (hne : NoEmptyList v = true) :
    distTy g.e d ty ≤ k :=
  derivesK_sound (preFix_of_isFixpoint hfix) hcl hd hne hty

/-- Node-depth mode (`g.e = 0`): the reported distance is at most the depth of every derivable
program without empty lists. -/
theorem C05_dist_sound_partial {g : GrammarSpec} {r : Reg} {d : DistTable}
    (hfix : isFixpoint g r d = true) (hcl : Closed g r d) (he : g.e = 0)
    {ty : Ty} (hty : ∀ s ∈ explode ty, s ∈ keys d)
    {v : Val} (hd : Derives g r ty v) (hne : NoEmptyList v = true) :
    distTy g.e d ty ≤ v.depth := by
  obtain ⟨k, hk⟩ := hd.toDerivesK
  rw [← derivesK_cost_eq_depth he hk]
  exact C05_dist_sound_cost_partial hfix hcl hty hk hne

/-- Why `NoEmptyList` cannot be dropped (finding: "empty list makes the reported minimum an upper
bound").  For `A ::= Leaf | Many(xs : list[A])` the analysis stops on the solution
`A ↦ 1, Leaf ↦ 1, Many ↦ 2` of the equations, with closed keys; the program `Many([])` is derivable
from `Many`, has depth 1, and the reported distance of `Many` is 2. -/
theorem C05_dist_sound_witness :
    let a := analyse witnessSpec
    a.dist = [(.cls 0, 1), (.cls 1, 1), (.cls 2, 2)] ∧
    isFixpoint witnessSpec a.reg a.dist = true ∧ Closed witnessSpec a.reg a.dist ∧
    witnessSpec.e = 0 ∧
    Derives witnessSpec a.reg (.cls 2) (.node 2 0 0 [.list 0 0 []]) ∧
    (Val.node 2 0 0 [.list 0 0 []]).depth = 1 ∧
    distTy witnessSpec.e a.dist (.cls 2) = 2 ∧
    NoEmptyList (.node 2 0 0 [.list 0 0 []]) = false := by
  refine ⟨by decide, by decide, by decide, by decide, ?_, by decide, by decide, by decide⟩
  exact .node (by decide) (.cons (.list .nil) .nil)

/-! ### 4. Attainment (upper bound) — always -/

/-- Both modes, any solution `d` of the equations, productions acyclic: a type with a finite
reported distance has a derivable program (without empty lists) whose derivation costs at most
that distance. -/
theorem C05_dist_upper_cost {g : GrammarSpec} {r : Reg} {d : DistTable}
    (hfix : isFixpoint g r d = true) {rank : Nat → Nat} (hr : AltsRanked r rank)
    {ty : Ty} (hfin : distTy g.e d ty < INF) :
    ∃ v k, DerivesK g r ty v k ∧ NoEmptyList v = true ∧ k ≤ distTy g.e d ty :=
  attInv_ty (attInv_of_isFixpoint hfix hr) ty hfin

/-- Either mode: a type with a finite reported distance derives a program at most that deep.
(No hypothesis on lists: the reported minimum is an upper bound of the true minimum depth.) -/
theorem C05_dist_upper {g : GrammarSpec} {r : Reg} {d : DistTable}
    (hfix : isFixpoint g r d = true) {rank : Nat → Nat} (hr : AltsRanked r rank)
    {ty : Ty} (hfin : distTy g.e d ty < INF) :
    ∃ v, Derives g r ty v ∧ NoEmptyList v = true ∧ v.depth ≤ distTy g.e d ty := by
  obtain ⟨v, k, h1, h2, h3⟩ := C05_dist_upper_cost hfix hr hfin
  exact ⟨v, h1.toDerives, h2, Nat.le_trans (derivesK_depth_le_cost h1) h3⟩

/-- The same for whatever the loop returns when started from the all-`INF` table — no hypothesis
at all (not even that the loop converged): every finite value ever stored is attained. -/
theorem C05_dist_upper_iter (g : GrammarSpec) (r : Reg) (nodes : List Sym) (fuel : Nat)
    {ty : Ty} :
    let d := distIter g r fuel (nodes.map fun s => (s, INF))
    distTy g.e d ty < INF →
    ∃ v k, DerivesK g r ty v k ∧ NoEmptyList v = true ∧ k ≤ distTy g.e d ty ∧
      Derives g r ty v ∧ v.depth ≤ distTy g.e d ty := by
  intro d hfin
  obtain ⟨v, k, h1, h2, h3⟩ := attInv_ty (attInv_iter fuel (attInv_init g r nodes)) ty hfin
  exact ⟨v, k, h1, h2, h3, h1.toDerives, Nat.le_trans (derivesK_depth_le_cost h1) h3⟩

/-- The analysed grammar, unconditionally: every type whose reported distance is finite has a
derivable program (without empty lists) of at most that depth — `Grammar.distOf` never
under-promises feasibility. -/
theorem C05_analyse_dist_upper (g : GrammarSpec) {ty : Ty}
    (hfin : (analyse g).distOf ty < INF) :
    ∃ v, Derives g (analyse g).reg ty v ∧ NoEmptyList v = true ∧ v.depth ≤ (analyse g).distOf ty := by
  obtain ⟨v, k, _, h2, _, h4, h5⟩ := C05_dist_upper_iter g (analyse g).reg _ _ hfin
  exact ⟨v, h4, h2, h5⟩

/-! ### 5. Exactness over programs without empty lists; uniqueness of the solution -/

/-- Both modes: for a solution of the equations the reported distance of a type is the MINIMUM
cost of deriving a program without empty lists. -/
theorem C05_dist_exact_cost_partial {g : GrammarSpec} {r : Reg} {d : DistTable}
    (hfix : isFixpoint g r d = true) (hcl : Closed g r d)
    {rank : Nat → Nat} (hr : AltsRanked r rank)
    {ty : Ty} (hty : ∀ s ∈ explode ty, s ∈ keys d) :
    (distTy g.e d ty < INF →
      ∃ v k, DerivesK g r ty v k ∧ NoEmptyList v = true ∧ k = distTy g.e d ty) ∧
    (∀ v k, DerivesK g r ty v k → NoEmptyList v = true → distTy g.e d ty ≤ k) := by
  refine ⟨fun hfin => ?_, fun v k hd hne => C05_dist_sound_cost_partial hfix hcl hty hd hne⟩
  obtain ⟨v, k, h1, h2, h3⟩ := C05_dist_upper_cost hfix hr hfin
  exact ⟨v, k, h1, h2, Nat.le_antisymm h3 (C05_dist_sound_cost_partial hfix hcl hty h1 h2)⟩

/-- Node-depth mode: the reported distance of a type is the minimum DEPTH of the derivable
programs without empty lists — attained when finite, a lower bound always. -/
theorem C05_dist_exact_partial {g : GrammarSpec} {r : Reg} {d : DistTable}
    (hfix : isFixpoint g r d = true) (hcl : Closed g r d)
    {rank : Nat → Nat} (hr : AltsRanked r rank) (he : g.e = 0)
    {ty : Ty} (hty : ∀ s ∈ explode ty, s ∈ keys d) :
    (distTy g.e d ty < INF →
      ∃ v, Derives g r ty v ∧ NoEmptyList v = true ∧ v.depth = distTy g.e d ty) ∧
    (∀ v, Derives g r ty v → NoEmptyList v = true → distTy g.e d ty ≤ v.depth) := by
  refine ⟨fun hfin => ?_, fun v hd hne => C05_dist_sound_partial hfix hcl he hty hd hne⟩
  obtain ⟨v, k, h1, h2, h3⟩ := (C05_dist_exact_cost_partial hfix hcl hr hty).1 hfin
  exact ⟨v, h1.toDerives, h2, by rw [← derivesK_cost_eq_depth he h1]; exact h3⟩

/-- The analysed grammar, both modes, no acyclicity hypothesis: if the registered symbols are
closed under successors, the reported distance of every type over registered symbols is the
minimum derivation cost (= depth when `g.e = 0`) over the programs without empty lists. -/
theorem C05_analyse_exact_partial (g : GrammarSpec)
    (hcl : Closed g (analyse g).reg (analyse g).dist)
    {ty : Ty} (hty : ∀ s ∈ explode ty, s ∈ (analyse g).reg.allNodes) :
    let a := analyse g
    (a.distOf ty < INF →
      ∃ v k, DerivesK g a.reg ty v k ∧ NoEmptyList v = true ∧ k = a.distOf ty ∧
        (g.e = 0 → Derives g a.reg ty v ∧ v.depth = a.distOf ty)) ∧
    (∀ v k, DerivesK g a.reg ty v k → NoEmptyList v = true → a.distOf ty ≤ k) ∧
    (g.e = 0 → ∀ v, Derives g a.reg ty v → NoEmptyList v = true → a.distOf ty ≤ v.depth) := by
  intro a
  have hfix : isFixpoint g a.reg a.dist = true := (C05_analyse_fixpoint g).2
  have hkeys : keys a.dist = a.reg.allNodes := by
    show keys (distIter g _ _ _) = _
    rw [keys_distIter]; simp only [keys, List.map_map, Function.comp_def, List.map_id']; rfl
  have hty' : ∀ s ∈ explode ty, s ∈ keys a.dist := by rw [hkeys]; exact hty
  have hsound : ∀ v k, DerivesK g a.reg ty v k → NoEmptyList v = true → a.distOf ty ≤ k :=
    fun v k hd hne => C05_dist_sound_cost_partial hfix hcl hty' hd hne
  refine ⟨fun hfin => ?_, hsound, fun he v hd hne => C05_dist_sound_partial hfix hcl he hty' hd hne⟩
  obtain ⟨v, k, h1, h2, h3⟩ :=
    attInv_ty (attInv_iter _ (attInv_init g a.reg a.reg.allNodes)) ty hfin
  have hk : k = a.distOf ty := Nat.le_antisymm h3 (hsound v k h1 h2)
  exact ⟨v, k, h1, h2, hk, fun he => ⟨h1.toDerives, by rw [← derivesK_cost_eq_depth he h1]; exact hk⟩⟩

/-- Uniqueness: two solutions of the capped equations with the same (closed) key set agree
everywhere — so the result cannot depend on the order in which the loop visits the symbols.
(Every cycle of the equations passes through a concrete class, which adds 1; acyclicity of the
production relation is what excludes `A ::= A`.) -/
theorem C05_fixpoint_unique {g : GrammarSpec} {r : Reg} {d d' : DistTable}
    (hfix : isFixpoint g r d = true) (hfix' : isFixpoint g r d' = true)
    (hcl : Closed g r d) (hcl' : Closed g r d')
    {rank : Nat → Nat} (hr : AltsRanked r rank)
    (hkeys : ∀ s, s ∈ keys d ↔ s ∈ keys d') (s : Sym) :
    lookupDist d s = lookupDist d' s := by
  have le_INF : ∀ {d : DistTable}, isFixpoint g r d = true → ∀ s, lookupDist d s ≤ INF := by
    intro d hf s
    by_cases hs : s ∈ keys d
    · rw [eq_rhs_of_isFixpoint hf hs]; exact Nat.min_le_left _ _
    · rw [lookupDist_not_mem hs]; exact Nat.le_refl _
  have one : ∀ {d d' : DistTable}, isFixpoint g r d = true → isFixpoint g r d' = true →
      Closed g r d' → (∀ s, s ∈ keys d → s ∈ keys d') →
      lookupDist d s < INF → lookupDist d' s ≤ lookupDist d s := by
    intro d d' hf hf' hc' hk hfin
    obtain ⟨v, k, h1, h2, h3⟩ := attInv_of_isFixpoint hf hr s hfin
    have hs' : s ∈ keys d' := hk s (mem_keys_of_lt hfin)
    have := derivesK_sound (preFix_of_isFixpoint hf') hc' h1 h2
      (by intro s' hs; cases s <;> simp [Sym.toTy, explode] at hs <;> rw [hs] <;> exact hs')
    have hd : distTy g.e d' s.toTy = lookupDist d' s := by cases s <;> rfl
    omega
  have h1 := le_INF hfix s; have h2 := le_INF hfix' s
  by_cases hfin : lookupDist d s < INF
  · have a := one hfix hfix' hcl' (fun s => (hkeys s).1) hfin
    have b := one hfix' hfix hcl (fun s => (hkeys s).2) (by omega)
    omega
  · by_cases hfin' : lookupDist d' s < INF
    · have b := one hfix' hfix hcl (fun s => (hkeys s).2) hfin'
      omega
    · omega

/-- Order independence for the analysed grammar: ANY solution of the equations over the
registered symbols — in particular the one a loop visiting the symbols in another order would stop
on — is the reported table. -/
theorem C05_analyse_order_independent (g : GrammarSpec) {rank : Nat → Nat}
    (hrank : ParentRanked g.classes rank)
    (hcl : Closed g (analyse g).reg (analyse g).dist)
    {d' : DistTable} (hfix' : isFixpoint g (analyse g).reg d' = true)
    (hkeys : ∀ s, s ∈ keys d' ↔ s ∈ (analyse g).reg.allNodes) (s : Sym) :
    lookupDist d' s = lookupDist (analyse g).dist s := by
  have hk : keys (analyse g).dist = (analyse g).reg.allNodes := by
    show keys (distIter g _ _ _) = _
    rw [keys_distIter]; simp only [keys, List.map_map, Function.comp_def, List.map_id']; rfl
  have hcl' : Closed g (analyse g).reg d' := by
    intro x hx y hy
    rw [hkeys] at hx ⊢
    rw [← hk] at hx ⊢
    exact hcl x hx y hy
  exact C05_fixpoint_unique hfix' (C05_analyse_fixpoint g).2 hcl' hcl
    (C05_productions_acyclic g hrank) (fun s => by rw [hkeys, hk]) s

/-! ### 6. Recursion = a cycle of the successor graph -/

/-- Whatever the fuel: a symbol reported recursive lies on a cycle of `succs`. -/
theorem C05_recursive_sound (g : GrammarSpec) (r : Reg) (s : Sym) :
    isRecursive g r s = true → ReachPlus g r s s := by
  intro h
  have hm : s ∈ reachFrom g r (r.allNodes.length + 1) [s] [] := by
    simpa [isRecursive] using h
  exact reachFrom_sound g r s _ _ _ (by intro y hy; simp at hy; exact .inl hy.symm)
    (by intro y hy; simp at hy) s hm

/-- A registered symbol is reported recursive exactly when there is a non-empty path
`s → … → s` along `succs` — provided the registered symbols are closed under `succs` (then the
fuel `allNodes.length + 1` of the closure is enough: `reachFrom_complete`). -/
theorem C05_recursive_iff_cycle {g : GrammarSpec} {r : Reg} (hcl : ClosedNodes g r)
    {s : Sym} (hs : s ∈ r.allNodes) :
    isRecursive g r s = true ↔ ReachPlus g r s s := by
  have hU : ∀ x, ReachPlus g r s x → x ∈ r.allNodes := fun x hx => hx.mem_of_closed hcl hs
  rw [← mem_reachFrom_iff hU s]
  simp [isRecursive]

/-- The `recursive` list of the analysed grammar. -/
theorem C05_analyse_recursive (g : GrammarSpec) (hcl : ClosedNodes g (analyse g).reg) (s : Sym) :
    s ∈ (analyse g).recursive ↔ s ∈ (analyse g).reg.allNodes ∧ ReachPlus g (analyse g).reg s s := by
  show s ∈ List.filter _ _ ↔ _
  rw [List.mem_filter]
  constructor
  · rintro ⟨h1, h2⟩; exact ⟨h1, (C05_recursive_iff_cycle hcl h1).1 h2⟩
  · rintro ⟨h1, h2⟩; exact ⟨h1, (C05_recursive_iff_cycle hcl h1).2 h2⟩

/-! ### 7. The reachable classes -/

/-- Whatever the fuel: every class `usable_grammar` keeps is reachable from the start symbol. -/
theorem C05_reachable_classes_sound (g : Grammar) (n : Nat) :
    n ∈ reachableClasses g → Reach g.spec g.reg (.cls g.spec.start) (.cls n) := by
  intro h
  simp only [reachableClasses, List.mem_filterMap] at h
  obtain ⟨s, hs, hsn⟩ := h
  have : s = .cls n := by
    cases s <;> simp at hsn
    rw [hsn]
  subst this
  rcases mem_addAll.1 hs with h | h
  · left; exact (List.mem_singleton.1 h).symm
  · right
    exact reachFrom_sound g.spec g.reg _ _ _ _ (by intro y hy; simp at hy; exact .inl hy.symm)
      (by intro y hy; simp at hy) _ h

/-- The classes `usable_grammar` re-extracts with are exactly the classes reachable (in zero or
more steps) from the start symbol, when the registered symbols are closed under `succs`. -/
theorem C05_usable_contains_reachable (g : Grammar) (hcl : ClosedNodes g.spec g.reg)
    (hs : Sym.cls g.spec.start ∈ g.reg.allNodes) (n : Nat) :
    n ∈ reachableClasses g ↔ Reach g.spec g.reg (.cls g.spec.start) (.cls n) := by
  refine ⟨C05_reachable_classes_sound g n, fun h => ?_⟩
  have hU : ∀ x, ReachPlus g.spec g.reg (.cls g.spec.start) x → x ∈ g.reg.allNodes :=
    fun x hx => hx.mem_of_closed hcl hs
  simp only [reachableClasses, List.mem_filterMap]
  refine ⟨.cls n, mem_addAll.2 ?_, rfl⟩
  rcases h with h | h
  · left; simp at h; simp [h]
  · right; exact (mem_reachFrom_iff hU _).2 h

/-! ### Non-vacuity (example grammars `witnessSpec`, `exSpec` are defined in Lemmas/Analysis.lean) -/

example : (analyse (exSpec false)).dist =
    [(.cls 0, 1), (.cls 1, 1), (.int, 0), (.cls 2, 2), (.cls 3, 2), (.cls 4, 2), (.bool, 0),
     (.cls 5, 2)] := by decide
example : (analyse (exSpec true)).dist =
    [(.cls 0, 3), (.cls 1, 2), (.int, 1), (.cls 2, 4), (.cls 3, 4), (.cls 4, 5), (.bool, 1),
     (.cls 5, 4)] := by decide

/-- the hypotheses of the exactness theorems hold for the analysed example, in both modes -/
example : ∀ b : Bool,
    let a := analyse (exSpec b)
    distStep (exSpec b) a.reg a.dist = a.dist ∧ isFixpoint (exSpec b) a.reg a.dist = true ∧
    Closed (exSpec b) a.reg a.dist ∧ (∀ s ∈ explode (.cls 0), s ∈ a.reg.allNodes) ∧
    a.distOf (.cls 0) < INF := by decide

example : AltsRanked (analyse (exSpec false)).reg exRank :=
  C05_productions_acyclic _ (exRanked false)

example : (analyse (exSpec false)).altsOf 0 = some [1, 2, 3, 4, 5] := by decide

/-- closure of the registered symbols; `Add`, `Neg`, `Pair`, `U` and `Expr` lie on cycles, `Lit`
does not; the unreachable class is not kept -/
example : ClosedNodes (exSpec false) (analyse (exSpec false)).reg ∧
    Sym.cls (exSpec false).start ∈ (analyse (exSpec false)).reg.allNodes ∧
    (analyse (exSpec false)).recursive = [.cls 0, .cls 2, .cls 3, .cls 4, .cls 5] ∧
    reachableClasses (analyse (exSpec false)) = [0, 1, 2, 3, 4, 5] := by decide

/-- registered but unreachable: starting from `Lit`, registration walks up to `Expr` and down to all
its considered subclasses, none of which `Lit` can reach -/
example : reachableClasses (analyse { exSpec false with start := 1 }) = [1] ∧
    (analyse { exSpec false with start := 1 }).classNodes = [1, 0, 2, 3, 4, 5] ∧
    ClosedNodes { exSpec false with start := 1 } (analyse { exSpec false with start := 1 }).reg := by
  decide

/-- a cycle, as a path: `Expr → Add → Expr` -/
example : ReachPlus (exSpec false) (analyse (exSpec false)).reg (.cls 0) (.cls 0) :=
  .tail (.step (b := .cls 2) (by decide)) (by decide)

/-- a derivable program with an empty-list-free value, and its cost in both modes -/
example : DerivesK (exSpec true) (analyse (exSpec true)).reg (.cls 0) (.node 1 0 0 [.int 7]) 3 := by
  have h : DerivesK (exSpec true) (analyse (exSpec true)).reg (.cls 1) (.node 1 0 0 [.int 7])
      (1 + max (exSpec true).e 0) := .node (by decide) (.cons (.int 7) .nil)
  exact .abs (n := 0) (p := 1) (prods := [1, 2, 3, 4, 5]) (by decide) (by decide) (by decide) h

end GEVerif.C05
