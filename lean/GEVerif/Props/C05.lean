/-
  C05 — grammar analysis is exact (placeholder for the theorems; filled in below).
-/
import GEVerif.Model.Grammar

namespace GEVerif.C05
open GEVerif

theorem C05_placeholder : True := trivial

end GEVerif.C05
